import Tumfl.Spec.Show
import Tumfl.Model.Lexer
import Tumfl.Model.Dump
import Tumfl.Model.Layout
import Tumfl.Model.FormatI
import Tumfl.Model.Resolve
/-!
# Line-protocol driver

One request per line: `op<TAB>arg...`; text arguments are the hex of their UTF-8 bytes.
One canonical answer line per request.  Unknown or malformed requests answer `bad-op`.
-/
open Tumfl

def hexVal (c : Char) : Option Nat :=
  if '0' ≤ c && c ≤ '9' then some (c.toNat - 48)
  else if 'a' ≤ c && c ≤ 'f' then some (c.toNat - 87)
  else if 'A' ≤ c && c ≤ 'F' then some (c.toNat - 55)
  else none

def hexToBytes (s : String) : Option ByteArray := do
  let cs := s.toList
  let rec go : List Char → ByteArray → Option ByteArray
    | [], acc => some acc
    | a :: b :: r, acc => do
      let x ← hexVal a
      let y ← hexVal b
      go r (acc.push (UInt8.ofNat (x * 16 + y)))
    | _, _ => none
  go cs ByteArray.empty

def decodeText (s : String) : Option (List Char) := do
  let bs ← hexToBytes s
  let str ← String.fromUTF8? bs
  some str.toList

def hexOfText (cs : List Char) : String :=
  let bs := (String.ofList cs).toUTF8
  bs.foldl (fun acc b => acc ++ (if b < 16 then "0" else "") ++ Spec.natHex b.toNat) ""

def showTk : Spec.Tk → String
  | .kw s => s!"kw {s}"
  | .sym s => s!"sym {s}"
  | .name s => s!"name {s}"
  | .str v => Spec.sp ("str" :: v.map Spec.showUnit)
  | .num n => s!"num {Spec.showNumVal (Spec.numValue n)}"
  | .eof => "eof"

/-- (line, column) of every offset of a sorted offset list, in one pass over the text
(agrees with `Spec.posOf`, which is the definition the theorems use). -/
def positions (src : List Char) (offs : List Nat) : List (Nat × Nat) :=
  let rec go : List Char → Nat → Nat → Nat → List Nat → List (Nat × Nat) → List (Nat × Nat)
    | _, _, _, _, [], acc => acc.reverse
    | [], _, line, col, _ :: os, acc => go [] 0 line col os ((line, col) :: acc)
    | c :: cs, i, line, col, o :: os, acc =>
      if o ≤ i then go (c :: cs) i line col os ((line, col) :: acc)
      else if c == '\n' then go cs (i + 1) (line + 1) 1 (o :: os) acc
      else go cs (i + 1) line (col + 1) (o :: os) acc
  go src 0 1 1 offs []

def showTokAt (t : Spec.Tok) (lc : Nat × Nat) : String :=
  s!"({showTk t.tk} @ {lc.1} {lc.2} {Spec.par (t.comments.map fun cm => "c" ++ hexOfText cm)})"

def showToks (src : List Char) (ts : List Spec.Tok) : String :=
  Spec.sp (List.zipWith showTokAt ts (positions src (ts.map (·.off))))

def optHex (o : Option (List Char)) : String :=
  match o with | some cs => "s" ++ hexOfText cs | none => "-"

def showMTok (t : Model.Token) : String :=
  let v := match t.value with
    | .str cs => "S" ++ hexOfText cs
    | .num n => s!"N{n.isHex}:{optHex n.ip}:{optHex n.fp}:{optHex n.ex}:{optHex n.fo}"
  s!"{t.type.name}|{v}|{t.line}|{t.column}|{",".intercalate (t.comment.map fun c => "c" ++ hexOfText c)}"

def showPyErr : Model.PyErr → String
  | .lexer _ l c => s!"lexer {l} {c}"
  | .parser _ t hs => s!"parser {t.type.name} {t.line} {t.column} {Model.dumpHints hs}"
  | .dependency _ t => s!"dependency {t.line} {t.column}"
  | .py k site => s!"py {k} {site}"
  | .fuel => "fuel"

def showPiece : Model.Piece → String
  | .str s => "S" ++ hexOfText s
  | .sep .statement => "stmt" | .sep .newline => "newline" | .sep .argument => "arg" | .sep .space => "space"
  | .sep .dot => "dot" | .sep .indent => "indent" | .sep .deindent => "deindent" | .sep .block => "block"

def showPieces (ps : Model.Pieces) : String := " ".intercalate (ps.map showPiece)

def parseStyle (fs : List String) : Option Model.Style :=
  match fs with
  | [a, b, c, d, e, f, g, h, i, j, k, l, m, n, o] => do
    let sa ← decodeText a
    let sb ← decodeText b
    let sc ← decodeText c
    let se ← decodeText e
    some { statementSeparator := sa, indentation := sb, argumentSeparator := sc, includeComments := d == "1", commentSep := se,
           useSingleQuote := f == "1", useCallShorthand := g == "1", removeUnnecessaryChars := h == "1", addAllBrackets := i == "1",
           addCloseBrackets := j == "1", spaceInTable := k == "1", newlineLimit := l.toNat!, lineWidth := m.toNat!,
           blockSpacer := n.toNat!, keepSemicolon := o == "1" }
  | _ => none

/-- every stage of `format` on the model, as one line -/
def formatStages (sty : Model.Style) (ast : Model.Block) : String :=
  let ts0 := Model.emitI sty ast
  let stage (name : String) (r : Except Model.PyErr Model.Pieces) (k : Model.Pieces → String) : String :=
    match r with
    | .error e => s!"{name}=ERR {showPyErr e}"
    | .ok ps => s!"{name}={showPieces ps}" ++ k ps
  s!"emit={showPieces ts0}" ++
  stage " | remove" (if sty.removeUnnecessaryChars then Model.removeSeparators ts0 else .ok ts0) fun ts1 =>
  stage " | brackets" (if sty.lineWidth > 0 then Model.indentBrackets ts1 sty else .ok ts1) fun ts2 =>
  stage " | spacing" (if sty.blockSpacer > 0 then Model.addSpacing ts2 sty else .ok ts2) fun ts3 =>
  let ts4 := Model.Piece.str ("--".toList ++ sty.commentSep ++ "tumfl".toList) :: Model.Piece.sep .newline :: ts3
  let ts5 := Model.removeOrphaned ts4
  s!" | orphans={showPieces ts5}" ++
  stage " | resolve" (Model.resolveTokens sty ts5) fun ts6 =>
  stage " | indent" (Model.indentLoop sty.indentation ts6 0 false) fun _ =>
  match Model.formatI sty ast with
  | .ok out => " | text=" ++ hexOfText out
  | .error e => " | text=ERR " ++ showPyErr e

def handle (line : String) : String :=
  match line.splitOn "\t" with
  | ["refparse", h] =>
    match decodeText h with
    | none => "bad-op"
    | some src =>
      match Spec.parse src with
      | .ok b => "ok " ++ Spec.showBlock (Spec.normBlock b)
      | .error (.lex m o) => s!"lexerr {o} {m}"
      | .error (.parse m o) => s!"parseerr {o} {m}"
  | ["refparse_raw", h] =>
    match decodeText h with
    | none => "bad-op"
    | some src =>
      match Spec.parse src with
      | .ok b => "ok " ++ Spec.showBlock b
      | .error (.lex m o) => s!"lexerr {o} {m}"
      | .error (.parse m o) => s!"parseerr {o} {m}"
  | ["features", h] =>
    match decodeText h with
    | none => "bad-op"
    | some src =>
      match Spec.lex src with
      | .error _ => "lexerr"
      | .ok ts =>
        let k2 := ts.any fun t => match t.tk with
          | .num n => (match n.fp, n.ex with | some [], none => true | _, _ => false)
          | _ => false
        let k3 := ts.any fun t => match t.tk with
          | .num n => n.hex && n.ip.isEmpty
          | _ => false
        let k1 := match Spec.parseToks ts with
          | .ok b => decide (((Spec.showBlock (Spec.normBlock b)).splitOn "(paren ").length > 1)
          | .error _ => false
        let hi := ts.any fun t => match t.tk with
          | .str v => v.any fun u => match u with
            | .byte _ => true
            | .ch c => c > 0x10FFFF || (0xD800 ≤ c && c ≤ 0xDFFF)
          | _ => false
        let cr := src.any (· == '\r')
        s!"ok k1={k1} k2={k2} k3={k3} bytes={hi} cr={cr}"
  | ["reflex", h] =>
    match decodeText h with
    | none => "bad-op"
    | some src =>
      match Spec.lex src with
      | .ok ts => "ok " ++ showToks src ts
      | .error (.mk m o) => s!"lexerr {o} {m}"
  | ["mlex", typed, h] =>
    match decodeText h with
    | none => "bad-op"
    | some src =>
      match Model.lexText { typed := typed == "1" } src with
      | .ok ts => "ok " ++ Spec.sp (ts.map showMTok)
      | .error e => "err " ++ showPyErr e
  | ["mparse", h] =>
    match decodeText h with
    | none => "bad-op"
    | some src =>
      match Model.parseText src with
      | .ok (b, hs) => "ok " ++ Model.dumpHints hs ++ " " ++ Model.dumpBlock b
      | .error e => "err " ++ showPyErr e
  | "mformat" :: h :: styleFields =>
    match decodeText h, parseStyle styleFields with
    | some src, some sty =>
      match Model.parseText src with
      | .ok (b, _) => "ok " ++ formatStages sty b
      | .error e => "err " ++ showPyErr e
    | _, _ => "bad-op"
  | "mresolve" :: main :: sps :: dirs :: files =>
    let toPath (s : String) : Model.Path := (s.splitOn "/").filter (· != "")
    let listOf (s : String) : List Model.Path := if s == "-" then [] else (s.splitOn ";").map toPath
    let fileList : Option (List (Model.Path × List Char)) := files.mapM fun f =>
      match f.splitOn "=" with
      | [p, h] => (decodeText h).map fun c => (toPath p, c)
      | _ => none
    match fileList with
    | none => "bad-op"
    | some fl =>
      let fs : Model.FS := { files := fl, dirs := listOf dirs }
      let total := fl.foldl (fun a x => a + x.2.length) 0
      match Model.resolveRecursive fs (toPath main) (listOf sps) (8 * total + 200) with
      | .ok b => "ok " ++ Model.dumpBlock b
      | .error e => "err " ++ showPyErr e
  | "munit" :: "findlevel" :: h :: [] =>
    match decodeText h with
    | some v => s!"ok {Model.findLevel v}"
    | none => "bad-op"
  | "munit" :: "sep" :: a :: b :: [] =>
    match decodeText a, decodeText b with
    | some x, some y => (match Model.sepRequired x y with | .ok r => s!"ok {r}" | .error e => "err " ++ showPyErr e)
    | _, _ => "bad-op"
  | "munit" :: "escpos" :: h :: [] =>
    match decodeText h with
    | some v => "ok " ++ " ".intercalate (((Model.escapePositions (v.length + 1) 0 v).mergeSort (· ≤ ·)).eraseDups.map toString)
    | none => "bad-op"
  | "munit" :: "newlinepos" :: h :: m :: [] =>
    match decodeText h, m.toInt? with
    | some v, some k => s!"ok {Model.getNewlinePos v k}"
    | _, _ => "bad-op"
  | "munit" :: "comment" :: h :: styleFields =>
    match decodeText h, parseStyle styleFields with
    | some v, some sty => "ok " ++ showPieces (Model.formatComment sty v)
    | _, _ => "bad-op"
  | "munit" :: "string" :: h :: styleFields =>
    match decodeText h, parseStyle styleFields with
    | some v, some sty => "ok " ++ showPieces (Model.visitString sty v)
    | _, _ => "bad-op"
  | "munit" :: "stringident" :: h :: ind :: styleFields =>
    match decodeText h, ind.toInt?, parseStyle styleFields with
    | some v, some i, some sty => (match Model.stringIdent v i sty with | .ok ps => "ok " ++ showPieces ps | .error e => "err " ++ showPyErr e)
    | _, _, _ => "bad-op"
  | "mpass" :: pass :: ph :: styleFields =>
    -- one layout pass on an arbitrary piece list (pieces in the `showPieces` format, blank-separated, `-` for the empty list)
    let parsePiece (w : String) : Option Model.Piece :=
      if w.startsWith "S" then (decodeText (w.drop 1).toString).map Model.Piece.str
      else match w with
        | "stmt" => some (.sep .statement) | "newline" => some (.sep .newline) | "arg" => some (.sep .argument) | "space" => some (.sep .space)
        | "dot" => some (.sep .dot) | "indent" => some (.sep .indent) | "deindent" => some (.sep .deindent) | "block" => some (.sep .block)
        | _ => none
    let pieces : Option Model.Pieces := if ph == "-" then some [] else (ph.splitOn " ").mapM parsePiece
    match pieces, parseStyle styleFields with
    | some ps, some sty =>
      let showR (r : Except Model.PyErr Model.Pieces) : String :=
        match r with | .ok x => "ok " ++ showPieces x | .error e => "err " ++ showPyErr e
      match pass with
      | "remove" => showR (Model.removeSeparators ps)
      | "brackets" => showR (Model.indentBrackets ps sty)
      | "spacing" => showR (Model.addSpacing ps sty)
      | "orphans" => "ok " ++ showPieces (Model.removeOrphaned ps)
      | "resolve" => showR (Model.resolveTokens sty ps)
      | "indent" => showR (Model.indentLoop sty.indentation ps 0 false)
      | "join" => "ok " ++ hexOfText (Model.joinTokens ps)
      | _ => "bad-op"
    | _, _ => "bad-op"
  | ["numval", h] =>
    match decodeText h with
    | none => "bad-op"
    | some src =>
      match Spec.lex src with
      | .ok [{ tk := .num n, .. }, { tk := .eof, .. }] => "ok " ++ Spec.showNumVal (Spec.numValue n)
      | _ => "notnum"
  | _ => "bad-op"

partial def loop (inp : IO.FS.Stream) (out : IO.FS.Stream) : IO Unit := do
  let line ← inp.getLine
  if line.isEmpty then return ()
  let l := if line.endsWith "\n" then (line.dropEnd 1).toString else line
  out.putStrLn (handle l)
  loop inp out

def main : IO Unit := do
  let out ← IO.getStdout
  loop (← IO.getStdin) out
  out.flush
