import Tumfl.Theory.ParseAgreeExamples
import Tumfl.Theory.ParsePrintableExamples
/-!
# C03 / C10  The parser accepts exactly the valid chunks and builds the tree the grammar assigns

`parseText` is the model of `tumfl.parse` up to `ast.parent(None)` (T2-tied: whole AST with token positions, comments and hint
stack on every input of the streams).  `Spec.Accepts src c` is the reference: the reference lexer (llex.c) reads `src` into tokens and
the reference parser (lparser.c) reads those tokens - for some amount of recursion fuel - as one block `c` followed by the end of input.

* `C10_parse_sound`: if `parse` succeeds on a text without carriage returns, the text is a valid Lua chunk (`Accepts`), and the tree
  returned is the reference tree with its parentheses erased (`BlockRel`).  So trailing text, missing table separators, assignment to
  non-variables, malformed numerals, foreign white space are all rejected - a successful parse never turns an invalid script into a
  valid-looking program.
* `C03_parse_complete`: every valid chunk whose string literals are in scope (no byte escapes >= 128, no surrogates) is accepted, with
  that tree: precedence, associativity, suffix chains, every statement form with its parts in order, names / strings / numerals with the
  value Lua reads (`TkRel`).
* `C03_accept_iff`: acceptance coincides.
* `Parse_printable`: what `parse` returns is `Printable` (the hypothesis of `Print_sim`): identifiers, numerals, name slots, targets, chunk flags.
* `Accepts_unique`, `Accepts_of_parse`, `Parse_of_accepts`: `Accepts` is a function of the text, and agrees with the executable `Spec.parse` (the
  oracle of the streams) whenever the latter's fixed fuel does not run dry.
Both scope hypotheses are necessary (`noCR_needed`, `inScope_needed`).  NOT covered: "parentheses that change meaning are not lost" - `BlockRel`
erases every parenthesis, the model AST has no parenthesis node; that clause of C03 is false on the pinned tree (known finding K1); the
kind of a numeral with a dangling dot / without integer part (K2, K3) is part of `TkRel` through `NumRel` on the *printed* form only.
-/
namespace Tumfl.Props
open Tumfl.Model Tumfl.Theory

theorem C10_parse_sound (src : List Char) (hcr : NoCR src) (b : Block) (hs : List Hint) (h : parseText src = .ok (b, hs)) :
    ∃ c, Spec.Accepts src c ∧ BlockRel b c :=
  parse_sound src hcr b hs h

theorem C03_parse_complete (src : List Char) (c : Spec.Block) (h : Spec.Accepts src c)
    (hin : ∀ ts, Spec.lex src = .ok ts → ∀ x ∈ ts, InScopeTk x.tk) :
    ∃ b hs, parseText src = .ok (b, hs) ∧ BlockRel b c :=
  parse_complete src c h hin

theorem C03_accept_iff (src : List Char) (hcr : NoCR src) (hin : ∀ ts, Spec.lex src = .ok ts → ∀ x ∈ ts, InScopeTk x.tk) :
    (∃ b hs, parseText src = .ok (b, hs)) ↔ (∃ c, Spec.Accepts src c) :=
  parse_accept_iff src hcr hin

theorem Parse_printable (src : List Char) (b : Block) (hs : List Hint) (h : parseText src = .ok (b, hs)) : Printable b :=
  parseText_printable src b hs h

theorem Accepts_unique {src : List Char} {c c' : Spec.Block} (h : Spec.Accepts src c) (h' : Spec.Accepts src c') : c = c' :=
  accepts_det h h'

theorem Accepts_of_parse {src : List Char} {c : Spec.Block} (h : Spec.parse src = .ok c) : Spec.Accepts src c :=
  Spec.accepts_of_parse h

theorem C10_needs_noCR : (∃ b hs, parseText cr1 = .ok (b, hs)) ∧ ¬ ∃ c, Spec.Accepts cr1 c := noCR_needed
theorem C03_needs_inScope : (∃ c, Spec.Accepts byte1 c) ∧ ¬ ∃ b hs, parseText byte1 = .ok (b, hs) := inScope_needed

/-- non-vacuity: a 330-character program with every statement kind is accepted by both sides, and `x = = 1` by neither -/
theorem Parse_example_sound : ∃ b hs c, parseText prog1 = .ok (b, hs) ∧ Spec.Accepts prog1 c ∧ BlockRel b c := prog1_sound
theorem Parse_example_rejects : ¬ ∃ b hs, parseText bad1 = .ok (b, hs) := bad1_model_rejects

end Tumfl.Props
