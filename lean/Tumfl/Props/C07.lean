import Tumfl.Theory.Numeral
/-!
# C07  Numeric constants keep their kind and exact value

For every text `src` the reference grammar accepts as a numeral `n` (`Spec.parseNumeral`, from l_str2int / l_str2d), followed by
anything that does not continue it, the model of `Lexer.get_number` (T2-tied) scans exactly `src`, and `Number.__str__` of the
scanned tuple is again a numeral of the reference grammar with the same kind and the same exact value - except for the two known
findings K2 (`5.`) and K3 (`0x.8`), for which the negation is proved by evaluation (`Theory/Numeral.lean`, the two `example`s).
-/
namespace Tumfl.Props
open Tumfl.Model Tumfl.Theory

theorem C07_partial (src rest : List Char) (n : Spec.Numeral) (hp : Spec.parseNumeral src = some n)
    (hk2 : ¬ K2 n) (hk3 : ¬ K3 n) (hb : Boundary rest) (s : LexSt) (hs : s.rest = src ++ rest) :
    ∃ n', (getNumber s).2.rest = rest ∧ Spec.parseNumeral (numberStr (getNumber s).1) = some n' ∧
      Spec.numValue n' = Spec.numValue n :=
  C07_roundtrip src rest n hp hk2 hk3 hb s hs

/-- without the exclusions: the printed text is always the canonical respelling (lower case, no empty fraction, "0"/"1" for a
missing integer part) - which is what makes K2 and K3 the *only* ways the value can change -/
theorem C07_canonical (src rest : List Char) (n : Spec.Numeral) (hp : Spec.parseNumeral src = some n) (hb : Boundary rest)
    (s : LexSt) (hs : s.rest = src ++ rest) :
    (getNumber s).2.rest = rest ∧ Spec.parseNumeral (numberStr (getNumber s).1) = some (canon n) :=
  C07_roundtrip_canon src rest n hp hb s hs

end Tumfl.Props
