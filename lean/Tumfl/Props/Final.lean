import Tumfl.Theory.FormatTextG
import Tumfl.Theory.ReadSimTCG
import Tumfl.Theory.EmitI
import Tumfl.Theory.FormatTotal
import Tumfl.Props.Format
import Tumfl.Inst.Styles
/-!
# C01 / C02 / C08  `format(parse(src))` denotes the same program - for every documented style

`formatI` is the model of `tumfl.format` as the code stands (emitter after fix 32, every layout pass, final strip), compared with the real code stage by
stage on every run (T2:format, T2:units).  `parseText` is the model of `tumfl.parse` (T2:parse).  `Spec.Accepts` is the reference lexer + parser.

**`C01_same_program`**: for every source text without carriage returns that `parse` accepts and every style whose separators are of the documented kinds -
any line width, newline limit, block spacer, any of the eight Boolean switches - if `format` returns `out`, then `out` is a valid Lua chunk and its
reference tree equals the reference tree of the source after `normS` (parentheses erased, empty statements dropped, numerals replaced by their canonical
form; `normS` identifies nothing else: `Same_normS_strength`).  The only remaining hypothesis concerns comments: they are switched off, or no comment
of the source has a blank directly in front of an inner line break (the per-line right-strip of `format` would alter such a comment's text - tokens are
unaffected, but the layout lemma is stated for literal comment texts).

The chain: `C10_parse_sound` (lexer bridge, parser simulation, fuel adequacy), `Parse_printable`, `Parse_numsCanon`, `emitI_eq_emit` (the repaired emitter
is the old one on trees without nested chunks), `format_lex_g` (adjacency discipline of the emitter, every layout pass, `\z` wrapping, strip, unlexing:
the text lexes to a reading of the emitted pieces with guarded trailing commas and a final separator), `read_sim_tcg` (every such reading is parsed by the
reference parser to the same tree: brackets sufficient, `;` guard sufficient), `accepts_of_tks`, `blockRel_normS_eq'`.
What it does NOT say: K1 (parentheses that truncate a call's results are erased by `normS` on both sides - the statement holds modulo exactly that),
K2/K3 (numeral kinds of `5.` / `0x.8` are lost between source numeral and model tuple: `NumRel` is about the printed form), carriage returns,
nesting beyond Python's recursion limit, and the tie between the models and the Python code, which is T2 (differential, not a proof).
-/
namespace Tumfl.Props
open Tumfl.Model Tumfl.Theory Tumfl.Inst

/-- the general form, on the emitter before fix 32 -/
theorem C01_same_program_emit (src out : List Char) (b : Block) (hs : List Hint) (sty : Style)
    (hcr : NoCR src) (hp : parseText src = .ok (b, hs)) (hd : DocStyle sty)
    (hcm : ∀ s, .str s ∈ emit sty b → isCom s = true → Tidy s) (hf : format sty b = .ok out) :
    ∃ c c', Spec.Accepts src c ∧ Spec.Accepts out c' ∧ normS c = normS c' := by
  have hpr := parseText_printable src b hs hp
  obtain ⟨ts, ks, L, hl, hk, hL, hr⟩ := format_lex_g sty hd b hpr (parseText_numsCanon src b hs hp) hcm out hf
  obtain ⟨f, c', hb, hrel'⟩ := read_sim_tcg sty b hpr L ks hL hr
  obtain ⟨c, hc, hrel⟩ := parse_sound src hcr b hs hp
  exact ⟨c, c', hc, accepts_of_tks hl hk hb, blockRel_normS_eq' hrel hrel'⟩

/-- for ANY printable tree (built by hand, not necessarily parsed): the formatted text is a valid chunk whose reference tree is the tree itself
(modulo parentheses and empty statements) - in particular every string value, in whatever position, is read back as that value (C06 in context), every
numeral with its canonical value, every operator tree with its shape (C11 with arbitrary atoms) -/
theorem C08_format_tree (out : List Char) (b : Block) (sty : Style) (hd : DocStyle sty) (hp : Printable b) (hn : NumsCanon (numsBlock b))
    (hcm : ∀ s, .str s ∈ emit sty b → isCom s = true → Tidy s) (hf : formatI sty b = .ok out) :
    ∃ c', Spec.Accepts out c' ∧ BlockRel (dropSemis b) (dropEmpty c') := by
  rw [formatI_eq_format_of_printable sty b hp] at hf
  obtain ⟨ts, ks, L, hl, hk, hL, hr⟩ := format_lex_g sty hd b hp hn hcm out hf
  obtain ⟨f, c', hb, hrel'⟩ := read_sim_tcg sty b hp L ks hL hr
  exact ⟨c', accepts_of_tks hl hk hb, hrel'⟩

/-- **the theorem about the code as it stands** -/
theorem C01_same_program (src out : List Char) (b : Block) (hs : List Hint) (sty : Style)
    (hcr : NoCR src) (hp : parseText src = .ok (b, hs)) (hd : DocStyle sty)
    (hcm : sty.includeComments = false ∨ ∀ c ∈ commentsBlock b, ∀ t, commentPiece sty c = .str t → Tidy t)
    (hf : formatI sty b = .ok out) :
    ∃ c c', Spec.Accepts src c ∧ Spec.Accepts out c' ∧ normS c = normS c' := by
  have hpr := parseText_printable src b hs hp
  rw [formatI_eq_format_of_printable sty b hpr] at hf
  exact C01_same_program_emit src out b hs sty hcr hp hd (comments_tidy_of_tree sty b (TreeWF_of_Printable hpr) hcm) hf

/-- C02: the minified style (comments off) needs no comment hypothesis -/
theorem C02_same_program_final (src out : List Char) (b : Block) (hs : List Hint) (sty : Style)
    (hcr : NoCR src) (hp : parseText src = .ok (b, hs)) (hd : DocStyle sty) (hc : sty.includeComments = false)
    (hf : formatI sty b = .ok out) :
    ∃ c c', Spec.Accepts src c ∧ Spec.Accepts out c' ∧ normS c = normS c' :=
  C01_same_program src out b hs sty hcr hp hd (Or.inl hc) hf

/-- **C01 as stated**: the default style (`FormattingStyle`, read from formatter.py on every run: `defaultStyle_repr_ok`) -/
theorem C01_default_style (src out : List Char) (b : Block) (hs : List Hint)
    (hcr : NoCR src) (hp : parseText src = .ok (b, hs))
    (hcm : ∀ c ∈ commentsBlock b, ∀ t, commentPiece defaultStyle c = .str t → Tidy t)
    (hf : formatI defaultStyle b = .ok out) :
    ∃ c c', Spec.Accepts src c ∧ Spec.Accepts out c' ∧ normS c = normS c' :=
  C01_same_program src out b hs defaultStyle hcr hp defaultStyle_doc (Or.inr hcm) hf

/-- **C02 as stated**: the minified style (`MinifiedStyle`: `minifiedStyle_repr_ok`); no hypothesis besides "no CR in the source" -/
theorem C02_minified_style (src out : List Char) (b : Block) (hs : List Hint)
    (hcr : NoCR src) (hp : parseText src = .ok (b, hs)) (hf : formatI minifiedStyle b = .ok out) :
    ∃ c c', Spec.Accepts src c ∧ Spec.Accepts out c' ∧ normS c = normS c' :=
  C02_same_program_final src out b hs minifiedStyle hcr hp minifiedStyle_doc rfl hf

/-- **C08, first clause**: formatting never raises and always returns - for EVERY style record (documented or not) and every printable tree; in particular for
whatever `parse` returns.  (The model passes are total functions into `Except`, modelling `IndexError` / `AssertionError` explicitly; every internal
loop fuel is shown sufficient: bracket reflow on well-nested lists, block spacing on any list, the `\z` wrapping loop by `C08_wrap_progress`.) -/
theorem C08_format_total (sty : Style) (b : Block) (hp : Printable b) : ∃ text, formatI sty b = .ok text :=
  formatI_total sty b hp

theorem C08_format_total_parsed (sty : Style) (src : List Char) (b : Block) (hs : List Hint) (h : parseText src = .ok (b, hs)) :
    ∃ text, formatI sty b = .ok text :=
  formatI_total_parsed sty src b hs h

/-- **C01 / C08 in one statement, no hypothesis about `format`**: for every CR-free source that `parse` accepts and every documented style (comments off,
or no comment with a blank directly before an inner line break), `format` returns a text, and that text is a valid chunk with the source's reference tree
up to `normS`. -/
theorem C01_format_parse (src : List Char) (b : Block) (hs : List Hint) (sty : Style)
    (hcr : NoCR src) (hp : parseText src = .ok (b, hs)) (hd : DocStyle sty)
    (hcm : sty.includeComments = false ∨ ∀ c ∈ commentsBlock b, ∀ t, commentPiece sty c = .str t → Tidy t) :
    ∃ out c c', formatI sty b = .ok out ∧ Spec.Accepts src c ∧ Spec.Accepts out c' ∧ normS c = normS c' := by
  obtain ⟨out, hf⟩ := formatI_total_parsed sty src b hs hp
  obtain ⟨c, c', h1, h2, h3⟩ := C01_same_program src out b hs sty hcr hp hd hcm hf
  exact ⟨out, c, c', hf, h1, h2, h3⟩

/-- the repaired emitter coincides with the old one on what `parse` returns -/
theorem EmitI_eq_emit_parsed (src : List Char) (b : Block) (hs : List Hint) (sty : Style) (hp : parseText src = .ok (b, hs)) :
    emitI sty b = emit sty b ∧ formatI sty b = format sty b :=
  ⟨emitI_eq_emit sty b (parseText_printable src b hs hp), formatI_eq_format_of_printable sty b (parseText_printable src b hs hp)⟩

/-- C04, last clause, for the repaired emitter: the pieces emitted for a resolved tree read - under every style that does not keep semicolons - as a valid
chunk with the spliced tree, provided no spliced file has a top-level return (K4) -/
theorem C04_formats_valid_final (fs : FS) (main : Path) (sp : List Path) (fuel : Nat) (b : Block)
    (h : resolveRecursive fs main sp fuel = .ok b) (hk4 : noSplicedReturn b = true) (sty : Style)
    (hok : okBlock sty.keepSemicolon false b = true) (ks : List Spec.Tk) (hks : ReadTks (emitI sty b) ks) :
    ∃ c, Spec.parseToks (toToks ks) = .ok c ∧ BlockRel (dropSemis (flattenChunks b)) (dropEmpty c) :=
  resolve_then_emitI_valid_for fs main sp fuel b h hk4 sty hok ks hks

end Tumfl.Props
