import Tumfl.Theory.LexBridge
/-!
# The lexer as a whole reads what Lua reads (C05, the lexical clauses of C03, C07, C10, C20)

The model lexer (`lexText`, T2-tied to lexer.py token by token, values, positions and comment lists included) and the reference
lexer (`Spec.lex`, written from llex.c) deliver related token sequences (`TkRel`: same kind; names and keywords with the same
spelling; strings with the same character sequence; numerals with the same canonical numeral), in both directions:

* `Lex_sound`: whatever text the model lexer accepts, the reference lexer accepts, with the same tokens - so no malformed literal,
  numeral, symbol or comment opener is accepted, no comment text becomes a token and no token is swallowed by a comment
  (the two token sequences have the same length and are related pointwise).  Hypothesis `NoCR`: the text contains no carriage
  return.  It is needed: `Lex_cr_counterexample` (a raw CR inside a quoted string is accepted by the model - and by tumfl - and
  rejected by Lua).  Line ends other than LF are outside the quantifiers of C03/C05 (DESIGN.md section 4).
* `Lex_complete`: whatever the reference lexer accepts with in-scope string values (no byte escapes >= 128, no surrogates - tumfl
  documents that it handles UTF-8 text only), the model lexer accepts with the same tokens.  `Lex_byte_counterexample` shows that
  the scope hypothesis cannot be dropped.
-/
namespace Tumfl.Props
open Tumfl.Model Tumfl.Theory

theorem Lex_sound {t : List Char} {mts : List Token} (hcr : NoCR t) (h : lexText {} t = .ok mts) :
    ∃ ts, Spec.lex t = .ok ts ∧ Fa2 (fun m x => TkRel m x.tk) mts ts :=
  lexText_sound hcr h

theorem Lex_complete {t : List Char} {ts : List Spec.Tok} (h : Spec.lex t = .ok ts) (hin : ∀ x ∈ ts, InScopeTk x.tk) :
    ∃ mts, lexText {} t = .ok mts ∧ Fa2 (fun m x => TkRel m x.tk) mts ts :=
  lexText_complete h hin

/-- one token at a time, from any lexer state past the first line: the form the parser simulation consumes -/
theorem Lex_next_sound (cfg : LexCfg) (hty : cfg.typed = false) (hiu : cfg.ignoreUnicode = false) {s : LexSt} {tok : Token} {s' : LexSt}
    (h : getNextToken cfg s = .ok (tok, s')) (hns : ¬ shebangCase s) (hcr : NoCR s.rest) :
    ∃ tk, specNext s.rest = some (tk, s'.rest) ∧ TkRel tok tk :=
  getNextToken_sound cfg hty hiu h hns hcr

theorem Lex_next_complete (cfg : LexCfg) (hty : cfg.typed = false) (hiu : cfg.ignoreUnicode = false) {s : LexSt} {tk : Spec.Tk} {r' : List Char}
    (h : specNext s.rest = some (tk, r')) (hns : ¬ shebangCase s) (hin : InScopeTk tk) :
    ∃ tok s', getNextToken cfg s = .ok (tok, s') ∧ s'.rest = r' ∧ TkRel tok tk :=
  getNextToken_complete cfg hty hiu h hns hin

/-- `NoCR` is necessary for soundness -/
theorem Lex_cr_counterexample :
    okM (lexText {} "x = \"a\rb\"".toList) = true ∧ okR (Spec.lex "x = \"a\rb\"".toList) = false := by decide +kernel

/-- `InScopeTk` is necessary for completeness -/
theorem Lex_byte_counterexample :
    okR (Spec.lex "x = \"\\200\"".toList) = true ∧ okM (lexText {} "x = \"\\200\"".toList) = false := by decide +kernel

/-- non-vacuity: a text with a shebang line, a hexadecimal float, a long string, escapes, `\z`, a comment and a dangling-dot numeral
is accepted by both -/
example : okM (lexText {} "#!lua\nlocal x = 0x1p4 .. [==[s]==] .. 'a\\65\\z  b' --c\nreturn x ~= 3.".toList) = true ∧
    okR (Spec.lex "#!lua\nlocal x = 0x1p4 .. [==[s]==] .. 'a\\65\\z  b' --c\nreturn x ~= 3.".toList) = true := by decide +kernel

end Tumfl.Props
