import Tumfl.Theory.FormatTextExample
import Tumfl.Theory.ParseNumsExamples
import Tumfl.Props.Same
import Tumfl.Theory.ReadSimWF
/-!
# C02 / C01 / C08 / C13  The text `format` returns is a layout of the emitted pieces, and denotes the same program

`format sty b` is the model of `tumfl.format` (emitter + every layout pass + final strip), T2-tied stage by stage.
`DocStyle sty`: the separators are of the documented kinds (statement separator `\n` or `;`, blank indentation, `,` or `, `, blank comment separator).

* `Format_lex` (every documented style, every line width): the reference lexer reads the final text, and the tokens are a reading (`ReadTks`) of
  `L ++ [Statement separator]` where `L` is the list of emitted pieces with trailing commas inserted in front of some `}` (`TC`): the two ways in
  which the text is NOT a reading of the emitted pieces themselves are proved to be real (`Format_cex_semicolon`: a non-minifying style with
  separator `;` appends one; `Format_cex_trailing_comma`: bracket reflow writes a trailing comma in a table constructor spread over several lines -
  never in an argument or parameter list: `TC` only inserts in front of `}`).
* `Format_lex_exact`: for line width 0 and (minifying or separator `\n`) the tokens are a reading of the emitted pieces themselves.
* **`C02_same_program`**: for such styles - MinifiedStyle is one - parse, then format: the output is a valid chunk and its reference tree equals the
  source's reference tree after `normS` (parentheses erased, empty statements dropped, numerals canonical).  No hypothesis on the tree: it is what
  `parse` returned.  Hypotheses: no CR in the source; comments switched off or tidy (no blank directly before a line break inside a comment - the
  per-line right-strip of `format` would change such a comment's text).
* `Format_comments` (C13 / C08 at text level): the comments the reference lexer finds in the final text are, in order, the header and the comment
  pieces of the emitted list (each delivered on the token that follows), with literal text - except that a non-minifying `;` style appends its `;`
  to a short comment that ends the text.
* `Parse_numsCanon`: numerals of parser output print in canonical shape (hypothesis of the layout theorems, discharged).
The emitter here is `Model.emit` (before fix 32); `Model.emitI` (after it, the one T2 compares with formatter.py) coincides with it on trees without
nested chunks - `Props/EmitI.lean` when present.
-/
namespace Tumfl.Props
open Tumfl.Model Tumfl.Theory

theorem Format_lex (sty : Style) (hd : DocStyle sty) (b : Block) (hp : Printable b) (hn : NumsCanon (numsBlock b))
    (hcm : ∀ s, .str s ∈ emit sty b → isCom s = true → Tidy s) (text : List Char) (h : format sty b = .ok text) :
    ∃ ts ks L, Spec.lex text = .ok ts ∧ ts.map (·.tk) = ks ++ [.eof] ∧ TC (emit sty b) L ∧ ReadTks (L ++ [.sep .statement]) ks :=
  format_lex sty hd b hp hn hcm text h

theorem Format_lex_exact (sty : Style) (hd : DocStyle sty) (b : Block) (hp : Printable b) (hn : NumsCanon (numsBlock b))
    (hcm : ∀ s, .str s ∈ emit sty b → isCom s = true → Tidy s)
    (hw : sty.lineWidth = 0) (he : sty.removeUnnecessaryChars = true ∨ sty.statementSeparator = ['\n'])
    (text : List Char) (h : format sty b = .ok text) :
    ∃ ts ks, Spec.lex text = .ok ts ∧ ts.map (·.tk) = ks ++ [.eof] ∧ ReadTks (emit sty b) ks :=
  format_lex_exact sty hd b hp hn hcm hw he text h

theorem Parse_numsCanon (src : List Char) (b : Block) (hs : List Hint) (h : parseText src = .ok (b, hs)) : NumsCanon (numsBlock b) :=
  parseText_numsCanon src b hs h

/-- parse, then format under a style with line width 0 that minifies or separates statements by line breaks: same program -/
theorem C02_same_program (src out : List Char) (b : Block) (hs : List Hint) (sty : Style)
    (hcr : NoCR src) (hp : parseText src = .ok (b, hs)) (hd : DocStyle sty)
    (hw : sty.lineWidth = 0) (he : sty.removeUnnecessaryChars = true ∨ sty.statementSeparator = ['\n'])
    (hcm : ∀ s, .str s ∈ emit sty b → isCom s = true → Tidy s)
    (hf : format sty b = .ok out) :
    ∃ c c', Spec.Accepts src c ∧ Spec.Accepts out c' ∧ normS c = normS c' := by
  obtain ⟨ts, ks, hl, hk, hr⟩ := format_lex_exact sty hd b (parseText_printable src b hs hp) (parseText_numsCanon src b hs hp) hcm hw he out hf
  exact same_program hcr hp hr hl hk

/-- with comments switched off (MinifiedStyle) the comment hypothesis is void -/
theorem C02_same_program_nocomments (src out : List Char) (b : Block) (hs : List Hint) (sty : Style)
    (hcr : NoCR src) (hp : parseText src = .ok (b, hs)) (hd : DocStyle sty)
    (hw : sty.lineWidth = 0) (he : sty.removeUnnecessaryChars = true ∨ sty.statementSeparator = ['\n'])
    (hc : sty.includeComments = false) (hf : format sty b = .ok out) :
    ∃ c c', Spec.Accepts src c ∧ Spec.Accepts out c' ∧ normS c = normS c' :=
  C02_same_program src out b hs sty hcr hp hd hw he
    (comments_tidy_of_tree sty b (TreeWF_of_Printable (parseText_printable src b hs hp)) (Or.inl hc)) hf

theorem Format_comments (sty : Style) (hd : DocStyle sty) (b : Block) (hp : Printable b) (hn : NumsCanon (numsBlock b))
    (hcm : ∀ s, .str s ∈ emit sty b → isCom s = true → Tidy s) (text : List Char) (h : format sty b = .ok text) :
    ∃ ts, Spec.lex text = .ok ts ∧
      (ts.flatMap (·.comments) = (headerText sty :: comStrs (emit sty b)).map comText ∨
        (ending sty = [';'] ∧ ∃ init c, headerText sty :: comStrs (emit sty b) = init ++ [c] ∧
          ts.flatMap (·.comments) = (init ++ [c ++ [';']]).map comText)) :=
  format_lex_comments sty hd b hp hn hcm text h

theorem Format_cex_semicolon :
    format cexSemiStyle cexSemiTree = .ok "-- tumfl\nreturn x;".toList ∧
    tksOf (Spec.lex "-- tumfl\nreturn x;".toList) = some [.kw "return", .name "x", .sym ";", .eof] ∧
    ∀ ks, ReadTks (emit cexSemiStyle cexSemiTree) ks → ks = [.kw "return", .name "x"] := cex_appended_semicolon

theorem Format_cex_trailing_comma :
    format cexCommaStyle cexCommaTree = .ok "-- tumfl\nt = {\n\taaaaaa,\n\tbbbbbb,\n}\n".toList ∧
    tksOf (Spec.lex "-- tumfl\nt = {\n\taaaaaa,\n\tbbbbbb,\n}\n".toList) =
      some [.name "t", .sym "=", .sym "{", .name "aaaaaa", .sym ",", .name "bbbbbb", .sym ",", .sym "}", .eof] ∧
    ∀ ks, ReadTks (emit cexCommaStyle cexCommaTree) ks →
      ks = [.name "t", .sym "=", .sym "{", .name "aaaaaa", .sym ",", .name "bbbbbb", .sym "}"] := cex_trailing_comma

end Tumfl.Props
