import Tumfl.Inst.Schema
/-!
# C17  The AST is a proper tree with consistent parent links   /   C18  AST equality is structural equality

Generic model (`Model/Tree.lean`) of `ASTNode`: attribute-scan `__eq__`, attribute-scan `parent()`, the generic walker; which attributes
they reach is the schema extracted by introspection from a sample AST covering all 34 node classes (`Gen/Schema.lean`, every run).
For every tree that is well typed for that schema:
* `C17_links`: `parent()` sets exactly one link per node below the root, to its parent (the link set equals the edge set, without duplicates);
* `C17_walk`: the generic walker visits every node below the root exactly once;
* `C18_eq`: `==` holds iff the trees are structurally identical.
The decidable obligations `schema_links`, `schema_walk`, `schema_eq`, `schema_exercised` are re-decided on every run.
`C17_replace`: `replace_child` reaches every child slot (schema obligation); the state after dependency resolution: oracle streams only.
-/
namespace Tumfl.Props
open Tumfl.Model Tumfl.Theory Tumfl.Inst

theorem C17_links (t : GT) (h : wellTyped t = true) :
    links scanOf [] t = allEdges [] t ∧ (childPaths (links scanOf [] t)).Nodup ∧ ∀ e ∈ links scanOf [] t, ∃ ij, e.1 = e.2 ++ [ij] :=
  ast_links_proper_tree t h

theorem C17_walk (t : GT) (h : wellTyped t = true) :
    links walkOf [] t = allEdges [] t ∧ (childPaths (links walkOf [] t)).Nodup :=
  ast_walk t h

/-- `replace_child` substitutes exactly the given child, in every child slot of every node class - the names wrapped inside a `local` declaration
included: decided on the extracted schema, whose `replaced` column is measured by calling the real `replace_child` on every child of every
slot of a sample covering all 34 classes (child replaced at its position, nothing else changed, and back). -/
theorem C17_replace : SchemaReplace = true := schema_replace

theorem C18_eq (a b : GT) (h : wellTyped a = true) : eqG cmpOf a b = true ↔ a = b := ast_eq_iff a b h

end Tumfl.Props
