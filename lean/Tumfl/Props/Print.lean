import Tumfl.Theory.ReadSim
import Tumfl.Theory.ReadSimWF
import Tumfl.Theory.PrintSim
/-!
# What `Formatter.visit` emits is a valid program with the same tree (the core of C01 / C02 / C08, at token level)

`emit sty b` (model of `Formatter.visit`, T2-tied piece by piece) is a list of text pieces and separators.  A *reading* of it
(`ReadTks`, `Theory/ReadTks.lean`) is the token sequence obtained by classifying each text piece on its own (keyword / symbol /
string through the reference string readers / numeral through the reference numeral grammar / name; comments read as nothing),
reading `Argument` and `Dot` separators as `,` and `.`, and reading each `Statement` / `Block` separator - independently - as
a `;` or as nothing (the layout passes spell a kept one as the statement separator, `\n` or `;`, and the minifier drops those
it may drop).

* `Print_sim`: for EVERY style (all bracket options, call shorthand, kept semicolons, comments on or off, quote preference,
  newline limit) and every printable tree, EVERY reading is accepted by the reference parser as a whole chunk, and the tree it
  builds is the original one modulo parentheses (`BlockRel`) and empty statements (`dropSemis` / `dropEmpty`).  In particular the
  brackets the formatter places are sufficient (`brackets_sound` is used for every operator pair), the `;` guard in front of a
  statement that starts with `(` is sufficient, `fmtVar`'s brackets make every call/index prefix a prefix expression, and a
  `return` is followed by at most one `;`.
* `Print_sim_parseToks`: the same for the executable entry point `Spec.parseToks` (its fixed fuel is enough: four per token).
* `Printable` is decidable and style independent: identifiers are identifiers and not keywords, numerals re-parse to themselves,
  name slots hold names, assignment targets are variables, `local` without values has no (empty) value list, the root is a
  chunk and no chunk is nested.  `Print_printable_wf`: it implies the `TreeWF` of C13.
That the final text of `format` lexes to one of these readings is the layout composition (`Props/Format.lean` when present).
-/
namespace Tumfl.Props
open Tumfl.Model Tumfl.Theory

theorem Print_sim (sty : Style) (b : Block) (hb : Printable b) (ks : List Spec.Tk) (hks : ReadTks (emit sty b) ks) :
    ∃ f c, Spec.block f (toToks ks) = .ok (c, [eofTok]) ∧ BlockRel (dropSemis b) (dropEmpty c) :=
  read_sim sty b hb ks hks

theorem Print_sim_parseToks (sty : Style) (b : Block) (hb : Printable b) (ks : List Spec.Tk) (hks : ReadTks (emit sty b) ks) :
    ∃ c, Spec.parseToks (toToks ks) = .ok c ∧ BlockRel (dropSemis b) (dropEmpty c) :=
  read_sim_parseToks sty b hb ks hks

/-- the two constant readings (all separators `;`, no separator `;`) are readings -/
theorem Print_readings (semi : Bool) (ps : Pieces) : ReadTks ps (piecesTks semi ps) := readTks_const semi ps

theorem Print_printable_wf {b : Block} (h : Printable b) : TreeWF b := TreeWF_of_Printable h

/-- non-vacuity: a tree with a call statement followed by a statement that starts with `(` is printable -/
example : Printable demoTree := by decide

end Tumfl.Props
