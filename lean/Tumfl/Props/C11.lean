import Tumfl.Inst.Brackets
/-!
# C11  Operator parenthesisation is exact under every bracket option

For every expression tree `t` over the 21 binary and 4 unary operators (atoms opaque) and every
combination `s` of the bracket options, the token sequence the formatter emits - brackets placed
as the *extracted* decision table of the real `visit_BinOp` / `visit_UnOp` says - is read back by
Lua's precedence-climbing algorithm as a tree whose paren-erasure is exactly `t`.
-/
namespace Tumfl.Props
open Tumfl.Spec Tumfl.Model Tumfl.Theory Tumfl.Inst

/-- The printed token sequence of `t` under option set `s`. -/
def printed (s : BrOpts) (t : T) : List Tok := yld (par (tumflDec s) t)

theorem C11_roundtrip (s : BrOpts) (t : T) :
    ∃ f e, subexpr f 0 (printed s t) = some (e, []) ∧ strip e = t := by
  obtain ⟨f, h1, h2⟩ := print_roundtrip (tumflDec s) (brackets_sound s) t
  exact ⟨f, _, h1, h2⟩

/-- The printed tree is precedence-correct in the declarative sense (no regrouping possible). -/
theorem C11_precOK (s : BrOpts) (t : T) : PrecOK (par (tumflDec s) t) :=
  (par_ok (tumflDec s) (brackets_sound s) t).1

/-- Non-vacuity: `a - (b + c)` under the default options keeps its brackets, and re-reads. -/
example : printed ⟨false, true, false⟩ (.bin .sub (.atom 0) (.bin .add (.atom 1) (.atom 2)))
    = [.atom 0, .b .sub, .lpar, .atom 1, .b .add, .atom 2, .rpar] := by decide +kernel

end Tumfl.Props
