import Tumfl.Inst.Brackets
import Tumfl.Theory.EmitOpsSep
/-!
# C11  Operator parenthesisation is exact under every bracket option

For every expression tree `t` over the 21 binary and 4 unary operators (atoms opaque) and every
combination `s` of the bracket options, the token sequence the formatter emits - brackets placed
as the *extracted* decision table of the real `visit_BinOp` / `visit_UnOp` says - is read back by
Lua's precedence-climbing algorithm as a tree whose paren-erasure is exactly `t`.
-/
namespace Tumfl.Props
open Tumfl.Spec Tumfl.Model Tumfl.Theory Tumfl.Inst

/-- The printed token sequence of `t` under option set `s`. -/
def printed (s : BrOpts) (t : T) : List Tok := yld (par (tumflDec s) t)

theorem C11_roundtrip (s : BrOpts) (t : T) :
    ∃ f e, subexpr f 0 (printed s t) = some (e, []) ∧ strip e = t := by
  obtain ⟨f, h1, h2⟩ := print_roundtrip (tumflDec s) (brackets_sound s) t
  exact ⟨f, _, h1, h2⟩

/-- The printed tree is precedence-correct in the declarative sense (no regrouping possible). -/
theorem C11_precOK (s : BrOpts) (t : T) : PrecOK (par (tumflDec s) t) :=
  (par_ok (tumflDec s) (brackets_sound s) t).1

/-- Non-vacuity: `a - (b + c)` under the default options keeps its brackets, and re-reads. -/
example : printed ⟨false, true, false⟩ (.bin .sub (.atom 0) (.bin .add (.atom 1) (.atom 2)))
    = [.atom 0, .b .sub, .lpar, .atom 1, .b .add, .atom 2, .rpar] := by decide +kernel

end Tumfl.Props

namespace Tumfl.Props
open Tumfl.Spec Tumfl.Model Tumfl.Theory Tumfl.Inst

/-- The gap "atoms are opaque" closed for the model of the real emitter: for operator trees over names, what `Formatter.visit`
emits (model `visitExpr`, T2-tied) IS the rendering of `par` applied to the tree's skeleton ... -/
theorem C11_emit_is_par (sty : Style) {e : Expr} (h : IsOpTree e) :
    visitExpr sty e = render (unSpace sty.brOpts) decodeName (par (tumflDec sty.brOpts) (skel e)) :=
  visitExpr_eq_render sty h

/-- ... so the token sequence of the emitted pieces re-parses, by Lua's algorithm, to the same tree (names that are not operator spellings). -/
theorem C11_emit_roundtrip (sty : Style) (e : Expr) (h : IsOpTree e) (hn : NamesOK e) :
    ∃ f x, subexpr f 0 (toks (visitExpr sty e)) = some (x, []) ∧ strip x = skel e :=
  emit_roundtrip_pieces sty e h hn

/-- and after the minifier's separator removal the token sequence is unchanged and no two adjacent pieces need a separator -/
theorem C11_minified (sty : Style) (e : Expr) (h : IsOpTree e) (hw : AllNames IsWordStart e) :
    ∃ ps, removeSeparators (visitExpr sty e) = .ok ps ∧ adjOK none ps ∧ toks ps = toks (visitExpr sty e) :=
  minified_ops sty h hw

end Tumfl.Props
