import Tumfl.Theory.EmitComments
import Tumfl.Theory.ParserWF
/-!
# C13  Statement-leading comments survive formatting exactly once (emission stage)

For every tree `b` that is well formed (`TreeWF`: no name or numeral spelling starts with `--`, and no chunk sits directly as the body of an
`if`/`repeat` - all three hold for what the parser builds, see below), the pieces `Formatter.visit` emits (model `emit`, T2-tied stage by
stage) contain as comment pieces *exactly* the statement comments of the tree, in statement order, each once, each formatted by
`_format_comment`, and each directly in front of its statement's own pieces; with comments switched off there is none.
Partial: that parser output satisfies `TreeWF`, and that the layout passes and the final text keep the comments, is covered by the T2 and
oracle streams, not by a theorem.
-/
namespace Tumfl.Props
open Tumfl.Model Tumfl.Theory

theorem C13_emit_on (sty : Style) (h : sty.includeComments = true) (b : Block) (hwf : TreeWF b) :
    (emit sty b).filter isCommentPiece = (commentsBlock b).map (fun c => (formatComment sty c).head!) :=
  emit_comments_on sty h b hwf

theorem C13_emit_off (sty : Style) (h : sty.includeComments = false) (b : Block) (hwf : TreeWF b) :
    (emit sty b).filter isCommentPiece = [] :=
  emit_comments_off sty h b hwf

theorem C13_placement (sty : Style) (first : Bool) (s : Stmt) (rest : List Stmt) :
    visitStmts sty first (s :: rest) =
      (if sty.includeComments then (stmtComments s).flatMap (formatComment sty) else []) ++
      stmtGuard first (visitStmt sty s) ++ visitStmt sty s ++ [S .statement] ++ visitStmts sty false rest :=
  visitStmts_placement sty first s rest

/-- for everything the parser builds the hypothesis holds: parse, then emit, keeps exactly the statement comments -/
theorem C13_parsed (src : List Char) (b : Block) (hs : List Hint) (h : parseText src = .ok (b, hs)) (sty : Style) :
    (emit sty b).filter isCommentPiece =
      if sty.includeComments then (commentsBlock b).map (fun c => (formatComment sty c).head!) else [] := by
  have hwf : TreeWF b := parseText_wf src b hs h
  by_cases hc : sty.includeComments = true
  · simp [hc, emit_comments_on sty hc b hwf]
  · have hc' : sty.includeComments = false := by simpa using hc
    simp [hc', emit_comments_off sty hc' b hwf]

end Tumfl.Props
