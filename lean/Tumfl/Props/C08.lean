import Tumfl.Theory.LayoutKeeps
import Tumfl.Theory.Boundary
import Tumfl.Theory.CommentWFExamples
/-!
# C01 / C02 / C08 / C15  Layout changes white space and separators only; adjacent tokens do not fuse

Pieces of the composition "format preserves the program" that are proved on the model (T2-tied stage by stage):
* `C08_remove_separators`: the minifier's pass keeps every string piece, in order, and removes only space / statement / block separators;
* `C08_add_spacing`: only newline separators are inserted;  `C08_remove_orphaned`: only empty strings and statement separators vanish;
* `C08_resolve_tokens`, `C08_indent`, `C08_join`: separators become text made of the style's separator characters, string pieces are kept
  (indentation prepended), the final text is their concatenation;
* `C08_indent_brackets`: bracket reflow keeps every piece in order except that a quoted string piece is replaced by the pieces of its `\z`
  wrapping, and `C08_string_wrap`: those pieces, with the `\z` markers removed, concatenate to the original literal; every round of the wrapping
  loop cuts at least one character (`C08_wrap_progress` - the termination argument for every width and indentation);
* `C02_boundary`: whenever `sep_required a b` says no separator is needed (and the pair is not one of five adjacencies that no grammar
  production produces - `fuses`), the reference lexer reads from `a ++ b ++ rest` exactly the token spelled `a` and continues at `b ++ rest`,
  for names/keywords, numerals as printed, all 33 symbols, quoted and long strings as written by `visit_String`.
* `C08_comment_wf`: under every style whose comment separator consists of blanks (possibly none), a comment is written either as a short
  comment whose text has no line break and does not open a long bracket (so it ends at the end of its line and swallows nothing), followed by a
  Newline separator, or as a complete long comment whose level makes the closer unambiguous (so no comment text turns into code); both
  counterexamples for separators outside the documented kind are proved (`not_wf_bracket_sep`, `not_wf_newline_sep`).
Not proved: that the emitted pieces are a valid yield of the tree (F2 of section 6) and the composition itself - oracle and T2 streams.
-/
namespace Tumfl.Props
open Tumfl.Model Tumfl.Theory

theorem C08_remove_separators {ts ts' : Pieces} (h : removeSeparators ts = .ok ts') :
    strs ts' = strs ts ∧ ts'.Sublist ts ∧ ts'.filter keepRS = ts.filter keepRS :=
  removeSeparators_keeps h

theorem C08_add_spacing {ts ts' : Pieces} {sty : Style} (h : addSpacing ts sty = .ok ts') :
    ts'.filter (· != S .newline) = ts.filter (· != S .newline) ∧ ts.Sublist ts' ∧ strs ts' = strs ts :=
  addSpacing_keeps h

theorem C08_remove_orphaned (ts : Pieces) :
    strs (removeOrphaned ts) = (strs ts).filter (· ≠ []) ∧ (removeOrphaned ts).Sublist ts ∧
      (removeOrphaned ts).filter (· != S .statement) = ts.filter (fun p => p != S .statement && p != .str []) :=
  removeOrphaned_keeps ts

theorem C08_resolve_tokens {sty : Style} {ts ts' : Pieces} (h : resolveTokens sty ts = .ok ts') : Fa2 (ResolveRel sty) ts ts' :=
  resolveTokens_keeps h

theorem C08_join (ts : Pieces) : joinTokens ts = (strs ts).flatten := joinTokens_eq ts

theorem C08_indent_brackets {ts ts' : Pieces} {sty : Style} (h : indentBrackets ts sty = .ok ts') : Rw sty (core ts) (core ts') :=
  indentBrackets_keeps h

theorem C08_string_wrap {q : List Char} {ind : Int} {sty : Style} {ps : Pieces} (h : stringIdent q ind sty = .ok ps) :
    (dez (strs ps)).flatten = q :=
  stringIdent_flatten h

theorem C08_wrap_progress {limit : Int} {input : List Char} (h : input ≠ []) : 1 ≤ stepPos limit input := stepPos_pos limit input h

theorem C02_boundary {a b rest : List Char} {tk : Spec.Tk} (hp : IsPiece a tk) (hs : sepRequired a b = .ok false)
    (hf : ∀ d t, b = d :: t → fuses a d = false) : lexOne (a ++ b ++ rest) = some (tk, b ++ rest) :=
  boundary_lexOne a b rest tk hp hs hf

theorem C08_comment_wf (sty : Style) (hsep : ∀ ch ∈ sty.commentSep, ch = ' ' ∨ ch = '\t') (c : List Char) :
    (∃ t, formatComment sty c = [.str t, .sep .newline] ∧ IsShortComment t) ∨
    (∃ t, formatComment sty c = [.str t, .sep .statement] ∧ IsLongComment t) :=
  formatComment_wf sty hsep c

/-- the comment text the reference reads back from the long form is the stripped comment -/
theorem C08_comment_text (sty : Style) (c t : List Char) (h : formatComment sty c = [.str t, .sep .statement]) (rest : List Char) :
    ∃ lvl after, Spec.longOpener ((t ++ rest).drop 2) = some (lvl, after) ∧
      Spec.longBody lvl (Spec.dropFirstNewline after) = some (pyStrip c, rest) :=
  formatComment_long_reads sty c t h rest

end Tumfl.Props
