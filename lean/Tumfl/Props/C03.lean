import Tumfl.Inst.Ladder
import Tumfl.Model.Parser
/-!
# C03 / C10  The expression ladder is Lua's precedence climbing (both directions)

`parser.py`'s twelve-level ladder (`_parse_exp` .. `_parse_pow_exp`, the two associativity helpers) - modelled generically in
`Model/Ladder.lean`, with the level table *read from parser.py on every run* (`Gen/Ladder.lean`) - accepts exactly what Lua's
`subexpr` (`Spec.climb`, the algorithm the reference parser runs) accepts and builds the same tree, for EVERY token cursor and
EVERY simple-expression parser: this is the expression layer of "the parser builds the tree the grammar assigns" (C03, direction
climb -> ladder) and of "a successful parse means the text is valid" (C10, direction ladder -> climb).
`Theory/Prec.lean` adds that `climb` finds every tree that is precedence-correct in the declarative sense.
Statements, suffix chains and table constructors have no simulation theorem yet: they are covered by the T2 and oracle streams.
-/
namespace Tumfl.Props
open Tumfl.Spec Tumfl.Model Tumfl.Theory Tumfl.Inst

theorem C03_ladder_is_climb {σ ε Err T : Type} (S : ExprSig σ ε Err T) (s : σ) (r : ε × σ) :
    (∃ f, ladderExp S Model.ladderLevels Model.powOps f s = .ok r) ↔ (∃ f, climb S f 0 s = .ok r) :=
  model_ladder_iff_climb S s r

/-- the instance the model parser runs: `_parse_exp` over the parser state, for any atom parser -/
theorem C03_parseExp (atom : PM Expr) (s : PSt) (r : Expr × PSt) :
    (∃ f, ladderExp (modelSig atom) Model.ladderLevels Model.powOps f s = .ok r) ↔ (∃ f, climb (modelSig atom) f 0 s = .ok r) :=
  model_ladder_iff_climb (modelSig atom) s r

theorem C03_table_ok : LadderOK Model.ladderLevels Model.powOps = true := model_ladder_ok

end Tumfl.Props
