import Tumfl.Theory.Trivia
/-!
# C20  The lexer attaches every comment, in order, to the next token   /   C05 (long brackets and comments)

Model lexer (T2-tied to lexer.py) against the reference lexer (from llex.c):
* `C05_long_brackets`: on every text starting with `[`, `get_long_brackets` returns exactly the value the reference reads (leading-newline
  rule included) and stops at the same place; it reports "never closed" exactly when the reference finds the bracket unfinished, and
  "malformed" when there is no complete opener;
* `C05_comments`: after `--`, `skip_comment` succeeds iff the reference's comment branch does, stops at the same place, and appends the same
  text (up to the newline directly after a long opener, which the model drops) - for every opener shape, including `--[` and `--[==x`;
* `C20_delivery`: every call of `get_next_token` hands the pending comments plus those it skipped to the token and leaves none pending;
* `C20_all_comments`: over a whole text, model and reference segment the text into (trivia, token)* trivia, and the comment lists on the
  delivered tokens are, token by token and in order, exactly the comments of the trivia segments: nothing lost, duplicated or reordered, the
  end-of-file token included.  (That both lexers cut the *tokens* at the same places is `Theory/Boundary*.lean` and the C05/C07 theorems, not
  restated here.)
-/
namespace Tumfl.Props
open Tumfl.Model Tumfl.Theory

theorem C05_long_brackets (s : LexSt) (r : List Char) (hs : s.rest = '[' :: r) :
    (∀ lvl body v rest', Spec.longOpener s.rest = some (lvl, body) →
        Spec.longBody lvl (Spec.dropFirstNewline body) = some (v, rest') →
        ∃ s', getLongBrackets s = .ok (v, s') ∧ s'.rest = rest') ∧
    (∀ lvl body, Spec.longOpener s.rest = some (lvl, body) →
        Spec.longBody lvl (Spec.dropFirstNewline body) = none →
        getLongBrackets s = .error (.lexer "long brackets never closed" s.line s.col)) ∧
    (Spec.longOpener s.rest = none → (s.peek = some '=' ∨ s.peek = some '[') →
        ∃ l c, getLongBrackets s = .error (.lexer "Malformed long bracket" l c)) :=
  long_brackets_agree s r hs

theorem C05_comments (s : LexSt) (r : List Char) (hs : s.rest = '-' :: '-' :: r) :
    (∀ b rest', refComment r = some (b, rest') →
        ∃ s', skipComment s = .ok s' ∧ s'.rest = rest' ∧ s'.comments = s.comments ++ [Spec.dropFirstNewline b]) ∧
    (refComment r = none → ∃ l c, skipComment s = .error (.lexer "long brackets never closed" l c)) ∧
    ((∃ s', skipComment s = .ok s') ↔ (refComment r).isSome) ∧
    (∀ s2 : LexSt, ∀ r2, s2.rest = '[' :: r2 → (isLongBracket s2 = true ↔ (Spec.longOpener s2.rest).isSome)) :=
  comments_agree s r hs

theorem C20_delivery (cfg : LexCfg) (s : LexSt) (tok : Token) (s' : LexSt) (h : getNextToken cfg s = .ok (tok, s')) :
    s'.comments = [] ∧ ∃ cs, tok.comment = s.comments ++ cs :=
  (comment_delivery cfg).2 s tok s' h

theorem C20_all_comments (cfg : LexCfg) (t : List Char) :
    (∀ toks, lexText cfg t = .ok toks →
      ∃ L, Segmented (Spec.skipShebang t) L ∧ toks.map (·.comment) = L.map normC ∧
        toks.flatMap (·.comment) = normC L.flatten) ∧
    (∀ toks, Spec.lex t = .ok toks →
      ∃ L, Segmented (Spec.skipShebang t) L ∧ toks.map (·.comments) = L ∧
        toks.flatMap (·.comments) = L.flatten) :=
  comment_delivery_both cfg t

end Tumfl.Props
