import Tumfl.Theory.ResolveFaithfulFound
import Tumfl.Theory.ResolveFaithfulExample
import Tumfl.Theory.ResolveNothingLeft
import Tumfl.Theory.ResolveDesignates
import Tumfl.Theory.ResolveComplete
import Tumfl.Theory.ResolveCompleteExamples
/-!
# C04, the clause "everything else in every file is unchanged" - refinement of the resolver model to a declarative specification

`InlBlock fs sp dir b b'` (`Theory/ResolveFaithfulDefs.lean`) says: `b'` is `b` with every `require(<string literal>)` replaced - a statement by the
(recursively inlined) chunk of the file the lookup finds from `dir`, or by an empty statement; an expression by an immediately invoked function whose body is
that chunk and which receives the module name - and with nothing else changed (congruence rules for every other constructor, same tokens, same data).
`InlBlockF` additionally threads the table of files inlined so far, in the walker's traversal order: an empty statement exactly when the file is already in the
table, a chunk exactly when it is not; an expression-level require is never deduplicated but enters its file.  That relation is FUNCTIONAL (`C04_spec_deterministic`),
so the resolver's result is the one and only tree the specification allows (`C04_faithful_unique`).
-/
namespace Tumfl.Props
open Tumfl.Model Tumfl.Theory

/-- whatever `resolve_recursive` returns is the main file's tree with its requires inlined faithfully and nothing else changed (any fuel) -/
theorem C04_faithful {fs : FS} {main : Path} {sp : List Path} {fuel : Nat} {b' : Block} (h : resolveRecursive fs main sp fuel = .ok b') :
    ∃ text b x, fs.read main = some text ∧ parseText text = .ok (b, x) ∧ InlBlock fs sp (dirOf main) b b' :=
  resolve_faithful h

/-- the same with the deduplication table threaded through in traversal order, starting from the empty table -/
theorem C04_faithful_dedup {fs : FS} {main : Path} {sp : List Path} {fuel : Nat} {b' : Block} (h : resolveRecursive fs main sp fuel = .ok b') :
    ∃ text b x found', fs.read main = some text ∧ parseText text = .ok (b, x) ∧ InlBlockF fs sp (dirOf main) [] b b' found' :=
  resolve_faithfulF h

/-- the threaded specification determines its result -/
theorem C04_spec_deterministic {fs : FS} {sp : List Path} {dir : Path} {fd fd1 fd2 : List Path} {b b1 b2 : Block}
    (h : InlBlockF fs sp dir fd b b1 fd1) (k : InlBlockF fs sp dir fd b b2 fd2) : b1 = b2 ∧ fd1 = fd2 :=
  InlBlockF.det h k

/-- hence the resolver's result is the only tree the specification relates the main file's parse to -/
theorem C04_faithful_unique {fs : FS} {main : Path} {sp : List Path} {fuel : Nat} {b b' b2 : Block} {text : List Char} {x : List Hint} {fd2 : List Path}
    (h : resolveRecursive fs main sp fuel = .ok b') (hr : fs.read main = some text) (hp : parseText text = .ok (b, x))
    (k : InlBlockF fs sp (dirOf main) [] b b2 fd2) : b2 = b' :=
  resolve_faithfulF_unique h hr hp k

/-- the threaded specification refines the plain one -/
theorem C04_spec_forget {fs : FS} {sp : List Path} {dir : Path} {fd fd' : List Path} {b b' : Block} (h : InlBlockF fs sp dir fd b b' fd') :
    InlBlock fs sp dir b b' := h.forget

/-- a statement-level require becomes an empty statement exactly when its file is already in the table, the file's chunk exactly when it is not -/
theorem C04_dedup {fs : FS} {sp : List Path} {f : Nat} {dir : Path} {t tk : Token} {fn : Expr} {name : List Char} {s' : Stmt} {st st' : RSt}
    (h : resolveStmt fs sp (f + 1) dir (.call t fn [.string tk name]) st = .ok (s', st')) (hfn : isRequireName fn = true) :
    ∃ path, findFileInPath fs sp name dir = some path ∧
      ((s' = .semi t ∧ path ∈ st.found ∧ st' = st) ∨ (∃ c, s' = .block c ∧ path ∉ st.found ∧ path ∈ st'.found)) :=
  resolveStmt_require_found h hfn

/-- non-vacuity: a concrete file system on which resolution succeeds and all three inlining rules are used (kernel evaluation) -/
theorem C04_faithful_example : faithfulCheck (resolveRecursive faithfulFS ["main.lua"] [] 20) = true ∧
    ∃ b b0 x text, resolveRecursive faithfulFS ["main.lua"] [] 20 = .ok b ∧ faithfulFS.read ["main.lua"] = some text ∧ parseText text = .ok (b0, x) ∧
      InlBlock faithfulFS [] [] b0 b :=
  ⟨faithful_shape, faithful_nonvacuous⟩

/-- the plain relation over-approximates the model at one point: `require(x)` (not a literal) is related to itself, while the model raises -/
theorem C04_spec_strict (fs : FS) (sp : List Path) (dir : Path) (t : Token) :
    InlExpr fs sp dir (.call t (.name t "require".toList) [.name t "x".toList]) (.call t (.name t "require".toList) [.name t "x".toList]) ∧
    ∀ f st, resolveExpr fs sp (f + 1) dir (.call t (.name t "require".toList) [.name t "x".toList]) st = .error (.dependency "Wrong require() arguments" t) :=
  inl_nonliteral_require fs sp dir t

/-! ## C12: nothing is silently left behind -/

/-- in a successfully resolved tree NO call of the bare name `require` remains, whatever its arguments: the literal ones were inlined (and the inlined chunks
resolved in turn), every other one raised.  (`C04_no_require` is the special case of the literal ones.) -/
theorem C12_nothing_left (fs : FS) (main : Path) (sp : List Path) (fuel : Nat) (b : Block) (h : resolveRecursive fs main sp fuel = .ok b) :
    mentionsRequireBlock b = false :=
  resolve_nothing_left fs main sp fuel b h

/-- and if resolution succeeds, the main file contained no bare-name `require` call with anything but one string literal as arguments -/
theorem C12_ok_no_bad_require (fs : FS) (main : Path) (sp : List Path) (fuel : Nat) (b' : Block) (h : resolveRecursive fs main sp fuel = .ok b') :
    ∃ text b hs, fs.read main = some text ∧ parseText text = .ok (b, hs) ∧ badRequireBlock b = false :=
  resolve_ok_no_bad_require fs main sp fuel b' h

/-- the InvalidDependencyError is raised FOR THAT CALL: the token an `InvalidDependencyError` carries is the token of a call of the bare name `require` that occurs in
a file of the dependency tree (`InTree`: the main file, and every file a literal require in a tree file finds) and that really is uninlinable - its arguments are not exactly one
string literal (message "Wrong require() arguments"), or the lookup from that file's directory finds nothing (message "Could not find dependency").  No hypothesis: the parser never
raises that error class (`parseText_no_dependency`). -/
theorem C12_error_designates (fs : FS) (main : Path) (sp : List Path) (fuel : Nat) (m : String) (t : Token)
    (h : resolveRecursive fs main sp fuel = .error (.dependency m t)) :
    ∃ dir b, InTree fs sp main dir b ∧ offendsBlock fs sp dir m t b :=
  resolve_designates fs main sp fuel m t h

/-- every block of the dependency tree is the parse of a file (as a chunk, for an inlined one), and its directory is that file's -/
theorem C12_tree_is_files {fs : FS} {sp : List Path} {main : Path} {dir : Path} {b : Block} (h : InTree fs sp main dir b) :
    ∃ path text b0 hs, fs.read path = some text ∧ parseText text = .ok (b0, hs) ∧ dir = dirOf path ∧ (b = b0 ∨ b = asChunk b0) :=
  h.is_file

/-- C12, the main clause (completeness): if resolution SUCCEEDS, no file of the dependency tree contains an uninlinable call of the bare name `require` - in whichever file and
whichever syntactic position the walker reaches.  Deduplication, statement-level cycles and files reached only through expression-level requires are covered: every file enters the
table before its chunk is walked, and at the end every file in the table is clean with all its requires in the table again (`resolve_closed_table`). -/
theorem C12_complete {fs : FS} {main : Path} {sp : List Path} {fuel : Nat} {b' : Block} (h : resolveRecursive fs main sp fuel = .ok b') :
    ∀ dir b m t, InTree fs sp main dir b → ¬ offendsBlock fs sp dir m t b :=
  resolve_complete h

/-- equivalently: one offending call anywhere in the tree and resolution ends in an error for EVERY fuel (a dependency error, a parse error of some file or - outside the
quantifier - exhausted recursion: `C12_errors`) -/
theorem C12_offending_never_ok {fs : FS} {main : Path} {sp : List Path} {dir : Path} {b : Block} {m : String} {t : Token}
    (ht : InTree fs sp main dir b) (ho : offendsBlock fs sp dir m t b) (fuel : Nat) : ∃ e, resolveRecursive fs main sp fuel = .error e :=
  resolve_fails_of_offending ht ho fuel

/-- soundness + completeness: an InvalidDependencyError at one recursion budget means no budget succeeds -/
theorem C12_dependency_error_stable {fs : FS} {main : Path} {sp : List Path} {fuel : Nat} {m : String} {t : Token}
    (h : resolveRecursive fs main sp fuel = .error (.dependency m t)) (fuel' : Nat) : ∃ e, resolveRecursive fs main sp fuel' = .error e :=
  resolve_dependency_error_never_ok h fuel'

/-- on success every literal require of every tree file finds a file that parses (and is in the tree again) -/
theorem C12_complete_parses {fs : FS} {main : Path} {sp : List Path} {fuel : Nat} {b' : Block} (h : resolveRecursive fs main sp fuel = .ok b')
    {dir : Path} {b : Block} (ht : InTree fs sp main dir b) {path : Path} (hreq : requiresBlock fs sp dir path b) :
    ∃ text b1 hs, fs.read path = some text ∧ parseText text = .ok (b1, hs) ∧ InTree fs sp main (dirOf path) (asChunk b1) :=
  resolve_complete_parses h ht hreq

/-- non-vacuity: a file system with an expression-level inlining, a deduplicated statement-level require and a require back to the main file, on which resolution succeeds -/
theorem C12_complete_example : ∃ b', resolveRecursive exCleanFS ["p", "main.lua"] [] 20 = .ok b' := exCleanFS_ok

end Tumfl.Props
