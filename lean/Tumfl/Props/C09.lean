import Tumfl.Theory.LexTotal
import Tumfl.Theory.Hints
import Tumfl.Theory.ParserWF
import Tumfl.Theory.ParserFuelExamples
/-!
# C09  Parsing any text returns an AST or raises LexerError/ParserError

Proved for the model (T2-tied to lexer.py and parser.py on the malformed streams):
* `C09_lexer_total`: for ANY text, lexing returns tokens or fails with `LexerError` (or at the modelling border of lone
  surrogates): never `AssertionError`, `IndexError`, the `None`-concatenation sites, and never out of fuel (= it terminates);
* `C09_lexer_progress`: every non-end-of-file token consumes at least one character;
* `C09_no_index_error`: the parser's hint stack never raises `IndexError`, whatever the text;
* `C09_parser_errors`: every error of `parseText` is a lexer error as above, a `ParserError`, an `AssertionError` site or fuel
  exhaustion.  NOT yet proved: that the two remaining `AssertionError` sites of the parser (`_parse_var_terminal` default,
  `Number.from_token`) are unreachable and that the parser's fuel suffices - both are covered by T2 on the malformed streams.
-/
namespace Tumfl.Props
open Tumfl.Model Tumfl.Theory

theorem C09_lexer_total (cfg : LexCfg) (t : List Char) :
    (∃ toks, lexText cfg t = .ok toks) ∨ (∃ e, lexText cfg t = .error e ∧ Benign' e) :=
  lexText_total cfg t

theorem C09_lexer_terminates (cfg : LexCfg) (t : List Char) : lexText cfg t ≠ .error .fuel := lexText_ne_fuel cfg t

theorem C09_lexer_progress {cfg : LexCfg} {s : LexSt} {tok : Token} {s' : LexSt}
    (h : getNextToken cfg s = .ok (tok, s')) (hne : tok.type ≠ .EOF) : s'.rest.length < s.rest.length :=
  getNextToken_progress h hne

theorem C09_no_index_error' (src : List Char) (site : String) : parseText src ≠ .error (.py "IndexError" site) :=
  parseText_no_index_error src site

/-- what a failing `parse` can raise at all -/
def ParseErrOK (e : PyErr) : Prop :=
  Benign' e ∨ (∃ m t h, e = .parser m t h) ∨ (∃ site, e = .py "AssertionError" site) ∨ e = .fuel

instance : GoodErr ParseErrOK where
  fuel := Or.inr (Or.inr (Or.inr rfl))
  parser := fun m t h => Or.inr (Or.inl ⟨m, t, h, rfl⟩)
  assertion := fun site => Or.inr (Or.inr (Or.inl ⟨site, rfl⟩))
  lex := fun cfg s e h => by
    rcases getNextToken_total cfg s with ⟨tok, s', h1⟩ | ⟨e', h1, h2⟩
    · rw [h] at h1; cases h1
    · rw [h] at h1; cases h1; exact Or.inl h2

theorem C09_parser_errors (src : List Char) (e : PyErr) (h : parseText src = .error e) : ParseErrOK e :=
  parseText_err (G := ParseErrOK) src e h

/-- no `assert` of lexer or parser is ever violated, whatever the text (the two `assert False` branches of the parser are unreachable,
`Number.from_token` always sees a numeral tuple) -/
theorem C09_no_assertion (src : List Char) (site : String) : parseText src ≠ .error (.py "AssertionError" site) :=
  parseText_no_assertion src site

/-- together: whatever the text, `parse` returns a tree, or raises LexerError or ParserError - or (model artefacts) hits the modelling
border of lone surrogates or runs out of the model's fuel -/
theorem C09_parse_total (src : List Char) (e : PyErr) (h : parseText src = .error e) :
    Benign' e ∨ (∃ m t hs, e = .parser m t hs) ∨ e = .fuel := by
  rcases C09_parser_errors src e h with hb | hp | ⟨site, hs⟩ | hf
  · exact Or.inl hb
  · exact Or.inr (Or.inl hp)
  · exact absurd (hs ▸ h) (C09_no_assertion src site)
  · exact Or.inr (Or.inr hf)

/-- **termination of the parser**: the model's recursion fuel (`5 * length + 64`; one unit per nested call of the Python original) is never
exhausted - every loop iteration and every descent consumes a token before the same function is entered again (potential argument over all 21
functions and the ladder, `Theory/ParserFuel.lean`).  `C09_old_fuel` records that the constant the model used at first (`4 * length + 64`) was too
small: nested table constructors cost five calls per character. -/
theorem C09_parser_terminates (src : List Char) : parseText src ≠ .error .fuel := parseText_no_fuel src

theorem C09_old_fuel : parseTextWith (4 * fuelCounterexample.length + 64) fuelCounterexample = .error .fuel := old_fuel_counterexample

/-- the outcome does not depend on the fuel once it suffices (so the constant is not part of the meaning of the model) -/
theorem C09_fuel_irrelevant (src : List Char) (fuel : Nat) (hf : 5 * src.length + 15 ≤ fuel) : parseText src = parseTextWith fuel src :=
  parseText_eq_any_fuel src fuel hf

/-- whatever the text, `parse` terminates and returns a tree, or raises LexerError or ParserError (or hits the modelling border of lone
surrogates) -/
theorem C09_parse_total_final (src : List Char) (e : PyErr) (h : parseText src = .error e) :
    Benign' e ∨ (∃ m t hs, e = .parser m t hs) := by
  rcases C09_parse_total src e h with hb | hp | hf
  · exact Or.inl hb
  · exact Or.inr hp
  · exact absurd (hf ▸ h) (C09_parser_terminates src)

end Tumfl.Props
