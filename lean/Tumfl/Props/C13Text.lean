import Tumfl.Props.Final
/-!
# C13 at the level of the final text

`C13_text`: parse, then format with comments switched on, under any documented style: the comments the reference lexer finds in the final text -
each delivered on the token that follows it - are, in this order, the header `-- tumfl` and then, for every statement of the tree in source order,
each of its leading comments exactly once, spelled as `_format_comment` spells it (`commentPiece`; by `C08_comment_wf` / `C08_comment_text` that spelling
reads back as the stripped comment text).  Hypothesis `hcm`: the known finding K5 is excluded (no comment has a blank directly before an inner line
break).  The second disjunct only occurs for a non-minifying style with separator `;`: the appended `;` becomes part of a short comment that ends the text.
`C13_text_off`: with comments switched off, the header is the only comment in the text.
-/
namespace Tumfl.Props
open Tumfl.Model Tumfl.Theory Tumfl.Inst

/-- the text of a piece -/
def pieceText : Piece → List Char
  | .str s => s
  | .sep _ => []

theorem comStrs_eq_filter (L : Pieces) : comStrs L = (L.filter isCommentPiece).map pieceText := by
  induction L with
  | nil => rfl
  | cons p L ih =>
    cases p with
    | sep k => rw [comStrs_cons_sep, ih]; simp [List.filter, isCommentPiece]
    | str s =>
      rw [comStrs_cons_str, ih]
      have : isCommentPiece (.str s) = isCom s := rfl
      cases h : isCom s <;> simp [List.filter, this, h, pieceText]

theorem C13_text (src out : List Char) (b : Block) (hs : List Hint) (sty : Style)
    (hp : parseText src = .ok (b, hs)) (hd : DocStyle sty) (hon : sty.includeComments = true)
    (hcm : ∀ c ∈ commentsBlock b, ∀ t, commentPiece sty c = .str t → Tidy t)
    (hf : formatI sty b = .ok out) :
    ∃ ts, Spec.lex out = .ok ts ∧
      (ts.flatMap (·.comments) = (headerText sty :: (commentsBlock b).map fun c => pieceText (commentPiece sty c)).map comText ∨
        (ending sty = [';'] ∧ ∃ init c, headerText sty :: ((commentsBlock b).map fun c => pieceText (commentPiece sty c)) = init ++ [c] ∧
          ts.flatMap (·.comments) = (init ++ [c ++ [';']]).map comText)) := by
  have hpr := parseText_printable src b hs hp
  have hwf := TreeWF_of_Printable hpr
  rw [formatI_eq_format_of_printable sty b hpr] at hf
  have key : comStrs (emit sty b) = (commentsBlock b).map fun c => pieceText (commentPiece sty c) := by
    rw [comStrs_eq_filter, emit_comments_on sty hon b hwf, List.map_map]; rfl
  have := format_lex_comments sty hd b hpr (parseText_numsCanon src b hs hp)
    (comments_tidy_of_tree sty b hwf (Or.inr hcm)) out hf
  rw [key] at this
  exact this

theorem C13_text_off (src out : List Char) (b : Block) (hs : List Hint) (sty : Style)
    (hp : parseText src = .ok (b, hs)) (hd : DocStyle sty) (hoff : sty.includeComments = false)
    (hf : formatI sty b = .ok out) :
    ∃ ts, Spec.lex out = .ok ts ∧
      (ts.flatMap (·.comments) = [comText (headerText sty)] ∨
        (ending sty = [';'] ∧ ts.flatMap (·.comments) = [comText (headerText sty ++ [';'])])) := by
  have hpr := parseText_printable src b hs hp
  have hwf := TreeWF_of_Printable hpr
  rw [formatI_eq_format_of_printable sty b hpr] at hf
  have key : comStrs (emit sty b) = [] := by
    rw [comStrs_eq_filter, emit_comments_off sty hoff b hwf]; rfl
  obtain ⟨ts, hl, h⟩ := format_lex_comments sty hd b hpr (parseText_numsCanon src b hs hp)
    (comments_tidy_of_tree sty b hwf (Or.inl hoff)) out hf
  rw [key] at h
  refine ⟨ts, hl, ?_⟩
  rcases h with h | ⟨he, init, c, hic, h⟩
  · left; simpa using h
  · right
    refine ⟨he, ?_⟩
    have : init = [] ∧ c = headerText sty := by
      cases init with
      | nil => simp at hic; exact ⟨rfl, hic.symm⟩
      | cons a r =>
        exfalso
        have hlen := congrArg List.length hic
        simp at hlen
    obtain ⟨rfl, rfl⟩ := this
    simpa using h

end Tumfl.Props
