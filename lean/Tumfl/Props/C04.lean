import Tumfl.Theory.Resolve
import Tumfl.Theory.ResolveTermExamples
import Tumfl.Theory.ResolveTermMono
import Tumfl.Theory.PrintInlined
/-!
# C04  require() inlining yields a complete program   /   C12  uninlinable requires raise InvalidDependencyError

On the model of `dependency_resolver.py` over an abstract file system (T2-tied to the real resolver on real directory trees):
* `C04_lookup`: the file chosen for a module is the FIRST file among the candidates `dir/name+suffix`, `dir` ranging over the requiring
  file's directory and then the search paths in order, `suffix` over '', '.tl', '.lua';
* `C04_no_require`: in the result of a successful resolution no `require(<string literal>)` call remains, at statement or expression level,
  at any depth, in any inlined file;
* `C12_untouched`: a tree that mentions no bare `require` call is returned unchanged (method calls `x:require`, field calls `t.require`,
  other names are not matched);
* `C12_wrong_args`, `C12_missing` (statement and expression level): a require call with anything but one string literal, or whose module
  has no candidate that is a file, or whose name has an empty first component, raises InvalidDependencyError carrying that call's token;
* `C12_errors`: nothing else can come out of resolution except the errors of parsing a file (and fuel, a model artefact).
Not proved: "everything else in every file is unchanged and the spliced statements are exactly the file's" (the faithful part of C04) -
covered by the T2 stream and the inlining oracle; formatting the result: C01/C08 streams; statement-level cycles terminate: oracle stream.
-/
namespace Tumfl.Props
open Tumfl.Model Tumfl.Theory

theorem C04_lookup {fs : FS} {sp : List Path} {name : List Char} {dir p : Path} (h : findFileInPath fs sp name dir = some p) :
    ∃ pre post, candidates sp name dir = pre ++ p :: post ∧ fs.isFile p = true ∧ ∀ q ∈ pre, fs.isFile q = false :=
  findFileInPath_some_first h

theorem C04_lookup_none (fs : FS) (sp : List Path) (name : List Char) (dir : Path) :
    findFileInPath fs sp name dir = none ↔ (firstComp name).isEmpty = true ∨ ∀ q ∈ candidates sp name dir, fs.isFile q = false :=
  findFileInPath_none_iff fs sp name dir

theorem C04_no_require (fs : FS) (main : Path) (sp : List Path) (fuel : Nat) (b : Block)
    (h : resolveRecursive fs main sp fuel = .ok b) : hasRequireBlock b = false :=
  resolve_no_require fs main sp fuel b h

theorem C12_untouched (fs : FS) (main : Path) (sp : List Path) (fuel : Nat) (b : Block) (h : resolveRecursive fs main sp fuel = .ok b) :
    ∃ text b0 hs, fs.read main = some text ∧ parseText text = .ok (b0, hs) ∧ (mentionsRequireBlock b0 = false → b = b0) :=
  resolveRecursive_unchanged fs main sp fuel b h

theorem C12_wrong_args_stmt (fs : FS) (sp : List Path) (f : Nat) (dir : Path) (t : Token) (fn : Expr) (args : List Expr) (st : RSt)
    (hfn : isRequireName fn = true) (ha : isStrLit1 args = false) :
    resolveStmt fs sp (f + 1) dir (.call t fn args) st = .error (.dependency "Wrong require() arguments" t) :=
  resolveStmt_require_wrong_args fs sp f dir t fn args st hfn ha

theorem C12_wrong_args_expr (fs : FS) (sp : List Path) (f : Nat) (dir : Path) (t : Token) (fn : Expr) (args : List Expr) (st : RSt)
    (hfn : isRequireName fn = true) (ha : isStrLit1 args = false) :
    resolveExpr fs sp (f + 1) dir (.call t fn args) st = .error (.dependency "Wrong require() arguments" t) :=
  resolveExpr_require_wrong_args fs sp f dir t fn args st hfn ha

theorem C12_missing_stmt (fs : FS) (sp : List Path) (f : Nat) (dir : Path) (t ts : Token) (fn : Expr) (name : List Char) (st : RSt)
    (hfn : isRequireName fn = true) (h : findFileInPath fs sp name dir = none) :
    resolveStmt fs sp (f + 1) dir (.call t fn [.string ts name]) st = .error (.dependency "Could not find dependency" t) :=
  resolveStmt_require_missing fs sp f dir t ts fn name st hfn h

theorem C12_missing_expr (fs : FS) (sp : List Path) (f : Nat) (dir : Path) (t ts : Token) (fn : Expr) (name : List Char) (st : RSt)
    (hfn : isRequireName fn = true) (h : findFileInPath fs sp name dir = none) :
    resolveExpr fs sp (f + 1) dir (.call t fn [.string ts name]) st = .error (.dependency "Could not find dependency" t) :=
  resolveExpr_require_missing fs sp f dir t ts fn name st hfn h

theorem C12_errors (fs : FS) (main : Path) (sp : List Path) (fuel : Nat) (e : PyErr) (h : resolveRecursive fs main sp fuel = .error e) :
    (∃ m t, e = .dependency m t) ∨ (∃ p text, fs.read p = some text ∧ parseText text = .error e) ∨
    (e = .py "FileNotFoundError" "dependency_resolver._parse_file" ∧ fs.read main = none) ∨ e = .fuel :=
  resolveRecursive_error fs main sp fuel e h

/-! ## termination (C04: acyclic trees; C12: statement-level cycles terminate) -/

/-- if the EXPRESSION-level require edges between files admit a rank function (are acyclic), resolution terminates for every main file and
search path, whatever the statement-level requires do - cycles included - with an explicit bound on the recursion depth:
(files + 1) * (max rank + 1) * (max depth of a parsed file).  The outcome is the same for every sufficient fuel (`C04_outcome_unique`). -/
theorem C04_terminates {fs : FS} {sp : List Path} {rank : Path → Nat} (hrank : ∀ p q, ExprEdge fs sp p q → rank q < rank p) (main : Path) (fuel : Nat)
    (hf : resolveFuel fs rank ≤ fuel) : resolveRecursive fs main sp fuel ≠ .error .fuel :=
  resolveRecursive_no_fuel hrank main fuel hf

theorem C04_outcome_unique {fs : FS} {sp : List Path} {rank : Path → Nat} (hrank : ∀ p q, ExprEdge fs sp p q → rank q < rank p) (main : Path) :
    ∃ res, res ≠ .error .fuel ∧ ∀ fuel, resolveFuel fs rank ≤ fuel → resolveRecursive fs main sp fuel = res :=
  resolveRecursive_outcome hrank main

/-- statement-level cycles of any length are harmless: without expression-level requires resolution always terminates -/
theorem C12_stmt_cycles_terminate {fs : FS} {sp : List Path} (hno : ∀ p q, ¬ ExprEdge fs sp p q) (main : Path) (fuel : Nat)
    (hf : (fs.files.length + 1) * maxFileDepth fs ≤ fuel) : resolveRecursive fs main sp fuel ≠ .error .fuel :=
  resolveRecursive_no_fuel_stmt_only hno main fuel hf

/-- a two-file statement-level cycle resolves (`a.lua: require("b")`, `b.lua: require("a")`) -/
theorem C12_cycle_example : isOk (resolveRecursive stmtCycleFS ["a.lua"] [] 20) = true := stmtCycle_ok

/-- an expression-level self-require never terminates (Python: RecursionError) - outside the quantifier, shown for contrast -/
theorem C04_expr_cycle_diverges : ∀ n, resolveRecursive exprCycleFS ["a.lua"] [] n = .error .fuel := exprCycle_always_fuel

/-! ## the result of resolution formats to valid Lua (C04, last clause), token level, emitter before fix 32 -/

/-- the pieces emitted for a resolved tree - under any style - read as a valid chunk whose tree is the tree with every inlined chunk spliced
into the enclosing statement list, provided no spliced file has a top-level return (K4) and `okBlock` holds: no empty spliced file under
`keepSemicolon`, and - for the emitter BEFORE fix 32 - no spliced file that is not first in its list and begins with a comment followed by a
statement starting with `(` (the defect repaired by fix 32; `Props/EmitI.lean` removes that clause for the repaired emitter) -/
theorem C04_formats_valid (fs : FS) (main : Path) (sp : List Path) (fuel : Nat) (b : Block)
    (h : resolveRecursive fs main sp fuel = .ok b) (hk4 : noSplicedReturn b = true) (sty : Style)
    (hok : okBlock sty.keepSemicolon sty.includeComments b = true) (ks : List Spec.Tk) (hks : ReadTks (emit sty b) ks) :
    ∃ c, Spec.parseToks (toToks ks) = .ok c ∧ BlockRel (dropSemis (flattenChunks b)) (dropEmpty c) :=
  resolve_then_emit_valid_of_check fs main sp fuel b h hk4 sty hok ks hks

end Tumfl.Props
