import Tumfl.Theory.Resolve
/-!
# C04  require() inlining yields a complete program   /   C12  uninlinable requires raise InvalidDependencyError

On the model of `dependency_resolver.py` over an abstract file system (T2-tied to the real resolver on real directory trees):
* `C04_lookup`: the file chosen for a module is the FIRST file among the candidates `dir/name+suffix`, `dir` ranging over the requiring
  file's directory and then the search paths in order, `suffix` over '', '.tl', '.lua';
* `C04_no_require`: in the result of a successful resolution no `require(<string literal>)` call remains, at statement or expression level,
  at any depth, in any inlined file;
* `C12_untouched`: a tree that mentions no bare `require` call is returned unchanged (method calls `x:require`, field calls `t.require`,
  other names are not matched);
* `C12_wrong_args`, `C12_missing` (statement and expression level): a require call with anything but one string literal, or whose module
  has no candidate that is a file, or whose name has an empty first component, raises InvalidDependencyError carrying that call's token;
* `C12_errors`: nothing else can come out of resolution except the errors of parsing a file (and fuel, a model artefact).
Not proved: "everything else in every file is unchanged and the spliced statements are exactly the file's" (the faithful part of C04) -
covered by the T2 stream and the inlining oracle; formatting the result: C01/C08 streams; statement-level cycles terminate: oracle stream.
-/
namespace Tumfl.Props
open Tumfl.Model Tumfl.Theory

theorem C04_lookup {fs : FS} {sp : List Path} {name : List Char} {dir p : Path} (h : findFileInPath fs sp name dir = some p) :
    ∃ pre post, candidates sp name dir = pre ++ p :: post ∧ fs.isFile p = true ∧ ∀ q ∈ pre, fs.isFile q = false :=
  findFileInPath_some_first h

theorem C04_lookup_none (fs : FS) (sp : List Path) (name : List Char) (dir : Path) :
    findFileInPath fs sp name dir = none ↔ (firstComp name).isEmpty = true ∨ ∀ q ∈ candidates sp name dir, fs.isFile q = false :=
  findFileInPath_none_iff fs sp name dir

theorem C04_no_require (fs : FS) (main : Path) (sp : List Path) (fuel : Nat) (b : Block)
    (h : resolveRecursive fs main sp fuel = .ok b) : hasRequireBlock b = false :=
  resolve_no_require fs main sp fuel b h

theorem C12_untouched (fs : FS) (main : Path) (sp : List Path) (fuel : Nat) (b : Block) (h : resolveRecursive fs main sp fuel = .ok b) :
    ∃ text b0 hs, fs.read main = some text ∧ parseText text = .ok (b0, hs) ∧ (mentionsRequireBlock b0 = false → b = b0) :=
  resolveRecursive_unchanged fs main sp fuel b h

theorem C12_wrong_args_stmt (fs : FS) (sp : List Path) (f : Nat) (dir : Path) (t : Token) (fn : Expr) (args : List Expr) (st : RSt)
    (hfn : isRequireName fn = true) (ha : isStrLit1 args = false) :
    resolveStmt fs sp (f + 1) dir (.call t fn args) st = .error (.dependency "Wrong require() arguments" t) :=
  resolveStmt_require_wrong_args fs sp f dir t fn args st hfn ha

theorem C12_wrong_args_expr (fs : FS) (sp : List Path) (f : Nat) (dir : Path) (t : Token) (fn : Expr) (args : List Expr) (st : RSt)
    (hfn : isRequireName fn = true) (ha : isStrLit1 args = false) :
    resolveExpr fs sp (f + 1) dir (.call t fn args) st = .error (.dependency "Wrong require() arguments" t) :=
  resolveExpr_require_wrong_args fs sp f dir t fn args st hfn ha

theorem C12_missing_stmt (fs : FS) (sp : List Path) (f : Nat) (dir : Path) (t ts : Token) (fn : Expr) (name : List Char) (st : RSt)
    (hfn : isRequireName fn = true) (h : findFileInPath fs sp name dir = none) :
    resolveStmt fs sp (f + 1) dir (.call t fn [.string ts name]) st = .error (.dependency "Could not find dependency" t) :=
  resolveStmt_require_missing fs sp f dir t ts fn name st hfn h

theorem C12_missing_expr (fs : FS) (sp : List Path) (f : Nat) (dir : Path) (t ts : Token) (fn : Expr) (name : List Char) (st : RSt)
    (hfn : isRequireName fn = true) (h : findFileInPath fs sp name dir = none) :
    resolveExpr fs sp (f + 1) dir (.call t fn [.string ts name]) st = .error (.dependency "Could not find dependency" t) :=
  resolveExpr_require_missing fs sp f dir t ts fn name st hfn h

theorem C12_errors (fs : FS) (main : Path) (sp : List Path) (fuel : Nat) (e : PyErr) (h : resolveRecursive fs main sp fuel = .error e) :
    (∃ m t, e = .dependency m t) ∨ (∃ p text, fs.read p = some text ∧ parseText text = .error e) ∨
    (e = .py "FileNotFoundError" "dependency_resolver._parse_file" ∧ fs.read main = none) ∨ e = .fuel :=
  resolveRecursive_error fs main sp fuel e h

end Tumfl.Props
