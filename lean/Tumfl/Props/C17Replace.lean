import Tumfl.Theory.TreeReplace
import Tumfl.Theory.TreeReplacePaths
/-!
# C17, in-place edits: replacing a child substitutes exactly the given occurrence, and the tree stays a proper tree

The dependency resolver edits the tree in place: one child of some node is replaced by another subtree (the chunk of a required file, an empty statement, a wrapper
function) and re-linked.  On the generic node model (`Model/Tree.lean`): `GT.replaceAt t p new` replaces the subtree at path `p`.
-/
namespace Tumfl.Props
open Tumfl.Model Tumfl.Theory Tumfl.Inst

/-- the given occurrence is substituted ... -/
theorem C17_replace_exact (t : GT) (p : NodePath) (new : GT) (h : (t.get? p).isSome = true) : (t.replaceAt p new).get? p = some new :=
  get?_replaceAt_self t p new h

/-- ... and nothing else: every node that is neither above nor below the replaced one is untouched ... -/
theorem C17_replace_elsewhere (t : GT) (p q : NodePath) (new : GT) (hpq : ¬ p <+: q) (hqp : ¬ q <+: p) : (t.replaceAt p new).get? q = t.get? q :=
  get?_replaceAt_disjoint t p q new hpq hqp

/-- ... and every ancestor keeps its class, its atomic attributes, its slot names and the number of children in every slot -/
theorem C17_replace_ancestors (t : GT) (p q : NodePath) (new : GT) (hq : q <+: p) (hne : q ≠ p) (a : GT) (ha : t.get? q = some a) :
    ∃ b, (t.replaceAt p new).get? q = some b ∧ b.cls = a.cls ∧ b.atoms = a.atoms ∧
      b.kids.map (·.1) = a.kids.map (·.1) ∧ b.kids.map (·.2.length) = a.kids.map (·.2.length) :=
  replaceAt_ancestor_unchanged t p q new hq hne a ha

/-- after ANY finite sequence of replacements by well-typed subtrees (what dependency resolution does to a parsed tree) the tree is again a proper tree:
`parent()` sets exactly the tree's edges, every node has exactly one parent link, each link designates the node directly above, and the generic walker visits every node exactly once -/
theorem C17_after_edits (t : GT) (rs : List (NodePath × GT)) (ht : wellTyped t = true) (hr : ∀ r ∈ rs, wellTyped r.2 = true) :
    let t' := t.replaceAll rs
    wellTyped t' = true ∧
    (links scanOf [] t' = allEdges [] t' ∧ (childPaths (links scanOf [] t')).Nodup ∧ ∀ e ∈ links scanOf [] t', ∃ ij, e.1 = e.2 ++ [ij]) ∧
    (links walkOf [] t' = allEdges [] t' ∧ (childPaths (links walkOf [] t')).Nodup) :=
  replaceAll_proper_tree t rs ht hr

/-- and the links / the walker reach exactly the non-root paths that address a node of the edited tree, each once -/
theorem C17_after_edits_exact (t : GT) (rs : List (NodePath × GT)) (ht : wellTyped t = true) (hr : ∀ r ∈ rs, wellTyped r.2 = true) (q : NodePath) :
    let t' := t.replaceAll rs
    (q ∈ childPaths (links scanOf [] t') ↔ q ≠ [] ∧ (t'.get? q).isSome = true) ∧
    (q ∈ childPaths (links walkOf [] t') ↔ q ≠ [] ∧ (t'.get? q).isSome = true) ∧
    (childPaths (links scanOf [] t')).Nodup ∧ (childPaths (links walkOf [] t')).Nodup :=
  replaceAll_links_exact t rs ht hr q

end Tumfl.Props
