import Tumfl.Theory.ErrorPos
/-! # C09, last clause: the position carried by a LexerError / ParserError lies inside the text -/
namespace Tumfl.Props
open Tumfl.Model Tumfl.Theory

/-- **error positions lie inside the text**: a LexerError carries a 0-based line that exists and a column between -1 (directly after a line
break) and the length of that line; a ParserError carries a token of the lexer whose 1-based line exists and whose column lies on that line
(the end-of-file token repeats the position of the last character).  Exhaustive: nothing else can come out of `parse`. -/
theorem C09_error_positions (src : List Char) (e : PyErr) (h : parseText src = .error e) :
    (∃ msg l c, e = .lexer msg l c ∧ PosInText src l c) ∨
    (∃ msg tok hs, e = .parser msg tok hs ∧ 1 ≤ tok.line ∧ tok.line ≤ lineOf src + 1 ∧ 0 ≤ tok.column ∧
        tok.column ≤ (lineLen src (tok.line - 1) : Int) + 1) ∨
    e = .py "OutOfModel" "lone surrogate" :=
  parse_error_pos src e h

theorem C09_lexer_error_position (cfg : LexCfg) (t : List Char) (msg : String) (line : Nat) (col : Int)
    (h : lexText cfg t = .error (.lexer msg line col)) : PosInText t line col :=
  lexer_error_pos cfg t msg line col h

end Tumfl.Props
