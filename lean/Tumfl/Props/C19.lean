import Tumfl.Theory.Hints
/-!
# C19  Parser error context is a properly nested path (accepted case) / C09 (no IndexError from the hint stack)

* `C19_ok`: when the model parser (T2-tied to parser.py, hint stack included) accepts a text, its context chain is empty:
  every construct that was entered has been closed - by a mutual induction over all 21 parse functions and the generic ladder.
* `C09_no_index_error`: the hint-stack operations (`list.pop()`, `[-1]`) never raise `IndexError`, whatever the text.
The rejected case of C19 (hint positions in source order, none after the offending token) has no theorem yet: oracle stream only.
-/
namespace Tumfl.Props
open Tumfl.Model Tumfl.Theory

theorem C19_ok (src : List Char) (b : Block) (hs : List Hint) (h : parseText src = .ok (b, hs)) : hs = [] :=
  parseText_hints_empty src b hs h

theorem C19_chunk (fuel : Nat) (s s' : PSt) (b : Block) (h : parseChunk fuel s = .ok (b, s')) : s'.hints = s.hints :=
  parseChunk_hints fuel s s' b h

theorem C09_no_index_error (src : List Char) (site : String) : parseText src ≠ .error (.py "IndexError" site) :=
  parseText_no_index_error src site

end Tumfl.Props
