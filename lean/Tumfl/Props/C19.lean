import Tumfl.Theory.Hints
import Tumfl.Theory.HintOrder
/-!
# C19  Parser error context is a properly nested path (accepted case) / C09 (no IndexError from the hint stack)

* `C19_ok`: when the model parser (T2-tied to parser.py, hint stack included) accepts a text, its context chain is empty:
  every construct that was entered has been closed - by a mutual induction over all 21 parse functions and the generic ladder.
* `C09_no_index_error`: the hint-stack operations (`list.pop()`, `[-1]`) never raise `IndexError`, whatever the text.
* `C19_rejected`: when the model parser rejects a text with a ParserError, the hint chain it carries is in source order (positions
  non-decreasing from outermost to innermost - two constructs may begin at the same token) and no hint lies after the offending token;
  it rests on `C19_lexer_monotone` (successive tokens have non-decreasing positions) and an invariant over all 21 parse functions.
-/
namespace Tumfl.Props
open Tumfl.Model Tumfl.Theory

theorem C19_ok (src : List Char) (b : Block) (hs : List Hint) (h : parseText src = .ok (b, hs)) : hs = [] :=
  parseText_hints_empty src b hs h

theorem C19_chunk (fuel : Nat) (s s' : PSt) (b : Block) (h : parseChunk fuel s = .ok (b, s')) : s'.hints = s.hints :=
  parseChunk_hints fuel s s' b h

theorem C09_no_index_error (src : List Char) (site : String) : parseText src ≠ .error (.py "IndexError" site) :=
  parseText_no_index_error src site

theorem C19_rejected (src : List Char) (msg : String) (tok : Token) (hs : List Hint)
    (h : parseText src = .error (.parser msg tok hs)) :
    (hs.Pairwise fun a b => posLe (tokPos a.token) (tokPos b.token)) ∧ ∀ x ∈ hs, posLe (tokPos x.token) (tokPos tok) :=
  parseText_error_hints' src msg tok hs h

theorem C19_lexer_monotone {cfg : LexCfg} {l0 l1 l2 : LexSt} {t1 t2 : Token}
    (h1 : getNextToken cfg l0 = .ok (t1, l1)) (h2 : getNextToken cfg l1 = .ok (t2, l2)) : posLe (tokPos t1) (tokPos t2) :=
  getNextToken_mono h1 h2

/-- non-vacuity: a rejected text whose error carries four hints -/
example : ∃ msg tok hs, parseText "x = f(".toList = .error (.parser msg tok hs) ∧ 2 ≤ hs.length ∧ HintsOK tok hs := by
  cases h : parseText "x = f(".toList with
  | ok r =>
    have : errInfo (parseText "x = f(".toList) ≠ none := by decide +kernel
    rw [h] at this
    exact absurd rfl this
  | error e =>
    cases e with
    | parser m t hs =>
      refine ⟨m, t, hs, rfl, ?_, parseText_error_hints _ _ _ _ h⟩
      have : (errInfo (parseText "x = f(".toList)).map (fun x => x.2.2.length) = some 4 := by decide +kernel
      rw [h] at this
      simp [errInfo] at this
      omega
    | _ =>
      have : errInfo (parseText "x = f(".toList) ≠ none := by decide +kernel
      rw [h] at this
      exact absurd rfl this

end Tumfl.Props
