import Tumfl.Inst.StrWrite
import Tumfl.Theory.WrapReads
/-!
# C06  Any string value is written as a literal that reads back identically

`visit_String` (model: `Model.visitString`, tied to formatter.py by the T2 stream on every layout stage) writes either a
quoted literal - the value mapped through `escapeChar` between two quotes - or a long bracket whose level is `findLevel`.
The theorems say that the *reference* Lua reader (`Spec.strBody` / `Spec.longBody`, written from llex.c) reads either
form back to exactly the value, for every value (`List Char`: all Unicode scalar values) and whatever follows.
`C06_wrapped`: when the layout pass `_string_ident` breaks a quoted literal that is wider than the line into parts ending in `\z`, the text
that results - parts joined by a line break and any indentation of blanks or tabs - is still read back by the reference reader to exactly the value:
no cut falls inside an escape sequence (`escapePositions` marks exactly the interiors of the escapes `escapeChar` writes) and no cut is followed by a
blank of the value (which `\z` would swallow).
-/
namespace Tumfl.Props
open Tumfl.Model Tumfl.Theory Tumfl.Inst

/-- quoted form: for both quote characters, every value, every continuation -/
theorem C06_quoted (q : Char) (hq : q = '"' ∨ q = '\'') (v rest : List Char) :
    ∃ f, Spec.strBody q f (v.flatMap (escapeChar q) ++ q :: rest) = some (v.map (fun c => Spec.SUnit.ch c.toNat), rest) :=
  quoted_roundtrip q hq v rest

/-- long-bracket form, with the level the formatter computes and its leading-newline rule -/
theorem C06_long (v rest : List Char) :
    let lvl := findLevel v
    let closer := ']' :: repeatChar '=' lvl ++ [']']
    let start := if startsWith v ['\n'] then ['\n'] else []
    Spec.longBody lvl (Spec.dropFirstNewline (start ++ v ++ closer ++ rest)) = some (v, rest) :=
  long_roundtrip v rest

/-- what `visitString` emits is one of the two forms (so the two theorems cover every literal it writes) -/
theorem C06_forms (sty : Style) (v : List Char) :
    (∃ q, (q = '"' ∨ q = '\'') ∧ visitString sty v = [.str (q :: v.flatMap (escapeChar q) ++ [q])]) ∨
    (visitString sty v = [.str (('[' :: repeatChar '=' (findLevel v) ++ ['[']) ++
        (if startsWith v ['\n'] then ['\n'] else []) ++ v ++ (']' :: repeatChar '=' (findLevel v) ++ [']']))]) := by
  unfold visitString
  simp only
  split
  · right; rfl
  · left
    split
    · exact ⟨'\'', Or.inr rfl, rfl⟩
    · exact ⟨'"', Or.inl rfl, rfl⟩

/-- the `\z` wrapping of a quoted literal keeps its value, for every style, indentation level and fill of blanks/tabs after each break -/
theorem C06_wrapped (sty : Style) (quote : Char) (hq : quote = '"' ∨ quote = '\'') (v : List Char) (ind : Int) (ps : Pieces)
    (h : stringIdent (quote :: v.flatMap (escapeChar quote) ++ [quote]) ind sty = .ok ps)
    (fill : Nat → List Char) (hfill : ∀ i, ∀ ch ∈ fill i, ch = ' ' ∨ ch = '\t') :
    IsQuotedLit (wrappedText ps fill) (v.map fun c => Spec.SUnit.ch c.toNat) :=
  wrap_reads sty quote hq v ind ps h fill hfill

def demoStyle : Style where
  statementSeparator := ['\n']
  indentation := ['\t']
  argumentSeparator := [',', ' ']
  includeComments := true
  commentSep := [' ']
  useSingleQuote := false
  useCallShorthand := false
  removeUnnecessaryChars := false
  addAllBrackets := false
  addCloseBrackets := true
  spaceInTable := true
  newlineLimit := 4
  lineWidth := 120
  blockSpacer := 5
  keepSemicolon := false

/-- non-vacuity: a value with a quote, a backslash, a newline and a non-ASCII character -/
example : visitString demoStyle "a\"\\\né".toList = [.str "\"a\\\"\\\\\\n\\u{e9}\"".toList] := by decide +kernel

end Tumfl.Props
