import Tumfl.Theory.LexPosScan
/-!
# C16  Token line and column point at the token's first character

For every text and every token the model lexer (T2-tied to lexer.py, positions included) delivers, the recorded (line, column)
is the 1-based position of a non-white-space character of the text - the character at which the scan of that token began - and
it is the position the reference side (`Spec.posOf`) assigns to that offset.  The end-of-file token lies within the text's lines.
-/
namespace Tumfl.Props
open Tumfl.Model Tumfl.Theory

theorem C16_positions (cfg : LexCfg) (t : List Char) (toks : List Token) (h : lexText cfg t = .ok toks) :
    ∀ tok ∈ toks, tok.type ≠ .EOF → TokenAt t tok :=
  lexText_pos cfg t toks h

theorem C16_reference_position (pre rest : List Char) :
    Spec.posOf (pre ++ rest) pre.length = (lineOf pre + 1, colOf pre + 1) :=
  posOf_split pre rest

theorem C16_eof (cfg : LexCfg) (t : List Char) (toks : List Token) (h : lexText cfg t = .ok toks) :
    ∀ tok ∈ toks, tok.type = .EOF → 1 ≤ tok.line ∧ tok.line ≤ lineOf t + 1 :=
  lexText_eof_line cfg t toks h

/-- the state machine itself: `advance` keeps line and column equal to the position of the cursor -/
theorem C16_advance {t : List Char} {s : LexSt} (h : Inv t s) : Inv t (advance s) := inv_advance h

end Tumfl.Props
