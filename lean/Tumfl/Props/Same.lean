import Tumfl.Theory.SameProgramExamples
/-!
# Composition lemmas for "the output denotes the same program as the source" (C01 / C02 / C08)

* `Same_program`: let `b` be what `parse` returns for `src` (no carriage returns), `ks` ANY reading of the pieces `emit sty b`
  (`ReadTks`), and `out` ANY text that the reference lexer reads as exactly those tokens.  Then both texts are valid chunks and their
  reference trees are equal after `normS` - the structural normalisation that erases parentheses, drops empty statements and replaces
  every numeral by its canonical form, and identifies nothing else (`normS_inj_on_normal`: on trees without parentheses, empty statements and
  non-canonical numerals it is the identity; `normS_normal`, `normS_idem`: it is a retraction onto them).
  What remains for C01/C02/C08 is the hypothesis `hl`/`hk`: that the final text of `format` lexes to a reading of the emitted pieces
  (the layout composition).
* `Same_tokens`: the reference parser looks only at token kinds (offsets and attached comments are irrelevant): proved for all 18 functions.
* `Same_normS_eq`: the model tree determines the reference tree up to `normS`.
The normalisation erases ALL parentheses, hence also those that truncate a call's results (known finding K1): the statement is exactly as strong as
"same program modulo K1"; numerals are compared by canonical form, which is where K2/K3 live on the parse side (`NumRel`).
-/
namespace Tumfl.Props
open Tumfl.Model Tumfl.Theory

theorem Same_program {src out : List Char} {b : Block} {hs : List Hint} {sty : Style} {ks : List Spec.Tk} {ts : List Spec.Tok}
    (hcr : NoCR src) (hp : parseText src = .ok (b, hs)) (hr : ReadTks (emit sty b) ks)
    (hl : Spec.lex out = .ok ts) (hk : ts.map (·.tk) = ks ++ [.eof]) :
    ∃ c c', Spec.Accepts src c ∧ Spec.Accepts out c' ∧ normS c = normS c' :=
  same_program hcr hp hr hl hk

theorem Same_tokens {out : List Char} {ts : List Spec.Tok} {ks : List Spec.Tk} {f : Nat} {c : Spec.Block}
    (hl : Spec.lex out = .ok ts) (hk : ts.map (·.tk) = ks ++ [.eof]) (hb : Spec.block f (toToks ks) = .ok (c, [eofTok])) :
    Spec.Accepts out c :=
  accepts_of_tks hl hk hb

theorem Same_normS_eq {b : Block} {c c' : Spec.Block} (h : BlockRel b c) (h' : BlockRel (dropSemis b) (dropEmpty c')) :
    normS c = normS c' :=
  blockRel_normS_eq' h h'

theorem Same_normS_strength {c c' : Spec.Block} (h : NormalS c) (h' : NormalS c') : normS c = normS c' ↔ c = c' :=
  normS_inj_on_normal h h'

end Tumfl.Props
