import Tumfl.Theory.Api
import Tumfl.Inst.SharedState
/-!
# C14  parse, format and resolve are pure and history-independent

`C14_noninterference`: for a system whose steps never change the shared store, ANY interleaving of ANY histories of calls on any
number of instances gives each instance exactly the outputs of running its own calls alone (induction over the interleaved history).
That tumfl is such a system is the obligation `Inst.no_shared_writes` on the static scan of the package (module-level / class-level
mutable objects, `global`, mutable defaults; writes in functions reachable from the API entry points), re-extracted and re-decided on
every run; `Inst.format_leaves_arguments` is the same for "format modifies neither the AST nor the style".
Partial by nature: the scan recognises stores, deletions, `global` and mutating method calls by name; `setattr`, `globals()`, C-level
caches and byte-code-level thread switching are outside it - the history and thread streams sample those.
-/
namespace Tumfl.Props
open Tumfl.Model Tumfl.Theory

theorem C14_noninterference {Sh Pr Op Out : Type} (S : ApiSys Sh Pr Op Out) (h : NoSharedWrites S) (sh : Sh)
    (hist : List (Nat × Op)) (i : Nat) :
    ((S.run sh (fun _ => S.init) hist).filter (·.1 == i)).map (·.2) =
      S.runAlone sh S.init ((hist.filter (·.1 == i)).map (·.2)) :=
  noninterference S h sh hist i

/-- non-vacuity: a system with a shared counter that IS written violates the conclusion -/
example : let S : ApiSys Nat Unit Unit Nat := { step := fun sh _ _ => (sh + 1, (), sh), init := () }
    ((S.run 0 (fun _ => S.init) [(0, ()), (1, ())]).filter (·.1 == 1)).map (·.2) ≠ S.runAlone 0 S.init [()] := by decide

end Tumfl.Props
