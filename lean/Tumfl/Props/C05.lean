import Tumfl.Theory.StrRead
/-!
# C05  String literals are decoded exactly as Lua 5.4 reads them (quoted literals)

`StrItem` is the declarative description of a quoted literal (plain characters and the escape forms of the manual), `WF` its
maximal-munch side conditions, `InScope` tumfl's documented scope (byte escapes below 128, `\u` scalar values).
* `C05_model_reads`: the model of `Lexer.get_string` (T2-tied to lexer.py) decodes every well-formed in-scope literal to its
  declared value and stops right after the closing quote;
* `C05_reference_reads`: the reference reader (from llex.c) reads the same spelling to the same units - so model and reference agree;
* `C05_rejects_cleanly`: whatever the text, a failing `get_string` fails with `LexerError` (or at the modelling border of lone
  surrogates) - never a Python built-in exception - and it always terminates within its fuel.
Long brackets and comments are covered by the correspondence and oracle streams only (no theorem yet).
-/
namespace Tumfl.Props
open Tumfl.Model Tumfl.Theory

theorem C05_model_reads (q : Char) (hq : q = '"' ∨ q = '\'') (items : List StrItem) (hwf : WF q items) (hscope : InScope items)
    (s : LexSt) (rest : List Char) (hs : s.rest = q :: (spellAll items ++ q :: rest)) :
    ∃ s', getString false s = .ok (valueAll items, s') ∧ s'.rest = rest :=
  getString_spell q hq items hwf hscope s rest hs

theorem C05_reference_reads (q : Char) (hq : q = '"' ∨ q = '\'') (items : List StrItem) (hwf : WF q items) (rest : List Char) :
    ∃ f, Spec.strBody q f (spellAll items ++ q :: rest) = some (unitsAll items, rest) :=
  spec_strBody_spell q hq items hwf rest

theorem C05_same_value (items : List StrItem) (h : InScope items) :
    unitsAll items = (valueAll items).map fun c => Spec.SUnit.ch c.toNat :=
  unitsAll_inScope items h

theorem C05_rejects_cleanly (s : LexSt) (e : PyErr) (h : getString false s = .error e) :
    (∃ m l c, e = .lexer m l c) ∨ e = .py "OutOfModel" "lone surrogate" ∨ e = .py "AssertionError" "lexer.get_string" :=
  getString_no_py' s e h

theorem C05_terminates (iu : Bool) (s : LexSt) : getString iu s ≠ .error .fuel := getString_no_fuel iu s

end Tumfl.Props
