import Tumfl.Theory.StmtToken
import Tumfl.Theory.StmtTokenExamples
/-!
# C13, the source side: a statement's leading comments are the comments written directly in front of it

`stmtComments s` (what the formatter prints in front of a statement) is the comment list of the token stored in the node.  These theorems say which token that is:
the token that was CURRENT when the parser began the statement - whose comment list, by `C20_delivery`, is exactly what the lexer read since the previous token.
One statement form deviates: `local function`, whose node carries the `function` token with the comments in front of `local` appended BEHIND the comments
written between `local` and `function` (`C13_local_function_order`; an inner comment is hoisted in front of the leading ones - the leading ones keep their relative
order, so the property as stated is not violated; noted in DESIGN.md).
-/
namespace Tumfl.Props
open Tumfl.Model Tumfl.Theory

/-- the leading comments of every statement the parser builds are the comments of the token current at its beginning (for `local function`: the comments between
`local` and `function`, then those in front of `local`) - any fuel, any parser state -/
theorem C13_source {f : Nat} {st st' : PSt} {s : Stmt} (h : parseStatement f st = .ok (s, st')) :
    stmtComments s = if st.cur.type = .LOCAL ∧ st.nxt.type = .FUNCTION then st.nxt.comment ++ st.cur.comment else st.cur.comment :=
  parseStatement_comments h

theorem C13_source_cur {f : Nat} {st st' : PSt} {s : Stmt} (h : parseStatement f st = .ok (s, st'))
    (hnl : ¬ (st.cur.type = .LOCAL ∧ st.nxt.type = .FUNCTION)) : stmtComments s = st.cur.comment :=
  parseStatement_comments_cur h hnl

/-- the statements of a block were parsed one after the other, each beginning where the previous one ended, each carrying its first token -/
theorem C13_source_list {f : Nat} {st st' : PSt} {ss : List Stmt} (h : parseStatements f st = .ok (ss, st')) : StmtsFrom st ss st' :=
  parseStatements_from h

/-- for a whole text: the chain starts at the parser's initial state, whose current token is the lexer's first token -/
theorem C13_source_text {text : List Char} {b : Block} {hs : List Hint} (h : parseText text = .ok (b, hs)) :
    ∃ s0 st1, initParser {} text = .ok s0 ∧ StmtsFrom s0 b.stmts st1 :=
  parseText_from h

/-- kernel-evaluated examples: ordinary statements, every variable/call form, and the deviation of `local function` -/
theorem C13_source_examples :
    topComments "-- a\nx = 1 -- b\n-- c\nf(x)".toList = some [[" a".toList], [" b".toList, " c".toList]] ∧
    topComments "-- a\na.b[c] = 1 -- b\n(f)(x) -- c\na:m()".toList = some [[" a".toList], [" b".toList], [" c".toList]] :=
  ⟨topComments_two, topComments_var_forms⟩

theorem C13_local_function_order : topComments "-- a\nlocal -- b\nfunction f() end".toList = some [[" b".toList, " a".toList]] :=
  topComments_local_function

end Tumfl.Props
