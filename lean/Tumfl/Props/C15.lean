import Tumfl.Theory.Idem
import Tumfl.Theory.IdemExample
import Tumfl.Inst.Styles
import Tumfl.Theory.FormatTotal
/-!
# C15  Minifying is idempotent

`C15_idempotent`: for every source text without carriage returns that `parse` accepts: if minifying its tree returns `t1`, then `parse` accepts `t1`, and
minifying the tree it returns gives `t1` again - byte for byte.  `minifiedStyle` is `MinifiedStyle` as formatter.py defines it (`minifiedStyle_repr_ok`,
re-extracted on every run); `parseText` / `formatI` are the models of `tumfl.parse` / `tumfl.format` as the code stands (T2-tied).
`C15_idempotent_general`: the same for every documented style without comments, without kept semicolons, with separator removal, line width 0 and block
spacer 0; additionally the re-parsed tree denotes the same normal reference tree (`denote`).

How it goes (Theory/Idem*.lean, 7 600 lines): the minified text lexes to a reading of the pieces `remove_separators` leaves; the reference parser reads it
as a tree related to the original; `parse` on the text therefore succeeds with a tree `b'` that denotes the same program; `b'` has an empty statement
exactly where the text has a `;` (a four-state scanner over the token list agrees with the reference parser about where blocks begin); trees with the same
denotation, matching `;` flags and equally spelled numerals emit the same pieces up to Statement separators that directly follow another separator - and
the layout pipeline does not see those; numeral spelling (`1e5` vs `1e+5` is invisible in the token relation) is followed through the text itself.
-/
namespace Tumfl.Props
open Tumfl.Model Tumfl.Theory Tumfl.Inst

theorem C15_idempotent (src t1 : List Char) (b : Block) (hs : List Hint) (hcr : NoCR src)
    (hp : parseText src = .ok (b, hs)) (h1 : formatI minifiedStyle b = .ok t1) :
    ∃ b' hs', parseText t1 = .ok (b', hs') ∧ formatI minifiedStyle b' = .ok t1 :=
  minify_idempotent src t1 b hs hcr hp h1

theorem C15_idempotent_general (sty : Style) (hd : DocStyle sty) (hic : sty.includeComments = false)
    (hks : sty.keepSemicolon = false) (hr : sty.removeUnnecessaryChars = true) (hw : sty.lineWidth = 0)
    (hbs : sty.blockSpacer = 0) (src t1 : List Char) (b : Block) (hs : List Hint) (hcr : NoCR src)
    (hp : parseText src = .ok (b, hs)) (h1 : format sty b = .ok t1) :
    ∃ b' hs', parseText t1 = .ok (b', hs') ∧ Printable b' ∧ denote b' = denote b ∧ format sty b' = .ok t1 :=
  format_idempotent sty hd hic hks hr hw hbs src t1 b hs hcr hp h1

/-- without any hypothesis about `format`: minify, parse, minify again - the two minified texts exist and are equal -/
theorem C15_idempotent_total (src : List Char) (b : Block) (hs : List Hint) (hcr : NoCR src) (hp : parseText src = .ok (b, hs)) :
    ∃ t1 b' hs', formatI minifiedStyle b = .ok t1 ∧ parseText t1 = .ok (b', hs') ∧ formatI minifiedStyle b' = .ok t1 := by
  obtain ⟨t1, h1⟩ := formatI_total_parsed minifiedStyle src b hs hp
  obtain ⟨b', hs', h2, h3⟩ := minify_idempotent src t1 b hs hcr hp h1
  exact ⟨t1, b', hs', h1, h2, h3⟩

end Tumfl.Props
