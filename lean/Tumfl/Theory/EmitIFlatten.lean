import Tumfl.Theory.EmitIStmts
import Tumfl.Theory.PrintInlinedPre
/-!
# The repaired emitter on an inlined tree and on its flattening

`rl_content` (with `rl_expr`, `rl_stmts`, ...): if `flattenChunks b` is printable and no empty chunk is spliced under a style that
keeps semicolons (`okBlock keep false b`: the `hidesGuard` clause of `PrintInlined` is switched off), every token reading of the
pieces the repaired emitter prints for `b` is a reading of the pieces it prints for `flattenChunks b`: the two piece lists differ
only in the position of a `;` guard relative to the comments of the first statement of a spliced chunk.
-/
namespace Tumfl.Theory
open Tumfl.Model

macro "erel" : tactic => `(tactic| repeat (first
  | assumption
  | exact ERel.refl _
  | apply ERel.append
  | apply ERel.cons
  | apply ERel.ite
  | apply ERel.wrapParens
  | apply ERel.fmtVar
  | apply ERel.fmtKey
  | apply ERel.fmtFunctionArgs))

macro "srel" : tactic => `(tactic| repeat (first
  | assumption
  | exact SRel.refl _
  | (apply ERel.toSRel; assumption)
  | apply SRel.append
  | apply SRel.cons
  | apply SRel.ite
  | (apply ERel.toSRel; erel; done)))

theorem erel_wrap (p : Piece) (pre post : Pieces) {c c' : Pieces} (h : SRel c c') :
    ERel (p :: pre ++ c ++ post) (p :: pre ++ c' ++ post) :=
  ERel.cons_of_SRel p (SRel.append (SRel.append (SRel.refl pre) h) (SRel.refl post))

theorem pBlock_fcBody (b : Block) : pBlock (fcBody b) = pBlock (fcBlock b) := by
  obtain ⟨t, ss, rs, c⟩ := b; cases rs <;> simp [fcBody, fcBlock, pBlock]

theorem contentI_flag (sty : Style) (t : Token) (ss : List Stmt) (rs : Option (List Expr)) (c c' : Bool) (K : Pieces) :
    contentI sty (.mk t ss rs c) K = contentI sty (.mk t ss rs c') K := by
  cases rs <;> cases ss <;> rfl

theorem contentI_fcBody (sty : Style) (b : Block) (K : Pieces) :
    contentI sty (fcBody b) K = contentI sty (fcBlock b) K := by
  obtain ⟨t, ss, rs, c⟩ := b
  cases rs <;> simp only [fcBody, fcBlock] <;> exact contentI_flag sty _ _ _ _ _ K

/-- one statement replaced by one statement -/
theorem stP_single {sty : Style} {first : Bool} {s s' : Stmt} (h1 : stmtComments s' = stmtComments s)
    (h2 : SRel (visitStmtI sty s) (visitStmtI sty s')) {K K' : Pieces} (hK : SRel K K') :
    SRel (stPI sty first s ++ K) (VSK sty first [s'] K') := by
  rw [VSK]
  unfold stPI stmtCommentPieces
  rw [h1, guardI_congr h2.lead]
  exact SRel.append (SRel.append (SRel.refl _) h2) hK

/-- a `while` / `for` body or the root: printed through `blk` -/
theorem srel_blk {sty : Style} {b b' : Block} (hc : b'.isChunk = b.isChunk)
    (h : ∀ K K', SRel K K' → SRel (contentI sty b K) (contentI sty b' K')) :
    SRel (blk b (visitBlockFullI sty b)) (blk b' (visitBlockFullI sty b')) := by
  cases hb : b.isChunk with
  | true =>
    rw [blkI_chunk sty b hb, blkI_chunk sty b' (hc.trans hb)]
    exact h _ _ (SRel.refl _)
  | false =>
    rw [blkI_block sty b hb, blkI_block sty b' (hc.trans hb)]
    exact SRel.append (SRel.append (SRel.refl _) (h _ _ (SRel.refl _))) (SRel.refl _)

theorem srel_slice21 {sty : Style} {b b' : Block} (hb : b.isChunk = false) (hc : b'.isChunk = b.isChunk)
    (h : ∀ K K', SRel K K' → SRel (contentI sty b K) (contentI sty b' K')) :
    SRel (sliceInner 2 1 (blk b (visitBlockFullI sty b))) (sliceInner 2 1 (blk b' (visitBlockFullI sty b'))) := by
  rw [slice21I sty b hb, slice21I sty b' (hc.trans hb)]
  exact SRel.append (SRel.append (SRel.refl _) (h _ _ (SRel.refl _))) (SRel.refl _)

theorem erel_drop1 {sty : Style} {b b' : Block}
    (h : ∀ K K', SRel K K' → SRel (contentI sty b K) (contentI sty b' K')) :
    ERel ((visitBlockFullI sty b).drop 1) ((visitBlockFullI sty b').drop 1) := by
  rw [drop1I, drop1I]
  exact erel_wrap (S .block) [S .indent] _ (h _ _ (SRel.refl _))

/-- the spliced non-empty chunk -/
theorem splice_stepI (sty : Style) (first : Bool) (t : Token) (cs : List Stmt) (x : Stmt) (xs : List Stmt) (hne : cs ≠ [])
    (ih : ∀ K K', SRel K K' → SRel (VSK sty true cs K) (VSK sty true (x :: xs) K'))
    {K K' : Pieces} (hK : SRel K K') :
    SRel (stPI sty first (.block (.mk t cs none true)) ++ K) (VSK sty first (addCommentHead t.comment (x :: xs)) K') := by
  have htoks : visitStmtI sty (.block (.mk t cs none true)) = VSK sty true cs [] := by
    rw [visitStmtI, blkI_chunk sty _ rfl]
    cases cs with
    | nil => exact absurd rfl hne
    | cons s r => rfl
  -- the leading token of the chunk is the leading token of its first (flattened) statement
  have hlead : guardI first (VSK sty true cs []) = guardI first (visitStmtI sty x) := by
    have h0 := (ih [] [] (SRel.refl _)).lead
    rw [VSK_cons] at h0
    unfold stPI at h0
    rw [List.append_assoc, List.append_assoc, leadTok_stmtCommentPieces, guardI_true, List.nil_append, leadTok_append] at h0
    cases hx : leadTok (visitStmtI sty x) with
    | some tk =>
      rw [hx] at h0
      exact guardI_congr (by rw [h0, hx]; rfl)
    | none =>
      rw [hx] at h0
      have h1 : leadTok (VSK sty true cs []) ≠ some ['('] := by
        rw [h0]
        simp only [Option.orElse_none]
        split
        · simp [leadTok]
        · rw [show S .statement = Piece.sep .statement from rfl, leadTok_sep]
          exact leadTok_VSK_false sty xs [] (by simp [leadTok])
      rw [guardI_of_lead h1, guardI_of_lead (by rw [hx]; simp)]
  rw [VSK_addCommentHead]
  unfold stPI
  rw [htoks, hlead]
  have hB : stmtCommentPieces sty (.block (.mk t cs none true)) =
      (if sty.includeComments then t.comment.flatMap (formatComment sty) else []) := rfl
  rw [hB]
  generalize (if sty.includeComments then t.comment.flatMap (formatComment sty) else []) = cB
  simp only [List.append_assoc]
  rw [VSK_append_K sty true cs [] K hne, List.nil_append]
  refine SRel.append (SRel.refl cB) ?_
  -- guard ++ chunk  ⊑  guard ++ (comments ++ rest)  ⊑  comments ++ guard ++ rest
  have h1 := ih K K' hK
  rw [VSK_cons] at h1 ⊢
  unfold stPI at h1 ⊢
  rw [guardI_true, List.append_nil] at h1
  generalize (if xs.isEmpty = true then K' else S .statement :: VSK sty false xs K') = Kx at h1 ⊢
  refine SRel.trans (SRel.append (SRel.refl _) h1) ?_
  have hcl := commentLike_stmtCommentPieces sty x
  generalize stmtCommentPieces sty x = cps at hcl ⊢
  generalize visitStmtI sty x = tx
  unfold guardI
  split
  · split
    · exact SRel.of_eq (by simp)
    · simp only [List.append_assoc, List.cons_append, List.nil_append]
      refine ⟨?_, rdSub_swap hcl _⟩
      rw [leadTok_semi, leadTok_commentLike hcl, leadTok_semi]
  · exact SRel.of_eq (by simp)

/-- the content of a block from its statement loop and its return list -/
theorem content_of (sty : Style) (t : Token) (ss : List Stmt) (rs : Option (List Expr)) (c : Bool)
    (hst : ∀ K K', SRel K K' → SRel (VSK sty true ss K) (VSK sty true (fcStmts ss) K'))
    (hargs : ∀ es, rs = some es → ERel (visitArgsI sty es) (visitArgsI sty (fcArgs es))) :
    ∀ K K', SRel K K' → SRel (contentI sty (.mk t ss rs c) K) (contentI sty (fcBlock (.mk t ss rs c)) K') := by
  intro K K' hK
  cases rs with
  | none =>
    cases ss with
    | nil => simp only [fcBlock, fcStmts, contentI]; exact SRel.refl _
    | cons s r =>
      have ih := hst K K' hK
      simp only [fcBlock]
      cases hM : fcStmts (s :: r) with
      | nil => exact absurd hM (fcStmts_ne_nil (by simp))
      | cons x xs =>
        rw [hM] at ih
        simpa only [contentI] using ih
  | some es =>
    have ihe := hargs es rfl
    simp only [fcBlock, contentI, isEmpty_fcArgs]
    have hX : SRel (([P "return"] ++ (if es.isEmpty then [] else [S .space]) ++ visitArgsI sty es) ++ K)
        (([P "return"] ++ (if es.isEmpty then [] else [S .space]) ++ visitArgsI sty (fcArgs es)) ++ K') := by srel
    cases ss with
    | nil =>
      simp only [fcStmts, visitStmtsI, List.nil_append]
      exact hX
    | cons s r =>
      rw [List.append_assoc, List.append_assoc (visitStmtsI sty true (fcStmts (s :: r))),
        visitStmtsI_eq_VSK sty true (s :: r) _ (by simp),
        visitStmtsI_eq_VSK sty true (fcStmts (s :: r)) _ (fcStmts_ne_nil (by simp))]
      exact hst _ _ (SRel.cons _ hX)

/-! ## The traversal -/

mutual
theorem rl_expr (sty : Style) (keep : Bool) (hs : sty.keepSemicolon = true → keep = true) : (e : Expr) →
    pExpr (fcExpr e) = true → okExpr keep false e = true → ERel (visitExprI sty e) (visitExprI sty (fcExpr e))
  | .nil _, _, _ | .bool _ _, _, _ | .vararg _, _, _ | .number _ _, _, _ | .string _ _, _, _ | .name _ _, _, _ => by
    simp only [fcExpr]; exact ERel.refl _
  | .func _ ps body, hp, hk => by
    simp only [fcExpr, pExpr, Bool.and_eq_true, pBlock_fcBody] at hp
    simp only [okExpr] at hk
    have ih := rl_content sty keep hs body hp.2 hk
    simp only [fcExpr, visitExprI]
    refine ERel.append (ERel.refl _) (erel_drop1 ?_)
    intro K K' hK
    rw [contentI_fcBody]
    exact ih K K' hK
  | .table _ fs, hp, hk => by
    simp only [fcExpr, pExpr] at hp
    simp only [okExpr] at hk
    have ih := rl_fields sty keep hs fs hp hk
    simp only [fcExpr, visitExprI]
    erel
  | .binop _ o l r, hp, hk => by
    simp only [fcExpr, pExpr, Bool.and_eq_true] at hp
    simp only [okExpr, Bool.and_eq_true] at hk
    have ih1 := rl_expr sty keep hs l hp.1 hk.1
    have ih2 := rl_expr sty keep hs r hp.2 hk.2
    simp only [fcExpr, visitExprI, kind_fcExpr]
    erel
  | .unop _ u e, hp, hk => by
    simp only [fcExpr, pExpr] at hp
    simp only [okExpr] at hk
    have ih := rl_expr sty keep hs e hp hk
    simp only [fcExpr, visitExprI, kind_fcExpr]
    erel
  | .index _ l k, hp, hk => by
    simp only [fcExpr, pExpr, Bool.and_eq_true] at hp
    simp only [okExpr, Bool.and_eq_true] at hk
    have ih1 := rl_expr sty keep hs l hp.1 hk.1
    have ih2 := rl_expr sty keep hs k hp.2 hk.2
    simp only [fcExpr, visitExprI, fmtVar_fcExpr]
    erel
  | .namedIndex _ l nm, hp, hk => by
    simp only [fcExpr, pExpr, Bool.and_eq_true] at hp
    simp only [okExpr] at hk
    have ih1 := rl_expr sty keep hs l hp.1 hk
    simp only [fcExpr, visitExprI, fmtVar_fcExpr]
    erel
  | .call _ f args, hp, hk => by
    simp only [fcExpr, pExpr, Bool.and_eq_true] at hp
    simp only [okExpr, Bool.and_eq_true] at hk
    have ih1 := rl_expr sty keep hs f hp.1 hk.1
    have ih2 := rl_args sty keep hs args hp.2 hk.2
    simp only [fcExpr, visitExprI, fmtVar_fcExpr, fmtFunctionArgs_fcArgs]
    erel
  | .method _ f m args, hp, hk => by
    simp only [fcExpr, pExpr, Bool.and_eq_true] at hp
    simp only [okExpr, Bool.and_eq_true] at hk
    have ih1 := rl_expr sty keep hs f hp.1.1 hk.1
    have ih2 := rl_args sty keep hs args hp.2 hk.2
    simp only [fcExpr, visitExprI, fmtVar_fcExpr, fmtFunctionArgs_fcArgs]
    erel
termination_by structural e => e

theorem rl_args (sty : Style) (keep : Bool) (hs : sty.keepSemicolon = true → keep = true) : (es : List Expr) →
    pArgs (fcArgs es) = true → okArgs keep false es = true → ERel (visitArgsI sty es) (visitArgsI sty (fcArgs es))
  | [], _, _ => by simp only [fcArgs]; exact ERel.refl _
  | [e], hp, hk => by
    simp only [fcArgs, pArgs, Bool.and_eq_true] at hp
    simp only [okArgs, Bool.and_eq_true] at hk
    simp only [fcArgs, visitArgsI]
    exact rl_expr sty keep hs e hp.1 hk.1
  | e :: e2 :: rest, hp, hk => by
    rw [fcArgs, pArgs, Bool.and_eq_true] at hp
    rw [okArgs, Bool.and_eq_true] at hk
    have ih1 := rl_expr sty keep hs e hp.1 hk.1
    have ih2 := rl_args sty keep hs (e2 :: rest) hp.2 hk.2
    rw [fcArgs] at ih2
    rw [fcArgs, fcArgs, visitArgsI, visitArgsI]
    exact ERel.append ih1 (ERel.cons _ ih2)
termination_by structural es => es

theorem rl_targets (sty : Style) (keep : Bool) (hs : sty.keepSemicolon = true → keep = true) : (es : List Expr) →
    pArgs (fcArgs es) = true → okArgs keep false es = true → ERel (visitTargetsI sty es) (visitTargetsI sty (fcArgs es))
  | [], _, _ => by simp only [fcArgs]; exact ERel.refl _
  | [e], hp, hk => by
    simp only [fcArgs, pArgs, Bool.and_eq_true] at hp
    simp only [okArgs, Bool.and_eq_true] at hk
    simp only [fcArgs, visitTargetsI, fmtVar_fcExpr]
    exact ERel.fmtVar _ (rl_expr sty keep hs e hp.1 hk.1)
  | e :: e2 :: rest, hp, hk => by
    rw [fcArgs, pArgs, Bool.and_eq_true] at hp
    rw [okArgs, Bool.and_eq_true] at hk
    have ih1 := rl_expr sty keep hs e hp.1 hk.1
    have ih2 := rl_targets sty keep hs (e2 :: rest) hp.2 hk.2
    rw [fcArgs] at ih2
    rw [fcArgs, fcArgs, visitTargetsI, visitTargetsI, fmtVar_fcExpr]
    exact ERel.append (ERel.fmtVar _ ih1) (ERel.cons _ ih2)
termination_by structural es => es

theorem rl_fields (sty : Style) (keep : Bool) (hs : sty.keepSemicolon = true → keep = true) : (fs : List Field) →
    pFields (fcFields fs) = true → okFields keep false fs = true → ERel (visitFieldsI sty fs) (visitFieldsI sty (fcFields fs))
  | [], _, _ => by simp only [fcFields]; exact ERel.refl _
  | [f], hp, hk => by
    simp only [fcFields, pFields, Bool.and_eq_true] at hp
    simp only [okFields, Bool.and_eq_true] at hk
    simp only [fcFields, visitFieldsI]
    exact rl_field sty keep hs f hp.1 hk.1
  | f :: f2 :: rest, hp, hk => by
    rw [fcFields, pFields, Bool.and_eq_true] at hp
    rw [okFields, Bool.and_eq_true] at hk
    have ih1 := rl_field sty keep hs f hp.1 hk.1
    have ih2 := rl_fields sty keep hs (f2 :: rest) hp.2 hk.2
    rw [fcFields] at ih2
    rw [fcFields, fcFields, visitFieldsI, visitFieldsI]
    exact ERel.append ih1 (ERel.cons _ ih2)
termination_by structural fs => fs

theorem rl_field (sty : Style) (keep : Bool) (hs : sty.keepSemicolon = true → keep = true) : (f : Field) →
    pField (fcField f) = true → okField keep false f = true → ERel (visitFieldI sty f) (visitFieldI sty (fcField f))
  | .explicit _ k v, hp, hk => by
    simp only [fcField, pField, Bool.and_eq_true] at hp
    simp only [okField, Bool.and_eq_true] at hk
    have ih1 := rl_expr sty keep hs k hp.1 hk.1
    have ih2 := rl_expr sty keep hs v hp.2 hk.2
    simp only [fcField, visitFieldI]
    erel
  | .named _ n v, hp, hk => by
    simp only [fcField, pField, Bool.and_eq_true] at hp
    simp only [okField] at hk
    have ih2 := rl_expr sty keep hs v hp.2 hk
    simp only [fcField, visitFieldI]
    erel
  | .numbered _ v, hp, hk => by
    simp only [fcField, pField] at hp
    simp only [okField] at hk
    simp only [fcField, visitFieldI]
    exact rl_expr sty keep hs v hp hk
termination_by structural f => f

theorem rl_content (sty : Style) (keep : Bool) (hs : sty.keepSemicolon = true → keep = true) : (b : Block) →
    pBlock (fcBlock b) = true → okBlock keep false b = true →
    ∀ K K', SRel K K' → SRel (contentI sty b K) (contentI sty (fcBlock b) K')
  | .mk t ss none c, hp, hk => by
    simp only [fcBlock, pBlock, Bool.and_true] at hp
    simp only [okBlock] at hk
    exact content_of sty t ss none c (rl_stmts sty keep hs true ss hp hk) (fun es h => by cases h)
  | .mk t ss (some es) c, hp, hk => by
    simp only [fcBlock, pBlock, Bool.and_eq_true] at hp
    simp only [okBlock, Bool.and_eq_true] at hk
    exact content_of sty t ss (some es) c (rl_stmts sty keep hs true ss hp.1 hk.1)
      (fun es' h => by cases h; exact rl_args sty keep hs es hp.2 hk.2)
termination_by structural b => b

theorem rl_stmts (sty : Style) (keep : Bool) (hs : sty.keepSemicolon = true → keep = true) : (first : Bool) →
    (ss : List Stmt) → pStmts (fcStmts ss) = true → okStmts keep false first ss = true →
    ∀ K K', SRel K K' → SRel (VSK sty first ss K) (VSK sty first (fcStmts ss) K')
  | _, [], _, _, K, K', hK => by simp only [fcStmts, VSK]; exact hK
  | first, s :: rest, hp, hk, K, K', hK => by
    rw [fcStmts, pStmts_append, Bool.and_eq_true] at hp
    simp only [okStmts, Bool.and_eq_true] at hk
    rw [fcStmts, VSK_cons, VSK_append sty first _ _ _ (fcS_ne_nil s)]
    apply rl_S sty keep hs first s hp.1 hk.1
    cases rest with
    | nil => simp only [fcStmts, List.isEmpty_nil, if_true]; exact hK
    | cons s2 r =>
      have hne : (fcStmts (s2 :: r)).isEmpty = false := by
        cases h : fcStmts (s2 :: r) with
        | nil => exact absurd h (fcStmts_ne_nil (by simp))
        | cons _ _ => rfl
      rw [hne]
      simp only [List.isEmpty_cons, Bool.false_eq_true, if_false]
      exact SRel.cons _ (rl_stmts sty keep hs false (s2 :: r) hp.2 hk.2 K K' hK)
termination_by structural _ ss => ss

theorem rl_S (sty : Style) (keep : Bool) (hs : sty.keepSemicolon = true → keep = true) : (first : Bool) → (s : Stmt) →
    pStmts (fcS s) = true → piOkS keep false first s = true →
    ∀ K K', SRel K K' → SRel (stPI sty first s ++ K) (VSK sty first (fcS s) K')
  | first, .assign _ ts es, hp, hk, K, K', hK => by
    simp only [fcS, pStmts, pStmt, Bool.and_true, Bool.and_eq_true] at hp
    simp only [piOkS, Bool.and_eq_true] at hk
    have ih1 := rl_targets sty keep hs ts hp.1.1.2 hk.1
    have ih2 := rl_args sty keep hs es hp.2 hk.2
    rw [fcS]
    refine stP_single (by rfl) ?_ hK
    simp only [visitStmtI]
    srel
  | first, .block b, hp, hk, K, K', hK => by
    simp only [fcS] at hp
    simp only [piOkS] at hk
    rw [fcS]
    exact rl_SB sty keep hs first b hp hk K K' hK
  | first, .brk _, _, _, K, K', hK => by rw [fcS]; exact stP_single (by rfl) (SRel.refl _) hK
  | first, .semi _, _, _, K, K', hK => by rw [fcS]; exact stP_single (by rfl) (SRel.refl _) hK
  | first, .goto _ l, _, _, K, K', hK => by rw [fcS]; exact stP_single (by rfl) (SRel.refl _) hK
  | first, .label _ l, _, _, K, K', hK => by rw [fcS]; exact stP_single (by rfl) (SRel.refl _) hK
  | first, .localAssign _ names none, _, _, K, K', hK => by rw [fcS]; exact stP_single (by rfl) (SRel.refl _) hK
  | first, .localAssign _ names (some []), _, _, K, K', hK => by
    rw [fcS]; exact stP_single (by rfl) (SRel.refl _) hK
  | first, .localAssign _ names (some (e :: rest)), hp, hk, K, K', hK => by
    simp only [fcS, fcArgs, pStmts, pStmt, Bool.and_true, Bool.and_eq_true] at hp
    simp only [piOkS] at hk
    have ih := rl_args sty keep hs (e :: rest) (by simpa only [fcArgs] using hp.2) hk
    rw [fcArgs] at ih
    rw [fcS]
    refine stP_single (by rfl) ?_ hK
    simp only [fcArgs, visitStmtI]
    srel
  | first, .call _ f args, hp, hk, K, K', hK => by
    simp only [fcS, pStmts, pStmt, Bool.and_true, Bool.and_eq_true] at hp
    simp only [piOkS, Bool.and_eq_true] at hk
    have ih1 := rl_expr sty keep hs f hp.1 hk.1
    have ih2 := rl_args sty keep hs args hp.2 hk.2
    rw [fcS]
    refine stP_single (by rfl) ?_ hK
    simp only [visitStmtI, fmtVar_fcExpr, fmtFunctionArgs_fcArgs]
    srel
  | first, .method _ f m args, hp, hk, K, K', hK => by
    simp only [fcS, pStmts, pStmt, Bool.and_true, Bool.and_eq_true] at hp
    simp only [piOkS, Bool.and_eq_true] at hk
    have ih1 := rl_expr sty keep hs f hp.1.1 hk.1
    have ih2 := rl_args sty keep hs args hp.2 hk.2
    rw [fcS]
    refine stP_single (by rfl) ?_ hK
    simp only [visitStmtI, fmtVar_fcExpr, fmtFunctionArgs_fcArgs]
    srel
  | first, .funcDef _ names none ps body, hp, hk, K, K', hK => by
    simp only [fcS, pStmts, pStmt, Bool.and_true, Bool.and_eq_true, pBlock_fcBody] at hp
    simp only [piOkS] at hk
    have ih := rl_content sty keep hs body hp.2 hk
    have hd : ERel ((visitBlockFullI sty body).drop 1) ((visitBlockFullI sty (fcBody body)).drop 1) :=
      erel_drop1 (fun K K' hK => by rw [contentI_fcBody]; exact ih K K' hK)
    rw [fcS]
    refine stP_single (by rfl) ?_ hK
    simp only [visitStmtI]
    srel
  | first, .funcDef _ names (some mn) ps body, hp, hk, K, K', hK => by
    simp only [fcS, pStmts, pStmt, Bool.and_true, Bool.and_eq_true, pBlock_fcBody] at hp
    simp only [piOkS] at hk
    have ih := rl_content sty keep hs body hp.2 hk
    have hd : ERel ((visitBlockFullI sty body).drop 1) ((visitBlockFullI sty (fcBody body)).drop 1) :=
      erel_drop1 (fun K K' hK => by rw [contentI_fcBody]; exact ih K K' hK)
    rw [fcS]
    refine stP_single (by rfl) ?_ hK
    simp only [visitStmtI]
    srel
  | first, .localFunc _ n ps body, hp, hk, K, K', hK => by
    simp only [fcS, pStmts, pStmt, Bool.and_true, Bool.and_eq_true, pBlock_fcBody] at hp
    simp only [piOkS] at hk
    have ih := rl_content sty keep hs body hp.2 hk
    have hd : ERel ((visitBlockFullI sty body).drop 1) ((visitBlockFullI sty (fcBody body)).drop 1) :=
      erel_drop1 (fun K K' hK => by rw [contentI_fcBody]; exact ih K K' hK)
    rw [fcS]
    refine stP_single (by rfl) ?_ hK
    simp only [visitStmtI]
    srel
  | first, .iff _ test tr fl, hp, hk, K, K', hK => by
    simp only [fcS, pStmts, pStmt, Bool.and_true, Bool.and_eq_true, Bool.not_eq_true', isChunk_fcBlock] at hp
    simp only [piOkS, Bool.and_eq_true] at hk
    have ih1 := rl_expr sty keep hs test hp.1.1.1 hk.1.1
    have ih2 := srel_slice21 hp.1.1.2 (isChunk_fcBlock tr) (rl_content sty keep hs tr hp.1.2 hk.1.2)
    have ih3 := rl_false sty keep hs fl hp.2 hk.2
    rw [fcS]
    refine stP_single (by rfl) ?_ hK
    simp only [visitStmtI]
    srel
  | first, .iterFor _ ns es body, hp, hk, K, K', hK => by
    simp only [fcS, pStmts, pStmt, Bool.and_true, Bool.and_eq_true, isChunk_fcBlock] at hp
    simp only [piOkS, Bool.and_eq_true] at hk
    have ih1 := rl_args sty keep hs es hp.1.1.2 hk.1
    have ih2 := srel_blk (isChunk_fcBlock body) (rl_content sty keep hs body hp.2 hk.2)
    rw [fcS]
    refine stP_single (by rfl) ?_ hK
    simp only [visitStmtI]
    srel
  | first, .numFor _ v a b none body, hp, hk, K, K', hK => by
    simp only [fcS, pStmts, pStmt, Bool.and_true, Bool.and_eq_true, isChunk_fcBlock] at hp
    simp only [piOkS, Bool.and_eq_true] at hk
    have ih1 := rl_expr sty keep hs a hp.1.1.1.2 hk.1.1
    have ih2 := rl_expr sty keep hs b hp.1.1.2 hk.1.2
    have ih3 := srel_blk (isChunk_fcBlock body) (rl_content sty keep hs body hp.2 hk.2)
    rw [fcS]
    refine stP_single (by rfl) ?_ hK
    simp only [visitStmtI]
    srel
  | first, .numFor _ v a b (some st) body, hp, hk, K, K', hK => by
    simp only [fcS, pStmts, pStmt, Bool.and_true, Bool.and_eq_true, isChunk_fcBlock] at hp
    simp only [piOkS, Bool.and_eq_true] at hk
    have ih1 := rl_expr sty keep hs a hp.1.1.1.1.2 hk.1.1.1
    have ih2 := rl_expr sty keep hs b hp.1.1.1.2 hk.1.1.2
    have ih4 := rl_expr sty keep hs st hp.1.1.2 hk.1.2
    have ih3 := srel_blk (isChunk_fcBlock body) (rl_content sty keep hs body hp.2 hk.2)
    rw [fcS]
    refine stP_single (by rfl) ?_ hK
    simp only [visitStmtI]
    srel
  | first, .repeat _ c body, hp, hk, K, K', hK => by
    simp only [fcS, pStmts, pStmt, Bool.and_true, Bool.and_eq_true, Bool.not_eq_true', isChunk_fcBlock] at hp
    simp only [piOkS, Bool.and_eq_true] at hk
    have ih1 := rl_expr sty keep hs c hp.2 hk.1
    have ih2 := srel_slice21 hp.1.1 (isChunk_fcBlock body) (rl_content sty keep hs body hp.1.2 hk.2)
    rw [fcS]
    refine stP_single (by rfl) ?_ hK
    simp only [visitStmtI]
    srel
  | first, .whl _ c body, hp, hk, K, K', hK => by
    simp only [fcS, pStmts, pStmt, Bool.and_true, Bool.and_eq_true, isChunk_fcBlock] at hp
    simp only [piOkS, Bool.and_eq_true] at hk
    have ih1 := rl_expr sty keep hs c hp.1.1 hk.1
    have ih2 := srel_blk (isChunk_fcBlock body) (rl_content sty keep hs body hp.2 hk.2)
    rw [fcS]
    refine stP_single (by rfl) ?_ hK
    simp only [visitStmtI]
    srel
termination_by structural _ s => s

theorem rl_SB (sty : Style) (keep : Bool) (hs : sty.keepSemicolon = true → keep = true) : (first : Bool) → (b : Block) →
    pStmts (fcSB b) = true → okSB keep false first b = true →
    ∀ K K', SRel K K' → SRel (stPI sty first (.block b) ++ K) (VSK sty first (fcSB b) K')
  | first, .mk t stmts (some es) c, hp, hk, K, K', hK => by
    simp only [fcSB, pStmts, pStmt, Bool.and_true, Bool.and_eq_true] at hp
    simp only [okSB] at hk
    simp only [pBlock, Bool.and_eq_true] at hp
    simp only [Bool.and_eq_true] at hk
    have ih := content_of sty t stmts (some es) c (rl_stmts sty keep hs true stmts hp.2.1 hk.1)
      (fun es' h => by cases h; exact rl_args sty keep hs es hp.2.2 hk.2)
    rw [fcSB]
    refine stP_single (by rfl) ?_ hK
    simp only [visitStmtI]
    have := srel_blk (sty := sty) (b := .mk t stmts (some es) c) (b' := fcBlock (.mk t stmts (some es) c))
      (isChunk_fcBlock _) ih
    simpa only [fcBlock] using this
  | first, .mk t stmts none false, hp, hk, K, K', hK => by
    simp only [fcSB, pStmts, pStmt, Bool.and_true, Bool.and_eq_true] at hp
    simp only [okSB] at hk
    simp only [pBlock, Bool.and_true] at hp
    have ih := content_of sty t stmts none false (rl_stmts sty keep hs true stmts hp.2 hk) (fun es h => by cases h)
    rw [fcSB]
    refine stP_single (by rfl) ?_ hK
    simp only [visitStmtI]
    have := srel_blk (sty := sty) (b := .mk t stmts none false) (b' := fcBlock (.mk t stmts none false))
      (isChunk_fcBlock _) ih
    simpa only [fcBlock] using this
  | first, .mk t [] none true, _, hk, K, K', hK => by
    simp only [okSB, List.isEmpty_nil, if_true, Bool.not_eq_true'] at hk
    have hks : sty.keepSemicolon = false := by
      cases h : sty.keepSemicolon with
      | false => rfl
      | true => rw [hs h] at hk; cases hk
    simp only [fcSB, List.isEmpty_nil, if_true]
    refine stP_single (by rfl) ?_ hK
    rw [visitStmtI, blkI_chunk sty _ rfl]
    simp only [contentI, visitStmtI, hks]
    exact SRel.refl _
  | first, .mk t (s :: rest) none true, hp, hk, K, K', hK => by
    simp only [fcSB, List.isEmpty_cons, Bool.false_eq_true, if_false, pStmts_addCommentHead] at hp
    simp only [okSB, List.isEmpty_cons, Bool.false_eq_true, if_false, Bool.and_eq_true] at hk
    simp only [fcSB, List.isEmpty_cons, Bool.false_eq_true, if_false]
    have ih := rl_stmts sty keep hs true (s :: rest) hp hk.1
    cases hM : fcStmts (s :: rest) with
    | nil => exact absurd hM (fcStmts_ne_nil (by simp))
    | cons x xs =>
      rw [hM] at ih
      exact splice_stepI sty first t (s :: rest) x xs (by simp) ih hK
termination_by structural _ b => b

theorem rl_false (sty : Style) (keep : Bool) (hs : sty.keepSemicolon = true → keep = true) : (fl : IfFalse) →
    pFalse (fcFalse fl) = true → okFalse keep false fl = true → SRel (visitFalseI sty fl) (visitFalseI sty (fcFalse fl))
  | .none, _, _ => by simp only [fcFalse]; exact SRel.refl _
  | .block b, hp, hk => by
    simp only [fcFalse, pFalse, Bool.and_eq_true, Bool.not_eq_true', isChunk_fcBlock] at hp
    simp only [okFalse] at hk
    have ih := srel_slice21 hp.1 (isChunk_fcBlock b) (rl_content sty keep hs b hp.2 hk)
    simp only [fcFalse, visitFalseI]
    srel
  | .elif _ test tr fl, hp, hk => by
    simp only [fcFalse, pFalse, Bool.and_eq_true, Bool.not_eq_true', isChunk_fcBlock] at hp
    simp only [okFalse, Bool.and_eq_true] at hk
    have ih1 := rl_expr sty keep hs test hp.1.1.1 hk.1.1
    have ih2 := srel_slice21 hp.1.1.2 (isChunk_fcBlock tr) (rl_content sty keep hs tr hp.1.2 hk.1.2)
    have ih3 := rl_false sty keep hs fl hp.2 hk.2
    simp only [fcFalse, visitFalseI]
    srel
termination_by structural fl => fl

end

/-- every reading of the pieces printed for the inlined tree is a reading of the pieces printed for its flattening -/
theorem emitI_flatten_rd (sty : Style) (keep : Bool) (hs : sty.keepSemicolon = true → keep = true) (b : Block)
    (hp : pBlock (fcBlock b) = true) (hk : okBlock keep false b = true) :
    RdSub (emitI sty b) (emitI sty (flattenChunks b)) := by
  unfold emitI flattenChunks
  exact (srel_blk (isChunk_fcBlock b) (rl_content sty keep hs b hp hk)).rd

end Tumfl.Theory
