import Tumfl.Theory.LexBridgeDefs
/-!
# LexBridge, strings, part B: inversion of the reference string reader

`Tumfl/Theory/StrRead.lean` proves the forward direction (a well-formed item list is read by `Spec.strBody` to
`unitsAll items`).  Here is the converse: whatever `Spec.strBody` accepts with in-scope units is the spelling of a
well-formed, in-scope item list followed by the closing quote.
-/
namespace Tumfl.Theory
open Tumfl.Model

namespace StrB

/-! ## small helpers (in the namespace `Tumfl.Theory.StrB` to avoid clashes with sibling files) -/

theorem mem_number_iff (c : Char) : c ∈ Gen.number ↔ Spec.isDigit c = true := by
  rw [← number_contains c]; simp

theorem mem_hexNumber_iff (c : Char) : c ∈ Gen.hexNumber ↔ Spec.isXDigit c = true := by
  rw [← hexNumber_contains c]; simp

theorem mem_whitespace_iff (c : Char) : c ∈ Gen.whitespace ↔ Spec.isSpace c = true := by
  rw [Inst.isSpace_eq c]; simp

theorem lookup_mem_char {β : Type} (k : Char) (v : β) : ∀ (l : List (Char × β)), l.lookup k = some v → (k, v) ∈ l
  | [], h => by simp at h
  | (a, b) :: l, h => by
    by_cases hk : k = a
    · subst hk
      simp only [List.lookup_cons_self, Option.some.injEq] at h
      subst h
      simp
    · have : (k == a) = false := by simpa using hk
      rw [List.lookup_cons, this] at h
      exact List.mem_cons_of_mem _ (lookup_mem_char k v l h)

/-- an `Option.map` that conses one unit onto the first component -/
theorem map_cons_some {x : Spec.SUnit} {g : List Spec.SUnit × List Char → List Spec.SUnit × List Char}
    (hg : ∀ a b, g (a, b) = (x :: a, b)) {o : Option (List Spec.SUnit × List Char)} {u : List Spec.SUnit}
    {r' : List Char} (h : o.map g = some (u, r')) : ∃ u', o = some (u', r') ∧ u = x :: u' := by
  cases o with
  | none => cases h
  | some p =>
    obtain ⟨a, b⟩ := p
    simp only [Option.map_some, Option.some.injEq, hg, Prod.mk.injEq] at h
    obtain ⟨h1, h2⟩ := h
    subst h1 h2
    exact ⟨a, rfl, rfl⟩

theorem byteUnit_inScope {v : Nat} (h : InScopeUnit (Spec.byteUnit v)) : v < 128 := by
  unfold Spec.byteUnit at h
  by_cases hv : v < 128
  · exact hv
  · simp only [hv, if_false] at h
    exact h.elim

/-! ## inversions of the sub-readers -/

theorem skipSpaces_inv : ∀ (r : List Char), ∃ ws, r = ws ++ Spec.skipSpaces r ∧ (∀ w ∈ ws, w ∈ Gen.whitespace) ∧
    (∀ c t, Spec.skipSpaces r = c :: t → c ∉ Gen.whitespace)
  | [] => ⟨[], by simp [Spec.skipSpaces]⟩
  | c :: cs => by
    cases hc : Spec.isSpace c with
    | true =>
      obtain ⟨ws, h1, h2, h3⟩ := skipSpaces_inv cs
      refine ⟨c :: ws, ?_, ?_, ?_⟩
      · simp only [Spec.skipSpaces, hc, if_true, List.cons_append]
        rw [← h1]
      · intro w hw
        rcases List.mem_cons.mp hw with rfl | hw
        · exact (mem_whitespace_iff _).mpr hc
        · exact h2 w hw
      · simpa only [Spec.skipSpaces, hc, if_true] using h3
    | false =>
      refine ⟨[], ?_, by simp, ?_⟩
      · simp [Spec.skipSpaces, hc]
      · intro c0 t h
        simp only [Spec.skipSpaces, hc, Bool.false_eq_true, if_false, List.cons.injEq] at h
        obtain ⟨rfl, _⟩ := h
        rw [mem_whitespace_iff, hc]
        simp

theorem readUHex_inv : ∀ (r : List Char) (acc : Nat) (seen : Bool) (v : Nat) (r' : List Char),
    Spec.readUHex r acc seen = some (v, r') → acc < 2 ^ 31 →
    ∃ ds, r = ds ++ '}' :: r' ∧ (∀ d ∈ ds, d ∈ Gen.hexNumber) ∧ (seen = true ∨ ds ≠ []) ∧
      v = ds.foldl (fun a c => a * 16 + hexVal c) acc ∧ v < 2 ^ 31
  | [], acc, seen, v, r', h, _ => by simp [Spec.readUHex] at h
  | c :: cs, acc, seen, v, r', h, hacc => by
    by_cases hc : c = '}'
    · subst hc
      simp only [Spec.readUHex] at h
      cases seen with
      | false => simp at h
      | true =>
        simp only [if_true, Option.some.injEq, Prod.mk.injEq] at h
        obtain ⟨rfl, rfl⟩ := h
        exact ⟨[], by simp, by simp, Or.inl rfl, by simp, hacc⟩
    · rw [Spec.readUHex] at h
      · cases hx : Spec.isXDigit c with
        | false => simp [hx] at h
        | true =>
          simp only [hx, if_true] at h
          by_cases hv : acc * 16 + Spec.xdigitVal c < 2 ^ 31
          · simp only [hv, if_true] at h
            obtain ⟨ds, h1, h2, _, h4, h5⟩ := readUHex_inv cs _ true v r' h hv
            have hm := (mem_hexNumber_iff c).mpr hx
            obtain ⟨_, e, _, _⟩ := Inst.hexNumber_facts c hm
            refine ⟨c :: ds, by simp [h1], ?_, Or.inr (by simp), ?_, h5⟩
            · intro d hd
              rcases List.mem_cons.mp hd with rfl | hd
              · exact hm
              · exact h2 d hd
            · rw [List.foldl_cons, ← e]; exact h4
          · simp [hv] at h
      · intro h'; exact hc h'

theorem readDec3_inv (d : Char) (r : List Char) (hd : Spec.isDigit d = true) :
    ∃ ds, d :: r = ds ++ (Spec.readDec3 (d :: r)).2 ∧ 1 ≤ ds.length ∧ ds.length ≤ 3 ∧ (∀ x ∈ ds, x ∈ Gen.number) ∧
      (Spec.readDec3 (d :: r)).1 = intOfDec ds ∧
      (ds.length < 3 → ∀ c0 t, (Spec.readDec3 (d :: r)).2 = c0 :: t → c0 ∉ Gen.number) := by
  have h0 : ('0' : Char).toNat = 48 := by decide
  have nd : ∀ c, Spec.isDigit c = false → c ∉ Gen.number := fun c h => by rw [mem_number_iff, h]; simp
  have md : ∀ c, Spec.isDigit c = true → c ∈ Gen.number := fun c h => (mem_number_iff c).mpr h
  match r with
  | [] => exact ⟨[d], by simp [Spec.readDec3, intOfDec, Spec.digitVal, h0, md d hd]⟩
  | [b] =>
    cases hb : Spec.isDigit b with
    | true => exact ⟨[d, b], by simp [Spec.readDec3, intOfDec, Spec.digitVal, h0, md d hd, md b hb, hd, hb]⟩
    | false => exact ⟨[d], by simp [Spec.readDec3, intOfDec, Spec.digitVal, h0, md d hd, nd b hb, hd, hb]⟩
  | b :: c :: r =>
    cases hb : Spec.isDigit b with
    | true =>
      cases hc : Spec.isDigit c with
      | true =>
        refine ⟨[d, b, c], ?_⟩
        simp [Spec.readDec3, intOfDec, Spec.digitVal, h0, md d hd, md b hb, md c hc, hd, hb, hc]
        omega
      | false => exact ⟨[d, b], by simp [Spec.readDec3, intOfDec, Spec.digitVal, h0, md d hd, md b hb, nd c hc, hd, hb, hc]⟩
    | false => exact ⟨[d], by simp [Spec.readDec3, intOfDec, Spec.digitVal, h0, md d hd, nd b hb, hd, hb]⟩

theorem escChar_inv (d : Char) (v : Nat) (h : Spec.escChar d = some v) :
    ∃ w, (d, w) ∈ Gen.escapeCodes ∧ v = w.toNat := by
  have hm : d ∈ ['a', 'b', 'f', 'n', 'r', 't', 'v', '\\', '"', '\'', '\n'] := by
    unfold Spec.escChar at h
    split at h <;> simp_all
  obtain ⟨w, h1, h2⟩ := Inst.escChar_in_table d hm
  rw [h] at h2
  exact ⟨w, lookup_mem_char d w _ h1, by simpa using h2⟩

/-! ## one-step equations of `Spec.strBody` not in `StrRead.lean` (the rejecting arms) -/

theorem strBody_zero (q : Char) (cs : List Char) : Spec.strBody q 0 cs = none := by
  rw [Spec.strBody]

theorem strBody_nil (q : Char) (g : Nat) : Spec.strBody q g [] = none := by
  cases g <;> rw [Spec.strBody]

theorem strBody_newline (q : Char) (f : Nat) (c : Char) (cs : List Char) (h1 : c ≠ q) (h2 : c = '\n' ∨ c = '\r') :
    Spec.strBody q (f + 1) (c :: cs) = none := by
  rcases h2 with rfl | rfl <;> simp [Spec.strBody, h1]

theorem strBody_bs_nil (q : Char) (f : Nat) (hq : q ≠ '\\') : Spec.strBody q (f + 1) ['\\'] = none := by
  have : ('\\' == q) = false := by simpa using fun h => hq h.symm
  simp [Spec.strBody, this]

theorem strBody_x (q : Char) (f : Nat) (a b : Char) (r : List Char) (hq : q ≠ '\\') :
    Spec.strBody q (f + 1) ('\\' :: 'x' :: a :: b :: r) =
      if Spec.isXDigit a && Spec.isXDigit b then
        (Spec.strBody q f r).map fun x => (Spec.byteUnit (Spec.xdigitVal a * 16 + Spec.xdigitVal b) :: x.1, x.2)
      else none := by
  have : ('\\' == q) = false := by simpa using fun h => hq h.symm
  simp only [Spec.strBody, this, Bool.false_eq_true, if_false]
  rfl

theorem strBody_x_short (q : Char) (f : Nat) (r : List Char) (hq : q ≠ '\\') (hr : r.length < 2) :
    Spec.strBody q (f + 1) ('\\' :: 'x' :: r) = none := by
  have : ('\\' == q) = false := by simpa using fun h => hq h.symm
  match r, hr with
  | [], _ => simp [Spec.strBody, this]
  | [a], _ => simp [Spec.strBody, this]

theorem strBody_u_bad (q : Char) (f : Nat) (r : List Char) (hq : q ≠ '\\') (hr : ∀ t, r ≠ '{' :: t) :
    Spec.strBody q (f + 1) ('\\' :: 'u' :: r) = none := by
  have : ('\\' == q) = false := by simpa using fun h => hq h.symm
  rw [Spec.strBody.eq_def]
  simp only [this, Bool.false_eq_true, if_false]
  split <;> simp_all

/-! ## the inversion -/

theorem wf_inScope_cons (q : Char) (i : StrItem) (is : List StrItem) (hi : i.WF q (nextChar q is)) (hs : i.InScope)
    (hwf : WF q is) (hin : InScope is) : WF q (i :: is) ∧ InScope (i :: is) := by
  refine ⟨⟨hi, hwf⟩, ?_⟩
  intro j hj
  rcases List.mem_cons.mp hj with rfl | hj
  · exact hs
  · exact hin j hj

end StrB

open StrB in
/-- inversion of the reference string reader: whatever it accepts with in-scope units is a well-formed, in-scope item list followed by the closing quote -/
theorem strBody_items (q : Char) (hq : q = '"' ∨ q = '\'') :
    ∀ (g : Nat) (cs : List Char) (u : List Spec.SUnit) (r' : List Char),
      Spec.strBody q g cs = some (u, r') → (∀ x ∈ u, InScopeUnit x) →
      ∃ items, WF q items ∧ InScope items ∧ cs = spellAll items ++ q :: r' ∧ u = unitsAll items := by
  have hqb := quote_ne_backslash hq
  intro g
  induction g with
  | zero => intro cs u r' h; rw [strBody_zero] at h; cases h
  | succ f ih =>
    intro cs u r' h hu
    cases cs with
    | nil => rw [strBody_nil] at h; cases h
    | cons c cs =>
      by_cases hcq : c = q
      · subst hcq
        rw [strBody_close] at h
        simp only [Option.some.injEq, Prod.mk.injEq] at h
        obtain ⟨rfl, rfl⟩ := h
        exact ⟨[], trivial, by simp [InScope], by simp, by simp⟩
      by_cases hnl : c = '\n' ∨ c = '\r'
      · rw [strBody_newline q f c cs hcq hnl] at h; cases h
      by_cases hbs : c = '\\'
      · subst hbs
        cases cs with
        | nil => rw [strBody_bs_nil q f hqb] at h; cases h
        | cons d r =>
          by_cases hx : d = 'x'
          · subst hx
            match r with
            | [] => rw [strBody_x_short q f _ hqb (by simp)] at h; cases h
            | [_] => rw [strBody_x_short q f _ hqb (by simp)] at h; cases h
            | a :: b :: r =>
              rw [strBody_x q f a b r hqb] at h
              cases hab : (Spec.isXDigit a && Spec.isXDigit b) with
              | false => simp [hab] at h
              | true =>
                simp only [hab, if_true] at h
                obtain ⟨u', h', rfl⟩ := map_cons_some (fun _ _ => rfl) h
                obtain ⟨is, w1, w2, rfl, rfl⟩ := ih r u' r' h' (fun x hx => hu x (by simp [hx]))
                simp only [Bool.and_eq_true] at hab
                have ha := (mem_hexNumber_iff a).mpr hab.1
                have hb := (mem_hexNumber_iff b).mpr hab.2
                obtain ⟨_, ea, _, _⟩ := Inst.hexNumber_facts a ha
                obtain ⟨_, eb, _, _⟩ := Inst.hexNumber_facts b hb
                have e : Spec.xdigitVal a * 16 + Spec.xdigitVal b = intOfHex [a, b] := by
                  simp [intOfHex, ea, eb]
                rw [e] at hu
                have hv := byteUnit_inScope (hu _ List.mem_cons_self)
                obtain ⟨z1, z2⟩ := wf_inScope_cons q (.hex a b) is ⟨ha, hb⟩ hv w1 w2
                exact ⟨.hex a b :: is, z1, z2, by simp [StrItem.spell], by simp [StrItem.units, e]⟩
          by_cases hu' : d = 'u'
          · subst hu'
            have uni_case : ∀ (r : List Char), Spec.strBody q (f + 1) ('\\' :: 'u' :: '{' :: r) = some (u, r') →
                ∃ items, WF q items ∧ InScope items ∧ '\\' :: 'u' :: '{' :: r = spellAll items ++ q :: r' ∧ u = unitsAll items := by
              intro r h
              rw [strBody_uni q f r hqb] at h
              cases hr : Spec.readUHex r 0 false with
              | none => simp [hr] at h
              | some p =>
                obtain ⟨v, r1⟩ := p
                simp only [hr, Option.bind_some] at h
                obtain ⟨u', h', rfl⟩ := map_cons_some (fun _ _ => rfl) h
                obtain ⟨is, w1, w2, rfl, rfl⟩ := ih r1 u' r' h' (fun x hx => hu x (by simp [hx]))
                obtain ⟨ds, e1, e2, e3, e4, e5⟩ := readUHex_inv r 0 false v _ hr (by omega)
                have e3' : ds ≠ [] := by simpa using e3
                have e4' : v = intOfHex ds := e4
                subst e4'
                have hv : (intOfHex ds).isValidChar := hu _ List.mem_cons_self
                have hs : (StrItem.uni ds).InScope := by
                  unfold Nat.isValidChar at hv
                  show intOfHex ds ≤ 0x10FFFF ∧ ¬ (0xD800 ≤ intOfHex ds ∧ intOfHex ds ≤ 0xDFFF)
                  omega
                obtain ⟨z1, z2⟩ := wf_inScope_cons q (.uni ds) is ⟨e3', e2, e5⟩ hs w1 w2
                exact ⟨.uni ds :: is, z1, z2, by simp [StrItem.spell, e1], by simp [StrItem.units]⟩
            match r with
            | [] => rw [strBody_u_bad q f _ hqb (by simp)] at h; cases h
            | c0 :: r =>
              by_cases hc0 : c0 = '{'
              · subst hc0
                exact uni_case r h
              · rw [strBody_u_bad q f _ hqb (by
                  intro t ht
                  simp only [List.cons.injEq] at ht
                  exact hc0 ht.1)] at h
                cases h
          by_cases hz : d = 'z'
          · subst hz
            rw [strBody_z q f r hqb] at h
            obtain ⟨is, w1, w2, e, rfl⟩ := ih _ u r' h hu
            obtain ⟨ws, s1, s2, s3⟩ := skipSpaces_inv r
            obtain ⟨t, ht⟩ := head_spellAll_append q is r'
            have hn : nextChar q is ∉ Gen.whitespace := s3 _ t (e.trans ht)
            obtain ⟨z1, z2⟩ := wf_inScope_cons q (.z ws) is ⟨s2, hn⟩ trivial w1 w2
            refine ⟨.z ws :: is, z1, z2, ?_, by simp [StrItem.units]⟩
            simp only [spellAll_cons, StrItem.spell, List.cons_append, List.append_assoc]
            rw [← e, ← s1]
          have bx : (d == 'x') = false := by simpa using hx
          have bu : (d == 'u') = false := by simpa using hu'
          have bz : (d == 'z') = false := by simpa using hz
          rw [strBody_esc_other q f d r hqb bx bu bz] at h
          cases hd : Spec.isDigit d with
          | true =>
            simp only [hd, if_true] at h
            by_cases hv : (Spec.readDec3 (d :: r)).1 ≤ 255
            · simp only [hv, if_true] at h
              obtain ⟨u', h', rfl⟩ := map_cons_some (fun _ _ => rfl) h
              obtain ⟨is, w1, w2, e, rfl⟩ := ih _ u' r' h' (fun x hx => hu x (by simp [hx]))
              obtain ⟨ds, d1, d2, d3, d4, d5, d6⟩ := readDec3_inv d r hd
              obtain ⟨t, ht⟩ := head_spellAll_append q is r'
              have hlt := byteUnit_inScope (hu _ List.mem_cons_self)
              rw [d5] at hv hlt
              have hwf : (StrItem.dec ds).WF q (nextChar q is) :=
                ⟨d2, d3, d4, hv, fun hl => d6 hl _ t (e.trans ht)⟩
              obtain ⟨z1, z2⟩ := wf_inScope_cons q (.dec ds) is hwf hlt w1 w2
              refine ⟨.dec ds :: is, z1, z2, ?_, by simp [StrItem.units, d5]⟩
              rw [d1, e]
              simp [StrItem.spell]
            · simp [hv] at h
          | false =>
            simp only [hd, Bool.false_eq_true, if_false] at h
            cases he : Spec.escChar d with
            | none => simp [he] at h
            | some v =>
              simp only [he, Option.bind_some] at h
              obtain ⟨u', h', rfl⟩ := map_cons_some (fun _ _ => rfl) h
              obtain ⟨is, w1, w2, rfl, rfl⟩ := ih _ u' r' h' (fun x hx => hu x (by simp [hx]))
              obtain ⟨w, m1, rfl⟩ := escChar_inv d v he
              obtain ⟨z1, z2⟩ := wf_inScope_cons q (.simple d w) is m1 trivial w1 w2
              exact ⟨.simple d w :: is, z1, z2, by simp [StrItem.spell], by simp [StrItem.units]⟩
      · have h3 : c ≠ '\n' := fun e => hnl (Or.inl e)
        have h4 : c ≠ '\r' := fun e => hnl (Or.inr e)
        rw [strBody_plain q f c cs hcq hbs h3 h4] at h
        obtain ⟨u', h', rfl⟩ := map_cons_some (fun _ _ => rfl) h
        obtain ⟨is, w1, w2, rfl, rfl⟩ := ih _ u' r' h' (fun x hx => hu x (by simp [hx]))
        obtain ⟨z1, z2⟩ := wf_inScope_cons q (.plain c) is ⟨hcq, hbs, h3, h4⟩ trivial w1 w2
        exact ⟨.plain c :: is, z1, z2, by simp [StrItem.spell], by simp [StrItem.units]⟩

end Tumfl.Theory
