import Tumfl.Theory.FormatTextEmit
/-!
# The adjacency discipline of `emit` (stage A): the induction over the tree
-/
namespace Tumfl.Theory
open Tumfl Tumfl.Model

/-! ## small combinators -/

/-- `space lit space rest` -/
theorem tr_sls {s : String} (h : LitOK s) {c : Char} {cs : List Char} (hs : s.toList = c :: cs) (h3 : H3 c)
    (h1 : s.toList ≠ ['.']) (h2 : s.toList ≠ [':']) {r : Pieces} {R : DS → Prop} (hr : Tr Calm r R) :
    Tr Settled (S .space :: P s :: S .space :: r) R :=
  Tr.cons tr_space (Tr.cons (tr_lit_calm h hs h3) (Tr.cons (tr_space.pre fun _ hσ => hσ.settled h1 h2) hr))

/-- `lit space rest` -/
theorem tr_ls {s : String} (h : LitOK s) (h1 : s.toList ≠ ['.']) (h2 : s.toList ≠ [':']) {r : Pieces}
    {R : DS → Prop} (hr : Tr Calm r R) : Tr (Pre s.toList) (P s :: S .space :: r) R :=
  Tr.cons (tr_lit_pre h) (Tr.cons (tr_space.pre fun _ hσ => hσ.settled h1 h2) hr)

/-- `lit block rest` -/
theorem tr_lb {s : String} (h : LitOK s) (h1 : s.toList ≠ ['.']) (h2 : s.toList ≠ [':']) {r : Pieces}
    {R : DS → Prop} (hr : Tr Calm r R) : Tr (Pre s.toList) (P s :: S .block :: r) R :=
  Tr.cons (tr_lit_pre h) (Tr.cons (tr_block.pre fun _ hσ => hσ.settled h1 h2) hr)

theorem pre_calm_lit {σ : DS} (h : Calm σ) {s : String} {c : Char} {cs : List Char} (hs : s.toList = c :: cs)
    (h3 : H3 c) : Pre s.toList σ := by rw [hs]; exact pre_of_calm h cs h3

theorem pre_entryS_lit {σ : DS} (h : EntryS σ) {s : String} {c : Char} {cs : List Char} (hs : s.toList = c :: cs)
    (h3 : H3 c) : Pre s.toList σ := by rw [hs]; exact pre_of_entryS h cs h3

theorem noGlue_colon_alpha {c : Char} (cs : List Char) (hc : Spec.isAlpha c = true) : NoGlue ":".toList (c :: cs) := by
  have hne : c ≠ ':' := (alpha_h5 hc).1.2.2.2.1
  refine ⟨?_, fun d t e => ?_⟩
  · rw [sepRequired_of ":".toList (c :: cs) ':' c ':' (by decide) rfl (by decide),
      sepBool_leftInert ':' c ':' leftInert_closers.2.2.2.2.2.2.2.2.1 (by decide)]
  · cases e
    have e1 : (c == ':') = false := by simpa using hne
    simp [fuses, e1]

theorem noGlue_dcolon (c : Char) (cs : List Char) : NoGlue "::".toList (c :: cs) :=
  noGlue_leftInert (l := ':') (f0 := ':') (by decide) (by decide) leftInert_closers.2.2.2.2.2.2.2.2.1 (by decide)
    (by decide) cs


theorem isOpener_colon : isOpener ":".toList = false := by decide
theorem isOpener_rbrk : isOpener "]".toList = false := by decide
theorem isOpener_dcolon : isOpener "::".toList = false := by decide

/-- `args ) rest` after `(` -/
theorem tr_args_close_k {sty : Style} {es : List Expr} (hs : SA sty es) (ha : es ≠ [] → HeadIs (visitArgs sty es) H5)
    {r : Pieces} {R : DS → Prop} (hr : Tr ExitC r R) : Tr (Tight "(".toList true) (visitArgs sty es ++ (P ")" :: r)) R := by
  have := Tr.seq (tr_args_close hs ha) hr
  simpa using this

theorem bop_ne_rcur (o : Spec.BOp) : o.sym.toList ≠ ['}'] := by cases o <;> decide

/-- the targets of an assignment -/
def STs (sty : Style) (es : List Expr) : Prop :=
  es ≠ [] → Tr (Pre (firstStr (visitTargets sty es))) (visitTargets sty es) ExitE

theorem head_targets (sty : Style) {es : List Expr} (hp : pArgs es = true) (hn : NumsCanon (numsArgs es)) (hne : es ≠ []) :
    HeadIs (visitTargets sty es) H5 := by
  cases es with
  | nil => exact absurd rfl hne
  | cons e rest =>
    simp only [pArgs, Bool.and_eq_true] at hp
    simp only [numsArgs] at hn
    have := (head_fmtVar (head_expr sty e hp.1 hn.left)).imp fun c h => h.1
    cases rest with
    | nil => simpa [visitTargets] using this
    | cons e2 rest => rw [visitTargets]; exact this.append _

theorem tr_funcdef_tail {sty : Style} {ps : List Expr} {body : Block} (hsa : SA sty ps)
    (hha : ps ≠ [] → HeadIs (visitArgs sty ps) H5) (hb : SB sty body) :
    Tr ExitC (P "(" :: (visitArgs sty ps ++ (P ")" :: ((visitBlockFull sty body).drop 1 ++ [S .block, S .newline]))))
      Settled := by
  refine Tr.cons ((tr_lit_exitC litOK_lpar (c := '(') (cs := []) (by decide) (by decide)).post fun _ h => by
    rw [isOpener_lpar] at h; exact h) (tr_args_close_k hsa hha (Tr.seq (tr_funcbody hb)
      (Tr.cons (tr_block.pre fun _ h => h.settled) ((tr_newline.pre fun _ h => h.2.1).post fun _ h => h.settled))))

theorem tr_funcdef_head {r : Pieces} {R : DS → Prop} (hr : Tr Calm r R) :
    Tr EntryS (S .newline :: P "function" :: S .space :: r) R :=
  Tr.cons (tr_newline.pre fun _ hσ => hσ.last_ne.2)
    (Tr.cons (tr_lit_calm litOK_function (c := 'f') (cs := "unction".toList) (by decide) (by unfold H3; decide))
      (Tr.cons (tr_space.pre fun _ h => Tight.settled h (by decide) (by decide)) hr))

theorem tr_for_tail {sty : Style} {body : Block} (hbl : SB sty body) (hchunk : body.isChunk = false) :
    Tr ExitE (S .space :: blk body (visitBlockFull sty body)) Settled :=
  Tr.cons (tr_space.pre fun _ h => h.settled) ((tr_blk_calm hbl hchunk).post fun _ h => h.settled)

theorem tr_numfor {s : List Char} (hs : identOK s = true) {A r : Pieces} (ha : Tr Calm A ExitE)
    (hr : Tr Calm r Settled) :
    Tr EntryS (P "for" :: S .space :: .str s :: S .space :: P "=" :: S .space :: (A ++ (S .argument :: r))) Settled :=
  (tr_ls litOK_for (by decide) (by decide) (Tr.cons ((tr_name_calm hs).post fun _ h => h.exitE.settled)
    (tr_sls litOK_assign (c := '=') (cs := []) (by decide) (by unfold H3; decide) (by decide) (by decide)
      (Tr.seq ha (Tr.cons tr_argument hr))))).pre fun _ hσ =>
    pre_entryS_lit hσ (c := 'f') (cs := ['o', 'r']) (by decide) (by unfold H3; decide)

theorem tr_local {A r : Pieces} (hatt : Tr Calm A ExitT) (hr : Tr ExitT r Settled) :
    Tr EntryS (P "local" :: S .space :: (A ++ r)) Settled :=
  (tr_ls litOK_local (by decide) (by decide) (Tr.seq hatt hr)).pre fun _ hσ =>
    pre_entryS_lit hσ (c := 'l') (cs := "ocal".toList) (by decide) (by unfold H3; decide)

mutual
theorem se_expr (sty : Style) (hd : DocStyle sty) : (e : Expr) → pExpr e = true → NumsCanon (numsExpr e) → SE sty e
  | .nil _, _, _ => by
    unfold SE; simp only [visitExpr]
    exact (tr_lit_pre litOK_nil).post fun _ h => exitX_of_E rfl (tight_exitE (by decide) (by decide) (by decide) h)
  | .bool _ v, _, _ => by
    unfold SE
    cases v
    · simp only [visitExpr, Bool.false_eq_true, if_false]
      exact (tr_lit_pre litOK_false).post fun _ h => exitX_of_E rfl (tight_exitE (by decide) (by decide) (by decide) h)
    · simp only [visitExpr, if_true]
      exact (tr_lit_pre litOK_true).post fun _ h => exitX_of_E rfl (tight_exitE (by decide) (by decide) (by decide) h)
  | .vararg _, _, _ => by
    unfold SE; simp only [visitExpr]
    exact (tr_lit_pre litOK_dots3).post fun _ h => exitX_of_E rfl (tight_exitE (by decide) (by decide) (by decide) h)
  | .number _ n, hp, hn => by
    unfold SE; simp only [visitExpr]
    simp only [pExpr] at hp
    obtain ⟨hc, hg, ho, hf, c, cs, e, _⟩ := number_tok hp (hn n (by simp [numsExpr]))
    exact (tr_tok_pre hc hg).post fun _ h => exitX_of_E rfl (tight_exitE ho (by rw [e]; simp) hf h)
  | .string _ v, _, _ => by
    unfold SE; simp only [visitExpr]
    obtain ⟨a, ha, hc, hg, hce, ho, _⟩ := visitString_tok sty v
    rw [ha]
    exact (tr_tok_pre hc hg).post fun _ h => exitX_of_C (tight_exitC ho hce h)
  | .func _ ps body, hp, hn => by
    unfold SE; simp only [visitExpr]
    simp only [pExpr, Bool.and_eq_true] at hp
    simp only [numsExpr] at hn
    obtain ⟨hpa, hna⟩ := paramsOK_pArgs hp.1
    have hsa := sa_args sty hd ps hpa (by rw [hna]; exact numsCanon_nil)
    have hha := fun hne => head_args sty hpa (by rw [hna]; exact numsCanon_nil) hne
    have hb := sb_block sty hd body hp.2 hn.right
    simp only [List.cons_append, List.nil_append, List.append_assoc, firstStr_P]
    refine tr_ls litOK_function (by decide) (by decide)
      (Tr.cons ((tr_lit_calm litOK_lpar (c := '(') (cs := []) (by decide) (by unfold H3; decide)).post fun _ h => by
          rw [isOpener_lpar] at h; exact h)
        (tr_args_close_k hsa hha ((tr_funcbody hb).post fun _ h => exitX_of_E rfl h)))
  | .table _ fs, hp, hn => by
    unfold SE; simp only [visitExpr]
    simp only [pExpr] at hp
    simp only [numsExpr] at hn
    simp only [List.cons_append, firstStr_P]
    exact (tr_table (sf_fields sty hd fs hp hn) (fun hne => head_fields sty hp hn hne)).post fun _ h => exitX_of_C h
  | .binop _ o l r, hp, hn => by
    unfold SE; simp only [visitExpr]
    simp only [pExpr, Bool.and_eq_true] at hp
    simp only [numsExpr] at hn
    have hl := se_expr sty hd l hp.1 hn.left
    have hr := se_expr sty hd r hp.2 hn.right
    have hhl := head_expr sty l hp.1 hn.left
    have hhr := head_expr sty r hp.2 hn.right
    rw [List.append_assoc, firstStr_append (head_operand hhl _)]
    refine Tr.seq (tr_operand hl hhl _) (Tr.cons tr_space_exitE
      (Tr.cons ((tr_lit_calmNF (litOK_bop o) (bop_ne_rcur o)).post fun _ h => by rw [isOpener_bop] at h; exact h)
        (Tr.cons (tr_space.pre fun _ hσ => Tight.settled hσ (bop_ne o).2.1 (bop_ne o).2.2)
          ((tr_operand_calm hr hhr _).post fun _ h => exitX_of_E rfl h))))
  | .unop _ u e, hp, hn => by
    unfold SE; simp only [visitExpr, firstStr_cons_str]
    simp only [pExpr] at hp
    simp only [numsExpr] at hn
    have he := se_expr sty hd e hp hn
    have hh := head_expr sty e hp hn
    exact Tr.cons ((tr_lit_pre (litOK_uop u)).post fun _ h => by rw [isOpener_uop] at h; exact h)
      ((tr_unop_rest he hh hp hn u).post fun _ h => exitX_of_E rfl h)
  | .name _ n, hp, _ => by
    unfold SE; simp only [visitExpr]
    simp only [pExpr] at hp
    exact (tr_name_pre hp).post fun _ h => exitX_of_C h
  | .index _ lhs key, hp, hn => by
    unfold SE; simp only [visitExpr]
    simp only [pExpr, Bool.and_eq_true] at hp
    simp only [numsExpr] at hn
    have hl := se_expr sty hd lhs hp.1 hn.left
    have hk := se_expr sty hd key hp.2 hn.right
    have hhl := head_expr sty lhs hp.1 hn.left
    have hhk := head_expr sty key hp.2 hn.right
    simp only [List.append_assoc, List.cons_append, List.nil_append]
    rw [firstStr_append (head_fmtVar hhl)]
    refine Tr.seq (tr_fmtVar hl hhl)
      (Tr.cons ((tr_lit_exitC litOK_lbrk (c := '[') (cs := []) (by decide) (by decide)).post fun _ h => by
          rw [isOpener_lbrk] at h; exact h)
        (Tr.seq (tr_fmtKey hk hhk)
          ((tr_lit_exitE litOK_rbrk (c := ']') (cs := []) (by decide) inert_closers.2.1).post fun _ h =>
            exitX_of_C (tight_exitC isOpener_rbrk calleeEnd_rbrk h))))
  | .namedIndex _ lhs nm, hp, hn => by
    unfold SE; simp only [visitExpr]
    simp only [pExpr, Bool.and_eq_true] at hp
    simp only [numsExpr] at hn
    have hl := se_expr sty hd lhs hp.1 hn.left
    have hhl := head_expr sty lhs hp.1 hn.left
    obtain ⟨n, hv, _, hnm⟩ := visitExpr_nameNode sty hp.2
    simp only [List.append_assoc, List.cons_append, List.nil_append, hv]
    rw [firstStr_append (head_fmtVar hhl)]
    refine Tr.seq (tr_fmtVar hl hhl) (Tr.cons tr_dot ((tr_name_afterDot hnm).post fun _ h => ?_))
    exact exitX_of_C (tight_exitC (isOpener_word (identOK_word hnm)) (calleeEnd_word (identOK_word hnm))
      (by rw [isOpener_word (identOK_word hnm)]; exact h))
  | .call _ f args, hp, hn => by
    unfold SE; simp only [visitExpr]
    simp only [pExpr, Bool.and_eq_true] at hp
    simp only [numsExpr] at hn
    have hf := se_expr sty hd f hp.1 hn.left
    have hhf := head_expr sty f hp.1 hn.left
    have hsa := sa_args sty hd args hp.2 hn.right
    have hha := fun hne => head_args sty hp.2 hn.right hne
    rw [firstStr_append (head_fmtVar hhf)]
    exact Tr.seq (tr_fmtVar hf hhf) ((tr_fargs hsa hha).post fun _ h => exitX_of_C h)
  | .method _ f m args, hp, hn => by
    unfold SE; simp only [visitExpr]
    simp only [pExpr, Bool.and_eq_true] at hp
    simp only [numsExpr] at hn
    have hf := se_expr sty hd f hp.1.1 hn.left.left
    have hhf := head_expr sty f hp.1.1 hn.left.left
    have hsa := sa_args sty hd args hp.2 hn.right
    have hha := fun hne => head_args sty hp.2 hn.right hne
    obtain ⟨n, hv, _, hnm⟩ := visitExpr_nameNode sty hp.1.2
    simp only [List.append_assoc, List.cons_append, List.nil_append, hv]
    rw [firstStr_append (head_fmtVar hhf)]
    refine Tr.seq (tr_fmtVar hf hhf)
      (Tr.cons ((tr_lit_exitC litOK_colon (c := ':') (cs := []) (by decide) (by decide)).post fun _ h => by
          rw [isOpener_colon] at h; exact h)
        (Tr.cons (tr_name_tight hnm fun c cs hc => noGlue_colon_alpha cs hc)
          ((tr_fargs hsa hha).post fun _ h => exitX_of_C h)))

theorem sa_args (sty : Style) (hd : DocStyle sty) : (es : List Expr) → pArgs es = true → NumsCanon (numsArgs es) → SA sty es
  | [], _, _ => fun hne => absurd rfl hne
  | [e], hp, hn => by
    intro _
    simp only [pArgs, Bool.and_eq_true] at hp
    simp only [numsArgs] at hn
    have he := se_expr sty hd e hp.1 hn.left
    simp only [visitArgs]
    exact he.post fun _ h => ⟨h.1, fun e' he' hc => by cases he'; exact h.2 hc⟩
  | e :: e2 :: rest, hp, hn => by
    intro _
    rw [pArgs, Bool.and_eq_true] at hp
    rw [numsArgs] at hn
    have he := se_expr sty hd e hp.1 hn.left
    have hhe := head_expr sty e hp.1 hn.left
    have hr := sa_args sty hd (e2 :: rest) hp.2 hn.right
    have hhr := head_args sty hp.2 hn.right (by simp)
    rw [visitArgs, firstStr_append hhe]
    refine Tr.seq (he.post fun _ h => h.1) (Tr.cons tr_argument ((sa_calm hr (fun _ => hhr) (by simp)).post fun _ h => ?_))
    exact ⟨h.1, fun e' he' => by cases he'⟩

theorem sf_fields (sty : Style) (hd : DocStyle sty) : (fs : List Field) → pFields fs = true → NumsCanon (numsFields fs) →
    SFs sty fs
  | [], _, _ => fun hne => absurd rfl hne
  | [f], hp, hn => by
    intro _
    simp only [pFields, Bool.and_eq_true] at hp
    simp only [numsFields] at hn
    simp only [visitFields]
    exact sf_field sty hd f hp.1 hn.left
  | f :: f2 :: rest, hp, hn => by
    intro _
    rw [pFields, Bool.and_eq_true] at hp
    rw [numsFields] at hn
    have hf := sf_field sty hd f hp.1 hn.left
    have hhf := head_field sty f hp.1 hn.left
    have hr := sf_fields sty hd (f2 :: rest) hp.2 hn.right
    have hhr := head_fields sty hp.2 hn.right (by simp)
    rw [visitFields, firstStr_append hhf]
    refine Tr.seq hf (Tr.cons tr_argument ((hr (by simp)).pre fun _ hσ => ?_))
    exact pre_of_head hhr fun _ cs hq => pre_of_calm hσ cs hq.h3

theorem sf_field (sty : Style) (hd : DocStyle sty) : (f : Field) → pField f = true → NumsCanon (numsField f) →
    Tr (Pre (firstStr (visitField sty f))) (visitField sty f) ExitE
  | .explicit _ k v, hp, hn => by
    simp only [pField, Bool.and_eq_true] at hp
    simp only [numsField] at hn
    have hk := se_expr sty hd k hp.1 hn.left
    have hhk := head_expr sty k hp.1 hn.left
    have hv := se_expr sty hd v hp.2 hn.right
    have hhv := head_expr sty v hp.2 hn.right
    simp only [visitField, List.append_assoc, List.cons_append, List.nil_append, firstStr_P]
    refine Tr.cons ((tr_lit_pre litOK_lbrk).post fun _ h => by rw [isOpener_lbrk] at h; exact h)
      (Tr.seq (tr_fmtKey hk hhk)
        (Tr.cons ((tr_lit_exitE litOK_rbrk (c := ']') (cs := []) (by decide) inert_closers.2.1).post fun _ h =>
            (Tight.settled h (by decide) (by decide)))
          (tr_sls litOK_assign (c := '=') (cs := []) (by decide) (by unfold H3; decide) (by decide) (by decide)
            ((se_calm hv hhv).post fun _ h => h.1))))
  | .named _ n v, hp, hn => by
    simp only [pField, Bool.and_eq_true] at hp
    simp only [numsField] at hn
    have hv := se_expr sty hd v hp.2 hn.right
    have hhv := head_expr sty v hp.2 hn.right
    obtain ⟨s, hvn, _, hs⟩ := visitExpr_nameNode sty hp.1
    simp only [visitField, hvn, List.append_assoc, List.cons_append, List.nil_append, firstStr_cons_str]
    refine Tr.cons ((tr_name_pre hs).post fun _ h => h.exitE.settled)
      (tr_sls litOK_assign (c := '=') (cs := []) (by decide) (by unfold H3; decide) (by decide) (by decide)
        ((se_calm hv hhv).post fun _ h => h.1))
  | .numbered _ v, hp, hn => by
    simp only [pField] at hp
    simp only [numsField] at hn
    simp only [visitField]
    exact (se_expr sty hd v hp hn).post fun _ h => h.1

theorem sb_block (sty : Style) (hd : DocStyle sty) : (b : Block) → pBlock b = true → NumsCanon (numsBlock b) → SB sty b
  | .mk _ stmts none _, hp, hn => by
    simp only [pBlock, Bool.and_true] at hp
    simp only [numsBlock] at hn
    unfold SB
    simp only [Block.stmts, Block.rets, bodyPieces, List.append_nil]
    exact ss_stmts sty hd true stmts hp hn
  | .mk _ stmts (some es) _, hp, hn => by
    simp only [pBlock, Bool.and_eq_true] at hp
    simp only [numsBlock] at hn
    unfold SB
    simp only [Block.stmts, Block.rets, bodyPieces]
    have hs := ss_stmts sty hd true stmts hp.1 hn.left
    have hsa := sa_args sty hd es hp.2 hn.right
    have hha := fun hne => head_args sty hp.2 hn.right hne
    refine Tr.seq hs ?_
    cases es with
    | nil =>
      simp only [List.isEmpty_nil, if_true, visitArgs, List.append_nil, List.cons_append, List.nil_append]
      exact Tr.cons ((tr_lit_calm litOK_return (c := 'r') (cs := "eturn".toList) (by decide) (by unfold H3; decide)).post
        fun _ h => h.settled (by decide) (by decide)) tr_statement
    | cons e rest =>
      simp only [List.isEmpty_cons, Bool.false_eq_true, if_false, List.cons_append, List.nil_append, List.append_assoc]
      refine Tr.cons ((tr_lit_calm litOK_return (c := 'r') (cs := "eturn".toList) (by decide) (by unfold H3; decide)).post
        fun _ h => h.settled (by decide) (by decide)) (Tr.cons tr_space (Tr.seq (sa_calm hsa hha (by simp)) ?_))
      exact tr_statement.pre fun _ h => h.1.settled

theorem ss_stmts (sty : Style) (hd : DocStyle sty) : (first : Bool) → (ss : List Stmt) → pStmts ss = true →
    NumsCanon (numsStmts ss) → Tr Calm (visitStmts sty first ss) Calm
  | _, [], _, _ => by simp only [visitStmts]; exact Tr.nil
  | first, s :: rest, hp, hn => by
    simp only [pStmts, Bool.and_eq_true] at hp
    simp only [numsStmts] at hn
    rw [visitStmts_cons]
    simp only [List.append_assoc]
    exact Tr.seq (tr_comments hd s) (Tr.seq (tr_guard first _) (Tr.seq (ss_stmt sty hd s hp.1 hn.left)
      (Tr.cons tr_statement (ss_stmts sty hd false rest hp.2 hn.right))))

theorem ss_stmt (sty : Style) (hd : DocStyle sty) : (s : Stmt) → pStmt s = true → NumsCanon (numsStmt s) →
    Tr EntryS (visitStmt sty s) Settled
  | .assign _ ts es, hp, hn => by
    simp only [pStmt, Bool.and_eq_true, Bool.not_eq_true', List.isEmpty_eq_false_iff] at hp
    simp only [numsStmt] at hn
    obtain ⟨⟨⟨⟨hts, _⟩, hpt⟩, hes⟩, hpe⟩ := hp
    have ht := st_targets sty hd ts hpt hn.left
    have hht := head_targets sty hpt hn.left hts
    have hsa := sa_args sty hd es hpe hn.right
    have hha := fun hne => head_args sty hpe hn.right hne
    simp only [visitStmt, List.append_assoc, List.cons_append, List.nil_append]
    refine Tr.seq (((ht hts).post fun _ h => h.settled).pre fun _ hσ => ?_)
      (tr_sls litOK_assign (c := '=') (cs := []) (by decide) (by unfold H3; decide) (by decide) (by decide)
        ((sa_calm hsa hha hes).post fun _ h => h.1.settled))
    exact pre_of_head hht fun _ cs hq => pre_of_entryS hσ cs hq.h3
  | .block b, hp, hn => by
    simp only [pStmt, Bool.and_eq_true, Bool.not_eq_true'] at hp
    simp only [numsStmt] at hn
    simp only [visitStmt]
    exact ((tr_blk (sb_block sty hd b hp.2 hn) hp.1).post fun _ h => h.settled).pre fun _ hσ =>
      pre_entryS_lit hσ (c := 'd') (cs := ['o']) (by decide) (by unfold H3; decide)
  | .brk _, _, _ => by
    simp only [visitStmt]
    exact ((tr_lit_pre litOK_break).post fun _ h => h.settled (by decide) (by decide)).pre fun _ hσ =>
      pre_entryS_lit hσ (c := 'b') (cs := "reak".toList) (by decide) (by unfold H3; decide)
  | .call _ f args, hp, hn => by
    simp only [pStmt, Bool.and_eq_true] at hp
    simp only [numsStmt] at hn
    have hf := se_expr sty hd f hp.1 hn.left
    have hhf := head_expr sty f hp.1 hn.left
    have hsa := sa_args sty hd args hp.2 hn.right
    have hha := fun hne => head_args sty hp.2 hn.right hne
    simp only [visitStmt]
    exact Tr.seq (tr_fmtVar_entryS hf hhf) ((tr_fargs hsa hha).post fun _ h => h.exitE.settled)
  | .funcDef _ names none ps body, hp, hn => by
    simp only [pStmt, Bool.and_eq_true, Bool.not_eq_true', List.isEmpty_eq_false_iff, Bool.and_true] at hp
    simp only [numsStmt] at hn
    obtain ⟨⟨⟨hne, hnames⟩, hps⟩, hbody⟩ := hp
    obtain ⟨hpa, hna⟩ := paramsOK_pArgs hps
    have hsa := sa_args sty hd ps hpa (by rw [hna]; exact numsCanon_nil)
    have hha := fun hne => head_args sty hpa (by rw [hna]; exact numsCanon_nil) hne
    have hb := sb_block sty hd body hbody hn.right
    have hdot := tr_dotted sty names hnames hne Calm fun n hn => tr_name_calm hn
    simp only [visitStmt, List.append_assoc, List.cons_append, List.nil_append]
    exact tr_funcdef_head (Tr.seq hdot (tr_funcdef_tail hsa hha hb))
  | .funcDef _ names (some mn) ps body, hp, hn => by
    simp only [pStmt, Bool.and_eq_true, Bool.not_eq_true', List.isEmpty_eq_false_iff] at hp
    simp only [numsStmt] at hn
    obtain ⟨⟨⟨⟨hne, hnames⟩, hm⟩, hps⟩, hbody⟩ := hp
    obtain ⟨hpa, hna⟩ := paramsOK_pArgs hps
    have hsa := sa_args sty hd ps hpa (by rw [hna]; exact numsCanon_nil)
    have hha := fun hne => head_args sty hpa (by rw [hna]; exact numsCanon_nil) hne
    have hb := sb_block sty hd body hbody hn.right
    have hdot := tr_dotted sty names hnames hne Calm fun n hn => tr_name_calm hn
    obtain ⟨n, hv, _, hnm⟩ := visitExpr_nameNode sty hm
    simp only [visitStmt, hv, List.append_assoc, List.cons_append, List.nil_append]
    exact tr_funcdef_head (Tr.seq hdot
      (Tr.cons ((tr_lit_exitC litOK_colon (c := ':') (cs := []) (by decide) (by decide)).post fun _ h => by
          rw [isOpener_colon] at h; exact h)
        (Tr.cons (tr_name_tight hnm fun c cs hc => noGlue_colon_alpha cs hc) (tr_funcdef_tail hsa hha hb))))
  | .goto _ l, hp, _ => by
    simp only [pStmt] at hp
    obtain ⟨n, hv, _, hnm⟩ := visitExpr_nameNode sty hp
    simp only [visitStmt, hv, List.cons_append, List.nil_append]
    exact (tr_ls litOK_goto (by decide) (by decide) ((tr_name_calm hnm).post fun _ h => h.exitE.settled)).pre fun _ hσ =>
      pre_entryS_lit hσ (c := 'g') (cs := "oto".toList) (by decide) (by unfold H3; decide)
  | .label _ n, hp, _ => by
    simp only [pStmt] at hp
    obtain ⟨s, hv, _, hs⟩ := visitExpr_nameNode sty hp
    simp only [visitStmt, hv, List.cons_append, List.nil_append]
    refine (Tr.cons ((tr_lit_pre litOK_dcolon).post fun _ h => by rw [isOpener_dcolon] at h; exact h)
      (Tr.cons (tr_name_tight hs fun c cs _ => noGlue_dcolon c cs)
        ((tr_lit_exitC litOK_dcolon (c := ':') (cs := [':']) (by decide) (by decide)).post fun _ h =>
          h.settled (by decide) (by decide)))).pre fun _ hσ =>
      pre_entryS_lit hσ (c := ':') (cs := [':']) (by decide) (by unfold H3; decide)
  | .iff _ test tr fl, hp, hn => by
    simp only [pStmt, Bool.and_eq_true, Bool.not_eq_true'] at hp
    simp only [numsStmt] at hn
    obtain ⟨⟨⟨htest, hchunk⟩, htr⟩, hfl⟩ := hp
    have ht := se_expr sty hd test htest hn.left.left
    have hht := head_expr sty test htest hn.left.left
    have hb := sb_block sty hd tr htr hn.left.right
    have hf := sfl_false sty hd fl hfl hn.right
    simp only [visitStmt, List.append_assoc, List.cons_append, List.nil_append]
    refine (tr_ls litOK_if (by decide) (by decide) (Tr.seq (se_calm ht hht)
      (Tr.cons (tr_space.pre fun _ h => h.1.settled)
        (Tr.cons ((tr_lit_calm litOK_then (c := 't') (cs := "hen".toList) (by decide) (by unfold H3; decide)).post
            fun _ h => h.settled (by decide) (by decide))
          (Tr.cons tr_block (Tr.seq (tr_slice21 hb hchunk) (Tr.seq hf
            ((tr_lit_calm litOK_end (c := 'e') (cs := ['n', 'd']) (by decide) (by unfold H3; decide)).post
              fun _ h => h.settled (by decide) (by decide))))))))).pre fun _ hσ =>
      pre_entryS_lit hσ (c := 'i') (cs := ['f']) (by decide) (by unfold H3; decide)
  | .iterFor _ ns es body, hp, hn => by
    simp only [pStmt, Bool.and_eq_true, Bool.not_eq_true', List.isEmpty_eq_false_iff] at hp
    simp only [numsStmt] at hn
    obtain ⟨⟨⟨⟨⟨hns, hnames⟩, hes⟩, hpe⟩, hchunk⟩, hbody⟩ := hp
    obtain ⟨hpn, hnn⟩ := allNames_pArgs hnames
    have hsn := sa_args sty hd ns hpn (by rw [hnn]; exact numsCanon_nil)
    have hhn := fun hne => head_args sty hpn (by rw [hnn]; exact numsCanon_nil) hne
    have hsa := sa_args sty hd es hpe hn.left.right
    have hha := fun hne => head_args sty hpe hn.left.right hne
    have hb := sb_block sty hd body hbody hn.right
    simp only [visitStmt, List.append_assoc, List.cons_append, List.nil_append]
    refine (tr_ls litOK_for (by decide) (by decide) (Tr.seq ((sa_calm hsn hhn hns).post fun _ h => h.1.settled)
      (tr_sls litOK_in (c := 'i') (cs := ['n']) (by decide) (by unfold H3; decide) (by decide) (by decide)
        (Tr.seq (sa_calm hsa hha hes) (Tr.cons (tr_space.pre fun _ h => h.1.settled)
          ((tr_blk_calm hb hchunk).post fun _ h => h.settled)))))).pre fun _ hσ =>
      pre_entryS_lit hσ (c := 'f') (cs := ['o', 'r']) (by decide) (by unfold H3; decide)
  | .localAssign _ names none, hp, _ => by
    simp only [pStmt, Bool.and_eq_true, Bool.not_eq_true', List.isEmpty_eq_false_iff, Bool.and_true] at hp
    simp only [visitStmt, List.append_assoc, List.cons_append, List.nil_append, List.append_nil]
    have := tr_local (tr_attNames names hp.2 hp.1) (Tr.nil.post fun _ h => h.settled)
    simpa using this
  | .localAssign _ names (some []), hp, _ => by
    simp [pStmt] at hp
  | .localAssign _ names (some (e :: rest)), hp, hn => by
    simp only [pStmt, Bool.and_eq_true, Bool.not_eq_true', List.isEmpty_eq_false_iff] at hp
    simp only [numsStmt] at hn
    have hsa := sa_args sty hd (e :: rest) hp.2 hn
    have hha := fun hne => head_args sty hp.2 hn hne
    simp only [visitStmt, List.append_assoc, List.cons_append, List.nil_append]
    exact tr_local (tr_attNames names hp.1.2 hp.1.1)
      ((tr_sls litOK_assign (c := '=') (cs := []) (by decide) (by unfold H3; decide) (by decide)
        (by decide) ((sa_calm hsa hha (by simp)).post fun _ h => h.1.settled)).pre fun _ h => h.settled)
  | .localFunc _ n ps body, hp, hn => by
    simp only [pStmt, Bool.and_eq_true] at hp
    simp only [numsStmt] at hn
    obtain ⟨⟨hname, hps⟩, hbody⟩ := hp
    obtain ⟨hpa, hna⟩ := paramsOK_pArgs hps
    have hsa := sa_args sty hd ps hpa (by rw [hna]; exact numsCanon_nil)
    have hha := fun hne => head_args sty hpa (by rw [hna]; exact numsCanon_nil) hne
    have hb := sb_block sty hd body hbody hn.right
    obtain ⟨s, hv, _, hs⟩ := visitExpr_nameNode sty hname
    simp only [visitStmt, hv, List.append_assoc, List.cons_append, List.nil_append]
    refine Tr.cons (tr_newline.pre fun _ hσ => hσ.last_ne.2)
      (Tr.cons (tr_lit_calm litOK_local (c := 'l') (cs := "ocal".toList) (by decide) (by unfold H3; decide))
        (Tr.cons (tr_space.pre fun _ h => h.settled (by decide) (by decide))
          (Tr.cons (tr_lit_calm litOK_function (c := 'f') (cs := "unction".toList) (by decide) (by unfold H3; decide))
            (Tr.cons (tr_space.pre fun _ h => h.settled (by decide) (by decide))
              (Tr.cons (tr_name_calm hs)
                (Tr.cons ((tr_lit_exitC litOK_lpar (c := '(') (cs := []) (by decide) (by decide)).post fun _ h => by
                    rw [isOpener_lpar] at h; exact h) ?_))))))
    have := Tr.seq (tr_args_close hsa hha) (Tr.seq (tr_funcbody hb)
      (Tr.cons (tr_statement.pre fun _ h => h.settled) (tr_newline.pre fun _ h => h.2.1)))
    simp only [List.append_assoc, List.cons_append, List.nil_append] at this
    exact this.post fun _ h => h.settled
  | .method _ f m args, hp, hn => by
    simp only [pStmt, Bool.and_eq_true] at hp
    simp only [numsStmt] at hn
    have hf := se_expr sty hd f hp.1.1 hn.left.left
    have hhf := head_expr sty f hp.1.1 hn.left.left
    have hsa := sa_args sty hd args hp.2 hn.right
    have hha := fun hne => head_args sty hp.2 hn.right hne
    obtain ⟨n, hv, _, hnm⟩ := visitExpr_nameNode sty hp.1.2
    simp only [visitStmt, List.append_assoc, List.cons_append, List.nil_append, hv]
    exact Tr.seq (tr_fmtVar_entryS hf hhf)
      (Tr.cons ((tr_lit_exitC litOK_colon (c := ':') (cs := []) (by decide) (by decide)).post fun _ h => by
          rw [isOpener_colon] at h; exact h)
        (Tr.cons (tr_name_tight hnm fun c cs hc => noGlue_colon_alpha cs hc)
          ((tr_fargs hsa hha).post fun _ h => h.exitE.settled)))
  | .numFor _ v a b none body, hp, hn => by
    simp only [pStmt, Bool.and_eq_true, Bool.not_eq_true', Bool.and_true] at hp
    simp only [numsStmt] at hn
    obtain ⟨⟨⟨⟨hv, ha⟩, hb⟩, hchunk⟩, hbody⟩ := hp
    obtain ⟨s, hvv, _, hs⟩ := visitExpr_nameNode sty hv
    have hea := se_expr sty hd a ha hn.left.left.right
    have hha := head_expr sty a ha hn.left.left.right
    have heb := se_expr sty hd b hb hn.left.right
    have hhb := head_expr sty b hb hn.left.right
    have hbl := sb_block sty hd body hbody hn.right
    simp only [visitStmt, hvv, List.append_assoc, List.cons_append, List.nil_append]
    exact tr_numfor hs ((se_calm hea hha).post fun _ h => h.1)
      (Tr.seq ((se_calm heb hhb).post fun _ h => h.1) (tr_for_tail hbl hchunk))
  | .numFor _ v a b (some st) body, hp, hn => by
    simp only [pStmt, Bool.and_eq_true, Bool.not_eq_true'] at hp
    simp only [numsStmt] at hn
    obtain ⟨⟨⟨⟨⟨hv, ha⟩, hb⟩, hstep⟩, hchunk⟩, hbody⟩ := hp
    obtain ⟨s, hvv, _, hs⟩ := visitExpr_nameNode sty hv
    have hea := se_expr sty hd a ha hn.left.left.left.right
    have hha := head_expr sty a ha hn.left.left.left.right
    have heb := se_expr sty hd b hb hn.left.left.right
    have hhb := head_expr sty b hb hn.left.left.right
    have hes := se_expr sty hd st hstep hn.left.right
    have hhs := head_expr sty st hstep hn.left.right
    have hbl := sb_block sty hd body hbody hn.right
    simp only [visitStmt, hvv, List.append_assoc, List.cons_append, List.nil_append]
    exact tr_numfor hs ((se_calm hea hha).post fun _ h => h.1)
      (Tr.seq ((se_calm heb hhb).post fun _ h => h.1)
        (Tr.cons tr_argument (Tr.seq ((se_calm hes hhs).post fun _ h => h.1) (tr_for_tail hbl hchunk))))
  | .repeat _ c body, hp, hn => by
    simp only [pStmt, Bool.and_eq_true, Bool.not_eq_true'] at hp
    simp only [numsStmt] at hn
    obtain ⟨⟨hchunk, hbody⟩, hc⟩ := hp
    have hb := sb_block sty hd body hbody hn.left
    have he := se_expr sty hd c hc hn.right
    have hh := head_expr sty c hc hn.right
    simp only [visitStmt, List.append_assoc, List.cons_append, List.nil_append]
    refine (tr_lb litOK_repeat (by decide) (by decide) (Tr.seq (tr_slice21 hb hchunk)
      (Tr.cons (tr_lit_calm litOK_until (c := 'u') (cs := "ntil".toList) (by decide) (by unfold H3; decide))
        (Tr.cons (tr_space.pre fun _ h => h.settled (by decide) (by decide))
          ((se_calm he hh).post fun _ h => h.1.settled))))).pre fun _ hσ =>
      pre_entryS_lit hσ (c := 'r') (cs := "epeat".toList) (by decide) (by unfold H3; decide)
  | .semi _, _, _ => by
    simp only [visitStmt]
    split
    · exact ((tr_lit_pre litOK_semi).post fun _ h => h.settled (by decide) (by decide)).pre fun _ hσ =>
        pre_entryS_lit hσ (c := ';') (cs := []) (by decide) (by unfold H3; decide)
    · exact Tr.nil.post fun _ h => h.settled
  | .whl _ c body, hp, hn => by
    simp only [pStmt, Bool.and_eq_true, Bool.not_eq_true'] at hp
    simp only [numsStmt] at hn
    obtain ⟨⟨hc, hchunk⟩, hbody⟩ := hp
    have hb := sb_block sty hd body hbody hn.right
    have he := se_expr sty hd c hc hn.left
    have hh := head_expr sty c hc hn.left
    simp only [visitStmt, List.append_assoc, List.cons_append, List.nil_append]
    exact (tr_ls litOK_while (by decide) (by decide) (Tr.seq (se_calm he hh)
      (Tr.cons (tr_space.pre fun _ h => h.1.settled) ((tr_blk_calm hb hchunk).post fun _ h => h.settled)))).pre
      fun _ hσ => pre_entryS_lit hσ (c := 'w') (cs := "hile".toList) (by decide) (by unfold H3; decide)

theorem sfl_false (sty : Style) (hd : DocStyle sty) : (fl : IfFalse) → pFalse fl = true → NumsCanon (numsFalse fl) →
    Tr Calm (visitFalse sty fl) Calm
  | .none, _, _ => by simp only [visitFalse]; exact Tr.nil
  | .block b, hp, hn => by
    simp only [pFalse, Bool.and_eq_true, Bool.not_eq_true'] at hp
    simp only [numsFalse] at hn
    have hb := sb_block sty hd b hp.2 hn
    simp only [visitFalse, List.cons_append, List.nil_append]
    exact (tr_lb litOK_else (by decide) (by decide) (tr_slice21 hb hp.1)).pre fun _ hσ =>
      pre_calm_lit hσ (c := 'e') (cs := "lse".toList) (by decide) (by unfold H3; decide)
  | .elif _ test tr fl, hp, hn => by
    simp only [pFalse, Bool.and_eq_true, Bool.not_eq_true'] at hp
    simp only [numsFalse] at hn
    obtain ⟨⟨⟨htest, hchunk⟩, htr⟩, hfl⟩ := hp
    have ht := se_expr sty hd test htest hn.left.left
    have hht := head_expr sty test htest hn.left.left
    have hb := sb_block sty hd tr htr hn.left.right
    have hf := sfl_false sty hd fl hfl hn.right
    simp only [visitFalse, List.append_assoc, List.cons_append, List.nil_append]
    exact (tr_ls litOK_elseif (by decide) (by decide) (Tr.seq (se_calm ht hht)
      (Tr.cons (tr_space.pre fun _ h => h.1.settled)
        (Tr.cons ((tr_lit_calm litOK_then (c := 't') (cs := "hen".toList) (by decide) (by unfold H3; decide)).post
            fun _ h => h.settled (by decide) (by decide))
          (Tr.cons tr_block (Tr.seq (tr_slice21 hb hchunk) hf)))))).pre fun _ hσ =>
      pre_calm_lit hσ (c := 'e') (cs := "lseif".toList) (by decide) (by unfold H3; decide)

theorem st_targets (sty : Style) (hd : DocStyle sty) : (es : List Expr) → pArgs es = true → NumsCanon (numsArgs es) →
    STs sty es
  | [], _, _ => fun hne => absurd rfl hne
  | [e], hp, hn => by
    intro _
    simp only [pArgs, Bool.and_eq_true] at hp
    simp only [numsArgs] at hn
    simp only [visitTargets]
    exact (tr_fmtVar (se_expr sty hd e hp.1 hn.left) (head_expr sty e hp.1 hn.left)).post fun _ h => h.exitE
  | e :: e2 :: rest, hp, hn => by
    intro _
    rw [pArgs, Bool.and_eq_true] at hp
    rw [numsArgs] at hn
    have he := se_expr sty hd e hp.1 hn.left
    have hhe := head_expr sty e hp.1 hn.left
    have hr := st_targets sty hd (e2 :: rest) hp.2 hn.right
    have hhr := head_targets sty hp.2 hn.right (by simp)
    rw [visitTargets, firstStr_append (head_fmtVar hhe)]
    refine Tr.seq ((tr_fmtVar he hhe).post fun _ h => h.exitE) (Tr.cons tr_argument ((hr (by simp)).pre fun _ hσ => ?_))
    exact pre_of_head hhr fun _ cs hq => pre_of_calm hσ cs hq.h3
end

end Tumfl.Theory
