import Tumfl.Theory.ResolveFaithfulDefs
/-!
# Faithful inlining with the `found` table threaded through (the deduplication clause, whole tree)

`InlBlockF fs sp dir found b b' found'` refines `InlBlock fs sp dir b b'`: `found` is the list of files inlined before the node
is reached and `found'` the list after it.  The table is threaded in the traversal order of the Python walker
(`BasicWalker`/`NoneWalker`): children left to right in constructor-argument order, EXCEPT `binop`, whose right operand is
visited before the left one; a block visits its statements, then its return values.

* `InlStmtF.requireDedup` needs `path ∈ found` and leaves the table alone;
* `InlStmtF.requireInline` needs `path ∉ found` and resolves the file's chunk under `found ++ [path]`;
* `InlExprF.require` (no deduplication at expression level) resolves the file's chunk under `addFound found path`.
-/
namespace Tumfl.Theory
open Tumfl.Model

/-- `if path not in self.found: self.found.append(path)` -/
def addFound (found : List Path) (p : Path) : List Path := if found.contains p then found else found ++ [p]

mutual
inductive InlExprF (fs : FS) (sp : List Path) : Path → List Path → Expr → Expr → List Path → Prop
  | nil {dir : Path} {fd : List Path} (t : Token) : InlExprF fs sp dir fd (.nil t) (.nil t) fd
  | bool {dir : Path} {fd : List Path} (t : Token) (v : Bool) : InlExprF fs sp dir fd (.bool t v) (.bool t v) fd
  | vararg {dir : Path} {fd : List Path} (t : Token) : InlExprF fs sp dir fd (.vararg t) (.vararg t) fd
  | number {dir : Path} {fd : List Path} (t : Token) (n : NumTuple) : InlExprF fs sp dir fd (.number t n) (.number t n) fd
  | string {dir : Path} {fd : List Path} (t : Token) (v : List Char) : InlExprF fs sp dir fd (.string t v) (.string t v) fd
  | name {dir : Path} {fd : List Path} (t : Token) (n : List Char) : InlExprF fs sp dir fd (.name t n) (.name t n) fd
  | func {dir : Path} {fd0 fd1 fd2 : List Path} {t : Token} {ps ps' : List Expr} {body body' : Block} :
      InlExprsF fs sp dir fd0 ps ps' fd1 → InlBlockF fs sp dir fd1 body body' fd2 →
      InlExprF fs sp dir fd0 (.func t ps body) (.func t ps' body') fd2
  | table {dir : Path} {fd0 fd1 : List Path} {t : Token} {fds fds' : List Field} :
      InlFieldsF fs sp dir fd0 fds fds' fd1 → InlExprF fs sp dir fd0 (.table t fds) (.table t fds') fd1
  /-- the RIGHT operand is visited first -/
  | binop {dir : Path} {fd0 fd1 fd2 : List Path} {t : Token} {o : Tumfl.Spec.BOp} {l l' r r' : Expr} :
      InlExprF fs sp dir fd0 r r' fd1 → InlExprF fs sp dir fd1 l l' fd2 →
      InlExprF fs sp dir fd0 (.binop t o l r) (.binop t o l' r') fd2
  | unop {dir : Path} {fd0 fd1 : List Path} {t : Token} {o : Tumfl.Spec.UOp} {x x' : Expr} :
      InlExprF fs sp dir fd0 x x' fd1 → InlExprF fs sp dir fd0 (.unop t o x) (.unop t o x') fd1
  | index {dir : Path} {fd0 fd1 fd2 : List Path} {t : Token} {l l' k k' : Expr} :
      InlExprF fs sp dir fd0 l l' fd1 → InlExprF fs sp dir fd1 k k' fd2 →
      InlExprF fs sp dir fd0 (.index t l k) (.index t l' k') fd2
  | namedIndex {dir : Path} {fd0 fd1 fd2 : List Path} {t : Token} {l l' n n' : Expr} :
      InlExprF fs sp dir fd0 l l' fd1 → InlExprF fs sp dir fd1 n n' fd2 →
      InlExprF fs sp dir fd0 (.namedIndex t l n) (.namedIndex t l' n') fd2
  | call {dir : Path} {fd0 fd1 fd2 : List Path} {t : Token} {fn fn' : Expr} {args args' : List Expr} :
      isReqLit fn args = false →
      InlExprF fs sp dir fd0 fn fn' fd1 → InlExprsF fs sp dir fd1 args args' fd2 →
      InlExprF fs sp dir fd0 (.call t fn args) (.call t fn' args') fd2
  | method {dir : Path} {fd0 fd1 fd2 fd3 : List Path} {t : Token} {fn fn' m m' : Expr} {args args' : List Expr} :
      InlExprF fs sp dir fd0 fn fn' fd1 → InlExprF fs sp dir fd1 m m' fd2 → InlExprsF fs sp dir fd2 args args' fd3 →
      InlExprF fs sp dir fd0 (.method t fn m args) (.method t fn' m' args') fd3
  /-- INLINING, expression level: never deduplicated; the file enters `found` (if it is not there yet) BEFORE its chunk is
  resolved -/
  | require {dir : Path} {fd0 fd1 : List Path} {t tk tk' : Token} {fn : Expr} {name : List Char} {path : Path}
      {text : List Char} {ss : List Stmt} {rs : Option (List Expr)} {c : Bool} {x : List Hint} {body' : Block} :
      isRequireName fn = true →
      findFileInPath fs sp name dir = some path →
      fs.read path = some text →
      parseText text = .ok (Block.mk tk' ss rs c, x) →
      InlBlockF fs sp (dirOf path) (addFound fd0 path) (Block.mk tk' ss rs true) body' fd1 →
      InlExprF fs sp dir fd0 (.call t fn [.string tk name]) (.call t (.func t [] body') [.string tk name]) fd1

inductive InlExprsF (fs : FS) (sp : List Path) : Path → List Path → List Expr → List Expr → List Path → Prop
  | nil {dir : Path} {fd : List Path} : InlExprsF fs sp dir fd [] [] fd
  | cons {dir : Path} {fd0 fd1 fd2 : List Path} {e e' : Expr} {es es' : List Expr} :
      InlExprF fs sp dir fd0 e e' fd1 → InlExprsF fs sp dir fd1 es es' fd2 →
      InlExprsF fs sp dir fd0 (e :: es) (e' :: es') fd2

inductive InlFieldF (fs : FS) (sp : List Path) : Path → List Path → Field → Field → List Path → Prop
  | explicit {dir : Path} {fd0 fd1 fd2 : List Path} {t : Token} {k k' v v' : Expr} :
      InlExprF fs sp dir fd0 k k' fd1 → InlExprF fs sp dir fd1 v v' fd2 →
      InlFieldF fs sp dir fd0 (.explicit t k v) (.explicit t k' v') fd2
  | named {dir : Path} {fd0 fd1 fd2 : List Path} {t : Token} {n n' v v' : Expr} :
      InlExprF fs sp dir fd0 n n' fd1 → InlExprF fs sp dir fd1 v v' fd2 →
      InlFieldF fs sp dir fd0 (.named t n v) (.named t n' v') fd2
  | numbered {dir : Path} {fd0 fd1 : List Path} {t : Token} {v v' : Expr} :
      InlExprF fs sp dir fd0 v v' fd1 → InlFieldF fs sp dir fd0 (.numbered t v) (.numbered t v') fd1

inductive InlFieldsF (fs : FS) (sp : List Path) : Path → List Path → List Field → List Field → List Path → Prop
  | nil {dir : Path} {fd : List Path} : InlFieldsF fs sp dir fd [] [] fd
  | cons {dir : Path} {fd0 fd1 fd2 : List Path} {f f' : Field} {rest rest' : List Field} :
      InlFieldF fs sp dir fd0 f f' fd1 → InlFieldsF fs sp dir fd1 rest rest' fd2 →
      InlFieldsF fs sp dir fd0 (f :: rest) (f' :: rest') fd2

inductive InlOptExprF (fs : FS) (sp : List Path) : Path → List Path → Option Expr → Option Expr → List Path → Prop
  | none {dir : Path} {fd : List Path} : InlOptExprF fs sp dir fd none none fd
  | some {dir : Path} {fd0 fd1 : List Path} {e e' : Expr} :
      InlExprF fs sp dir fd0 e e' fd1 → InlOptExprF fs sp dir fd0 (some e) (some e') fd1

inductive InlOptExprsF (fs : FS) (sp : List Path) :
    Path → List Path → Option (List Expr) → Option (List Expr) → List Path → Prop
  | none {dir : Path} {fd : List Path} : InlOptExprsF fs sp dir fd none none fd
  | some {dir : Path} {fd0 fd1 : List Path} {es es' : List Expr} :
      InlExprsF fs sp dir fd0 es es' fd1 → InlOptExprsF fs sp dir fd0 (some es) (some es') fd1

inductive InlStmtF (fs : FS) (sp : List Path) : Path → List Path → Stmt → Stmt → List Path → Prop
  | assign {dir : Path} {fd0 fd1 fd2 : List Path} {t : Token} {ts ts' es es' : List Expr} :
      InlExprsF fs sp dir fd0 ts ts' fd1 → InlExprsF fs sp dir fd1 es es' fd2 →
      InlStmtF fs sp dir fd0 (.assign t ts es) (.assign t ts' es') fd2
  | block {dir : Path} {fd0 fd1 : List Path} {b b' : Block} :
      InlBlockF fs sp dir fd0 b b' fd1 → InlStmtF fs sp dir fd0 (.block b) (.block b') fd1
  | brk {dir : Path} {fd : List Path} (t : Token) : InlStmtF fs sp dir fd (.brk t) (.brk t) fd
  | call {dir : Path} {fd0 fd1 fd2 : List Path} {t : Token} {fn fn' : Expr} {args args' : List Expr} :
      isReqLit fn args = false →
      InlExprF fs sp dir fd0 fn fn' fd1 → InlExprsF fs sp dir fd1 args args' fd2 →
      InlStmtF fs sp dir fd0 (.call t fn args) (.call t fn' args') fd2
  | funcDef {dir : Path} {fd0 fd1 fd2 fd3 fd4 : List Path} {t : Token} {ns ns' : List Expr} {m m' : Option Expr}
      {ps ps' : List Expr} {body body' : Block} :
      InlExprsF fs sp dir fd0 ns ns' fd1 → InlOptExprF fs sp dir fd1 m m' fd2 → InlExprsF fs sp dir fd2 ps ps' fd3 →
      InlBlockF fs sp dir fd3 body body' fd4 →
      InlStmtF fs sp dir fd0 (.funcDef t ns m ps body) (.funcDef t ns' m' ps' body') fd4
  | goto {dir : Path} {fd0 fd1 : List Path} {t : Token} {l l' : Expr} :
      InlExprF fs sp dir fd0 l l' fd1 → InlStmtF fs sp dir fd0 (.goto t l) (.goto t l') fd1
  | label {dir : Path} {fd0 fd1 : List Path} {t : Token} {n n' : Expr} :
      InlExprF fs sp dir fd0 n n' fd1 → InlStmtF fs sp dir fd0 (.label t n) (.label t n') fd1
  | iff {dir : Path} {fd0 fd1 fd2 fd3 : List Path} {t : Token} {c c' : Expr} {tr tr' : Block} {fl fl' : IfFalse} :
      InlExprF fs sp dir fd0 c c' fd1 → InlBlockF fs sp dir fd1 tr tr' fd2 → InlFalseF fs sp dir fd2 fl fl' fd3 →
      InlStmtF fs sp dir fd0 (.iff t c tr fl) (.iff t c' tr' fl') fd3
  | iterFor {dir : Path} {fd0 fd1 fd2 fd3 : List Path} {t : Token} {ns ns' es es' : List Expr} {body body' : Block} :
      InlExprsF fs sp dir fd0 ns ns' fd1 → InlExprsF fs sp dir fd1 es es' fd2 → InlBlockF fs sp dir fd2 body body' fd3 →
      InlStmtF fs sp dir fd0 (.iterFor t ns es body) (.iterFor t ns' es' body') fd3
  | localAssign {dir : Path} {fd0 fd1 : List Path} {t : Token} {ns : List AttName} {es es' : Option (List Expr)} :
      InlOptExprsF fs sp dir fd0 es es' fd1 → InlStmtF fs sp dir fd0 (.localAssign t ns es) (.localAssign t ns es') fd1
  | localFunc {dir : Path} {fd0 fd1 fd2 fd3 : List Path} {t : Token} {n n' : Expr} {ps ps' : List Expr}
      {body body' : Block} :
      InlExprF fs sp dir fd0 n n' fd1 → InlExprsF fs sp dir fd1 ps ps' fd2 → InlBlockF fs sp dir fd2 body body' fd3 →
      InlStmtF fs sp dir fd0 (.localFunc t n ps body) (.localFunc t n' ps' body') fd3
  | method {dir : Path} {fd0 fd1 fd2 fd3 : List Path} {t : Token} {fn fn' m m' : Expr} {args args' : List Expr} :
      InlExprF fs sp dir fd0 fn fn' fd1 → InlExprF fs sp dir fd1 m m' fd2 → InlExprsF fs sp dir fd2 args args' fd3 →
      InlStmtF fs sp dir fd0 (.method t fn m args) (.method t fn' m' args') fd3
  | numFor {dir : Path} {fd0 fd1 fd2 fd3 fd4 fd5 : List Path} {t : Token} {v v' a a' b b' : Expr} {st st' : Option Expr}
      {body body' : Block} :
      InlExprF fs sp dir fd0 v v' fd1 → InlExprF fs sp dir fd1 a a' fd2 → InlExprF fs sp dir fd2 b b' fd3 →
      InlOptExprF fs sp dir fd3 st st' fd4 → InlBlockF fs sp dir fd4 body body' fd5 →
      InlStmtF fs sp dir fd0 (.numFor t v a b st body) (.numFor t v' a' b' st' body') fd5
  /-- the condition is visited first, then the body -/
  | repeat {dir : Path} {fd0 fd1 fd2 : List Path} {t : Token} {c c' : Expr} {body body' : Block} :
      InlExprF fs sp dir fd0 c c' fd1 → InlBlockF fs sp dir fd1 body body' fd2 →
      InlStmtF fs sp dir fd0 (.repeat t c body) (.repeat t c' body') fd2
  | semi {dir : Path} {fd : List Path} (t : Token) : InlStmtF fs sp dir fd (.semi t) (.semi t) fd
  | whl {dir : Path} {fd0 fd1 fd2 : List Path} {t : Token} {c c' : Expr} {body body' : Block} :
      InlExprF fs sp dir fd0 c c' fd1 → InlBlockF fs sp dir fd1 body body' fd2 →
      InlStmtF fs sp dir fd0 (.whl t c body) (.whl t c' body') fd2
  /-- INLINING, statement level: only for a file that was NOT inlined before; it enters `found` before its chunk is
  resolved -/
  | requireInline {dir : Path} {fd0 fd1 : List Path} {t tk tk' : Token} {fn : Expr} {name : List Char} {path : Path}
      {text : List Char} {ss : List Stmt} {rs : Option (List Expr)} {c : Bool} {x : List Hint} {chunk' : Block} :
      isRequireName fn = true →
      findFileInPath fs sp name dir = some path →
      path ∉ fd0 →
      fs.read path = some text →
      parseText text = .ok (Block.mk tk' ss rs c, x) →
      InlBlockF fs sp (dirOf path) (fd0 ++ [path]) (Block.mk tk' ss rs true) chunk' fd1 →
      InlStmtF fs sp dir fd0 (.call t fn [.string tk name]) (.block chunk') fd1
  /-- DEDUPLICATION, statement level: only for a file that WAS inlined before; the table is left alone -/
  | requireDedup {dir : Path} {fd : List Path} {t tk : Token} {fn : Expr} {name : List Char} {path : Path} :
      isRequireName fn = true →
      findFileInPath fs sp name dir = some path →
      path ∈ fd →
      InlStmtF fs sp dir fd (.call t fn [.string tk name]) (.semi t) fd

inductive InlStmtsF (fs : FS) (sp : List Path) : Path → List Path → List Stmt → List Stmt → List Path → Prop
  | nil {dir : Path} {fd : List Path} : InlStmtsF fs sp dir fd [] [] fd
  | cons {dir : Path} {fd0 fd1 fd2 : List Path} {s s' : Stmt} {rest rest' : List Stmt} :
      InlStmtF fs sp dir fd0 s s' fd1 → InlStmtsF fs sp dir fd1 rest rest' fd2 →
      InlStmtsF fs sp dir fd0 (s :: rest) (s' :: rest') fd2

inductive InlFalseF (fs : FS) (sp : List Path) : Path → List Path → IfFalse → IfFalse → List Path → Prop
  | none {dir : Path} {fd : List Path} : InlFalseF fs sp dir fd .none .none fd
  | block {dir : Path} {fd0 fd1 : List Path} {b b' : Block} :
      InlBlockF fs sp dir fd0 b b' fd1 → InlFalseF fs sp dir fd0 (.block b) (.block b') fd1
  | elif {dir : Path} {fd0 fd1 fd2 fd3 : List Path} {t : Token} {c c' : Expr} {tr tr' : Block} {fl fl' : IfFalse} :
      InlExprF fs sp dir fd0 c c' fd1 → InlBlockF fs sp dir fd1 tr tr' fd2 → InlFalseF fs sp dir fd2 fl fl' fd3 →
      InlFalseF fs sp dir fd0 (.elif t c tr fl) (.elif t c' tr' fl') fd3

inductive InlBlockF (fs : FS) (sp : List Path) : Path → List Path → Block → Block → List Path → Prop
  | mk {dir : Path} {fd0 fd1 fd2 : List Path} {t : Token} {ss ss' : List Stmt} {rs rs' : Option (List Expr)} {c : Bool} :
      InlStmtsF fs sp dir fd0 ss ss' fd1 → InlOptExprsF fs sp dir fd1 rs rs' fd2 →
      InlBlockF fs sp dir fd0 (.mk t ss rs c) (.mk t ss' rs' c) fd2
end

end Tumfl.Theory
