import Tumfl.Theory.UnlexEnd
import Tumfl.Theory.TriviaRef
/-!
# Unlex, part 1: one layout item at a time

* a robust spelling at the very end of the text (`ReadsAs.end_`), followed by anything that does not glue (`ReadsAs.step`);
* skipping a white-space run (`lexLoop_ws`);
* skipping a short comment up to its newline or the end of the text (`lexLoop_short`);
* skipping a long comment (`lexLoop_long_comment`);
* `comText`: the text of a comment as the reference lexer records it.
-/
namespace Tumfl.Theory
open Tumfl Tumfl.Spec Tumfl.Model

/-! ## what follows a token -/

/-- a follower that never asks for a separator: not a word character, not `-`, `.`, `=`, `[` -/
def Inert (d : Char) : Prop :=
  isAlnum d = false ∧ d ≠ '-' ∧ d ≠ '.' ∧ d ≠ '=' ∧ d ≠ '[' ∧ d ≠ '<' ∧ d ≠ '>' ∧ d ≠ '/' ∧ d ≠ ':'

theorem sepBool_inert (l d f0 : Char) (h : Inert d) : sepBool l d f0 = false := by
  obtain ⟨h1, h2, h3, h4, h5, _⟩ := h
  simp only [sepBool, wordChars_contains, h1, Bool.and_false,
    show (d == '-') = false by simpa using h2, show (d == '.') = false by simpa using h3,
    show (d == '=') = false by simpa using h4, show (d == '[') = false by simpa using h5, Bool.false_and, Bool.or_self]

theorem sepRequired_inert (a : List Char) (hne : a ≠ []) (d : Char) (t : List Char) (h : Inert d) :
    sepRequired a (d :: t) = .ok false := by
  rw [sepRequired_eq a (d :: t) hne (by simp)]
  exact congrArg _ (sepBool_inert _ _ _ h)

theorem fuses_inert (a : List Char) (d : Char) (h : Inert d) : fuses a d = false := by
  obtain ⟨h0, _, _, _, _, h6, h7, h8, h9⟩ := h
  have hd : isDigit d = false := (not_alnum_facts d h0).2.1
  unfold fuses
  split
  · simp only [show (d == '<') = false by simpa using h6, show (d == '>') = false by simpa using h7,
      show (d == '/') = false by simpa using h8, show (d == ':') = false by simpa using h9, hd, Bool.and_false,
      Bool.or_self]
  · rfl

theorem inert_blank : Inert ' ' := by unfold Inert; decide

theorem isSpace_of_layout {c : Char} (h : isLayoutSpace c = true) : isSpace c = true := by
  simp only [isLayoutSpace, Bool.or_eq_true, beq_iff_eq] at h
  rcases h with (rfl | rfl) | rfl <;> decide

theorem inert_of_layout {c : Char} (h : isLayoutSpace c = true) : Inert c := by
  simp only [isLayoutSpace, Bool.or_eq_true, beq_iff_eq] at h
  rcases h with (rfl | rfl) | rfl <;> (unfold Inert; decide)

/-- a robust spelling is read, whatever inert character follows -/
theorem ReadsAs.inert {a : List Char} {tk : Tk} (h : ReadsAs a tk) (d : Char) (t : List Char) (hd : Inert d) :
    lexOne (a ++ d :: t) = some (tk, d :: t) := by
  have := h.2.2 (d :: t) [] (sepRequired_inert a h.1 d t hd)
    (fun d' t' e => by cases e; exact fuses_inert a d hd)
  simpa using this

/-- **a robust spelling is read at the very end of the text** -/
theorem ReadsAs.end_ {a : List Char} {tk : Tk} (h : ReadsAs a tk) : lexOne a = some (tk, []) :=
  lexOne_end a tk (h.inert ' ' [] inert_blank)

/-- one token of the reference loop: `a` followed by `b` (empty, or not gluing to `a`) -/
theorem ReadsAs.step {a : List Char} {tk : Tk} (h : ReadsAs a tk) (b : List Char)
    (hs : sepRequired a b = .ok false ∨ b = []) (hf : ∀ d t, b = d :: t → fuses a d = false)
    (n f : Nat) (cm : List (List Char)) :
    lexLoop n (f + 1) (a ++ b) cm =
      (lexLoop n f b []).map fun ts => { tk := tk, off := n - (a ++ b).length, comments := cm.reverse } :: ts := by
  have h1 : lexOne (a ++ b) = some (tk, b) := by
    rcases hs with hs | rfl
    · have := h.2.2 b [] hs hf
      simpa using this
    · rw [List.append_nil]; exact h.end_
  cases hc : a ++ b with
  | nil => rw [hc] at h1; unfold lexOne at h1; cases h1
  | cons c cs =>
    rw [hc] at h1
    exact lexLoop_lexOne n f c cs cm tk b h1

/-! ## white space -/

theorem lexLoop_ws (n : Nat) (rest : List Char) : ∀ (w : List Char), (∀ c ∈ w, isSpace c = true) →
    ∀ (f : Nat) (cm : List (List Char)), lexLoop n (f + w.length) (w ++ rest) cm = lexLoop n f rest cm
  | [], _, f, cm => rfl
  | c :: w, h, f, cm => by
    rw [List.length_cons, ← Nat.add_assoc, List.cons_append, lexLoop_space n _ (h c (by simp))]
    exact lexLoop_ws n rest w (fun d hd => h d (by simp [hd])) f cm

/-! ## comments -/

/-- the text of a comment `--...` as the reference lexer records it: the body of a short comment, the raw content of
a long one (including a newline directly after the opener) -/
def comText (c : List Char) : List Char :=
  match refComment (c.drop 2) with
  | some (b, _) => b
  | none => []

theorem untilNewline_body : ∀ (body : List Char), '\n' ∉ body → ∀ rest, (rest = [] ∨ ∃ t, rest = '\n' :: t) →
    untilNewline (body ++ rest) = (body, rest)
  | [], _, rest, hr => by
    rcases hr with rfl | ⟨t, rfl⟩
    · exact untilNewline_nil
    · exact untilNewline_nl t
  | c :: body, h, rest, hr => by
    have hc : c ≠ '\n' := fun e => h (by simp [e])
    rw [List.cons_append, untilNewline_cons hc, untilNewline_body body (fun hm => h (by simp [hm])) rest hr]

theorem countEq_head_append : ∀ (b rest : List Char), (countEq b).2.head? ≠ some '[' → rest.head? ≠ some '[' →
    rest.head? ≠ some '=' → (countEq (b ++ rest)).2.head? ≠ some '['
  | [], rest, _, h2, h3 => by
    cases rest with
    | nil => rw [List.nil_append, countEq_nil]; simp
    | cons d t =>
      have : d ≠ '=' := fun e => h3 (by simp [e])
      rw [List.nil_append, countEq_cons_ne this]
      exact h2
  | c :: b, rest, h1, h2, h3 => by
    by_cases hc : c = '='
    · subst hc
      rw [List.cons_append, countEq_cons_eq]
      rw [countEq_cons_eq] at h1
      exact countEq_head_append b rest h1 h2 h3
    · rw [List.cons_append, countEq_cons_ne hc]
      rw [countEq_cons_ne hc] at h1
      exact h1

theorem longOpener_append_none' (body rest : List Char) (h : longOpener body = none)
    (h2 : rest.head? ≠ some '[') (h3 : rest.head? ≠ some '=') : longOpener (body ++ rest) = none := by
  cases body with
  | nil =>
    cases rest with
    | nil => exact longOpener_nil
    | cons d t => exact longOpener_ne (fun e => h2 (by simp [e])) _
  | cons c b =>
    by_cases hc : c = '['
    · subst hc
      rw [List.cons_append, longOpener_none_iff]
      rw [longOpener_none_iff] at h
      exact countEq_head_append b rest h h2 h3
    · exact longOpener_ne hc _

theorem longOpener_append_none (body rest : List Char) (h : longOpener body = none)
    (hr : rest = [] ∨ ∃ t, rest = '\n' :: t) : longOpener (body ++ rest) = none :=
  longOpener_append_none' body rest h (by rcases hr with rfl | ⟨t, rfl⟩ <;> simp)
    (by rcases hr with rfl | ⟨t, rfl⟩ <;> simp)

/-- the comment branch on a short comment followed by a newline or the end of the text -/
theorem refComment_short (body rest : List Char) (hnl : '\n' ∉ body) (ho : longOpener body = none)
    (hr : rest = [] ∨ ∃ t, rest = '\n' :: t) : refComment (body ++ rest) = some (body, rest) := by
  unfold refComment
  rw [longOpener_append_none body rest ho hr]
  simp only [untilNewline_body body hnl rest hr]

theorem comText_short (body : List Char) (hnl : '\n' ∉ body) (ho : longOpener body = none) :
    comText ('-' :: '-' :: body) = body := by
  have := refComment_short body [] hnl ho (Or.inl rfl)
  rw [List.append_nil] at this
  simp only [comText, List.drop_succ_cons, List.drop_zero, this]

/-- where `longBody` succeeds, the text is the body, the closer, the rest -/
theorem longBody_split (lvl : Nat) : ∀ (t b r : List Char), longBody lvl t = some (b, r) → t = b ++ closer lvl ++ r
  | [], b, r, h => by rw [spec_longBody_nil] at h; cases h
  | c :: cs, b, r, h => by
    have step : ∀ x, (longBody lvl cs).map (pre [x]) = some (b, r) → x :: cs = b ++ closer lvl ++ r := by
      intro x h
      cases hb : longBody lvl cs with
      | none => rw [hb] at h; cases h
      | some p =>
        rw [hb] at h
        simp only [Option.map_some, pre, Option.some.injEq, Prod.mk.injEq] at h
        obtain ⟨rfl, rfl⟩ := h
        rw [longBody_split lvl cs p.1 p.2 hb]
        simp
    by_cases hc : c = ']'
    · subst hc
      rw [spec_longBody_rb] at h
      cases hca : closesAt lvl cs with
      | some r' =>
        rw [hca] at h
        simp only [Option.some.injEq, Prod.mk.injEq] at h
        obtain ⟨rfl, rfl⟩ := h
        rw [closesAt_some lvl cs _ hca]
        simp [closer]
      | none =>
        rw [hca] at h
        exact step _ h
    · rw [spec_longBody_cons_ne lvl hc] at h
      exact step _ h

/-- a long literal `[=*[ content ]=*]`, read as a comment: the raw content, whatever follows -/
theorem refComment_long (lit v : List Char) (h : IsLongLit lit v) :
    ∃ lvl content, lit = '[' :: repeatChar '=' lvl ++ '[' :: content ++ closer lvl ∧ dropFirstNewline content = v ∧
      ∀ rest, refComment (lit ++ rest) = some (content, rest) := by
  obtain ⟨lvl, content, rfl, hb⟩ := h
  have key : ∀ rest, longBody lvl (content ++ closer lvl ++ rest) = some (content, rest) ∧ dropFirstNewline content = v := by
    intro rest
    have := hb rest
    rw [spec_longBody_dropNL] at this
    cases hl : longBody lvl (content ++ closer lvl ++ rest) with
    | none => rw [hl] at this; cases this
    | some p =>
      obtain ⟨b, r⟩ := p
      rw [hl] at this
      simp only [Option.map_some, Option.some.injEq, Prod.mk.injEq] at this
      obtain ⟨h2, rfl⟩ := this
      have hs := longBody_split lvl _ _ _ hl
      have h3 : content ++ (closer lvl ++ r) = b ++ (closer lvl ++ r) := by simpa using hs
      have hbc : content = b := List.append_cancel_right h3
      subst hbc
      exact ⟨rfl, h2⟩
  refine ⟨lvl, content, rfl, (key []).2, ?_⟩
  intro rest
  have e : '[' :: repeatChar '=' lvl ++ '[' :: content ++ closer lvl ++ rest =
      '[' :: repeatChar '=' lvl ++ '[' :: (content ++ closer lvl ++ rest) := by simp
  unfold refComment
  rw [e, longOpener_written]
  exact (key rest).1

theorem comText_long (lit v : List Char) (h : IsLongLit lit v) :
    ∃ lvl content, lit = '[' :: repeatChar '=' lvl ++ '[' :: content ++ closer lvl ∧
      comText ('-' :: '-' :: lit) = content ∧ dropFirstNewline content = v ∧
      ∀ rest, refComment (lit ++ rest) = some (content, rest) := by
  obtain ⟨lvl, content, h1, h2, h3⟩ := refComment_long lit v h
  refine ⟨lvl, content, h1, ?_, h2, h3⟩
  have := h3 []
  rw [List.append_nil] at this
  simp only [comText, List.drop_succ_cons, List.drop_zero, this]

end Tumfl.Theory
