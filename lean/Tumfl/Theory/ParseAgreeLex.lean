import Tumfl.Theory.ParseAgreeBridge
/-!
# Lexer-side facts for the concrete bridge

* `lexAll_any_fuel` : `lexAll` is insensitive to the amount of fuel once it exceeds the remaining length.
* `getNextToken_at_end` : at the end of the text `get_next_token` delivers `EOF` (again and again).
* `nf_of_lexAll` : if `lexAll` succeeds from `l`, the lexer never fails from `l` on.
* `inStep_of_lexAll` : a reference list related (`Fa2`) to the model's `lexAll` list is in step with every read sequence.
* `exists_inStep` : from any state of a `lexText` run on a text without carriage returns there is a reference token list
  in step with everything the model lexer delivers (as far as it gets: the model lexer may fail later).
-/
namespace Tumfl.Theory
open Tumfl.Model Tumfl.Spec

/-! ## fuel -/

theorem lexAll_any_fuel (cfg : LexCfg) : ∀ (F : Nat) (l : LexSt) (mts : List Token), lexAll cfg F l = .ok mts →
    ∀ G, l.rest.length < G → lexAll cfg G l = .ok mts
  | 0, l, mts, h => by rw [lexAll] at h; cases h
  | F + 1, l, mts, h => by
    intro G hG
    obtain ⟨G', rfl⟩ : ∃ G', G = G' + 1 := ⟨G - 1, by omega⟩
    rw [lexAll] at h ⊢
    split at h
    · cases h
    · rename_i t l1 heq
      by_cases ht : t.type = .EOF
      · simpa [ht] using h
      · have hb : (t.type == TT.EOF) = false := by simpa using ht
        simp only [hb, Bool.false_eq_true, if_false] at h ⊢
        cases hr : lexAll cfg F l1 with
        | error e => rw [hr] at h; cases h
        | ok r =>
          have hlt := getNextToken_progress heq ht
          rw [lexAll_any_fuel cfg F l1 r hr G' (by omega)]
          rw [hr] at h
          exact h

/-! ## the end of the text -/

theorem getNextToken_at_end (cfg : LexCfg) {l : LexSt} (h : l.rest = []) : ∃ t l1, getNextToken cfg l = .ok (t, l1) := by
  have hc : l.cur = none := by simp [LexSt.cur, h]
  unfold getNextToken
  simp only [hc]
  have : (l.line == 0 && l.col == 0 && (none : Option Char) == some '#') = false := by simp
  simp only [this, Bool.false_eq_true, if_false]
  rw [nextTokenLoop, hc]
  exact ⟨_, _, rfl⟩

theorem nf_of_end {cfg : LexCfg} {l : LexSt} (h : l.rest = []) : NF cfg l := by
  intro toks l' hr
  induction hr with
  | nil l => exact getNextToken_at_end cfg h
  | cons hg _ ih =>
    apply ih
    have := getNextToken_len_le hg
    rw [h] at this
    exact List.length_eq_zero_iff.mp (Nat.le_zero.mp this)

theorem nf_of_lexAll {cfg : LexCfg} : ∀ (F : Nat) (l : LexSt) (mts : List Token), lexAll cfg F l = .ok mts → NF cfg l
  | 0, l, mts, h => by rw [lexAll] at h; cases h
  | F + 1, l, mts, h => by
    rw [lexAll] at h
    split at h
    · cases h
    · rename_i t l1 heq
      intro toks l' hr
      cases hr with
      | nil => exact ⟨_, _, heq⟩
      | cons hg hr' =>
        rw [heq] at hg
        cases hg
        by_cases ht : t.type = .EOF
        · exact nf_of_end (getNextToken_eof heq ht) _ _ hr'
        · have hb : (t.type == TT.EOF) = false := by simpa using ht
          simp only [hb, Bool.false_eq_true, if_false] at h
          cases hr1 : lexAll cfg F l1 with
          | error e => rw [hr1] at h; cases h
          | ok r => exact nf_of_lexAll F l1 r hr1 _ _ hr'

/-! ## in step with a related reference list -/

theorem tkRel_eof_iff {t : Token} {k : Tk} (hk : TkRel t k) : t.type = .EOF ↔ k = .eof :=
  hk.type_iff (ty := .EOF) (k0 := .eof) (tkOfTT_eof.2 rfl)

theorem inStep_of_lexAll {cfg : LexCfg} : ∀ (toks : List Token) (F : Nat) (l l' : LexSt) (mts : List Token) (ts : List Tok),
    lexAll cfg F l = .ok mts → Fa2 (fun m x => TkRel m x.tk) mts ts → Reads cfg l toks l' → InStep toks ts
  | [], _, _, _, _, _, _, _, _ => trivial
  | t :: toks, 0, l, _, _, _, h, _, _ => by rw [lexAll] at h; cases h
  | t :: toks, F + 1, l, l', mts, ts, h, hfa, hr => by
    obtain ⟨l1, hg, hr'⟩ := hr.cons_inv
    rw [lexAll, hg] at h
    dsimp only at h
    by_cases ht : t.type = .EOF
    · simp only [ht, beq_self_eq_true, if_true] at h
      cases h
      cases hfa with
      | cons hrel hrest =>
        rename_i x xs
        have hx : x.tk = .eof := (tkRel_eof_iff hrel).1 ht
        exact ⟨hrel, fun hne => absurd hx hne⟩
    · have hb : (t.type == TT.EOF) = false := by simpa using ht
      simp only [hb, Bool.false_eq_true, if_false] at h
      cases hr1 : lexAll cfg F l1 with
      | error e => rw [hr1] at h; cases h
      | ok r =>
        rw [hr1] at h
        cases h
        cases hfa with
        | cons hrel hrest =>
          exact ⟨hrel, fun _ => inStep_of_lexAll toks F l1 l' r _ hr1 hrest hr'⟩

/-! ## a reference list for a possibly failing lexer run -/

theorem noCR_tail {r : List Char} (h : NoCR r) : NoCR r.tail := fun hm => h (List.mem_of_mem_tail hm)

theorem stable_noCR : Stable (fun s : LexSt => NoCR s.rest) where
  adv := by
    intro s hs
    unfold advance
    split
    · exact hs
    · rename_i c r hr
      rw [hr] at hs
      have : NoCR r := noCR_tail hs
      split
      · exact this
      · split <;> exact this
  com := fun _ _ hs => hs

theorem stable_and {P Q : LexSt → Prop} (hP : Stable P) (hQ : Stable Q) : Stable (fun s => P s ∧ Q s) where
  adv := fun s h => ⟨hP.adv s h.1, hQ.adv s h.2⟩
  com := fun s cs h => ⟨hP.com s cs h.1, hQ.com s cs h.2⟩

/-- the invariant of the states of a `lexText` run on `t`, together with `NoCR` of the remaining text -/
def RunInv (t : List Char) (s : LexSt) : Prop := PastShebang t s ∧ NoCR s.rest

theorem stable_runInv (t : List Char) : Stable (RunInv t) := stable_and (stable_pastShebang t) stable_noCR

theorem runInv_initLex {t : List Char} (hcr : NoCR t) : RunInv t (startSt (initLex t)) :=
  ⟨pastShebang_initLex t, by rw [startSt_initLex_rest]; exact noCR_suffix (skipShebang_suffix t) hcr⟩

/-- `getNextToken_sound` from the state after the shebang test: every delivered token has a related reference token -/
theorem getNextToken_rel (cfg : LexCfg) (hty : cfg.typed = false) (hiu : cfg.ignoreUnicode = false)
    {s : LexSt} {tok : Token} {s' : LexSt} (h : getNextToken cfg s = .ok (tok, s'))
    (hcr : NoCR (startSt s).rest) : ∃ tk, TkRel tok tk := by
  obtain ⟨cms, s0, h1, h2, _, h4⟩ := getNextToken_trivia h
  have hsuf := (triviaOf_spec _ _ (Nat.lt_succ_self _) _ _ h1).2
  rcases h4 with ⟨h0, rfl, rfl⟩ | ⟨c, cs, h0, hsc⟩
  · exact ⟨.eof, rfl⟩
  · obtain ⟨tk, _, e2⟩ := scanToken_sound cfg hty hiu s0 c cs h0 h2 (noCR_suffix hsuf hcr) tok s' hsc
    exact ⟨tk, e2⟩

theorem exists_inStep (t : List Char) (cfg : LexCfg) (hty : cfg.typed = false) (hiu : cfg.ignoreUnicode = false) :
    ∀ (n : Nat) (l : LexSt), l.rest.length < n → RunInv t (startSt l) →
      ∃ ts : List Tok, ∀ toks l', Reads cfg l toks l' → InStep toks ts
  | 0, _, h, _ => by omega
  | n + 1, l, hn, hq => by
    cases hg : getNextToken cfg l with
    | error e =>
      refine ⟨[], fun toks l' hr => ?_⟩
      cases hr with
      | nil => trivial
      | cons hg' _ => rw [hg] at hg'; cases hg'
    | ok r =>
      obtain ⟨tok, l1⟩ := r
      obtain ⟨tk, hrel⟩ := getNextToken_rel cfg hty hiu hg hq.2
      by_cases ht : tok.type = .EOF
      · refine ⟨[], fun toks l' hr => ?_⟩
        cases hr with
        | nil => trivial
        | cons hg' _ =>
          rw [hg] at hg'
          cases hg'
          exact ⟨ht, fun hne => absurd rfl hne⟩
      · have hq1 : RunInv t l1 := by
          have := hg
          rw [getNextToken_eq] at this
          exact (nextTokenLoop_core (stable_runInv t) _ _ _ _ hq this).1
        have hs1 : startSt l1 = l1 := pastShebang_startSt hq1.1
        have hlt := getNextToken_progress hg ht
        obtain ⟨ts1, h1⟩ := exists_inStep t cfg hty hiu n l1 (by omega) (by rw [hs1]; exact hq1)
        refine ⟨⟨tk, 0, []⟩ :: ts1, fun toks l' hr => ?_⟩
        cases hr with
        | nil => trivial
        | cons hg' hr' =>
          rw [hg] at hg'
          cases hg'
          exact ⟨hrel, fun _ => h1 _ _ hr'⟩

end Tumfl.Theory
