import Tumfl.Theory.ParserSim
import Tumfl.Theory.LexBridge
/-!
# The concrete bridge between the model parser state (two buffered tokens and a lazy lexer) and the reference token list

* `Reads cfg l toks l'` : calling `get_next_token` repeatedly from lexer state `l` delivers `toks` and ends in `l'`.
* `InStep seq ts` : the model token sequence `seq` is related, token by token, to the reference list `ts`, as far as
  `seq` goes and up to (and including) the first end of input of `ts` (`pk [] = .eof`; after its `EOF` token the model
  lexer keeps delivering `EOF` tokens - nothing is required of those).
* `InStepAll s ts` : whatever the parser's lazy lexer will deliver from now on, preceded by the two buffered tokens,
  is in step with `ts`.
* `mkBridge X` : the `Bridge` with `Feeds s ts := InStepAll s ts ∧ X s` for a side condition `X` on parser states that
  is kept by `_eat_token` and does not mention the hint stack (`Side X`).
* `lexBridge := mkBridge NeverFails` (`NeverFails s` : the lazy lexer of `s` delivers a token whenever it is asked,
  now and after any number of tokens): this bridge is `Complete`.
* `doneBridge P := mkBridge (WhenDone P)` (`WhenDone P s` : if the end of the text has been or can be reached by the
  lexer from `s`, then `P`): used to show that a successful parse has lexed the whole text.
-/
namespace Tumfl.Theory
open Tumfl.Model Tumfl.Spec

/-- repeated `get_next_token` -/
inductive Reads (cfg : LexCfg) : LexSt → List Token → LexSt → Prop
  | nil (l : LexSt) : Reads cfg l [] l
  | cons {l l1 l' : LexSt} {t : Token} {toks : List Token} :
      getNextToken cfg l = .ok (t, l1) → Reads cfg l1 toks l' → Reads cfg l (t :: toks) l'

theorem Reads.nil_inv {cfg : LexCfg} {l l' : LexSt} (h : Reads cfg l [] l') : l' = l := by
  cases h; rfl

theorem Reads.cons_inv {cfg : LexCfg} {l l' : LexSt} {t : Token} {toks : List Token} (h : Reads cfg l (t :: toks) l') :
    ∃ l1, getNextToken cfg l = .ok (t, l1) ∧ Reads cfg l1 toks l' := by
  cases h with
  | cons h1 h2 => exact ⟨_, h1, h2⟩

/-- the model token sequence is in step with the reference token list (up to the first end of input of the latter) -/
def InStep : List Token → List Tok → Prop
  | [], _ => True
  | m :: ms, ts => TkRel m (pk ts) ∧ (pk ts ≠ .eof → InStep ms ts.tail)

theorem InStep.head {m : Token} {ms : List Token} {ts : List Tok} (h : InStep (m :: ms) ts) : TkRel m (pk ts) := h.1

theorem InStep.tail {m : Token} {ms : List Token} {ts : List Tok} (h : InStep (m :: ms) ts) (hne : pk ts ≠ .eof) :
    InStep ms ts.tail := h.2 hne

/-- the parser state's token window and lazy lexer are in step with the reference token list -/
def InStepAll (s : PSt) (ts : List Tok) : Prop :=
  ∀ toks l', Reads s.cfg s.lex toks l' → InStep (s.cur :: s.nxt :: toks) ts

/-- a side condition on parser states that `_eat_token` keeps and that ignores the hint stack -/
structure Side (X : PSt → Prop) : Prop where
  eat : ∀ {s s' : PSt}, X s → eatRaw s = .ok ((), s') → X s'
  hints : ∀ {s : PSt} (h : List Hint), X s → X { s with hints := h }

theorem eatRaw_ok {s s' : PSt} (h : eatRaw s = .ok ((), s')) :
    ∃ t lx, getNextToken s.cfg s.lex = .ok (t, lx) ∧ s' = { s with cur := s.nxt, nxt := t, lex := lx } := by
  unfold eatRaw at h
  split at h
  · cases h
  · rename_i t lx heq
    cases h
    exact ⟨t, lx, heq, rfl⟩

theorem eatRaw_of_ok {s : PSt} {t : Token} {lx : LexSt} (h : getNextToken s.cfg s.lex = .ok (t, lx)) :
    eatRaw s = .ok ((), { s with cur := s.nxt, nxt := t, lex := lx }) := by
  unfold eatRaw
  rw [h]

theorem InStepAll.eat {s s' : PSt} {ts : List Tok} (hf : InStepAll s ts) (hne : pk ts ≠ .eof)
    (h : eatRaw s = .ok ((), s')) : InStepAll s' ts.tail := by
  obtain ⟨t, lx, hg, rfl⟩ := eatRaw_ok h
  intro toks l' hr
  exact (hf (t :: toks) l' (.cons hg hr)).tail hne

/-- the bridge with side condition `X` -/
def mkBridge (X : PSt → Prop) (hX : Side X) : Bridge where
  Feeds s ts := InStepAll s ts ∧ X s
  cur := fun hf => (hf.1 [] _ (.nil _)).head
  nxt := fun hf hne => ((hf.1 [] _ (.nil _)).tail hne).head
  eat_sound := fun hf hne h => ⟨hf.1.eat hne h, hX.eat hf.2 h⟩
  hints := fun h hf => ⟨hf.1, hX.hints h hf.2⟩

/-! ## `NeverFails`: the side condition for completeness -/

/-- from `l` on the lexer always delivers a token -/
def NF (cfg : LexCfg) (l : LexSt) : Prop :=
  ∀ toks l', Reads cfg l toks l' → ∃ t l'', getNextToken cfg l' = .ok (t, l'')

theorem NF.now {cfg : LexCfg} {l : LexSt} (h : NF cfg l) : ∃ t l1, getNextToken cfg l = .ok (t, l1) := h [] l (.nil _)

theorem NF.step {cfg : LexCfg} {l l1 : LexSt} {t : Token} (h : NF cfg l) (hg : getNextToken cfg l = .ok (t, l1)) :
    NF cfg l1 := fun toks l' hr => h (t :: toks) l' (.cons hg hr)

def NeverFails (s : PSt) : Prop := NF s.cfg s.lex

theorem side_neverFails : Side NeverFails where
  eat := by
    intro s s' hx h
    obtain ⟨t, lx, hg, rfl⟩ := eatRaw_ok h
    exact NF.step hx hg
  hints := fun _ hx => hx

/-- **the concrete bridge**: the token window and the lazy lexer are in step with the reference token list, and the
lazy lexer never fails -/
def lexBridge : Bridge := mkBridge NeverFails side_neverFails

theorem lexBridge_feeds {s : PSt} {ts : List Tok} : lexBridge.Feeds s ts ↔ InStepAll s ts ∧ NeverFails s := Iff.rfl

theorem lexBridge_complete : lexBridge.Complete where
  eat := by
    intro s ts hf _
    obtain ⟨t, lx, hg⟩ := NF.now hf.2
    exact ⟨_, eatRaw_of_ok hg⟩

/-! ## `WhenDone P`: the side condition for "a successful parse has lexed the whole text" -/

/-- the lexer has reached, or can reach, the end of the text -/
def LexDone (s : PSt) : Prop :=
  s.cur.type = .EOF ∨ s.nxt.type = .EOF ∨ ∃ F ml, lexAll s.cfg F s.lex = .ok ml

def WhenDone (P : Prop) (s : PSt) : Prop := LexDone s → P

theorem lexAll_of_step {cfg : LexCfg} {l l1 : LexSt} {t : Token} (hg : getNextToken cfg l = .ok (t, l1))
    (h : t.type = .EOF ∨ ∃ F ml, lexAll cfg F l1 = .ok ml) : ∃ F ml, lexAll cfg F l = .ok ml := by
  by_cases ht : t.type = .EOF
  · refine ⟨1, [t], ?_⟩
    rw [lexAll, hg]
    simp [ht]
  · rcases h with h | ⟨F, ml, h⟩
    · exact absurd h ht
    · refine ⟨F + 1, t :: ml, ?_⟩
      have hb : (t.type == TT.EOF) = false := by simpa using ht
      rw [lexAll, hg]
      simp only [hb, Bool.false_eq_true, if_false, h]
      rfl

theorem side_whenDone (P : Prop) : Side (WhenDone P) where
  eat := by
    intro s s' hx h hd
    obtain ⟨t, lx, hg, rfl⟩ := eatRaw_ok h
    apply hx
    rcases hd with hd | hd | hd
    · exact Or.inr (Or.inl hd)
    · exact Or.inr (Or.inr (lexAll_of_step hg (Or.inl hd)))
    · exact Or.inr (Or.inr (lexAll_of_step hg (Or.inr hd)))
  hints := fun _ hx => hx

def doneBridge (P : Prop) : Bridge := mkBridge (WhenDone P) (side_whenDone P)

end Tumfl.Theory
