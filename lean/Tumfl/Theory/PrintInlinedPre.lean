import Tumfl.Theory.PrintInlinedBase
/-!
# Pre-printable trees: `Printable` except for inlined chunks

`qBlock r b`: the conditions of `pBlock` (`PrintSimDefs.lean`), except that a statement `Stmt.block c` may be a chunk.  With
`r = true` a chunk in statement position must not have a return list (finding K4: the `return` would end up in the middle of
the enclosing statement list); with `r = false` it may (what the resolver guarantees unconditionally).

`pBlock_fcBlock`: `qBlock true b → pBlock (flattenChunks b)`.
-/
namespace Tumfl.Theory
open Tumfl.Model

mutual
def qExpr (r : Bool) : Expr → Bool
  | .nil _ | .bool _ _ | .vararg _ | .string _ _ => true
  | .number _ n => numOKp n
  | .func _ ps body => paramsOK ps && qBlock r body
  | .table _ fs => qFields r fs
  | .binop _ _ l rr => qExpr r l && qExpr r rr
  | .unop _ _ e => qExpr r e
  | .name _ n => identOK n
  | .index _ l k => qExpr r l && qExpr r k
  | .namedIndex _ l nm => qExpr r l && nameNodeOK nm
  | .call _ f args => qExpr r f && qArgs r args
  | .method _ f m args => qExpr r f && nameNodeOK m && qArgs r args

def qArgs (r : Bool) : List Expr → Bool
  | [] => true
  | e :: rest => qExpr r e && qArgs r rest

def qFields (r : Bool) : List Field → Bool
  | [] => true
  | f :: rest => qField r f && qFields r rest

def qField (r : Bool) : Field → Bool
  | .explicit _ k v => qExpr r k && qExpr r v
  | .named _ n v => nameNodeOK n && qExpr r v
  | .numbered _ v => qExpr r v

def qBlock (r : Bool) : Block → Bool
  | .mk _ stmts (some es) _ => qStmts r stmts && qArgs r es
  | .mk _ stmts none _ => qStmts r stmts

def qStmts (r : Bool) : List Stmt → Bool
  | [] => true
  | s :: rest => qStmt r s && qStmts r rest

def qStmt (r : Bool) : Stmt → Bool
  | .assign _ ts es => !ts.isEmpty && ts.all isTargetShape && qArgs r ts && !es.isEmpty && qArgs r es
  | .block b => qSB r b
  | .brk _ => true
  | .call _ f args => qExpr r f && qArgs r args
  | .funcDef _ names (some mn) ps body =>
    !names.isEmpty && names.all nameNodeOK && nameNodeOK mn && paramsOK ps && qBlock r body
  | .funcDef _ names none ps body => !names.isEmpty && names.all nameNodeOK && paramsOK ps && qBlock r body
  | .goto _ l => nameNodeOK l
  | .label _ n => nameNodeOK n
  | .iff _ test tr fl => qExpr r test && !tr.isChunk && qBlock r tr && qFalse r fl
  | .iterFor _ ns es body => !ns.isEmpty && ns.all nameNodeOK && !es.isEmpty && qArgs r es && !body.isChunk && qBlock r body
  | .localAssign _ names (some (e :: rest)) => !names.isEmpty && names.all attOK && qArgs r (e :: rest)
  | .localAssign _ _ (some []) => false
  | .localAssign _ names none => !names.isEmpty && names.all attOK
  | .localFunc _ n ps body => nameNodeOK n && paramsOK ps && qBlock r body
  | .method _ f m args => qExpr r f && nameNodeOK m && qArgs r args
  | .numFor _ v a b (some s) body =>
    nameNodeOK v && qExpr r a && qExpr r b && qExpr r s && !body.isChunk && qBlock r body
  | .numFor _ v a b none body => nameNodeOK v && qExpr r a && qExpr r b && !body.isChunk && qBlock r body
  | .repeat _ c body => !body.isChunk && qBlock r body && qExpr r c
  | .semi _ => true
  | .whl _ c body => qExpr r c && !body.isChunk && qBlock r body

/-- the statement `Stmt.block b`: a `do` block or an inlined chunk -/
def qSB (r : Bool) : Block → Bool
  | .mk _ stmts none _ => qStmts r stmts
  | .mk _ stmts (some es) c => (!c || !r) && qStmts r stmts && qArgs r es

def qFalse (r : Bool) : IfFalse → Bool
  | .none => true
  | .block b => !b.isChunk && qBlock r b
  | .elif _ test tr fl => qExpr r test && !tr.isChunk && qBlock r tr && qFalse r fl
end

/-! ## Shape facts of the flattening -/

theorem fcArgs_eq_map (es : List Expr) : fcArgs es = es.map fcExpr := by
  induction es with
  | nil => simp [fcArgs]
  | cons e rest ih => simp [fcArgs, ih]

theorem isTargetShape_fcExpr (e : Expr) : isTargetShape (fcExpr e) = isTargetShape e := by
  cases e <;> simp [fcExpr, isTargetShape]

theorem all_isTargetShape_fcArgs (es : List Expr) : (fcArgs es).all isTargetShape = es.all isTargetShape := by
  induction es with
  | nil => simp [fcArgs]
  | cons e rest ih => simp [fcArgs, ih, isTargetShape_fcExpr]

theorem isEmpty_fcArgs (es : List Expr) : (fcArgs es).isEmpty = es.isEmpty := by
  cases es <;> simp [fcArgs]

theorem pStmt_addComment (cm : List (List Char)) (s : Stmt) : pStmt (addComment cm s) = pStmt s := by
  cases s with
  | block b => obtain ⟨t, ss, rs, c⟩ := b; cases rs <;> simp [addComment, pStmt, pBlock, Block.isChunk]
  | _ => rfl

theorem pStmts_addCommentHead (cm : List (List Char)) (ss : List Stmt) : pStmts (addCommentHead cm ss) = pStmts ss := by
  cases ss with
  | nil => rfl
  | cons s rest => simp [addCommentHead, pStmts, pStmt_addComment]

theorem pStmts_append (xs ys : List Stmt) : pStmts (xs ++ ys) = (pStmts xs && pStmts ys) := by
  induction xs with
  | nil => simp [pStmts]
  | cons x xs ih => simp [pStmts, ih, Bool.and_assoc]

theorem isChunk_fcBody (b : Block) : (fcBody b).isChunk = false := by
  obtain ⟨t, ss, rs, c⟩ := b; cases rs <;> simp [fcBody, Block.isChunk]

/-! ## The flattening of a pre-printable tree is printable -/

mutual
theorem p_fcExpr : (e : Expr) → qExpr true e = true → pExpr (fcExpr e) = true
  | .nil _, _ | .bool _ _, _ | .vararg _, _ | .string _ _, _ => by simp [fcExpr, pExpr]
  | .number _ n, h => by simpa [fcExpr, pExpr, qExpr] using h
  | .name _ n, h => by simpa [fcExpr, pExpr, qExpr] using h
  | .func _ ps body, h => by
    simp only [qExpr, Bool.and_eq_true] at h
    simp only [fcExpr, pExpr, Bool.and_eq_true]
    exact ⟨h.1, p_fcBody body h.2⟩
  | .table _ fs, h => by
    simp only [qExpr] at h
    simp only [fcExpr, pExpr]
    exact p_fcFields fs h
  | .binop _ _ l r, h => by
    simp only [qExpr, Bool.and_eq_true] at h
    simp only [fcExpr, pExpr, Bool.and_eq_true]
    exact ⟨p_fcExpr l h.1, p_fcExpr r h.2⟩
  | .unop _ _ e, h => by
    simp only [qExpr] at h
    simp only [fcExpr, pExpr]
    exact p_fcExpr e h
  | .index _ l k, h => by
    simp only [qExpr, Bool.and_eq_true] at h
    simp only [fcExpr, pExpr, Bool.and_eq_true]
    exact ⟨p_fcExpr l h.1, p_fcExpr k h.2⟩
  | .namedIndex _ l nm, h => by
    simp only [qExpr, Bool.and_eq_true] at h
    simp only [fcExpr, pExpr, Bool.and_eq_true]
    exact ⟨p_fcExpr l h.1, h.2⟩
  | .call _ f args, h => by
    simp only [qExpr, Bool.and_eq_true] at h
    simp only [fcExpr, pExpr, Bool.and_eq_true]
    exact ⟨p_fcExpr f h.1, p_fcArgs args h.2⟩
  | .method _ f m args, h => by
    simp only [qExpr, Bool.and_eq_true] at h
    simp only [fcExpr, pExpr, Bool.and_eq_true]
    exact ⟨⟨p_fcExpr f h.1.1, h.1.2⟩, p_fcArgs args h.2⟩

theorem p_fcArgs : (es : List Expr) → qArgs true es = true → pArgs (fcArgs es) = true
  | [], _ => by simp [fcArgs, pArgs]
  | e :: rest, h => by
    simp only [qArgs, Bool.and_eq_true] at h
    simp only [fcArgs, pArgs, Bool.and_eq_true]
    exact ⟨p_fcExpr e h.1, p_fcArgs rest h.2⟩

theorem p_fcFields : (fs : List Field) → qFields true fs = true → pFields (fcFields fs) = true
  | [], _ => by simp [fcFields, pFields]
  | f :: rest, h => by
    simp only [qFields, Bool.and_eq_true] at h
    simp only [fcFields, pFields, Bool.and_eq_true]
    exact ⟨p_fcField f h.1, p_fcFields rest h.2⟩

theorem p_fcField : (f : Field) → qField true f = true → pField (fcField f) = true
  | .explicit _ k v, h => by
    simp only [qField, Bool.and_eq_true] at h
    simp only [fcField, pField, Bool.and_eq_true]
    exact ⟨p_fcExpr k h.1, p_fcExpr v h.2⟩
  | .named _ n v, h => by
    simp only [qField, Bool.and_eq_true] at h
    simp only [fcField, pField, Bool.and_eq_true]
    exact ⟨h.1, p_fcExpr v h.2⟩
  | .numbered _ v, h => by
    simp only [qField] at h
    simp only [fcField, pField]
    exact p_fcExpr v h

theorem p_fcBody : (b : Block) → qBlock true b = true → pBlock (fcBody b) = true
  | .mk _ stmts none _, h => by
    simp only [qBlock] at h
    simp only [fcBody, pBlock, Bool.and_true]
    exact p_fcStmts stmts h
  | .mk _ stmts (some es) _, h => by
    simp only [qBlock, Bool.and_eq_true] at h
    simp only [fcBody, pBlock, Bool.and_eq_true]
    exact ⟨p_fcStmts stmts h.1, p_fcArgs es h.2⟩

theorem p_fcBlock : (b : Block) → qBlock true b = true → pBlock (fcBlock b) = true
  | .mk _ stmts none _, h => by
    simp only [qBlock] at h
    simp only [fcBlock, pBlock, Bool.and_true]
    exact p_fcStmts stmts h
  | .mk _ stmts (some es) _, h => by
    simp only [qBlock, Bool.and_eq_true] at h
    simp only [fcBlock, pBlock, Bool.and_eq_true]
    exact ⟨p_fcStmts stmts h.1, p_fcArgs es h.2⟩

theorem p_fcStmts : (ss : List Stmt) → qStmts true ss = true → pStmts (fcStmts ss) = true
  | [], _ => by simp [fcStmts, pStmts]
  | s :: rest, h => by
    simp only [qStmts, Bool.and_eq_true] at h
    rw [fcStmts, pStmts_append, Bool.and_eq_true]
    exact ⟨p_fcS s h.1, p_fcStmts rest h.2⟩

theorem p_fcS : (s : Stmt) → qStmt true s = true → pStmts (fcS s) = true
  | .assign _ ts es, h => by
    simp only [qStmt, Bool.and_eq_true] at h
    simp only [fcS, pStmts, pStmt, Bool.and_true, Bool.and_eq_true, isEmpty_fcArgs, all_isTargetShape_fcArgs]
    exact ⟨⟨⟨⟨h.1.1.1.1, h.1.1.1.2⟩, p_fcArgs ts h.1.1.2⟩, h.1.2⟩, p_fcArgs es h.2⟩
  | .block b, h => by
    simp only [qStmt] at h
    rw [fcS]
    exact p_fcSB b h
  | .brk _, _ | .semi _, _ => by simp [fcS, pStmts, pStmt]
  | .goto _ l, h | .label _ l, h => by
    simp only [qStmt] at h
    simp only [fcS, pStmts, pStmt, Bool.and_true]
    exact h
  | .call _ f args, h => by
    simp only [qStmt, Bool.and_eq_true] at h
    simp only [fcS, pStmts, pStmt, Bool.and_true, Bool.and_eq_true]
    exact ⟨p_fcExpr f h.1, p_fcArgs args h.2⟩
  | .funcDef _ names (some mn) ps body, h => by
    simp only [qStmt, Bool.and_eq_true] at h
    simp only [fcS, pStmts, pStmt, Bool.and_true, Bool.and_eq_true]
    exact ⟨⟨⟨h.1.1.1, h.1.1.2⟩, h.1.2⟩, p_fcBody body h.2⟩
  | .funcDef _ names none ps body, h => by
    simp only [qStmt, Bool.and_eq_true] at h
    simp only [fcS, pStmts, pStmt, Bool.and_true, Bool.and_eq_true]
    exact ⟨⟨h.1.1, h.1.2⟩, p_fcBody body h.2⟩
  | .iff _ test tr fl, h => by
    simp only [qStmt, Bool.and_eq_true] at h
    simp only [fcS, pStmts, pStmt, Bool.and_true, Bool.and_eq_true, isChunk_fcBlock]
    exact ⟨⟨⟨p_fcExpr test h.1.1.1, h.1.1.2⟩, p_fcBlock tr h.1.2⟩, p_fcFalse fl h.2⟩
  | .iterFor _ ns es body, h => by
    simp only [qStmt, Bool.and_eq_true] at h
    simp only [fcS, pStmts, pStmt, Bool.and_true, Bool.and_eq_true, isChunk_fcBlock, isEmpty_fcArgs]
    exact ⟨⟨⟨⟨⟨h.1.1.1.1.1, h.1.1.1.1.2⟩, h.1.1.1.2⟩, p_fcArgs es h.1.1.2⟩, h.1.2⟩, p_fcBlock body h.2⟩
  | .localAssign _ names (some (e :: rest)), h => by
    simp only [qStmt, Bool.and_eq_true] at h
    have := p_fcArgs (e :: rest) h.2
    simp only [fcArgs] at this
    simp only [fcS, fcArgs, pStmts, pStmt, Bool.and_true, Bool.and_eq_true]
    exact ⟨h.1, this⟩
  | .localAssign _ names (some []), h => by simp [qStmt] at h
  | .localAssign _ names none, h => by
    simp only [qStmt] at h
    simp only [fcS, pStmts, pStmt, Bool.and_true]
    exact h
  | .localFunc _ n ps body, h => by
    simp only [qStmt, Bool.and_eq_true] at h
    simp only [fcS, pStmts, pStmt, Bool.and_true, Bool.and_eq_true]
    exact ⟨h.1, p_fcBody body h.2⟩
  | .method _ f m args, h => by
    simp only [qStmt, Bool.and_eq_true] at h
    simp only [fcS, pStmts, pStmt, Bool.and_true, Bool.and_eq_true]
    exact ⟨⟨p_fcExpr f h.1.1, h.1.2⟩, p_fcArgs args h.2⟩
  | .numFor _ v a b (some s) body, h => by
    simp only [qStmt, Bool.and_eq_true] at h
    simp only [fcS, pStmts, pStmt, Bool.and_true, Bool.and_eq_true, isChunk_fcBlock]
    exact ⟨⟨⟨⟨⟨h.1.1.1.1.1, p_fcExpr a h.1.1.1.1.2⟩, p_fcExpr b h.1.1.1.2⟩, p_fcExpr s h.1.1.2⟩, h.1.2⟩, p_fcBlock body h.2⟩
  | .numFor _ v a b none body, h => by
    simp only [qStmt, Bool.and_eq_true] at h
    simp only [fcS, pStmts, pStmt, Bool.and_true, Bool.and_eq_true, isChunk_fcBlock]
    exact ⟨⟨⟨⟨h.1.1.1.1, p_fcExpr a h.1.1.1.2⟩, p_fcExpr b h.1.1.2⟩, h.1.2⟩, p_fcBlock body h.2⟩
  | .repeat _ c body, h => by
    simp only [qStmt, Bool.and_eq_true] at h
    simp only [fcS, pStmts, pStmt, Bool.and_true, Bool.and_eq_true, isChunk_fcBlock]
    exact ⟨⟨h.1.1, p_fcBlock body h.1.2⟩, p_fcExpr c h.2⟩
  | .whl _ c body, h => by
    simp only [qStmt, Bool.and_eq_true] at h
    simp only [fcS, pStmts, pStmt, Bool.and_true, Bool.and_eq_true, isChunk_fcBlock]
    exact ⟨⟨p_fcExpr c h.1.1, h.1.2⟩, p_fcBlock body h.2⟩

theorem p_fcSB : (b : Block) → qSB true b = true → pStmts (fcSB b) = true
  | .mk t stmts none true, h => by
    simp only [qSB] at h
    rw [fcSB]
    split
    · simp [pStmts, pStmt]
    · rw [pStmts_addCommentHead]; exact p_fcStmts stmts h
  | .mk t stmts none false, h => by
    simp only [qSB] at h
    simp only [fcSB, pStmts, pStmt, pBlock, Block.isChunk, Bool.and_true, Bool.not_false, Bool.true_and]
    exact p_fcStmts stmts h
  | .mk t stmts (some es) c, h => by
    simp only [qSB, Bool.not_true, Bool.or_false, Bool.and_eq_true, Bool.not_eq_true'] at h
    obtain ⟨⟨hc, h1⟩, h2⟩ := h
    subst hc
    simp only [fcSB, pStmts, pStmt, pBlock, Block.isChunk, Bool.and_true, Bool.not_false, Bool.true_and, Bool.and_eq_true]
    exact ⟨p_fcStmts stmts h1, p_fcArgs es h2⟩

theorem p_fcFalse : (fl : IfFalse) → qFalse true fl = true → pFalse (fcFalse fl) = true
  | .none, _ => by simp [fcFalse, pFalse]
  | .block b, h => by
    simp only [qFalse, Bool.and_eq_true] at h
    simp only [fcFalse, pFalse, Bool.and_eq_true, isChunk_fcBlock]
    exact ⟨h.1, p_fcBlock b h.2⟩
  | .elif _ test tr fl, h => by
    simp only [qFalse, Bool.and_eq_true] at h
    simp only [fcFalse, pFalse, Bool.and_eq_true, isChunk_fcBlock]
    exact ⟨⟨⟨p_fcExpr test h.1.1.1, h.1.1.2⟩, p_fcBlock tr h.1.2⟩, p_fcFalse fl h.2⟩
end

/-- a pre-printable tree (no spliced chunk with a return list) flattens to a printable one -/
theorem printable_flatten {b : Block} (hc : b.isChunk = true) (h : qBlock true b = true) : Printable (flattenChunks b) :=
  ⟨by unfold flattenChunks; rw [isChunk_fcBlock]; exact hc, p_fcBlock b h⟩

end Tumfl.Theory
