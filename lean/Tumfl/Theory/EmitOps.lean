import Tumfl.Inst.Brackets
import Tumfl.Model.Layout
/-!
# The emitter on operator trees is the abstract printer of `Print.lean`

`Print.lean` / `Inst/Brackets.lean` prove the precedence round trip on operator *skeletons* `T`
with opaque atoms.  This file connects the model of the real emitter (`Model.visitExpr`, working on
`Expr` and producing `Pieces`) to that abstract printer:

* `visitExpr_eq_render`: on an operator tree over names, `visitExpr sty e` is literally the rendering of
  `par (tumflDec sty.brOpts) (skel e)`;
* `toks_visitExpr`: reading the emitted pieces back as tokens (`toks`, a position-driven tokenizer)
  gives exactly `yld (par (tumflDec sty.brOpts) (skel e))`;
* `emit_roundtrip` / `emit_roundtrip_pieces`: hence Lua's `subexpr` re-reads what is emitted as a tree
  whose paren-erasure is `skel e`, and `skel` is injective up to the tokens stored in the nodes;
* the blanks that minification must not drop are in `Tumfl/Theory/EmitOpsSep.lean`.
-/
namespace Tumfl.Theory
open Tumfl.Spec Tumfl.Model

/-! ## Names as atoms: an injective numbering of `List Char` -/

/-- numbering of names: a bijective base-`0x110000` style code (`[] ↦ 0`, `c :: cs ↦ 1 + c + B * code cs`) -/
def encodeName : List Char → Nat
  | [] => 0
  | c :: cs => 1 + (c.toNat + 0x110000 * encodeName cs)

/-- inverse of `encodeName` with explicit fuel -/
def decodeFuel : Nat → Nat → List Char
  | 0, _ => []
  | _ + 1, 0 => []
  | f + 1, n + 1 => Char.ofNat (n % 0x110000) :: decodeFuel f (n / 0x110000)

/-- the name with number `n` -/
def decodeName (n : Nat) : List Char := decodeFuel n n

theorem decodeFuel_encode : ∀ (l : List Char) (f : Nat), encodeName l ≤ f → decodeFuel f (encodeName l) = l := by
  intro l
  induction l with
  | nil => intro f _; cases f <;> simp [encodeName, decodeFuel]
  | cons c cs ih =>
    intro f hf
    have hc : c.toNat < 0x110000 := by
      have := c.valid
      simp only [Char.toNat, UInt32.isValidChar, Nat.isValidChar] at *
      omega
    cases f with
    | zero => simp [encodeName] at hf
    | succ f =>
      simp only [encodeName] at hf ⊢
      rw [Nat.add_comm 1, decodeFuel]
      have h1 : (c.toNat + 0x110000 * encodeName cs) % 0x110000 = c.toNat := by omega
      have h2 : (c.toNat + 0x110000 * encodeName cs) / 0x110000 = encodeName cs := by omega
      rw [h1, h2, ih f (by omega), Char.ofNat_toNat]

@[simp] theorem decode_encode (l : List Char) : decodeName (encodeName l) = l :=
  decodeFuel_encode l _ (Nat.le_refl _)

theorem encodeName_injective {a b : List Char} (h : encodeName a = encodeName b) : a = b := by
  rw [← decode_encode a, h, decode_encode]

/-! ## Operator trees, skeletons, rendering -/

/-- expression trees built from binary operators, unary operators and names only -/
inductive IsOpTree : Expr → Prop
  | name (t n) : IsOpTree (.name t n)
  | un (t u e) : IsOpTree e → IsOpTree (.unop t u e)
  | bin (t o l r) : IsOpTree l → IsOpTree r → IsOpTree (.binop t o l r)

/-- operator skeleton of an expression; a name leaf becomes the atom with the name's number
(everything that is not an operator or a name is `atom 0`, irrelevant on `IsOpTree`) -/
def skel : Expr → T
  | .binop _ o l r => .bin o (skel l) (skel r)
  | .unop _ u e => .un u (skel e)
  | .name _ n => .atom (encodeName n)
  | _ => .atom 0

/-- kind of a printed operand (only consulted on unparenthesised operands) -/
def E.kind : E → K
  | .atom _ => .atom
  | .paren _ => .atom
  | .un u _ => .un u
  | .bin o _ _ => .bin o

/-- what `visit_UnOp` puts between the operator and its operand: nothing in front of a bracket,
else a blank iff the `unSpace` table says so -/
def unGap (sp : UOp → K → Bool) (u : UOp) : E → Pieces
  | .paren _ => []
  | e => if sp u e.kind then [S .space] else []

/-- pieces of a printed (parenthesised) operator tree -/
def render (sp : UOp → K → Bool) (leaf : Nat → List Char) : E → Pieces
  | .atom n => [.str (leaf n)]
  | .paren e => P "(" :: render sp leaf e ++ [P ")"]
  | .bin o l r => render sp leaf l ++ [S .space, .str o.sym.toList, S .space] ++ render sp leaf r
  | .un u e => .str u.sym.toList :: (unGap sp u e ++ render sp leaf e)

theorem skel_kind {e : Expr} (h : IsOpTree e) : (skel e).kind = e.kind := by
  cases h <;> rfl

theorem E_kind_par (d : Dec) (t : T) : (par d t).kind = t.kind := by
  cases t <;> rfl

theorem render_wrap (sp leaf) (b : Bool) (x : E) :
    render sp leaf (wrap b x) = if b then wrapParens (render sp leaf x) else render sp leaf x := by
  cases b <;> simp [render, wrapParens]

theorem unGap_wrap_par (sp) (u : UOp) (b : Bool) (d : Dec) (t : T) :
    unGap sp u (wrap b (par d t)) = if b then [] else if sp u t.kind then [S .space] else [] := by
  cases b
  · have : unGap sp u (par d t) = if sp u (par d t).kind then [S .space] else [] := by
      cases t <;> rfl
    simp [this, E_kind_par]
  · simp [unGap]

theorem tumflDec_needL (s o k) : (Inst.tumflDec s).needL o k = needBin s o true k := rfl
theorem tumflDec_needR (s o k) : (Inst.tumflDec s).needR o k = needBin s o false k := rfl
theorem tumflDec_needU (s u k) : (Inst.tumflDec s).needU u k = needUn s u k := rfl

/-- **1.** On operator trees the emitter is the rendering of the abstract printer's output. -/
theorem visitExpr_eq_render (sty : Style) {e : Expr} (h : IsOpTree e) :
    visitExpr sty e
      = render (unSpace sty.brOpts) decodeName (par (Inst.tumflDec sty.brOpts) (skel e)) := by
  induction h with
  | name t n => simp [visitExpr, skel, par, render]
  | un t u e he ih =>
    rw [visitExpr, ih]
    simp only [skel, par, render, render_wrap, unGap_wrap_par, skel_kind he, tumflDec_needU]
    cases needUn sty.brOpts u e.kind <;> cases unSpace sty.brOpts u e.kind <;> simp
  | bin t o l r hl hr ihl ihr =>
    rw [visitExpr, ihl, ihr]
    simp only [skel, par, render, render_wrap, skel_kind hl, skel_kind hr, tumflDec_needL, tumflDec_needR]


/-! ## 2. The token yield of the emitted pieces -/

def uopOfSym (s : List Char) : Option UOp := UOp.all.find? fun u => u.sym.toList == s
def bopOfSym (s : List Char) : Option BOp := BOp.all.find? fun o => o.sym.toList == s

/-- Position-driven tokenizer of emitted pieces.  Separators are dropped.  The flag says whether an
operand is expected (`true`: start, after `(`, after an operator) or an operator (`false`: after an
atom or `)`), which is what distinguishes unary from binary `-` and `~`. -/
def toksAux : Bool → Pieces → List Tok
  | _, [] => []
  | b, .sep _ :: r => toksAux b r
  | true, .str s :: r =>
    if s = "(".toList then .lpar :: toksAux true r
    else match uopOfSym s with
      | some u => .u u :: toksAux true r
      | none => .atom (encodeName s) :: toksAux false r
  | false, .str s :: r =>
    if s = ")".toList then .rpar :: toksAux false r
    else match bopOfSym s with
      | some o => .b o :: toksAux true r
      | none => .atom (encodeName s) :: toksAux false r

/-- the tokens of a piece list that starts in operand position -/
def toks (ps : Pieces) : List Tok := toksAux true ps

/-- a leaf text that cannot be mistaken for an opening bracket or a unary operator -/
def LeafOK (n : List Char) : Prop := n ≠ "(".toList ∧ uopOfSym n = none

/-- every name in the tree satisfies `p` -/
def AllNames (p : List Char → Prop) : Expr → Prop
  | .binop _ _ l r => AllNames p l ∧ AllNames p r
  | .unop _ _ e => AllNames p e
  | .name _ n => p n
  | _ => True

/-- every name in the tree is `LeafOK` -/
abbrev NamesOK (e : Expr) : Prop := AllNames LeafOK e

/-- every atom of a printed tree satisfies `q` -/
def AllAtoms (q : Nat → Prop) : E → Prop
  | .atom n => q n
  | .paren e => AllAtoms q e
  | .un _ e => AllAtoms q e
  | .bin _ l r => AllAtoms q l ∧ AllAtoms q r

/-- the atoms of a printed tree are numbers of `LeafOK` texts -/
def EOK (leaf : Nat → List Char) (x : E) : Prop := AllAtoms (fun n => LeafOK (leaf n) ∧ encodeName (leaf n) = n) x

theorem AllAtoms.imp {q q' : Nat → Prop} (hq : ∀ n, q n → q' n) : ∀ {x : E}, AllAtoms q x → AllAtoms q' x := by
  intro x
  induction x with
  | atom n => exact hq n
  | paren e ih => exact ih
  | un u e ih => exact ih
  | bin o l r ihl ihr => exact fun h => ⟨ihl h.1, ihr h.2⟩

theorem AllAtoms_wrap (q) (b : Bool) (x : E) (h : AllAtoms q x) : AllAtoms q (wrap b x) := by
  cases b <;> simpa [AllAtoms] using h

/-- a property of all names becomes a property of all atoms of the printed skeleton -/
theorem allAtoms_par_skel (p : List Char → Prop) (d : Dec) {e : Expr} (h : IsOpTree e) (hn : AllNames p e) :
    AllAtoms (fun n => p (decodeName n) ∧ encodeName (decodeName n) = n) (par d (skel e)) := by
  induction h with
  | name t n => simpa [skel, par, AllAtoms, AllNames] using hn
  | un t u e _ ih => simp only [AllNames] at hn; simpa [skel, par, AllAtoms] using AllAtoms_wrap _ _ _ (ih hn)
  | bin t o l r _ _ ihl ihr =>
    simp only [AllNames] at hn
    simp only [skel, par, AllAtoms]
    exact ⟨AllAtoms_wrap _ _ _ (ihl hn.1), AllAtoms_wrap _ _ _ (ihr hn.2)⟩

theorem uopOfSym_sym (u : UOp) : uopOfSym u.sym.toList = some u := by cases u <;> decide
theorem bopOfSym_sym (o : BOp) : bopOfSym o.sym.toList = some o := by cases o <;> decide
theorem usym_ne_lpar (u : UOp) : u.sym.toList ≠ "(".toList := by cases u <;> decide
theorem bsym_ne_rpar (o : BOp) : o.sym.toList ≠ ")".toList := by cases o <;> decide

theorem toksAux_sep (b x r) : toksAux b (.sep x :: r) = toksAux b r := by cases b <;> rw [toksAux]
theorem toksAux_lpar (r) : toksAux true (P "(" :: r) = .lpar :: toksAux true r := by
  simp [P, toksAux]
theorem toksAux_rpar (r) : toksAux false (P ")" :: r) = .rpar :: toksAux false r := by
  simp [P, toksAux]
theorem toksAux_u (u : UOp) (r) : toksAux true (.str u.sym.toList :: r) = .u u :: toksAux true r := by
  rw [toksAux, if_neg (usym_ne_lpar u), uopOfSym_sym]
theorem toksAux_b (o : BOp) (r) : toksAux false (.str o.sym.toList :: r) = .b o :: toksAux true r := by
  rw [toksAux, if_neg (bsym_ne_rpar o), bopOfSym_sym]
theorem toksAux_leaf {n : List Char} (h : LeafOK n) (r) :
    toksAux true (.str n :: r) = .atom (encodeName n) :: toksAux false r := by
  rw [toksAux, if_neg h.1, h.2]
theorem toksAux_unGap (sp u) (x : E) (b r) : toksAux b (unGap sp u x ++ r) = toksAux b r := by
  cases x <;> simp only [unGap, List.nil_append] <;> split <;> simp [S, toksAux_sep]

/-- reading the rendering of a printed tree (in operand position, any continuation) gives its yield -/
theorem toksAux_render (sp leaf) : ∀ (x : E), EOK leaf x → ∀ rest,
    toksAux true (render sp leaf x ++ rest) = yld x ++ toksAux false rest := by
  intro x
  induction x with
  | atom n =>
    intro h rest
    simp only [EOK, AllAtoms] at h
    simp only [render, yld, List.cons_append, List.nil_append, toksAux_leaf h.1, h.2]
  | paren e ih =>
    intro h rest
    simp only [EOK, AllAtoms] at h
    simp only [render, yld, List.cons_append, List.append_assoc, List.nil_append, toksAux_lpar, ih h, toksAux_rpar]
  | un u e ih =>
    intro h rest
    simp only [EOK, AllAtoms] at h
    simp only [render, yld, List.cons_append, List.append_assoc, toksAux_u, toksAux_unGap, ih h]
  | bin o l r ihl ihr =>
    intro h rest
    simp only [EOK, AllAtoms] at h
    simp only [render, yld, List.cons_append, List.append_assoc, List.nil_append, ihl h.1, S, toksAux_sep,
      toksAux_b, ihr h.2]

theorem toks_render (sp leaf) (x : E) (h : EOK leaf x) : toks (render sp leaf x) = yld x := by
  have := toksAux_render sp leaf x h []
  simpa [toks, toksAux] using this

theorem EOK_par_skel (d : Dec) {e : Expr} (h : IsOpTree e) (hn : NamesOK e) : EOK decodeName (par d (skel e)) :=
  allAtoms_par_skel LeafOK d h hn

/-- **2a.** The token sequence of the emitted pieces *is* the yield of the abstract printer's tree. -/
theorem toks_visitExpr (sty : Style) {e : Expr} (h : IsOpTree e) (hn : NamesOK e) :
    toks (visitExpr sty e) = yld (par (Inst.tumflDec sty.brOpts) (skel e)) := by
  rw [visitExpr_eq_render sty h]
  exact toks_render _ _ _ (EOK_par_skel _ h hn)

/-- **2b.** Lua's algorithm reads the printed tree of an operator tree back as a tree whose paren-erasure is
the skeleton of the original. -/
theorem emit_roundtrip (sty : Style) (e : Expr) (_h : IsOpTree e) :
    ∃ f x, subexpr f 0 (yld (par (Inst.tumflDec sty.brOpts) (skel e))) = some (x, []) ∧ strip x = skel e := by
  obtain ⟨f, h1, h2⟩ := print_roundtrip (Inst.tumflDec sty.brOpts) (Inst.brackets_sound sty.brOpts) (skel e)
  exact ⟨f, _, h1, h2⟩

/-- **2c.** The same statement on what the emitter model produces: the tokens of `visitExpr sty e` re-parse,
consuming all input, to a tree whose paren-erasure is `skel e`. -/
theorem emit_roundtrip_pieces (sty : Style) (e : Expr) (h : IsOpTree e) (hn : NamesOK e) :
    ∃ f x, subexpr f 0 (toks (visitExpr sty e)) = some (x, []) ∧ strip x = skel e := by
  rw [toks_visitExpr sty h hn]; exact emit_roundtrip sty e h

/-! `skel` loses nothing but the tokens stored in the nodes. -/

/-- same operators, same names, tokens arbitrary -/
inductive OpEq : Expr → Expr → Prop
  | name (t t' n) : OpEq (.name t n) (.name t' n)
  | un (t t' u e e') : OpEq e e' → OpEq (.unop t u e) (.unop t' u e')
  | bin (t t' o l l' r r') : OpEq l l' → OpEq r r' → OpEq (.binop t o l r) (.binop t' o l' r')

theorem skel_injective {e₁ : Expr} (h₁ : IsOpTree e₁) : ∀ {e₂ : Expr}, IsOpTree e₂ → skel e₁ = skel e₂ → OpEq e₁ e₂ := by
  induction h₁ with
  | name t n =>
    intro e₂ h₂ hs
    cases h₂ <;> simp [skel] at hs
    rw [encodeName_injective hs]; exact .name _ _ _
  | un t u e he ih =>
    intro e₂ h₂ hs
    cases h₂ <;> simp [skel] at hs
    rename_i h'
    obtain ⟨rfl, hs⟩ := hs
    exact .un _ _ _ _ _ (ih h' hs)
  | bin t o l r hl hr ihl ihr =>
    intro e₂ h₂ hs
    cases h₂ <;> simp [skel] at hs
    rename_i hl' hr'
    obtain ⟨rfl, hsl, hsr⟩ := hs
    exact .bin _ _ _ _ _ _ _ (ihl hl' hsl) (ihr hr' hsr)

/-- Non-vacuity: `a - (b + c)` under the default bracket options: the emitted pieces, read as tokens, keep the
brackets. -/
example (sty : Style) (hs : sty.brOpts = ⟨false, true, false⟩) (t1 t2 t3 t4 t5 : Token) :
    toks (visitExpr sty (.binop t1 .sub (.name t2 "a".toList)
        (.binop t3 .add (.name t4 "b".toList) (.name t5 "c".toList))))
      = [.atom (encodeName "a".toList), .b .sub, .lpar, .atom (encodeName "b".toList), .b .add,
         .atom (encodeName "c".toList), .rpar] := by
  rw [toks_visitExpr sty (.bin _ _ _ _ (.name _ _) (.bin _ _ _ _ (.name _ _) (.name _ _)))
    (by simp only [NamesOK, AllNames, LeafOK]; decide), hs]
  simp only [skel, par, T.kind, tumflDec_needL, tumflDec_needR, yld]
  decide +kernel

end Tumfl.Theory
