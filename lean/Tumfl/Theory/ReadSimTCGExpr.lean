import Tumfl.Theory.ReadSimTCGTok
/-!
# Expressions, for every reading: properties, operands, operators, atoms, variable-like expressions

Fuel is measured in tokens: `4 * (number of tokens of the construct)` (+ a small constant) always suffices.
-/
namespace Tumfl.Theory.TCGSim
open Tumfl.Model Tumfl.Spec

variable {sty : Style}

def EPropR (sty : Style) (e : Expr) : Prop :=
  ∀ p, AllRd p (visitExpr sty e) fun ks => HeadE ks ∧ ∃ c, ExpRel (dsExpr e) (deExp c) ∧ EBody sty e ks c

def PPropR (sty : Style) (e : Expr) : Prop :=
  ∀ p, AllRd p (visitExpr sty e) fun ks => HeadV ks ∧ ∃ c, ExpRel (dsExpr e) (deExp c) ∧
    (isTargetShape e = true → isVar c = true) ∧ (isCallE e = true → isCall c = true) ∧ PBody ks c

/-- the inside of a table constructor, closed by `}` or - when not empty - by `,}` -/
def FieldsPropR (sty : Style) (fs : List Model.Field) : Prop :=
  ∀ p, AllRd p (visitFields sty fs) fun ks => ∃ cs, Forall₂ FieldRel (dsFields fs) (deFields cs) ∧
    (∀ F rest, 4 * ks.length + 2 ≤ F → fields F (ks ++ mkTok (.sym "}") :: rest) = .ok (cs, rest)) ∧
    (fs ≠ [] → ∀ F rest, 4 * ks.length + 2 ≤ F →
      fields F (ks ++ mkTok (.sym ",") :: mkTok (.sym "}") :: rest) = .ok (cs, rest))

/-- the pieces of a table constructor: the comma in front of `}` is possible only when there is a field -/
theorem table_pieces {p : Option (List Char)} {fs : List Model.Field} {K : List Spec.Tok → Prop}
    (h : ∀ q, AllRd q (visitFields sty fs) fun kf =>
      K (mkTok (.sym "{") :: (kf ++ [mkTok (.sym "}")])) ∧
      (fs ≠ [] → K (mkTok (.sym "{") :: (kf ++ [mkTok (.sym ","), mkTok (.sym "}")])))) :
    AllRd p (P "{" :: (visitFields sty fs ++ [P "}"])) K := by
  simp only [AllRd_lcurl, AllRd_append, AllRd_rcurl, AllRd_nil]
  intro kf hkf
  refine ⟨by simpa using (h _ kf hkf).1, ?_⟩
  intro s hs hne
  by_cases hfs : fs = []
  · subst hfs
    simp only [visitFields, st] at hs
    exact absurd (Option.some.inj hs).symm hne
  · simpa using (h _ kf hkf).2 hfs

/-- a nested block with the separator `s` in front of it, up to a block end -/
def BlockPropR (sty : Style) (b : Model.Block) : Prop :=
  ∀ p, AllRd p (bodyPieces sty b.stmts b.rets) fun ks => ∃ mk : List Spec.Tok → Spec.Block,
    (∀ s, SemiOpt s → BlockRel (dsBlock b) (deBlock (mk s))) ∧
    ∀ s, SemiOpt s → ∀ F rest, 4 * (s.length + ks.length) + 2 ≤ F → blockFollow true (pk rest) = true →
      block F (s ++ (ks ++ rest)) = .ok (mk s, rest)

structure XPropR (sty : Style) (e : Expr) : Prop where
  E : EPropR sty e
  P : isVarLike e = true → PPropR sty e
  Tb : ∀ t fs, e = .table t fs → FieldsPropR sty fs

/-! ## glue -/

theorem AllRd_wrapIf {p : Option (List Char)} {b : Bool} {ps : Pieces} {K : List Spec.Tok → Prop} :
    AllRd p (if b = true then wrapParens ps else ps) K ↔
      AllRd (if b then some "(".toList else p) ps fun t => K (wrapToks b t) := by
  cases b <;> simp [wrapToks, AllRd_wrapParens]

/-! ## operators -/

theorem binop_stepR {t : Token} {o : BOp} {l r : Expr} (hl : EPropR sty l) (hr : EPropR sty r) :
    EPropR sty (.binop t o l r) := by
  unfold EPropR
  intro p
  simp only [visitExpr, AllRd_append, AllRd_wrapIf, AllRd_space, AllRd_bop, AllRd_nil]
  intro kl hkl kr hkr
  obtain ⟨hdl, cl, rl, bl⟩ := hl _ kl hkl
  obtain ⟨hdr, cr, rr, br⟩ := hr _ kr hkr
  refine ⟨((HeadE_wrap hdl).append _).append _, .bin o (wrapP (needBin sty.brOpts o true l.kind) cl)
    (wrapP (needBin sty.brOpts o false r.kind) cr), ?_, ?_⟩
  · simp only [dsExpr, deExp, deExp_wrapP]
    exact .bin t o (ExpRel_wrapP _ rl) (ExpRel_wrapP _ rr)
  · intro g F limit rest hg hF hlim hs hcap
    simp only [List.length_append, List.length_cons, List.length_nil] at hg hF ⊢
    simp only [lowM] at hlim
    simp only [capM] at hcap
    have tf := table_facts o
    have p1 := hdl.pos
    have p2 := hdr.pos
    have w1 := wrapToks_length (needBin sty.brOpts o true l.kind) kl
    have w2 := wrapToks_length (needBin sty.brOpts o false r.kind) kr
    obtain ⟨F1, hF1, h1⟩ := wrap_stepR bl (needBin sty.brOpts o true l.kind) g F limit
      (mkTok (bopTk o) :: (wrapToks (needBin sty.brOpts o false r.kind) kr ++ rest)) (by omega) (by omega)
      (by intro hn; rw [hdLp_bop]; have := left_ok (sty := sty) hn; omega) (by simp [sfx_bop])
    obtain ⟨F1, rfl⟩ : ∃ f, F1 = f + 1 := ⟨F1 - 1, by omega⟩
    obtain ⟨F2, hF2, h2⟩ := wrap_stepR br (needBin sty.brOpts o false r.kind) g F1 (rp o) rest (by omega) (by omega)
      (by
        intro hn
        rw [hn] at hcap
        simp only [Bool.false_eq_true, if_false] at hcap
        exact ⟨right_ok hn, by omega⟩) hs
    obtain ⟨F2, rfl⟩ : ∃ f, F2 = f + 1 := ⟨F2 - 1, by omega⟩
    rw [climbLoop_stop _ _ _ _ _ (by omega)] at h2
    refine ⟨F1, by omega, ?_⟩
    simp only [List.append_assoc, List.cons_append, List.nil_append]
    rw [h1]
    exact climbLoop_step g F1 limit _ o _ _ _ hlim h2

theorem AllRd_unGap {p : Option (List Char)} {u : UOp} {x : Expr} {ps : Pieces} {K : List Spec.Tok → Prop} :
    AllRd p (if needUn sty.brOpts u x.kind = true then wrapParens ps
      else if unSpace sty.brOpts u x.kind = true then S .space :: ps else ps) K ↔
    AllRd (if needUn sty.brOpts u x.kind then some "(".toList else p) ps
      fun t => K (wrapToks (needUn sty.brOpts u x.kind) t) := by
  by_cases h1 : needUn sty.brOpts u x.kind = true
  · simp [h1, wrapToks, AllRd_wrapParens]
  · by_cases h3 : unSpace sty.brOpts u x.kind = true <;> simp [h1, h3, wrapToks]

theorem unop_stepR {t : Token} {u : UOp} {x : Expr} (hx : EPropR sty x) : EPropR sty (.unop t u x) := by
  unfold EPropR
  intro p
  simp only [visitExpr, AllRd_uop, AllRd_unGap]
  intro kx hkx
  obtain ⟨hdx, cx, rx, bx⟩ := hx _ kx hkx
  refine ⟨⟨_, _, rfl, exprStart_uop u⟩, .un u (wrapP (needUn sty.brOpts u x.kind) cx), ?_, ?_⟩
  · simp only [dsExpr, deExp, deExp_wrapP]
    exact .un t u (ExpRel_wrapP _ rx)
  · intro g F limit rest hg hF _ hs hcap
    simp only [List.length_cons] at hg hF ⊢
    simp only [capM] at hcap
    have p1 := hdx.pos
    have w1 := wrapToks_length (needUn sty.brOpts u x.kind) kx
    obtain ⟨F, rfl⟩ : ∃ f, F = f + 1 := ⟨F - 1, by omega⟩
    obtain ⟨F2, hF2, h2⟩ := wrap_stepR bx (needUn sty.brOpts u x.kind) g F UPRI rest (by omega) (by omega)
      (by
        intro hn
        rw [hn] at hcap
        simp only [Bool.false_eq_true, if_false] at hcap
        exact ⟨un_ok hn, by omega⟩) hs
    obtain ⟨F2, rfl⟩ : ∃ f, F2 = f + 1 := ⟨F2 - 1, by omega⟩
    rw [climbLoop_stop _ _ _ _ _ (by omega)] at h2
    refine ⟨F, by omega, ?_⟩
    rw [List.cons_append]
    exact climb_un g F limit u _ _ _ h2

/-! ## atoms -/

theorem atom_ER {e : Expr} {k : Tk} {c : Exp} (htk : ∀ p K, AllRd p (visitExpr sty e) K ↔ K [mkTok k])
    (hst : exprStartTk k = true) (hrel : ExpRel (dsExpr e) (deExp c)) (hu : unOfTk k = none)
    (hsimple : ∀ g rest, simpleexp (g + 1) (mkTok k :: rest) = .ok (c, rest)) : EPropR sty e := by
  unfold EPropR
  intro p
  rw [htk]
  refine ⟨⟨_, _, rfl, hst⟩, c, hrel, ?_⟩
  intro g F limit rest hg hF _ _ _
  simp only [List.length_cons, List.length_nil] at hg hF ⊢
  obtain ⟨g, rfl⟩ : ∃ f, g = f + 1 := ⟨g - 1, by omega⟩
  obtain ⟨F, rfl⟩ : ∃ f, F = f + 1 := ⟨F - 1, by omega⟩
  exact ⟨F, by omega, climb_simple _ _ _ _ _ _ (by simpa using hu) (hsimple g rest)⟩

theorem nil_ER (t : Token) : EPropR sty (.nil t) :=
  atom_ER (k := .kw "nil") (c := .nil) (by intro p K; simp [visitExpr, AllRd_nil]) rfl (by simp only [dsExpr, deExp]; exact .nil t)
    rfl (by intro g rest; rw [simpleexp]; simp)

theorem bool_ER (t : Token) (v : Bool) : EPropR sty (.bool t v) := by
  cases v
  · exact atom_ER (k := .kw "false") (c := .fls) (by intro p K; simp [visitExpr, AllRd_nil]) rfl
      (by simp only [dsExpr, deExp]; exact .fls t) rfl (by intro g rest; rw [simpleexp]; simp)
  · exact atom_ER (k := .kw "true") (c := .tru) (by intro p K; simp [visitExpr, AllRd_nil]) rfl
      (by simp only [dsExpr, deExp]; exact .tru t) rfl (by intro g rest; rw [simpleexp]; simp)

theorem vararg_ER (t : Token) : EPropR sty (.vararg t) :=
  atom_ER (k := .sym "...") (c := .vararg) (by intro p K; simp [visitExpr, AllRd_nil]) rfl
    (by simp only [dsExpr, deExp]; exact .vararg t) rfl (by intro g rest; rw [simpleexp]; simp)

theorem number_ER (t : Token) (n : NumTuple) (h : numOKp n = true) : EPropR sty (.number t n) := by
  obtain ⟨m, hm, hr⟩ := NumRel_of_numOKp h
  exact atom_ER (k := .num m) (c := .num m)
    (by intro p K; simp only [visitExpr, AllRd_number h, AllRd_nil, hm, Option.getD_some]) rfl
    (by simp only [dsExpr, deExp]; exact .num t hr) rfl (by intro g rest; rw [simpleexp]; simp)

theorem string_ER (t : Token) (v : List Char) : EPropR sty (.string t v) :=
  atom_ER (k := .str (v.map fun c => SUnit.ch c.toNat)) (c := .str (v.map fun c => SUnit.ch c.toNat))
    (by
      intro p K
      have := AllRd_visitString (p := p) (K := K) (r := []) sty v
      simpa [visitExpr, AllRd_nil] using this) rfl
    (by simp only [dsExpr, deExp]; exact .str t v) rfl (by intro g rest; rw [simpleexp]; simp)

/-! ## from `PBody` to `EBody` -/

theorem E_of_PR {e : Expr} (hv : isVarLike e = true) (h : PPropR sty e) : EPropR sty e := by
  intro p ks hks
  obtain ⟨hd, c, hrel, _, _, hb⟩ := h p ks hks
  refine ⟨hd.headE, c, hrel, ?_⟩
  intro g F limit rest hg hF _ hs _
  have p := hd.headE.pos
  obtain ⟨g, rfl⟩ : ∃ f, g = f + 1 := ⟨g - 1, by omega⟩
  obtain ⟨F, rfl⟩ : ∃ f, F = f + 1 := ⟨F - 1, by omega⟩
  refine ⟨F, by omega, ?_⟩
  obtain ⟨k, tks, rfl, hkv⟩ := hd
  obtain ⟨F', hF', hsx⟩ := hb g rest (by omega)
  obtain ⟨F', rfl⟩ : ∃ f, F' = f + 1 := ⟨F' - 1, by omega⟩
  rw [suffixes_stop _ _ _ hs] at hsx
  refine climb_simple _ _ _ _ _ _ ?_ ?_
  · simpa using unOf_var hkv
  · rw [List.cons_append, simpleexp_var hkv]; exact hsx

theorem name_PR (t : Token) (n : List Char) (h : identOK n = true) : PPropR sty (.name t n) := by
  unfold PPropR
  intro p
  simp only [visitExpr, AllRd_ident h, AllRd_nil]
  refine ⟨⟨_, _, rfl, .inr ⟨_, rfl⟩⟩, .name (String.ofList n), ?_, ?_, ?_, ?_⟩
  · simp only [dsExpr, deExp]; exact .name t n
  · intro _; rfl
  · intro h; cases h
  · intro F rest hF
    simp only [List.length_cons, List.length_nil] at hF ⊢
    obtain ⟨F, rfl⟩ : ∃ f, F = f + 1 := ⟨F - 1, by omega⟩
    refine ⟨F, by omega, ?_⟩
    rw [List.cons_append, suffixedexp]
    simp

end Tumfl.Theory.TCGSim
