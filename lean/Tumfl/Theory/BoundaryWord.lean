import Tumfl.Theory.BoundaryLex
/-!
# Boundary lemmas, part 2: names and keywords

A word `a = c :: cs` (`isAlpha c`, all of `cs` `isAlnum`) followed by a token `b` with
`sepRequired a b = .ok false`: the reference lexer's `spanName` stops exactly after `a`.
Conversely, if `b` starts with a word character the separator is kept.
-/
namespace Tumfl.Theory
open Tumfl Tumfl.Spec Tumfl.Model

/-- `a` is spelled like a name or keyword -/
def IsWord (a : List Char) : Prop :=
  ∃ c cs, a = c :: cs ∧ isAlpha c = true ∧ ∀ x ∈ cs, isAlnum x = true

theorem word_all_alnum (c : Char) (cs : List Char) (hc : isAlpha c = true) (hcs : ∀ x ∈ cs, isAlnum x = true) :
    ∀ x ∈ c :: cs, isAlnum x = true := by
  intro x hx
  simp only [List.mem_cons] at hx
  rcases hx with rfl | hx
  · exact alpha_alnum _ hc
  · exact hcs x hx

theorem getLast?_all (p : Char → Prop) (a : List Char) (ha : a ≠ []) (h : ∀ x ∈ a, p x) :
    ∃ l, a.getLast? = some l ∧ p l :=
  ⟨a.getLast ha, List.getLast?_eq_some_getLast ha, h _ (List.getLast_mem ha)⟩

theorem sepBool_word (l d f0 : Char) (h1 : isAlnum l = true) (h2 : isAlnum d = true) : sepBool l d f0 = true := by
  unfold sepBool
  rw [wordChars_contains, wordChars_contains, h1, h2]
  rfl

/-- WORDS: with the separator removed, `spanName` still reads exactly `a` -/
theorem word_boundary (c : Char) (cs b rest : List Char) (hc : isAlpha c = true)
    (hcs : ∀ x ∈ cs, isAlnum x = true) (h : sepRequired (c :: cs) b = .ok false) :
    spanName ((c :: cs) ++ b ++ rest) = (c :: cs, b ++ rest) := by
  obtain ⟨l, d, t, f0, hl, rfl, hf, hn⟩ := noSep_of_sepRequired' _ _ h
  have hall := word_all_alnum c cs hc hcs
  obtain ⟨l', hl', hal⟩ := getLast?_all (fun x => isAlnum x = true) (c :: cs) (by simp) hall
  rw [hl] at hl'
  simp only [Option.some.injEq] at hl'
  subst hl'
  have hd := hn.word hal
  unfold spanName
  rw [List.append_assoc]
  apply spanP_append _ _ _ hall
  intro x t' heq
  simp only [List.cons_append, List.cons.injEq] at heq
  rw [← heq.1]; exact hd

/-- ... so the reference lexer emits the word's token and goes on at `b ++ rest` -/
theorem word_lexOne (c : Char) (cs b rest : List Char) (hc : isAlpha c = true)
    (hcs : ∀ x ∈ cs, isAlnum x = true) (h : sepRequired (c :: cs) b = .ok false) :
    lexOne ((c :: cs) ++ b ++ rest) = some (wordTk (c :: cs), b ++ rest) := by
  have hs := word_boundary c cs b rest hc hcs h
  simp only [List.cons_append] at hs ⊢
  unfold lexOne
  simp only [hc, if_true, hs]

/-- conversely: a word before anything that starts with a word character keeps its separator -/
theorem word_sep_kept (c : Char) (cs : List Char) (d : Char) (t : List Char) (hc : isAlpha c = true)
    (hcs : ∀ x ∈ cs, isAlnum x = true) (hd : isAlnum d = true) :
    sepRequired (c :: cs) (d :: t) = .ok true := by
  obtain ⟨l, hl, hal⟩ := getLast?_all (fun x => isAlnum x = true) (c :: cs) (by simp)
    (word_all_alnum c cs hc hcs)
  apply sepRequired_true_of _ _ l d c hl rfl rfl
  exact sepBool_word l d c hal hd

/-- more generally: whatever ends in a word character (name, keyword, numeral) keeps its separator
before whatever starts with one -/
theorem alnum_sep_kept (a b : List Char) (l d f0 : Char) (hl : a.getLast? = some l) (hd : b.head? = some d)
    (hf : a.head? = some f0) (h1 : isAlnum l = true) (h2 : isAlnum d = true) :
    sepRequired a b = .ok true := by
  apply sepRequired_true_of a b l d f0 hl hd hf
  exact sepBool_word l d f0 h1 h2

end Tumfl.Theory
