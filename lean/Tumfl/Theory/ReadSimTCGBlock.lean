import Tumfl.Theory.ReadSimTCGStmt3
/-!
# Statement lists, blocks and the root, for every reading
-/
namespace Tumfl.Theory.TCGSim
open Tumfl.Model Tumfl.Spec

variable {sty : Style}

/-! ## `;` tokens in a statement list -/

theorem AllRd_stmtGuard {p : Option (List Char)} {first : Bool} {toks : Pieces} {K : List Spec.Tok → Prop} :
    AllRd p (stmtGuard first toks) K ↔ K (if guardNeeded first toks then [mkTok (.sym ";")] else []) := by
  unfold stmtGuard guardNeeded
  split
  · cases first <;> simp [AllRd_nil]
  · simp [AllRd_nil]

/-! ## statement lists -/

def StmtsOut (sty : Style) (first : Bool) (ss : List Stmt) (kss : List Spec.Tok) : Prop :=
  ∃ cs, Forall₂ StmtRel (dsStmts ss) (deStats cs) ∧
    (first = false → ∀ ts, safeTk (pk ts) = true → safeTk (pk (kss ++ ts)) = true) ∧
    ∀ (k : Nat) (ts ts' : List Spec.Tok) (ss' : List Stat) (r : Option (List Exp)),
      SLCont k ts ss' r ts' → safeTk (pk ts) = true → SLCont (k + 4 * kss.length) (kss ++ ts) (cs ++ ss') r ts'

theorem stmts_stepR : (ss : List Stmt) → (∀ s ∈ ss, pStmt s = true ∧ StmtPropR sty s) →
    ∀ (first : Bool) (p : Option (List Char)), AllRd p (initStmts sty first ss) (StmtsOut sty first ss)
  | [], _, first, p => by
    simp only [initStmts, AllRd_nil]
    refine ⟨[], by simp only [dsStmts, deStats]; exact .nil, by intro _ ts h; simpa using h, ?_⟩
    intro k ts ts' ss' r hc _
    simpa using hc
  | s :: rest, hall, first, p => by
    obtain ⟨hp, hsp⟩ := hall s (by simp)
    have ih := stmts_stepR rest (fun x hx => hall x (by simp [hx])) false
    rw [initStmts]
    simp only [AllRd_append, AllRd_stmtGuard]
    intro kc hkc kst hkst ktail hktail
    have hsc := Rd_stmtCommentPieces sty s kc hkc
    -- the tail: separator and the remaining statements
    have htail : ∃ ct, Forall₂ StmtRel (dsStmts rest) (deStats ct) ∧
        (∀ ts, safeTk (pk ts) = true → safeTk (pk (ktail ++ ts)) = true) ∧
        ∀ (k : Nat) (ts ts' : List Spec.Tok) (ss' : List Stat) (r : Option (List Exp)),
          SLCont k ts ss' r ts' → safeTk (pk ts) = true →
          SLCont (k + 4 * ktail.length) (ktail ++ ts) (ct ++ ss') r ts' := by
      cases rest with
      | nil =>
        simp only [List.isEmpty_nil, if_true, Rd_nil] at hktail
        subst hktail
        exact ⟨[], by simp only [dsStmts, deStats]; exact .nil, by intro ts h; simpa using h,
          by intro k ts ts' ss' r hc _; simpa using hc⟩
      | cons s2 r2 =>
        simp only [List.isEmpty_cons, Bool.false_eq_true, if_false] at hktail
        have := (AllRd_statement (r := initStmts sty false (s2 :: r2))
          (K := fun kt => kt = ktail → ∃ s1 kr q, SemiOpt s1 ∧ Rd q (initStmts sty false (s2 :: r2)) kr ∧ ktail = s1 ++ kr)).mpr
          (by intro s1 hs1 kr hkr h; exact ⟨s1, kr, _, hs1, hkr, h.symm⟩) ktail hktail rfl
        obtain ⟨s1, kr, q, hs1, hkr, rfl⟩ := this
        obtain ⟨cr, relr, safer, contr⟩ := ih q kr hkr
        refine ⟨emp s1.length ++ cr, by rw [deStats_semis]; exact relr, ?_, ?_⟩
        · intro ts h
          rw [List.append_assoc]
          exact safe_semis hs1.semis (safer rfl ts h)
        · intro k ts ts' ss' r hc hsafe
          have c1 := contr k ts ts' ss' r hc hsafe
          have c2 := SL_semisT hs1.semis c1
          have hl := hs1.length_le
          refine SLCont.mono (by simpa [List.append_assoc] using c2) ?_
          simp only [List.length_append]; omega
    obtain ⟨ct, relt, safet, contt⟩ := htail
    -- the statement
    by_cases hd : droppedSemi sty s = true
    · have hv : visitStmt sty s = [] := by
        cases s <;> simp [droppedSemi, isSemi] at hd
        simp [visitStmt, hd]
      have hsemi : isSemi s = true := by
        simp only [droppedSemi, Bool.and_eq_true] at hd; exact hd.1
      rw [hv, Rd_nil] at hkst
      subst hkst
      have hg : guardNeeded first ([] : Pieces) = false := rfl
      rw [hv, hg]
      refine ⟨emp kc.length ++ ct, ?_, ?_, ?_⟩
      · rw [deStats_semis, dsStmts, if_pos hsemi]; exact relt
      · intro _ ts h
        simp only [Bool.false_eq_true, if_false, List.append_nil, List.nil_append, List.append_assoc]
        exact safe_semis hsc (safet ts h)
      · intro k ts ts' ss' r hc hsafe
        have c1 := contt k ts ts' ss' r hc hsafe
        have c2 := SL_semisT hsc c1
        refine SLCont.mono (by simpa [List.append_assoc] using c2) ?_
        simp only [List.length_append, List.length_nil, Bool.false_eq_true, if_false]; omega
    · have hd' : droppedSemi sty s = false := by simpa using hd
      obtain ⟨hhead, c, tr, htr, relc, hemp, bc⟩ := hsp hd' _ kst hkst
      obtain ⟨k0, tks, rfl, hstart, hgs⟩ := hhead
      refine ⟨emp kc.length ++ ((if guardNeeded first (visitStmt sty s) then [Stat.empty] else []) ++
        (c :: (emp tr.length ++ ct))), ?_, ?_, ?_⟩
      · rw [deStats_semis, deStats_append]
        have e1 : deStats (if guardNeeded first (visitStmt sty s) = true then [Stat.empty] else []) = [] := by
          split <;> simp [deStats, isEmptyStat]
        rw [e1, List.nil_append, deStats, hemp, dsStmts, deStats_semis]
        by_cases hs : isSemi s = true
        · simp only [hs, if_true]; exact relt
        · simp only [hs, Bool.false_eq_true, if_false]; exact .cons relc relt
      · intro hf ts h
        subst hf
        simp only [List.append_assoc]
        apply safe_semis hsc
        rcases hgs with hgs | hgs
        · simp [hgs]; rfl
        · have hgs' : guardNeeded false (visitStmt sty s) = false ∨ guardNeeded false (visitStmt sty s) = true := by
            cases guardNeeded false (visitStmt sty s) <;> simp
          rcases hgs' with hg | hg
          · simp [hg, hgs]
          · simp [hg]; rfl
      · intro k ts ts' ss' r hc hsafe
        have hk := hc.pos
        have c1 := contt k ts ts' ss' r hc hsafe
        have c1' := SL_semisT htr.semis c1
        have hst : startTk (pk ((mkTok k0 :: tks) ++ (ktail ++ ts))) = true := by simpa using hstart
        have c2 := SL_stmt (n := 4 * (mkTok k0 :: tks).length) (c := c) hst
          (fun F hF => bc F (ktail ++ ts) hF (safet ts hsafe)) c1'
        have c3 : SLCont (k + 4 * (mkTok k0 :: tks).length + 4 * ktail.length +
              (if guardNeeded first (visitStmt sty s) then 1 else 0))
            ((if guardNeeded first (visitStmt sty s) = true then [mkTok (.sym ";")] else []) ++
              ((mkTok k0 :: tks) ++ (ktail ++ ts)))
            ((if guardNeeded first (visitStmt sty s) = true then [Stat.empty] else []) ++
              (c :: (emp tr.length ++ (ct ++ ss')))) r ts' := by
          have hl := htr.length_le
          by_cases hg : guardNeeded first (visitStmt sty s) = true
          · simp only [hg, if_true]
            refine SLCont.mono (SL_semis c2 1) ?_
            simp only [List.length_cons] at *; omega
          · have hg' : guardNeeded first (visitStmt sty s) = false := by simpa using hg
            simp only [hg', Bool.false_eq_true, if_false, List.nil_append, Nat.add_zero]
            refine SLCont.mono c2 ?_
            simp only [List.length_cons] at *; omega
        have c4 := SL_semisT hsc c3
        refine SLCont.mono (by simpa [List.append_assoc] using c4) ?_
        simp only [List.length_append, List.length_cons]
        split <;> simp <;> omega

end Tumfl.Theory.TCGSim
