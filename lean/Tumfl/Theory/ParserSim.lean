import Tumfl.Theory.ParserSimSound
import Tumfl.Theory.ParserSimComplete
/-!
# The model parser builds exactly the tree the grammar assigns (C10 soundness, C03 completeness)

Statement level, modulo parentheses, over an abstract `Bridge` between the model parser state and the reference
token list (so that nothing here depends on the two lexers).

* `ExpRel` / `StmtRel` / `BlockRel` .. (`ParserSimRel.lean`): the tree relation.
* `Bridge`, `Bridge.Complete` (`ParserSimBridge.lean`): what is assumed about the lexers.
* `allSound` (`ParserSimSound.lean`): soundness contracts of all 21 model parse functions; `parseChunk_sound`,
  `parseChunk_eof_sound`.
* `allComplete` (`ParserSimComplete.lean`): completeness contracts of all 21 reference functions;
  `parseChunk_complete`, `parseChunk_eof_complete`.

This file restates the per-function results for expressions and statements in plain existential form.
-/
namespace Tumfl.Theory
open Tumfl.Model Tumfl.Spec

variable (B : Bridge)

/-! ## soundness, plain form -/

theorem parseExp_sound {f : Nat} {s s' : PSt} {ts : List Tok} {e : Expr} (hf : B.Feeds s ts)
    (h : Model.parseExp f s = .ok (e, s')) :
    ∃ f' e' ts', Spec.expr f' ts = .ok (e', ts') ∧ ExpRel e e' ∧ B.Feeds s' ts' := by
  obtain ⟨ts', hf', e', hev, hrel⟩ := (allSound B f).parseExp ts s hf e s' h
  obtain ⟨f', h'⟩ := hev.of_fuel
  exact ⟨f', e', ts', h', hrel, hf'⟩

theorem parseAtom_sound {f : Nat} {s s' : PSt} {ts : List Tok} {e : Expr} (hf : B.Feeds s ts)
    (h : Model.parseAtom f s = .ok (e, s')) :
    ∃ f' e' ts', Spec.simpleexp f' ts = .ok (e', ts') ∧ ExpRel e e' ∧ B.Feeds s' ts' := by
  obtain ⟨ts', hf', e', hev, hrel⟩ := (allSound B f).parseAtom ts s hf e s' h
  obtain ⟨f', h'⟩ := hev.of_fuel
  exact ⟨f', e', ts', h', hrel, hf'⟩

theorem parseStatement_sound {f : Nat} {s s' : PSt} {ts : List Tok} {r : Stmt} (hf : B.Feeds s ts)
    (h : Model.parseStatement f s = .ok (r, s')) :
    ∃ f' r' ts', Spec.statement f' ts = .ok (r', ts') ∧ StmtRel r r' ∧ B.Feeds s' ts' := by
  obtain ⟨ts', hf', r', hev, hrel⟩ := (allSound B f).parseStatement ts s hf r s' h
  obtain ⟨f', h'⟩ := hev.of_fuel
  exact ⟨f', r', ts', h', hrel, hf'⟩

theorem parseExpList_sound {f : Nat} {s s' : PSt} {ts : List Tok} {r : List Expr} (hf : B.Feeds s ts)
    (h : Model.parseExpList f s = .ok (r, s')) :
    ∃ f' r' ts', Spec.explist f' ts = .ok (r', ts') ∧ Forall₂ ExpRel r r' ∧ B.Feeds s' ts' := by
  obtain ⟨ts', hf', r', hev, hrel, _⟩ := (allSound B f).parseExpList ts s hf r s' h
  obtain ⟨f', h'⟩ := hev.of_fuel
  exact ⟨f', r', ts', h', hrel, hf'⟩

/-- a block that must be closed by `end` (`expectEnd = true`) -/
theorem parseBlock_end_sound {f : Nat} {tok : Token} {s s' : PSt} {ts : List Tok} {b : Model.Block} (hf : B.Feeds s ts)
    (h : Model.parseBlock f tok true s = .ok (b, s')) :
    ∃ f' c tsm, Spec.block f' ts = .ok (c, tsm) ∧ pk tsm = .kw "end" ∧ BlockRel b c ∧ B.Feeds s' tsm.tail := by
  obtain ⟨ts', hf', hpost⟩ := (allSound B f).parseBlock tok true ts s hf b s' h
  obtain ⟨c, tsm, hev, hrel, hend, rfl⟩ := BlockPost.true hpost
  obtain ⟨f', h'⟩ := hev.of_fuel
  exact ⟨f', c, tsm, h', hend, hrel, hf'⟩

/-! ## completeness, plain form -/

variable {B} (hC : B.Complete)
include hC

theorem parseExp_complete {f' : Nat} {s : PSt} {ts ts' : List Tok} {e' : Exp} (hf : B.Feeds s ts)
    (h : Spec.expr f' ts = .ok (e', ts')) :
    ∃ f0 e s', (∀ f, f0 ≤ f → Model.parseExp f s = .ok (e, s')) ∧ ExpRel e e' ∧ B.Feeds s' ts' := by
  obtain ⟨G, e, s', tsx, hrun, hf', _, rfl, hrel⟩ := (allComplete hC f').expr ts e' ts' h _ s hf rfl
  exact ⟨G, e, s', hrun, hrel, hf'⟩

theorem parseStatement_complete {f' : Nat} {s : PSt} {ts ts' : List Tok} {r' : Stat} (hf : B.Feeds s ts)
    (h : Spec.statement f' ts = .ok (r', ts')) :
    ∃ f0 r s', (∀ f, f0 ≤ f → Model.parseStatement f s = .ok (r, s')) ∧ StmtRel r r' ∧ B.Feeds s' ts' := by
  obtain ⟨G, r, s', tsx, hrun, hf', _, rfl, hrel⟩ := (allComplete hC f').statement ts r' ts' h _ s hf rfl
  exact ⟨G, r, s', hrun, hrel, hf'⟩

theorem parseExpList_complete {f' : Nat} {s : PSt} {ts ts' : List Tok} {r' : List Exp} (hf : B.Feeds s ts)
    (h : Spec.explist f' ts = .ok (r', ts')) :
    ∃ f0 r s', (∀ f, f0 ≤ f → Model.parseExpList f s = .ok (r, s')) ∧ Forall₂ ExpRel r r' ∧ B.Feeds s' ts' := by
  obtain ⟨G, r, s', tsx, hrun, hf', _, rfl, hrel, _⟩ := (allComplete hC f').explist ts r' ts' h _ s hf rfl
  exact ⟨G, r, s', hrun, hrel, hf'⟩

/-- acceptance coincides: over a `Bridge` with `Complete`, the model accepts the whole input as one chunk
(for some fuel) iff the reference accepts it as a block followed by the end of input (for some fuel) -/
theorem chunk_accept_iff {s : PSt} {ts : List Tok} (hf : B.Feeds s ts) :
    (∃ f b s', (do let b ← parseChunk f; assertTok .EOF; pure b : PM Model.Block) s = .ok (b, s')) ↔
    (∃ f' c ts', Spec.block f' ts = .ok (c, ts') ∧ pk ts' = .eof) := by
  constructor
  · rintro ⟨f, b, s', h⟩
    obtain ⟨f', c, ts', h', hp, _, _⟩ := parseChunk_eof_sound' B hf h
    exact ⟨f', c, ts', h', hp⟩
  · rintro ⟨f', c, ts', h, hp⟩
    obtain ⟨f0, b, s', hrun, _, _⟩ := parseChunk_eof_complete hC hf h hp
    exact ⟨f0, b, s', hrun f0 (Nat.le_refl _)⟩

end Tumfl.Theory
