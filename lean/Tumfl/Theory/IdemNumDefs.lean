import Tumfl.Theory.UnlexDefs
import Tumfl.Theory.PrintSimDefs
import Tumfl.Theory.ParseAgreeBridge
/-!
# C15, numerals: shared definitions

The spelling of a numeral (the sign of its exponent: `1e5` / `1e+5`) is not visible in the reference tokens; it has to be
followed through the text: numeral leaves of the first tree -> numeral pieces (`numStrP`) -> numeral items of the layout
(`numItems`) -> NUMBER tokens of the model lexer (`numT`) -> numeral leaves of the re-parsed tree.
-/
namespace Tumfl.Theory
open Tumfl Tumfl.Model

/-- the numeral tuple of a `NUMBER` token -/
def tokNum (t : Token) : Option NumTuple :=
  if t.type = .NUMBER then (match t.value with | .num n => some n | .str _ => none) else none

/-- the numeral tuples of the `NUMBER` tokens of a token list, in order -/
def numT (ts : List Token) : List NumTuple := ts.filterMap tokNum

def isNumTk : List Spec.Tk → Bool
  | [.num _] => true
  | _ => false

def numPiece : Piece → Option (List Char)
  | .str s => if isNumTk (strTk s) then some s else none
  | .sep _ => none

/-- the text pieces that read as a numeral token, in order -/
def numStrP (ps : Pieces) : List (List Char) := ps.filterMap numPiece

def numItem : LItem → Option (List Char)
  | .tok a (.num _) => some a
  | _ => none

/-- the texts of the numeral token items, in order -/
def numItems (is : List LItem) : List (List Char) := is.filterMap numItem

end Tumfl.Theory
