import Tumfl.Theory.ParserSimRef2
import Tumfl.Theory.ClimbRel
/-!
# Facts about successful runs of the reference parser: an expression starts with an expression token
-/
namespace Tumfl.Theory
open Tumfl.Spec

/-- the tokens that can start an expression -/
def expStartTk : Tk → Bool
  | .num _ | .str _ | .name _ => true
  | .kw "nil" | .kw "true" | .kw "false" | .kw "function" | .kw "not" => true
  | .sym "..." | .sym "{" | .sym "(" | .sym "-" | .sym "~" | .sym "#" => true
  | _ => false

theorem suffixedexp_ok_start {f : Nat} {ts : List Tok} {r : Exp × List Tok} (h : suffixedexp f ts = .ok r) :
    primaryTk (pk ts) = true := by
  cases f with
  | zero => rw [suffixedexp] at h; cases h
  | succ f =>
    rw [suffixedexp] at h
    split at h
    · next n hn => simp [primaryTk, hn]
    · next hn => simp [primaryTk, hn]
    · cases h

theorem primaryTk_expStart {k : Tk} (h : primaryTk k = true) : expStartTk k = true := by
  unfold primaryTk at h
  split at h
  · rfl
  · rfl
  · cases h

theorem simpleexp_ok_start {f : Nat} {ts : List Tok} {r : Exp × List Tok} (h : simpleexp f ts = .ok r) :
    expStartTk (pk ts) = true := by
  cases f with
  | zero => rw [simpleexp] at h; cases h
  | succ f =>
    rw [simpleexp] at h
    split at h
    all_goals first
      | (next hn => rw [hn]; rfl)
      | exact primaryTk_expStart (suffixedexp_ok_start h)

theorem unOfTk_expStart {k : Tk} {u : UOp} (h : unOfTk k = some u) : expStartTk k = true := by
  unfold unOfTk at h
  split at h
  all_goals first
    | rfl
    | cases h

theorem expr_ok_start {f : Nat} {ts : List Tok} {r : Exp × List Tok} (h : expr f ts = .ok r) :
    expStartTk (pk ts) = true := by
  cases f with
  | zero => rw [expr] at h; cases h
  | succ f =>
    rw [expr, climb_succ] at h
    split at h
    · next u hu => exact unOfTk_expStart hu
    · split at h
      · cases h
      · next e s1 hs => exact simpleexp_ok_start hs

theorem explist_ok_start {f : Nat} {ts : List Tok} {r : List Exp × List Tok} (h : explist f ts = .ok r) :
    expStartTk (pk ts) = true := by
  cases f with
  | zero => rw [explist] at h; cases h
  | succ f =>
    rw [explist] at h
    simp only [bind, Except.bind] at h
    split at h
    · cases h
    · next v hv => exact expr_ok_start hv

theorem expStart_ne_eof {k : Tk} (h : expStartTk k = true) : k ≠ .eof := by
  intro hk; subst hk; cases h

theorem expStart_ne_return {k : Tk} (h : expStartTk k = true) : k ≠ .kw "return" := by
  intro hk; subst hk; revert h; decide

theorem fieldOne_ok_ne_eof {f : Nat} {ts : List Tok} {r : Field × List Tok} (h : fieldOne f ts = .ok r) :
    pk ts ≠ .eof := by
  unfold fieldOne at h
  split at h
  · next n hn => rw [hn]; intro h; cases h
  · next hn => rw [hn]; intro h; cases h
  · simp only [bind, Except.bind] at h
    split at h
    · cases h
    · next v hv => exact expStart_ne_eof (expr_ok_start hv)

theorem attnamelist_ok_start {f : Nat} {ts : List Tok} {r : List (String × Option String) × List Tok}
    (h : attnamelist f ts = .ok r) : ∃ n, pk ts = .name n := by
  cases f with
  | zero => rw [attnamelist] at h; cases h
  | succ f =>
    rw [attnamelist] at h
    simp only [bind, Except.bind, expectName] at h
    split at h
    · cases h
    · next v hv =>
      split at hv
      · next n hn => exact ⟨n, hn⟩
      · cases hv

end Tumfl.Theory
