import Tumfl.Theory.WrapReadsEsc
import Tumfl.Theory.BoundaryStr
/-!
# Reading a wrapped literal body

`joined fill q i g gs`: the written bodies of the groups `g :: gs`, with `\z`, a line break and
`fill i`, `fill (i+1)`, .. between them.  When no group but the first begins with a blank, the reference
reader `Spec.strBody` reads `joined .. ++ q :: rest` as the concatenation of the groups, for every fuel
above the length of the text (`joined_reads`).
-/
namespace Tumfl.Theory
open Tumfl Tumfl.Spec Tumfl.Model

/-- the body of the wrapped literal -/
def joined (fill : Nat → List Char) (q : Char) : Nat → List Char → List (List Char) → List Char
  | _, g, [] => escBody q g
  | i, g, g' :: gs => escBody q g ++ '\\' :: 'z' :: '\n' :: (fill i ++ joined fill q (i + 1) g' gs)

/-- `strBody` reads `s` as `us`, leaving `rest`, for every fuel from `n` on -/
def ReadsFrom (q : Char) (n : Nat) (s : List Char) (us : List SUnit) (rest : List Char) : Prop :=
  ∀ F, n ≤ F → strBody q F s = some (us, rest)

theorem readsFrom_close (q : Char) (rest : List Char) : ReadsFrom q 1 (q :: rest) [] rest := by
  intro F hF
  obtain ⟨F, rfl⟩ : ∃ F', F = F' + 1 := ⟨F - 1, by omega⟩
  simp [strBody]

theorem readsFrom_char (q : Char) (hq : q = '"' ∨ q = '\'') (c : Char) {n : Nat} {tail : List Char}
    {us : List SUnit} {rest : List Char} (h : ReadsFrom q n tail us rest) :
    ReadsFrom q (n + 1) (escapeChar q c ++ tail) (.ch c.toNat :: us) rest := by
  intro F hF
  obtain ⟨F, rfl⟩ : ∃ F', F = F' + 1 := ⟨F - 1, by omega⟩
  rw [escapeChar_eq, strBody_escapeChar Inst.escTable_ok q hq, h F (by omega)]
  rfl

theorem readsFrom_group (q : Char) (hq : q = '"' ∨ q = '\'') (g : List Char) {n : Nat} {tail : List Char}
    {us : List SUnit} {rest : List Char} (h : ReadsFrom q n tail us rest) :
    ReadsFrom q (n + g.length) (escBody q g ++ tail) (g.map (fun c => SUnit.ch c.toNat) ++ us) rest := by
  induction g with
  | nil => simpa using h
  | cons c cs ih =>
    have := readsFrom_char q hq c ih
    simpa [Nat.add_assoc] using this

theorem skipSpaces_fill (ws : List Char) (c : Char) (t : List Char) (hws : ∀ w ∈ ws, isSpace w = true)
    (hc : isSpace c = false) : skipSpaces (ws ++ c :: t) = c :: t := by
  induction ws with
  | nil => simp [skipSpaces, hc]
  | cons w ws ih =>
    simp only [List.cons_append, skipSpaces, hws w (by simp), if_true]
    exact ih (fun x hx => hws x (by simp [hx]))

theorem readsFrom_z (q : Char) (hq : q = '"' ∨ q = '\'') (ws : List Char) (c : Char) (t : List Char)
    (hws : ∀ w ∈ ws, isSpace w = true) (hc : isSpace c = false) {n : Nat}
    {us : List SUnit} {rest : List Char} (h : ReadsFrom q n (c :: t) us rest) :
    ReadsFrom q (n + 1) ('\\' :: 'z' :: (ws ++ c :: t)) us rest := by
  intro F hF
  obtain ⟨F, rfl⟩ : ∃ F', F = F' + 1 := ⟨F - 1, by omega⟩
  rw [strBody_z q F _ (quote_ne_backslash hq), skipSpaces_fill ws c t hws hc]
  exact h F (by omega)

theorem isSpace_false_of_ge (c : Char) (h1 : 33 ≤ c.toNat) : isSpace c = false := by
  have : ∀ d : Char, d.toNat < 33 → c ≠ d := by
    intro d hd e; subst e; omega
  simp only [isSpace, Bool.or_eq_false_iff, beq_eq_false_iff_ne, ne_eq]
  repeat' constructor
  all_goals (apply this; decide)

/-- what is written for a character other than a blank does not begin with white space -/
theorem escapeChar_head (q : Char) (a : Char) (ha : a ≠ ' ') :
    ∃ c t, escapeChar q a = c :: t ∧ isSpace c = false := by
  have hb : isSpace '\\' = false := by decide
  unfold escapeChar
  split
  · exact ⟨_, _, rfl, hb⟩
  · split
    · rename_i h
      simp only [Bool.and_eq_true, decide_eq_true_eq] at h
      refine ⟨a, [], rfl, isSpace_false_of_ge a ?_⟩
      have : a.toNat ≠ 32 := by
        intro e
        apply ha
        rw [← Char.ofNat_toNat a, e]
      omega
    · split
      · exact ⟨_, _, rfl, hb⟩
      · split
        · exact ⟨_, _, rfl, hb⟩
        · exact ⟨_, _, rfl, hb⟩

theorem joined_head (fill : Nat → List Char) (q : Char) (hq : q = '"' ∨ q = '\'') (i : Nat) (g : List Char)
    (gs : List (List Char)) (rest : List Char) (hg : g.head? ≠ some ' ') :
    ∃ c t, joined fill q i g gs ++ q :: rest = c :: t ∧ isSpace c = false := by
  cases g with
  | nil =>
    cases gs with
    | nil => exact ⟨q, rest, by simp [joined], by rcases hq with rfl | rfl <;> decide⟩
    | cons g' gs =>
      exact ⟨'\\', 'z' :: '\n' :: (fill i ++ (joined fill q (i + 1) g' gs ++ q :: rest)), by simp [joined], by decide⟩
  | cons a t =>
    have ha : a ≠ ' ' := by intro e; subst e; simp at hg
    obtain ⟨c, t', e, hc⟩ := escapeChar_head q a ha
    cases gs with
    | nil => exact ⟨c, t' ++ (escBody q t ++ q :: rest), by simp [joined, e], hc⟩
    | cons g' gs =>
      exact ⟨c, t' ++ (escBody q t ++ '\\' :: 'z' :: '\n' :: (fill i ++ (joined fill q (i + 1) g' gs ++ q :: rest))),
        by simp [joined, e], hc⟩

/-- the reference reader reads the wrapped body as the concatenation of the groups -/
theorem joined_reads (fill : Nat → List Char) (hfill : ∀ i, ∀ ch ∈ fill i, ch = ' ' ∨ ch = '\t')
    (q : Char) (hq : q = '"' ∨ q = '\'') (rest : List Char) :
    ∀ (gs : List (List Char)) (i : Nat) (g : List Char), (∀ g' ∈ gs, g'.head? ≠ some ' ') →
      ∃ n, n ≤ (joined fill q i g gs).length + 1 ∧
        ReadsFrom q n (joined fill q i g gs ++ q :: rest)
          ((g ++ gs.flatten).map fun c => SUnit.ch c.toNat) rest := by
  intro gs
  induction gs with
  | nil =>
    intro i g _
    refine ⟨1 + g.length, ?_, ?_⟩
    · have := escBody_length_ge q g
      simp only [joined]; omega
    · have := readsFrom_group q hq g (readsFrom_close q rest)
      simpa [joined] using this
  | cons g' gs ih =>
    intro i g hgs
    obtain ⟨n, hn, hr⟩ := ih (i + 1) g' (fun x hx => hgs x (by simp [hx]))
    obtain ⟨c, t, e, hc⟩ := joined_head fill q hq (i + 1) g' gs rest (hgs g' (by simp))
    rw [e] at hr
    have hws : ∀ w ∈ '\n' :: fill i, isSpace w = true := by
      intro w hw
      rcases List.mem_cons.mp hw with rfl | hw
      · decide
      · rcases hfill i w hw with rfl | rfl <;> decide
    have h1 := readsFrom_z q hq ('\n' :: fill i) c t hws hc hr
    have h2 := readsFrom_group q hq g h1
    refine ⟨n + 1 + g.length, ?_, ?_⟩
    · have := escBody_length_ge q g
      simp only [joined, List.length_append, List.length_cons]; omega
    · rw [← e] at h2
      simpa [joined] using h2

end Tumfl.Theory
