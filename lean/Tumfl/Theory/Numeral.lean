import Tumfl.Theory.NumeralChars
import Tumfl.Model.Emit
/-!
# C07: numeric constants keep kind and value from source text to formatted text
-/
namespace Tumfl.Theory
open Tumfl.Model Tumfl

/-! ## `spanP` -/

theorem spanP_append (p : Char → Bool) (a b : List Char) (ha : ∀ c ∈ a, p c = true)
    (hb : ∀ c t, b = c :: t → p c = false) : Spec.spanP p (a ++ b) = (a, b) := by
  induction a with
  | nil =>
    cases b with
    | nil => rfl
    | cons c t => simp [Spec.spanP, hb c t rfl]
  | cons x a ih =>
    have hx : p x = true := ha x (by simp)
    have := ih (fun c hc => ha c (by simp [hc]))
    simp [Spec.spanP, hx, this]

theorem spanP_all (p : Char → Bool) (a : List Char) (ha : ∀ c ∈ a, p c = true) : Spec.spanP p a = (a, []) := by
  have := spanP_append p a [] ha (by intro c t h; cases h)
  simpa using this

theorem spanP_inv (p : Char → Bool) (l a b : List Char) (h : Spec.spanP p l = (a, b)) :
    l = a ++ b ∧ (∀ c ∈ a, p c = true) ∧ (∀ c t, b = c :: t → p c = false) := by
  induction l generalizing a b with
  | nil =>
    simp [Spec.spanP] at h
    obtain ⟨rfl, rfl⟩ := h
    simp
  | cons x l ih =>
    unfold Spec.spanP at h
    by_cases hx : p x = true
    · simp only [hx, if_true] at h
      generalize hq : Spec.spanP p l = q at h
      obtain ⟨a', b'⟩ := q
      simp only [Prod.mk.injEq] at h
      obtain ⟨rfl, rfl⟩ := h
      obtain ⟨h1, h2, h3⟩ := ih a' b' hq
      refine ⟨by simp [h1], ?_, h3⟩
      intro c hc
      simp at hc
      rcases hc with rfl | hc
      · exact hx
      · exact h2 c hc
    · simp only [hx] at h
      simp at h
      obtain ⟨rfl, rfl⟩ := h
      refine ⟨by simp, by simp, ?_⟩
      intro c t hct
      simp at hct
      obtain ⟨rfl, _⟩ := hct
      simpa using hx

/-! ## the scanner's loops on list level -/

theorem num_advance_rest (s : LexSt) : (advance s).rest = s.rest.tail := by
  unfold advance
  split
  · next h => simp [h]
  · next c r h =>
    split
    · simp [h]
    · split <;> simp [h]

theorem cur_eq (s : LexSt) : s.cur = s.rest.head? := rfl

theorem takeWhileIn_spec (set : List Char) (lower : Bool) (a b : List Char)
    (ha : ∀ c ∈ a, set.contains c = true) (hb : ∀ c t, b = c :: t → set.contains c = false) :
    ∀ (f : Nat) (s : LexSt) (acc : List Char), s.rest = a ++ b → a.length < f →
      ∃ s', takeWhileIn set lower f s acc = (acc.reverse ++ a.map (fun c => if lower then lowerChar c else c), s') ∧ s'.rest = b := by
  induction a with
  | nil =>
    intro f s acc hs hf
    cases f with
    | zero => omega
    | succ f =>
      refine ⟨s, ?_, by simpa using hs⟩
      unfold takeWhileIn
      cases b with
      | nil => simp [cur_eq, hs]
      | cons c t =>
        have hc := hb c t rfl
        simp only [cur_eq, hs, List.nil_append, List.head?_cons, hc, Bool.false_eq_true, if_false, List.map_nil,
          List.append_nil]
  | cons x a ih =>
    intro f s acc hs hf
    cases f with
    | zero => omega
    | succ f =>
      have hx : set.contains x = true := ha x (by simp)
      obtain ⟨s', h1, h2⟩ := ih (fun c hc => ha c (by simp [hc])) f (advance s) ((if lower then lowerChar x else x) :: acc)
        (by simp [num_advance_rest, hs]) (by simp at hf; omega)
      refine ⟨s', ?_, h2⟩
      unfold takeWhileIn
      simp only [cur_eq, hs, List.cons_append, List.head?_cons, hx, if_true]
      rw [h1]
      simp

/-! ## `parseNumeral` and `getNumber` cut into stages (definitional restatements) -/

def dig (hex : Bool) : Char → Bool := if hex then Spec.isXDigit else Spec.isDigit
def isExpC (hex : Bool) (c : Char) : Bool := if hex then c == 'p' || c == 'P' else c == 'e' || c == 'E'

def parseFrac (hex : Bool) (r1 : List Char) : Option (List Char) × List Char :=
  match r1 with
  | '.' :: r => let (f, r') := Spec.spanP (dig hex) r; (some f, r')
  | _ => (none, r1)

def parseExp (hex : Bool) (r2 : List Char) : Option (Option (Bool × List Char)) :=
  match r2 with
  | [] => some none
  | e :: r =>
    if isExpC hex e then
      let (neg, r') := match r with
        | '+' :: r' => (false, r')
        | '-' :: r' => (true, r')
        | _ => (false, r)
      let (ds, r'') := Spec.spanP Spec.isDigit r'
      if r''.isEmpty then some (some (neg, ds)) else none
    else none

/-- `parseNumeral` after the `0x` decision -/
def parseBody (hex : Bool) (body : List Char) : Option Spec.Numeral :=
  let (ip, r1) := Spec.spanP (dig hex) body
  let (fp, r2) := parseFrac hex r1
  match parseExp hex r2 with
  | none => none
  | some ex =>
    let n : Spec.Numeral := { hex := hex, ip := ip, fp := fp, ex := ex }
    if n.valid then some n else none

/-- the `0x` decision of `parseNumeral` -/
def hexSplit (buf : List Char) : Bool × List Char :=
  match buf with
  | '0' :: x :: r => if x == 'x' || x == 'X' then (true, r) else (false, buf)
  | _ => (false, buf)

theorem parseNumeral_eq (buf : List Char) :
    Spec.parseNumeral buf = parseBody (hexSplit buf).1 (hexSplit buf).2 := by
  rfl

theorem hexSplit_cases (buf : List Char) :
    (∃ x r, buf = '0' :: x :: r ∧ (x = 'x' ∨ x = 'X') ∧ hexSplit buf = (true, r)) ∨
    (hexSplit buf = (false, buf) ∧ ∀ x r, buf = '0' :: x :: r → x ≠ 'x' ∧ x ≠ 'X') := by
  unfold hexSplit
  split
  · next x r =>
    by_cases h : (x == 'x' || x == 'X') = true
    · left
      refine ⟨x, r, rfl, by simpa using h, by simp only [h, if_true]⟩
    · right
      refine ⟨by simp only [h]; rfl, ?_⟩
      intro x' r' heq
      simp only [List.cons.injEq, true_and] at heq
      obtain ⟨rfl, rfl⟩ := heq
      simpa using h
  · next hne =>
    right
    refine ⟨rfl, ?_⟩
    intro x r heq
    exact absurd heq (hne x r)

def stage1 (s : LexSt) : Bool × Option (List Char) × LexSt :=
  let fuel := s.rest.length + 1
  if inStr s.cur Gen.number then
    let (isHex, digs, s0) : Bool × List Char × LexSt :=
      if s.cur == some '0' && (s.peek == some 'x' || s.peek == some 'X') then (true, Gen.hexNumber, advance (advance s))
      else (false, Gen.number, s)
    let (r, s1) := takeWhileIn digs true fuel s0 []
    (isHex, optStr r, s1)
  else (false, none, s)

def stage2 (isHex : Bool) (fuel : Nat) (s1 : LexSt) : Option (List Char) × LexSt :=
  let digs := if isHex then Gen.hexNumber else Gen.number
  if s1.cur == some '.' then
    let (r, s2) := takeWhileIn digs true fuel (advance s1) []
    (optStr r, s2)
  else (none, s1)

def stage3 (isHex : Bool) (ip fp : Option (List Char)) (fuel : Nat) (s2 : LexSt) : NumTuple × LexSt :=
  let isMark := if isHex then (s2.cur == some 'p' || s2.cur == some 'P') else (s2.cur == some 'e' || s2.cur == some 'E')
  if isMark then
    let s3 := advance s2
    let (sign, s4) : List Char × LexSt :=
      match s3.cur with
      | some c => if c == '+' || c == '-' then ([c], advance s3) else ([], s3)
      | none => ([], s3)
    let (ds, s5) := takeWhileIn Gen.number false fuel s4 []
    let r := sign ++ ds
    if !r.isEmpty && isHex then ({ isHex := isHex, ip := ip, fp := fp, ex := none, fo := some r }, s5)
    else if !r.isEmpty then ({ isHex := isHex, ip := ip, fp := fp, ex := some r, fo := none }, s5)
    else ({ isHex := isHex, ip := ip, fp := fp, ex := none, fo := none }, s5)
  else ({ isHex := isHex, ip := ip, fp := fp, ex := none, fo := none }, s2)

theorem num_getNumber_eq (s : LexSt) :
    getNumber s =
      (let fuel := s.rest.length + 1
       let (isHex, ip, s1) := stage1 s
       let (fp, s2) := stage2 isHex fuel s1
       stage3 isHex ip fp fuel s2) := by
  rfl

/-! ## the shape of a numeral's text -/

def dotS : Option (List Char) → List Char
  | none => []
  | some f => '.' :: f

def exS (m : Char) (sg : List Char) : Option (Bool × List Char) → List Char
  | none => []
  | some (_, ds) => m :: (sg ++ ds)

def SignOK (sg : List Char) (neg : Bool) : Prop :=
  (sg = [] ∧ neg = false) ∨ (sg = ['+'] ∧ neg = false) ∨ (sg = ['-'] ∧ neg = true)

/-- `n` is well formed; `m` is its exponent mark and `sg` the text of its exponent sign -/
structure NumWF (n : Spec.Numeral) (m : Char) (sg : List Char) : Prop where
  ip_dig : ∀ c ∈ n.ip, dig n.hex c = true
  fp_dig : ∀ f, n.fp = some f → ∀ c ∈ f, dig n.hex c = true
  mark : isExpC n.hex m = true
  ex_ok : ∀ neg ds, n.ex = some (neg, ds) → SignOK sg neg ∧ ds ≠ [] ∧ ∀ c ∈ ds, Spec.isDigit c = true
  valid : n.valid = true

theorem dig_dot (h : Bool) : dig h '.' = false := by cases h <;> decide

theorem mark_cases (h : Bool) (m : Char) (hm : isExpC h m = true) :
    (h = true ∧ (m = 'p' ∨ m = 'P')) ∨ (h = false ∧ (m = 'e' ∨ m = 'E')) := by
  cases h <;> simpa [isExpC] using hm

theorem mark_not_dig (h : Bool) (m : Char) (hm : isExpC h m = true) : dig h m = false ∧ m ≠ '.' := by
  rcases mark_cases h m hm with ⟨rfl, rfl | rfl⟩ | ⟨rfl, rfl | rfl⟩ <;> decide

theorem digit_not_sign (c : Char) (h : Spec.isDigit c = true) : c ≠ '+' ∧ c ≠ '-' := by
  constructor <;> rintro rfl <;> revert h <;> decide

theorem parseFrac_build (h : Bool) (fp : Option (List Char)) (tail : List Char)
    (hfp : ∀ f, fp = some f → ∀ c ∈ f, dig h c = true)
    (ht : ∀ c t, tail = c :: t → dig h c = false)
    (hd : fp = none → ∀ t, tail ≠ '.' :: t) :
    parseFrac h (dotS fp ++ tail) = (fp, tail) := by
  cases fp with
  | none =>
    simp only [dotS, List.nil_append]
    unfold parseFrac
    split
    · next r => exact absurd rfl (hd rfl r)
    · rfl
  | some f =>
    simp only [dotS, List.cons_append]
    unfold parseFrac
    simp only [spanP_append (dig h) f tail (hfp f rfl) ht]

theorem parseExp_build (h : Bool) (m : Char) (sg : List Char) (ex : Option (Bool × List Char))
    (hm : isExpC h m = true)
    (hex : ∀ neg ds, ex = some (neg, ds) → SignOK sg neg ∧ ds ≠ [] ∧ ∀ c ∈ ds, Spec.isDigit c = true) :
    parseExp h (exS m sg ex) = some ex := by
  cases ex with
  | none => rfl
  | some nd =>
    obtain ⟨neg, ds⟩ := nd
    obtain ⟨hs, hne, hds⟩ := hex neg ds rfl
    have hsp := spanP_all Spec.isDigit ds hds
    simp only [exS]
    unfold parseExp
    simp only [hm, if_true]
    rcases hs with ⟨rfl, rfl⟩ | ⟨rfl, rfl⟩ | ⟨rfl, rfl⟩
    · cases ds with
      | nil => exact absurd rfl hne
      | cons d ds =>
        have hd := digit_not_sign d (hds d (by simp))
        simp only [List.nil_append]
        split
        · next heq => simp only [List.cons.injEq] at heq; exact absurd heq.1 hd.1
        · next heq => simp only [List.cons.injEq] at heq; exact absurd heq.1 hd.2
        · simp only [hsp, List.isEmpty_nil, if_true]
    · simp only [List.cons_append, List.nil_append, hsp, List.isEmpty_nil, if_true]
    · simp only [List.cons_append, List.nil_append, hsp, List.isEmpty_nil, if_true]

theorem tail1_head (h : Bool) (m : Char) (sg : List Char) (fp : Option (List Char)) (ex : Option (Bool × List Char))
    (hm : isExpC h m = true) (rest : List Char) (hr : ∀ c t, rest = c :: t → dig h c = false) :
    ∀ c t, dotS fp ++ exS m sg ex ++ rest = c :: t → dig h c = false := by
  intro c t heq
  cases fp with
  | some f =>
    simp only [dotS, List.cons_append, List.cons.injEq] at heq
    rw [← heq.1]; exact dig_dot h
  | none =>
    cases ex with
    | some nd =>
      simp only [dotS, exS, List.nil_append, List.cons_append, List.cons.injEq] at heq
      rw [← heq.1]; exact (mark_not_dig h m hm).1
    | none =>
      simp only [dotS, exS, List.nil_append] at heq
      exact hr c t heq

theorem tail2_head (h : Bool) (m : Char) (sg : List Char) (ex : Option (Bool × List Char))
    (hm : isExpC h m = true) (rest : List Char) (hr : ∀ c t, rest = c :: t → dig h c = false ∧ c ≠ '.') :
    ∀ c t, exS m sg ex ++ rest = c :: t → dig h c = false ∧ c ≠ '.' := by
  intro c t heq
  cases ex with
  | some nd =>
    simp only [exS, List.cons_append, List.cons.injEq] at heq
    rw [← heq.1]; exact mark_not_dig h m hm
  | none =>
    simp only [exS, List.nil_append] at heq
    exact hr c t heq

theorem parseBody_build (n : Spec.Numeral) (m : Char) (sg : List Char) (wf : NumWF n m sg) :
    parseBody n.hex (n.ip ++ dotS n.fp ++ exS m sg n.ex) = some n := by
  obtain ⟨h, ip, fp, ex⟩ := n
  obtain ⟨hip, hfp, hm, hex, hv⟩ := wf
  simp only at hip hfp hm hex hv ⊢
  have hnil : ∀ c t, ([] : List Char) = c :: t → dig h c = false ∧ c ≠ '.' := by intro c t hh; cases hh
  have e1 : Spec.spanP (dig h) (ip ++ dotS fp ++ exS m sg ex) = (ip, dotS fp ++ exS m sg ex) := by
    rw [List.append_assoc]
    apply spanP_append _ _ _ hip
    have := tail1_head h m sg fp ex hm [] (fun c t hh => (hnil c t hh).1)
    simpa using this
  have h2 := tail2_head h m sg ex hm [] hnil
  simp only [List.append_nil] at h2
  have e2 : parseFrac h (dotS fp ++ exS m sg ex) = (fp, exS m sg ex) :=
    parseFrac_build h fp _ hfp (fun c t hh => (h2 c t hh).1) (fun _ t hh => (h2 '.' t hh).2 rfl)
  have e3 := parseExp_build h m sg ex hm hex
  unfold parseBody
  simp only [e1, e2, e3, hv, if_true]

theorem parseFrac_inv (h : Bool) (r1 r2 : List Char) (fp : Option (List Char))
    (hp : parseFrac h r1 = (fp, r2)) :
    r1 = dotS fp ++ r2 ∧ (∀ f, fp = some f → ∀ c ∈ f, dig h c = true) := by
  unfold parseFrac at hp
  split at hp
  · next r =>
    generalize hq : Spec.spanP (dig h) r = q at hp
    obtain ⟨f, r'⟩ := q
    simp only [Prod.mk.injEq] at hp
    obtain ⟨rfl, rfl⟩ := hp
    obtain ⟨h1, h2, _⟩ := spanP_inv _ _ _ _ hq
    refine ⟨by simp [dotS, h1], ?_⟩
    intro f' hf'
    cases hf'
    exact h2
  · simp only [Prod.mk.injEq] at hp
    obtain ⟨rfl, rfl⟩ := hp
    exact ⟨by simp [dotS], by intro f hf; cases hf⟩

theorem parseExp_inv (h : Bool) (r2 : List Char) (ex : Option (Bool × List Char))
    (hp : parseExp h r2 = some ex) :
    ∃ m sg, r2 = exS m sg ex ∧ isExpC h m = true ∧
      ∀ neg ds, ex = some (neg, ds) → SignOK sg neg ∧ ∀ c ∈ ds, Spec.isDigit c = true := by
  unfold parseExp at hp
  split at hp
  · simp only [Option.some.injEq] at hp
    subst hp
    refine ⟨if h then 'p' else 'e', [], rfl, by cases h <;> rfl, by intro _ _ hh; cases hh⟩
  · next e r =>
    by_cases hm : isExpC h e = true
    · simp only [hm, if_true] at hp
      have key : ∀ (neg : Bool) (sg r' : List Char), r = sg ++ r' → SignOK sg neg →
          (match Spec.spanP Spec.isDigit r' with
            | (ds, r'') => if r''.isEmpty = true then some (some (neg, ds)) else none) = some ex →
          ∃ m sg, e :: r = exS m sg ex ∧ isExpC h m = true ∧
            ∀ neg ds, ex = some (neg, ds) → SignOK sg neg ∧ ∀ c ∈ ds, Spec.isDigit c = true := by
        intro neg sg r' hr hsg hp
        generalize hq : Spec.spanP Spec.isDigit r' = q at hp
        obtain ⟨ds, r''⟩ := q
        simp only at hp
        cases r'' with
        | cons _ _ => simp at hp
        | nil =>
          simp only [List.isEmpty_nil, if_true, Option.some.injEq] at hp
          subst hp
          obtain ⟨h1, h2, _⟩ := spanP_inv _ _ _ _ hq
          refine ⟨e, sg, by simp [exS, hr, h1], hm, ?_⟩
          intro neg' ds' hh
          simp only [Option.some.injEq, Prod.mk.injEq] at hh
          obtain ⟨rfl, rfl⟩ := hh
          exact ⟨hsg, h2⟩
      split at hp
      · next r' => exact key false ['+'] r' rfl (Or.inr (Or.inl ⟨rfl, rfl⟩)) hp
      · next r' => exact key true ['-'] r' rfl (Or.inr (Or.inr ⟨rfl, rfl⟩)) hp
      · exact key false [] r rfl (Or.inl ⟨rfl, rfl⟩) hp
    · simp only [hm] at hp
      simp at hp

theorem parseBody_inv (h : Bool) (body : List Char) (n : Spec.Numeral) (hp : parseBody h body = some n) :
    ∃ m sg, n.hex = h ∧ body = n.ip ++ dotS n.fp ++ exS m sg n.ex ∧ NumWF n m sg := by
  unfold parseBody at hp
  generalize hq1 : Spec.spanP (dig h) body = q1 at hp
  obtain ⟨ip, r1⟩ := q1
  simp only at hp
  generalize hq2 : parseFrac h r1 = q2 at hp
  obtain ⟨fp, r2⟩ := q2
  simp only at hp
  split at hp
  · cases hp
  · next ex hq3 =>
    split at hp
    · next hv =>
      simp only [Option.some.injEq] at hp
      subst hp
      obtain ⟨a1, a2, _⟩ := spanP_inv _ _ _ _ hq1
      obtain ⟨b1, b2⟩ := parseFrac_inv _ _ _ _ hq2
      obtain ⟨m, sg, c1, c2, c3⟩ := parseExp_inv _ _ _ hq3
      refine ⟨m, sg, rfl, by simp [a1, b1, c1], ⟨a2, b2, c2, ?_, hv⟩⟩
      intro neg ds hex
      simp only at hex
      obtain ⟨d1, d2⟩ := c3 neg ds hex
      refine ⟨d1, ?_, d2⟩
      rintro rfl
      simp [Spec.Numeral.valid, hex] at hv
    · cases hp

/-! ## `getNumber` on a well-formed numeral followed by a boundary -/

def digSet (h : Bool) : List Char := if h then Gen.hexNumber else Gen.number

theorem digSet_contains (h : Bool) (c : Char) : (digSet h).contains c = dig h c := by
  cases h
  · exact number_contains c
  · exact hexNumber_contains c

theorem dig_lower (h : Bool) (l : List Char) (hl : ∀ c ∈ l, dig h c = true) :
    ∀ c ∈ l.map lowerChar, dig h c = true := by
  intro c hc
  simp only [List.mem_map] at hc
  obtain ⟨d, hd, rfl⟩ := hc
  have := hl d hd
  cases h
  · simp only [dig] at this ⊢
    have e := (lower_xdigit d (digit_xdigit d this)).2.2 this
    simp only [Bool.false_eq_true, if_false] at this ⊢
    rw [e]; exact this
  · simp only [dig, if_true] at this ⊢
    exact (lower_xdigit d this).1

theorem stage1_spec (s : LexSt) (h : Bool) (x : Char) (ip tail : List Char)
    (hs : s.rest = (if h then ['0', x] else []) ++ ip ++ tail)
    (hx : x = 'x' ∨ x = 'X')
    (hip : ∀ c ∈ ip, dig h c = true)
    (ht : ∀ c t, tail = c :: t → dig h c = false ∧ c ≠ 'x' ∧ c ≠ 'X') :
    ∃ s1, stage1 s = (h, optStr (ip.map lowerChar), s1) ∧ s1.rest = tail := by
  have htd : ∀ c t, tail = c :: t → (digSet h).contains c = false := by
    intro c t hh; rw [digSet_contains]; exact (ht c t hh).1
  have hipd : ∀ c ∈ ip, (digSet h).contains c = true := by
    intro c hc; rw [digSet_contains]; exact hip c hc
  cases h with
  | true =>
    simp only [if_true, List.cons_append, List.nil_append] at hs
    have hcur : s.cur = some '0' := by simp [cur_eq, hs]
    have hpk : s.peek = some x := by simp [LexSt.peek, hs]
    have hr0 : (advance (advance s)).rest = ip ++ tail := by simp [num_advance_rest, hs]
    obtain ⟨s1, e1, e2⟩ := takeWhileIn_spec (digSet true) true ip tail hipd htd (s.rest.length + 1)
      (advance (advance s)) [] hr0 (by simp [hs]; omega)
    refine ⟨s1, ?_, e2⟩
    have hc : (s.peek == some 'x' || s.peek == some 'X') = true := by
      rw [hpk]; rcases hx with rfl | rfl <;> decide
    have hin : inStr (some '0') Gen.number = true := by decide
    simp only [digSet, if_true] at e1
    unfold stage1
    simp only [hcur, hin, hc, if_true, beq_self_eq_true, Bool.and_self, e1]
    simp
  | false =>
    simp only [Bool.false_eq_true, if_false, List.nil_append] at hs
    cases ip with
    | nil =>
      simp only [List.nil_append] at hs
      refine ⟨s, ?_, hs⟩
      have hin : inStr s.cur Gen.number = false := by
        cases tail with
        | nil => simp [cur_eq, hs, inStr]
        | cons c t =>
          have := htd c t rfl
          simp only [digSet, Bool.false_eq_true, if_false] at this
          simp only [cur_eq, hs, List.head?_cons, inStr, this]
      unfold stage1
      simp only [hin, Bool.false_eq_true, if_false]
      rfl
    | cons d ip' =>
      have hd := hipd d (by simp)
      simp only [digSet, Bool.false_eq_true, if_false] at hd
      have hcur : s.cur = some d := by simp [cur_eq, hs]
      have hin : inStr (some d) Gen.number = true := by simp only [inStr, hd]
      have hpk : (s.peek == some 'x' || s.peek == some 'X') = false := by
        cases ip' with
        | nil =>
          cases tail with
          | nil => simp [LexSt.peek, hs]
          | cons c t =>
            have := ht c t rfl
            simp [LexSt.peek, hs, this.2.1, this.2.2]
        | cons d' ip'' =>
          have hd' := hip d' (by simp)
          have : d' ≠ 'x' ∧ d' ≠ 'X' := by
            constructor <;> rintro rfl <;> revert hd' <;> decide
          simp [LexSt.peek, hs, this.1, this.2]
      obtain ⟨s1, e1, e2⟩ := takeWhileIn_spec (digSet false) true (d :: ip') tail hipd htd (s.rest.length + 1)
        s [] hs (by simp [hs]; omega)
      refine ⟨s1, ?_, e2⟩
      simp only [digSet, Bool.false_eq_true, if_false] at e1
      unfold stage1
      simp only [hcur, hin, hpk, if_true, Bool.and_false, Bool.false_eq_true, if_false, e1]
      simp

theorem stage2_spec (h : Bool) (fuel : Nat) (s1 : LexSt) (fp : Option (List Char)) (tail : List Char)
    (hs : s1.rest = dotS fp ++ tail)
    (hfp : ∀ f, fp = some f → ∀ c ∈ f, dig h c = true)
    (ht : ∀ c t, tail = c :: t → dig h c = false ∧ c ≠ '.')
    (hf : s1.rest.length < fuel) :
    ∃ s2, stage2 h fuel s1 = (fp.bind (fun f => optStr (f.map lowerChar)), s2) ∧ s2.rest = tail := by
  have htd : ∀ c t, tail = c :: t → (digSet h).contains c = false := by
    intro c t hh; rw [digSet_contains]; exact (ht c t hh).1
  cases fp with
  | none =>
    simp only [dotS, List.nil_append] at hs
    refine ⟨s1, ?_, hs⟩
    have hc : (s1.cur == some '.') = false := by
      cases tail with
      | nil => simp [cur_eq, hs]
      | cons c t => simp [cur_eq, hs, (ht c t rfl).2]
    unfold stage2
    simp only [hc, Bool.false_eq_true, if_false]
    rfl
  | some f =>
    simp only [dotS, List.cons_append] at hs
    have hc : (s1.cur == some '.') = true := by simp [cur_eq, hs]
    have hfd : ∀ c ∈ f, (digSet h).contains c = true := by
      intro c hc; rw [digSet_contains]; exact hfp f rfl c hc
    obtain ⟨s2, e1, e2⟩ := takeWhileIn_spec (digSet h) true f tail hfd htd fuel (advance s1) []
      (by simp [num_advance_rest, hs]) (by simp [hs] at hf; omega)
    refine ⟨s2, ?_, e2⟩
    unfold stage2
    simp only [hc, if_true]
    simp only [digSet] at e1
    simp only [e1]
    simp

def exTuple (h : Bool) (ip fp : Option (List Char)) (sg : List Char) (ex : Option (Bool × List Char)) : NumTuple :=
  { isHex := h, ip := ip, fp := fp,
    ex := if h then none else ex.map (fun nd => sg ++ nd.2),
    fo := if h then ex.map (fun nd => sg ++ nd.2) else none }

theorem isMark_eq (h : Bool) (o : Option Char) :
    (if h then (o == some 'p' || o == some 'P') else (o == some 'e' || o == some 'E')) =
      (match o with | some c => isExpC h c | none => false) := by
  cases o with
  | none => cases h <;> rfl
  | some c => cases h <;> simp [isExpC]

theorem stage3_spec (h : Bool) (ip fp : Option (List Char)) (fuel : Nat) (s2 : LexSt) (m : Char) (sg : List Char)
    (ex : Option (Bool × List Char)) (rest : List Char)
    (hs : s2.rest = exS m sg ex ++ rest)
    (hm : isExpC h m = true)
    (hex : ∀ neg ds, ex = some (neg, ds) → SignOK sg neg ∧ ds ≠ [] ∧ ∀ c ∈ ds, Spec.isDigit c = true)
    (hr : ∀ c t, rest = c :: t → Spec.isDigit c = false ∧ isExpC h c = false)
    (hf : s2.rest.length < fuel) :
    ∃ s5, stage3 h ip fp fuel s2 = (exTuple h ip fp sg ex, s5) ∧ s5.rest = rest := by
  cases ex with
  | none =>
    simp only [exS, List.nil_append] at hs
    refine ⟨s2, ?_, hs⟩
    have hmk : (match s2.cur with | some c => isExpC h c | none => false) = false := by
      cases rest with
      | nil => simp [cur_eq, hs]
      | cons c t => simp [cur_eq, hs, (hr c t rfl).2]
    unfold stage3
    simp only [isMark_eq, hmk, Bool.false_eq_true, if_false, exTuple, Option.map_none, ite_self]
  | some nd =>
    obtain ⟨neg, ds⟩ := nd
    obtain ⟨hsg, hne, hds⟩ := hex neg ds rfl
    simp only [exS, List.cons_append] at hs
    have hmk : (match s2.cur with | some c => isExpC h c | none => false) = true := by
      simp [cur_eq, hs, hm]
    have hdsd : ∀ c ∈ ds, Gen.number.contains c = true := by
      intro c hc; rw [number_contains]; exact hds c hc
    have hrd : ∀ c t, rest = c :: t → Gen.number.contains c = false := by
      intro c t hh; rw [number_contains]; exact (hr c t hh).1
    have h3 : (advance s2).rest = sg ++ ds ++ rest := by simp [num_advance_rest, hs]
    -- the sign step
    have hsign : ∃ s4, (match (advance s2).cur with
        | some c => if (c == '+' || c == '-') = true then ([c], advance (advance s2)) else ([], advance s2)
        | none => ([], advance s2)) = (sg, s4) ∧ s4.rest = ds ++ rest := by
      rcases hsg with ⟨rfl, _⟩ | ⟨rfl, _⟩ | ⟨rfl, _⟩
      · cases ds with
        | nil => exact absurd rfl hne
        | cons d ds' =>
          have hd := digit_not_sign d (hds d (by simp))
          refine ⟨advance s2, ?_, by simpa using h3⟩
          have : (advance s2).cur = some d := by simp [cur_eq, h3]
          simp [this, hd.1, hd.2]
      · refine ⟨advance (advance s2), ?_, by rw [num_advance_rest, h3]; rfl⟩
        have : (advance s2).cur = some '+' := by simp [cur_eq, h3]
        simp [this]
      · refine ⟨advance (advance s2), ?_, by rw [num_advance_rest, h3]; rfl⟩
        have : (advance s2).cur = some '-' := by simp [cur_eq, h3]
        simp [this]
    obtain ⟨s4, e4, r4⟩ := hsign
    obtain ⟨s5, e5, r5⟩ := takeWhileIn_spec Gen.number false ds rest hdsd hrd fuel s4 [] r4
      (by simp [hs] at hf; omega)
    refine ⟨s5, ?_, r5⟩
    have hrne : (sg ++ ds).isEmpty = false := by
      cases ds with
      | nil => exact absurd rfl hne
      | cons d ds' => cases sg <;> rfl
    unfold stage3
    simp only [isMark_eq, hmk, if_true, e4, e5]
    simp only [Bool.false_eq_true, if_false, List.map_id', List.reverse_nil, List.nil_append, hrne, Bool.not_false,
      Bool.true_and, exTuple, Option.map_some]
    cases h <;> simp

/-- what follows the numeral does not continue it (Lua rejects a numeral that touches a letter, digit,
underscore or dot) -/
def Boundary (rest : List Char) : Prop :=
  match rest with
  | [] => True
  | c :: _ => Gen.alphanumeric.contains c = false ∧ c ≠ '.'

theorem boundary_facts (rest : List Char) (hb : Boundary rest) (c : Char) (t : List Char) (hr : rest = c :: t) :
    (∀ h, dig h c = false) ∧ c ≠ '.' ∧ c ≠ 'x' ∧ c ≠ 'X' ∧ (∀ h, isExpC h c = false) := by
  subst hr
  obtain ⟨h1, h2⟩ := hb
  have hx : Spec.isXDigit c = false := by
    cases hh : Spec.isXDigit c with
    | false => rfl
    | true => rw [xdigit_alnum c hh] at h1; cases h1
  have hd : Spec.isDigit c = false := by
    cases hh : Spec.isDigit c with
    | false => rfl
    | true => rw [digit_xdigit c hh] at hx; cases hx
  have hne : ∀ d : Char, Gen.alphanumeric.contains d = true → c ≠ d := by
    rintro d hd rfl; rw [hd] at h1; cases h1
  have e1 := hne 'x' (by decide)
  have e2 := hne 'X' (by decide)
  have e3 := hne 'p' (by decide)
  have e4 := hne 'P' (by decide)
  have e5 := hne 'e' (by decide)
  have e6 := hne 'E' (by decide)
  refine ⟨?_, h2, e1, e2, ?_⟩
  · intro h; cases h <;> simp [dig, hx, hd]
  · intro h; cases h <;> simp [isExpC, e3, e4, e5, e6]

theorem head_cases (P : Char → Prop) (m : Char) (sg : List Char) (fp : Option (List Char))
    (ex : Option (Bool × List Char)) (rest : List Char)
    (hdot : fp ≠ none → P '.') (hm : fp = none → ex ≠ none → P m)
    (hr : fp = none → ex = none → ∀ c t, rest = c :: t → P c) :
    ∀ c t, dotS fp ++ exS m sg ex ++ rest = c :: t → P c := by
  intro c t heq
  cases fp with
  | some f =>
    simp only [dotS, List.cons_append, List.cons.injEq] at heq
    rw [← heq.1]; exact hdot (by simp)
  | none =>
    cases ex with
    | some nd =>
      simp only [dotS, exS, List.nil_append, List.cons_append, List.cons.injEq] at heq
      rw [← heq.1]; exact hm rfl (by simp)
    | none =>
      simp only [dotS, exS, List.nil_append] at heq
      exact hr rfl rfl c t heq

/-- the text of a well-formed numeral -/
def numText (n : Spec.Numeral) (x m : Char) (sg : List Char) : List Char :=
  (if n.hex then ['0', x] else []) ++ n.ip ++ dotS n.fp ++ exS m sg n.ex

/-- the tuple the scanner delivers for it -/
def tupleOf (n : Spec.Numeral) (sg : List Char) : NumTuple :=
  exTuple n.hex (optStr (n.ip.map lowerChar)) (n.fp.bind (fun f => optStr (f.map lowerChar))) sg n.ex

theorem getNumber_spec (s : LexSt) (n : Spec.Numeral) (x m : Char) (sg rest : List Char)
    (wf : NumWF n m sg) (hx : x = 'x' ∨ x = 'X') (hb : Boundary rest)
    (hs : s.rest = numText n x m sg ++ rest) :
    (getNumber s).1 = tupleOf n sg ∧ (getNumber s).2.rest = rest := by
  obtain ⟨hip, hfp, hm, hex, hv⟩ := wf
  have hbf := boundary_facts rest hb
  have hmd := mark_not_dig n.hex m hm
  have hmx : m ≠ 'x' ∧ m ≠ 'X' := by
    rcases mark_cases n.hex m hm with ⟨_, rfl | rfl⟩ | ⟨_, rfl | rfl⟩ <;> decide
  have hs1 : s.rest = (if n.hex then ['0', x] else []) ++ n.ip ++ (dotS n.fp ++ exS m sg n.ex ++ rest) := by
    simp [hs, numText]
  obtain ⟨s1, e1, r1⟩ := stage1_spec s n.hex x n.ip _ hs1 hx hip
    (head_cases (fun c => dig n.hex c = false ∧ c ≠ 'x' ∧ c ≠ 'X') m sg n.fp n.ex rest
      (fun _ => ⟨dig_dot _, by decide, by decide⟩) (fun _ _ => ⟨hmd.1, hmx⟩)
      (fun _ _ c t hh => ⟨(hbf c t hh).1 _, (hbf c t hh).2.2.1, (hbf c t hh).2.2.2.1⟩))
  have hl1 : s1.rest.length < s.rest.length + 1 := by
    rw [r1, hs1]; simp only [List.length_append]; omega
  have r1' : s1.rest = dotS n.fp ++ (exS m sg n.ex ++ rest) := by simp [r1]
  obtain ⟨s2, e2, r2⟩ := stage2_spec n.hex (s.rest.length + 1) s1 n.fp _ r1' hfp
    (by
      have := head_cases (fun c => dig n.hex c = false ∧ c ≠ '.') m sg none n.ex rest
        (fun hh => absurd rfl hh) (fun _ _ => hmd)
        (fun _ _ c t hh => ⟨(hbf c t hh).1 _, (hbf c t hh).2.1⟩)
      simpa [dotS] using this) hl1
  have hl2 : s2.rest.length < s.rest.length + 1 := by
    rw [r2, hs1]; simp only [List.length_append]; omega
  obtain ⟨s5, e5, r5⟩ := stage3_spec n.hex (optStr (n.ip.map lowerChar))
    (n.fp.bind (fun f => optStr (f.map lowerChar))) (s.rest.length + 1) s2 m sg n.ex rest r2 hm hex
    (fun c t hh => ⟨by have := (hbf c t hh).1 false; simpa [dig] using this, (hbf c t hh).2.2.2.2 _⟩) hl2
  rw [num_getNumber_eq]
  simp only [e1, e2, e5, r5, tupleOf, and_self]

/-! ## printing the tuple and reading it back -/

/-- the numeral that the printed text denotes -/
def canon (n : Spec.Numeral) : Spec.Numeral :=
  { hex := n.hex,
    ip := if n.ip.isEmpty then [if n.hex then '1' else '0'] else n.ip.map lowerChar,
    fp := n.fp.bind (fun f => optStr (f.map lowerChar)),
    ex := n.ex }

def stdMark (h : Bool) : Char := if h then 'p' else 'e'

set_option linter.unusedSimpArgs false in
theorem numberStr_tupleOf (n : Spec.Numeral) (m : Char) (sg : List Char) (wf : NumWF n m sg) :
    numberStr (tupleOf n sg) = numText (canon n) 'x' (stdMark n.hex) sg := by
  obtain ⟨h, ip, fp, ex⟩ := n
  have hex := wf.ex_ok
  simp only at hex
  have hexne : ∀ neg ds, ex = some (neg, ds) → (sg ++ ds).isEmpty = false := by
    intro neg ds hh
    obtain ⟨_, hne, _⟩ := hex neg ds hh
    cases ds with
    | nil => exact absurd rfl hne
    | cons d ds' => cases sg <;> rfl
  cases ex with
  | none =>
    cases h <;> cases ip <;> rcases fp with _ | (_ | _) <;>
      simp [numberStr, tupleOf, exTuple, canon, numText, optStr, dotS, exS, stdMark]
  | some nd =>
    obtain ⟨neg, ds⟩ := nd
    have := hexne neg ds rfl
    cases h <;> cases ip <;> rcases fp with _ | (_ | _) <;>
      simp [numberStr, tupleOf, exTuple, canon, numText, optStr, dotS, exS, stdMark, this]

theorem canon_wf (n : Spec.Numeral) (m : Char) (sg : List Char) (wf : NumWF n m sg) :
    NumWF (canon n) (stdMark n.hex) sg := by
  obtain ⟨hip, hfp, hm, hex, hv⟩ := wf
  refine ⟨?_, ?_, ?_, hex, ?_⟩
  · intro c hc
    simp only [canon] at hc ⊢
    split at hc
    · simp only [List.mem_singleton] at hc
      subst hc
      cases n.hex <;> decide
    · exact dig_lower _ _ hip c hc
  · intro f hf c hc
    simp only [canon] at hf ⊢
    cases hfp' : n.fp with
    | none => simp [hfp'] at hf
    | some f0 =>
      simp only [hfp', Option.bind_some, optStr] at hf
      split at hf
      · cases hf
      · simp only [Option.some.injEq] at hf
        subst hf
        exact dig_lower _ _ (hfp f0 hfp') c hc
  · simp only [canon, stdMark]; cases n.hex <;> rfl
  · simp only [Spec.Numeral.valid, canon, Bool.and_eq_true] at hv ⊢
    refine ⟨?_, hv.2⟩
    cases n.ip <;> simp

theorem dec_no_x (n : Spec.Numeral) (m : Char) (sg : List Char) (wf : NumWF n m sg) (hh : n.hex = false) :
    ∀ c ∈ n.ip ++ dotS n.fp ++ exS m sg n.ex, c ≠ 'x' ∧ c ≠ 'X' := by
  obtain ⟨hip, hfp, hm, hex, hv⟩ := wf
  rw [hh] at hip hfp hm
  have hd : ∀ c, dig false c = true → c ≠ 'x' ∧ c ≠ 'X' := by
    intro c hc; constructor <;> rintro rfl <;> revert hc <;> decide
  have hd' : ∀ c, Spec.isDigit c = true → c ≠ 'x' ∧ c ≠ 'X' := hd
  intro c hc
  simp only [List.mem_append] at hc
  rcases hc with (hc | hc) | hc
  · exact hd c (hip c hc)
  · cases hfp' : n.fp with
    | none => simp [hfp', dotS] at hc
    | some f =>
      simp only [hfp', dotS, List.mem_cons] at hc
      rcases hc with rfl | hc
      · decide
      · exact hd c (hfp f hfp' c hc)
  · cases hex' : n.ex with
    | none => simp [hex', exS] at hc
    | some nd =>
      obtain ⟨neg, ds⟩ := nd
      obtain ⟨hsg, _, hds⟩ := hex neg ds hex'
      simp only [hex', exS, List.mem_cons, List.mem_append] at hc
      rcases hc with rfl | hc | hc
      · rcases mark_cases false c hm with ⟨h0, _⟩ | ⟨_, rfl | rfl⟩
        · cases h0
        · decide
        · decide
      · rcases hsg with ⟨rfl, _⟩ | ⟨rfl, _⟩ | ⟨rfl, _⟩
        · cases hc
        · simp only [List.mem_singleton] at hc; subst hc; decide
        · simp only [List.mem_singleton] at hc; subst hc; decide
      · exact hd' c (hds c hc)

theorem parseNumeral_build (n : Spec.Numeral) (x m : Char) (sg : List Char) (wf : NumWF n m sg)
    (hx : x = 'x' ∨ x = 'X') : Spec.parseNumeral (numText n x m sg) = some n := by
  rw [parseNumeral_eq]
  cases hh : n.hex with
  | true =>
    have e : hexSplit (numText n x m sg) = (true, n.ip ++ dotS n.fp ++ exS m sg n.ex) := by
      simp only [numText, hh, if_true, List.cons_append, List.nil_append]
      rcases hx with rfl | rfl <;> rfl
    rw [e]
    have := parseBody_build n m sg wf
    rw [hh] at this
    exact this
  | false =>
    have e0 : numText n x m sg = n.ip ++ dotS n.fp ++ exS m sg n.ex := by
      simp [numText, hh]
    have e : hexSplit (numText n x m sg) = (false, numText n x m sg) := by
      rcases hexSplit_cases (numText n x m sg) with ⟨y, r, h1, h2, _⟩ | ⟨h1, _⟩
      · have := dec_no_x n m sg wf hh y (by rw [← e0, h1]; simp)
        rcases h2 with rfl | rfl
        · exact absurd rfl this.1
        · exact absurd rfl this.2
      · exact h1
    rw [e, e0]
    have := parseBody_build n m sg wf
    rw [hh] at this
    exact this

theorem parseNumeral_inv (src : List Char) (n : Spec.Numeral) (hp : Spec.parseNumeral src = some n) :
    ∃ x m sg, (x = 'x' ∨ x = 'X') ∧ src = numText n x m sg ∧ NumWF n m sg := by
  rw [parseNumeral_eq] at hp
  rcases hexSplit_cases src with ⟨x, r, h1, h2, h3⟩ | ⟨h1, _⟩
  · rw [h3] at hp
    obtain ⟨m, sg, a1, a2, a3⟩ := parseBody_inv _ _ _ hp
    refine ⟨x, m, sg, h2, ?_, a3⟩
    simp only at a2
    simp [numText, a1, h1, a2]
  · rw [h1] at hp
    obtain ⟨m, sg, a1, a2, a3⟩ := parseBody_inv _ _ _ hp
    refine ⟨'x', m, sg, Or.inl rfl, ?_, a3⟩
    simp only at a2
    simp only [numText, a1, Bool.false_eq_true, if_false, List.nil_append]
    exact a2

/-! ## the value -/

theorem dig_xdigit (h : Bool) (c : Char) (hc : dig h c = true) : Spec.isXDigit c = true := by
  cases h
  · exact digit_xdigit c hc
  · exact hc

theorem foldl_lower (base : Nat) (l : List Char) (hl : ∀ c ∈ l, Spec.isXDigit c = true) (acc : Nat) :
    (l.map lowerChar).foldl (fun a c => a * base + Spec.xdigitVal c) acc =
      l.foldl (fun a c => a * base + Spec.xdigitVal c) acc := by
  induction l generalizing acc with
  | nil => rfl
  | cons x l ih =>
    simp only [List.map_cons, List.foldl_cons]
    rw [(lower_xdigit x (hl x (by simp))).2.1]
    exact ih (fun c hc => hl c (by simp [hc])) _

theorem digitsVal_lower (base : Nat) (l : List Char) (hl : ∀ c ∈ l, Spec.isXDigit c = true) :
    Spec.digitsVal base (l.map lowerChar) = Spec.digitsVal base l :=
  foldl_lower base l hl 0

theorem digitsVal_zero_cons (base : Nat) (l : List Char) : Spec.digitsVal base ('0' :: l) = Spec.digitsVal base l := by
  have : Spec.xdigitVal '0' = 0 := by decide
  simp [Spec.digitsVal, this]

def K2 (n : Spec.Numeral) : Prop := n.fp = some [] ∧ n.ex = none
def K3 (n : Spec.Numeral) : Prop := n.hex = true ∧ n.ip = []

theorem numValue_canon (n : Spec.Numeral) (m : Char) (sg : List Char) (wf : NumWF n m sg)
    (hk2 : ¬ K2 n) (hk3 : ¬ K3 n) : Spec.numValue (canon n) = Spec.numValue n := by
  obtain ⟨h, ip, fp, ex⟩ := n
  obtain ⟨hip, hfp, _, _, hv⟩ := wf
  simp only [K2, K3] at hk2 hk3 hip hfp
  have hipx : ∀ c ∈ ip, Spec.isXDigit c = true := fun c hc => dig_xdigit h c (hip c hc)
  have hfx : ∀ f, fp = some f → ∀ c ∈ f, Spec.isXDigit c = true := fun f hf c hc => dig_xdigit h c (hfp f hf c hc)
  -- the mantissa digits
  have E2 : ∀ (base : Nat) (f : List Char), (∀ c ∈ f, Spec.isXDigit c = true) →
      Spec.digitsVal base ((if ip.isEmpty then [if h then '1' else '0'] else ip.map lowerChar) ++ f.map lowerChar) =
        Spec.digitsVal base (ip ++ f) := by
    intro base f hf
    cases ip with
    | nil =>
      cases h with
      | true => exact absurd ⟨rfl, rfl⟩ hk3
      | false =>
        simp only [List.isEmpty_nil, if_true, Bool.false_eq_true, if_false, List.cons_append, List.nil_append]
        rw [digitsVal_zero_cons, digitsVal_lower base f hf]
    | cons d ip' =>
      simp only [List.isEmpty_cons, Bool.false_eq_true, if_false]
      rw [← List.map_append]
      apply digitsVal_lower
      intro c hc
      simp only [List.mem_append] at hc
      rcases hc with hc | hc
      · exact hipx c hc
      · exact hf c hc
  have E2' : ∀ (base : Nat), Spec.digitsVal base (if ip.isEmpty then [if h then '1' else '0'] else ip.map lowerChar) =
        Spec.digitsVal base ip := by
    intro base
    have := E2 base [] (by simp)
    simpa using this
  cases fp with
  | none =>
    cases ex with
    | none =>
      simp only [Spec.numValue, canon, Option.bind_none, E2']
    | some e =>
      simp only [Spec.numValue, canon, Option.bind_none, Option.getD_none, List.append_nil, E2', List.length_nil]
  | some f =>
    have hf := hfx f rfl
    cases f with
    | nil =>
      cases ex with
      | none => exact absurd ⟨rfl, rfl⟩ hk2
      | some e =>
        simp only [Spec.numValue, canon, Option.bind_some, optStr, List.map_nil, List.isEmpty_nil, if_true,
          Option.getD_none, Option.getD_some, List.append_nil, E2', List.length_nil]
    | cons d f' =>
      have e2 := fun base => E2 base (d :: f') hf
      simp only [List.map_cons] at e2
      cases ex <;>
      simp only [Spec.numValue, canon, Option.bind_some, optStr, List.map_cons, List.isEmpty_cons, Bool.false_eq_true,
          if_false, Option.getD_some, e2, List.length_cons, List.length_map]

/-! ## C07 -/

/-- A numeral that Lua accepts (`parseNumeral src = some n`), is not one of the two known findings, and is
followed by something that does not continue it, is scanned completely by `get_number`; the text that
`Number.__str__` prints for the scanned tuple is again a Lua numeral, of the same kind and value. -/
theorem C07_roundtrip (src rest : List Char) (n : Spec.Numeral) (hp : Spec.parseNumeral src = some n)
    (hk2 : ¬ K2 n) (hk3 : ¬ K3 n) (hb : Boundary rest) (s : LexSt) (hs : s.rest = src ++ rest) :
    ∃ n', (getNumber s).2.rest = rest ∧ Spec.parseNumeral (numberStr (getNumber s).1) = some n' ∧
      Spec.numValue n' = Spec.numValue n := by
  obtain ⟨x, m, sg, hx, hsrc, wf⟩ := parseNumeral_inv src n hp
  obtain ⟨g1, g2⟩ := getNumber_spec s n x m sg rest wf hx hb (by rw [hs, hsrc])
  refine ⟨canon n, g2, ?_, numValue_canon n m sg wf hk2 hk3⟩
  rw [g1, numberStr_tupleOf n m sg wf]
  have := parseNumeral_build (canon n) 'x' (stdMark n.hex) sg (canon_wf n m sg wf) (Or.inl rfl)
  exact this

/-- the same with the printed numeral named: it is `canon n` (lower-cased digits, `0` for a missing decimal
integer part, an empty fraction dropped, the exponent unchanged) -/
theorem C07_roundtrip_canon (src rest : List Char) (n : Spec.Numeral) (hp : Spec.parseNumeral src = some n)
    (hb : Boundary rest) (s : LexSt) (hs : s.rest = src ++ rest) :
    (getNumber s).2.rest = rest ∧ Spec.parseNumeral (numberStr (getNumber s).1) = some (canon n) := by
  obtain ⟨x, m, sg, hx, hsrc, wf⟩ := parseNumeral_inv src n hp
  obtain ⟨g1, g2⟩ := getNumber_spec s n x m sg rest wf hx hb (by rw [hs, hsrc])
  refine ⟨g2, ?_⟩
  rw [g1, numberStr_tupleOf n m sg wf]
  exact parseNumeral_build (canon n) 'x' (stdMark n.hex) sg (canon_wf n m sg wf) (Or.inl rfl)

/-- K2 is real: `5.` is a float for Lua, and is printed as the integer `5` -/
example : let s := initLex "5.".toList
    Spec.numValue ((Spec.parseNumeral (numberStr (getNumber s).1)).get!) ≠
      Spec.numValue ((Spec.parseNumeral "5.".toList).get!) := by decide +kernel

/-- K3 is real: `0x.8` is 0.5 for Lua, and is printed as `0x1.8` = 1.5 -/
example : let s := initLex "0x.8".toList
    Spec.numValue ((Spec.parseNumeral (numberStr (getNumber s).1)).get!) ≠
      Spec.numValue ((Spec.parseNumeral "0x.8".toList).get!) := by decide +kernel

end Tumfl.Theory
