import Tumfl.Theory.PrintSimDefs
/-!
# Token readings of a piece list in which every statement / block separator is, independently, a `;` token or nothing

Interface shared by the printer simulation (every reading of `emit sty b` parses to a tree related to `b`) and the layout
composition (the final text lexes to one of the readings of `emit sty b`).
-/
namespace Tumfl.Theory
open Tumfl.Model

inductive ReadTks : Pieces → List Spec.Tk → Prop
  | nil : ReadTks [] []
  /-- a statement or block separator that the layout keeps and spells `;` -/
  | semi {p ps ks} : (p = .sep .statement ∨ p = .sep .block) → ReadTks ps ks → ReadTks (p :: ps) (.sym ";" :: ks)
  /-- a statement or block separator that becomes white space or is removed -/
  | skip {p ps ks} : (p = .sep .statement ∨ p = .sep .block) → ReadTks ps ks → ReadTks (p :: ps) ks
  /-- every other piece reads as `pieceTks false` says (`,` for an argument separator, `.` for a dot separator, nothing for the other
  separators, the token of a text piece, nothing for a comment) -/
  | other {p ps ks} : p ≠ .sep .statement → p ≠ .sep .block → ReadTks ps ks → ReadTks (p :: ps) (pieceTks false p ++ ks)

theorem readTks_const (semi : Bool) : ∀ ps : Pieces, ReadTks ps (piecesTks semi ps)
  | [] => .nil
  | p :: ps => by
    have ih := readTks_const semi ps
    by_cases h1 : p = .sep .statement
    · subst h1
      cases semi
      · simpa [piecesTks, pieceTks] using ReadTks.skip (Or.inl rfl) ih
      · simpa [piecesTks, pieceTks] using ReadTks.semi (Or.inl rfl) ih
    · by_cases h2 : p = .sep .block
      · subst h2
        cases semi
        · simpa [piecesTks, pieceTks] using ReadTks.skip (Or.inr rfl) ih
        · simpa [piecesTks, pieceTks] using ReadTks.semi (Or.inr rfl) ih
      · have : pieceTks semi p = pieceTks false p := by
          cases p with
          | str s => rfl
          | sep k => cases k <;> first | rfl | exact absurd rfl h1 | exact absurd rfl h2
        simpa [piecesTks, this] using ReadTks.other h1 h2 ih

end Tumfl.Theory
