import Tumfl.Theory.ParserFuelCore
import Tumfl.Theory.ParserFuelLadder
import Tumfl.Theory.ParserFuelMono
/-!
# Fuel adequacy of the model parser: "parsing always terminates"

The model's `.fuel` error is an artefact of the fuel argument that stands for Python's recursion depth.

* **`parseText_no_fuel` as first stated is FALSE**: `parseText` gives `parseChunk` the fuel
  `4 * length + 64`, and `x=` followed by 61 opening braces (63 characters, fuel 316) runs dry
  (`parseText_fuel_counterexample`, by kernel evaluation).  Every `{` is one character and one token and
  costs five nested calls `parseTable → parseFields → parseField → parseExp → parseAtom → parseTable`.
* **`5 * length + 15` always suffices** (`parseTextWith_no_fuel`, `parseChunk_no_fuel`), and the slope 5
  is optimal (`ParserFuelExamples.lean`).  `parseTextWith fuel` is `parseText` with the fuel as a parameter.
* **the outcome does not depend on the fuel** once it is not `.fuel` (`parseTextWith_mono`, from
  `ParserFuelMono.lean`): correcting the constant changes `parseText` only where it said `.fuel`
  (`parseText_eq_of_ne_fuel`).

Method: `rem s` (`ParserFuelCore.lean`) counts the tokens not yet consumed, in characters; every `eat`
on a token that is not `EOF` decreases it.  By one induction on the fuel (`AllF f`) every parse function
`X` satisfies: if `c_X + 5 * rem s ≤ f` then `X f` does not fail with `.fuel` and does not increase `rem`
(strictly decreases it for `parseStatement`, `parseIf`, `parseVarStmt`, `parseVar`, `parseTable`, `parseArgs`).
The constants `c_X` are a potential for the call graph: `c_Y + 1 ≤ c_X` for a call of `Y` in `X` before any
token is consumed, `c_Y + 1 ≤ c_X + 5 * k` after `k` tokens:

  parseDotted 1, parseAttNames 1, parseNames 2, parseNameList 3, parseFuncBody 8,
  parseVar 11, parseTable 11, parseAtom 12, parseArgs 12, parseIf 12, parseVarStmt 12, parseMoreVars 12,
  parseExp 13, parseVarTerminal 13, parseStatement 13, parseStatements 14, parseElseIfs 14, parseExpList 14,
  parseField 14, parseFields 15, parseBlock 15.

The ladder has its own, local fuel (`parseExp (f+1)` runs `ladderExp .. (f+1)` over `parseAtom f`): it needs
`2 * rem s + 13` (`ladderExp_fuel`: ten binary levels, `unLevel`, `powLevel`, one unit per operator loop
iteration), which is why `parseExp` has `c = 13`.
-/
namespace Tumfl.Theory
open Tumfl.Model Tumfl.Spec

set_option linter.unusedVariables false

variable {α : Type}

theorem FW_callLe {m : PM α} {Q : α → PSt → Prop} {s : PSt}
    (h : FW m (fun _ s' => rem s' ≤ rem s) s) (hq : ∀ a s', rem s' ≤ rem s → Q a s') : FW m Q s :=
  FW_call h hq

theorem FW_callLt {m : PM α} {Q : α → PSt → Prop} {s : PSt}
    (h : FW m (fun _ s' => rem s' + 1 ≤ rem s) s) (hq : ∀ a s', rem s' + 1 ≤ rem s → Q a s') : FW m Q s :=
  FW_call h hq

/-- the fuel contracts of all parse functions at fuel `f`: `c_X + 5 * rem s ≤ f` suffices for `X` -/
structure AllF (f : Nat) : Prop where
  parseBlock : ∀ (tok : Token) (b : Bool) (s : PSt), 15 + 5 * rem s ≤ f → FW (Model.parseBlock f tok b) (fun _ s' => rem s' ≤ rem s) s
  parseStatements : ∀ (s : PSt), 14 + 5 * rem s ≤ f → FW (Model.parseStatements f) (fun _ s' => rem s' ≤ rem s) s
  parseStatement : ∀ (s : PSt), 13 + 5 * rem s ≤ f → FW (Model.parseStatement f) (fun _ s' => rem s' + 1 ≤ rem s) s
  parseDotted : ∀ (s : PSt), 1 + 5 * rem s ≤ f → FW (Model.parseDotted f) (fun _ s' => rem s' ≤ rem s) s
  parseAttNames : ∀ (s : PSt), 1 + 5 * rem s ≤ f → FW (Model.parseAttNames f) (fun _ s' => rem s' ≤ rem s) s
  parseIf : ∀ (s : PSt), 12 + 5 * rem s ≤ f → FW (Model.parseIf f) (fun _ s' => rem s' + 1 ≤ rem s) s
  parseElseIfs : ∀ (s : PSt), 14 + 5 * rem s ≤ f → FW (Model.parseElseIfs f) (fun _ s' => rem s' ≤ rem s) s
  parseFuncBody : ∀ (tok : Token) (s : PSt), 8 + 5 * rem s ≤ f → FW (Model.parseFuncBody f tok) (fun _ s' => rem s' ≤ rem s) s
  parseNameList : ∀ (first : Option Expr) (lv : Bool) (s : PSt), 3 + 5 * rem s ≤ f → FW (Model.parseNameList f first lv) (fun _ s' => rem s' ≤ rem s) s
  parseNames : ∀ (lv : Bool) (s : PSt), 2 + 5 * rem s ≤ f → FW (Model.parseNames f lv) (fun _ s' => rem s' ≤ rem s) s
  parseExpList : ∀ (s : PSt), 14 + 5 * rem s ≤ f → FW (Model.parseExpList f) (fun _ s' => rem s' ≤ rem s) s
  parseVarStmt : ∀ (s : PSt), 12 + 5 * rem s ≤ f → FW (Model.parseVarStmt f) (fun _ s' => rem s' + 1 ≤ rem s) s
  parseMoreVars : ∀ (s : PSt), 12 + 5 * rem s ≤ f → FW (Model.parseMoreVars f) (fun _ s' => rem s' ≤ rem s) s
  parseExp : ∀ (s : PSt), 13 + 5 * rem s ≤ f → FW (Model.parseExp f) (fun _ s' => rem s' ≤ rem s) s
  parseAtom : ∀ (s : PSt), 12 + 5 * rem s ≤ f → FW (Model.parseAtom f) (fun _ s' => rem s' ≤ rem s) s
  parseVar : ∀ (b : Bool) (s : PSt), 11 + 5 * rem s ≤ f → FW (Model.parseVar f b) (fun _ s' => rem s' + 1 ≤ rem s) s
  parseVarTerminal : ∀ (e : Expr) (s : PSt), 13 + 5 * rem s ≤ f → FW (Model.parseVarTerminal f e) (fun _ s' => rem s' ≤ rem s) s
  parseTable : ∀ (s : PSt), 11 + 5 * rem s ≤ f → FW (Model.parseTable f) (fun _ s' => rem s' + 1 ≤ rem s) s
  parseFields : ∀ (s : PSt), 15 + 5 * rem s ≤ f → FW (Model.parseFields f) (fun _ s' => rem s' ≤ rem s) s
  parseField : ∀ (s : PSt), 14 + 5 * rem s ≤ f → FW (Model.parseField f) (fun _ s' => rem s' ≤ rem s) s
  parseArgs : ∀ (s : PSt), 12 + 5 * rem s ≤ f → FW (Model.parseArgs f) (fun _ s' => rem s' + 1 ≤ rem s) s

macro "guard_fw" : tactic => `(tactic| with_reducible show FW _ _ _)

/-- discharge `s.cur.type ≠ .EOF` from the branch conditions in the context -/
macro "fw_ty" : tactic => `(tactic| ((try simp only [FCond, beq_iff_eq, Bool.or_eq_true, Bool.and_eq_true] at *); grind))

syntax "fw_le " term : tactic
macro_rules
  | `(tactic| fw_le $t) => `(tactic| ((with_reducible refine FW_callLe (($t) ?_) ?_); (omega); intro _ _ _))
syntax "fw_lt " term : tactic
macro_rules
  | `(tactic| fw_lt $t) => `(tactic| ((with_reducible refine FW_callLt (($t) ?_) ?_); (omega); intro _ _ _))

/-- one syntax-directed step -/
syntax "fw_step " ident : tactic
macro_rules
  | `(tactic| fw_step $ih) => `(tactic| (guard_fw; first
    | with_reducible apply FW_pure
    | with_reducible apply FW_curTok
    | with_reducible apply FW_nxtTok
    | with_reducible apply FW_curIs
    | with_reducible apply FW_perror
    | with_reducible apply FW_pyerr
    | ((with_reducible refine FW_eat_some ?_ ?_); (decide); intro _ _)
    | ((with_reducible refine FW_eat_none_strict ?_ ?_); (fw_ty); intro _ _)
    | ((with_reducible apply FW_eat_none_le); intro _ _)
    | ((with_reducible apply FW_eatName); intro _ _ _)
    | ((with_reducible apply FW_assertTok); intro _)
    | ((with_reducible apply FW_addHint); intro _ _ _)
    | ((with_reducible apply FW_removeHint); intro _ _ _)
    | ((with_reducible apply FW_switchHint); intro _ _ _)
    | fw_le (($ih).parseBlock _ _ _)
    | fw_le (($ih).parseStatements _)
    | fw_lt (($ih).parseStatement _)
    | fw_le (($ih).parseDotted _)
    | fw_le (($ih).parseAttNames _)
    | fw_lt (($ih).parseIf _)
    | fw_le (($ih).parseElseIfs _)
    | fw_le (($ih).parseFuncBody _ _)
    | fw_le (($ih).parseNameList _ _ _)
    | fw_le (($ih).parseNames _ _)
    | fw_le (($ih).parseExpList _)
    | fw_lt (($ih).parseVarStmt _)
    | fw_le (($ih).parseMoreVars _)
    | fw_le (($ih).parseExp _)
    | fw_le (($ih).parseAtom _)
    | fw_lt (($ih).parseVar _ _)
    | fw_le (($ih).parseVarTerminal _ _)
    | fw_lt (($ih).parseTable _)
    | fw_le (($ih).parseFields _)
    | fw_le (($ih).parseField _)
    | fw_lt (($ih).parseArgs _)
    | with_reducible apply FW_bind
    | with_reducible apply FW_map
    | ((with_reducible apply FW_ite) <;> intro _)
    | split))
macro "fw " ih:ident : tactic => `(tactic| repeat' fw_step $ih)

theorem parseBlock_fuel_step {f : Nat} (ih : AllF f) (tok : Token) (b : Bool) (s : PSt) (hf : 15 + 5 * rem s ≤ f + 1) :
    FW (Model.parseBlock (f + 1) tok b) (fun _ s' => rem s' ≤ rem s) s := by
  rw [Model.parseBlock]
  fw ih
  all_goals omega

theorem parseStatement_fuel_step {f : Nat} (ih : AllF f) (s : PSt) (hf : 13 + 5 * rem s ≤ f + 1) :
    FW (Model.parseStatement (f + 1)) (fun _ s' => rem s' + 1 ≤ rem s) s := by
  rw [Model.parseStatement]
  fw ih
  all_goals omega

theorem parseStatements_fuel_step {f : Nat} (ih : AllF f)  (s : PSt) (hf : 14 + 5 * rem s ≤ f + 1) :
    FW (Model.parseStatements (f + 1) ) (fun _ s' => rem s' ≤ rem s) s := by
  rw [Model.parseStatements]
  fw ih
  all_goals omega

theorem parseDotted_fuel_step {f : Nat} (ih : AllF f)  (s : PSt) (hf : 1 + 5 * rem s ≤ f + 1) :
    FW (Model.parseDotted (f + 1) ) (fun _ s' => rem s' ≤ rem s) s := by
  rw [Model.parseDotted]
  fw ih
  all_goals omega

theorem parseAttNames_fuel_step {f : Nat} (ih : AllF f)  (s : PSt) (hf : 1 + 5 * rem s ≤ f + 1) :
    FW (Model.parseAttNames (f + 1) ) (fun _ s' => rem s' ≤ rem s) s := by
  rw [Model.parseAttNames]
  fw ih
  all_goals omega

theorem parseIf_fuel_step {f : Nat} (ih : AllF f)  (s : PSt) (hf : 12 + 5 * rem s ≤ f + 1) :
    FW (Model.parseIf (f + 1) ) (fun _ s' => rem s' + 1 ≤ rem s) s := by
  rw [Model.parseIf]
  fw ih
  all_goals omega

theorem parseElseIfs_fuel_step {f : Nat} (ih : AllF f)  (s : PSt) (hf : 14 + 5 * rem s ≤ f + 1) :
    FW (Model.parseElseIfs (f + 1) ) (fun _ s' => rem s' ≤ rem s) s := by
  rw [Model.parseElseIfs]
  fw ih
  all_goals omega

theorem parseFuncBody_fuel_step {f : Nat} (ih : AllF f) (tok : Token) (s : PSt) (hf : 8 + 5 * rem s ≤ f + 1) :
    FW (Model.parseFuncBody (f + 1) tok) (fun _ s' => rem s' ≤ rem s) s := by
  rw [Model.parseFuncBody]
  fw ih
  all_goals omega

theorem parseNames_fuel_step {f : Nat} (ih : AllF f) (lv : Bool) (s : PSt) (hf : 2 + 5 * rem s ≤ f + 1) :
    FW (Model.parseNames (f + 1) lv) (fun _ s' => rem s' ≤ rem s) s := by
  rw [Model.parseNames]
  fw ih
  all_goals omega

theorem parseExpList_fuel_step {f : Nat} (ih : AllF f)  (s : PSt) (hf : 14 + 5 * rem s ≤ f + 1) :
    FW (Model.parseExpList (f + 1) ) (fun _ s' => rem s' ≤ rem s) s := by
  rw [Model.parseExpList]
  fw ih
  all_goals omega

theorem parseVarStmt_fuel_step {f : Nat} (ih : AllF f)  (s : PSt) (hf : 12 + 5 * rem s ≤ f + 1) :
    FW (Model.parseVarStmt (f + 1) ) (fun _ s' => rem s' + 1 ≤ rem s) s := by
  rw [Model.parseVarStmt]
  fw ih
  all_goals omega

theorem parseMoreVars_fuel_step {f : Nat} (ih : AllF f)  (s : PSt) (hf : 12 + 5 * rem s ≤ f + 1) :
    FW (Model.parseMoreVars (f + 1) ) (fun _ s' => rem s' ≤ rem s) s := by
  rw [Model.parseMoreVars]
  fw ih
  all_goals omega

theorem parseAtom_fuel_step {f : Nat} (ih : AllF f)  (s : PSt) (hf : 12 + 5 * rem s ≤ f + 1) :
    FW (Model.parseAtom (f + 1) ) (fun _ s' => rem s' ≤ rem s) s := by
  rw [Model.parseAtom]
  fw ih
  all_goals omega

theorem parseVar_fuel_step {f : Nat} (ih : AllF f) (b : Bool) (s : PSt) (hf : 11 + 5 * rem s ≤ f + 1) :
    FW (Model.parseVar (f + 1) b) (fun _ s' => rem s' + 1 ≤ rem s) s := by
  rw [Model.parseVar]
  fw ih
  all_goals omega

theorem parseVarTerminal_fuel_step {f : Nat} (ih : AllF f) (e : Expr) (s : PSt) (hf : 13 + 5 * rem s ≤ f + 1) :
    FW (Model.parseVarTerminal (f + 1) e) (fun _ s' => rem s' ≤ rem s) s := by
  rw [Model.parseVarTerminal]
  fw ih
  all_goals omega

theorem parseTable_fuel_step {f : Nat} (ih : AllF f)  (s : PSt) (hf : 11 + 5 * rem s ≤ f + 1) :
    FW (Model.parseTable (f + 1) ) (fun _ s' => rem s' + 1 ≤ rem s) s := by
  rw [Model.parseTable]
  fw ih
  all_goals omega

theorem parseFields_fuel_step {f : Nat} (ih : AllF f)  (s : PSt) (hf : 15 + 5 * rem s ≤ f + 1) :
    FW (Model.parseFields (f + 1) ) (fun _ s' => rem s' ≤ rem s) s := by
  rw [Model.parseFields]
  fw ih
  all_goals omega

theorem parseField_fuel_step {f : Nat} (ih : AllF f)  (s : PSt) (hf : 14 + 5 * rem s ≤ f + 1) :
    FW (Model.parseField (f + 1) ) (fun _ s' => rem s' ≤ rem s) s := by
  rw [Model.parseField]
  fw ih
  all_goals omega

theorem parseArgs_fuel_step {f : Nat} (ih : AllF f)  (s : PSt) (hf : 12 + 5 * rem s ≤ f + 1) :
    FW (Model.parseArgs (f + 1) ) (fun _ s' => rem s' + 1 ≤ rem s) s := by
  rw [Model.parseArgs]
  fw ih
  all_goals omega

theorem parseNameList_fuel_step {f : Nat} (ih : AllF f) (first : Option Expr) (lv : Bool) (s : PSt) (hf : 3 + 5 * rem s ≤ f + 1) :
    FW (Model.parseNameList (f + 1) first lv) (fun _ s' => rem s' ≤ rem s) s := by
  cases first <;> rw [Model.parseNameList] <;> fw ih <;> omega

/-! ## the expression ladder -/

theorem binOfTok_ne_eof {t : Token} {o : BOp} (h : binOfTok t = some o) : t.type ≠ .EOF := by
  intro he
  unfold binOfTok at h
  have e : List.lookup TT.EOF.name Gen.binaryTokens = none := by decide
  rw [he, e] at h
  cases h

theorem unOfTok_ne_eof {t : Token} {u : UOp} (h : unOfTok t = some u) : t.type ≠ .EOF := by
  intro he
  unfold unOfTok at h
  have e : List.lookup TT.EOF.name Gen.unaryTokens = none := by decide
  rw [he, e] at h
  cases h

theorem modelSig_eat_ok {atom : PM Expr} {s s1 : PSt} (h : (modelSig atom).eat s = .ok s1) : eatRaw s = .ok ((), s1) := by
  simp only [modelSig] at h
  split at h
  · next u s' he => cases h; rw [he]
  · cases h

theorem eatOK_modelSig (atom : PM Expr) : EatOK rem (modelSig atom) where
  bin := by
    intro s s1 o ho h
    have h1 := eatRaw_rem (modelSig_eat_ok h)
    have hne : s.cur.type ≠ .EOF := binOfTok_ne_eof ho
    simp only [hne, if_false] at h1
    exact h1
  un := by
    intro s s1 u hu h
    have h1 := eatRaw_rem (modelSig_eat_ok h)
    have hne : s.cur.type ≠ .EOF := unOfTok_ne_eof hu
    simp only [hne, if_false] at h1
    exact h1
  err := by
    intro s h
    simp only [modelSig] at h
    split at h
    · cases h
    · next e he => cases h; exact eatRaw_ne_fuel s he

theorem ladderLevels_length : ladderLevels.length = 10 := by decide

theorem resF_of_FW {m : PM α} {s : PSt} (h : FW m (fun _ s' => rem s' ≤ rem s) s) :
    ResF rem PyErr.fuel s (m s) := by
  have h := h.run
  unfold ResF
  cases hm : m s with
  | error e => rw [hm] at h; exact h
  | ok r => obtain ⟨a, s1⟩ := r; rw [hm] at h; exact h

theorem FW_of_resF {m : PM α} {s : PSt} (h : ResF rem PyErr.fuel s (m s)) :
    FW m (fun _ s' => rem s' ≤ rem s) s := by
  constructor
  unfold ResF at h
  cases hm : m s with
  | error e => rw [hm] at h; exact h
  | ok r => obtain ⟨a, s1⟩ := r; rw [hm] at h; exact h

theorem parseExp_fuel_step {f : Nat} (ih : AllF f) (s : PSt) (hf : 13 + 5 * rem s ≤ f + 1) :
    FW (Model.parseExp (f + 1)) (fun _ s' => rem s' ≤ rem s) s := by
  apply FW_of_resF
  rw [Model.parseExp]
  refine ladderExp_fuel (M := rem s) (eatOK_modelSig _) ladderLevels powOps ?_ (f + 1) s (Nat.le_refl _)
    (by rw [ladderLevels_length]; omega)
  intro s2 h2
  exact resF_of_FW (ih.parseAtom s2 (by omega))

/-! ## the induction -/

theorem allF_zero : AllF 0 := by
  constructor <;> intros <;> omega

theorem allF_succ {f : Nat} (ih : AllF f) : AllF (f + 1) where
  parseBlock := parseBlock_fuel_step ih
  parseStatements := parseStatements_fuel_step ih
  parseStatement := parseStatement_fuel_step ih
  parseDotted := parseDotted_fuel_step ih
  parseAttNames := parseAttNames_fuel_step ih
  parseIf := parseIf_fuel_step ih
  parseElseIfs := parseElseIfs_fuel_step ih
  parseFuncBody := parseFuncBody_fuel_step ih
  parseNameList := parseNameList_fuel_step ih
  parseNames := parseNames_fuel_step ih
  parseExpList := parseExpList_fuel_step ih
  parseVarStmt := parseVarStmt_fuel_step ih
  parseMoreVars := parseMoreVars_fuel_step ih
  parseExp := parseExp_fuel_step ih
  parseAtom := parseAtom_fuel_step ih
  parseVar := parseVar_fuel_step ih
  parseVarTerminal := parseVarTerminal_fuel_step ih
  parseTable := parseTable_fuel_step ih
  parseFields := parseFields_fuel_step ih
  parseField := parseField_fuel_step ih
  parseArgs := parseArgs_fuel_step ih

theorem allF : ∀ f, AllF f
  | 0 => allF_zero
  | f + 1 => allF_succ (allF f)

/-! ## `parse_chunk` and `parse` -/

/-- `parseChunk` never runs out of fuel when given `15 + 5 * rem s`; it does not un-consume tokens -/
theorem parseChunk_fuel (fuel : Nat) (s : PSt) (hf : 15 + 5 * rem s ≤ fuel) :
    FW (parseChunk fuel) (fun _ s' => rem s' ≤ rem s) s := by
  unfold parseChunk
  refine FW_bind (FW_curTok ?_)
  refine FW_bind (FW_callLe ((allF fuel).parseBlock _ _ s hf) ?_)
  intro b s' h
  cases b with
  | mk tk ss rs c => exact FW_pure h

/-- `parseText` with the fuel of `parseChunk` as a parameter (`parseText = parseTextWith (5 * length + 64)`) -/
def parseTextWith (fuel : Nat) (text : List Char) : Except PyErr (Block × List Hint) :=
  match initParser {} text with
  | .error e => .error e
  | .ok s0 =>
    match (do let b ← parseChunk fuel; assertTok .EOF; pure b : PM Block) s0 with
    | .error e => .error e
    | .ok (b, s1) => .ok (b, s1.hints)

theorem parseText_eq_parseTextWith (text : List Char) :
    parseText text = parseTextWith (5 * text.length + 64) text := rfl

/-- **Fuel adequacy at the level of `parse_chunk`**: from the initial parser state of `src`, every fuel
`≥ 5 * src.length + 15` is enough -/
theorem parseChunk_no_fuel (src : List Char) (s0 : PSt) (h0 : initParser {} src = .ok s0)
    (fuel : Nat) (hf : 5 * src.length + 15 ≤ fuel) :
    (do let b ← parseChunk fuel; assertTok .EOF; pure b : PM Block) s0 ≠ .error .fuel := by
  have hr := initParser_rem h0
  refine FW_ne_fuel (Q := fun _ _ => True) (FW_bind (FW_call (parseChunk_fuel fuel s0 (by omega)) ?_))
  intro b s1 _
  refine FW_bind (FW_assertTok ?_)
  intro _
  exact FW_pure trivial

/-- **Fuel adequacy of `parse`**: with `5 * length + 15` (or more) units of fuel the model never reports `.fuel` -/
theorem parseTextWith_no_fuel (src : List Char) (fuel : Nat) (hf : 5 * src.length + 15 ≤ fuel) :
    parseTextWith fuel src ≠ .error .fuel := by
  unfold parseTextWith
  split
  · next e he => intro h; cases h; exact initParser_ne_fuel _ _ he
  · next s0 h0 =>
    have := parseChunk_no_fuel src s0 h0 fuel hf
    split
    · next e he => intro h; cases h; exact this he
    · intro h; cases h

/-- **The model parser never runs out of fuel**: `parseText` gives `5 * length + 64` units -/
theorem parseText_no_fuel (src : List Char) : parseText src ≠ .error .fuel := by
  rw [parseText_eq_parseTextWith]
  exact parseTextWith_no_fuel src _ (by omega)

/-! ## `4 * length + 64` (the constant the model used at first) is NOT always enough -/

def isFuelErr : Except PyErr (Block × List Hint) → Bool
  | .error .fuel => true
  | _ => false

theorem eq_fuel_of_isFuelErr {r : Except PyErr (Block × List Hint)} (h : isFuelErr r = true) : r = .error .fuel := by
  unfold isFuelErr at h
  split at h
  · rfl
  · cases h

/-- the counterexample: `x=` followed by 61 opening braces (63 characters, fuel 316) -/
def fuelCounterexample : List Char := 'x' :: '=' :: List.replicate 61 '{'

theorem old_fuel_counterexample : parseTextWith (4 * fuelCounterexample.length + 64) fuelCounterexample = .error .fuel :=
  eq_fuel_of_isFuelErr (by decide +kernel)

/-! ## the outcome does not depend on the fuel once the fuel suffices -/

/-- **Fuel monotonicity of `parse`**: more fuel never changes an outcome other than `.fuel` -/
theorem parseTextWith_mono (src : List Char) {f g : Nat} (hfg : f ≤ g) (h : parseTextWith f src ≠ .error .fuel) :
    parseTextWith g src = parseTextWith f src := by
  unfold parseTextWith at h ⊢
  cases h0 : initParser {} src with
  | error e => rfl
  | ok s0 =>
    rw [h0] at h
    simp only [] at h ⊢
    have key : MLe (do let b ← parseChunk f; assertTok .EOF; pure b : PM Block)
        (do let b ← parseChunk g; assertTok .EOF; pure b : PM Block) :=
      MLe_bind (parseChunk_mono_le hfg) (fun _ => MLe_refl _)
    have hne : (do let b ← parseChunk f; assertTok .EOF; pure b : PM Block) s0 ≠ .error .fuel := by
      intro hh; rw [hh] at h; exact h rfl
    rw [key s0 hne]

/-- all sufficient fuels give the same outcome -/
theorem parseTextWith_stable (src : List Char) (fuel : Nat) (hf : 5 * src.length + 15 ≤ fuel) :
    parseTextWith fuel src = parseTextWith (5 * src.length + 15) src :=
  parseTextWith_mono src hf (parseTextWith_no_fuel src _ (Nat.le_refl _))

/-- the outcome of `parseText` is the outcome under any sufficient fuel -/
theorem parseText_eq_any_fuel (src : List Char) (fuel : Nat) (hf : 5 * src.length + 15 ≤ fuel) :
    parseText src = parseTextWith fuel src := by
  rw [parseText_eq_parseTextWith, parseTextWith_stable src fuel hf, parseTextWith_stable src (5 * src.length + 64) (by omega)]

end Tumfl.Theory
