import Tumfl.Theory.FormatTextNums
/-!
# A small Hoare calculus for the adjacency check: `Tr P ps Q`
-/
namespace Tumfl.Theory
open Tumfl Tumfl.Model

/-- from every state satisfying `P` the pieces `ps` pass the check and lead to a state satisfying `Q` -/
def Tr (P : DS → Prop) (ps : Pieces) (Q : DS → Prop) : Prop := ∀ σ, P σ → Disc σ ps ∧ Q (advs σ ps)

theorem Tr.nil {P : DS → Prop} : Tr P [] P := fun _ h => ⟨trivial, h⟩

theorem Tr.seq {P Q R : DS → Prop} {a b : Pieces} (h1 : Tr P a Q) (h2 : Tr Q b R) : Tr P (a ++ b) R := by
  intro σ hp
  obtain ⟨d1, q1⟩ := h1 σ hp
  obtain ⟨d2, q2⟩ := h2 _ q1
  exact ⟨(disc_append σ a b).mpr ⟨d1, d2⟩, by rw [advs_append]; exact q2⟩

theorem Tr.one {P Q : DS → Prop} {p : Piece} (h : ∀ σ, P σ → okPiece σ p ∧ Q (adv σ p)) : Tr P [p] Q := by
  intro σ hp
  obtain ⟨h1, h2⟩ := h σ hp
  exact ⟨⟨h1, trivial⟩, h2⟩

theorem Tr.cons {P Q R : DS → Prop} {p : Piece} {r : Pieces} (h : Tr P [p] Q) (h2 : Tr Q r R) : Tr P (p :: r) R :=
  Tr.seq h h2

theorem Tr.pre {P P' Q : DS → Prop} {a : Pieces} (h : Tr P a Q) (hp : ∀ σ, P' σ → P σ) : Tr P' a Q :=
  fun σ h' => h σ (hp σ h')

theorem Tr.post {P Q Q' : DS → Prop} {a : Pieces} (h : Tr P a Q) (hq : ∀ σ, Q σ → Q' σ) : Tr P a Q' :=
  fun σ h' => ⟨(h σ h').1, hq _ (h σ h').2⟩

theorem Tr.ite {P Q : DS → Prop} {c : Prop} [Decidable c] {a b : Pieces} (h1 : c → Tr P a Q) (h2 : ¬c → Tr P b Q) :
    Tr P (if c then a else b) Q := by
  split
  · exact h1 ‹_›
  · exact h2 ‹_›

/-! ## state predicates -/

/-- directly after the token `x` -/
def Tight (x : List Char) (op : Bool) (σ : DS) : Prop := σ = ⟨some x, .str, .tok op⟩

/-- after a separator (possibly followed by Indent / DeIndent): nothing is adjacent, and the last token is neither `.` nor `:` -/
def Calm (σ : DS) : Prop :=
  σ.last ≠ .comShort ∧ σ.last ≠ .dot ∧ σ.near ≠ .str ∧ ∀ x, σ.tok = some x → x ≠ ['.'] ∧ x ≠ [':']

/-- a state in which a Space / Statement / Block separator may come -/
def Settled (σ : DS) : Prop :=
  σ.last ≠ .comShort ∧ σ.last ≠ .dot ∧ (σ.last = .indent → σ.near ≠ .str) ∧ ∀ x, σ.tok = some x → x ≠ ['.'] ∧ x ≠ [':']

/-- directly after the last token of an expression -/
def ExitE (σ : DS) : Prop := ∃ l, Tight l false σ ∧ l ≠ [] ∧ Fusy l = false
/-- directly after the last token of a callee -/
def ExitC (σ : DS) : Prop := ∃ l, Tight l false σ ∧ CalleeEnd l

theorem fusy_ne {l : List Char} (h : Fusy l = false) : l ≠ ['.'] ∧ l ≠ [':'] := by
  constructor <;> (rintro rfl; revert h; decide)

theorem ExitC.exitE {σ : DS} (h : ExitC σ) : ExitE σ := by
  obtain ⟨l, ht, hc⟩ := h
  obtain ⟨e, f0, _, _, _, hfu, _⟩ := id hc
  exact ⟨l, ht, hc.ne_nil, hfu⟩

theorem Calm.settled {σ : DS} (h : Calm σ) : Settled σ := ⟨h.1, h.2.1, fun _ => h.2.2.1, h.2.2.2⟩

theorem Tight.settled {x : List Char} {op : Bool} {σ : DS} (h : Tight x op σ) (h1 : x ≠ ['.']) (h2 : x ≠ [':']) :
    Settled σ := by
  subst h
  exact ⟨by simp, by simp, by simp, fun y hy => by cases hy; exact ⟨h1, h2⟩⟩

theorem ExitE.settled {σ : DS} (h : ExitE σ) : Settled σ := by
  obtain ⟨l, ht, _, hf⟩ := h
  exact ht.settled (fusy_ne hf).1 (fusy_ne hf).2

/-! ## separators -/

theorem tr_space : Tr Settled [S .space] Calm := Tr.one fun σ h =>
  ⟨⟨h.1, h.2.1⟩, by simp [adv, S], by simp [adv, S], by simp [adv, S], h.2.2.2⟩

theorem tr_block : Tr Settled [S .block] Calm := Tr.one fun σ h =>
  ⟨⟨h.1, h.2.1⟩, by simp [adv, S], by simp [adv, S], by simp [adv, S], h.2.2.2⟩

theorem tr_statement : Tr Settled [S .statement] Calm := Tr.one fun σ h =>
  ⟨⟨h.1, h.2.1, h.2.2.1⟩, by simp [adv, S], by simp [adv, S], by simp [adv, S], h.2.2.2⟩

theorem tr_newline : Tr (fun σ => σ.last ≠ .dot) [S .newline] Calm := Tr.one fun σ h =>
  ⟨h, by simp [adv, S], by simp [adv, S], by simp [adv, S], by simp [adv, S]⟩

theorem tr_argument : Tr ExitE [S .argument] Calm := Tr.one fun σ h => by
  obtain ⟨l, rfl, _, _⟩ := h
  exact ⟨rfl, by simp [adv, S], by simp [adv, S], by simp [adv, S], by simp [adv, S]⟩

theorem tr_indent : Tr Calm [S .indent] Calm := Tr.one fun σ h =>
  ⟨⟨h.1, h.2.1⟩, by simp [adv, S], by simp [adv, S], h.2.2.1, h.2.2.2⟩

theorem tr_deindent : Tr Calm [S .deindent] Calm := Tr.one fun σ h =>
  ⟨⟨h.1, h.2.1⟩, by simp [adv, S], by simp [adv, S], h.2.2.1, h.2.2.2⟩

/-! ## tokens -/

theorem okPiece_tok {σ : DS} {s : List Char} (hc : isCom s = false) :
    okPiece σ (.str s) ↔ σ.last ≠ .comShort ∧ GoodTok s ∧ Foll σ s ∧ (s = ['}'] → ∃ b, σ.last = .tok b) := by
  simp [okPiece, hc]

theorem adv_tok {σ : DS} {s : List Char} (hc : isCom s = false) :
    adv σ (.str s) = ⟨some s, .str, .tok (isOpener s)⟩ := by
  simp [adv, hc]

theorem foll_calm {σ : DS} (h : Calm σ) {c : Char} (cs : List Char) (h3 : H3 c) : Foll σ (c :: cs) := by
  intro x hx
  obtain ⟨_, h2, hn, ht⟩ := h
  refine ⟨noFuse_h3 (ht x hx).1 (ht x hx).2 cs h3, ?_⟩
  rintro (hh | hh)
  · exact absurd hh hn
  · exact absurd hh h2

theorem foll_tight {x : List Char} {op : Bool} {σ : DS} (h : Tight x op σ) {y : List Char} (hg : NoGlue x y) :
    Foll σ y := by
  subst h
  intro x' hx
  cases hx
  exact ⟨hg.2, fun _ => hg⟩

/-- a token arriving in a calm state -/
theorem tr_tok_calm {s : List Char} (hc : isCom s = false) (hg : GoodTok s) {c : Char} {cs : List Char}
    (hs : s = c :: cs) (h3 : H3 c) : Tr Calm [.str s] (Tight s (isOpener s)) := Tr.one fun σ h =>
  ⟨(okPiece_tok hc).mpr ⟨h.1, hg, by rw [hs]; exact foll_calm h cs h3,
    fun e => by rw [hs] at e; cases e; exact absurd rfl h3.2.2.2⟩, adv_tok hc⟩

/-- a token arriving directly after the token `x` -/
theorem tr_tok_tight {x s : List Char} {op : Bool} (hc : isCom s = false) (hg : GoodTok s) (hng : NoGlue x s) :
    Tr (Tight x op) [.str s] (Tight s (isOpener s)) := Tr.one fun σ h =>
  ⟨(okPiece_tok hc).mpr ⟨by rw [h]; simp, hg, foll_tight h hng, fun _ => ⟨op, by rw [h]⟩⟩, adv_tok hc⟩

/-- a token with an inert first character arriving directly after an expression -/
theorem tr_tok_exitE {s : List Char} (hc : isCom s = false) (hg : GoodTok s) {c : Char} {cs : List Char}
    (hs : s = c :: cs) (hi : Inert c) : Tr ExitE [.str s] (Tight s (isOpener s)) := Tr.one fun σ h => by
  obtain ⟨l, ht, hne, _⟩ := h
  exact ⟨(okPiece_tok hc).mpr ⟨by rw [ht]; simp, hg, foll_tight ht (by rw [hs]; exact noGlue_inert hne cs hi),
    fun _ => ⟨false, by rw [ht]⟩⟩, adv_tok hc⟩

/-- a token that does not start with a word character arriving directly after a callee -/
theorem tr_tok_exitC {s : List Char} (hc : isCom s = false) (hg : GoodTok s) {c : Char} {cs : List Char}
    (hs : s = c :: cs) (hi : Spec.isAlnum c = false) : Tr ExitC [.str s] (Tight s (isOpener s)) := Tr.one fun σ h => by
  obtain ⟨l, ht, hce⟩ := h
  exact ⟨(okPiece_tok hc).mpr ⟨by rw [ht]; simp, hg, foll_tight ht (by rw [hs]; exact noGlue_callee hce cs hi),
    fun _ => ⟨false, by rw [ht]⟩⟩, adv_tok hc⟩

/-! ## literal pieces -/

theorem P_eq (s : String) : P s = .str s.toList := rfl

theorem tr_lit_calm {s : String} (h : LitOK s) {c : Char} {cs : List Char} (hs : s.toList = c :: cs) (h3 : H3 c) :
    Tr Calm [P s] (Tight s.toList (isOpener s.toList)) := tr_tok_calm h.com h.good hs h3

theorem tr_lit_tight {x : List Char} {op : Bool} {s : String} (h : LitOK s) (hng : NoGlue x s.toList) :
    Tr (Tight x op) [P s] (Tight s.toList (isOpener s.toList)) := tr_tok_tight h.com h.good hng

theorem tr_lit_exitE {s : String} (h : LitOK s) {c : Char} {cs : List Char} (hs : s.toList = c :: cs) (hi : Inert c) :
    Tr ExitE [P s] (Tight s.toList (isOpener s.toList)) := tr_tok_exitE h.com h.good hs hi

theorem tr_lit_exitC {s : String} (h : LitOK s) {c : Char} {cs : List Char} (hs : s.toList = c :: cs)
    (hi : Spec.isAlnum c = false) : Tr ExitC [P s] (Tight s.toList (isOpener s.toList)) :=
  tr_tok_exitC h.com h.good hs hi

end Tumfl.Theory
