import Tumfl.Theory.ResolveCompleteRun
import Tumfl.Theory.ResolveDesignates
/-!
# Dependency resolver: COMPLETENESS of the `InvalidDependencyError` (main clause of property C12)

"A `require` call that cannot be inlined raises `InvalidDependencyError`, in whichever file of the dependency tree and
whichever syntactic position it occurs; nothing is silently left behind."

`resolve_complete`: if `resolveRecursive` SUCCEEDS, then no block of the dependency tree (`InTree`: the parse of the main
file, and - transitively - the chunk of every file that a literal `require` finds, deduplication ignored) contains an
offending call (`offendsBlock`: a call of the bare name `require`, at a position the walker visits, whose arguments are
not exactly one string literal or whose module is not found from the directory of its file).  Contrapositive
(`resolve_fails_of_offending`): one offending call anywhere in the tree, and resolution ends in an error.

No hypothesis is needed.  The proof (`ResolveCompleteRun.lean`) threads the `found` table: a successful run of a
`resolve*` function extends the table by paths that are all `Done` with respect to the FINAL table (they parse, their
chunk has no offending call, and every file their chunk requires is again in the table), and its input is clean with
respect to the final table.  A file enters `found` BEFORE its chunk is walked, so during the walk "in the table" is weaker
than "done" (statement-level cycles, deduplicated statement-level requires of a file that is still being walked); the
statement about the table of the final state of the sub-run absorbs this: by the time the enclosing successful run ends,
the walk of every file that ever entered the table has ended successfully too.

Together with `resolve_designates` (soundness: a dependency error designates an offending call of the tree):
`resolve_dependency_error_never_ok` - if a run with some fuel ends in an `InvalidDependencyError`, no run with any fuel
succeeds.  Not claimed: that a run on a tree with an offending call ends in a DEPENDENCY error - it can also end in a
parse error of some file, or run out of fuel, before it reaches the offending call (`C12_errors` lists the possible errors).

Positions: `offends*` inspects exactly the positions the walker visits; the list of attributed names of a `local`
statement is inspected by neither (the parser only puts `Expr.name` nodes there).
-/
namespace Tumfl.Theory
open Tumfl.Model

/-! ## 1. Local completeness and the table, for sub-runs on blocks -/

/-- (a) + (b) + (c) for a successful run on a block `b` in directory `dir`, from any state, with any fuel:
the block contains no offending call; every file a literal `require` in it finds is in the final table; the table only
grew; and every path that is new in the table is a parsed file whose chunk contains no offending call and requires only
files of the final table -/
theorem resolveBlock_complete {fs : FS} {sp : List Path} {f : Nat} {dir : Path} {b b' : Block} {st st' : RSt}
    (h : resolveBlock fs sp f dir b st = .ok (b', st')) :
    (∀ m t, ¬ offendsBlock fs sp dir m t b) ∧
    (∀ path, requiresBlock fs sp dir path b → path ∈ st'.found) ∧
    (∀ p ∈ st.found, p ∈ st'.found) ∧
    (∀ p ∈ st'.found, p ∉ st.found → ∃ text b1 hs, fs.read p = some text ∧ parseText text = .ok (b1, hs) ∧
      (∀ m t, ¬ offendsBlock fs sp (dirOf p) m t (asChunk b1)) ∧
      ∀ path, requiresBlock fs sp (dirOf p) path (asChunk b1) → path ∈ st'.found) := by
  obtain ⟨hext, hclean⟩ := (resolve_complete_spec fs sp f).2.2.2.1 dir b st b' st' h
  obtain ⟨h1, h2⟩ := clean_block_elim hclean
  refine ⟨h1, h2, hext.1, fun p hp hn => ?_⟩
  obtain ⟨text, b1, hs, hr, hpt, hc⟩ := hext.2 p hp hn
  exact ⟨text, b1, hs, hr, hpt, clean_block_elim hc⟩

/-! ## 2. The eight local completeness statements, input side

A successful run of any `resolve*` function: its input contains no offending call. -/

section local_complete
variable {fs : FS} {sp : List Path} {f : Nat} {dir : Path} {st st' : RSt} (m : String) (t : Token)

theorem resolveExpr_ok_no_offending {e e' : Expr} (h : resolveExpr fs sp f dir e st = .ok (e', st')) :
    ¬ offendsExpr fs sp dir m t e :=
  fun ho => ((resolve_complete_spec fs sp f).1 dir e st e' st' h).2
    (callInExpr_mono (fun t' fn args => Bad.of_offends t' fn args) e ho)
theorem resolveExprs_ok_no_offending {es es' : List Expr} (h : resolveExprs fs sp f dir es st = .ok (es', st')) :
    ¬ offendsExprs fs sp dir m t es :=
  fun ho => ((resolve_complete_spec fs sp f).2.1 dir es st es' st' h).2
    (callInExprs_mono (fun t' fn args => Bad.of_offends t' fn args) es ho)
theorem resolveFields_ok_no_offending {fds fds' : List Field} (h : resolveFields fs sp f dir fds st = .ok (fds', st')) :
    ¬ offendsFields fs sp dir m t fds :=
  fun ho => ((resolve_complete_spec fs sp f).2.2.1 dir fds st fds' st' h).2
    (callInFields_mono (fun t' fn args => Bad.of_offends t' fn args) fds ho)
theorem resolveBlock_ok_no_offending {b b' : Block} (h : resolveBlock fs sp f dir b st = .ok (b', st')) :
    ¬ offendsBlock fs sp dir m t b :=
  fun ho => ((resolve_complete_spec fs sp f).2.2.2.1 dir b st b' st' h).2
    (callInBlock_mono (fun t' fn args => Bad.of_offends t' fn args) b ho)
theorem resolveStmts_ok_no_offending {ss ss' : List Stmt} (h : resolveStmts fs sp f dir ss st = .ok (ss', st')) :
    ¬ offendsStmts fs sp dir m t ss :=
  fun ho => ((resolve_complete_spec fs sp f).2.2.2.2.1 dir ss st ss' st' h).2
    (callInStmts_mono (fun t' fn args => Bad.of_offends t' fn args) ss ho)
theorem resolveOptExpr_ok_no_offending {o o' : Option Expr} (h : resolveOptExpr fs sp f dir o st = .ok (o', st')) :
    ¬ offendsOptExpr fs sp dir m t o :=
  fun ho => ((resolve_complete_spec fs sp f).2.2.2.2.2.1 dir o st o' st' h).2
    (callInOptExpr_mono (fun t' fn args => Bad.of_offends t' fn args) o ho)
theorem resolveStmt_ok_no_offending {s s' : Stmt} (h : resolveStmt fs sp f dir s st = .ok (s', st')) :
    ¬ offendsStmt fs sp dir m t s :=
  fun ho => ((resolve_complete_spec fs sp f).2.2.2.2.2.2.1 dir s st s' st' h).2
    (callInStmt_mono (fun t' fn args => Bad.of_offends t' fn args) s ho)
theorem resolveFalse_ok_no_offending {fl fl' : IfFalse} (h : resolveFalse fs sp f dir fl st = .ok (fl', st')) :
    ¬ offendsFalse fs sp dir m t fl :=
  fun ho => ((resolve_complete_spec fs sp f).2.2.2.2.2.2.2 dir fl st fl' st' h).2
    (callInFalse_mono (fun t' fn args => Bad.of_offends t' fn args) fl ho)

end local_complete

/-! ## 3. The closed table of a successful whole run -/

/-- a successful whole run ends with a table `F` that is closed: the parse of the main file is clean with respect to
`F` (no offending call, every required file in `F`), and every path of `F` is a parsed file whose chunk is clean with
respect to `F` -/
theorem resolve_closed_table {fs : FS} {main : Path} {sp : List Path} {fuel : Nat} {b' : Block}
    (h : resolveRecursive fs main sp fuel = .ok b') :
    ∃ F : List Path, ∃ text b0 hs, fs.read main = some text ∧ parseText text = .ok (b0, hs) ∧
      ¬ callInBlock (Bad fs sp (dirOf main) F) b0 ∧ ∀ p ∈ F, Done fs sp F p := by
  unfold resolveRecursive at h
  split at h
  · cases h
  · rename_i b1 st' heq
    cases h
    obtain ⟨b0, s0, h1, h2⟩ := rbind_ok heq
    obtain ⟨rfl, text, hs, hr, hp⟩ := parseFile_ok h1
    obtain ⟨hext, hclean⟩ := (resolve_complete_spec fs sp fuel).2.2.2.1 _ _ _ _ _ h2
    exact ⟨st'.found, text, b0, hs, hr, hp, hclean, fun p hp => hext.2 p hp (by simp)⟩

/-- every block of the dependency tree is clean with respect to a closed table -/
theorem InTree.clean {fs : FS} {main : Path} {sp : List Path} {F : List Path} {text : List Char} {b0 : Block}
    {hs : List Hint} (hr : fs.read main = some text) (hp : parseText text = .ok (b0, hs))
    (hmain : ¬ callInBlock (Bad fs sp (dirOf main) F) b0) (hF : ∀ p ∈ F, Done fs sp F p) {dir : Path} {b : Block}
    (h : InTree fs sp main dir b) : ¬ callInBlock (Bad fs sp dir F) b := by
  induction h with
  | main hr' hp' =>
    rw [hr] at hr'; cases hr'
    rw [hp] at hp'; cases hp'
    exact hmain
  | step _ hreq hr' hp' ih =>
    obtain ⟨text2, b2, hs2, hr2, hp2, hc⟩ := hF _ ((clean_block_elim ih).2 _ hreq)
    rw [hr2] at hr'; cases hr'
    rw [hp2] at hp'; cases hp'
    exact hc

/-! ## 4. Main theorem -/

/-- **C12, completeness**: if resolution succeeds, no file of the dependency tree contains - at any position the walker
visits - a `require` call that cannot be inlined -/
theorem resolve_complete {fs : FS} {main : Path} {sp : List Path} {fuel : Nat} {b' : Block}
    (h : resolveRecursive fs main sp fuel = .ok b') :
    ∀ dir b m t, InTree fs sp main dir b → ¬ offendsBlock fs sp dir m t b := by
  intro dir b m t ht
  obtain ⟨F, text, b0, hs, hr, hp, hmain, hF⟩ := resolve_closed_table h
  exact (clean_block_elim (InTree.clean hr hp hmain hF ht)).1 m t

/-- the contrapositive: one offending call anywhere in the dependency tree, and resolution cannot succeed, whatever the
fuel -/
theorem resolve_fails_of_offending {fs : FS} {main : Path} {sp : List Path} {dir : Path} {b : Block} {m : String}
    {t : Token} (ht : InTree fs sp main dir b) (ho : offendsBlock fs sp dir m t b) (fuel : Nat) :
    ∃ e, resolveRecursive fs main sp fuel = .error e := by
  cases h : resolveRecursive fs main sp fuel with
  | error e => exact ⟨e, rfl⟩
  | ok b' => exact absurd ho (resolve_complete h dir b m t ht)

/-- soundness and completeness together: a dependency error does not depend on the fuel being too small or too large -
if some run ends in an `InvalidDependencyError`, then (`resolve_designates`) the tree contains an offending call, hence NO
run, with whatever fuel, succeeds -/
theorem resolve_dependency_error_never_ok {fs : FS} {main : Path} {sp : List Path} {fuel : Nat} {m : String} {t : Token}
    (h : resolveRecursive fs main sp fuel = .error (.dependency m t)) (fuel' : Nat) :
    ∃ e, resolveRecursive fs main sp fuel' = .error e := by
  obtain ⟨dir, b, ht, ho⟩ := resolve_designates fs main sp fuel m t h
  exact resolve_fails_of_offending ht ho fuel'

/-- every file of the dependency tree is also completely resolved in the sense of the table: if resolution succeeds,
every file that a literal `require` of a tree block finds parses (so its chunk is again a block of the tree) -/
theorem resolve_complete_parses {fs : FS} {main : Path} {sp : List Path} {fuel : Nat} {b' : Block}
    (h : resolveRecursive fs main sp fuel = .ok b') {dir : Path} {b : Block} (ht : InTree fs sp main dir b) {path : Path}
    (hreq : requiresBlock fs sp dir path b) :
    ∃ text b1 hs, fs.read path = some text ∧ parseText text = .ok (b1, hs) ∧ InTree fs sp main (dirOf path) (asChunk b1) := by
  obtain ⟨F, text, b0, hs, hr, hp, hmain, hF⟩ := resolve_closed_table h
  obtain ⟨text2, b2, hs2, hr2, hp2, _⟩ := hF path ((clean_block_elim (InTree.clean hr hp hmain hF ht)).2 path hreq)
  exact ⟨text2, b2, hs2, hr2, hp2, InTree.step ht hreq hr2 hp2⟩

end Tumfl.Theory
