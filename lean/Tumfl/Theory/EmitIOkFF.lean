import Tumfl.Theory.PrintInlinedDefs
/-!
# `okBlock false false` holds for every tree

With a style that does not keep semicolons, and with the `hidesGuard` clause switched off, `okBlock` asks nothing.
-/
namespace Tumfl.Theory
open Tumfl.Model

mutual
theorem okExpr_ff : (e : Expr) → okExpr false false e = true
  | .nil _ | .bool _ _ | .vararg _ | .number _ _ | .string _ _ | .name _ _ => by simp [okExpr]
  | .func _ _ body => by simp only [okExpr]; exact okBlock_ff body
  | .table _ fs => by simp only [okExpr]; exact okFields_ff fs
  | .binop _ _ l r => by simp only [okExpr, Bool.and_eq_true]; exact ⟨okExpr_ff l, okExpr_ff r⟩
  | .unop _ _ e => by simp only [okExpr]; exact okExpr_ff e
  | .index _ l k => by simp only [okExpr, Bool.and_eq_true]; exact ⟨okExpr_ff l, okExpr_ff k⟩
  | .namedIndex _ l _ => by simp only [okExpr]; exact okExpr_ff l
  | .call _ f args => by simp only [okExpr, Bool.and_eq_true]; exact ⟨okExpr_ff f, okArgs_ff args⟩
  | .method _ f _ args => by simp only [okExpr, Bool.and_eq_true]; exact ⟨okExpr_ff f, okArgs_ff args⟩

theorem okArgs_ff : (es : List Expr) → okArgs false false es = true
  | [] => by simp [okArgs]
  | e :: rest => by simp only [okArgs, Bool.and_eq_true]; exact ⟨okExpr_ff e, okArgs_ff rest⟩

theorem okFields_ff : (fs : List Field) → okFields false false fs = true
  | [] => by simp [okFields]
  | f :: rest => by simp only [okFields, Bool.and_eq_true]; exact ⟨okField_ff f, okFields_ff rest⟩

theorem okField_ff : (f : Field) → okField false false f = true
  | .explicit _ k v => by simp only [okField, Bool.and_eq_true]; exact ⟨okExpr_ff k, okExpr_ff v⟩
  | .named _ _ v => by simp only [okField]; exact okExpr_ff v
  | .numbered _ v => by simp only [okField]; exact okExpr_ff v

theorem okBlock_ff : (b : Block) → okBlock false false b = true
  | .mk _ stmts none _ => by simp only [okBlock]; exact okStmts_ff true stmts
  | .mk _ stmts (some es) _ => by simp only [okBlock, Bool.and_eq_true]; exact ⟨okStmts_ff true stmts, okArgs_ff es⟩

theorem okStmts_ff : (first : Bool) → (ss : List Stmt) → okStmts false false first ss = true
  | _, [] => by simp [okStmts]
  | first, s :: rest => by simp only [okStmts, Bool.and_eq_true]; exact ⟨piOkS_ff first s, okStmts_ff false rest⟩

theorem piOkS_ff : (first : Bool) → (s : Stmt) → piOkS false false first s = true
  | _, .brk _ | _, .goto _ _ | _, .label _ _ | _, .semi _ | _, .localAssign _ _ none => by simp [piOkS]
  | _, .assign _ ts es => by simp only [piOkS, Bool.and_eq_true]; exact ⟨okArgs_ff ts, okArgs_ff es⟩
  | first, .block b => by simp only [piOkS]; exact okSB_ff first b
  | _, .call _ f args => by simp only [piOkS, Bool.and_eq_true]; exact ⟨okExpr_ff f, okArgs_ff args⟩
  | _, .funcDef _ _ _ _ body => by simp only [piOkS]; exact okBlock_ff body
  | _, .iff _ test tr fl => by
    simp only [piOkS, Bool.and_eq_true]; exact ⟨⟨okExpr_ff test, okBlock_ff tr⟩, okFalse_ff fl⟩
  | _, .iterFor _ _ es body => by simp only [piOkS, Bool.and_eq_true]; exact ⟨okArgs_ff es, okBlock_ff body⟩
  | _, .localAssign _ _ (some es) => by simp only [piOkS]; exact okArgs_ff es
  | _, .localFunc _ _ _ body => by simp only [piOkS]; exact okBlock_ff body
  | _, .method _ f _ args => by simp only [piOkS, Bool.and_eq_true]; exact ⟨okExpr_ff f, okArgs_ff args⟩
  | _, .numFor _ _ a b (some s) body => by
    simp only [piOkS, Bool.and_eq_true]; exact ⟨⟨⟨okExpr_ff a, okExpr_ff b⟩, okExpr_ff s⟩, okBlock_ff body⟩
  | _, .numFor _ _ a b none body => by
    simp only [piOkS, Bool.and_eq_true]; exact ⟨⟨okExpr_ff a, okExpr_ff b⟩, okBlock_ff body⟩
  | _, .repeat _ c body => by simp only [piOkS, Bool.and_eq_true]; exact ⟨okExpr_ff c, okBlock_ff body⟩
  | _, .whl _ c body => by simp only [piOkS, Bool.and_eq_true]; exact ⟨okExpr_ff c, okBlock_ff body⟩

theorem okSB_ff : (first : Bool) → (b : Block) → okSB false false first b = true
  | _, .mk _ [] none true => by simp [okSB]
  | first, .mk _ (s :: rest) none true => by
    simp only [okSB, List.isEmpty_cons, Bool.false_eq_true, if_false, Bool.and_eq_true]
    refine ⟨okStmts_ff true (s :: rest), ?_⟩
    cases h : fcStmts (s :: rest) <;> simp [hidesGuard]
  | _, .mk _ stmts none false => by simp only [okSB]; exact okStmts_ff true stmts
  | _, .mk _ stmts (some es) _ => by simp only [okSB, Bool.and_eq_true]; exact ⟨okStmts_ff true stmts, okArgs_ff es⟩

theorem okFalse_ff : (fl : IfFalse) → okFalse false false fl = true
  | .none => by simp [okFalse]
  | .block b => by simp only [okFalse]; exact okBlock_ff b
  | .elif _ test tr fl => by
    simp only [okFalse, Bool.and_eq_true]; exact ⟨⟨okExpr_ff test, okBlock_ff tr⟩, okFalse_ff fl⟩
end

end Tumfl.Theory
