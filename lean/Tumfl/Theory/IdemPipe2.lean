import Tumfl.Theory.IdemPipe
/-!
# C15: a Statement separator at the very end of the piece list is not seen by the formatting pipeline
-/
namespace Tumfl.Theory
open Tumfl Tumfl.Model

theorem searchBwd_mem : ∀ (rp : Pieces) (a : List Char), searchBwd rp = .str a → a = "/".toList ∨ .str a ∈ rp
  | [], a, h => by
    simp only [searchBwd, P, Piece.str.injEq] at h
    exact .inl h.symm
  | p :: r, a, h => by
    simp only [searchBwd] at h
    split at h
    · rcases searchBwd_mem r a h with h' | h'
      · exact .inl h'
      · exact .inr (List.mem_cons_of_mem _ h')
    · exact .inr (by rw [h]; exact List.mem_cons_self)

theorem sepRequired_to_slash {a : List Char} (ha : a ≠ []) : sepRequired a "/".toList = .ok false := by
  rw [sepRequired_eq a "/".toList ha (by decide)]
  have : ("/".toList).head (by decide) = '/' := rfl
  rw [this]
  simp only [sepBool, show wordChars.contains '/' = false by decide, show ('/' == '-') = false by decide,
    show ('/' == '.') = false by decide, show ('/' == '=') = false by decide, show ('/' == '[') = false by decide,
    Bool.and_false, Bool.false_and, Bool.or_false, Bool.false_or, Bool.or_self]

theorem rs_snoc_stmt : ∀ (xs rp : Pieces), (∀ s, Piece.str s ∈ xs → s ≠ []) → (∀ s, Piece.str s ∈ rp → s ≠ []) →
    removeSepsFrom rp (xs ++ [.sep .statement]) = removeSepsFrom rp xs
  | [], rp, _, hrp => by
    rw [List.nil_append, rs_soft (by decide)]
    have e0 : removeSepsFrom (.sep .statement :: rp) [] = .ok [P "/"] := by rw [removeSepsFrom]
    have e1 : removeSepsFrom rp [] = .ok [P "/"] := by rw [removeSepsFrom]
    rw [e0, e1]
    show softDec _ rp [P "/"] = _
    unfold softDec
    have e2 : searchFwd [P "/"] = .ok (P "/") := by simp [searchFwd, P, isIndentTok]
    rw [e2]
    show softDec2 _ rp [P "/"] (P "/") = _
    unfold softDec2
    cases hb : searchBwd rp with
    | sep k => rfl
    | str a =>
      have ha : a ≠ [] := by
        rcases searchBwd_mem rp a hb with rfl | hm
        · decide
        · exact hrp a hm
      simp only [P]
      rw [sepRequired_to_slash ha]
      rfl
  | x :: xs, rp, hxs, hrp => by
    have ih := rs_snoc_stmt xs (x :: rp) (fun s hs => hxs s (List.mem_cons_of_mem _ hs))
      (fun s hs => by
        rcases List.mem_cons.mp hs with e | hs
        · exact hxs s (by rw [← e]; exact List.mem_cons_self)
        · exact hrp s hs)
    rw [List.cons_append]
    cases hk : keepRS x
    · rw [rs_soft hk, rs_soft hk, ih]
    · rw [rs_hard hk, rs_hard hk, ih]

theorem formatPieces_snoc_stmt (sty : Style) (hr : sty.removeUnnecessaryChars = true) (hw : sty.lineWidth = 0)
    (hb : sty.blockSpacer = 0) (E : Pieces) (hne : ∀ s, Piece.str s ∈ E → s ≠ []) :
    formatPieces sty (E ++ [.sep .statement]) = formatPieces sty E := by
  rw [formatPieces_eq_tail sty hr hw hb, formatPieces_eq_tail sty hr hw hb]
  cases E with
  | nil =>
    have e1 : removeSeparators ([] ++ [Piece.sep .statement]) = .ok [.sep .statement] := by
      simp [removeSeparators, removeSepsFrom, bind, Except.bind, P]
    have e2 : removeSeparators ([] : Pieces) = .ok [] := rfl
    rw [e1, e2]
    exact fpTail_stmt sty []
  | cons x0 xs =>
    rw [List.cons_append]
    simp only [removeSeparators]
    rw [rs_snoc_stmt xs [x0] (fun s hs => hne s (List.mem_cons_of_mem _ hs))
      (fun s hs => by
        simp only [List.mem_singleton] at hs
        exact hne s (by rw [← hs]; exact List.mem_cons_self))]

end Tumfl.Theory
