import Tumfl.Theory.IdemMain
import Tumfl.Theory.IdemEmit
import Tumfl.Inst.Styles
import Tumfl.Theory.IdemNum
/-!
# C15  Minifying is idempotent

`minify_idempotent`: for every source text without carriage returns that `parse` accepts, if `format` with the minified style
returns `t1`, then `parse` accepts `t1` and minifying the resulting tree returns `t1` again, byte for byte.
`format_idempotent`: the same for every documented style that minifies (`removeUnnecessaryChars`), does not reflow
(`lineWidth = 0`, `blockSpacer = 0`) and prints neither comments nor `Semicolon` statements; the re-parsed tree is
`Printable` and denotes the same program (`denote b' = denote b`).

The chain:
* `reparse` (IdemExists): `t1` lexes to a reading `ks` of the pieces `removeSeparators` leaves (`format_lex_rs`), the
  reference parser reads `ks` as a tree `c'` that is the tree of `b` up to empty statements (`read_sim`), and the model parser
  reads `t1` as a tree `b'` related to `c'` exactly (`parse_complete`; the tokens are in the scope of the Python lexer:
  `reading_inScope`); hence `denote b' = denote b`;
* `flags_KL` (IdemKL): a block of `b'` begins with a `Semicolon` exactly where the printed tokens of `b` have the `;` guard
  directly behind the block opener, and does not where they have `(` there (`scan_block`, IdemScan: a four-state scanner
  over the token list agrees with the reference parser's tree, for every token list; `rs_kept` / `read_ins` / `scan_ins`,
  IdemIns: a separator the minifier keeps is never in front of a `(`, so the kept `;` tokens do not disturb the scanner;
  `print_parse`, `kB_refRoot`, IdemFlags: the guards of the printed tokens; `lB_of_rel`: the flags of `b'` read off `c'`);
* `reparse_nums` (IdemNum): the numerals of `b'` print as the numerals of `b` (the spelling of an exponent sign is invisible in
  the reference tokens and is followed through the text: `numStrP_emit`, `format_lex_rs_num`, `munlex_nums`,
  `parseText_nums`, `numT_streams`);
* `emit_cn` (IdemEmit): trees with the same denotation, matching flags and equally spelled numerals print the same pieces up to
  Statement separators that directly follow a Statement / Block separator (`cn`);
* `formatPieces_cn`, `formatPieces_snoc_stmt` (IdemPipe, IdemPipe2): the formatting pipeline does not see those separators.

`format_idempotent_of_numerals` is the statement with the numeral spelling as a hypothesis (everything but `reparse_nums`).
-/
namespace Tumfl.Theory
open Tumfl Tumfl.Model

/-- the erasure of `Semicolon` statements does not change the denotation (via the reference tree of the source) -/
theorem denote_dropSemis_of_rel {b : Block} {c : Spec.Block} (h : BlockRel b c) : denote (dropSemis b) = denote b := by
  rw [← blockRel_normS (blockRel_dropSemis h), normS_dropEmpty, blockRel_normS h]

/-- the general form: any documented style that minifies (`removeUnnecessaryChars`), does not reflow (`lineWidth = 0`,
`blockSpacer = 0`) and prints neither comments nor `Semicolon` statements -/
theorem format_idempotent_of_numerals (sty : Style) (hd : DocStyle sty) (hic : sty.includeComments = false)
    (hks : sty.keepSemicolon = false) (hr : sty.removeUnnecessaryChars = true) (hw : sty.lineWidth = 0)
    (hbs : sty.blockSpacer = 0)
    (src t1 : List Char) (b : Block) (hs : List Hint) (hcr : NoCR src)
    (hp : parseText src = .ok (b, hs)) (h1 : format sty b = .ok t1)
    (hnum : ∀ b' hs', parseText t1 = .ok (b', hs') → (numsBlock b').map numberStr = (numsBlock b).map numberStr) :
    ∃ b' hs', parseText t1 = .ok (b', hs') ∧ Printable b' ∧ denote b' = denote b ∧ format sty b' = .ok t1 := by
  have hpr := parseText_printable src b hs hp
  have hn := parseText_numsCanon src b hs hp
  obtain ⟨ts1, ks, f, c', b', hs', hrs, hdisc, hrd, hb, hrel, _, hp', hrel'⟩ :=
    reparse sty hd hic hw hr b hpr hn t1 h1
  have hpr' := parseText_printable t1 b' hs' hp'
  have hn' := parseText_numsCanon t1 b' hs' hp'
  obtain ⟨c, _, hrelc⟩ := parse_sound src hcr b hs hp
  have hden : denote b' = denote b := by
    rw [reparse_denote hrel hrel', denote_dropSemis_of_rel hrelc]
  have hkl := flags_KL sty hic hks b hpr ts1 ks f c' b' hrs hdisc hrd hb hrel'
  have hcn := emit_cn sty hic hks b' b hpr' hpr hden hkl (hnum b' hs' hp')
  refine ⟨b', hs', hp', hpr', hden, ?_⟩
  rw [format_eq_formatPieces,
    ← formatPieces_snoc_stmt sty hr hw hbs _ (emit_strs_ne sty hd hic b' hpr' hn'),
    formatPieces_cn sty hr hw hbs _ ?_ (cn_head_emit sty hic hks b' hpr')]
  · have : emit sty b' ++ [Piece.sep .statement] = emit sty b' ++ [S .statement] := rfl
    rw [this, hcn]
    have : emit sty b ++ [S .statement] = emit sty b ++ [Piece.sep .statement] := rfl
    rw [this, ← formatPieces_cn sty hr hw hbs _ ?_ (cn_head_emit sty hic hks b hpr),
      formatPieces_snoc_stmt sty hr hw hbs _ (emit_strs_ne sty hd hic b hpr hn), ← format_eq_formatPieces]
    · exact h1
    · intro s hs
      rcases List.mem_append.mp hs with hs | hs
      · exact emit_strs_ne sty hd hic b hpr hn s hs
      · simp at hs
  · intro s hs
    rcases List.mem_append.mp hs with hs | hs
    · exact emit_strs_ne sty hd hic b' hpr' hn' s hs
    · simp at hs

/-- **C15 for the minified style**, modulo the spelling of the numerals of the re-parsed tree -/
theorem minify_idempotent_of_numerals (src t1 : List Char) (b : Block) (hs : List Hint) (hcr : NoCR src)
    (hp : parseText src = .ok (b, hs)) (h1 : formatI Inst.minifiedStyle b = .ok t1)
    (hnum : ∀ b' hs', parseText t1 = .ok (b', hs') → (numsBlock b').map numberStr = (numsBlock b).map numberStr) :
    ∃ b' hs', parseText t1 = .ok (b', hs') ∧ formatI Inst.minifiedStyle b' = .ok t1 := by
  rw [formatI_eq_format_of_printable _ b (parseText_printable src b hs hp)] at h1
  obtain ⟨b', hs', hp', hpr', _, hf⟩ := format_idempotent_of_numerals Inst.minifiedStyle Inst.minifiedStyle_doc rfl rfl rfl rfl rfl
    src t1 b hs hcr hp h1 hnum
  exact ⟨b', hs', hp', by rw [formatI_eq_format_of_printable _ b' hpr']; exact hf⟩

/-- **formatting is idempotent** for every documented style that minifies (`removeUnnecessaryChars`), does not reflow
(`lineWidth = 0`, `blockSpacer = 0`) and prints neither comments nor `Semicolon` statements: the text is accepted by the
parser again, the new tree denotes the same program, and formatting it returns the same text -/
theorem format_idempotent (sty : Style) (hd : DocStyle sty) (hic : sty.includeComments = false)
    (hks : sty.keepSemicolon = false) (hr : sty.removeUnnecessaryChars = true) (hw : sty.lineWidth = 0)
    (hbs : sty.blockSpacer = 0)
    (src t1 : List Char) (b : Block) (hs : List Hint) (hcr : NoCR src)
    (hp : parseText src = .ok (b, hs)) (h1 : format sty b = .ok t1) :
    ∃ b' hs', parseText t1 = .ok (b', hs') ∧ Printable b' ∧ denote b' = denote b ∧ format sty b' = .ok t1 :=
  format_idempotent_of_numerals sty hd hic hks hr hw hbs src t1 b hs hcr hp h1
    (fun b' hs' hp' => reparse_nums sty hd hic hw hr src t1 b hs hp h1 b' hs' hp')

/-- **C15  Minifying is idempotent**: parsing minified output and minifying it again reproduces the same text byte for byte,
for every valid program (no carriage return in the source) -/
theorem minify_idempotent (src t1 : List Char) (b : Block) (hs : List Hint) (hcr : NoCR src)
    (hp : parseText src = .ok (b, hs)) (h1 : formatI Inst.minifiedStyle b = .ok t1) :
    ∃ b' hs', parseText t1 = .ok (b', hs') ∧ formatI Inst.minifiedStyle b' = .ok t1 :=
  minify_idempotent_of_numerals src t1 b hs hcr hp h1
    (fun b' hs' hp' => reparse_nums Inst.minifiedStyle Inst.minifiedStyle_doc rfl rfl rfl src t1 b hs hp
      (by rw [← formatI_eq_format_of_printable _ b (parseText_printable src b hs hp)]; exact h1) b' hs' hp')

/-- the re-parsed tree denotes the same program -/
theorem minify_idempotent_denote (src t1 : List Char) (b : Block) (hs : List Hint) (hcr : NoCR src)
    (hp : parseText src = .ok (b, hs)) (h1 : formatI Inst.minifiedStyle b = .ok t1) :
    ∃ b' hs', parseText t1 = .ok (b', hs') ∧ denote b' = denote b ∧ formatI Inst.minifiedStyle b' = .ok t1 := by
  rw [formatI_eq_format_of_printable _ b (parseText_printable src b hs hp)] at h1
  obtain ⟨b', hs', hp', hpr', hden, hf⟩ := format_idempotent Inst.minifiedStyle Inst.minifiedStyle_doc rfl rfl rfl rfl rfl
    src t1 b hs hcr hp h1
  exact ⟨b', hs', hp', hden, by rw [formatI_eq_format_of_printable _ b' hpr']; exact hf⟩

end Tumfl.Theory

