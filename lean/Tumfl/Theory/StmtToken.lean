import Tumfl.Theory.StmtTokenCore
/-!
# The token stored in a statement node is the first token of the statement
-/
namespace Tumfl.Theory
open Tumfl.Model Tumfl.Spec

/-- skip a sub-computation whose result is irrelevant -/
macro "pw_skip" : tactic => `(tactic| (apply PW_any; intro _ _))

syntax "pw_step" : tactic
macro_rules
  | `(tactic| pw_step) => `(tactic| (with_reducible show PW _ _ _; with_reducible first
    | apply PW_pure
    | apply PW_perror
    | apply PW_fuelErrP
    | (apply PW_bind; with_reducible first | apply PW_curTok | pw_skip)
    | (apply PW_ite <;> intro _)
    | split))
macro "pw" : tactic => `(tactic| repeat' pw_step)

/-- `parseBlock f tok e` returns a block whose token is `tok` -/
theorem parseBlock_tok (f : Nat) (tok : Token) (e : Bool) (s : PSt) :
    PW (parseBlock f tok e) (fun b _ => b.tok = tok) s := by
  cases f with
  | zero => rw [parseBlock]; exact PW_fuelErrP
  | succ f =>
    rw [parseBlock]
    pw
    all_goals rfl

theorem parseIf_tok (f : Nat) (s : PSt) : PW (parseIf f) (fun x _ => stmtToken x = s.cur) s := by
  cases f with
  | zero => rw [parseIf]; exact PW_fuelErrP
  | succ f =>
    rw [parseIf]
    pw
    all_goals rfl

theorem parseVarStmt_tok (f : Nat) (s : PSt) : PW (parseVarStmt f) (fun x _ => stmtToken x = s.cur) s := by
  cases f with
  | zero => rw [parseVarStmt]; exact PW_fuelErrP
  | succ f =>
    rw [parseVarStmt]
    pw
    all_goals rfl

/-- the token a statement node gets when its parse begins in state `st`: the current token, except for
`local function`, where `_parse_local_function` stores the `function` token after appending the comments of the
`local` token to the comments of the `function` token -/
def headToken (st : PSt) : Token :=
  if st.cur.type = .LOCAL ∧ st.nxt.type = .FUNCTION then st.nxt.extendComment st.cur.comment else st.cur

theorem headToken_of_ne {st : PSt} (h : st.cur.type ≠ .LOCAL) : headToken st = st.cur := by
  unfold headToken
  rw [if_neg]
  exact fun hh => h hh.1

theorem stmtToken_block (b : Block) : stmtToken (.block b) = b.tok := by cases b; rfl

syntax "pws_step" : tactic
macro_rules
  | `(tactic| pws_step) => `(tactic| (with_reducible show PW _ _ _; with_reducible first
    | apply PW_pure
    | apply PW_perror
    | exact parseIf_tok _ _
    | exact parseVarStmt_tok _ _
    | (apply PW_bind; with_reducible first
        | apply PW_curTok
        | (apply PW_call (parseBlock_tok _ _ _ _); intro _ _ _)
        | pw_skip)
    | (apply PW_ite <;> intro _)
    | split))

theorem parseStatement_tok (f : Nat) (s : PSt) : PW (parseStatement f) (fun x _ => stmtToken x = headToken s) s := by
  cases f with
  | zero => rw [parseStatement]; exact PW_fuelErrP
  | succ f =>
    rw [parseStatement]
    apply PW_bind
    apply PW_curTok
    by_cases hl : s.cur.type = .LOCAL
    · rw [hl]
      dsimp only
      apply PW_bind
      apply PW_eat
      intro s1 h1 _
      apply PW_bind
      apply PW_curTok
      apply PW_ite
      · intro hf
        have hh : headToken s = s1.cur.extendComment s.cur.comment := by
          unfold headToken
          rw [if_pos, h1]
          rw [← h1]
          exact ⟨hl, by simpa using hf⟩
        rw [hh]
        repeat' pws_step
        rfl
      · intro hf
        have hh : headToken s = s.cur := by
          unfold headToken
          rw [if_neg]
          rw [← h1]
          intro hc
          exact hf (by simp [hc.2])
        rw [hh]
        repeat' pws_step
        rfl
    · rw [headToken_of_ne hl]
      split
      all_goals first | exact absurd ‹s.cur.type = TT.LOCAL› hl | skip
      all_goals repeat' pws_step
      all_goals first | rfl | (rw [stmtToken_block]; assumption)

/-- in the `local function` case the node is a `LocalFunctionDefinition` carrying the extended `function` token -/
theorem parseStatement_localFunc_shape (f : Nat) (s : PSt) (hl : s.cur.type = .LOCAL) (hn : s.nxt.type = .FUNCTION) :
    PW (parseStatement f) (fun x _ => ∃ n ps b, x = .localFunc (s.nxt.extendComment s.cur.comment) n ps b) s := by
  cases f with
  | zero => rw [parseStatement]; exact PW_fuelErrP
  | succ f =>
    rw [parseStatement]
    apply PW_bind
    apply PW_curTok
    rw [hl]
    dsimp only
    apply PW_bind
    apply PW_eat
    intro s1 h1 _
    apply PW_bind
    apply PW_curTok
    apply PW_ite
    · intro _
      rw [h1]
      repeat' pws_step
      exact ⟨_, _, _, rfl⟩
    · intro hf
      rw [h1, hn] at hf
      exact absurd rfl hf

/-! ## the main theorems -/

/-- **Main theorem.**  The token of the statement node is the token that was current when `parseStatement` began - except
for `local function`, where it is the `function` token with the comments of `local` appended (`headToken`). -/
theorem parseStatement_token {f : Nat} {st st' : PSt} {s : Stmt} (h : parseStatement f st = .ok (s, st')) :
    stmtToken s = headToken st := parseStatement_tok f st s st' h

/-- every statement form except `local function`: the node's token is the first token of the statement -/
theorem parseStatement_token_cur {f : Nat} {st st' : PSt} {s : Stmt} (h : parseStatement f st = .ok (s, st'))
    (hnl : ¬ (st.cur.type = .LOCAL ∧ st.nxt.type = .FUNCTION)) : stmtToken s = st.cur := by
  rw [parseStatement_token h, headToken, if_neg hnl]

/-- `local function`: the node is a `localFunc` whose token is the SECOND token (`function`), its comment list being the
comments in front of `function` followed by the comments in front of `local` -/
theorem parseStatement_token_localFunc {f : Nat} {st st' : PSt} {s : Stmt} (h : parseStatement f st = .ok (s, st'))
    (hl : st.cur.type = .LOCAL) (hn : st.nxt.type = .FUNCTION) :
    ∃ n ps b, s = .localFunc (st.nxt.extendComment st.cur.comment) n ps b :=
  parseStatement_localFunc_shape f st hl hn s st' h

/-- the leading comments of a statement node -/
theorem parseStatement_comments {f : Nat} {st st' : PSt} {s : Stmt} (h : parseStatement f st = .ok (s, st')) :
    stmtComments s =
      if st.cur.type = .LOCAL ∧ st.nxt.type = .FUNCTION then st.nxt.comment ++ st.cur.comment else st.cur.comment := by
  rw [stmtComments_eq, parseStatement_token h, headToken]
  split <;> rfl

theorem parseStatement_comments_cur {f : Nat} {st st' : PSt} {s : Stmt} (h : parseStatement f st = .ok (s, st'))
    (hnl : ¬ (st.cur.type = .LOCAL ∧ st.nxt.type = .FUNCTION)) : stmtComments s = st.cur.comment := by
  rw [parseStatement_comments h, if_neg hnl]

/-! ## statement lists -/

/-- `StmtsFrom st ss st'` : the list `ss` was produced by successive successful `parseStatement` calls, the first one
started in `st`, each next one in the state the previous one ended in, the last one ending in `st'` (whose current token
is a block end); every node carries the `headToken` of the state its parse began in. -/
inductive StmtsFrom : PSt → List Stmt → PSt → Prop
  | nil {st : PSt} : blockEndTypes.contains st.cur.type = true → StmtsFrom st [] st
  | cons {st st1 st' : PSt} {s : Stmt} {rest : List Stmt} (f : Nat) :
      blockEndTypes.contains st.cur.type = false → parseStatement f st = .ok (s, st1) → stmtToken s = headToken st →
      StmtsFrom st1 rest st' → StmtsFrom st (s :: rest) st'

theorem parseStatements_from {f : Nat} {st st' : PSt} {ss : List Stmt} (h : parseStatements f st = .ok (ss, st')) :
    StmtsFrom st ss st' := by
  induction f generalizing st ss with
  | zero => rw [parseStatements] at h; cases h
  | succ f ih =>
    rw [parseStatements] at h
    have hc : curTok st = .ok (st.cur, st) := rfl
    rw [bind_ok hc] at h
    by_cases hb : blockEndTypes.contains st.cur.type = true
    · rw [if_pos hb] at h
      cases h
      exact .nil hb
    · rw [if_neg hb] at h
      cases h1 : parseStatement f st with
      | error e => rw [bind_err h1] at h; cases h
      | ok r =>
        obtain ⟨s, st1⟩ := r
        rw [bind_ok h1] at h
        cases h2 : parseStatements f st1 with
        | error e => rw [bind_err h2] at h; cases h
        | ok r2 =>
          obtain ⟨rest, st2⟩ := r2
          rw [bind_ok h2] at h
          cases h
          exact .cons f (by simpa using hb) h1 (parseStatement_token h1) (ih h2)

/-- the head of the list carries the token current at the start of the list -/
theorem parseStatements_head {f : Nat} {st st' : PSt} {s : Stmt} {rest : List Stmt}
    (h : parseStatements f st = .ok (s :: rest, st')) : stmtToken s = headToken st := by
  cases parseStatements_from h with
  | cons _ _ _ ht _ => exact ht

theorem StmtsFrom.mem {st st' : PSt} {ss : List Stmt} (h : StmtsFrom st ss st') :
    ∀ s ∈ ss, ∃ f st0 st1, parseStatement f st0 = .ok (s, st1) ∧ stmtToken s = headToken st0 := by
  induction h with
  | nil _ => intro s hs; cases hs
  | cons f _ h1 ht _ ih =>
    intro s hs
    rcases List.mem_cons.mp hs with rfl | hs
    · exact ⟨f, _, _, h1, ht⟩
    · exact ih s hs

/-- every element of the list is the result of a `parseStatement` call and carries the `headToken` of the state that
call began in -/
theorem parseStatements_mem {f : Nat} {st st' : PSt} {ss : List Stmt} (h : parseStatements f st = .ok (ss, st')) :
    ∀ s ∈ ss, ∃ f0 st0 st1, parseStatement f0 st0 = .ok (s, st1) ∧ stmtToken s = headToken st0 :=
  (parseStatements_from h).mem

/-! ## blocks and whole texts -/

theorem parseBlock_from (f : Nat) (tok : Token) (e : Bool) (s : PSt) :
    PW (parseBlock f tok e) (fun b _ => ∃ st1, StmtsFrom s b.stmts st1) s := by
  cases f with
  | zero => rw [parseBlock]; exact PW_fuelErrP
  | succ f =>
    rw [parseBlock]
    apply PW_bind
    intro ss st1 hss
    have hfrom := parseStatements_from hss
    repeat' pws_step
    all_goals exact ⟨_, hfrom⟩

/-- the statements of a successfully parsed text: a `StmtsFrom` chain that starts in the initial parser state (current
token = first token of the text) -/
theorem parseText_from {text : List Char} {b : Block} {hs : List Hint} (h : parseText text = .ok (b, hs)) :
    ∃ s0 st1, initParser {} text = .ok s0 ∧ StmtsFrom s0 b.stmts st1 := by
  unfold parseText at h
  split at h
  · cases h
  · next s0 h0 =>
    refine ⟨s0, ?_⟩
    split at h
    · cases h
    · next b' s1 hb =>
      cases h
      have : PW (do let b ← parseChunk (5 * text.length + 64); assertTok .EOF; pure b : PM Block)
          (fun b _ => ∃ st1, StmtsFrom s0 b.stmts st1) s0 := by
        unfold parseChunk
        apply PW_bind
        apply PW_bind
        apply PW_curTok
        apply PW_bind
        refine PW_call (parseBlock_from _ _ _ _) ?_
        intro b1 _ hb1
        cases b1
        repeat' pws_step
        exact hb1
      obtain ⟨st1, h1⟩ := this b s1 hb
      exact ⟨st1, h0, h1⟩

end Tumfl.Theory
