import Tumfl.Model.Parser
import Tumfl.Theory.HintsLadder
/-!
# A small Hoare logic for the hint stack of the model parser

`HS G m P Q` : started in a state whose hint stack satisfies `P`, the parser computation `m`
either succeeds in a state whose hint stack satisfies `Q`, or fails with an error satisfying `G`.
`Top P` is the set of stacks `l ++ [x]` with `P l` ("one more hint than a `P` stack").
-/
namespace Tumfl.Theory
open Tumfl.Model Tumfl.Spec

/-- the error predicates we can work with: everything the parser raises on purpose, plus the
errors of the lexer -/
class GoodErr (G : PyErr → Prop) : Prop where
  fuel : G .fuel
  parser : ∀ msg tok hs, G (.parser msg tok hs)
  assertion : ∀ site, G (.py "AssertionError" site)
  lex : ∀ cfg s e, getNextToken cfg s = .error e → G e

instance : GoodErr (fun _ => True) := ⟨trivial, fun _ _ _ => trivial, fun _ => trivial, fun _ _ _ _ => trivial⟩

variable {α β : Type} {G : PyErr → Prop}

structure HS (G : PyErr → Prop) (m : PM α) (P Q : List Hint → Prop) : Prop where
  run : ∀ s, P s.hints → match m s with
    | .ok (_, s') => Q s'.hints
    | .error e => G e

/-- stacks with one more entry than a `P` stack -/
def Top (P : List Hint → Prop) : List Hint → Prop := fun h => ∃ l x, P l ∧ h = l ++ [x]

theorem HS_pure (x : α) (P : List Hint → Prop) : HS G (pure x : PM α) P P := by
  constructor; intro s hs; exact hs

theorem bind_ok {m : PM α} {k : α → PM β} {s s1 : PSt} {a : α} (h : m s = .ok (a, s1)) :
    (m >>= k) s = k a s1 := by
  simp [bind, StateT.bind, Except.bind, h]

theorem bind_err {m : PM α} {k : α → PM β} {s : PSt} {e : PyErr} (h : m s = .error e) :
    (m >>= k) s = .error e := by
  simp [bind, StateT.bind, Except.bind, h]

theorem HS_bind {m : PM α} {k : α → PM β} {P Q R : List Hint → Prop}
    (hm : HS G m P Q) (hk : ∀ x, HS G (k x) Q R) : HS G (m >>= k) P R := by
  constructor; intro s hs
  have h1 := hm.run s hs
  split at h1
  · next a s1 h => rw [bind_ok h]; exact (hk a).run s1 h1
  · next e h => rw [bind_err h]; exact h1

theorem HS_ite {c : Prop} [Decidable c] {a b : PM α} {P Q : List Hint → Prop}
    (ha : HS G a P Q) (hb : HS G b P Q) : HS G (if c then a else b) P Q := by
  split
  · exact ha
  · exact hb

/-- a computation that keeps every stack predicate may be used at any predicate -/
theorem HS_of_eq {m : PM α} (h : ∀ b : List Hint, HS G m (· = b) (· = b)) (P : List Hint → Prop) :
    HS G m P P := by
  constructor; intro s hs
  have h1 := (h s.hints).run s rfl
  split
  · next a s1 he => rw [he] at h1; simp only [] at h1; rw [h1]; exact hs
  · next e he => rw [he] at h1; exact h1

theorem HS_curTok (P : List Hint → Prop) : HS G curTok P P := ⟨fun _ hs => hs⟩
theorem HS_nxtTok (P : List Hint → Prop) : HS G nxtTok P P := ⟨fun _ hs => hs⟩
theorem HS_curIs (P : List Hint → Prop) (t : TT) : HS G (curIs t) P P := ⟨fun _ hs => hs⟩

theorem HS_addHint (P : List Hint → Prop) (wher what : String) : HS G (addHint wher what) P (Top P) := by
  constructor; intro s hs
  exact ⟨s.hints, _, hs, rfl⟩

theorem HS_removeHint (P : List Hint → Prop) : HS G removeHint (Top P) P := by
  constructor; intro s hs
  obtain ⟨l, x, hl, he⟩ := hs
  unfold removeHint
  simp [he, hl]

theorem HS_switchHint (P : List Hint → Prop) (what : String) : HS G (switchHint what) (Top P) (Top P) := by
  constructor; intro s hs
  obtain ⟨l, x, hl, he⟩ := hs
  unfold switchHint
  simp only [he, List.getLast?_append, List.getLast?_singleton, Option.some_or, List.dropLast_concat]
  exact ⟨l, _, hl, rfl⟩



section prims
variable [GoodErr G] (P : List Hint → Prop)

theorem HS_perror (msg : String) (tok : Token) (Q : List Hint → Prop) : HS G (perror msg tok : PM α) P Q := by
  constructor; intro s _; exact GoodErr.parser _ _ _

theorem HS_pyerr_assert (site : String) (Q : List Hint → Prop) :
    HS G (pyerr "AssertionError" site : PM α) P Q := by
  constructor; intro s _; exact GoodErr.assertion _

theorem HS_fuelErrP (Q : List Hint → Prop) : HS G (fuelErrP : PM α) P Q := by
  constructor; intro s _; exact GoodErr.fuel

theorem HS_assertTok (t : TT) : HS G (assertTok t) P P := by
  constructor; intro s hs
  unfold assertTok
  by_cases h : (s.cur.type != t) = true
  · simp only [h, if_true]; exact GoodErr.parser _ _ _
  · simp only [h]; exact hs

theorem HS_eatRaw : HS G eatRaw P P := by
  constructor; intro s hs
  unfold eatRaw
  cases h : getNextToken s.cfg s.lex with
  | error e => exact GoodErr.lex _ _ _ h
  | ok r => exact hs

theorem HS_eat (t : Option TT) : HS G (eat t) P P := by
  unfold eat
  cases t with
  | none => exact HS_eatRaw P
  | some ty => exact HS_bind (HS_assertTok P ty) (fun _ => HS_eatRaw P)

theorem HS_eatName : HS G eatName P P := by
  unfold eatName
  apply HS_bind (HS_curTok P); intro t
  apply HS_bind (HS_eat P _); intro _
  exact HS_pure _ _

end prims
