import Tumfl.Theory.PrintInlinedPre
/-!
# Finding K4 as a check on the resolver's output

`noSplicedReturn b`: no chunk in statement position has a return list (the situation of finding K4: a statement-level
`require` of a file with a top-level `return`).  For a pre-printable tree (`qBlock false`, what the resolver guarantees)
this is all that is missing for `qBlock true`.
-/
namespace Tumfl.Theory
open Tumfl.Model

mutual
def nkExpr : Expr → Bool
  | .func _ _ body => nkBlock body
  | .table _ fs => nkFields fs
  | .binop _ _ l r => nkExpr l && nkExpr r
  | .unop _ _ e => nkExpr e
  | .index _ l k => nkExpr l && nkExpr k
  | .namedIndex _ l _ => nkExpr l
  | .call _ f args => nkExpr f && nkArgs args
  | .method _ f _ args => nkExpr f && nkArgs args
  | _ => true

def nkArgs : List Expr → Bool
  | [] => true
  | e :: rest => nkExpr e && nkArgs rest

def nkFields : List Field → Bool
  | [] => true
  | f :: rest => nkField f && nkFields rest

def nkField : Field → Bool
  | .explicit _ k v => nkExpr k && nkExpr v
  | .named _ _ v => nkExpr v
  | .numbered _ v => nkExpr v

def nkBlock : Block → Bool
  | .mk _ stmts (some es) _ => nkStmts stmts && nkArgs es
  | .mk _ stmts none _ => nkStmts stmts

def nkStmts : List Stmt → Bool
  | [] => true
  | s :: rest => nkStmt s && nkStmts rest

def nkStmt : Stmt → Bool
  | .assign _ ts es => nkArgs ts && nkArgs es
  | .block b => nkSB b
  | .call _ f args => nkExpr f && nkArgs args
  | .funcDef _ _ _ _ body => nkBlock body
  | .iff _ test tr fl => nkExpr test && nkBlock tr && nkFalse fl
  | .iterFor _ _ es body => nkArgs es && nkBlock body
  | .localAssign _ _ (some es) => nkArgs es
  | .localFunc _ _ _ body => nkBlock body
  | .method _ f _ args => nkExpr f && nkArgs args
  | .numFor _ _ a b (some s) body => nkExpr a && nkExpr b && nkExpr s && nkBlock body
  | .numFor _ _ a b none body => nkExpr a && nkExpr b && nkBlock body
  | .repeat _ c body => nkExpr c && nkBlock body
  | .whl _ c body => nkExpr c && nkBlock body
  | _ => true

/-- the statement `Stmt.block b`: not a chunk with a return list -/
def nkSB : Block → Bool
  | .mk _ stmts none _ => nkStmts stmts
  | .mk _ stmts (some es) c => !c && nkStmts stmts && nkArgs es

def nkFalse : IfFalse → Bool
  | .none => true
  | .block b => nkBlock b
  | .elif _ test tr fl => nkExpr test && nkBlock tr && nkFalse fl
end

/-- no chunk in statement position has a return list (K4 does not occur) -/
def noSplicedReturn (b : Block) : Bool := nkBlock b

mutual
theorem q_of_nkExpr : (e : Expr) → qExpr false e = true → nkExpr e = true → qExpr true e = true
  | .nil _, _, _ | .bool _ _, _, _ | .vararg _, _, _ | .string _ _, _, _ => by simp [qExpr]
  | .number _ n, h, _ => by simpa [qExpr] using h
  | .name _ n, h, _ => by simpa [qExpr] using h
  | .func _ ps body, h, k => by
    simp only [qExpr, nkExpr, Bool.and_eq_true] at h k ⊢
    exact ⟨h.1, q_of_nkBlock body h.2 k⟩
  | .table _ fs, h, k => by
    simp only [qExpr, nkExpr] at h k ⊢
    exact q_of_nkFields fs h k
  | .binop _ _ l r, h, k => by
    simp only [qExpr, nkExpr, Bool.and_eq_true] at h k ⊢
    exact ⟨q_of_nkExpr l h.1 k.1, q_of_nkExpr r h.2 k.2⟩
  | .unop _ _ e, h, k => by
    simp only [qExpr, nkExpr] at h k ⊢
    exact q_of_nkExpr e h k
  | .index _ l key, h, k => by
    simp only [qExpr, nkExpr, Bool.and_eq_true] at h k ⊢
    exact ⟨q_of_nkExpr l h.1 k.1, q_of_nkExpr key h.2 k.2⟩
  | .namedIndex _ l nm, h, k => by
    simp only [qExpr, nkExpr, Bool.and_eq_true] at h k ⊢
    exact ⟨q_of_nkExpr l h.1 k, h.2⟩
  | .call _ f args, h, k => by
    simp only [qExpr, nkExpr, Bool.and_eq_true] at h k ⊢
    exact ⟨q_of_nkExpr f h.1 k.1, q_of_nkArgs args h.2 k.2⟩
  | .method _ f m args, h, k => by
    simp only [qExpr, nkExpr, Bool.and_eq_true] at h k ⊢
    exact ⟨⟨q_of_nkExpr f h.1.1 k.1, h.1.2⟩, q_of_nkArgs args h.2 k.2⟩

theorem q_of_nkArgs : (es : List Expr) → qArgs false es = true → nkArgs es = true → qArgs true es = true
  | [], _, _ => by simp [qArgs]
  | e :: rest, h, k => by
    simp only [qArgs, nkArgs, Bool.and_eq_true] at h k ⊢
    exact ⟨q_of_nkExpr e h.1 k.1, q_of_nkArgs rest h.2 k.2⟩

theorem q_of_nkFields : (fs : List Field) → qFields false fs = true → nkFields fs = true → qFields true fs = true
  | [], _, _ => by simp [qFields]
  | f :: rest, h, k => by
    simp only [qFields, nkFields, Bool.and_eq_true] at h k ⊢
    exact ⟨q_of_nkField f h.1 k.1, q_of_nkFields rest h.2 k.2⟩

theorem q_of_nkField : (f : Field) → qField false f = true → nkField f = true → qField true f = true
  | .explicit _ key v, h, k => by
    simp only [qField, nkField, Bool.and_eq_true] at h k ⊢
    exact ⟨q_of_nkExpr key h.1 k.1, q_of_nkExpr v h.2 k.2⟩
  | .named _ n v, h, k => by
    simp only [qField, nkField, Bool.and_eq_true] at h k ⊢
    exact ⟨h.1, q_of_nkExpr v h.2 k⟩
  | .numbered _ v, h, k => by
    simp only [qField, nkField] at h k ⊢
    exact q_of_nkExpr v h k

theorem q_of_nkBlock : (b : Block) → qBlock false b = true → nkBlock b = true → qBlock true b = true
  | .mk _ stmts none _, h, k => by
    simp only [qBlock, nkBlock] at h k ⊢
    exact q_of_nkStmts stmts h k
  | .mk _ stmts (some es) _, h, k => by
    simp only [qBlock, nkBlock, Bool.and_eq_true] at h k ⊢
    exact ⟨q_of_nkStmts stmts h.1 k.1, q_of_nkArgs es h.2 k.2⟩

theorem q_of_nkStmts : (ss : List Stmt) → qStmts false ss = true → nkStmts ss = true → qStmts true ss = true
  | [], _, _ => by simp [qStmts]
  | s :: rest, h, k => by
    simp only [qStmts, nkStmts, Bool.and_eq_true] at h k ⊢
    exact ⟨q_of_nkStmt s h.1 k.1, q_of_nkStmts rest h.2 k.2⟩

theorem q_of_nkStmt : (s : Stmt) → qStmt false s = true → nkStmt s = true → qStmt true s = true
  | .brk _, _, _ | .semi _, _, _ => by simp [qStmt]
  | .goto _ _, h, _ | .label _ _, h, _ | .localAssign _ _ none, h, _ => by simpa [qStmt] using h
  | .localAssign _ _ (some []), h, _ => by simp [qStmt] at h
  | .assign _ ts es, h, k => by
    simp only [qStmt, nkStmt, Bool.and_eq_true] at h k ⊢
    exact ⟨⟨⟨⟨h.1.1.1.1, h.1.1.1.2⟩, q_of_nkArgs ts h.1.1.2 k.1⟩, h.1.2⟩, q_of_nkArgs es h.2 k.2⟩
  | .block b, h, k => by
    simp only [qStmt, nkStmt] at h k ⊢
    exact q_of_nkSB b h k
  | .call _ f args, h, k => by
    simp only [qStmt, nkStmt, Bool.and_eq_true] at h k ⊢
    exact ⟨q_of_nkExpr f h.1 k.1, q_of_nkArgs args h.2 k.2⟩
  | .funcDef _ names (some mn) ps body, h, k => by
    simp only [qStmt, nkStmt, Bool.and_eq_true] at h k ⊢
    exact ⟨h.1, q_of_nkBlock body h.2 k⟩
  | .funcDef _ names none ps body, h, k => by
    simp only [qStmt, nkStmt, Bool.and_eq_true] at h k ⊢
    exact ⟨h.1, q_of_nkBlock body h.2 k⟩
  | .iff _ test tr fl, h, k => by
    simp only [qStmt, nkStmt, Bool.and_eq_true] at h k ⊢
    exact ⟨⟨⟨q_of_nkExpr test h.1.1.1 k.1.1, h.1.1.2⟩, q_of_nkBlock tr h.1.2 k.1.2⟩, q_of_nkFalse fl h.2 k.2⟩
  | .iterFor _ ns es body, h, k => by
    simp only [qStmt, nkStmt, Bool.and_eq_true] at h k ⊢
    exact ⟨⟨⟨h.1.1.1, q_of_nkArgs es h.1.1.2 k.1⟩, h.1.2⟩, q_of_nkBlock body h.2 k.2⟩
  | .localAssign _ names (some (e :: rest)), h, k => by
    simp only [qStmt, nkStmt, Bool.and_eq_true] at h k ⊢
    exact ⟨h.1, q_of_nkArgs (e :: rest) h.2 k⟩
  | .localFunc _ n ps body, h, k => by
    simp only [qStmt, nkStmt, Bool.and_eq_true] at h k ⊢
    exact ⟨h.1, q_of_nkBlock body h.2 k⟩
  | .method _ f m args, h, k => by
    simp only [qStmt, nkStmt, Bool.and_eq_true] at h k ⊢
    exact ⟨⟨q_of_nkExpr f h.1.1 k.1, h.1.2⟩, q_of_nkArgs args h.2 k.2⟩
  | .numFor _ v a b (some s) body, h, k => by
    simp only [qStmt, nkStmt, Bool.and_eq_true] at h k ⊢
    exact ⟨⟨⟨⟨⟨h.1.1.1.1.1, q_of_nkExpr a h.1.1.1.1.2 k.1.1.1⟩, q_of_nkExpr b h.1.1.1.2 k.1.1.2⟩,
      q_of_nkExpr s h.1.1.2 k.1.2⟩, h.1.2⟩, q_of_nkBlock body h.2 k.2⟩
  | .numFor _ v a b none body, h, k => by
    simp only [qStmt, nkStmt, Bool.and_eq_true] at h k ⊢
    exact ⟨⟨⟨⟨h.1.1.1.1, q_of_nkExpr a h.1.1.1.2 k.1.1⟩, q_of_nkExpr b h.1.1.2 k.1.2⟩, h.1.2⟩,
      q_of_nkBlock body h.2 k.2⟩
  | .repeat _ c body, h, k => by
    simp only [qStmt, nkStmt, Bool.and_eq_true] at h k ⊢
    exact ⟨⟨h.1.1, q_of_nkBlock body h.1.2 k.2⟩, q_of_nkExpr c h.2 k.1⟩
  | .whl _ c body, h, k => by
    simp only [qStmt, nkStmt, Bool.and_eq_true] at h k ⊢
    exact ⟨⟨q_of_nkExpr c h.1.1 k.1, h.1.2⟩, q_of_nkBlock body h.2 k.2⟩

theorem q_of_nkSB : (b : Block) → qSB false b = true → nkSB b = true → qSB true b = true
  | .mk _ stmts none _, h, k => by
    simp only [qSB, nkSB] at h k ⊢
    exact q_of_nkStmts stmts h k
  | .mk _ stmts (some es) c, h, k => by
    simp only [qSB, nkSB, Bool.and_eq_true, Bool.not_eq_true', Bool.not_true, Bool.or_false] at h k ⊢
    exact ⟨⟨k.1.1, q_of_nkStmts stmts h.1.2 k.1.2⟩, q_of_nkArgs es h.2 k.2⟩

theorem q_of_nkFalse : (fl : IfFalse) → qFalse false fl = true → nkFalse fl = true → qFalse true fl = true
  | .none, _, _ => by simp [qFalse]
  | .block b, h, k => by
    simp only [qFalse, nkFalse, Bool.and_eq_true] at h k ⊢
    exact ⟨h.1, q_of_nkBlock b h.2 k⟩
  | .elif _ test tr fl, h, k => by
    simp only [qFalse, nkFalse, Bool.and_eq_true] at h k ⊢
    exact ⟨⟨⟨q_of_nkExpr test h.1.1.1 k.1.1, h.1.1.2⟩, q_of_nkBlock tr h.1.2 k.1.2⟩, q_of_nkFalse fl h.2 k.2⟩
end

end Tumfl.Theory
