import Tumfl.Theory.UnlexDefs
import Tumfl.Theory.BoundaryStr
/-!
# Emitted comments never swallow code or turn into code

`formatComment sty c` writes either a short comment `--<sep><text>` followed by a Newline separator, or a
long comment `--[=*[<text>]=*]` followed by a Statement separator; `<text>` is `pyStrip c` in both cases.

* the stripped text never starts (or ends) with a character of `Gen.pyIsSpace`; `'\n'` is one of them, so the
  "first newline after the opener is dropped" rule of long brackets cannot lose a character
  (`pyStrip_not_startsWith_nl`);
* the short form is only chosen when the text has no newline, and (for a separator made of blanks and
  tabs, possibly empty) what follows `--` is not a long-bracket opener (`short_longOpener_none`);
* the long form reads back as `pyStrip c` for every continuation (`formatComment_long_lit`).
-/
namespace Tumfl.Theory
open Tumfl Tumfl.Spec Tumfl.Model

/-! ## `pyStrip` -/

/-- the newline is one of the characters `str.strip()` removes -/
theorem nl_isLuaSpacePy : isLuaSpacePy '\n' = true := by decide

theorem dropWhile_head_not (p : Char → Bool) (s : List Char) (d : Char) (t : List Char)
    (h : s.dropWhile p = d :: t) : p d = false := by
  induction s with
  | nil => simp at h
  | cons a as ih =>
    rw [List.dropWhile_cons] at h
    split at h
    · exact ih h
    · rename_i hp
      simp only [List.cons.injEq] at h
      rw [← h.1]; simpa using hp

/-- every element that survives `dropWhile p` on the reversed list ... : the first element of
`(l.reverse.dropWhile p).reverse` is the first element of `l`, when there is one -/
theorem head_reverse_dropWhile_reverse (p : Char → Bool) (l : List Char) (d : Char) (t : List Char)
    (h : (l.reverse.dropWhile p).reverse = d :: t) : ∃ t', l = d :: t' := by
  -- `l.reverse.dropWhile p` is a suffix of `l.reverse`, so its reverse is a prefix of `l`
  have hs : (l.reverse.dropWhile p) <:+ l.reverse := List.dropWhile_suffix p
  have hp : (l.reverse.dropWhile p).reverse <+: l := by
    have := List.reverse_prefix.mpr hs
    simpa using this
  rw [h] at hp
  obtain ⟨r, hr⟩ := hp
  exact ⟨t ++ r, by simpa using hr.symm⟩

/-- a stripped text does not begin with a strippable character -/
theorem pyStrip_head (c : List Char) (d : Char) (t : List Char) (h : pyStrip c = d :: t) :
    isLuaSpacePy d = false := by
  unfold pyStrip at h
  obtain ⟨t', ht'⟩ := head_reverse_dropWhile_reverse isLuaSpacePy _ d t h
  exact dropWhile_head_not isLuaSpacePy c d t' ht'

/-- a stripped text does not end with a strippable character -/
theorem pyStrip_last (c : List Char) (i : List Char) (d : Char) (h : pyStrip c = i ++ [d]) :
    isLuaSpacePy d = false := by
  unfold pyStrip at h
  have h2 : ((c.dropWhile isLuaSpacePy).reverse.dropWhile isLuaSpacePy) = d :: i.reverse := by
    have := congrArg List.reverse h
    simpa using this
  exact dropWhile_head_not isLuaSpacePy _ d _ h2

/-- a stripped text never starts with a newline -/
theorem pyStrip_not_startsWith_nl (c : List Char) : startsWith (pyStrip c) ['\n'] = false := by
  cases h : pyStrip c with
  | nil => rfl
  | cons d t =>
    have hd := pyStrip_head c d t h
    by_cases e : d = '\n'
    · subst e; rw [nl_isLuaSpacePy] at hd; cases hd
    · have : (('\n' : Char) == d) = false := by simpa using fun h => e h.symm
      simp [startsWith, isPrefix, this]

/-! ## the short form does not begin like a long bracket -/

theorem countEq_snd (cs : List Char) : (countEq cs).2 = cs.dropWhile (· == '=') := by
  induction cs with
  | nil => rw [countEq.eq_def]; rfl
  | cons a as ih =>
    by_cases ha : a = '='
    · subst ha
      rw [countEq]
      simp only [List.dropWhile_cons, beq_self_eq_true, if_true]
      exact ih
    · have hb : (a == '=') = false := by simpa using ha
      rw [List.dropWhile_cons, hb]
      rw [countEq.eq_def]
      split
      · rename_i heq; simp only [List.cons.injEq] at heq; exact absurd heq.1 ha
      · rfl

theorem startsWith_lb (s : List Char) : startsWith s ['['] = true ↔ ∃ r, s = '[' :: r := by
  cases s with
  | nil => simp [startsWith, isPrefix]
  | cons a as =>
    simp only [startsWith, isPrefix, Bool.and_true, beq_iff_eq, List.cons.injEq, exists_and_left,
      exists_eq', and_true]
    exact eq_comm

/-- `longOpener` succeeds exactly on the texts for which the model's `opensBracket` test (without the separator part) is true -/
theorem longOpener_isSome_iff (s : List Char) :
    (longOpener s).isSome = (startsWith s ['['] && startsWith ((s.drop 1).dropWhile (· == '=')) ['[']) := by
  cases s with
  | nil => simp [longOpener, startsWith, isPrefix]
  | cons a as =>
    by_cases ha : a = '['
    · subst ha
      have h1 : startsWith ('[' :: as) ['['] = true := by simp [startsWith, isPrefix]
      rw [h1, Bool.true_and, List.drop_one, List.tail_cons, ← countEq_snd, longOpener]
      rcases hce : countEq as with ⟨n, r⟩
      cases r with
      | nil => simp [startsWith, isPrefix]
      | cons b bs =>
        by_cases hb : b = '['
        · subst hb; simp [startsWith, isPrefix]
        · have hb' : (('[' : Char) == b) = false := by simpa using fun h => hb h.symm
          simp only [startsWith, isPrefix, hb', Bool.false_and]
          split
          · rename_i heq; simp only [Prod.mk.injEq, List.cons.injEq] at heq; exact absurd heq.2.1 hb
          · rfl
    · have h1 : startsWith (a :: as) ['['] = false := by
        have : (('[' : Char) == a) = false := by simpa using fun h => ha h.symm
        simp [startsWith, isPrefix, this]
      rw [h1, Bool.false_and, longOpener.eq_def]
      split
      · rename_i heq; simp only [List.cons.injEq] at heq; exact absurd heq.1 ha
      · rfl

/-- with a separator made of blanks and tabs (possibly empty), when the model's `opensBracket` test is false
what follows `--` is not a long-bracket opener -/
theorem short_longOpener_none (sep text : List Char) (hsep : ∀ ch ∈ sep, ch = ' ' ∨ ch = '\t')
    (h : (sep.isEmpty && startsWith text ['['] && startsWith ((text.drop 1).dropWhile (· == '=')) ['[']) = false) :
    longOpener (sep ++ text) = none := by
  cases sep with
  | nil =>
    have := longOpener_isSome_iff text
    simp only [List.isEmpty_nil, Bool.true_and] at h
    rw [h] at this
    simpa using this
  | cons a as =>
    rw [List.cons_append, longOpener.eq_def]
    split
    · rename_i heq
      simp only [List.cons.injEq] at heq
      rcases hsep a (by simp) with e | e <;> · rw [e] at heq; exact absurd heq.1 (by decide)
    · rfl

/-! ## the two forms -/

/-- the bracket `formatComment` writes in long form is a long literal that reads back as the stripped text -/
theorem formatComment_long_lit (c : List Char) :
    IsLongLit ('[' :: repeatChar '=' (findLevel (pyStrip c)) ++ '[' :: pyStrip c ++ closer (findLevel (pyStrip c)))
      (pyStrip c) := by
  refine ⟨findLevel (pyStrip c), pyStrip c, rfl, ?_⟩
  intro rest
  have := long_roundtrip (pyStrip c) rest
  simp only [pyStrip_not_startsWith_nl, Bool.false_eq_true, if_false, List.nil_append] at this
  exact this

/-- the model's test for "must be written as a long comment" -/
def commentNeedsLong (sty : Style) (c : List Char) : Bool :=
  (pyStrip c).contains '\n' ||
    (sty.commentSep.isEmpty && startsWith (pyStrip c) ['['] &&
      startsWith (((pyStrip c).drop 1).dropWhile (· == '=')) ['['])

/-- the short text -/
def shortCommentText (sty : Style) (c : List Char) : List Char := "--".toList ++ sty.commentSep ++ pyStrip c
/-- the long text -/
def longCommentText (c : List Char) : List Char :=
  '-' :: '-' :: ('[' :: repeatChar '=' (findLevel (pyStrip c)) ++ '[' :: pyStrip c ++ closer (findLevel (pyStrip c)))

theorem formatComment_cases (sty : Style) (c : List Char) :
    formatComment sty c =
      if commentNeedsLong sty c then [.str (longCommentText c), .sep .statement]
      else [.str (shortCommentText sty c), .sep .newline] := by
  unfold formatComment commentNeedsLong longCommentText shortCommentText
  simp only [S]
  split
  · simp [closer]
  · rfl

/-- the short text is a short comment (separator of blanks and tabs, possibly empty) -/
theorem shortCommentText_wf (sty : Style) (hsep : ∀ ch ∈ sty.commentSep, ch = ' ' ∨ ch = '\t') (c : List Char)
    (h : commentNeedsLong sty c = false) : IsShortComment (shortCommentText sty c) := by
  unfold commentNeedsLong at h
  rw [Bool.or_eq_false_iff] at h
  obtain ⟨hnl, hob⟩ := h
  refine ⟨sty.commentSep ++ pyStrip c, by simp [shortCommentText], ?_, short_longOpener_none _ _ hsep hob⟩
  intro hm
  rw [List.mem_append] at hm
  rcases hm with hm | hm
  · rcases hsep _ hm with e | e <;> exact absurd e (by decide)
  · have : (pyStrip c).contains '\n' = true := by simpa using hm
    rw [this] at hnl; cases hnl

/-- the long text is a long comment, whose body reads back as the stripped text -/
theorem longCommentText_wf (c : List Char) : IsLongComment (longCommentText c) :=
  ⟨_, pyStrip c, rfl, formatComment_long_lit c⟩

/-- MAIN THEOREM, detailed form: which form is chosen, the exact texts, and the value read back -/
theorem formatComment_wf_detail (sty : Style) (hsep : ∀ ch ∈ sty.commentSep, ch = ' ' ∨ ch = '\t') (c : List Char) :
    (commentNeedsLong sty c = false ∧
      formatComment sty c = [.str ("--".toList ++ sty.commentSep ++ pyStrip c), .sep .newline] ∧
      '\n' ∉ sty.commentSep ++ pyStrip c ∧
      longOpener (sty.commentSep ++ pyStrip c) = none ∧
      IsShortComment ("--".toList ++ sty.commentSep ++ pyStrip c)) ∨
    (commentNeedsLong sty c = true ∧
      ∃ lit, formatComment sty c = [.str ('-' :: '-' :: lit), .sep .statement] ∧
        IsLongLit lit (pyStrip c) ∧ IsLongComment ('-' :: '-' :: lit)) := by
  rw [formatComment_cases]
  cases h : commentNeedsLong sty c
  · left
    have hw := shortCommentText_wf sty hsep c h
    have e : shortCommentText sty c = '-' :: '-' :: (sty.commentSep ++ pyStrip c) := by simp [shortCommentText]
    obtain ⟨body, hb, hnl, hlo⟩ := id hw
    have hbody : body = sty.commentSep ++ pyStrip c := by
      rw [e] at hb
      simp only [List.cons.injEq, true_and] at hb
      exact hb.symm
    subst hbody
    exact ⟨rfl, rfl, hnl, hlo, hw⟩
  · right
    exact ⟨rfl, _, rfl, formatComment_long_lit c, longCommentText_wf c⟩

/-- MAIN THEOREM: an emitted comment is a short comment followed by a Newline separator or a long comment followed by
a Statement separator -/
theorem formatComment_wf (sty : Style) (hsep : ∀ ch ∈ sty.commentSep, ch = ' ' ∨ ch = '\t') (c : List Char) :
    (∃ t, formatComment sty c = [.str t, .sep .newline] ∧ IsShortComment t) ∨
    (∃ t, formatComment sty c = [.str t, .sep .statement] ∧ IsLongComment t) := by
  rcases formatComment_wf_detail sty hsep c with ⟨_, he, _, _, hw⟩ | ⟨_, lit, he, _, hw⟩
  · exact Or.inl ⟨_, he, hw⟩
  · exact Or.inr ⟨_, he, hw⟩

/-- short case: the text is `"--" ++ commentSep ++ pyStrip c` -/
theorem formatComment_short_text (sty : Style) (c t : List Char)
    (h : formatComment sty c = [.str t, .sep .newline]) : t = "--".toList ++ sty.commentSep ++ pyStrip c := by
  rw [formatComment_cases] at h
  split at h
  · simp at h
  · simp only [List.cons.injEq, Piece.str.injEq, and_true] at h
    exact h.symm

/-- long case: the text is `--` followed by a long literal which the reference reads back as `pyStrip c` -/
theorem formatComment_long_text (sty : Style) (c t : List Char)
    (h : formatComment sty c = [.str t, .sep .statement]) :
    ∃ lit, t = '-' :: '-' :: lit ∧ IsLongLit lit (pyStrip c) := by
  rw [formatComment_cases] at h
  split at h
  · simp only [List.cons.injEq, Piece.str.injEq, and_true] at h
    exact ⟨_, h.symm, formatComment_long_lit c⟩
  · simp at h

/-- a long comment followed by anything: the reference long-bracket reader, started after `--[=*[`, returns the stripped
text and the untouched continuation (the comment swallows nothing) -/
theorem formatComment_long_reads (sty : Style) (c t : List Char)
    (h : formatComment sty c = [.str t, .sep .statement]) (rest : List Char) :
    ∃ lvl after, longOpener ((t ++ rest).drop 2) = some (lvl, after) ∧
      longBody lvl (dropFirstNewline after) = some (pyStrip c, rest) := by
  obtain ⟨lit, rfl, lvl, content, rfl, hb⟩ := formatComment_long_text sty c t h
  refine ⟨lvl, content ++ closer lvl ++ rest, ?_, hb rest⟩
  have := longOpener_written lvl (content ++ closer lvl ++ rest)
  simpa using this

end Tumfl.Theory
