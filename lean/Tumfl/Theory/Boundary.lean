import Tumfl.Theory.BoundaryStr
import Tumfl.Theory.BoundarySymTables
/-!
# Removing separators never lets two adjacent tokens fuse or split

The minifier drops the separator between two adjacent output pieces `a`, `b` when
`Model.sepRequired a b = .ok false`.  This file assembles the boundary lemmas:

* BoundaryChars.lean - `wordChars` = `isAlnum`, `sepRequired` as the Boolean `sepBool` of three
  characters, `NoSep` (what `.ok false` says, clause by clause);
* BoundaryLex.lean - one-step lemmas for `Spec.lexLoop`, `symAt`, `lexOne`, `lexLoop_lexOne`;
* BoundaryWord.lean - names and keywords (`word_boundary`, `word_sep_kept`);
* BoundaryNum.lean - numerals (`CanonNumeral`, `numeral_boundary`, `numeral_dot_sep_kept`);
* BoundarySym.lean, BoundarySymTables.lean - symbols (`sym_boundary`, `kept_*`, `fuses_is_real`, tables);
* BoundaryStr.lean - string literals (`quoted_lexOne`, `long_lexOne`);

into `boundary_lexOne` / `boundary_lexLoop`: for a piece `a` of any class and *any* following text `b`
with `sepRequired a b = .ok false` (and not one of the five `fuses` situations), the reference lexer,
started at `a ++ b ++ rest`, emits exactly the token of `a` and continues at `b ++ rest`.
-/
namespace Tumfl.Theory
open Tumfl Tumfl.Spec Tumfl.Model

/-- The pieces the formatter emits, with the token each one is: names and keywords, canonical numerals,
symbols, quoted strings, long strings. -/
inductive IsPiece : List Char → Tk → Prop
  | word (c : Char) (cs : List Char) (hc : isAlpha c = true) (hcs : ∀ x ∈ cs, isAlnum x = true) :
      IsPiece (c :: cs) (wordTk (c :: cs))
  | num (n : Numeral) (sg : List Char) (hc : CanonNum n sg) :
      IsPiece (numText n 'x' (stdMark n.hex) sg) (.num n)
  | sym (x : List Char) (hx : symShape x = true) : IsPiece x (.sym (String.ofList x))
  | quoted (a : List Char) (v : List SUnit) (h : IsQuotedLit a v) : IsPiece a (.str v)
  | long (a v : List Char) (h : IsLongLit a v) : IsPiece a (.str (v.map fun ch => .ch ch.toNat))

/-- every symbol of the list is a piece -/
theorem isPiece_symPieces (x : List Char) (hx : x ∈ symPieces) : IsPiece x (.sym (String.ofList x)) :=
  .sym x (symPieces_shape x hx)

/-- a keyword or name is a piece -/
theorem isPiece_word (a : List Char) (ha : IsWord a) : IsPiece a (wordTk a) := by
  obtain ⟨c, cs, rfl, hc, hcs⟩ := ha
  exact .word c cs hc hcs

/-- what `numberStr` prints is a piece -/
theorem isPiece_numberStr (n : Numeral) (m : Char) (sg : List Char) (wf : NumWF n m sg) :
    IsPiece (numberStr (tupleOf n sg)) (.num (canon n)) := by
  rw [numberStr_tupleOf n m sg wf]
  exact .num (canon n) sg (canonNum_canon n m sg wf)

/-- what `visitString` writes is a piece (either form) -/
theorem isPiece_visitString (sty : Style) (v : List Char) :
    ∃ a, visitString sty v = [.str a] ∧ IsPiece a (.str (v.map fun c => SUnit.ch c.toNat)) := by
  unfold visitString
  simp only
  split
  · exact ⟨_, rfl, .long _ v (visitString_long v)⟩
  · refine ⟨_, rfl, .quoted _ _ (visitString_quoted _ ?_ v)⟩
    split <;> simp

/-- MAIN THEOREM.  `a` a piece with token `tk`, `b` any text, the separator between them removable
(`sepRequired a b = .ok false`), and `a`, `b` not in one of the `fuses` situations (`<`|`<`, `>`|`>`, `/`|`/`,
`:`|`:`, `.`|digit - see `fuses_is_real`): the reference lexer reads exactly the token of `a` at
`a ++ b ++ rest` and goes on at `b ++ rest`. -/
theorem boundary_lexOne (a b rest : List Char) (tk : Tk) (ha : IsPiece a tk)
    (h : sepRequired a b = .ok false) (hf : ∀ d t, b = d :: t → fuses a d = false) :
    lexOne (a ++ b ++ rest) = some (tk, b ++ rest) := by
  cases ha with
  | word c cs hc hcs => exact word_lexOne c cs b rest hc hcs h
  | num n sg hc => exact numeral_lexOne n sg hc b rest h
  | sym x hx => exact sym_lexOne a hx b rest h hf
  | quoted _ v hq => exact quoted_lexOne a v hq b rest
  | long _ v hl => exact long_lexOne a v hl b rest

/-- the same as one unfolding of `lexLoop`: it emits `tk` (with the pending comments `cm`, at the offset
of `a`) and continues with `lexLoop n f (b ++ rest) []` -/
theorem boundary_lexLoop (n f : Nat) (cm : List (List Char)) (a b rest : List Char) (tk : Tk)
    (ha : IsPiece a tk) (h : sepRequired a b = .ok false) (hf : ∀ d t, b = d :: t → fuses a d = false) :
    lexLoop n (f + 1) (a ++ b ++ rest) cm =
      (lexLoop n f (b ++ rest) []).map fun ts =>
        { tk := tk, off := n - (a ++ b ++ rest).length, comments := cm.reverse } :: ts := by
  have h1 := boundary_lexOne a b rest tk ha h hf
  cases hc : a ++ b ++ rest with
  | nil => rw [hc] at h1; unfold lexOne at h1; cases h1
  | cons c cs =>
    rw [hc] at h1
    exact lexLoop_lexOne n f c cs cm tk (b ++ rest) h1

/-- for every class except single-character symbols the `fuses` hypothesis is vacuous -/
theorem fuses_false_of_piece (a : List Char) (tk : Tk) (ha : IsPiece a tk) (hs : symShape a = false ∨ 2 ≤ a.length)
    (d : Char) : fuses a d = false := by
  cases a with
  | nil => rfl
  | cons c cs =>
    cases cs with
    | cons _ _ => rfl
    | nil =>
      rcases hs with hs | hs
      · simp only [symShape] at hs
        cases hfu : fuses [c] d with
        | false => rfl
        | true =>
          exfalso
          simp only [fuses, Bool.or_eq_true, Bool.and_eq_true, beq_iff_eq] at hfu
          rcases hfu with (((⟨rfl, _⟩ | ⟨rfl, _⟩) | ⟨rfl, _⟩) | ⟨rfl, _⟩) | ⟨rfl, _⟩ <;>
            exact absurd hs (by decide)
      · simp at hs

/-- a kept separator: a piece followed by a blank is read, and the blank is skipped -/
theorem piece_then_space (n f : Nat) (cm : List (List Char)) (a rest : List Char) (tk : Tk) (ha : IsPiece a tk)
    (hne : a ≠ []) :
    lexLoop n (f + 2) (a ++ ' ' :: rest) cm =
      (lexLoop n f rest []).map fun ts =>
        { tk := tk, off := n - (a ++ ' ' :: rest).length, comments := cm.reverse } :: ts := by
  have hs : sepRequired a [' '] = .ok false := by
    rw [sepRequired_eq a [' '] hne (by simp)]
    refine congrArg _ ?_
    simp only [List.head_cons, sepBool, show wordChars.contains ' ' = false by decide,
      show (' ' == '-') = false by decide, show (' ' == '.') = false by decide,
      show (' ' == '=') = false by decide, show (' ' == '[') = false by decide,
      Bool.and_false, Bool.false_and, Bool.or_self]
  have hfu : ∀ d t, [' '] = d :: t → fuses a d = false := by
    intro d t heq
    simp only [List.cons.injEq] at heq
    rw [← heq.1]
    unfold fuses
    split
    · rename_i c
      simp only [show (' ' == '<') = false by decide, show (' ' == '>') = false by decide,
        show (' ' == '/') = false by decide, show (' ' == ':') = false by decide,
        show isDigit ' ' = false by decide, Bool.and_false, Bool.or_self]
    · rfl
  have := boundary_lexLoop n (f + 1) cm a [' '] rest tk ha hs hfu
  simp only [List.append_assoc, List.cons_append, List.nil_append] at this
  rw [this]
  congr 1

/-! ## a whole run of pieces -/

/-- every separator inside the run `a₁ a₂ ... aₖ` is removable -/
def Adjacent : List (List Char) → Prop
  | a :: b :: more =>
    sepRequired a b = .ok false ∧ (∀ d t, b = d :: t → fuses a d = false) ∧ Adjacent (b :: more)
  | _ => True

/-- A run of pieces written without any separator, followed by a text `z` (the next piece, a blank, ...):
the reference lexer reads exactly their tokens, in order, and goes on at `z`. -/
theorem boundary_run (n : Nat) (ps : List (List Char × Tk)) (z rest : List Char)
    (hp : ∀ p ∈ ps, IsPiece p.1 p.2) (hadj : Adjacent (ps.map (·.1) ++ [z])) (f : Nat) :
    (lexLoop n (f + ps.length) ((ps.map (·.1)).flatten ++ z ++ rest) []).map (List.map Tok.tk) =
      (lexLoop n f (z ++ rest) []).map fun ts => ps.map (·.2) ++ ts.map Tok.tk := by
  induction ps with
  | nil =>
    simp only [List.map_nil, List.flatten_nil, List.nil_append, List.length_nil, Nat.add_zero]
  | cons p ps ih =>
    obtain ⟨a, tk⟩ := p
    have ha : IsPiece a tk := hp (a, tk) (by simp)
    -- the text after `a`: the next piece, or `z`
    have key : ∀ (b : List Char) (more : List (List Char)), ps.map (·.1) ++ [z] = b :: more →
        lexLoop n (f + ps.length + 1) (a ++ b ++ (more.flatten ++ rest)) [] =
          (lexLoop n (f + ps.length) (b ++ (more.flatten ++ rest)) []).map fun ts =>
            { tk := tk, off := n - (a ++ b ++ (more.flatten ++ rest)).length, comments := [].reverse } :: ts := by
      intro b more hb
      simp only [List.map_cons, List.cons_append, hb] at hadj
      exact boundary_lexLoop n (f + ps.length) [] a b _ tk ha hadj.1 hadj.2.1
    have hadj' : Adjacent (ps.map (·.1) ++ [z]) := by
      cases hb : ps.map (·.1) ++ [z] with
      | nil => trivial
      | cons b more =>
        simp only [List.map_cons, List.cons_append, hb] at hadj
        exact hadj.2.2
    have ih' := ih (fun q hq => hp q (by simp [hq])) hadj'
    cases hb : ps.map (·.1) ++ [z] with
    | nil => simp at hb
    | cons b more =>
      have hflat : (ps.map (·.1)).flatten ++ z = b ++ more.flatten := by
        have := congrArg List.flatten hb
        simpa using this
      have e1 : (((a, tk) :: ps).map (·.1)).flatten = a ++ (ps.map (·.1)).flatten := by simp
      have e2 : a ++ (ps.map (·.1)).flatten ++ z ++ rest = a ++ b ++ (more.flatten ++ rest) := by
        rw [List.append_assoc a, hflat]; simp
      have e3 : (ps.map (·.1)).flatten ++ z ++ rest = b ++ (more.flatten ++ rest) := by
        rw [hflat]; simp
      rw [e1, e2, List.length_cons, ← Nat.add_assoc, key b more hb]
      rw [e3] at ih'
      cases hl : lexLoop n (f + ps.length) (b ++ (more.flatten ++ rest)) [] with
      | error e =>
        rw [hl] at ih'
        cases hr : lexLoop n f (z ++ rest) [] with
        | error e' => rw [hr] at ih'; simp only [Except.map] at ih' ⊢; exact ih'
        | ok ts' => rw [hr] at ih'; simp only [Except.map] at ih'; cases ih'
      | ok ts =>
        rw [hl] at ih'
        cases hr : lexLoop n f (z ++ rest) [] with
        | error e' => rw [hr] at ih'; simp only [Except.map] at ih'; cases ih'
        | ok ts' =>
          rw [hr] at ih'
          simp only [Except.map, Except.ok.injEq] at ih' ⊢
          simp only [List.map_cons, List.cons_append, ih']

end Tumfl.Theory
