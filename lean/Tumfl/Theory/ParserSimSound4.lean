import Tumfl.Theory.ParserSimSound3
/-!
# Soundness, step lemmas: arguments, variables and suffix chains, atoms
-/
namespace Tumfl.Theory
open Tumfl.Model Tumfl.Spec

variable {B : Bridge}

theorem parseArgs_sound_step {f : Nat} (ih : AllSound B f) (ts : List Tok) :
    SPF B (Model.parseArgs (f + 1)) ts (fun r ts' =>
    ∃ args, Ev (funcargs · ts) (args, ts') ∧ Forall₂ ExpRel r args ∧ argsTk (pk ts) = true) := by
  rw [Model.parseArgs]
  sp ih
  sp_split <;> sp ih
  · exact ⟨_, ev_funcargs_paren0 asm asm, .nil, by simp [argsTk, *]⟩
  · exact ⟨_, ev_funcargs_paren1 asm asm asm asm, asm, by simp [argsTk, *]⟩
  · exact ⟨_, ev_funcargs_table asm asm, .cons asm .nil, by simp [argsTk, *]⟩
  · rename_i t hk _ _ v hv
    rw [hv] at hk
    have hval := hk.str_val
    subst hval
    exact ⟨_, ev_funcargs_str hv, .cons (.str _ _) .nil, by simp [argsTk, hv]⟩

/-- the common tail of `_parse_var_terminal`: an optional further suffix -/
theorem varTerminal_tail {f : Nat} (ih : AllSound B f) {v : Expr} {v' base' : Exp} {ts0 ts1 : List Tok}
    (hv : ExpRel v v') (hnp : NoParen v')
    (hk : ∀ r, Ev (suffixes · v' ts1) r → Ev (suffixes · base' ts0) r) :
    SPF B (do
        let c ← curTok
        let v' ← (if suffixStarts.contains c.type then Model.parseVarTerminal f v else pure v)
        removeHint
        pure v') ts1 (fun e ts' => ∃ e', Ev (suffixes · base' ts0) (e', ts') ∧ VarRel e e') := by
  sp ih
  · sp_use (ih.parseVarTerminal _ _ _ hv)
    sp ih
    exact ⟨_, hk _ asm, asm⟩
  · rename_i t hkt h
    have : suffixTk (pk ts1) = false := by
      rw [← suffix_rel hkt]; simpa [Cond] using h
    exact ⟨_, hk _ (ev_suffixes_stop this), hv, hnp⟩

theorem parseVarTerminal_sound_step {f : Nat} (ih : AllSound B f) (base : Expr) (base' : Exp) (ts : List Tok)
    (hbase : ExpRel base base') :
    SPF B (Model.parseVarTerminal (f + 1) base) ts (fun e ts' => ∃ e', Ev (suffixes · base' ts) (e', ts') ∧ VarRel e e') := by
  rw [Model.parseVarTerminal]
  refine SPF_bind (SPF_curTok fun t hk => ?_)
  refine SPF_bind (SPF_conseq (Q' := fun v ts1 => ∃ v', ExpRel v v' ∧ NoParen v' ∧
    ∀ r, Ev (suffixes · v' ts1) r → Ev (suffixes · base' ts) r) ?_ ?_)
  · sp_split <;> sp ih
    · exact ⟨_, .call _ hbase asm, trivial, fun r hr => ev_suffixes_call asm asm hr⟩
    · exact ⟨_, .call _ hbase asm, trivial, fun r hr => ev_suffixes_call asm asm hr⟩
    · exact ⟨_, .call _ hbase asm, trivial, fun r hr => ev_suffixes_call asm asm hr⟩
    · exact ⟨_, .mcall _ hbase asm asm, trivial, fun r hr => ev_suffixes_mcall asm asm asm hr⟩
    · exact ⟨_, .index _ hbase asm, trivial, fun r hr => ev_suffixes_index asm asm asm hr⟩
    · exact ⟨_, .dot _ hbase asm, trivial, fun r hr => ev_suffixes_dot asm asm hr⟩
  · rintro v ts1 ⟨v', hv, hnp, hk⟩
    exact varTerminal_tail ih hv hnp hk

theorem parseVar_sound_step {f : Nat} (ih : AllSound B f) (b : Bool) (ts : List Tok) :
    SPF B (Model.parseVar (f + 1) b) ts (fun e ts' =>
    ∃ e', Ev (suffixedexp · ts) (e', ts') ∧ ExpRel e e' ∧ (b = true → NoParen e') ∧ primaryTk (pk ts) = true) := by
  rw [Model.parseVar]
  refine SPF_bind (SPF_curTok fun t hk => ?_)
  refine SPF_bind (SPF_conseq (Q' := fun p ts1 => ∃ v', ExpRel p.1 v' ∧ (p.2 = false → NoParen v') ∧
    primaryTk (pk ts) = true ∧ ∀ r, Ev (suffixes · v' ts1) r → Ev (suffixedexp · ts) r) ?_ ?_)
  · sp ih
    · rename_i n hn e n' hn' hrel
      obtain ⟨t', cs, rfl, rfl⟩ := hrel
      exact ⟨_, .name _ _, fun _ => trivial, by simp [primaryTk, hn], fun r hr => ev_suffixed_name hn' hr⟩
    · refine ⟨_, .paren asm, ?_, by simp [primaryTk, *], fun r hr => ev_suffixed_paren asm asm asm hr⟩
      intro h; cases h
  · rintro ⟨v, br⟩ ts1 ⟨v', hv, hnp, hprim, hk⟩
    dsimp only at hv hnp ⊢
    sp ih
    · sp_use (ih.parseVarTerminal _ _ _ hv)
      sp ih
      rename_i hvr _ _ _
      exact ⟨_, hk _ asm, hvr.1, fun _ => hvr.2, hprim⟩
    · rename_i t1 hk1 h1 _ _ h2
      have hs : suffixTk (pk ts1) = false := by
        rw [← suffix_rel hk1]; simpa [Cond] using h1
      refine ⟨_, hk _ (ev_suffixes_stop hs), hv, ?_, hprim⟩
      intro hb
      subst hb
      cases br
      · exact hnp rfl
      · exfalso
        apply Cond.elim h2
        have : suffixStarts.contains t1.type = false := by simpa [Cond] using h1
        rw [this]; rfl

end Tumfl.Theory
