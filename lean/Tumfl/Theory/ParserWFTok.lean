import Tumfl.Model.Parser
import Tumfl.Theory.LexTotal
import Tumfl.Theory.EmitCommentsBase
/-!
# The token invariant: what the lexer guarantees about the tokens it delivers

`TokOK t` :
* a `NUMBER` token carries a numeral tuple (`.num n`) whose integer and fractional parts consist of
  (lower-cased) hexadecimal digits only (`numTupleOK n`, hence `numOK n`);
* every other token carries a string (`.str s`);
* the string of a `NAME` token is a letter followed by alphanumeric characters.

`getNextToken_tokOK` : every token delivered by `getNextToken` satisfies `TokOK`.
-/
namespace Tumfl.Theory
open Tumfl.Model Tumfl.Spec

/-- what `getNumber` guarantees about the digits of a numeral: integer part and fractional part
consist of characters of `Gen.hexNumber` only (in particular no `-`) -/
def numTupleOK (n : NumTuple) : Prop :=
  (∀ s, n.ip = some s → ∀ c ∈ s, Gen.hexNumber.contains c = true) ∧
  (∀ s, n.fp = some s → ∀ c ∈ s, Gen.hexNumber.contains c = true)

/-- the token invariant -/
def TokOK (t : Token) : Prop :=
  (t.type = .NUMBER → ∃ n, t.value = .num n ∧ numTupleOK n) ∧
  (t.type ≠ .NUMBER → ∃ s, t.value = .str s) ∧
  (t.type = .NAME → ∃ c cs, tokStr t = c :: cs ∧ Gen.letter.contains c = true ∧
    ∀ x ∈ cs, Gen.alphanumeric.contains x = true)

/-! ## character tables -/

theorem hex_ne_minus : ∀ c ∈ Gen.hexNumber, c ≠ '-' := by decide
theorem letter_ne_minus : ∀ c ∈ Gen.letter, c ≠ '-' := by decide
theorem number_sub_hex : ∀ c ∈ Gen.number, Gen.hexNumber.contains c = true := by decide
theorem hex_lower : ∀ c ∈ Gen.hexNumber, Gen.hexNumber.contains (lowerChar c) = true := by decide +kernel
theorem number_lower : ∀ c ∈ Gen.number, Gen.hexNumber.contains (lowerChar c) = true := by decide +kernel

theorem mem_of_contains {l : List Char} {c : Char} (h : l.contains c = true) : c ∈ l := by
  simpa using h

/-- the consequence used by the comment theorem -/
theorem numOK_of_numTupleOK {n : NumTuple} (h : numTupleOK n) : numOK n = true := by
  apply numOK_of_ip
  right
  intro c s hs hc
  have := h.1 _ hs c (List.mem_cons_self ..)
  exact hex_ne_minus c (mem_of_contains this) hc

/-! ## `takeWhileIn` -/

theorem takeWhileIn_acc (set : List Char) (lower : Bool) : ∀ (f : Nat) (s : LexSt) (acc : List Char),
    (takeWhileIn set lower f s acc).1 = acc.reverse ++ (takeWhileIn set lower f s []).1
  | 0, s, acc => by simp [takeWhileIn]
  | f + 1, s, acc => by
    rw [takeWhileIn, takeWhileIn]
    split
    · split
      · rw [takeWhileIn_acc set lower f _ (_ :: acc), takeWhileIn_acc set lower f _ [_]]
        simp
      · simp
    · simp

/-- every character delivered by `takeWhileIn` is (the lower-cased form of) a character of the set -/
theorem takeWhileIn_mem (set : List Char) (lower : Bool) : ∀ (f : Nat) (s : LexSt),
    ∀ x ∈ (takeWhileIn set lower f s []).1, ∃ c, set.contains c = true ∧ x = (if lower then lowerChar c else c)
  | 0, s => by simp [takeWhileIn]
  | f + 1, s => by
    rw [takeWhileIn]
    split
    · rename_i c hc
      split
      · rename_i hin
        rw [takeWhileIn_acc]
        intro x hx
        simp only [List.reverse_cons, List.reverse_nil, List.nil_append, List.mem_append, List.mem_singleton] at hx
        rcases hx with hx | hx
        · exact ⟨c, hin, hx⟩
        · exact takeWhileIn_mem set lower f _ x hx
      · simp
    · simp

/-- started on a character of the set, `takeWhileIn` (without lower-casing) delivers that character first -/
theorem takeWhileIn_head (set : List Char) (f : Nat) (s : LexSt) (c : Char) (hc : s.cur = some c)
    (hin : set.contains c = true) :
    (takeWhileIn set false (f + 1) s []).1 = c :: (takeWhileIn set false f (advance s) []).1 := by
  rw [takeWhileIn]
  simp only [hc, hin, if_true]
  rw [takeWhileIn_acc]
  simp

/-! ## `getNumber` -/

theorem optStr_some {r x : List Char} (h : optStr r = some x) : x = r := by
  unfold optStr at h
  split at h
  · cases h
  · cases h; rfl

theorem takeWhileIn_hex {digs : List Char} (hd : digs = Gen.hexNumber ∨ digs = Gen.number) (f : Nat) (s : LexSt) :
    ∀ x ∈ (takeWhileIn digs true f s []).1, Gen.hexNumber.contains x = true := by
  intro x hx
  obtain ⟨c, hc, rfl⟩ := takeWhileIn_mem digs true f s x hx
  simp only [if_true]
  rcases hd with rfl | rfl
  · exact hex_lower c (mem_of_contains hc)
  · exact number_lower c (mem_of_contains hc)

theorem numInt_ip (fuel : Nat) (s : LexSt) (x : List Char) (h : (numInt fuel s).2.1 = some x) :
    ∀ c ∈ x, Gen.hexNumber.contains c = true := by
  unfold numInt at h
  split at h
  · dsimp only at h
    have := optStr_some h
    subst this
    split
    · exact takeWhileIn_hex (Or.inl rfl) _ _
    · exact takeWhileIn_hex (Or.inr rfl) _ _
  · cases h

theorem numFrac_fp {digs : List Char} (hd : digs = Gen.hexNumber ∨ digs = Gen.number) (fuel : Nat) (s : LexSt)
    (x : List Char) (h : (numFrac digs fuel s).1 = some x) : ∀ c ∈ x, Gen.hexNumber.contains c = true := by
  unfold numFrac at h
  split at h
  · dsimp only at h
    have := optStr_some h
    subst this
    exact takeWhileIn_hex hd _ _
  · cases h

theorem numExp_ip (isHex : Bool) (ip fp : Option (List Char)) (fuel : Nat) (s : LexSt) :
    (numExp isHex ip fp fuel s).1.ip = ip ∧ (numExp isHex ip fp fuel s).1.fp = fp := by
  unfold numExp
  dsimp only
  repeat' split
  all_goals exact ⟨rfl, rfl⟩

/-- **what `get_number` guarantees** -/
theorem getNumber_numTupleOK (s : LexSt) : numTupleOK (getNumber s).1 := by
  rw [getNumber_eq]
  obtain ⟨h1, h2⟩ := numExp_ip (numInt (s.rest.length + 1) s).1 (numInt (s.rest.length + 1) s).2.1
        (numFrac (if (numInt (s.rest.length + 1) s).1 then Gen.hexNumber else Gen.number) (s.rest.length + 1)
          (numInt (s.rest.length + 1) s).2.2).1 (s.rest.length + 1)
        (numFrac (if (numInt (s.rest.length + 1) s).1 then Gen.hexNumber else Gen.number) (s.rest.length + 1)
          (numInt (s.rest.length + 1) s).2.2).2
  constructor
  · intro x hx
    rw [h1] at hx
    exact numInt_ip _ _ _ hx
  · intro x hx
    rw [h2] at hx
    refine numFrac_fp ?_ _ _ _ hx
    split
    · exact Or.inl rfl
    · exact Or.inr rfl

/-! ## keywords and symbols are neither `NAME` nor `NUMBER` -/

theorem ofName_name {n : String} {t : TT} (h : TT.ofName n = some t) : n = t.name := by
  unfold TT.ofName at h
  have := List.find?_some h
  exact (beq_iff_eq.mp this).symm

theorem keywords_no_nn : ∀ n ∈ Gen.keywords.map Prod.snd, n ≠ "NAME" ∧ n ≠ "NUMBER" := by decide
theorem symbols_no_nn : ∀ n ∈ Gen.symbols.map Prod.snd, n ≠ "NAME" ∧ n ≠ "NUMBER" := by decide

theorem keywordOf_ne {cfg : LexCfg} {name : List Char} {t : TT} (h : keywordOf cfg name = some t) :
    t ≠ .NAME ∧ t ≠ .NUMBER := by
  unfold keywordOf at h
  split at h
  · rename_i n hn
    split at h
    · rename_i t' ht
      have hk := keywords_no_nn n (lt_lookup_mem _ _ _ hn)
      have hnm := ofName_name ht
      split at h
      · cases h
      · cases h
        constructor
        · rintro rfl; exact hk.1 hnm
        · rintro rfl; exact hk.2 hnm
    · cases h
  · cases h

theorem symbolOf_ne {x : List Char} {t : TT} (h : symbolOf x = some t) : t ≠ .NAME ∧ t ≠ .NUMBER := by
  unfold symbolOf at h
  split at h
  · rename_i n hn
    have hk := symbols_no_nn n (lt_lookup_mem _ _ _ hn)
    have hnm := ofName_name h
    constructor
    · rintro rfl; exact hk.1 hnm
    · rintro rfl; exact hk.2 hnm
  · cases h

/-! ## `get_next_token` -/

/-- a successful outcome carries a good token -/
def TokRes (r : Except PyErr (Token × LexSt)) : Prop := ∀ tok s', r = .ok (tok, s') → TokOK tok

theorem TokRes_error (e : PyErr) : TokRes (.error e) := by intro _ _ h; cases h
theorem TokRes_lexError (m : String) (s : LexSt) : TokRes (lexError m s) := TokRes_error _
theorem TokRes_lexErrorAt (m : String) (l : Nat) (c : Int) : TokRes (lexErrorAt m l c) := TokRes_error _

theorem TokOK_str {ty : TT} {v : List Char} {a : Nat × Int × List (List Char)}
    (h1 : ty ≠ .NAME) (h2 : ty ≠ .NUMBER) : TokOK (mkTok ty (.str v) a) :=
  ⟨fun h => absurd h h2, fun _ => ⟨v, rfl⟩, fun h => absurd h h1⟩

theorem TokRes_str {ty : TT} {v : List Char} {a : Nat × Int × List (List Char)} {X : LexSt}
    (h : ty ≠ .NAME ∧ ty ≠ .NUMBER) : TokRes (.ok (mkTok ty (.str v) a, X)) := by
  intro tok s' he; cases he; exact TokOK_str h.1 h.2

theorem TokRes_ite {c : Prop} [Decidable c] {a b : Except PyErr (Token × LexSt)}
    (ha : c → TokRes a) (hb : ¬ c → TokRes b) : TokRes (if c then a else b) := by
  split
  · exact ha ‹_›
  · exact hb ‹_›

theorem nextTokenLoop_tokOK (cfg : LexCfg) : ∀ (f : Nat) (s : LexSt), TokRes (nextTokenLoop cfg f s)
  | 0, s => by rw [nextTokenLoop]; exact TokRes_error _
  | f + 1, s => by
    rw [nextTokenLoop]
    split
    · exact TokRes_str (ty := .EOF) (by decide)
    · rename_i c hc
      refine TokRes_ite (fun _ => nextTokenLoop_tokOK cfg f _) (fun _ => ?_)
      refine TokRes_ite (fun _ => ?_) (fun _ => ?_)
      · split
        · exact TokRes_error _
        · exact nextTokenLoop_tokOK cfg f _
      simp only [tokenArgs]
      have hc0 : ({ s with comments := [] } : LexSt).cur = some c := hc
      refine TokRes_ite (fun hl => ?_) (fun _ => ?_)
      · -- name or keyword
        split
        · exact TokRes_error _
        · rename_i name s1 hn
          split
          · rename_i t ht
            exact TokRes_str (keywordOf_ne ht)
          · intro tok s' he
            cases he
            refine ⟨fun h => (by cases h), fun _ => ⟨name, rfl⟩, fun _ => ?_⟩
            have hcond : (!inStr ({ s with comments := [] } : LexSt).cur Gen.letter) = false := by
              simp only [hc0, inStr, hl, Bool.not_true]
            have ha := letter_sub_alphanumeric c (mem_of_contains hl)
            have hg : getName { s with comments := [] } = .ok (takeWhileIn Gen.alphanumeric false
                (({ s with comments := [] } : LexSt).rest.length + 1) { s with comments := [] } []) := by
              unfold getName
              rw [hcond]
              rfl
            rw [hg] at hn
            have hname : name = (takeWhileIn Gen.alphanumeric false (({ s with comments := [] } : LexSt).rest.length + 1)
                { s with comments := [] } []).1 := (congrArg Prod.fst (Except.ok.inj hn)).symm
            rw [takeWhileIn_head _ _ _ c hc0 ha] at hname
            refine ⟨c, _, hname, hl, ?_⟩
            intro x hx
            obtain ⟨d, hd, rfl⟩ := takeWhileIn_mem _ _ _ _ x hx
            simpa using hd
      refine TokRes_ite (fun _ => ?_) (fun _ => ?_)
      · -- number
        refine TokRes_ite (fun _ => TokRes_lexErrorAt _ _ _) (fun _ => ?_)
        intro tok s' he
        cases he
        exact ⟨fun _ => ⟨_, rfl, getNumber_numTupleOK _⟩, fun h => absurd rfl h, fun h => (by cases h)⟩
      refine TokRes_ite (fun _ => ?_) (fun _ => ?_)
      · split
        · exact TokRes_error _
        · exact TokRes_str (ty := .STRING) (by decide)
      refine TokRes_ite (fun _ => ?_) (fun _ => ?_)
      · split
        · exact TokRes_error _
        · exact TokRes_str (ty := .STRING) (by decide)
      refine TokRes_ite (fun _ => ?_) (fun _ => ?_)
      · exact TokRes_ite (fun _ => TokRes_str (ty := .ELLIPSIS) (by decide)) (fun _ => TokRes_str (ty := .CONCAT) (by decide))
      split
      · rename_i t v htwo
        split at htwo
        · rename_i p hp
          cases hs : symbolOf [c, p] with
          | none => rw [hs] at htwo; cases htwo
          | some t' =>
            rw [hs] at htwo
            cases htwo
            exact TokRes_str (symbolOf_ne hs)
        · cases htwo
      · split
        · rename_i t ht
          exact TokRes_str (symbolOf_ne ht)
        · exact TokRes_lexError _ _

/-- **every token delivered by `get_next_token` satisfies the token invariant** -/
theorem getNextToken_tokOK {cfg : LexCfg} {s : LexSt} {tok : Token} {s' : LexSt}
    (h : getNextToken cfg s = .ok (tok, s')) : TokOK tok := by
  unfold getNextToken at h
  exact nextTokenLoop_tokOK cfg _ _ tok s' h

end Tumfl.Theory
