import Tumfl.Theory.ErrorPosParse
import Tumfl.Props.C09
/-!
# Every error raised by lexing or parsing carries a position inside the text

* `lexer_error_pos`, `getNextToken_error_pos` : a `LexerError` carries a (0-based line, column) position
  `PosInText` - whether it was raised at the current state (`lexError`) or at a remembered earlier position
  (`lexErrorAt`: unclosed long bracket, `\x`, `\ddd`, unknown escape, malformed number).  No call site had to be
  excluded: every remembered `(line, col)` is read off a state satisfying the position invariant.
* `parser_error_pos` : a `ParserError` carries a token whose (1-based) line and column lie inside the text (the column
  at most one past the end of its line); `parser_error_tokenAt` : unless it is the end-of-file token, it stands
  on a character of the text that is not white space.
* `parse_error_pos` : the exhaustive classification for `parseText`.
* `lexer_error_pos_strict`, `parser_error_pos_strict` : the sharp bounds (0-based column `-1` or `< length`; 1-based
  column `≤ length`): no error position is ever one past the end of a line.

Where the end-of-file token stands: at the end of the text `advance` no longer changes `line`/`col`, so the
end-of-file token repeats the position of the *last character* (for a text ending in a line break: column 0 of the
line after it; for the empty text: line 1, column 0).
-/
namespace Tumfl.Theory
open Tumfl.Model Tumfl.Props

/-! ## 1. lexer errors -/

/-- every error of `getNextToken`, started in a state positioned in `t` (`Inv2`) -/
theorem getNextToken_error_pos2 {t : List Char} {cfg : LexCfg} {s : LexSt} {msg : String} {line : Nat} {col : Int}
    (hs : Inv2 t s) (h : getNextToken cfg s = .error (.lexer msg line col)) : PosStrict t line col :=
  getNextToken_errIn hs h

/-- at the end of the text the lexer delivers the end-of-file token (no error) -/
theorem getNextToken_rest_nil {cfg : LexCfg} {s : LexSt} (hr : s.rest = []) :
    ∃ tok s', getNextToken cfg s = .ok (tok, s') := by
  have hc : s.cur = none := by simp [LexSt.cur, hr]
  unfold getNextToken
  simp only [hc, hr]
  simp [nextTokenLoop, hc]

/-- sharp form of `getNextToken_error_pos` -/
theorem getNextToken_error_pos_strict {t : List Char} {cfg : LexCfg} {s : LexSt} {msg : String} {line : Nat} {col : Int}
    (hs : Inv t s) (h : getNextToken cfg s = .error (.lexer msg line col)) : PosStrict t line col := by
  by_cases hr : s.rest = []
  · obtain ⟨tok, s', h'⟩ := getNextToken_rest_nil (cfg := cfg) hr
    rw [h'] at h; cases h
  · exact getNextToken_error_pos2 ⟨hs, inv_pos hs hr⟩ h

/-- **lexer errors of one `getNextToken` call**, from any state satisfying the position invariant `Inv t` -/
theorem getNextToken_error_pos {t : List Char} {cfg : LexCfg} {s : LexSt} {msg : String} {line : Nat} {col : Int}
    (hs : Inv t s) (h : getNextToken cfg s = .error (.lexer msg line col)) : PosInText t line col :=
  (getNextToken_error_pos_strict hs h).posInText

/-- sharp form of `lexer_error_pos`: the column is `-1` (the error was raised on a line break) or the 0-based column of a
character of line `line` -/
theorem lexer_error_pos_strict (cfg : LexCfg) (t : List Char) (msg : String) (line : Nat) (col : Int) :
    lexText cfg t = .error (.lexer msg line col) → PosStrict t line col := by
  intro h
  exact errIn_of_errAt (t := t) (lexAll_errAt (stable_inv2 t) _ _ _ (inv2_init t) h)

/-- **LEXER ERRORS LIE INSIDE THE TEXT** -/
theorem lexer_error_pos (cfg : LexCfg) (t : List Char) (msg : String) (line : Nat) (col : Int) :
    lexText cfg t = .error (.lexer msg line col) → PosInText t line col :=
  fun h => (lexer_error_pos_strict cfg t msg line col h).posInText

/-! ## 2. parser errors -/

/-- the token of a parser error was started by the lexer at a state positioned inside the text -/
theorem parser_error_tokPos (src : List Char) (msg : String) (tok : Token) (hs : List Hint) :
    parseText src = .error (.parser msg tok hs) → TokPos src tok :=
  fun h => parseText_errIn src _ h

/-- **PARSER ERRORS LIE INSIDE THE TEXT** (1-based line and column of the offending token) -/
theorem parser_error_pos (src : List Char) (msg : String) (tok : Token) (hs : List Hint) :
    parseText src = .error (.parser msg tok hs) →
      1 ≤ tok.line ∧ tok.line ≤ lineOf src + 1 ∧ 0 ≤ tok.column ∧ tok.column ≤ (lineLen src (tok.line - 1) : Int) + 1 :=
  fun h => tokIn_of_tokPos (parser_error_tokPos src msg tok hs h)

/-- sharp form: the column never exceeds the length of the line (the end-of-file token repeats the position of the last
character; it does not stand one past it) -/
theorem parser_error_pos_strict (src : List Char) (msg : String) (tok : Token) (hs : List Hint) :
    parseText src = .error (.parser msg tok hs) →
      1 ≤ tok.line ∧ tok.line ≤ lineOf src + 1 ∧ 0 ≤ tok.column ∧ tok.column ≤ (lineLen src (tok.line - 1) : Int) :=
  fun h => tokInStrict_of_tokPos (parser_error_tokPos src msg tok hs h)

/-- unless it is the end-of-file token, the offending token stands on a character of the text that is not white space -/
theorem parser_error_tokenAt (src : List Char) (msg : String) (tok : Token) (hs : List Hint) :
    parseText src = .error (.parser msg tok hs) → tok.type ≠ .EOF → TokenAt src tok :=
  fun h => tokenAt_of_tokPos (parser_error_tokPos src msg tok hs h)

/-- a token standing on a character is strictly inside its line -/
theorem tokenAt_strict {t : List Char} {tok : Token} (h : TokenAt t tok) :
    1 ≤ tok.line ∧ tok.line ≤ lineOf t + 1 ∧ 1 ≤ tok.column ∧ tok.column ≤ (lineLen t (tok.line - 1) : Int) := by
  obtain ⟨pre, c, rest, ht, hws, hl, hc⟩ := h
  have hcn : c ≠ '\n' := by
    rintro rfl
    rw [whitespace_newline] at hws
    cases hws
  rw [hl, hc, ht]
  refine ⟨by omega, ?_, by omega, ?_⟩
  · rw [lineOf_append]; omega
  · simp only [Nat.add_sub_cancel]
    rw [lineLen_split, lineLen]
    simp only [hcn, if_false]
    omega

/-! ## 3. the whole classification -/

/-- **PARSING EITHER RETURNS A TREE OR RAISES AN ERROR WITH A POSITION INSIDE THE TEXT**: `LexerError` at a (0-based)
position inside the text, or `ParserError` at a token inside the text - or the modelling border of lone surrogates
(`"\u{D800}"` in a string literal, which Python accepts and Lean's `Char` cannot represent) -/
theorem parse_error_pos (src : List Char) (e : PyErr) :
    parseText src = .error e →
      (∃ msg l c, e = .lexer msg l c ∧ PosInText src l c) ∨
      (∃ msg tok hs, e = .parser msg tok hs ∧
        1 ≤ tok.line ∧ tok.line ≤ lineOf src + 1 ∧ 0 ≤ tok.column ∧ tok.column ≤ (lineLen src (tok.line - 1) : Int) + 1) ∨
      e = .py "OutOfModel" "lone surrogate" := by
  intro h
  rcases C09_parse_total_final src e h with (⟨m, l, c, rfl⟩ | hb) | ⟨m, tok, hs, rfl⟩
  · exact Or.inl ⟨m, l, c, rfl, PosStrict.posInText (parseText_errIn src _ h)⟩
  · exact Or.inr (Or.inr hb)
  · exact Or.inr (Or.inl ⟨m, tok, hs, rfl, parser_error_pos src m tok hs h⟩)

/-- per-function form: started in a positioned state, a parse function that fails raises a positioned error, and one
that succeeds leaves a positioned state -/
theorem parseBlock_pos (t : List Char) (f : Nat) (tk : Token) (b : Bool) (s : PSt) (hs : PosSt t s) :
    (∀ r s', Model.parseBlock f tk b s = .ok (r, s') → PosSt t s') ∧
    (∀ e, Model.parseBlock f tk b s = .error e → ErrIn t e) :=
  ⟨fun _ _ h => EW_ok (Q := fun _ s' => PosSt t s') ((allPos t f).parseBlock tk b s hs) h, fun _ h => EW_err ((allPos t f).parseBlock tk b s hs) h⟩

theorem parseExp_pos (t : List Char) (f : Nat) (s : PSt) (hs : PosSt t s) :
    (∀ r s', Model.parseExp f s = .ok (r, s') → PosSt t s') ∧
    (∀ e, Model.parseExp f s = .error e → ErrIn t e) :=
  ⟨fun _ _ h => EW_ok (Q := fun _ s' => PosSt t s') ((allPos t f).parseExp s hs) h, fun _ h => EW_err ((allPos t f).parseExp s hs) h⟩

/-! ## non-vacuity -/

/-- what an error carries: message, token type (parser errors), line, column -/
def errPos {α : Type} (r : Except PyErr α) : Option (String × Option TT × Nat × Int) :=
  match r with
  | .error (.lexer m l c) => some (m, none, l, c)
  | .error (.parser m t _) => some (m, some t.type, t.line, t.column)
  | _ => none

/-- an error at the current position -/
example : errPos (lexText {} "x = $".toList) = some ("unrecognised character", none, 0, 4) := by decide +kernel
example : PosInText "x = $".toList 0 4 := by decide +kernel

/-- an error at a remembered position: the long bracket opened on the first line is never closed; the lexer stands at
the end of the third line when it notices -/
example : errPos (lexText {} "a = [==[xx\nyy\nzzzz".toList) = some ("long brackets never closed", none, 0, 4) := by
  decide +kernel

/-- errors at remembered positions inside a string on the second line: the character after the backslash -/
example : errPos (lexText {} "a =\n 'ab\\xZ'".toList) = some ("Invalid hex digit", none, 1, 5) := by decide +kernel
example : errPos (lexText {} "a =\n 'ab\\300'".toList) = some ("Invalid char with number", none, 1, 5) := by decide +kernel
example : errPos (lexText {} "a =\n 12x".toList) = some ("Malformed number", none, 1, 1) := by decide +kernel

/-- an error on a line break: column `-1` of the following line -/
example : errPos (lexText {} "a =\n 'ab\n".toList) = some ("Invalid end of string", none, 2, -1) := by decide +kernel
example : PosInText "a =\n 'ab\n".toList 2 (-1) := by decide +kernel

/-- the sharp bound on the column is attained: the unclosed string is noticed on the last character (0-based column 3) of the
line of length 4 -/
example : errPos (lexText {} "a =\n 'ab".toList) = some ("Did not close string", none, 1, 3) := by decide +kernel
example : lineLen "a =\n 'ab".toList 1 = 4 := by decide +kernel

/-- the theorem applies: there is a lexer error at a remembered position, and it lies inside the text -/
example : ∃ msg l c, lexText {} "a = [==[xx\nyy\nzzzz".toList = .error (.lexer msg l c) ∧ (l, c) = (0, 4) ∧
    PosInText "a = [==[xx\nyy\nzzzz".toList l c := by
  cases h : lexText {} "a = [==[xx\nyy\nzzzz".toList with
  | ok r =>
    have : errPos (lexText {} "a = [==[xx\nyy\nzzzz".toList) ≠ none := by decide +kernel
    rw [h] at this
    exact absurd rfl this
  | error e =>
    have h2 : errPos (lexText {} "a = [==[xx\nyy\nzzzz".toList) = some ("long brackets never closed", none, 0, 4) := by
      decide +kernel
    rw [h] at h2
    cases e with
    | lexer msg l c =>
      simp only [errPos, Option.some.injEq, Prod.mk.injEq] at h2
      obtain ⟨_, _, rfl, rfl⟩ := h2
      exact ⟨msg, 0, 4, rfl, rfl, lexer_error_pos _ _ _ _ _ h⟩
    | parser m t hs => simp [errPos] at h2
    | dependency _ _ => simp [errPos] at h2
    | py _ _ => simp [errPos] at h2
    | fuel => simp [errPos] at h2

/-- a parser error at the end-of-file token, which repeats the position of the last character -/
example : errPos (parseText "x = f(".toList) = some ("Unexpected expression", some .EOF, 1, 6) := by decide +kernel

/-- after a final line break the end-of-file token stands at column 0 of the (empty) last line -/
example : errPos (parseText "x =\n".toList) = some ("Unexpected expression", some .EOF, 2, 0) := by decide +kernel

/-- a parser error at an ordinary token -/
example : errPos (parseText "x = )".toList) = some ("Unexpected expression", some .R_PAREN, 1, 5) := by decide +kernel

/-- the theorem applies: there is a parser error at the end-of-file token, and it lies inside the text -/
example : ∃ msg tok hs, parseText "x = f(".toList = .error (.parser msg tok hs) ∧ tok.type = .EOF ∧
    1 ≤ tok.line ∧ tok.line ≤ lineOf "x = f(".toList + 1 ∧ 0 ≤ tok.column ∧
    tok.column ≤ (lineLen "x = f(".toList (tok.line - 1) : Int) + 1 := by
  cases h : parseText "x = f(".toList with
  | ok r =>
    have : errPos (parseText "x = f(".toList) ≠ none := by decide +kernel
    rw [h] at this
    exact absurd rfl this
  | error e =>
    have h2 : errPos (parseText "x = f(".toList) = some ("Unexpected expression", some .EOF, 1, 6) := by decide +kernel
    rw [h] at h2
    cases e with
    | parser msg tok hs =>
      simp only [errPos, Option.some.injEq, Prod.mk.injEq] at h2
      exact ⟨msg, tok, hs, rfl, h2.2.1, parser_error_pos _ _ _ _ h⟩
    | lexer _ _ _ => simp [errPos] at h2
    | dependency _ _ => simp [errPos] at h2
    | py _ _ => simp [errPos] at h2
    | fuel => simp [errPos] at h2

end Tumfl.Theory
