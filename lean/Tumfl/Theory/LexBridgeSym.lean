import Tumfl.Theory.LexBridgeBase
/-!
# LexBridge, part 3: symbols, `..` / `...`

`symPart` is the tail of `scanToken` (the `..`/`...` test, then a two-character symbol, then a one-character symbol);
under the guards that lead there it agrees with `symAt`, the transcription of the symbol branches of the reference lexer.
-/
namespace Tumfl.Theory
open Tumfl.Model Tumfl

/-! ## the symbol tables -/

def symEntryOK (e : String × String) : Bool :=
  match TT.ofName e.2 with
  | some t => symbolTTs.contains t && decide (t.value = e.1) && symShape e.1.toList
  | none => false

theorem sym_entries : ∀ e ∈ Gen.symbols, symEntryOK e = true := by decide

def symOfStr (k : String) : Option TT :=
  match Gen.symbols.lookup k with
  | some n => TT.ofName n
  | none => none

theorem symbolOf_eq (x : List Char) : symbolOf x = symOfStr (String.ofList x) := rfl

theorem sym2_found : ∀ k ∈ Spec.symbols2, (symOfStr k).isSome = true := by decide
theorem sym1_found : ∀ c ∈ Spec.symbols1, (symOfStr (String.ofList [c])).isSome = true := by decide

/-- what a hit in `SYMBOLS` means -/
theorem symbolOf_some {x : List Char} {t : TT} (h : symbolOf x = some t) :
    symbolTTs.contains t = true ∧ t.value = String.ofList x ∧ symShape x = true := by
  unfold symbolOf at h
  cases hl : Gen.symbols.lookup (String.ofList x) with
  | none => rw [hl] at h; cases h
  | some n =>
    rw [hl] at h
    simp only at h
    have hm := sym_entries _ (lb_lookup_mem hl)
    unfold symEntryOK at hm
    simp only [h, String.toList_ofList, Bool.and_eq_true, decide_eq_true_eq] at hm
    exact ⟨hm.1.1, hm.1.2, hm.2⟩

theorem symbolOf_two_none {a b : Char} (h : isSym2 a b = false) : symbolOf [a, b] = none := by
  cases hs : symbolOf [a, b] with
  | none => rfl
  | some t =>
    have := (symbolOf_some hs).2.2
    simp only [symShape] at this
    rw [h] at this; cases this

theorem symbolOf_one_none {a : Char} (h : Spec.symbols1.contains a = false) : symbolOf [a] = none := by
  cases hs : symbolOf [a] with
  | none => rfl
  | some t =>
    have := (symbolOf_some hs).2.2
    simp only [symShape] at this
    rw [h] at this; cases this

theorem symbolOf_two_some {a b : Char} (h : isSym2 a b = true) : ∃ t, symbolOf [a, b] = some t := by
  have := sym2_found (String.ofList [a, b]) (by rw [← symbols2_contains] at h; simpa using h)
  rw [← symbolOf_eq] at this
  exact Option.isSome_iff_exists.mp this

theorem symbolOf_one_some {a : Char} (h : Spec.symbols1.contains a = true) : ∃ t, symbolOf [a] = some t := by
  have := sym1_found a (by simpa using h)
  rw [← symbolOf_eq] at this
  exact Option.isSome_iff_exists.mp this

/-! ## the symbol part of `scanToken` -/

/-- the last branches of `scanToken` -/
def symPart (s0 : LexSt) (c : Char) (a : Nat × Int × List (List Char)) : Except PyErr (Token × LexSt) :=
  if c == '.' && s0.peek == some '.' then
    let s2 := advance (advance s0)
    if s2.cur == some '.' then .ok (mkTok .ELLIPSIS (.str "...".toList) a, advance s2)
    else .ok (mkTok .CONCAT (.str "..".toList) a, s2)
  else
    let two : Option (TT × List Char) :=
      match s0.peek with
      | some p => (symbolOf [c, p]).map fun t => (t, [c, p])
      | none => none
    match two with
    | some (t, v) => .ok (mkTok t (.str v) a, advance (advance s0))
    | none =>
      match symbolOf [c] with
      | some t => .ok (mkTok t (.str [c]) a, advance s0)
      | none => lexError "unrecognised character" s0

/-- the model's result and the reference's `symAt` result say the same -/
def SymAgree (X : Except PyErr (Token × LexSt)) (Y : Option (String × List Char)) : Prop :=
  match X, Y with
  | .ok (tok, s'), some (str, r') => symbolTTs.contains tok.type = true ∧ tok.type.value = str ∧ s'.rest = r'
  | .error _, none => True
  | _, _ => False

theorem symPart_two (s0 : LexSt) (c d : Char) (r : List Char) (a : Nat × Int × List (List Char))
    (hs : s0.rest = c :: d :: r) (h1 : (c == '.' && d == '.') = false) (t : TT) (ht : symbolOf [c, d] = some t) :
    symPart s0 c a = .ok (mkTok t (.str [c, d]) a, advance (advance s0)) := by
  unfold symPart
  have hp : s0.peek = some d := peek_of hs
  rw [hp]
  have : (c == '.' && some d == some '.') = false := by simpa using h1
  simp only [this, Bool.false_eq_true, if_false, ht, Option.map_some]

theorem symPart_one (s0 : LexSt) (c : Char) (cs : List Char) (a : Nat × Int × List (List Char))
    (hs : s0.rest = c :: cs) (h1 : (c == '.' && cs.head? == some '.') = false)
    (h2 : ∀ d, cs.head? = some d → symbolOf [c, d] = none) :
    symPart s0 c a =
      match symbolOf [c] with
      | some t => .ok (mkTok t (.str [c]) a, advance s0)
      | none => lexError "unrecognised character" s0 := by
  unfold symPart
  have hp : s0.peek = cs.head? := peek_eq hs
  rw [hp]
  simp only [h1, Bool.false_eq_true, if_false]
  cases hh : cs.head? with
  | none => rfl
  | some d => simp only [h2 d hh, Option.map_none]

theorem symAt_other (c : Char) (cs : List Char) (hg : symGuard c = false) (h1 : c ≠ '-') (h2 : c ≠ '[') (h3 : c ≠ '.') :
    symAt (c :: cs) =
      match cs with
      | d :: r =>
        if isSym2 c d then some (String.ofList [c, d], r)
        else if Spec.symbols1.contains c then some (String.ofList [c], cs)
        else none
      | [] => if Spec.symbols1.contains c then some (String.ofList [c], cs) else none := by
  unfold symAt
  unfold symGuard at hg
  have e1 : (c == '-') = false := by simpa using h1
  have e2 : (c == '[') = false := by simpa using h2
  have e3 : (c == '.') = false := by simpa using h3
  simp only [hg, e1, e2, e3, Bool.false_eq_true, if_false]
  cases cs with
  | nil => rfl
  | cons d r => simp only [symbols2_contains]

theorem contains_DOT : symbolTTs.contains TT.DOT = true := by decide
theorem contains_CONCAT : symbolTTs.contains TT.CONCAT = true := by decide
theorem contains_ELLIPSIS : symbolTTs.contains TT.ELLIPSIS = true := by decide

/-- the one-character fall-back agrees with a `symAt` result of the form "symbols1 or nothing" -/
theorem symAgree_one (s0 : LexSt) (c : Char) (cs : List Char) (a : Nat × Int × List (List Char)) (hs : s0.rest = c :: cs) :
    SymAgree
      (match symbolOf [c] with
        | some t => .ok (mkTok t (.str [c]) a, advance s0)
        | none => lexError "unrecognised character" s0)
      (if Spec.symbols1.contains c then some (String.ofList [c], cs) else none) := by
  cases h1 : Spec.symbols1.contains c with
  | true =>
    obtain ⟨t, ht⟩ := symbolOf_one_some h1
    obtain ⟨g1, g2, _⟩ := symbolOf_some ht
    simp only [ht, if_true]
    exact ⟨g1, g2, advance_rest_of hs⟩
  | false =>
    simp only [symbolOf_one_none h1, Bool.false_eq_true, if_false]
    trivial

theorem isSym2_minus (d : Char) : isSym2 '-' d = false := by simp [isSym2]
theorem isSym2_brack (d : Char) : isSym2 '[' d = false := by simp [isSym2]
theorem isSym2_dot (d : Char) (h : d ≠ '.') : isSym2 '.' d = false := by simp [isSym2, h]

theorem longOpener_none' (cs : List Char) (h1 : cs.head? ≠ some '[') (h2 : cs.head? ≠ some '=') :
    Spec.longOpener ('[' :: cs) = none := by
  cases cs with
  | nil => rfl
  | cons d t =>
    exact longOpener_none d t (fun e => h1 (by rw [e]; rfl)) (fun e => h2 (by rw [e]; rfl))

theorem symAt_dot (cs : List Char) :
    symAt ('.' :: cs) =
      match cs with
      | '.' :: '.' :: r => some ("...", r)
      | '.' :: r => some ("..", r)
      | d :: _ => if Spec.isDigit d then none else some (".", cs)
      | [] => some (".", cs) := by
  unfold symAt
  simp only [show (Spec.isSpace '.' || '.' == '"' || '.' == '\'' || Spec.isDigit '.' || Spec.isAlpha '.') = false by decide,
    show ('.' == '-') = false by decide, show ('.' == '[') = false by decide,
    show ('.' == '.') = true by decide, Bool.false_eq_true, if_false, if_true]
  rfl

theorem symAt_minus (cs : List Char) (hnm : cs.head? ≠ some '-') : symAt ('-' :: cs) = some ("-", cs) := by
  unfold symAt
  simp only [show (Spec.isSpace '-' || '-' == '"' || '-' == '\'' || Spec.isDigit '-' || Spec.isAlpha '-') = false by decide,
    show ('-' == '-') = true by decide, Bool.false_eq_true, if_false, if_true]
  split
  · exact absurd rfl hnm
  · rfl

theorem symAt_brack (cs : List Char) (h1 : cs.head? ≠ some '[') (h2 : cs.head? ≠ some '=') :
    symAt ('[' :: cs) = some ("[", cs) := by
  unfold symAt
  simp only [show (Spec.isSpace '[' || '[' == '"' || '[' == '\'' || Spec.isDigit '[' || Spec.isAlpha '[') = false by decide,
    show ('[' == '-') = false by decide, show ('[' == '[') = true by decide, Bool.false_eq_true, if_false, if_true,
    longOpener_none' cs h1 h2]
  split
  · exact absurd rfl h2
  · rfl

theorem symAgree_one_lit (s0 : LexSt) (c : Char) (cs : List Char) (a : Nat × Int × List (List Char)) (hs : s0.rest = c :: cs)
    (lit : String) (hlit : lit = String.ofList [c]) (h1 : Spec.symbols1.contains c = true) :
    SymAgree
      (match symbolOf [c] with
        | some t => .ok (mkTok t (.str [c]) a, advance s0)
        | none => lexError "unrecognised character" s0)
      (some (lit, cs)) := by
  have := symAgree_one s0 c cs a hs
  rw [h1] at this
  rw [hlit]
  exact this

/-- **symbols agree**: under the guards that lead `scanToken` to its symbol branches and `lexOne` to `symAt` -/
theorem symPart_agree (s0 : LexSt) (c : Char) (cs : List Char) (a : Nat × Int × List (List Char))
    (hs : s0.rest = c :: cs) (hg : symGuard c = false)
    (hcm : ¬ (c = '-' ∧ cs.head? = some '-'))
    (hlb : ¬ (c = '[' ∧ (cs.head? = some '[' ∨ cs.head? = some '=')))
    (hdd : ¬ (c = '.' ∧ nextIsDigit cs = true)) :
    SymAgree (symPart s0 c a) (symAt (c :: cs)) := by
  by_cases hdot : c = '.'
  · subst hdot
    rw [symAt_dot]
    split
    · -- `...`
      rename_i r
      have hp : s0.peek = some '.' := peek_of hs
      have hr2 : (advance (advance s0)).rest = '.' :: r := advance2_rest hs
      have e' : symPart s0 '.' a = .ok (mkTok .ELLIPSIS (.str "...".toList) a, advance (advance (advance s0))) := by
        unfold symPart
        simp only [hp, beq_self_eq_true, Bool.and_self, if_true, cur_of hr2]
      rw [e']
      exact ⟨contains_ELLIPSIS, rfl, advance_rest_of hr2⟩
    · -- `..`
      rename_i r hne
      have hp : s0.peek = some '.' := peek_of hs
      have hr2 : (advance (advance s0)).rest = r := advance2_rest hs
      have hc2 : ((advance (advance s0)).cur == some '.') = false := by
        cases r with
        | nil => rw [cur_eq_none hr2]; rfl
        | cons e r2 =>
          rw [cur_of hr2]
          have : e ≠ '.' := fun h => hne r2 (by rw [h])
          simpa using this
      have e' : symPart s0 '.' a = .ok (mkTok .CONCAT (.str "..".toList) a, advance (advance s0)) := by
        unfold symPart
        simp only [hp, beq_self_eq_true, Bool.and_self, if_true, hc2, Bool.false_eq_true, if_false]
      rw [e']
      exact ⟨contains_CONCAT, rfl, hr2⟩
    · -- `.`
      rename_i d t hne1 hne2
      have hd : d ≠ '.' := hne2
      have hnd : Spec.isDigit d = false := by
        cases h : Spec.isDigit d with
        | false => rfl
        | true => exact absurd ⟨rfl, h⟩ hdd
      rw [symPart_one s0 '.' (d :: t) a hs (by simpa using hd)
        (by intro d' h; simp only [List.head?_cons, Option.some.injEq] at h; subst h; exact symbolOf_two_none (isSym2_dot d hd))]
      simp only [hnd, Bool.false_eq_true, if_false]
      exact symAgree_one_lit s0 '.' (d :: t) a hs "." lit_dot (by decide)
    · rw [symPart_one s0 '.' [] a hs (by simp) (by intro d h; cases h)]
      exact symAgree_one_lit s0 '.' [] a hs "." lit_dot (by decide)
  by_cases hmin : c = '-'
  · subst hmin
    have hnm : cs.head? ≠ some '-' := fun h => hcm ⟨rfl, h⟩
    rw [symPart_one s0 '-' cs a hs (by simp) (fun d _ => symbolOf_two_none (isSym2_minus d)), symAt_minus cs hnm]
    exact symAgree_one_lit s0 '-' cs a hs "-" lit_minus (by decide)
  by_cases hbr : c = '['
  · subst hbr
    have hn1 : cs.head? ≠ some '[' := fun h => hlb ⟨rfl, Or.inl h⟩
    have hn2 : cs.head? ≠ some '=' := fun h => hlb ⟨rfl, Or.inr h⟩
    rw [symPart_one s0 '[' cs a hs (by simp) (fun d _ => symbolOf_two_none (isSym2_brack d)), symAt_brack cs hn1 hn2]
    exact symAgree_one_lit s0 '[' cs a hs "[" lit_brack (by decide)
  -- an ordinary symbol character
  rw [symAt_other c cs hg hmin hbr hdot]
  have hcd : (c == '.') = false := by simpa using hdot
  cases cs with
  | nil =>
    rw [symPart_one s0 c [] a hs (by simp) (by intro d h; cases h)]
    exact symAgree_one s0 c [] a hs
  | cons d r =>
    cases h2 : isSym2 c d with
    | true =>
      obtain ⟨t, ht⟩ := symbolOf_two_some h2
      obtain ⟨g1, g2, _⟩ := symbolOf_some ht
      rw [symPart_two s0 c d r a hs (by simp [hcd]) t ht]
      simp only [h2, if_true]
      exact ⟨g1, g2, advance2_rest hs⟩
    | false =>
      rw [symPart_one s0 c (d :: r) a hs (by simp [hcd])
        (by intro d' h; simp only [List.head?_cons, Option.some.injEq] at h; subst h; exact symbolOf_two_none h2)]
      simp only [h2, Bool.false_eq_true, if_false]
      exact symAgree_one s0 c (d :: r) a hs

end Tumfl.Theory
