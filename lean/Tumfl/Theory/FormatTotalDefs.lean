import Tumfl.Model.Layout
/-!
# `format` returns: the invariants of the piece list

* `StrsOK ps`: no text piece is empty, and a text piece that begins with a quote character ends with the same character
  (`sep_required` indexes its arguments; `_string_ident` asserts this of the literals it wraps);
* `Bal ps`: the single-character bracket pieces `(` `)` `[` `]` `{` `}` are well nested (`__inner_indent` scans backwards
  from a closing bracket for its partner and raises `IndexError` when it runs off the front);
* `indBal ps`: Indent pieces minus DeIndent pieces (`indent` asserts that the level is back at 0 at the end);
* `argOK ps`: every Argument separator is followed, somewhere, by a non-empty text piece (`resolve_tokens` looks at the piece
  behind an Argument separator).
-/
namespace Tumfl.Theory
open Tumfl Tumfl.Model

def StrOK (s : List Char) : Prop := s ≠ [] ∧ (isQuoted s = true → s.getLast? = s.head?)

def StrsOK (ps : Pieces) : Prop := ∀ s, Piece.str s ∈ ps → StrOK s

def isBrCh (c : Char) : Bool := c == '(' || c == ')' || c == '[' || c == ']' || c == '{' || c == '}'

/-- a piece that is a single bracket character -/
def isBr : Piece → Bool
  | .str [c] => isBrCh c
  | _ => false

/-- the bracket pieces are well nested -/
inductive Bal : Pieces → Prop
  | nil : Bal []
  | cons (p : Piece) {r : Pieces} : isBr p = false → Bal r → Bal (p :: r)
  | grp (o : Char) (c : List Char) {inner r : Pieces} : closingOf c = some o → Bal inner → Bal r →
      Bal (.str [o] :: (inner ++ .str c :: r))

/-- Indent pieces minus DeIndent pieces -/
def indBal : Pieces → Int
  | [] => 0
  | .sep .indent :: r => indBal r + 1
  | .sep .deindent :: r => indBal r - 1
  | _ :: r => indBal r

/-- the list contains a non-empty text piece -/
def hasStrB : Pieces → Bool
  | [] => false
  | .str s :: r => !s.isEmpty || hasStrB r
  | .sep _ :: r => hasStrB r

/-- every Argument separator is followed, somewhere, by a non-empty text piece -/
def argOK : Pieces → Bool
  | [] => true
  | .sep .argument :: r => hasStrB r && argOK r
  | _ :: r => argOK r

end Tumfl.Theory
