import Tumfl.Theory.ParserSimCompleteCore
/-!
# Completeness, step lemmas: name lists, expression lists
-/
namespace Tumfl.Theory
open Tumfl.Model Tumfl.Spec

variable {B : Bridge} (hC : B.Complete)
include hC

/-- close a final goal `ts = ts ∧ relation` from the hypotheses -/
macro "rel_fin" : tactic => `(tactic| (refine ⟨rfl, ?_⟩; repeat' (first | assumption | constructor)))

theorem dottedRest_complete_step {f' : Nat} (ih : AllComplete B f') (ts : List Tok) (ns : List String) (ts' : List Tok)
    (h : Spec.dottedRest (f' + 1) ts = .ok (ns, ts')) (n : Nat) :
    TPF B (fun g => Model.parseDotted g) ts n n (fun r tsx => tsx = ts' ∧ Forall₂ NameRel r ns) := by
  refine TPF_succ ?_
  simp only [Model.parseDotted]
  rw [Spec.dottedRest] at h
  inv h
  all_goals tp hC ih
  all_goals rel_fin

theorem namelistRest'_complete_step {f' : Nat} (ih : AllComplete B f') (ts0 : List Tok) (nm : String) (ns : List String)
    (ts' : List Tok) (hnm : pk ts0 = .name nm) (h : Spec.namelistRest (f' + 1) ts0.tail = .ok (ns, ts')) (n : Nat) :
    TPF B (fun g => Model.parseNames g false) ts0 n n (fun r tsx => tsx = ts' ∧ Forall₂ NameRel r (nm :: ns)) := by
  refine TPF_succ ?_
  simp only [Model.parseNames]
  rw [Spec.namelistRest] at h
  inv h
  all_goals tp hC ih
  all_goals rel_fin

theorem namelistRest_complete_step {f' : Nat} (ih : AllComplete B f') (ts : List Tok) (ns : List String) (ts' : List Tok)
    (h : Spec.namelistRest (f' + 1) ts = .ok (ns, ts')) (first : Expr) (n : Nat) :
    TPF B (fun g => Model.parseNameList g (some first) false) ts n n
      (fun r tsx => tsx = ts' ∧ ∃ rest, r = first :: rest ∧ Forall₂ NameRel rest ns) := by
  refine TPF_succ ?_
  simp only [Model.parseNameList]
  rw [Spec.namelistRest] at h
  inv h
  all_goals tp hC ih
  · exact ⟨rfl, _, rfl, asm⟩
  · exact ⟨rfl, _, rfl, .nil⟩

theorem attnamelist_complete_step {f' : Nat} (ih : AllComplete B f') (ts : List Tok) (ns : List (String × Option String))
    (ts' : List Tok) (h : Spec.attnamelist (f' + 1) ts = .ok (ns, ts')) (n : Nat) :
    TPF B (fun g => Model.parseAttNames g) ts (n + 1) (n + 1) (fun r tsx => tsx = ts' ∧ Forall₂ AttRel r ns) := by
  refine TPF_succ ?_
  simp only [Model.parseAttNames]
  rw [Spec.attnamelist] at h
  inv h
  all_goals tp hC ih
  · exact ⟨rfl, .cons ⟨asm, asm⟩ asm⟩
  · exact ⟨rfl, .cons ⟨asm, asm⟩ .nil⟩
  · exact ⟨rfl, .cons ⟨asm, trivial⟩ asm⟩
  · exact ⟨rfl, .cons ⟨asm, trivial⟩ .nil⟩

theorem explist_complete_step {f' : Nat} (ih : AllComplete B f') (ts : List Tok) (es : List Exp) (ts' : List Tok)
    (h : Spec.explist (f' + 1) ts = .ok (es, ts')) (n : Nat) :
    TPF B (fun g => Model.parseExpList g) ts n n (fun r tsx => tsx = ts' ∧ Forall₂ ExpRel r es ∧ r ≠ []) := by
  refine TPF_succ ?_
  simp only [Model.parseExpList]
  rw [Spec.explist] at h
  inv h
  all_goals tp hC ih
  · exact ⟨rfl, .cons asm asm, by simp⟩
  · exact ⟨rfl, .cons asm .nil, by simp⟩

omit hC in
theorem NoParen_of_isVar {e : Exp} (h : Spec.isVar e = true) : NoParen e := by
  cases e <;> first | trivial | cases h

omit hC in
theorem NoParen_of_isCall {e : Exp} (h : Spec.isCall e = true) : NoParen e := by
  cases e <;> first | trivial | cases h

theorem restassign_complete_step {f' : Nat} (ih : AllComplete B f') (ts : List Tok) (vs : List Exp) (ts' : List Tok)
    (h : Spec.restassign (f' + 1) ts = .ok (vs, ts')) (hv : vs.all Spec.isVar = true) (n : Nat) :
    TPF B (fun g => Model.parseMoreVars g) ts n n (fun r tsx => tsx = ts' ∧ Forall₂ ExpRel r vs) := by
  refine TPF_succ ?_
  simp only [Model.parseMoreVars]
  rw [Spec.restassign] at h
  inv h
  all_goals tp hC ih
  · simp only [List.all_cons, Bool.and_eq_true] at hv
    tp_call (ih.suffixedexp _ _ _ (by assumption) true _ (fun _ => NoParen_of_isVar hv.1))
    apply TPF_bind
    tp_call (ih.restassign _ _ _ (by assumption) hv.2 _)
    tp hC ih
    rel_fin
  · rel_fin

end Tumfl.Theory
