import Tumfl.Theory.FormatTextHard
/-!
# Stage C2: the per-line right-strip, the final strip and the appended separator only change white-space items
-/
namespace Tumfl.Theory
open Tumfl Tumfl.Spec Tumfl.Model

theorem rsl_head : ∀ t : List Char, rsl t = [] ∨ ∃ d t', rsl t = d :: t' ∧ (d = '\n' ∨ ∃ t0, t = d :: t0)
  | [] => .inl rfl
  | c :: cs => by
    have e : rsl (c :: cs) = stepR c (rsl cs) := rfl
    rw [e]
    unfold stepR
    split
    · rename_i hc
      rcases rsl_head cs with h | ⟨d, t', h, _⟩
      · exact .inl h
      · right
        rw [h] at hc ⊢
        simp only [List.isEmpty_cons, Bool.false_or, Bool.and_eq_true, List.head?_cons, beq_iff_eq, Option.some.injEq] at hc
        exact ⟨d, t', rfl, .inl hc.2⟩
    · exact .inr ⟨c, rsl cs, rfl, .inr ⟨cs, rfl⟩⟩

/-- the items that the strips do not damage: hard tokens, tidy comments -/
def HardIt (is : List LItem) : Prop :=
  ∀ it ∈ is, match it with
    | .tok a tk => HardTok a tk
    | .com c => Tidy c
    | .ws _ => True

/-- every token and comment text is non-empty and does not end in white space -/
def EndOK (is : List LItem) : Prop :=
  ∀ it ∈ is, match it with
    | .tok a _ => a ≠ [] ∧ ∀ i l, a = i ++ [l] → pyIsSpace l = false
    | .com c => c ≠ [] ∧ ∀ i l, c = i ++ [l] → pyIsSpace l = false
    | .ws _ => True

theorem endOK_cons {x : LItem} {is : List LItem} (hx : match x with
    | .tok a _ => a ≠ [] ∧ ∀ i l, a = i ++ [l] → pyIsSpace l = false
    | .com c => c ≠ [] ∧ ∀ i l, c = i ++ [l] → pyIsSpace l = false
    | .ws _ => True) (h : EndOK is) : EndOK (x :: is) := by
  intro it hit
  rcases List.mem_cons.mp hit with rfl | hit
  · exact hx
  · exact h it hit


theorem isCom_of_short {c : List Char} (h : IsShortComment c) : c ≠ [] := by
  obtain ⟨b, rfl, _⟩ := h; simp
theorem isCom_of_long {c : List Char} (h : IsLongComment c) : c ≠ [] := by
  obtain ⟨b, v, rfl, _⟩ := h; simp

/-- **the per-line right-strip** keeps a well-formed layout well formed, with the same tokens and comments -/
theorem lwf_rsl {is : List LItem} (h : LWF is) : HardIt is →
    ∃ is', LWF is' ∧ renderItems is' = rsl (renderItems is) ∧ itemTks is' = itemTks is ∧ EndOK is' ∧
      comItems is' = comItems is := by
  induction h with
  | nil => intro _; exact ⟨[], .nil, rfl, rfl, fun _ h => (by cases h), rfl⟩
  | @tok a tk rest hr hl hs hfu ih =>
    intro hh
    obtain ⟨is', hl', hren, htk, hend, hcom⟩ := ih (fun it hit => hh it (List.mem_cons_of_mem _ hit))
    obtain ⟨a', hR, hra', hsep, hfus, hlast⟩ := hh (.tok a tk) (by simp)
    refine ⟨.tok a' tk :: is', .tok hra' hl' ?_ ?_, ?_, ?_, endOK_cons ⟨hra'.1, hlast⟩ hend, ?_⟩
    · rw [hren]
      rcases rsl_head (renderItems rest) with h0 | ⟨d, t', h1, hd⟩
      · exact .inr h0
      · left
        rw [h1]
        rcases hd with rfl | ⟨t0, h2⟩
        · exact sepRequired_inert a' hra'.1 '\n' t' (inert_of_layout (by decide))
        · rw [sepRequired_head a' d t' [], hsep d]
          rcases hs with hs | hs
          · rw [h2, sepRequired_head a d t0 []] at hs; exact hs
          · rw [hs] at h2; cases h2
    · intro d t e
      rw [hren] at e
      rcases rsl_head (renderItems rest) with h0 | ⟨d', t', h1, hd⟩
      · rw [h0] at e; cases e
      · rw [h1] at e; cases e
        rw [hfus d]
        rcases hd with rfl | ⟨t0, h2⟩
        · exact fuses_inert a '\n' (inert_of_layout (by decide))
        · exact hfu d t0 h2
    · rw [render_cons, render_cons, hren, rsl_append]
      exact (hR _).symm
    · simp only [itemTks, List.flatMap_cons, LItem.tks] at htk ⊢
      rw [htk]
    · simp only [comItems, List.filterMap_cons] at hcom ⊢
      exact hcom
  | @ws w rest hw hl ih =>
    intro hh
    obtain ⟨is', hl', hren, htk, hend, hcom⟩ := ih (fun it hit => hh it (List.mem_cons_of_mem _ hit))
    obtain ⟨w', hw', hsub, _⟩ := Rst_layout w (rsl (renderItems rest))
    refine ⟨.ws w' :: is', .ws (fun c hc => hw c (hsub c hc)) hl', ?_, ?_, endOK_cons trivial hend, ?_⟩
    · rw [render_cons, render_cons, hren, rsl_append]
      exact hw'.symm
    · simp only [itemTks, List.flatMap_cons, LItem.tks] at htk ⊢
      rw [htk]
    · simp only [comItems, List.filterMap_cons] at hcom ⊢
      exact hcom
  | @short c rest hc hl hr ih =>
    intro hh
    obtain ⟨is', hl', hren, htk, hend, hcom⟩ := ih (fun it hit => hh it (List.mem_cons_of_mem _ hit))
    have ht : Tidy c := hh (.com c) (by simp)
    refine ⟨.com c :: is', .short hc hl' ?_, ?_, ?_, endOK_cons ⟨isCom_of_short hc, ht.2⟩ hend, ?_⟩
    · rw [hren]
      rcases hr with h0 | ⟨t, h1⟩
      · left; rw [h0]; rfl
      · right
        rw [h1]
        exact ⟨rsl t, by show stepR '\n' (rsl t) = _; rw [stepR_nl]⟩
    · rw [render_cons, render_cons, hren, rsl_append]
      exact (Rst_tidy c ht _).symm
    · simp only [itemTks, List.flatMap_cons, LItem.tks] at htk ⊢
      rw [htk]
    · simp only [comItems, List.filterMap_cons] at hcom ⊢
      rw [hcom]
  | @long c rest hc hl ih =>
    intro hh
    obtain ⟨is', hl', hren, htk, hend, hcom⟩ := ih (fun it hit => hh it (List.mem_cons_of_mem _ hit))
    have ht : Tidy c := hh (.com c) (by simp)
    refine ⟨.com c :: is', .long hc hl', ?_, ?_, endOK_cons ⟨isCom_of_long hc, ht.2⟩ hend, ?_⟩
    · rw [render_cons, render_cons, hren, rsl_append]
      exact (Rst_tidy c ht _).symm
    · simp only [itemTks, List.flatMap_cons, LItem.tks] at htk ⊢
      rw [htk]
    · simp only [comItems, List.filterMap_cons] at hcom ⊢
      rw [hcom]

/-! ## the final strip -/

def isWsItem : LItem → Bool
  | .ws _ => true
  | _ => false

/-- split off the trailing white-space items -/
theorem split_trailing_ws : ∀ (is : List LItem), ∃ core tail, is = core ++ tail ∧ (∀ it ∈ tail, isWsItem it = true) ∧
    (core = [] ∨ ∃ c0 x, core = c0 ++ [x] ∧ isWsItem x = false)
  | [] => ⟨[], [], rfl, fun _ h => (by cases h), .inl rfl⟩
  | x :: rest => by
    obtain ⟨core, tail, rfl, ht, hc⟩ := split_trailing_ws rest
    rcases hc with rfl | ⟨c0, y, rfl, hy⟩
    · cases hx : isWsItem x
      · exact ⟨[x], tail, rfl, ht, .inr ⟨[], x, rfl, hx⟩⟩
      · exact ⟨[], x :: tail, rfl, fun it hit => (by
          rcases List.mem_cons.mp hit with rfl | hit
          · exact hx
          · exact ht it hit), .inl rfl⟩
    · exact ⟨x :: (c0 ++ [y]), tail, rfl, ht, .inr ⟨x :: c0, y, rfl, hy⟩⟩

theorem lwf_drop_tail : ∀ (n : Nat) (core tail : List LItem), tail.length = n → (∀ it ∈ tail, isWsItem it = true) →
    LWF (core ++ tail) → LWF core
  | 0, core, tail, hn, _, h => by
    have : tail = [] := List.length_eq_zero_iff.mp hn
    subst this; simpa using h
  | n + 1, core, tail, hn, ht, h => by
    rcases List.eq_nil_or_concat tail with rfl | ⟨t0, x, rfl⟩
    · simp at hn
    · rw [List.concat_eq_append] at hn ht h
      have hx : isWsItem x = true := ht x (by simp)
      cases x with
      | ws w =>
        rw [← List.append_assoc] at h
        exact lwf_drop_tail n core t0 (by simpa using hn) (fun it hit => ht it (by simp [hit])) (lwf_drop_ws w h)
      | tok _ _ => cases hx
      | com _ => cases hx

theorem render_ws_tail : ∀ (tail : List LItem), (∀ it ∈ tail, isWsItem it = true) → LWF tail →
    ∀ c ∈ renderItems tail, isLayoutSpace c = true
  | [], _, _, c, hc => by simp [renderItems] at hc
  | x :: rest, ht, h, c, hc => by
    have hx : isWsItem x = true := ht x (by simp)
    cases x with
    | ws w =>
      cases h with
      | ws hw hl =>
        rw [render_cons] at hc
        rcases List.mem_append.mp hc with hc | hc
        · exact hw c hc
        · exact render_ws_tail rest (fun it hit => ht it (by simp [hit])) hl c hc
    | tok _ _ => cases hx
    | com _ => cases hx

theorem lwf_suffix : ∀ (a b : List LItem), LWF (a ++ b) → LWF b
  | [], b, h => h
  | x :: a, b, h => by
    cases h with
    | tok _ hl _ _ => exact lwf_suffix a b hl
    | ws _ hl => exact lwf_suffix a b hl
    | short _ hl _ => exact lwf_suffix a b hl
    | long _ hl => exact lwf_suffix a b hl

theorem layout_pySpace {c : Char} (h : isLayoutSpace c = true) : pyIsSpace c = true := by
  simp only [isLayoutSpace, Bool.or_eq_true, beq_iff_eq] at h
  rcases h with (rfl | rfl) | rfl <;> decide

theorem pyRstrip_append_ws (X W : List Char) (hW : ∀ c ∈ W, pyIsSpace c = true)
    (hX : X = [] ∨ ∃ i l, X = i ++ [l] ∧ pyIsSpace l = false) : pyRstrip (X ++ W) = X := by
  unfold pyRstrip
  rw [List.reverse_append, List.dropWhile_append_of_pos (fun a ha => hW a (List.mem_reverse.mp ha))]
  rcases hX with rfl | ⟨i, l, rfl, hl⟩
  · rfl
  · simp [List.dropWhile, hl]

theorem render_last_nonspace {c0 : List LItem} {x : LItem} (hx : isWsItem x = false) (he : EndOK (c0 ++ [x])) :
    ∃ i l, renderItems (c0 ++ [x]) = i ++ [l] ∧ pyIsSpace l = false := by
  have h := he x (by simp)
  rw [render_append]
  cases x with
  | ws _ => cases hx
  | tok a tk =>
    obtain ⟨hne, hl⟩ := h
    obtain ⟨i, l, rfl⟩ : ∃ i l, a = i ++ [l] := by
      rcases List.eq_nil_or_concat a with rfl | ⟨i, l, rfl⟩
      · exact absurd rfl hne
      · exact ⟨i, l, by simp⟩
    exact ⟨renderItems c0 ++ i, l, by simp [renderItems, LItem.text], hl i l rfl⟩
  | com a =>
    obtain ⟨hne, hl⟩ := h
    obtain ⟨i, l, rfl⟩ : ∃ i l, a = i ++ [l] := by
      rcases List.eq_nil_or_concat a with rfl | ⟨i, l, rfl⟩
      · exact absurd rfl hne
      · exact ⟨i, l, by simp⟩
    exact ⟨renderItems c0 ++ i, l, by simp [renderItems, LItem.text], hl i l rfl⟩

/-- **the final right-strip** drops the trailing white-space items -/
theorem lwf_rstrip {is : List LItem} (h : LWF is) (he : EndOK is) :
    ∃ core, LWF core ∧ renderItems core = pyRstrip (renderItems is) ∧ itemTks core = itemTks is ∧ EndOK core ∧
      comItems core = comItems is ∧ (core = [] ∨ ∃ c0 x, core = c0 ++ [x] ∧ isWsItem x = false) := by
  obtain ⟨core, tail, rfl, ht, hc⟩ := split_trailing_ws is
  have hlc := lwf_drop_tail _ core tail rfl ht h
  have hW := render_ws_tail tail ht (lwf_suffix core tail h)
  have hec : EndOK core := fun it hit => he it (by simp [hit])
  refine ⟨core, hlc, ?_, ?_, hec, ?_, hc⟩
  · rw [render_append]
    refine (pyRstrip_append_ws _ _ (fun c hc => layout_pySpace (hW c hc)) ?_).symm
    rcases hc with rfl | ⟨c0, x, rfl, hx⟩
    · exact .inl rfl
    · exact .inr (render_last_nonspace hx hec)
  · have : itemTks tail = [] := by
      simp only [itemTks, List.flatMap_eq_nil_iff]
      intro it hit
      have := ht it hit
      cases it <;> simp_all [isWsItem, LItem.tks]
    simp only [itemTks, List.flatMap_append] at this ⊢
    rw [this]; simp
  · have : comItems tail = [] := by
      simp only [comItems, List.filterMap_eq_nil_iff]
      intro it hit
      have := ht it hit
      cases it <;> simp_all [isWsItem]
    simp only [comItems, List.filterMap_append] at this ⊢
    rw [this]; simp

/-! ## the appended statement separator -/

theorem render_snoc (r : List LItem) (x : LItem) : renderItems (r ++ [x]) = renderItems r ++ x.text := by
  rw [render_append]; simp [renderItems]

/-- a token that starts with an inert character may be appended, unless the layout ends in a short comment -/
theorem lwf_append_tok {is : List LItem} (h : LWF is) {b : List Char} {tk : Tk} (hb : ReadsAs b tk) {d0 : Char}
    {t0 : List Char} (hbd : b = d0 :: t0) (hi : Inert d0) (hend : ¬ EndsInShort is) : LWF (is ++ [.tok b tk]) := by
  have hrw : ∀ r : List LItem, renderItems (r ++ [.tok b tk]) = renderItems r ++ b := fun r => render_snoc r _
  induction h with
  | nil => exact .tok hb .nil (.inr rfl) (fun d t e => by simp [renderItems] at e)
  | @tok a tk' rest hr _ hs hfu ih =>
    have hend' : ¬ EndsInShort rest := fun ⟨pre, c, r, e, h1, h2⟩ => hend ⟨_ :: pre, c, r, by rw [e]; rfl, h1, h2⟩
    refine .tok hr (ih hend') ?_ ?_
    · rw [show renderItems (rest.append [.tok b tk]) = renderItems rest ++ b from hrw rest]
      cases hrr : renderItems rest with
      | cons d t =>
        rw [hrr] at hs
        rcases hs with hs | hs
        · left; rw [List.cons_append, sepRequired_head a d _ t]; exact hs
        · cases hs
      | nil =>
        left
        rw [List.nil_append, hbd]
        exact sepRequired_inert a hr.1 d0 t0 hi
    · rw [show renderItems (rest.append [.tok b tk]) = renderItems rest ++ b from hrw rest]
      intro d t e
      cases hrr : renderItems rest with
      | cons d' t' =>
        rw [hrr] at e
        simp only [List.cons_append, List.cons.injEq] at e
        rw [← e.1]
        exact hfu d' t' hrr
      | nil =>
        rw [hrr, List.nil_append, hbd] at e
        cases e
        exact fuses_inert a d0 hi
  | @ws w' rest hw' _ ih =>
    have hend' : ¬ EndsInShort rest := fun ⟨pre, c, r, e, h1, h2⟩ => hend ⟨_ :: pre, c, r, by rw [e]; rfl, h1, h2⟩
    exact .ws hw' (ih hend')
  | @short c rest hc _ hr ih =>
    have hend' : ¬ EndsInShort rest := fun ⟨pre, c, r, e, h1, h2⟩ => hend ⟨_ :: pre, c, r, by rw [e]; rfl, h1, h2⟩
    refine .short hc (ih hend') ?_
    rw [show renderItems (rest.append [.tok b tk]) = renderItems rest ++ b from hrw rest]
    rcases hr with hr | ⟨t, hr⟩
    · exact absurd ⟨[], c, rest, rfl, hc, hr⟩ hend
    · right; exact ⟨t ++ b, by rw [hr]; rfl⟩
  | @long c rest hc _ ih =>
    have hend' : ¬ EndsInShort rest := fun ⟨pre, c, r, e, h1, h2⟩ => hend ⟨_ :: pre, c, r, by rw [e]; rfl, h1, h2⟩
    exact .long hc (ih hend')

/-- a short comment at the very end may be extended -/
theorem lwf_ext_short {c e : List Char} (hc' : IsShortComment (c ++ e)) (hne : c ≠ []) :
    ∀ (pre : List LItem), LWF (pre ++ [.com c]) → LWF (pre ++ [.com (c ++ e)])
  | [], _ => .short hc' .nil (.inl rfl)
  | x :: pre, h => by
    have hr1 : renderItems (pre ++ [.com c]) = renderItems pre ++ c := render_snoc pre _
    have hr2 : renderItems (pre ++ [.com (c ++ e)]) = renderItems pre ++ (c ++ e) := render_snoc pre _
    -- the two texts are non-empty and start with the same character
    have hhead : ∃ d t t', renderItems (pre ++ [.com c]) = d :: t ∧ renderItems (pre ++ [.com (c ++ e)]) = d :: t' := by
      rw [hr1, hr2]
      cases hp : renderItems pre with
      | nil =>
        cases c with
        | nil => exact absurd rfl hne
        | cons d t => exact ⟨d, t, t ++ e, rfl, rfl⟩
      | cons d t => exact ⟨d, t ++ c, t ++ (c ++ e), rfl, rfl⟩
    obtain ⟨d, t, t', h1, h2⟩ := hhead
    rw [List.cons_append] at h ⊢
    cases h with
    | tok hr hl hs hfu =>
      refine .tok hr (lwf_ext_short hc' hne pre hl) ?_ ?_
      · left
        rw [h2]
        rcases hs with hs | hs
        · rw [h1] at hs; rw [sepRequired_head _ d t' t]; exact hs
        · rw [h1] at hs; cases hs
      · intro d' t'' e'
        rw [h2] at e'; cases e'
        exact hfu d t h1
    | ws hw hl => exact .ws hw (lwf_ext_short hc' hne pre hl)
    | short hc hl hr =>
      refine .short hc (lwf_ext_short hc' hne pre hl) ?_
      right
      rcases hr with hr | ⟨t3, hr⟩
      · rw [h1] at hr; cases hr
      · rw [h1] at hr; cases hr
        exact ⟨t', h2⟩
    | long hc hl => exact .long hc (lwf_ext_short hc' hne pre hl)

theorem lwf_text_ne {is : List LItem} (h : LWF is) : ∀ it ∈ is, isWsItem it = false → it.text ≠ [] := by
  induction h with
  | nil => intro it hit; cases hit
  | tok hr _ _ _ ih =>
    intro it hit hw
    rcases List.mem_cons.mp hit with rfl | hit
    · exact hr.1
    · exact ih it hit hw
  | ws _ _ ih =>
    intro it hit hw
    rcases List.mem_cons.mp hit with rfl | hit
    · cases hw
    · exact ih it hit hw
  | short hc _ _ ih =>
    intro it hit hw
    rcases List.mem_cons.mp hit with rfl | hit
    · exact isCom_of_short hc
    · exact ih it hit hw
  | long hc _ ih =>
    intro it hit hw
    rcases List.mem_cons.mp hit with rfl | hit
    · exact isCom_of_long hc
    · exact ih it hit hw

theorem endsInShort_last {core : List LItem} (h : LWF core)
    (hc : core = [] ∨ ∃ c0 x, core = c0 ++ [x] ∧ isWsItem x = false) (he : EndsInShort core) :
    ∃ pre c, core = pre ++ [.com c] ∧ IsShortComment c := by
  obtain ⟨pre, c, rest, e, hs, hr⟩ := he
  rcases List.eq_nil_or_concat rest with rfl | ⟨r0, y, rfl⟩
  · exact ⟨pre, c, e, hs⟩
  · exfalso
    rw [List.concat_eq_append] at e hr
    rcases hc with rfl | ⟨c0, x, rfl, hx⟩
    · simp at e
    · have e' : c0 ++ [x] = (pre ++ .com c :: r0) ++ [y] := by rw [e]; simp
      have hxy := List.append_inj_right' e' rfl
      simp only [List.cons.injEq, and_true] at hxy
      subst hxy
      have := lwf_text_ne h x (by simp) hx
      rw [render_snoc] at hr
      exact this (List.append_eq_nil_iff.mp hr).2

theorem isShort_ext_semi {c : List Char} (h : IsShortComment c) : IsShortComment (c ++ [';']) := by
  obtain ⟨body, rfl, hnl, hlo⟩ := h
  refine ⟨body ++ [';'], by simp, ?_, longOpener_append_none' body [';'] hlo (by simp) (by simp)⟩
  simp only [List.mem_append, List.mem_singleton, not_or]
  exact ⟨hnl, by decide⟩

theorem readTks_snoc_skip {L : Pieces} {ks : List Tk} (h : ReadTks L ks) : ReadTks (L ++ [.sep .statement]) ks := by
  induction h with
  | nil => exact .skip (Or.inl rfl) .nil
  | semi hp _ ih => exact .semi hp ih
  | skip hp _ ih => exact .skip hp ih
  | other h1 h2 _ ih => exact .other h1 h2 ih

theorem readTks_snoc_semi {L : Pieces} {ks : List Tk} (h : ReadTks L ks) :
    ReadTks (L ++ [.sep .statement]) (ks ++ [.sym ";"]) := by
  induction h with
  | nil => exact .semi (Or.inl rfl) .nil
  | semi hp _ ih => exact .semi hp ih
  | skip hp _ ih => exact .skip hp ih
  | other h1 h2 _ ih => rw [List.append_assoc]; exact .other h1 h2 ih

/-- **the appended statement separator** -/
theorem lwf_ending {core : List LItem} (h : LWF core)
    (hc : core = [] ∨ ∃ c0 x, core = c0 ++ [x] ∧ isWsItem x = false) {E : List Char}
    (hE : E = [] ∨ E = ['\n'] ∨ E = [';']) {L : Pieces} (hrd : ReadTks L (itemTks core)) :
    ∃ fin, LWF fin ∧ renderItems fin = renderItems core ++ E ∧ ReadTks (L ++ [.sep .statement]) (itemTks fin) ∧
      (itemTks fin = itemTks core ∨ (E = [';'] ∧ itemTks fin = itemTks core ++ [.sym ";"])) ∧
      (comItems fin = comItems core ∨
        (E = [';'] ∧ ∃ init c, comItems core = init ++ [c] ∧ comItems fin = init ++ [c ++ [';']])) := by
  rcases hE with rfl | rfl | rfl
  · exact ⟨core, h, by simp, readTks_snoc_skip hrd, .inl rfl, .inl rfl⟩
  · refine ⟨core ++ [.ws ['\n']], lwf_append_ws h _ (by decide) (.inl (.inr ⟨[], rfl⟩)), render_snoc _ _, ?_⟩
    have : itemTks (core ++ [.ws ['\n']]) = itemTks core := by simp [itemTks, LItem.tks]
    rw [this]; exact ⟨readTks_snoc_skip hrd, .inl rfl, .inl (by simp [comItems])⟩
  · by_cases hs : EndsInShort core
    · obtain ⟨pre, c, rfl, hsc⟩ := endsInShort_last h hc hs
      refine ⟨pre ++ [.com (c ++ [';'])], lwf_ext_short (isShort_ext_semi hsc) (isCom_of_short hsc) pre h, ?_, ?_⟩
      · rw [render_snoc, render_snoc]; simp [LItem.text]
      · have : itemTks (pre ++ [.com (c ++ [';'])]) = itemTks (pre ++ [.com c]) := by simp [itemTks, LItem.tks]
        rw [this]; exact ⟨readTks_snoc_skip hrd, .inl rfl, .inr ⟨rfl, comItems pre, c, by simp [comItems], by simp [comItems]⟩⟩
    · have hra : ReadsAs [';'] (.sym ";") := by
        have := readsAs_of_isPiece (isPiece_symPieces [';'] (by decide))
        exact this
      refine ⟨core ++ [.tok [';'] (.sym ";")], lwf_append_tok h hra rfl (by unfold Inert; decide) hs, render_snoc _ _, ?_⟩
      have : itemTks (core ++ [.tok [';'] (.sym ";")]) = itemTks core ++ [.sym ";"] := by simp [itemTks, LItem.tks]
      rw [this]; exact ⟨readTks_snoc_semi hrd, .inr ⟨rfl, rfl⟩, .inl (by simp [comItems])⟩

end Tumfl.Theory
