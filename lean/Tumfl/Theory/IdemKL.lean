import Tumfl.Theory.IdemIns
import Tumfl.Theory.IdemFlags
import Tumfl.Theory.IdemExists
import Tumfl.Theory.PrintSim
/-!
# C15: the block-start flags of the re-parsed tree agree with the printed guards
-/
namespace Tumfl.Theory
open Tumfl Tumfl.Model

/-! ## the first piece of a printed statement -/

theorem headOK_not_sep {ps : Pieces} (h : HeadOK ps) : ∃ s r, ps = .str s :: r := by
  rcases h with ⟨r, rfl⟩ | ⟨n, r, rfl, _⟩
  · exact ⟨_, _, rfl⟩
  · exact ⟨_, _, rfl⟩

/-- a statement other than a `Semicolon` prints something, and its first piece is no Statement / Block separator -/
theorem visitStmt_head (sty : Style) : (s : Stmt) → pStmt s = true → isSemi s = false →
    ∃ p r, visitStmt sty s = p :: r ∧ ((∃ x, p = .str x) ∨ p = .sep .newline)
  | .assign _ ts es, h, _ => by
    simp only [pStmt, Bool.and_eq_true, Bool.not_eq_true', List.isEmpty_eq_false_iff] at h
    obtain ⟨⟨⟨⟨hne, hts⟩, hp⟩, _⟩, _⟩ := h
    cases ts with
    | nil => exact absurd rfl hne
    | cons e r =>
      simp only [pArgs, Bool.and_eq_true] at hp
      obtain ⟨s, r', hs⟩ := headOK_not_sep (HeadOK_fmtVar sty e (fun hv => varHead sty e hp.1 hv))
      cases r with
      | nil => exact ⟨.str s, _, by simp only [visitStmt, visitTargets, hs]; rfl, Or.inl ⟨_, rfl⟩⟩
      | cons e2 r => exact ⟨.str s, _, by simp only [visitStmt, visitTargets, hs]; rfl, Or.inl ⟨_, rfl⟩⟩
  | .block b, h, _ => by
    simp only [pStmt, Bool.and_eq_true, Bool.not_eq_true'] at h
    obtain ⟨t, ss, rets, c⟩ := b
    simp only [Block.isChunk] at h
    exact ⟨P "do", _, by simp only [visitStmt, blk, Block.isChunk, h.1, visitBlockFull_eq]; rfl, Or.inl ⟨_, rfl⟩⟩
  | .brk _, _, _ => ⟨P "break", [], rfl, Or.inl ⟨_, rfl⟩⟩
  | .call _ f args, h, _ => by
    simp only [pStmt, Bool.and_eq_true] at h
    obtain ⟨s, r', hs⟩ := headOK_not_sep (HeadOK_fmtVar sty f (fun hv => varHead sty f h.1 hv))
    exact ⟨.str s, _, by simp only [visitStmt, hs]; rfl, Or.inl ⟨_, rfl⟩⟩
  | .funcDef _ names none ps body, _, _ => ⟨S .newline, _, by simp only [visitStmt]; rfl, Or.inr rfl⟩
  | .funcDef _ names (some mn) ps body, _, _ => ⟨S .newline, _, by simp only [visitStmt]; rfl, Or.inr rfl⟩
  | .goto _ l, _, _ => ⟨P "goto", _, by simp only [visitStmt]; rfl, Or.inl ⟨_, rfl⟩⟩
  | .label _ n, _, _ => ⟨P "::", _, by simp only [visitStmt]; rfl, Or.inl ⟨_, rfl⟩⟩
  | .iff _ test tr fl, _, _ => ⟨P "if", _, by simp only [visitStmt]; rfl, Or.inl ⟨_, rfl⟩⟩
  | .iterFor _ ns es body, _, _ => ⟨P "for", _, by simp only [visitStmt]; rfl, Or.inl ⟨_, rfl⟩⟩
  | .localAssign _ names none, _, _ => ⟨P "local", _, by simp only [visitStmt]; rfl, Or.inl ⟨_, rfl⟩⟩
  | .localAssign _ names (some []), _, _ => ⟨P "local", _, by simp only [visitStmt]; rfl, Or.inl ⟨_, rfl⟩⟩
  | .localAssign _ names (some (e :: r)), _, _ => ⟨P "local", _, by simp only [visitStmt]; rfl, Or.inl ⟨_, rfl⟩⟩
  | .localFunc _ n ps body, _, _ => ⟨S .newline, _, by simp only [visitStmt]; rfl, Or.inr rfl⟩
  | .method _ f m args, h, _ => by
    simp only [pStmt, Bool.and_eq_true] at h
    obtain ⟨s, r', hs⟩ := headOK_not_sep (HeadOK_fmtVar sty f (fun hv => varHead sty f h.1.1 hv))
    exact ⟨.str s, _, by simp only [visitStmt, hs]; rfl, Or.inl ⟨_, rfl⟩⟩
  | .numFor _ v a b none body, _, _ => ⟨P "for", _, by simp only [visitStmt]; rfl, Or.inl ⟨_, rfl⟩⟩
  | .numFor _ v a b (some st) body, _, _ => ⟨P "for", _, by simp only [visitStmt]; rfl, Or.inl ⟨_, rfl⟩⟩
  | .repeat _ c body, _, _ => ⟨P "repeat", _, by simp only [visitStmt]; rfl, Or.inl ⟨_, rfl⟩⟩
  | .semi _, _, h => by simp [isSemi] at h
  | .whl _ c body, _, _ => ⟨P "while", _, by simp only [visitStmt]; rfl, Or.inl ⟨_, rfl⟩⟩

/-! ## the first piece of the printed chunk -/

theorem visitStmts_cons_first (sty : Style) (hic : sty.includeComments = false) (s : Stmt) (rest : List Stmt) :
    visitStmts sty true (s :: rest) = visitStmt sty s ++ [S .statement] ++ visitStmts sty false rest := by
  rw [visitStmts]
  simp only [hic, Bool.false_eq_true, if_false, List.nil_append, if_true]
  split <;> simp

/-- the printed chunk starts with a Statement separator only if the chunk starts with a `Semicolon`; it never starts with a
Block separator -/
theorem emit_head (sty : Style) (hic : sty.includeComments = false) (hks : sty.keepSemicolon = false)
    (b : Block) (hp : Printable b) (p : Piece) (r : Pieces) (he : emit sty b = p :: r) :
    (p = .sep .statement → leadSemi b.stmts = true) ∧ p ≠ .sep .block := by
  rcases ft_emit_chunk sty b hp.1 with ⟨_, h0⟩ | h1
  · rw [h0] at he; cases he
  · rw [he] at h1
    obtain ⟨t, ss, rets, c⟩ := b
    have hpb := hp.2
    simp only [Block.stmts, Block.rets] at h1 ⊢
    unfold bodyPieces at h1
    cases ss with
    | nil =>
      simp only [visitStmts, List.nil_append] at h1
      cases rets with
      | none => cases h1
      | some es =>
        simp only [List.cons_append, List.append_assoc, List.cons.injEq] at h1
        obtain ⟨rfl, _⟩ := h1
        exact ⟨fun h => by simp [P] at h, by simp [P]⟩
    | cons s rest =>
      rw [visitStmts_cons_first sty hic] at h1
      by_cases hs : isSemi s = true
      · cases s <;> simp only [isSemi, Bool.false_eq_true] at hs
        simp only [visitStmt, hks, Bool.false_eq_true, if_false, List.nil_append, List.cons_append, List.cons.injEq] at h1
        obtain ⟨rfl, _⟩ := h1
        exact ⟨fun _ => rfl, by simp [S]⟩
      · have hps : pStmt s = true := by
          cases rets <;> simp only [pBlock, pStmts, Bool.and_eq_true, Bool.and_true] at hpb
          · exact hpb.1
          · exact hpb.1.1
        obtain ⟨q, r', hq, hq'⟩ := visitStmt_head sty s hps (by simpa using hs)
        rw [hq] at h1
        simp only [List.cons_append, List.cons.injEq] at h1
        obtain ⟨rfl, _⟩ := h1
        rcases hq' with ⟨x, rfl⟩ | rfl
        · exact ⟨fun h => (by cases h), fun h => (by cases h)⟩
        · exact ⟨fun h => (by cases h), fun h => (by cases h)⟩

/-! ## the flags -/

theorem gFirst_false_ne_P (sty : Style) : ∀ ss : List Stmt, gFirst sty false ss ≠ .P
  | [] => by simp [gFirst]
  | s :: rest => by
    unfold gFirst
    split
    · exact gFirst_false_ne_P sty rest
    · split <;> simp

theorem gB_head (sty : Style) (b : Block) : ∃ r, gB sty b = gFirst sty true b.stmts :: r := by
  obtain ⟨t, ss, rets, c⟩ := b
  cases rets
  · exact ⟨_, by simp only [gB, Block.stmts]; rfl⟩
  · exact ⟨_, by simp only [gB, Block.stmts]; rfl⟩

theorem piecesTks_softDrop {a b : Pieces} (h : SoftDrop a b) : piecesTks false a = piecesTks false b := by
  induction h with
  | nil => rfl
  | keep p _ ih => rw [piecesTks_cons, piecesTks_cons, ih]
  | drop hx _ ih =>
    rw [piecesTks_cons, ih]
    rcases keepRS_eq_false.mp hx with rfl | rfl | rfl <;> rfl

theorem scan_of_block {f : Nat} {ks : List Spec.Tk} {c : Spec.Block}
    (h : Spec.block f (toToks ks) = .ok (c, [eofTok])) : scan .Pd (ks ++ [.eof]) = kB c := by
  have := scan_block f _ _ c h
  unfold sc at this
  rw [toToks_tks] at this
  rw [this]
  simp [eofTok, mkTok, scan, scStep, nxtN]

/-- **the flags agree**: where the printed tokens of `b` have the `;` guard directly behind a block opener, the block of
the re-parsed tree `b'` begins with a `Semicolon`; where they have `(` there, it does not -/
theorem flags_KL (sty : Style) (hic : sty.includeComments = false) (hks : sty.keepSemicolon = false)
    (b : Block) (hp : Printable b) (ts1 : Pieces) (ks : List Spec.Tk) (f : Nat) (c' : Spec.Block) (b' : Block)
    (h1 : removeSeparators (emit sty b) = .ok ts1) (hdisc : Disc DS.init ts1) (hrd : ReadTks ts1 ks)
    (hb : Spec.block f (toToks ks) = .ok (c', [eofTok])) (hrel : BlockRel b' c') : KL (gB sty b) (lB b') := by
  have hsd := removeSeparators_softDrop h1
  have h0 := print_parse false sty b hp _ (Nat.le_refl _)
  have hg : gB sty b = scan .Pd (piecesTks false ts1 ++ [.eof]) := by
    rw [← piecesTks_softDrop hsd, scan_of_block h0, kB_refRoot sty hic hks b hp.2]
  have hgood : ∀ s, Piece.str s ∈ ts1 → ∃ tk, strTk s = [tk] ∧ (tk = .sym "(" → s = ['(']) := by
    intro s hs
    have hm := softDrop_mem hsd _ hs
    have hoff := emit_comments_off sty hic b (TreeWF_of_Printable hp)
    have hcom : isCom s = false := by
      have := List.filter_eq_nil_iff.mp hoff _ hm
      simpa [isCommentPiece, isCom] using this
    obtain ⟨⟨tk, _, ht⟩, _⟩ := disc_goodTok ts1 _ hdisc s hs hcom
    exact ⟨tk, ht, fun e => strTk_lpar (by rw [ht, e])⟩
  have hins : InsSemi (piecesTks false ts1 ++ [.eof]) (ks ++ [.eof]) := by
    cases he : emit sty b with
    | nil =>
      rw [he] at h1
      simp only [removeSeparators, Except.ok.injEq] at h1
      subst h1
      cases hrd
      exact InsSemi.refl _
    | cons x0 xs =>
      rw [he] at h1
      simp only [removeSeparators] at h1
      obtain ⟨suf, hs, h1⟩ := lk_bind_ok h1
      obtain ⟨body, rfl, hk⟩ := rs_kept _ _ _ hs
      simp only [List.dropLast_concat, Except.ok.injEq] at h1
      subst h1
      have hgb : ∀ s, Piece.str s ∈ body → ∃ tk, strTk s = [tk] ∧ (tk = .sym "(" → s = ['(']) :=
        fun s hs => hgood s (List.mem_cons_of_mem _ hs)
      cases hrd with
      | @semi _ _ ks' hx hr =>
        have e : piecesTks false (x0 :: body) = piecesTks false body := by
          rw [piecesTks_cons]; rcases hx with rfl | rfl <;> rfl
        rw [e] at hg ⊢
        have hI := read_ins hr hk hgb
        rw [List.cons_append]
        refine .ins hI (hI.head_ne ?_)
        obtain ⟨hlead, hnb⟩ := emit_head sty hic hks b hp x0 xs he
        have hx0 : x0 = .sep .statement := by
          rcases hx with h | h
          · exact h
          · exact absurd h hnb
        have hl := hlead hx0
        obtain ⟨r, hr'⟩ := gB_head sty b
        rw [hr', scan_Pd_eq] at hg
        simp only [List.cons.injEq] at hg
        intro hpar
        rw [hpar] at hg
        have hP : gFirst sty true b.stmts = .P := by rw [hg.1]; rfl
        cases hss : b.stmts with
        | nil => rw [hss] at hl; simp [leadSemi] at hl
        | cons s rest =>
          rw [hss] at hl hP
          simp only [leadSemi] at hl
          rw [gFirst, if_pos hl] at hP
          exact gFirst_false_ne_P sty rest hP
      | skip hx hr =>
        have e : piecesTks false (x0 :: body) = piecesTks false body := by
          rw [piecesTks_cons]; rcases hx with rfl | rfl <;> rfl
        rw [e]
        exact read_ins hr hk hgb
      | other _ _ hr =>
        rw [piecesTks_cons, List.append_assoc, List.append_assoc]
        exact InsSemi.prepend _ (read_ins hr hk hgb)
  rw [hg, lB_of_rel hrel, ← scan_of_block hb]
  exact scan_ins hins .Pd

end Tumfl.Theory
