import Tumfl.Theory.LexPosScan
import Tumfl.Theory.LexTotal
/-!
# The lexer only moves forward: token positions are non-decreasing

The position fields `(line, col)` of the lexer state never decrease (lexicographically) under `advance`
- the only way any scanner moves - so the state at which a token's scan began lies between the
state `getNextToken` was called in and the state it returns.  A token records `(line + 1, col + 1)` of
the state at which its scan began; hence successive tokens have non-decreasing positions.

The end-of-file token records `(line + 1, col + 1)` of the final lexer state; at the end of the text
`advance` no longer changes `line`/`col`, so this is the position of the *last character* of the text
(`(1, 0)` for the empty text), not one past it.  Asking again for a token delivers EOF at the same
position.

Note: `Token.column` is an `Int` in the model (the lexer's `col` is `-1` on a newline character), so
positions are pairs `Nat × Int`.
-/
namespace Tumfl.Theory
open Tumfl.Model

/-- position recorded in a token -/
def tokPos (t : Token) : Nat × Int := (t.line, t.column)

/-- lexicographic order on (line, column) -/
def posLe (a b : Nat × Int) : Prop := a.1 < b.1 ∨ (a.1 = b.1 ∧ a.2 ≤ b.2)

/-- the position a token would record if its scan began in lexer state `l` -/
def lexPos (l : LexSt) : Nat × Int := (l.line + 1, l.col + 1)

theorem posLe_refl (a : Nat × Int) : posLe a a := Or.inr ⟨rfl, Int.le_refl _⟩

theorem posLe_trans {a b c : Nat × Int} (h1 : posLe a b) (h2 : posLe b c) : posLe a c := by
  unfold posLe at *
  omega

theorem posLe_total (a b : Nat × Int) : posLe a b ∨ posLe b a := by
  unfold posLe
  omega

instance (a b : Nat × Int) : Decidable (posLe a b) := by unfold posLe; exact inferInstance

/-- the lexer state `b` is not before `a` -/
def LLe (a b : LexSt) : Prop := posLe (lexPos a) (lexPos b)

theorem LLe_refl (a : LexSt) : LLe a a := posLe_refl _
theorem LLe_trans {a b c : LexSt} (h1 : LLe a b) (h2 : LLe b c) : LLe a c := posLe_trans h1 h2

theorem LLe_advance (s : LexSt) : LLe s (advance s) := by
  unfold LLe posLe lexPos advance
  cases hr : s.rest with
  | nil => simp
  | cons c r =>
    cases r with
    | nil => simp
    | cons d r' =>
      simp only
      split
      · simp
      · simp; omega

theorem LLe_comments (s : LexSt) (cs : List (List Char)) : LLe s { s with comments := cs } := posLe_refl _

/-- "not before `a`" is preserved by everything the lexer does -/
theorem stable_ge (a : LexSt) : Stable (fun s => LLe a s) :=
  ⟨fun s h => LLe_trans h (LLe_advance s), fun _ _ h => h⟩

/-- where a token was started, relative to the states before and after the call -/
def Between (s s' : LexSt) (tok : Token) : Prop :=
  ∃ s0, LLe s s0 ∧ LLe s0 s' ∧ tokPos tok = lexPos s0 ∧
    ((s0.cur = none ∧ tok.type = .EOF ∧ lexPos s' = lexPos s0) ∨ ∃ c, s0.cur = some c ∧ Gen.whitespace.contains c = false ∧ tok.type ≠ .EOF)

theorem Between_mono {s1 s s' : LexSt} {tok : Token} (h1 : LLe s1 s) (h : Between s s' tok) : Between s1 s' tok := by
  obtain ⟨s0, a, b, c⟩ := h
  exact ⟨s0, LLe_trans h1 a, b, c⟩

theorem nextTokenLoop_between {cfg : LexCfg} : ∀ (f : Nat) (s : LexSt) (tok : Token) (s' : LexSt),
    nextTokenLoop cfg f s = .ok (tok, s') → Between s s' tok
  | 0, s, tok, s', h => by rw [nextTokenLoop] at h; cases h
  | f + 1, s, tok, s', h => by
    have hP := stable_ge s
    have hs : LLe s s := LLe_refl s
    rw [nextTokenLoop] at h
    split at h
    · rename_i hcur
      simp only [tokenArgs, Except.ok.injEq, Prod.mk.injEq] at h
      obtain ⟨rfl, rfl⟩ := h
      exact ⟨s, hs, LLe_refl _, rfl, Or.inl ⟨hcur, rfl, rfl⟩⟩
    · rename_i c hcur
      split at h
      · exact Between_mono (skipWhitespace_pres hP _ _ hs) (nextTokenLoop_between f _ _ _ h)
      · rename_i hws
        split at h
        · split at h
          · cases h
          · rename_i s1 heq
            exact Between_mono (skipComment_pres hP hs heq) (nextTokenLoop_between f _ _ _ h)
        · have hs0 : LLe s { s with comments := [] } := hP.com _ _ hs
          simp only [tokenArgs] at h
          have fin : ∀ {ty v X}, ty ≠ TT.EOF → LLe s X → (Except.ok (mkTok ty v (s.line + 1, s.col + 1, s.comments), X) : Except PyErr (Token × LexSt)) = Except.ok (tok, s') →
              Between s s' tok := by
            intro ty v X hne hX h
            obtain ⟨rfl, rfl⟩ := ok_pair h
            exact ⟨s, hs, hX, rfl, Or.inr ⟨c, hcur, by simpa using hws, hne⟩⟩
          split at h
          · -- name
            split at h
            · cases h
            · rename_i name s1 heq
              have h1 := getName_pres hP hs0 heq
              split at h
              · next t hk => exact fin (keywordOf_ne_eof hk) h1 h
              · exact fin (by decide) h1 h
          · rcases ite_cases h with ⟨_, h⟩ | ⟨_, h⟩
            · -- number
              rcases ite_cases h with ⟨_, h⟩ | ⟨_, h⟩
              · cases h
              · exact fin (by decide) (getNumber_pres hP hs0) h
            · rcases ite_cases h with ⟨_, h⟩ | ⟨_, h⟩
              · -- string
                split at h
                · cases h
                · rename_i v s1 heq
                  exact fin (by decide) (getString_pres hP hs0 heq) h
              · rcases ite_cases h with ⟨_, h⟩ | ⟨_, h⟩
                · -- long bracket
                  split at h
                  · cases h
                  · rename_i v s1 heq
                    exact fin (by decide) (getLongBrackets_pres hP hs0 heq) h
                · rcases ite_cases h with ⟨_, h⟩ | ⟨_, h⟩
                  · rcases ite_cases h with ⟨_, h⟩ | ⟨_, h⟩
                    · exact fin (by decide) (hP.adv _ (hP.adv _ (hP.adv _ hs0))) h
                    · exact fin (by decide) (hP.adv _ (hP.adv _ hs0)) h
                  · split at h
                    · next t v htwo =>
                      refine fin ?_ (hP.adv _ (hP.adv _ hs0)) h
                      split at htwo
                      · simp only [Option.map_eq_some_iff] at htwo
                        obtain ⟨t', ht', he⟩ := htwo
                        cases he
                        exact symbolOf_ne_eof ht'
                      · cases htwo
                    · split at h
                      · next t ht => exact fin (symbolOf_ne_eof ht) (hP.adv _ hs0) h
                      · cases h

/-- every token is started at a state between the one `getNextToken` was called in and the one it returns -/
theorem getNextToken_between {cfg : LexCfg} {s : LexSt} {tok : Token} {s' : LexSt}
    (h : getNextToken cfg s = .ok (tok, s')) : Between s s' tok := by
  unfold getNextToken at h
  refine Between_mono ?_ (nextTokenLoop_between _ _ _ _ h)
  split
  · exact skipShebang_pres (stable_ge s) _ _ (LLe_refl s)
  · exact LLe_refl s

/-- the token delivered lies between the lexer positions before and after the call -/
theorem getNextToken_pos_between {cfg : LexCfg} {s : LexSt} {tok : Token} {s' : LexSt}
    (h : getNextToken cfg s = .ok (tok, s')) : posLe (lexPos s) (tokPos tok) ∧ posLe (tokPos tok) (lexPos s') := by
  obtain ⟨s0, h1, h2, h3, _⟩ := getNextToken_between h
  rw [h3]
  exact ⟨h1, h2⟩

/-- **LEXER MONOTONICITY**: successive tokens have non-decreasing positions (no hypothesis on the
lexer state is needed; any token type, the end-of-file token included) -/
theorem getNextToken_mono {cfg : LexCfg} {l0 l1 l2 : LexSt} {t1 t2 : Token}
    (h1 : getNextToken cfg l0 = .ok (t1, l1)) (h2 : getNextToken cfg l1 = .ok (t2, l2)) :
    posLe (tokPos t1) (tokPos t2) :=
  posLe_trans (getNextToken_pos_between h1).2 (getNextToken_pos_between h2).1

/-- the end-of-file token records the lexer's final position (which, at the end of the text, `advance` no longer
changes: it is the position of the last character) -/
theorem getNextToken_eof_pos {cfg : LexCfg} {s : LexSt} {tok : Token} {s' : LexSt}
    (h : getNextToken cfg s = .ok (tok, s')) (he : tok.type = .EOF) : tokPos tok = lexPos s' ∧ s'.rest = [] := by
  refine ⟨?_, getNextToken_eof h he⟩
  obtain ⟨s0, _, _, h3, h4⟩ := getNextToken_between h
  rcases h4 with ⟨_, _, h5⟩ | ⟨c, _, _, hne⟩
  · rw [h3, h5]
  · exact absurd he hne

end Tumfl.Theory
