import Tumfl.Theory.WrapReadsDefs
import Tumfl.Theory.WrapReadsCut
import Tumfl.Theory.WrapReadsRead
/-!
# A wrapped string literal reads back identically

`_string_ident` breaks a quoted literal that is too wide into parts; every part but the last gets `\z`
appended and is followed by a Newline separator, which the later passes turn into a line break followed
by indentation.  `wrap_reads`: for a literal written by `visitString` (`quote :: v.flatMap (escapeChar
quote) ++ [quote]`) the resulting text (`wrappedText ps fill`, `fill i` any run of blanks and tabs) is a
quoted literal that the reference reader reads as exactly `v` - for every style, indentation level and
value, with no further hypothesis.

The ingredients: `not_forbidden_boundary` (WrapReadsEsc: a position not marked by `escapePositions` is
between two items), `stepPos_spec`/`cut_spec`/`loop_groups` (WrapReadsCut: where the loop cuts, backward
and forward search alike; the character after a cut is not white space), `joined_reads` (WrapReadsRead:
`\z` + line break + fill is skipped, with explicit fuel).
-/
namespace Tumfl.Theory
open Tumfl Tumfl.Spec Tumfl.Model

theorem wrappedTextFrom_build (fill : Nat → List Char) (q : Char) :
    ∀ (gs : List (List Char)) (i : Nat) (pre g : List Char),
      wrappedTextFrom fill i (stringIdent.build (textParts q pre g gs)) = pre ++ joined fill q i g gs ++ [q]
  | [], i, pre, g => by
    simp [textParts, stringIdent.build, wrappedTextFrom, joined]
  | g' :: gs, i, pre, g => by
    have ih := wrappedTextFrom_build fill q gs (i + 1) [] g'
    rw [textParts]
    cases hgs : textParts q [] g' gs with
    | nil => cases gs <;> simp [textParts] at hgs
    | cons a as =>
      rw [hgs] at ih
      rw [build_cons_cons]
      simp only [S, wrappedTextFrom, ih, joined]
      simp

/-- the two outcomes of `_string_ident`: the literal fits, or it is cut by the loop -/
theorem stringIdent_cases {input : List Char} {ind : Int} {sty : Style} {ps : Pieces}
    (h : stringIdent input ind sty = .ok ps) :
    ps = [.str input] ∨
      ps = stringIdent.build (stringIdentLoop ((sty.lineWidth : Int) - (ind * indentationWidth sty + 2))
        (input.length + 1) input) := by
  unfold stringIdent at h
  split at h
  · split at h
    · cases h
    · simp only at h
      rcases ite_ok h with rfl | rfl
      · exact .inl rfl
      · exact .inr rfl
  · cases h

/-- the shape of the output: the value is cut into groups `g :: gs` (between items of the written
body), no group but possibly the first begins with a blank, and the text is the opening quote, the
written groups joined by `\\z` + line break + fill, and the closing quote -/
theorem wrap_shape (sty : Style) (quote : Char) (hq : quote = '"' ∨ quote = '\'') (v : List Char) (ind : Int)
    (ps : Pieces)
    (h : stringIdent (quote :: v.flatMap (escapeChar quote) ++ [quote]) ind sty = .ok ps)
    (fill : Nat → List Char) :
    ∃ g gs, g ++ gs.flatten = v ∧ (∀ g' ∈ gs, g'.head? ≠ some ' ') ∧
      wrappedText ps fill = quote :: joined fill quote 0 g gs ++ [quote] := by
  rcases stringIdent_cases h with rfl | rfl
  · exact ⟨v, [], by simp, by simp, by simp [wrappedText, wrappedTextFrom, joined, escBody]⟩
  · have e : quote :: v.flatMap (escapeChar quote) ++ [quote] = [quote] ++ escBody quote v ++ [quote] := rfl
    rw [e]
    obtain ⟨g, gs, hv, hloop, hgs⟩ := loop_groups quote hq
      ((sty.lineWidth : Int) - (ind * indentationWidth sty + 2))
      (([quote] ++ escBody quote v ++ [quote]).length + 1) [quote] v (.inr rfl) (Nat.lt_succ_self _)
    refine ⟨g, gs, hv, hgs, ?_⟩
    rw [hloop, wrappedText, wrappedTextFrom_build]
    simp

/-- THE MAIN THEOREM: a wrapped literal reads back identically -/
theorem wrap_reads (sty : Style) (quote : Char) (hq : quote = '"' ∨ quote = '\'') (v : List Char) (ind : Int)
    (ps : Pieces)
    (h : stringIdent (quote :: v.flatMap (escapeChar quote) ++ [quote]) ind sty = .ok ps)
    (fill : Nat → List Char) (hfill : ∀ i, ∀ ch ∈ fill i, ch = ' ' ∨ ch = '\t') :
    IsQuotedLit (wrappedText ps fill) (v.map fun c => Spec.SUnit.ch c.toNat) := by
  obtain ⟨g, gs, hv, hgs, e⟩ := wrap_shape sty quote hq v ind ps h fill
  rw [e]
  refine ⟨quote, joined fill quote 0 g gs, hq, by simp, ?_⟩
  intro rest F hF
  obtain ⟨n, hn, hr⟩ := joined_reads fill hfill quote hq rest gs 0 g hgs
  rw [← hv]
  exact hr F (by omega)

/-! ## non-vacuity: a literal that is wrapped into five parts -/

/-- a narrow style: lines of 16 columns, tab indentation -/
def wrapExampleStyle : Style :=
  ⟨['\n'], ['\t'], ", ".toList, true, [' '], false, false, false, false, true, true, 4, 16, 5, false⟩

/-- the value `say "hi" to the<TAB>world,   twice é` -/
def wrapExampleValue : List Char := "say \"hi\" to the\tworld,   twice é".toList

/-- at indentation level 1 the literal is cut into five parts: right after the escape `\"`, after a
blank (never before one), at a word break, and in front of the `\u{e9}` escape -/
theorem wrapExample_pieces :
    stringIdent ('"' :: wrapExampleValue.flatMap (escapeChar '"') ++ ['"']) 1 wrapExampleStyle =
      .ok [.str "\"say \\\"\\z".toList, .sep .newline,
           .str "hi\\\" to \\z".toList, .sep .newline,
           .str "the\\tworld\\z".toList, .sep .newline,
           .str ",   twice \\z".toList, .sep .newline,
           .str "\\u{e9}\"".toList] := by
  rfl

/-- the text that ends up in the output (two tabs of indentation on every continuation line) -/
theorem wrapExample_text :
    wrappedText [.str "\"say \\\"\\z".toList, .sep .newline,
           .str "hi\\\" to \\z".toList, .sep .newline,
           .str "the\\tworld\\z".toList, .sep .newline,
           .str ",   twice \\z".toList, .sep .newline,
           .str "\\u{e9}\"".toList] (fun _ => ['\t', '\t']) =
      "\"say \\\"\\z\n\t\thi\\\" to \\z\n\t\tthe\\tworld\\z\n\t\t,   twice \\z\n\t\t\\u{e9}\"".toList := by
  decide +kernel

/-- the instance of `wrap_reads` for the example -/
theorem wrapExample_reads :
    IsQuotedLit "\"say \\\"\\z\n\t\thi\\\" to \\z\n\t\tthe\\tworld\\z\n\t\t,   twice \\z\n\t\t\\u{e9}\"".toList
      (wrapExampleValue.map fun c => Spec.SUnit.ch c.toNat) := by
  rw [← wrapExample_text]
  exact wrap_reads wrapExampleStyle '"' (.inl rfl) wrapExampleValue 1 _ wrapExample_pieces _
    (by intro i ch hch; simp at hch; rcases hch with rfl | rfl <;> simp)

/-- and, evaluated directly: the reference reader on the wrapped text (opening quote removed) -/
theorem wrapExample_strBody :
    Spec.strBody '"' 100
        "say \\\"\\z\n\t\thi\\\" to \\z\n\t\tthe\\tworld\\z\n\t\t,   twice \\z\n\t\t\\u{e9}\" .. x".toList =
      some (wrapExampleValue.map fun c => Spec.SUnit.ch c.toNat, " .. x".toList) := by
  decide +kernel

end Tumfl.Theory
