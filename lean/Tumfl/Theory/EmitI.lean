import Tumfl.Model.FormatI
import Tumfl.Theory.EmitINc
import Tumfl.Theory.EmitIFlatten
import Tumfl.Theory.EmitIOkFF
import Tumfl.Theory.PrintInlined
import Tumfl.Theory.ReadSimWF
/-!
# The repaired emitter (`Model/EmitI.lean`: the `;` guard looks at the first token that is neither a separator nor a comment)

1. **No regression on ordinary trees.**  `emitI_eq_emit_wf`: on a well-formed tree (`TreeWF`: names and numerals do not look like
   comments) without a chunk in statement position (`ncBlock`) the repaired emitter emits exactly the pieces of the old one, so
   every theorem about `emit` / `format` carries over (`emitI_eq_emit` for `Printable` trees, `formatI_eq_format_of_printable`).
   The key fact is `guardI_eq_stmtGuard` (`EmitIBase.lean`).
2. **The inlined case without the defect.**  `readTks_flattenI`: for `InlinedOKI b` - `flattenChunks b` is printable and no empty
   chunk is spliced (clause (b) of `PrintInlined`, still needed under a style that keeps semicolons: `InlinedOKIFor sty b`) - every
   token reading of `emitI sty b` is a reading of `emit sty (flattenChunks b)`.  The `hidesGuard` clause of `okBlock` is gone: the
   pieces differ only in the position of the `;` guard relative to the comments of the spliced chunk's first statement
   (`EmitIFlatten.lean`, `rdSub_swap`).  `read_sim_inlinedI`: every reading is a valid program that reads as the flattened tree.
3. **End to end** with the resolver: `resolve_then_emitI_valid`.
No doubled `;` and no new guard was found: the theorems hold without any further hypothesis.
-/
namespace Tumfl.Theory
open Tumfl.Model

/-! ## 1. Ordinary trees -/

/-- the structural hypothesis: well-formed (names / numerals do not look like comments, `if` / `repeat` bodies are blocks) and
no statement is a chunk block -/
def emitIOK (b : Block) : Bool := wfBlock b && ncBlock b

theorem emitI_eq_emit_wf (sty : Style) (b : Block) (hwf : TreeWF b) (hnc : ncBlock b = true) : emitI sty b = emit sty b := by
  unfold emitI emit
  rw [eqI_block sty b hwf hnc]

theorem emitI_eq_emit_ok (sty : Style) (b : Block) (h : emitIOK b = true) : emitI sty b = emit sty b := by
  unfold emitIOK at h
  rw [Bool.and_eq_true] at h
  exact emitI_eq_emit_wf sty b h.1 h.2

theorem emitIOK_of_Printable {b : Block} (h : Printable b) : emitIOK b = true := by
  unfold emitIOK
  rw [Bool.and_eq_true]
  exact ⟨TreeWF_of_Printable h, ncBlock_of_Printable h⟩

/-- on printable trees the repaired emitter is the old emitter -/
theorem emitI_eq_emit (sty : Style) (b : Block) (h : Printable b) : emitI sty b = emit sty b :=
  emitI_eq_emit_ok sty b (emitIOK_of_Printable h)

theorem formatI_eq_format_of_ok (sty : Style) (b : Block) (h : emitIOK b = true) : formatI sty b = format sty b :=
  formatI_eq_format sty b (emitI_eq_emit_ok sty b h)

theorem formatI_eq_format_of_printable (sty : Style) (b : Block) (h : Printable b) : formatI sty b = format sty b :=
  formatI_eq_format sty b (emitI_eq_emit sty b h)

/-! ## 2. Inlined trees -/

/-- per style: the flattening is printable, and no empty chunk is spliced if the style keeps semicolons -/
def InlinedOKIFor (sty : Style) (b : Block) : Prop :=
  Printable (flattenChunks b) ∧ okBlock sty.keepSemicolon false b = true

/-- style independent: the flattening is printable and no empty chunk is spliced -/
def InlinedOKI (b : Block) : Prop :=
  Printable (flattenChunks b) ∧ okBlock true false b = true

instance (sty : Style) (b : Block) : Decidable (InlinedOKIFor sty b) := by unfold InlinedOKIFor; exact inferInstance
instance (b : Block) : Decidable (InlinedOKI b) := by unfold InlinedOKI; exact inferInstance

theorem InlinedOKI.for_style {b : Block} (h : InlinedOKI b) (sty : Style) : InlinedOKIFor sty b :=
  ⟨h.1, okBlock_mono true false _ _ (fun _ => rfl) id b h.2⟩

/-- what the old emitter needed implies what the repaired one needs -/
theorem InlinedOK.toI {b : Block} (h : InlinedOK b) : InlinedOKI b :=
  ⟨h.1, okBlock_mono true true _ _ id (fun h => by cases h) b h.2⟩

theorem InlinedOKFor.toI {sty : Style} {b : Block} (h : InlinedOKFor sty b) : InlinedOKIFor sty b :=
  ⟨h.1, okBlock_mono _ _ _ _ id (fun h => by cases h) b h.2⟩

/-- every reading of the pieces the repaired emitter prints for an inlined tree is a reading of the pieces printed for its
flattening (per style) -/
theorem readTks_flattenI_for (sty : Style) (b : Block) (h : InlinedOKIFor sty b) (ks : List Spec.Tk) :
    ReadTks (emitI sty b) ks → ReadTks (emit sty (flattenChunks b)) ks := by
  intro hks
  rw [← emitI_eq_emit sty (flattenChunks b) h.1]
  exact emitI_flatten_rd sty _ id b h.1.2 h.2 ks hks

theorem readTks_flattenI (sty : Style) (b : Block) (h : InlinedOKI b) (ks : List Spec.Tk) :
    ReadTks (emitI sty b) ks → ReadTks (emit sty (flattenChunks b)) ks :=
  readTks_flattenI_for sty b (h.for_style sty) ks

/-- **the result of dependency resolution formats to valid Lua** with the repaired emitter -/
theorem read_sim_inlinedI_for (sty : Style) (b : Block) (h : InlinedOKIFor sty b) (ks : List Spec.Tk)
    (hks : ReadTks (emitI sty b) ks) :
    ∃ f c, Spec.block f (toToks ks) = .ok (c, [eofTok]) ∧ BlockRel (dropSemis (flattenChunks b)) (dropEmpty c) :=
  read_sim sty (flattenChunks b) h.1 ks (readTks_flattenI_for sty b h ks hks)

theorem read_sim_inlinedI (sty : Style) (b : Block) (h : InlinedOKI b) (ks : List Spec.Tk)
    (hks : ReadTks (emitI sty b) ks) :
    ∃ f c, Spec.block f (toToks ks) = .ok (c, [eofTok]) ∧ BlockRel (dropSemis (flattenChunks b)) (dropEmpty c) :=
  read_sim sty (flattenChunks b) h.1 ks (readTks_flattenI sty b h ks hks)

theorem read_sim_inlinedI_parseToks_for (sty : Style) (b : Block) (h : InlinedOKIFor sty b) (ks : List Spec.Tk)
    (hks : ReadTks (emitI sty b) ks) :
    ∃ c, Spec.parseToks (toToks ks) = .ok c ∧ BlockRel (dropSemis (flattenChunks b)) (dropEmpty c) :=
  read_sim_parseToks sty (flattenChunks b) h.1 ks (readTks_flattenI_for sty b h ks hks)

theorem read_sim_inlinedI_parseToks (sty : Style) (b : Block) (h : InlinedOKI b) (ks : List Spec.Tk)
    (hks : ReadTks (emitI sty b) ks) :
    ∃ c, Spec.parseToks (toToks ks) = .ok c ∧ BlockRel (dropSemis (flattenChunks b)) (dropEmpty c) :=
  read_sim_parseToks sty (flattenChunks b) h.1 ks (readTks_flattenI sty b h ks hks)

/-! ## 3. End to end -/

/-- **resolve, then format with the repaired emitter** (per style; `okBlock sty.keepSemicolon false b` says: no empty file is
spliced, or the style does not keep semicolons) -/
theorem resolve_then_emitI_valid_for (fs : FS) (main : Path) (sp : List Path) (fuel : Nat) (b : Block)
    (h : resolveRecursive fs main sp fuel = .ok b) (hk4 : noSplicedReturn b = true) (sty : Style)
    (hok : okBlock sty.keepSemicolon false b = true) (ks : List Spec.Tk) (hks : ReadTks (emitI sty b) ks) :
    ∃ c, Spec.parseToks (toToks ks) = .ok c ∧ BlockRel (dropSemis (flattenChunks b)) (dropEmpty c) := by
  obtain ⟨hc, hq⟩ := resolveRecursive_pre fs main sp fuel b h
  exact read_sim_inlinedI_parseToks_for sty b ⟨printable_flatten hc (q_of_nkBlock b hq hk4), hok⟩ ks hks

/-- **resolve, then format with the repaired emitter**, every style (`okBlock true false b`: no empty file is spliced) -/
theorem resolve_then_emitI_valid (fs : FS) (main : Path) (sp : List Path) (fuel : Nat) (b : Block)
    (h : resolveRecursive fs main sp fuel = .ok b) (hk4 : noSplicedReturn b = true) (hok : okBlock true false b = true) :
    ∀ (sty : Style) (ks : List Spec.Tk), ReadTks (emitI sty b) ks →
      ∃ c, Spec.parseToks (toToks ks) = .ok c ∧ BlockRel (dropSemis (flattenChunks b)) (dropEmpty c) := by
  intro sty ks hks
  exact resolve_then_emitI_valid_for fs main sp fuel b h hk4 sty
    (okBlock_mono true false _ _ (fun _ => rfl) id b hok) ks hks

/-- a style that does not keep semicolons needs nothing beyond "the flattening is printable" -/
theorem inlinedOKIFor_iff_of_noKeep (sty : Style) (hk : sty.keepSemicolon = false) (b : Block) :
    InlinedOKIFor sty b ↔ Printable (flattenChunks b) := by
  unfold InlinedOKIFor
  rw [hk]
  exact ⟨fun h => h.1, fun h => ⟨h, okBlock_ff b⟩⟩

/-- **resolve, then format with the repaired emitter, style without kept semicolons**: K4 aside, no hypothesis -/
theorem resolve_then_emitI_valid_noKeep (fs : FS) (main : Path) (sp : List Path) (fuel : Nat) (b : Block)
    (h : resolveRecursive fs main sp fuel = .ok b) (hk4 : noSplicedReturn b = true) (sty : Style)
    (hk : sty.keepSemicolon = false) (ks : List Spec.Tk) (hks : ReadTks (emitI sty b) ks) :
    ∃ c, Spec.parseToks (toToks ks) = .ok c ∧ BlockRel (dropSemis (flattenChunks b)) (dropEmpty c) :=
  resolve_then_emitI_valid_for fs main sp fuel b h hk4 sty (by rw [hk]; exact okBlock_ff b) ks hks

/-! ## Non-vacuity -/

section Examples

/-- the defect of the old emitter is gone: `f()` followed by a spliced chunk whose first statement `("s"):m()` carries a
comment now reads `f ( ) ; ( "s" ) : m ( )` -/
example : piecesTks false (emitI Props.demoStyle hiddenGuardTree) =
    [.name "f", .sym "(", .sym ")", .sym ";", .sym "(", .str [.ch 115], .sym ")", .sym ":", .name "m", .sym "(", .sym ")"] := by
  decide +kernel

/-- the old emitter, for comparison -/
example : piecesTks false (emit Props.demoStyle hiddenGuardTree) =
    [.name "f", .sym "(", .sym ")", .sym "(", .str [.ch 115], .sym ")", .sym ":", .name "m", .sym "(", .sym ")"] := by
  decide +kernel

example : InlinedOKI hiddenGuardTree := by decide
example : ¬ InlinedOK hiddenGuardTree := by decide

/-- the pieces are not those of the flattening (the `;` stands in front of the comment), the readings are -/
example : emitI Props.demoStyle hiddenGuardTree ≠ emit Props.demoStyle (flattenChunks hiddenGuardTree) := by decide +kernel

/-- the two-level example of `PrintInlined`: same reading as with the old emitter -/
example : InlinedOKI demoInlined := by decide
example : piecesTks false (emitI Props.demoStyle demoInlined) = piecesTks false (emit Props.demoStyle demoInlined) := by
  decide +kernel

/-- clause (b) is still needed: an empty spliced chunk under a style that keeps semicolons -/
example : ¬ InlinedOKIFor { Props.demoStyle with keepSemicolon := true } emptyChunkTree := by decide
example : InlinedOKIFor Props.demoStyle emptyChunkTree := by decide
example : piecesTks false (emitI { Props.demoStyle with keepSemicolon := true } emptyChunkTree) =
    [.name "f", .sym "(", .sym ")", .name "g", .sym "(", .sym ")"] := by decide +kernel

/-- on a printable tree nothing changes -/
example : emitI Props.demoStyle demoTree = emit Props.demoStyle demoTree := emitI_eq_emit _ _ (by decide)

end Examples

end Tumfl.Theory
