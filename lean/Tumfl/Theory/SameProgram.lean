import Tumfl.Theory.SameProgramCongAll
import Tumfl.Theory.SameProgramDenote
import Tumfl.Theory.SameProgramNF
import Tumfl.Theory.ParseAgree
import Tumfl.Theory.ParsePrintable
import Tumfl.Theory.ReadSim
/-!
# The formatted text denotes the same program as the source

1. `accepts_of_tks` (token congruence of the reference parser, `SameProgramCongAll.lean`: `allCong`): if the text `out`
   lexes to tokens whose kinds are `ks ++ [eof]` and the reference parser reads the dummy-offset tokens `toToks ks` as the
   block `c`, then the reference accepts `out` with the tree `c`.
2. `blockRel_dropSemis`, `blockRel_normS_eq`, `blockRel_normS_eq'` (`SameProgramRel.lean`, `SameProgramDenote.lean`): the
   model tree determines the reference tree up to `normS` (parentheses, empty statements, numeral spelling);
   `normS_normal`, `normS_of_normal`, `normS_inj_on_normal` (`SameProgramNF.lean`): and up to nothing else.
3. `same_program`: the composition with `parse_sound`, `parseText_printable` and `read_sim`.
-/
namespace Tumfl.Theory
open Tumfl.Model

/-! ## 1. acceptance from the token kinds -/

theorem toToks_tks (ks : List Spec.Tk) : (toToks ks).map (·.tk) = ks ++ [.eof] := by
  simp only [toToks, List.map_append, List.map_map, List.map_cons, List.map_nil, eofTok, mkTok]
  congr 1
  induction ks with
  | nil => rfl
  | cons k ks ih => simp only [List.map_cons, ih]; rfl

/-- **acceptance depends on the token kinds only** -/
theorem accepts_of_tks {out : List Char} {ts : List Spec.Tok} {ks : List Spec.Tk} {f : Nat} {c : Spec.Block}
    (hl : Spec.lex out = .ok ts) (hk : ts.map (·.tk) = ks ++ [.eof])
    (hb : Spec.block f (toToks ks) = .ok (c, [eofTok])) : Spec.Accepts out c := by
  have hs : SameTks (toToks ks) ts := by
    unfold SameTks
    rw [toToks_tks, hk]
  obtain ⟨rest2, hb2, hr⟩ := (allCong f).block hs hb
  refine ⟨ts, f, rest2, hl, hb2, ?_⟩
  unfold SameTks at hr
  cases rest2 with
  | nil => rfl
  | cons t r =>
    simp only [List.map_cons, List.map_nil, List.cons.injEq] at hr
    simp only [Spec.pk, ← hr.1]
    rfl

/-! ## 2. the tree relation determines the reference tree up to normalisation -/

/-- the combination used below: a tree related to `b`, and a tree related to `b` after the erasure of empty statements on
both sides -/
theorem blockRel_normS_eq' {b : Model.Block} {c c' : Spec.Block} (h : BlockRel b c)
    (h' : BlockRel (dropSemis b) (dropEmpty c')) : normS c = normS c' := by
  rw [← normS_dropEmpty c, ← normS_dropEmpty c']
  exact blockRel_normS_eq (blockRel_dropSemis h) h'

/-! ## 3. the composed statement -/

/-- **the formatted text denotes the same program as the source**: if the model parser reads `src` as `b`, and the final
text `out` lexes (reference lexer) to a reading `ks` of the pieces emitted for `b` (hypotheses `hr`, `hl`, `hk`: the
layout theorem, proved elsewhere), then the reference accepts both texts, with trees that are equal up to parentheses,
empty statements and the spelling of numerals (`normS`). -/
theorem same_program {src out : List Char} {b : Model.Block} {hs : List Hint} {sty : Style} {ks : List Spec.Tk}
    {ts : List Spec.Tok} (hcr : NoCR src) (hp : parseText src = .ok (b, hs)) (hr : ReadTks (emit sty b) ks)
    (hl : Spec.lex out = .ok ts) (hk : ts.map (·.tk) = ks ++ [.eof]) :
    ∃ c c', Spec.Accepts src c ∧ Spec.Accepts out c' ∧ normS c = normS c' := by
  obtain ⟨c, hacc, hrel⟩ := parse_sound src hcr b hs hp
  obtain ⟨f, c', hb, hrel'⟩ := read_sim sty b (parseText_printable src b hs hp) ks hr
  exact ⟨c, c', hacc, accepts_of_tks hl hk hb, blockRel_normS_eq' hrel hrel'⟩

/-- the trees of `same_program` are the unique trees the reference assigns to the two texts (`accepts_det`), so the
statement can be read with `∀`: whatever the reference reads from `src` and from `out` agrees up to `normS` -/
theorem same_program_all {src out : List Char} {b : Model.Block} {hs : List Hint} {sty : Style} {ks : List Spec.Tk}
    {ts : List Spec.Tok} (hcr : NoCR src) (hp : parseText src = .ok (b, hs)) (hr : ReadTks (emit sty b) ks)
    (hl : Spec.lex out = .ok ts) (hk : ts.map (·.tk) = ks ++ [.eof]) {c c' : Spec.Block}
    (hc : Spec.Accepts src c) (hc' : Spec.Accepts out c') : normS c = normS c' := by
  obtain ⟨d, d', hd, hd', he⟩ := same_program hcr hp hr hl hk
  rw [accepts_det hc hd, accepts_det hc' hd']
  exact he

/-- both trees normalise to the tree the model tree denotes -/
theorem same_program_denote {src out : List Char} {b : Model.Block} {hs : List Hint} {sty : Style} {ks : List Spec.Tk}
    {ts : List Spec.Tok} (hcr : NoCR src) (hp : parseText src = .ok (b, hs)) (hr : ReadTks (emit sty b) ks)
    (hl : Spec.lex out = .ok ts) (hk : ts.map (·.tk) = ks ++ [.eof]) :
    ∃ c c', Spec.Accepts src c ∧ Spec.Accepts out c' ∧ normS c = denote b ∧ normS c' = denote b := by
  obtain ⟨c, hacc, hrel⟩ := parse_sound src hcr b hs hp
  obtain ⟨f, c', hb, hrel'⟩ := read_sim sty b (parseText_printable src b hs hp) ks hr
  refine ⟨c, c', hacc, accepts_of_tks hl hk hb, blockRel_normS hrel, ?_⟩
  rw [← blockRel_normS_eq' hrel hrel']
  exact blockRel_normS hrel

end Tumfl.Theory
