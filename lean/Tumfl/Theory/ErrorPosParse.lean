import Tumfl.Theory.ErrorPosCore
/-!
# Every parse function keeps the position invariant and raises only positioned errors

By one induction on the fuel (the conjunction `AllPos t f` over all 21 parse functions), in the calculus of
`ErrorPosCore.lean` (same script as `HintOrder.lean`): every parse function keeps `PosSt t`, every lexer error it
lets through carries a position inside `t`, and every parser error it raises carries a token positioned inside
`t` (all 11 `perror` sites and `assertTok` pass the *current* token).
-/
namespace Tumfl.Theory
open Tumfl.Model Tumfl.Spec

variable {t : List Char}

set_option linter.unusedVariables false

/-- the contracts of all parse functions at fuel `f` -/
structure AllPos (t : List Char) (f : Nat) : Prop where
  parseBlock : ∀ (tok : Token) (b : Bool), ESpec t (Model.parseBlock f tok b)
  parseStatements : ESpec t (Model.parseStatements f)
  parseStatement : ESpec t (Model.parseStatement f)
  parseDotted : ESpec t (Model.parseDotted f)
  parseAttNames : ESpec t (Model.parseAttNames f)
  parseIf : ESpec t (Model.parseIf f)
  parseElseIfs : ESpec t (Model.parseElseIfs f)
  parseFuncBody : ∀ (tok : Token), ESpec t (Model.parseFuncBody f tok)
  parseNameList : ∀ (first : Option Expr) (lv : Bool), ESpec t (Model.parseNameList f first lv)
  parseNames : ∀ (lv : Bool), ESpec t (Model.parseNames f lv)
  parseExpList : ESpec t (Model.parseExpList f)
  parseVarStmt : ESpec t (Model.parseVarStmt f)
  parseMoreVars : ESpec t (Model.parseMoreVars f)
  parseExp : ESpec t (Model.parseExp f)
  parseAtom : ESpec t (Model.parseAtom f)
  parseVar : ∀ (b : Bool), ESpec t (Model.parseVar f b)
  parseVarTerminal : ∀ (base : Expr), ESpec t (Model.parseVarTerminal f base)
  parseTable : ESpec t (Model.parseTable f)
  parseFields : ESpec t (Model.parseFields f)
  parseField : ESpec t (Model.parseField f)
  parseArgs : ESpec t (Model.parseArgs f)

macro "guard_ew" : tactic => `(tactic| with_reducible show EW _ _ _ _)

/-- a call of a function with an `ESpec` -/
syntax "ew_spec " term : tactic
macro_rules
  | `(tactic| ew_spec $t) => `(tactic| (apply ESpec.call $t; assumption; intro _ _ _))

/-- one syntax-directed step -/
syntax "ew_step " ident : tactic
macro_rules
  | `(tactic| ew_step $ih) => `(tactic| (guard_ew; with_reducible first
    | apply EW_pure
    | apply EW_curTok
    | apply EW_nxtTok
    | apply EW_curIs
    | (apply EW_perror_cur; assumption)
    | apply EW_pyerr
    | ew_spec (ESpec_eat _)
    | ew_spec ESpec_eatName
    | ew_spec (ESpec_assertTok _)
    | ew_spec (ESpec_addHint _ _)
    | ew_spec ESpec_removeHint
    | ew_spec (ESpec_switchHint _)
    | ew_spec (($ih).parseBlock _ _)
    | ew_spec ($ih).parseStatements
    | ew_spec ($ih).parseStatement
    | ew_spec ($ih).parseDotted
    | ew_spec ($ih).parseAttNames
    | ew_spec ($ih).parseIf
    | ew_spec ($ih).parseElseIfs
    | ew_spec (($ih).parseFuncBody _)
    | ew_spec (($ih).parseNameList _ _)
    | ew_spec (($ih).parseNames _)
    | ew_spec ($ih).parseExpList
    | ew_spec ($ih).parseVarStmt
    | ew_spec ($ih).parseMoreVars
    | ew_spec ($ih).parseExp
    | ew_spec ($ih).parseAtom
    | ew_spec (($ih).parseVar _)
    | ew_spec (($ih).parseVarTerminal _)
    | ew_spec ($ih).parseTable
    | ew_spec ($ih).parseFields
    | ew_spec ($ih).parseField
    | ew_spec ($ih).parseArgs
    | apply EW_bind
    | apply EW_map
    | (apply EW_ite <;> intro _)
    | split))
macro "ew " ih:ident : tactic => `(tactic| repeat' ew_step $ih)

theorem parseBlock_pos_step {f : Nat} (ih : AllPos t f) (tok : Token) (b : Bool) : ESpec t (Model.parseBlock (f + 1) tok b) := by
  intro s hs
  rw [Model.parseBlock]
  ew ih
  all_goals assumption

theorem parseStatements_pos_step {f : Nat} (ih : AllPos t f) : ESpec t (Model.parseStatements (f + 1)) := by
  intro s hs
  rw [Model.parseStatements]
  ew ih
  all_goals assumption

theorem parseStatement_pos_step {f : Nat} (ih : AllPos t f) : ESpec t (Model.parseStatement (f + 1)) := by
  intro s hs
  rw [Model.parseStatement]
  ew ih
  all_goals assumption

theorem parseDotted_pos_step {f : Nat} (ih : AllPos t f) : ESpec t (Model.parseDotted (f + 1)) := by
  intro s hs
  rw [Model.parseDotted]
  ew ih
  all_goals assumption

theorem parseAttNames_pos_step {f : Nat} (ih : AllPos t f) : ESpec t (Model.parseAttNames (f + 1)) := by
  intro s hs
  rw [Model.parseAttNames]
  ew ih
  all_goals assumption

theorem parseIf_pos_step {f : Nat} (ih : AllPos t f) : ESpec t (Model.parseIf (f + 1)) := by
  intro s hs
  rw [Model.parseIf]
  ew ih
  all_goals assumption

theorem parseElseIfs_pos_step {f : Nat} (ih : AllPos t f) : ESpec t (Model.parseElseIfs (f + 1)) := by
  intro s hs
  rw [Model.parseElseIfs]
  ew ih
  all_goals assumption

theorem parseFuncBody_pos_step {f : Nat} (ih : AllPos t f) (tok : Token) : ESpec t (Model.parseFuncBody (f + 1) tok) := by
  intro s hs
  rw [Model.parseFuncBody]
  ew ih
  all_goals assumption

theorem parseNameList_pos_step {f : Nat} (ih : AllPos t f) (first : Option Expr) (lv : Bool) : ESpec t (Model.parseNameList (f + 1) first lv) := by
  intro s hs
  cases first with
  | none =>
    rw [Model.parseNameList]
    ew ih
    all_goals assumption
  | some n =>
    rw [Model.parseNameList]
    ew ih
    all_goals assumption

theorem parseNames_pos_step {f : Nat} (ih : AllPos t f) (lv : Bool) : ESpec t (Model.parseNames (f + 1) lv) := by
  intro s hs
  rw [Model.parseNames]
  ew ih
  all_goals assumption

theorem parseExpList_pos_step {f : Nat} (ih : AllPos t f) : ESpec t (Model.parseExpList (f + 1)) := by
  intro s hs
  rw [Model.parseExpList]
  ew ih
  all_goals assumption

theorem parseVarStmt_pos_step {f : Nat} (ih : AllPos t f) : ESpec t (Model.parseVarStmt (f + 1)) := by
  intro s hs
  rw [Model.parseVarStmt]
  ew ih
  all_goals assumption

theorem parseMoreVars_pos_step {f : Nat} (ih : AllPos t f) : ESpec t (Model.parseMoreVars (f + 1)) := by
  intro s hs
  rw [Model.parseMoreVars]
  ew ih
  all_goals assumption

theorem parseAtom_pos_step {f : Nat} (ih : AllPos t f) : ESpec t (Model.parseAtom (f + 1)) := by
  intro s hs
  rw [Model.parseAtom]
  ew ih
  all_goals assumption

theorem parseVar_pos_step {f : Nat} (ih : AllPos t f) (b : Bool) : ESpec t (Model.parseVar (f + 1) b) := by
  intro s hs
  rw [Model.parseVar]
  ew ih
  all_goals assumption

theorem parseVarTerminal_pos_step {f : Nat} (ih : AllPos t f) (base : Expr) : ESpec t (Model.parseVarTerminal (f + 1) base) := by
  intro s hs
  rw [Model.parseVarTerminal]
  ew ih
  all_goals assumption

theorem parseTable_pos_step {f : Nat} (ih : AllPos t f) : ESpec t (Model.parseTable (f + 1)) := by
  intro s hs
  rw [Model.parseTable]
  ew ih
  all_goals assumption

theorem parseFields_pos_step {f : Nat} (ih : AllPos t f) : ESpec t (Model.parseFields (f + 1)) := by
  intro s hs
  rw [Model.parseFields]
  ew ih
  all_goals assumption

theorem parseField_pos_step {f : Nat} (ih : AllPos t f) : ESpec t (Model.parseField (f + 1)) := by
  intro s hs
  rw [Model.parseField]
  ew ih
  all_goals assumption

theorem parseArgs_pos_step {f : Nat} (ih : AllPos t f) : ESpec t (Model.parseArgs (f + 1)) := by
  intro s hs
  rw [Model.parseArgs]
  ew ih
  all_goals assumption

/-! ### the expression ladder -/

theorem keepsEat_modelSig_pos (atom : PM Expr) : KeepsEat (PosSt t) (ErrIn t) (modelSig atom).eat := by
  intro s hs
  have h := (ESpec_eatRaw s hs).run
  simp only [modelSig]
  cases he : eatRaw s with
  | error e => rw [he] at h; exact h
  | ok r => obtain ⟨a, s1⟩ := r; rw [he] at h; exact h

theorem keepsW_of_ESpec {α : Type} {m : PM α} (h : ESpec t m) : KeepsW (PosSt t) (fun _ => True) (ErrIn t) m := by
  intro s hs
  have h1 := (h s hs).run
  unfold ResW
  cases hm : m s with
  | error e => rw [hm] at h1; exact h1
  | ok r => obtain ⟨a, s1⟩ := r; rw [hm] at h1; exact ⟨h1, trivial⟩

theorem ESpec_of_keepsW {α : Type} {m : PM α} (h : KeepsW (PosSt t) (fun _ => True) (ErrIn t) m) : ESpec t m := by
  intro s hs
  have h1 := h s hs
  unfold ResW at h1
  constructor
  cases hm : m s with
  | error e => rw [hm] at h1; exact h1
  | ok r => obtain ⟨a, s1⟩ := r; rw [hm] at h1; exact h1.1

theorem parseExp_pos_step {f : Nat} (ih : AllPos t f) : ESpec t (Model.parseExp (f + 1)) := by
  rw [Model.parseExp]
  apply ESpec_of_keepsW
  apply ladderExp_keepsW
  · exact trivial
  · exact keepsEat_modelSig_pos _
  · intros; trivial
  · intros; trivial
  · exact keepsW_of_ESpec ih.parseAtom

/-! ### the induction -/

theorem allPos_zero : AllPos t 0 := by
  constructor
  · intros; rw [Model.parseBlock]; exact ESpec_fuelErrP
  · intros; rw [Model.parseStatements]; exact ESpec_fuelErrP
  · intros; rw [Model.parseStatement]; exact ESpec_fuelErrP
  · intros; rw [Model.parseDotted]; exact ESpec_fuelErrP
  · intros; rw [Model.parseAttNames]; exact ESpec_fuelErrP
  · intros; rw [Model.parseIf]; exact ESpec_fuelErrP
  · intros; rw [Model.parseElseIfs]; exact ESpec_fuelErrP
  · intros; rw [Model.parseFuncBody]; exact ESpec_fuelErrP
  · intros; rw [Model.parseNameList]; exact ESpec_fuelErrP
  · intros; rw [Model.parseNames]; exact ESpec_fuelErrP
  · intros; rw [Model.parseExpList]; exact ESpec_fuelErrP
  · intros; rw [Model.parseVarStmt]; exact ESpec_fuelErrP
  · intros; rw [Model.parseMoreVars]; exact ESpec_fuelErrP
  · intros; rw [Model.parseExp]; exact ESpec_fuelErrP
  · intros; rw [Model.parseAtom]; exact ESpec_fuelErrP
  · intros; rw [Model.parseVar]; exact ESpec_fuelErrP
  · intros; rw [Model.parseVarTerminal]; exact ESpec_fuelErrP
  · intros; rw [Model.parseTable]; exact ESpec_fuelErrP
  · intros; rw [Model.parseFields]; exact ESpec_fuelErrP
  · intros; rw [Model.parseField]; exact ESpec_fuelErrP
  · intros; rw [Model.parseArgs]; exact ESpec_fuelErrP

theorem allPos_succ {f : Nat} (ih : AllPos t f) : AllPos t (f + 1) where
  parseBlock := parseBlock_pos_step ih
  parseStatements := parseStatements_pos_step ih
  parseStatement := parseStatement_pos_step ih
  parseDotted := parseDotted_pos_step ih
  parseAttNames := parseAttNames_pos_step ih
  parseIf := parseIf_pos_step ih
  parseElseIfs := parseElseIfs_pos_step ih
  parseFuncBody := parseFuncBody_pos_step ih
  parseNameList := parseNameList_pos_step ih
  parseNames := parseNames_pos_step ih
  parseExpList := parseExpList_pos_step ih
  parseVarStmt := parseVarStmt_pos_step ih
  parseMoreVars := parseMoreVars_pos_step ih
  parseExp := parseExp_pos_step ih
  parseAtom := parseAtom_pos_step ih
  parseVar := parseVar_pos_step ih
  parseVarTerminal := parseVarTerminal_pos_step ih
  parseTable := parseTable_pos_step ih
  parseFields := parseFields_pos_step ih
  parseField := parseField_pos_step ih
  parseArgs := parseArgs_pos_step ih

/-- every parse function, at every fuel, keeps the ordering invariant and raises only parser errors whose hint
chain is sorted and does not pass the offending token -/
theorem allPos (t : List Char) (f : Nat) : AllPos t f := by
  induction f with
  | zero => exact allPos_zero
  | succ f ih => exact allPos_succ ih


/-! ## The chunk and the whole text -/

theorem parseChunk_ESpec (fuel : Nat) : ESpec t (parseChunk fuel) := by
  have ih := allPos t fuel
  intro s hs
  unfold parseChunk
  ew ih
  all_goals assumption

/-- the computation run by `parseText` after `initParser` -/
theorem parseText_body_ESpec (n : Nat) :
    ESpec t (do let b ← parseChunk n; assertTok .EOF; pure b : PM Block) := by
  intro s hs
  refine EW_bind (ESpec.call (parseChunk_ESpec n) hs ?_)
  intro b s1 hs1
  refine EW_bind (ESpec.call (ESpec_assertTok _) hs1 ?_)
  intro _ s2 hs2
  exact EW_pure hs2

/-- every error of `parseText` satisfies the error predicate -/
theorem parseText_errIn (src : List Char) (e : PyErr) : parseText src = .error e → ErrIn src e := by
  intro h
  unfold parseText at h
  split at h
  · next e0 h0 => cases h; exact initParser_errIn h0
  · next s0 h0 =>
    have hs0 := initParser_posSt h0
    split at h
    · next e1 h1 =>
      cases h
      exact EW_err (parseText_body_ESpec _ s0 hs0) h1
    · cases h


end Tumfl.Theory
