import Tumfl.Theory.PrintSimBlock
/-!
# Statement lists and blocks, continued: the `;` guard is sufficient; blocks; the root
-/
namespace Tumfl.Theory
open Tumfl.Model Tumfl.Spec

variable {semi : Bool} {sty : Style}

/-! ## the first token of a printed statement -/

/-- what a printed statement starts with: nothing at all (a dropped `Semicolon`), or a token at which `statlist` starts a
statement and which is a safe follower of the previous statement - unless it is the bare `(` that `visitStmts` guards -/
def StmtHead (semi : Bool) (sty : Style) (s : Stmt) : Prop :=
  (visitStmt sty s = [] ∧ droppedSemi sty s = true) ∨
  (droppedSemi sty s = false ∧ ∃ k tks, TK semi (visitStmt sty s) = mkTok k :: tks ∧ startTk k = true ∧
    (guardNeeded false (visitStmt sty s) = true ∨ safeTk k = true))

theorem StmtHead_of_HeadOK {s : Stmt} (hd : droppedSemi sty s = false) (h : HeadOK (visitStmt sty s)) :
    StmtHead semi sty s := by
  right
  refine ⟨hd, ?_⟩
  rcases h with ⟨r, hr⟩ | ⟨n, r, hr, hn⟩
  · exact ⟨.sym "(", TK semi r, by rw [hr]; exact TK_lpar r, rfl, .inl (by rw [hr]; rfl)⟩
  · exact ⟨.name (String.ofList n), TK semi r, by rw [hr]; exact TK_ident hn r, rfl, .inr rfl⟩

theorem StmtHead_kw {s : Stmt} {k : Tk} {tks : List Spec.Tok} (hd : droppedSemi sty s = false)
    (h : TK semi (visitStmt sty s) = mkTok k :: tks) (h1 : startTk k = true) (h2 : safeTk k = true) : StmtHead semi sty s :=
  .inr ⟨hd, k, tks, h, h1, .inr h2⟩

theorem stmtHead : (s : Stmt) → pStmt s = true → StmtHead semi sty s
  | .assign _ ts es, h => by
    simp only [pStmt, Bool.and_eq_true, Bool.not_eq_true', List.isEmpty_eq_false_iff] at h
    obtain ⟨⟨⟨⟨hne, hts⟩, hp⟩, _⟩, _⟩ := h
    cases ts with
    | nil => exact absurd rfl hne
    | cons e r =>
      simp only [List.all_cons, Bool.and_eq_true] at hts
      simp only [pArgs, Bool.and_eq_true] at hp
      refine StmtHead_of_HeadOK rfl ?_
      have : HeadOK (fmtVar e (visitExpr sty e)) :=
        HeadOK_fmtVar sty e (fun hv => varHead sty e hp.1 hv)
      simp only [visitStmt, List.append_assoc]
      cases r with
      | nil => simp only [visitTargets]; exact HeadOK_append _ this
      | cons e2 r => rw [visitTargets, List.append_assoc]; exact HeadOK_append _ this
  | .block b, h => by
    simp only [pStmt, Bool.and_eq_true, Bool.not_eq_true'] at h
    exact StmtHead_kw rfl (by simp only [visitStmt]; exact TK_blk sty b h.1) rfl rfl
  | .brk _, _ => StmtHead_kw (k := .kw "break") (tks := []) rfl (by simp [visitStmt]) rfl rfl
  | .call _ f args, h => by
    simp only [pStmt, Bool.and_eq_true] at h
    refine StmtHead_of_HeadOK rfl ?_
    simp only [visitStmt]
    exact HeadOK_append _ (HeadOK_fmtVar sty f (fun hv => varHead sty f h.1 hv))
  | .funcDef _ names m ps body, _ => by
    cases m <;>
    exact StmtHead_kw (k := .kw "function") rfl
      (by simp only [visitStmt, List.append_assoc, List.cons_append, TK_sep_newline, TK_function_kw]; rfl) rfl rfl
  | .goto _ l, _ => StmtHead_kw (k := .kw "goto") rfl (by simp only [visitStmt, List.cons_append, TK_goto_kw]; rfl) rfl rfl
  | .label _ n, _ => StmtHead_kw (k := .sym "::") rfl (by simp only [visitStmt, TK_dcolon]; rfl) rfl rfl
  | .iff _ test tr fl, _ =>
    StmtHead_kw (k := .kw "if") rfl (by simp only [visitStmt, List.append_assoc, List.cons_append, TK_if_kw]; rfl) rfl rfl
  | .iterFor _ ns es body, _ =>
    StmtHead_kw (k := .kw "for") rfl (by simp only [visitStmt, List.append_assoc, List.cons_append, TK_for_kw]; rfl) rfl rfl
  | .localAssign _ names es, _ => by
    rcases es with _ | _ | _ <;>
    exact StmtHead_kw (k := .kw "local") rfl (by simp only [visitStmt, List.append_assoc, List.cons_append, TK_local_kw]; rfl) rfl rfl
  | .localFunc _ n ps body, _ =>
    StmtHead_kw (k := .kw "local") rfl
      (by simp only [visitStmt, List.append_assoc, List.cons_append, TK_sep_newline, TK_local_kw]; rfl) rfl rfl
  | .method _ f m args, h => by
    simp only [pStmt, Bool.and_eq_true] at h
    refine StmtHead_of_HeadOK rfl ?_
    simp only [visitStmt, List.append_assoc]
    exact HeadOK_append _ (HeadOK_fmtVar sty f (fun hv => varHead sty f h.1.1 hv))
  | .numFor _ v a b step body, _ => by
    cases step <;>
    exact StmtHead_kw (k := .kw "for") rfl (by simp only [visitStmt, List.append_assoc, List.cons_append, TK_for_kw]; rfl) rfl rfl
  | .repeat _ c body, _ =>
    StmtHead_kw (k := .kw "repeat") rfl (by simp only [visitStmt, List.append_assoc, List.cons_append, TK_repeat_kw]; rfl) rfl rfl
  | .semi _, _ => by
    by_cases hk : sty.keepSemicolon = true
    · exact StmtHead_kw (k := .sym ";") (tks := []) (by simp [droppedSemi, hk]) (by simp [visitStmt, hk]) rfl rfl
    · exact .inl ⟨by simp [visitStmt, hk], by simp [droppedSemi, isSemi, hk]⟩
  | .whl _ c body, _ =>
    StmtHead_kw (k := .kw "while") rfl (by simp only [visitStmt, List.append_assoc, List.cons_append, TK_while_kw]; rfl) rfl rfl

/-! ## the guard is sufficient -/

theorem safe_replicate (n : Nat) (ts : List Spec.Tok) (h : safeTk (pk ts) = true) :
    safeTk (pk (List.replicate n (mkTok (.sym ";")) ++ ts)) = true := by
  cases n with
  | zero => simpa using h
  | succ n => rfl

theorem headSafe : (ss : List Stmt) → pStmts ss = true → ∀ ts, safeTk (pk ts) = true →
    safeTk (pk (TK semi (initStmts sty false ss) ++ ts)) = true
  | [], _, ts, h => by simpa [initStmts] using h
  | s :: rest, hp, ts, h => by
    simp only [pStmts, Bool.and_eq_true] at hp
    have ih := headSafe rest hp.2 ts h
    rw [initStmts]
    simp only [TK_append, List.append_assoc, TK_stmtCommentPieces, TK_stmtGuard]
    apply safe_replicate
    by_cases hg : guardNeeded false (visitStmt sty s) = true
    · simp [hg]; rfl
    · simp only [hg, if_false, List.nil_append]
      have htail : safeTk (pk (TK semi (if rest.isEmpty = true then [] else S .statement :: initStmts sty false rest) ++ ts)) = true := by
        cases rest with
        | nil => simpa using h
        | cons s2 r =>
          simp only [List.isEmpty_cons, Bool.false_eq_true, if_false, TK_sep_statement, List.append_assoc]
          rw [semiT_eq]
          exact safe_replicate _ _ ih
      rcases stmtHead (semi := semi) (sty := sty) s hp.1 with ⟨h0, _⟩ | ⟨_, k, tks, hk, _, hgs⟩
      · rw [h0]; simpa using htail
      · rcases hgs with hgs | hgs
        · exact absurd hgs hg
        · rw [hk]; simpa using hgs

/-! ## statement lists -/

theorem stmts_step : (ss : List Stmt) → (∀ s ∈ ss, pStmt s = true ∧ StmtProp semi sty s) →
    ∀ (first : Bool) (k : Nat) (ts ts' : List Spec.Tok) (ss' : List Stat) (r : Option (List Exp)),
      SLCont k ts ss' r ts' → safeTk (pk ts) = true →
      SLCont (nSs semi sty first ss k) (TK semi (initStmts sty first ss) ++ ts) (refStmts semi sty first ss ++ ss') r ts'
  | [], _, first, k, ts, ts', ss', r, hc, _ => by simpa [initStmts, refStmts, nSs] using hc
  | s :: rest, hall, first, k, ts, ts', ss', r, hc, hsafe => by
    have hps : pStmts rest = true := by
      have : ∀ l : List Stmt, (∀ x ∈ l, pStmt x = true) → pStmts l = true := by
        intro l; induction l with
        | nil => intro _; rfl
        | cons a l ih => intro h; simp [pStmts, h a (by simp), ih (fun x hx => h x (by simp [hx]))]
      exact this rest (fun x hx => (hall x (by simp [hx])).1)
    have ih := stmts_step rest (fun x hx => hall x (by simp [hx])) false k ts ts' ss' r hc hsafe
    obtain ⟨hp, hsp⟩ := hall s (by simp)
    -- the tail: separator and the remaining statements
    have c1 : SLCont (nSs semi sty false rest k + semiN semi)
        (TK semi (if rest.isEmpty = true then [] else S .statement :: initStmts sty false rest) ++ ts)
        ((if rest.isEmpty = true then [] else emp (semiN semi)) ++ refStmts semi sty false rest ++ ss') r ts' := by
      cases rest with
      | nil => exact SLCont.mono (by simpa [refStmts, nSs] using hc) (by simp [nSs])
      | cons s2 r2 =>
        simp only [List.isEmpty_cons, Bool.false_eq_true, if_false, TK_sep_statement, List.append_assoc]
        exact SL_semiT ih semi
    have s1 : safeTk (pk (TK semi (if rest.isEmpty = true then [] else S .statement :: initStmts sty false rest) ++ ts)) = true := by
      cases rest with
      | nil => simpa using hsafe
      | cons s2 r2 =>
        simp only [List.isEmpty_cons, Bool.false_eq_true, if_false, TK_sep_statement, List.append_assoc]
        rw [semiT_eq]
        exact safe_replicate _ _ (headSafe (s2 :: r2) hps ts hsafe)
    -- the statement itself
    have c2 : SLCont (if droppedSemi sty s then nSs semi sty false rest k + semiN semi
          else max (nS semi sty s) (nSs semi sty false rest k + 2 * semiN semi) + 1)
        (TK semi (visitStmt sty s) ++
          (TK semi (if rest.isEmpty = true then [] else S .statement :: initStmts sty false rest) ++ ts))
        ((if droppedSemi sty s then [] else refStmt semi sty s :: (if hasTrail s then emp (semiN semi) else [])) ++
          ((if rest.isEmpty = true then [] else emp (semiN semi)) ++ refStmts semi sty false rest ++ ss')) r ts' := by
      rcases stmtHead (semi := semi) (sty := sty) s hp with ⟨h0, hd⟩ | ⟨hd, k0, tks, hk, hst, _⟩
      · simp only [hd, if_true, h0, TK_nil, List.nil_append]
        exact c1
      · simp only [hd, Bool.false_eq_true, if_false]
        have c1' : SLCont (nSs semi sty false rest k + 2 * semiN semi)
            (trailT semi s ++ (TK semi (if rest.isEmpty = true then [] else S .statement :: initStmts sty false rest) ++ ts))
            ((if hasTrail s then emp (semiN semi) else []) ++
              ((if rest.isEmpty = true then [] else emp (semiN semi)) ++ refStmts semi sty false rest ++ ss')) r ts' := by
          unfold trailT
          by_cases ht : hasTrail s = true
          · simp only [ht, if_true]
            exact SLCont.mono (SL_semiT c1 semi) (by omega)
          · simp only [ht, if_false, List.nil_append]
            exact SLCont.mono c1 (by omega)
        have := SL_stmt (n := nS semi sty s) (c := refStmt semi sty s)
          (ts := TK semi (visitStmt sty s) ++
            (TK semi (if rest.isEmpty = true then [] else S .statement :: initStmts sty false rest) ++ ts))
          (by rw [hk]; simpa using hst)
          (fun F hF => hsp hd F _ hF s1) c1'
        simpa using this
    -- guard and comments
    rw [initStmts, refStmts, nSs]
    simp only [TK_append, List.append_assoc, TK_stmtCommentPieces, TK_stmtGuard]
    have c3 : SLCont ((if guardNeeded first (visitStmt sty s) then 1 else 0) +
          (if droppedSemi sty s then nSs semi sty false rest k + semiN semi
            else max (nS semi sty s) (nSs semi sty false rest k + 2 * semiN semi) + 1))
        ((if guardNeeded first (visitStmt sty s) = true then [mkTok (.sym ";")] else []) ++
          (TK semi (visitStmt sty s) ++
            (TK semi (if rest.isEmpty = true then [] else S .statement :: initStmts sty false rest) ++ ts)))
        ((if guardNeeded first (visitStmt sty s) = true then [Stat.empty] else []) ++
          ((if droppedSemi sty s then [] else refStmt semi sty s :: (if hasTrail s then emp (semiN semi) else [])) ++
          ((if rest.isEmpty = true then [] else emp (semiN semi)) ++ refStmts semi sty false rest ++ ss'))) r ts' := by
      by_cases hg : guardNeeded first (visitStmt sty s) = true
      · simp only [hg, if_true]
        exact SLCont.mono (SL_semis c2 1) (by omega)
      · have hg' : guardNeeded first (visitStmt sty s) = false := by simpa using hg
        simp only [hg', Bool.false_eq_true, if_false, List.nil_append, Nat.zero_add]
        exact c2
    have c4 := SL_semis c3 (cmtN semi sty s)
    refine SLCont.mono (by simpa [List.append_assoc] using c4) (by omega)

end Tumfl.Theory
