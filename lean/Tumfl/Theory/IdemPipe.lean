import Tumfl.Theory.IdemDefs
import Tumfl.Theory.FormatTextGlue
import Tumfl.Theory.FormatTextRO
/-!
# C15: the formatting pipeline does not see the Statement separators that `cn true` deletes

* `rs_cn` (core): `removeSepsFrom` on a list and on its `cn`-image, from related reversed prefixes;
* `removeSeparators_stmt_cn` / `removeSeparators_cn_other`: the same for `removeSeparators` (index 0 is exempt);
* `ro_head_stmt`: `removeOrphaned` drops the Statement separator directly behind the header line;
* `formatPieces_cn`: the whole pipeline.
-/
namespace Tumfl.Theory
open Tumfl Tumfl.Model

/-! ## the decision of `remove_separators` on one soft separator -/

/-- a separator, or the dummy `/` -/
def SepOrSlash (p : Piece) : Prop := (∃ k, p = .sep k) ∨ p = P "/"

/-- the invariant between the reversed prefix of the original list and the one of its `cn`-image, for the `cn` flag `d` -/
def CnInv (d : Bool) (rpY rpX : Pieces) : Prop :=
  (d = false → searchBwd rpY = searchBwd rpX) ∧
  (d = true → SepOrSlash (searchBwd rpY) ∧ SepOrSlash (searchBwd rpX))

/-- the decision on a Space / Statement / Block separator `x` with reversed prefix `rp` and processed suffix `suf` -/
def softDec2 (x : Piece) (rp suf : Pieces) (next : Piece) : R Pieces :=
  match searchBwd rp, next with
  | .str a, .str b => do
    let req ← sepRequired a b
    if req then .ok (x :: suf) else .ok suf
  | _, _ => .ok suf

def softDec (x : Piece) (rp suf : Pieces) : R Pieces := searchFwd suf >>= softDec2 x rp suf

theorem rs_soft {x : Piece} (hx : keepRS x = false) (rp xs : Pieces) :
    removeSepsFrom rp (x :: xs) = removeSepsFrom (x :: rp) xs >>= softDec x rp := by
  rcases keepRS_eq_false.mp hx with rfl | rfl | rfl <;> rw [removeSepsFrom] <;> rfl

theorem rs_hard {x : Piece} (hx : keepRS x = true) (rp xs : Pieces) :
    removeSepsFrom rp (x :: xs) = removeSepsFrom (x :: rp) xs >>= fun suf => .ok (x :: suf) := by
  cases x with
  | str s => rw [removeSepsFrom]
  | sep k => cases k <;> first | (rw [removeSepsFrom]; done) | (exact absurd hx (by decide))

theorem searchFwd_snoc : ∀ body : Pieces, ∃ q, searchFwd (body ++ [P "/"]) = .ok q ∧ q ∈ body ++ [P "/"]
  | [] => ⟨P "/", by simp [searchFwd, isIndentTok, P], by simp⟩
  | t :: r => by
    obtain ⟨q, h1, h2⟩ := searchFwd_snoc r
    rw [List.cons_append, searchFwd]
    split
    · exact ⟨q, h1, List.mem_cons_of_mem _ h2⟩
    · exact ⟨t, rfl, by simp⟩

theorem sepRequired_slash_ok {b : List Char} (hb : b ≠ []) : sepRequired "/".toList b = .ok false := by
  cases b with
  | nil => exact absurd rfl hb
  | cons d t =>
    have h := sepRequired_of "/".toList (d :: t) '/' d '/' (by decide) rfl (by decide)
    have := sepRequired_slash (d :: t) _ h
    rw [this] at h
    exact h

/-- behind a separator or at the beginning a soft separator is dropped -/
theorem softDec_drop (x : Piece) {rp body : Pieces} (hp : SepOrSlash (searchBwd rp))
    (hb : ∀ s, Piece.str s ∈ body → s ≠ []) : softDec x rp (body ++ [P "/"]) = .ok (body ++ [P "/"]) := by
  obtain ⟨q, hq, hm⟩ := searchFwd_snoc body
  unfold softDec
  rw [hq]
  show softDec2 x rp (body ++ [P "/"]) q = _
  unfold softDec2
  rcases hp with ⟨k, hk⟩ | hs
  · rw [hk]
  · rw [hs]
    cases q with
    | sep k => rfl
    | str b =>
      have hbne : b ≠ [] := by
        rcases List.mem_append.mp hm with h | h
        · exact hb b h
        · simp only [P, List.mem_singleton, Piece.str.injEq] at h
          rw [h]; decide
      simp only [P]
      rw [sepRequired_slash_ok hbne]
      rfl

theorem softDec_congr (x : Piece) {rp rp' : Pieces} (h : searchBwd rp = searchBwd rp') (suf : Pieces) :
    softDec x rp suf = softDec x rp' suf := by
  unfold softDec softDec2
  rw [h]

theorem searchBwd_indent {x : Piece} (hx : x = .sep .indent ∨ x = .sep .deindent) (rp : Pieces) :
    searchBwd (x :: rp) = searchBwd rp := by
  rcases hx with rfl | rfl <;> simp [searchBwd, isIndentTok]

theorem searchBwd_other {x : Piece} (h1 : x ≠ .sep .indent) (h2 : x ≠ .sep .deindent) (rp : Pieces) :
    searchBwd (x :: rp) = x := by
  cases x with
  | str s => simp [searchBwd, isIndentTok]
  | sep k => cases k <;> simp_all [searchBwd, isIndentTok]

theorem cnInv_sep (d : Bool) (k : Sep) (h1 : k ≠ .indent) (h2 : k ≠ .deindent) (rpY rpX : Pieces) :
    CnInv d (.sep k :: rpY) (.sep k :: rpX) := by
  have e : ∀ rp, searchBwd (.sep k :: rp) = .sep k :=
    fun rp => searchBwd_other (by simpa using h1) (by simpa using h2) rp
  exact ⟨fun _ => by rw [e, e], fun _ => by rw [e, e]; exact ⟨.inl ⟨k, rfl⟩, .inl ⟨k, rfl⟩⟩⟩

theorem bind_congr_ok {α β : Type} {v : R α} {f g : α → R β} (h : ∀ a, v = .ok a → f a = g a) :
    (v >>= f) = (v >>= g) := by
  cases v with
  | error e => rfl
  | ok a => exact h a rfl

theorem bind_ok_self {α : Type} {v : R α} {f : α → R α} (h : ∀ a, v = .ok a → f a = .ok a) : (v >>= f) = v := by
  cases v with
  | error e => rfl
  | ok a => exact h a rfl

/-! ## the core lemma -/

/-- **core**: from related reversed prefixes, `removeSepsFrom` computes the same processed suffix for a piece list and
for its `cn`-image -/
theorem rs_cn : ∀ (xs : Pieces) (d : Bool) (rpY rpX : Pieces), (∀ s, Piece.str s ∈ xs → s ≠ []) → CnInv d rpY rpX →
    removeSepsFrom rpY xs = removeSepsFrom rpX (cn d xs)
  | [], d, rpY, rpX, _, _ => by simp only [cn, removeSepsFrom]
  | x :: r, d, rpY, rpX, hne, hinv => by
    have hner : ∀ s, Piece.str s ∈ r → s ≠ [] := fun s hs => hne s (List.mem_cons_of_mem _ hs)
    -- a dropped soft separator
    have hdrop : ∀ (y : Piece) (rp rp' : Pieces), SepOrSlash (searchBwd rp') → ∀ suf, removeSepsFrom rp r = .ok suf →
        softDec y rp' suf = .ok suf := by
      intro y rp rp' hp suf hs
      obtain ⟨body, rfl, hsd⟩ := rs_softDrop _ _ _ hs
      exact softDec_drop y hp (fun s hs => hner s (softDrop_mem hsd _ hs))
    -- the decisions on a soft separator present on both sides agree
    have hdec : ∀ (y : Piece) (rp : Pieces) (suf : Pieces),
        removeSepsFrom rp r = .ok suf → softDec y rpY suf = softDec y rpX suf := by
      intro y rp suf hs
      cases d with
      | false => exact softDec_congr y (hinv.1 rfl) suf
      | true => rw [hdrop y rp rpY (hinv.2 rfl).1 suf hs, hdrop y rp rpX (hinv.2 rfl).2 suf hs]
    rw [cn]
    by_cases h1 : x = .sep .statement
    · subst h1
      rw [if_pos rfl]
      cases d with
      | true =>
        rw [if_pos rfl, rs_soft (by decide)]
        have ih := rs_cn r true (.sep .statement :: rpY) rpX hner
          ⟨(by intro h; cases h), fun _ => ⟨.inl ⟨_, rfl⟩, (hinv.2 rfl).2⟩⟩
        rw [← ih]
        exact bind_ok_self fun suf hs => hdrop _ _ rpY (hinv.2 rfl).1 suf hs
      | false =>
        rw [if_neg (by simp), rs_soft (by decide), rs_soft (by decide)]
        have ih := rs_cn r true (.sep .statement :: rpY) (.sep .statement :: rpX) hner
          (cnInv_sep true .statement (by simp) (by simp) rpY rpX)
        rw [← ih]
        exact bind_congr_ok fun suf hs => hdec _ _ suf hs
    · rw [if_neg h1]
      by_cases h2 : x = .sep .block
      · subst h2
        rw [if_pos rfl, rs_soft (by decide), rs_soft (by decide)]
        have ih := rs_cn r true (.sep .block :: rpY) (.sep .block :: rpX) hner
          (cnInv_sep true .block (by simp) (by simp) rpY rpX)
        rw [← ih]
        exact bind_congr_ok fun suf hs => hdec _ _ suf hs
      · rw [if_neg h2]
        by_cases h3 : x = .sep .indent ∨ x = .sep .deindent
        · rw [if_pos h3]
          have hk : keepRS x = true := by rcases h3 with rfl | rfl <;> decide
          rw [rs_hard hk, rs_hard hk]
          have ih := rs_cn r d (x :: rpY) (x :: rpX) hner (by
            unfold CnInv
            rw [searchBwd_indent h3, searchBwd_indent h3]
            exact hinv)
          rw [← ih]
        · rw [if_neg h3]
          have h3' : x ≠ .sep .indent ∧ x ≠ .sep .deindent := ⟨fun h => h3 (.inl h), fun h => h3 (.inr h)⟩
          have ih := rs_cn r false (x :: rpY) (x :: rpX) hner
            ⟨fun _ => by rw [searchBwd_other h3'.1 h3'.2, searchBwd_other h3'.1 h3'.2], fun h => by cases h⟩
          cases hk : keepRS x with
          | true => rw [rs_hard hk, rs_hard hk, ← ih]
          | false =>
            rw [rs_soft hk, rs_soft hk, ← ih]
            exact bind_congr_ok fun suf hs => hdec _ _ suf hs

/-! ## `removeSeparators` -/

/-- `cn true` never starts with a Statement separator -/
theorem cn_true_head : ∀ (Y : Pieces) (p : Piece) (r : Pieces), cn true Y = p :: r → p ≠ .sep .statement
  | [], p, r, h => by simp [cn] at h
  | y :: Y, p, r, h => by
    rw [cn] at h
    by_cases h1 : y = .sep .statement
    · rw [if_pos h1, if_pos rfl] at h
      exact cn_true_head Y p r h
    · rw [if_neg h1] at h
      have : p = y := by
        split at h
        · exact (List.cons.inj h).1.symm
        · split at h <;> exact (List.cons.inj h).1.symm
      rw [this]; exact h1

theorem rs_ne_nil {rp xs suf : Pieces} (h : removeSepsFrom rp xs = .ok suf) : suf ≠ [] := by
  obtain ⟨body, rfl, _⟩ := rs_softDrop _ _ _ h
  simp

/-- when the list does not start with a soft separator, index 0 needs no exemption -/
theorem removeSeparators_eq_from {Z : Pieces} (hZ : ∀ p r, Z = p :: r → keepRS p = true) :
    removeSeparators Z = removeSepsFrom [] Z >>= fun suf => .ok suf.dropLast := by
  cases Z with
  | nil => rfl
  | cons p r =>
    rw [rs_hard (hZ p r rfl)]
    simp only [removeSeparators]
    cases hv : removeSepsFrom [p] r with
    | error e => rfl
    | ok suf =>
      show Except.ok (p :: suf.dropLast) = Except.ok ((p :: suf).dropLast)
      rw [List.dropLast_cons_of_ne_nil (rs_ne_nil hv)]

/-- a list that starts with a Statement separator: the separator stays at index 0, the rest is processed like the
`cn`-image -/
theorem removeSeparators_stmt_cn (xs : Pieces) (hne : ∀ s, Piece.str s ∈ xs → s ≠ [])
    (hh : ∀ p r, cn true xs = p :: r → p ≠ .sep .block ∧ p ≠ .sep .space) :
    removeSeparators (.sep .statement :: xs) = removeSepsFrom [] (cn true xs) >>= (fun suf => .ok (.sep .statement :: suf.dropLast)) ∧
    removeSeparators (cn true xs) = removeSepsFrom [] (cn true xs) >>= (fun suf => .ok suf.dropLast) := by
  constructor
  · simp only [removeSeparators]
    rw [rs_cn xs true [.sep .statement] [] hne
      ⟨(by intro h; cases h), fun _ => ⟨.inl ⟨.statement, rfl⟩, .inr rfl⟩⟩]
  · apply removeSeparators_eq_from
    intro p r h
    have h1 := cn_true_head xs p r h
    have h2 := hh p r h
    cases hk : keepRS p with
    | true => rfl
    | false =>
      rcases keepRS_eq_false.mp hk with e | e | e
      · exact absurd e h2.2
      · exact absurd e h1
      · exact absurd e h2.1

/-- a list that does not start with a Statement separator -/
theorem removeSeparators_cn_other (x0 : Piece) (xs : Pieces) (hne : ∀ s, Piece.str s ∈ xs → s ≠ [])
    (h1 : x0 ≠ .sep .statement) (h2 : x0 ≠ .sep .block) :
    removeSeparators (x0 :: xs) = removeSeparators (cn true (x0 :: xs)) := by
  rw [cn, if_neg h1, if_neg h2]
  by_cases h3 : x0 = .sep .indent ∨ x0 = .sep .deindent
  · rw [if_pos h3]
    simp only [removeSeparators]
    rw [rs_cn xs true [x0] [x0] hne ⟨(by intro h; cases h), fun _ => by
      rw [searchBwd_indent h3]; exact ⟨.inr rfl, .inr rfl⟩⟩]
  · rw [if_neg h3]
    simp only [removeSeparators]
    rw [rs_cn xs false [x0] [x0] hne ⟨fun _ => rfl, fun h => by cases h⟩]

/-! ## `removeOrphaned` -/

/-- what `removeOrphanedFrom` reads of its reversed prefix -/
def roCls : Pieces → Nat
  | [] => 0
  | .sep _ :: _ => 1
  | .str _ :: _ => 2

theorem ro_cls : ∀ (Z rp rp' : Pieces), roCls rp = roCls rp' → removeOrphanedFrom rp Z = removeOrphanedFrom rp' Z
  | [], _, _, _ => by simp only [removeOrphanedFrom]
  | x :: xs, rp, rp', h => by
    have ih : removeOrphanedFrom (x :: rp) xs = removeOrphanedFrom (x :: rp') xs :=
      ro_cls xs _ _ (by cases x <;> rfl)
    rcases rp with _ | ⟨a, ra⟩ <;> rcases rp' with _ | ⟨b, rb⟩
    · rfl
    · cases b <;> cases h
    · cases a <;> cases h
    · rw [removeOrphanedFrom, removeOrphanedFrom, ih]
      cases a <;> cases b <;> first | rfl | cases h

/-- the Statement separator directly behind the header line is dropped -/
theorem ro_head_stmt (h : List Char) (hh : h ≠ []) (Z : Pieces) :
    removeOrphaned (.str h :: S .newline :: .sep .statement :: Z) = removeOrphaned (.str h :: S .newline :: Z) := by
  have e1 : (Piece.str h) ≠ .str [] := by simpa using hh
  unfold removeOrphaned
  simp only [S]
  rw [ro_keep _ e1 (by simp), ro_keep _ e1 (by simp), ro_keep (x := .sep .newline) _ (by simp) (by simp),
    ro_keep (x := .sep .newline) _ (by simp) (by simp), ro_stmt_sep]
  rw [ro_cls Z (.sep .statement :: .sep .newline :: [.str h]) (.sep .newline :: [.str h]) rfl]

/-! ## the pipeline -/

/-- `formatPieces` behind `removeSeparators`, when `indentBrackets` and `addSpacing` are switched off -/
def fpTail (sty : Style) (ts3 : Pieces) : R (List Char) := do
  let ts4 := .str ("--".toList ++ sty.commentSep ++ "tumfl".toList) :: S .newline :: ts3
  let ts5 := removeOrphaned ts4
  let ts6 ← resolveTokens sty ts5
  let ts7 ← indentLoop sty.indentation ts6 0 false
  let ending := if sty.removeUnnecessaryChars then [] else sty.statementSeparator
  let formatted := joinTokens ts7
  let lines := (splitOnNewline formatted).map pyRstrip
  .ok (pyStripAll (lines.intersperse ['\n']).flatten ++ ending)

theorem formatPieces_eq_tail (sty : Style) (hr : sty.removeUnnecessaryChars = true) (hw : sty.lineWidth = 0)
    (hb : sty.blockSpacer = 0) (Y : Pieces) : formatPieces sty Y = removeSeparators Y >>= fpTail sty := by
  unfold formatPieces fpTail
  simp only [hr, hw, hb, if_true, Nat.lt_irrefl, if_false, gt_iff_lt]
  cases removeSeparators Y with
  | error e => rfl
  | ok ts1 => rfl

theorem fpTail_stmt (sty : Style) (Z : Pieces) : fpTail sty (.sep .statement :: Z) = fpTail sty Z := by
  unfold fpTail
  simp only []
  rw [ro_head_stmt _ (by simp) Z]

/-- **the formatting pipeline does not see the Statement separators that `cn true` deletes** -/
theorem formatPieces_cn (sty : Style) (hr : sty.removeUnnecessaryChars = true) (hw : sty.lineWidth = 0)
    (hb : sty.blockSpacer = 0) (Y : Pieces) (hne : ∀ s, Piece.str s ∈ Y → s ≠ [])
    (hh : ∀ p r, cn true Y = p :: r → p ≠ .sep .block ∧ p ≠ .sep .space) :
    formatPieces sty Y = formatPieces sty (cn true Y) := by
  rw [formatPieces_eq_tail sty hr hw hb, formatPieces_eq_tail sty hr hw hb]
  cases Y with
  | nil => rfl
  | cons x0 xs =>
    have hnex : ∀ s, Piece.str s ∈ xs → s ≠ [] := fun s hs => hne s (List.mem_cons_of_mem _ hs)
    by_cases h1 : x0 = .sep .statement
    · subst h1
      have hcn : cn true (.sep .statement :: xs) = cn true xs := by rw [cn, if_pos rfl, if_pos rfl]
      rw [hcn] at hh ⊢
      obtain ⟨e1, e2⟩ := removeSeparators_stmt_cn xs hnex hh
      rw [e1, e2]
      cases removeSepsFrom [] (cn true xs) with
      | error e => rfl
      | ok suf => exact fpTail_stmt sty _
    · have h2 : x0 ≠ .sep .block := by
        intro h2
        subst h2
        exact (hh (.sep .block) (cn true xs) (by rw [cn, if_neg (by simp), if_pos rfl])).1 rfl
      rw [← removeSeparators_cn_other x0 xs hnex h1 h2]

end Tumfl.Theory

