import Tumfl.Theory.PrintSimInd
/-!
# The expected reference tree is the model tree, modulo parentheses and empty statements
-/
namespace Tumfl.Theory
open Tumfl.Model Tumfl.Spec

variable {semi : Bool} {sty : Style}

theorem ExpRel_wrapP {e : Expr} {c : Exp} (b : Bool) (h : ExpRel e c) : ExpRel e (wrapP b c) := by
  cases b
  · exact h
  · exact .paren h

theorem deExp_wrapP (b : Bool) (c : Exp) : deExp (wrapP b c) = wrapP b (deExp c) := by
  cases b <;> simp [wrapP, deExp]

theorem deStats_append : (a b : List Stat) → deStats (a ++ b) = deStats a ++ deStats b
  | [], b => by simp [deStats]
  | s :: a, b => by
    simp only [List.cons_append, deStats, deStats_append a b]
    split <;> simp

theorem deStats_emp (n : Nat) : deStats (emp n) = [] := by
  induction n with
  | zero => simp [emp, deStats]
  | succ n ih => simp only [emp, List.replicate_succ, deStats, isEmptyStat, if_true] at ih ⊢; exact ih

theorem refStmt_not_empty : (s : Stmt) → isSemi s = false → isEmptyStat (refStmt semi sty s) = false
  | .assign _ _ _, _ | .block _, _ | .brk _, _ | .call _ _ _, _ | .funcDef _ _ _ _ _, _ | .goto _ _, _ | .label _ _, _
  | .iff _ _ _ _, _ | .iterFor _ _ _ _, _ | .localAssign _ _ _, _ | .localFunc _ _ _ _, _ | .method _ _ _ _, _
  | .numFor _ _ _ _ _ _, _ | .repeat _ _ _, _ | .whl _ _ _, _ => by simp [refStmt, isEmptyStat]
  | .semi _, h => by simp [isSemi] at h

theorem Forall₂_names : (ns : List Expr) → ns.all nameNodeOK = true → Forall₂ NameRel ns (ns.map nameS)
  | [], _ => .nil
  | n :: r, h => by
    simp only [List.all_cons, Bool.and_eq_true] at h
    exact .cons (NameRel_of_nameNodeOK h.1) (Forall₂_names r h.2)

theorem AttRel_of_attOK : (a : AttName) → attOK a = true → AttRel a (refAtt a)
  | .mk n none, h => by
    simp only [attOK, Bool.and_true] at h
    exact ⟨NameRel_of_nameNodeOK h, trivial⟩
  | .mk n (some x), h => by
    simp only [attOK, Bool.and_eq_true] at h
    exact ⟨NameRel_of_nameNodeOK h.1, NameRel_of_nameNodeOK h.2⟩

theorem Forall₂_atts : (ns : List AttName) → ns.all attOK = true → Forall₂ AttRel ns (ns.map refAtt)
  | [], _ => .nil
  | n :: r, h => by
    simp only [List.all_cons, Bool.and_eq_true] at h
    exact .cons (AttRel_of_attOK n h.1) (Forall₂_atts r h.2)

mutual
theorem relE (semi : Bool) (sty : Style) : (e : Expr) → pExpr e = true → ExpRel (dsExpr e) (deExp (refExpr semi sty e))
  | .nil t, _ => by simp only [dsExpr, refExpr, deExp]; exact .nil t
  | .bool t v, _ => by
    cases v <;> simp only [dsExpr, refExpr, deExp, Bool.false_eq_true, if_false, if_true]
    · exact .fls t
    · exact .tru t
  | .vararg t, _ => by simp only [dsExpr, refExpr, deExp]; exact .vararg t
  | .number t n, h => by
    simp only [pExpr] at h
    obtain ⟨m, hm, hr⟩ := NumRel_of_numOKp h
    simp only [dsExpr, refExpr, deExp, hm, Option.getD_some]
    exact .num t hr
  | .string t v, _ => by simp only [dsExpr, refExpr, deExp]; exact .str t v
  | .func t ps body, h => by
    simp only [pExpr, Bool.and_eq_true] at h
    simp only [dsExpr, refExpr, deExp]
    exact .func t (ParamsRel_of_paramsOK ps h.1) (relBlock semi sty body h.2)
  | .table t fs, h => by
    simp only [pExpr] at h
    simp only [dsExpr, refExpr, deExp]
    exact .table t (relFields semi sty fs h)
  | .binop t o l r, h => by
    simp only [pExpr, Bool.and_eq_true] at h
    simp only [dsExpr, refExpr, deExp, deExp_wrapP]
    exact .bin t o (ExpRel_wrapP _ (relE semi sty l h.1)) (ExpRel_wrapP _ (relE semi sty r h.2))
  | .unop t u x, h => by
    simp only [pExpr] at h
    simp only [dsExpr, refExpr, deExp, deExp_wrapP]
    exact .un t u (ExpRel_wrapP _ (relE semi sty x h))
  | .name t n, _ => by simp only [dsExpr, refExpr, deExp]; exact .name t n
  | .index t l k, h => by
    simp only [pExpr, Bool.and_eq_true] at h
    simp only [dsExpr, refExpr, deExp, deExp_wrapP]
    exact .index t (ExpRel_wrapP _ (relE semi sty l h.1)) (relE semi sty k h.2)
  | .namedIndex t l nm, h => by
    simp only [pExpr, Bool.and_eq_true] at h
    simp only [dsExpr, refExpr, deExp, deExp_wrapP]
    exact .dot t (ExpRel_wrapP _ (relE semi sty l h.1)) (NameRel_of_nameNodeOK h.2)
  | .call t f args, h => by
    simp only [pExpr, Bool.and_eq_true] at h
    simp only [dsExpr, refExpr, deExp, deExp_wrapP]
    exact .call t (ExpRel_wrapP _ (relE semi sty f h.1)) (relArgs semi sty args h.2)
  | .method t f m args, h => by
    simp only [pExpr, Bool.and_eq_true] at h
    simp only [dsExpr, refExpr, deExp, deExp_wrapP]
    exact .mcall t (ExpRel_wrapP _ (relE semi sty f h.1.1)) (NameRel_of_nameNodeOK h.1.2) (relArgs semi sty args h.2)

theorem relArgs (semi : Bool) (sty : Style) : (es : List Expr) → pArgs es = true →
    Forall₂ ExpRel (dsArgs es) (deExps (refArgs semi sty es))
  | [], _ => by simp only [dsArgs, refArgs, deExps]; exact .nil
  | e :: r, h => by
    simp only [pArgs, Bool.and_eq_true] at h
    simp only [dsArgs, refArgs, deExps]
    exact .cons (relE semi sty e h.1) (relArgs semi sty r h.2)

theorem relFields (semi : Bool) (sty : Style) : (fs : List Model.Field) → pFields fs = true →
    Forall₂ FieldRel (dsFields fs) (deFields (refFields semi sty fs))
  | [], _ => by simp only [dsFields, refFields, deFields]; exact .nil
  | f :: r, h => by
    simp only [pFields, Bool.and_eq_true] at h
    simp only [dsFields, refFields, deFields]
    exact .cons (relField semi sty f h.1) (relFields semi sty r h.2)

theorem relField (semi : Bool) (sty : Style) : (f : Model.Field) → pField f = true →
    FieldRel (dsField f) (deField (refField semi sty f))
  | .explicit t k v, h => by
    simp only [pField, Bool.and_eq_true] at h
    simp only [dsField, refField, deField]
    exact .keyed t (relE semi sty k h.1) (relE semi sty v h.2)
  | .named t n v, h => by
    simp only [pField, Bool.and_eq_true] at h
    simp only [dsField, refField, deField]
    exact .named t (NameRel_of_nameNodeOK h.1) (relE semi sty v h.2)
  | .numbered t v, h => by
    simp only [pField] at h
    simp only [dsField, refField, deField]
    exact .pos t (relE semi sty v h)

theorem relBlock (semi : Bool) (sty : Style) : (b : Model.Block) → pBlock b = true →
    BlockRel (dsBlock b) (deBlock (refBlock semi sty b))
  | .mk t ss none c, h => by
    simp only [pBlock, Bool.and_true] at h
    have := relStmts semi sty true ss h
    simp only [dsBlock, refBlock, deBlock, deStats_append, deStats_emp, List.nil_append]
    have e : deStats (if ss.isEmpty = true then [] else emp (semiN semi)) = [] := by split <;> simp [deStats, deStats_emp]
    rw [e, List.append_nil]
    exact .blk0 t c this
  | .mk t ss (some es) c, h => by
    simp only [pBlock, Bool.and_eq_true] at h
    have := relStmts semi sty true ss h.1
    simp only [dsBlock, refBlock, deBlock, deStats_append, deStats_emp, List.nil_append]
    have e : deStats (if ss.isEmpty = true then [] else emp (semiN semi)) = [] := by split <;> simp [deStats, deStats_emp]
    rw [e, List.append_nil]
    exact .blk1 t c this (relArgs semi sty es h.2)

theorem relStmts (semi : Bool) (sty : Style) : (first : Bool) → (ss : List Stmt) → pStmts ss = true →
    Forall₂ StmtRel (dsStmts ss) (deStats (refStmts semi sty first ss))
  | _, [], _ => by simp only [dsStmts, refStmts, deStats]; exact .nil
  | first, s :: r, h => by
    simp only [pStmts, Bool.and_eq_true] at h
    have ih := relStmts semi sty false r h.2
    simp only [dsStmts, refStmts, deStats_append, deStats_emp, List.nil_append]
    have e1 : deStats (if guardNeeded first (visitStmt sty s) = true then [Stat.empty] else []) = [] := by
      split <;> simp [deStats, isEmptyStat]
    have e2 : deStats (if r.isEmpty = true then [] else emp (semiN semi)) = [] := by split <;> simp [deStats, deStats_emp]
    simp only [e1, e2, List.nil_append, List.append_nil]
    by_cases hs : isSemi s = true
    · have e3 : deStats (if droppedSemi sty s = true then []
          else refStmt semi sty s :: if hasTrail s = true then emp (semiN semi) else []) = [] := by
        cases s <;> simp [isSemi] at hs
        split <;> simp [deStats, refStmt, isEmptyStat, hasTrail]
      simp only [e3, if_pos hs, List.nil_append]
      exact ih
    · have hs' : isSemi s = false := by simpa using hs
      have hd : droppedSemi sty s = false := by simp [droppedSemi, hs']
      have e3 : deStats (if droppedSemi sty s = true then []
          else refStmt semi sty s :: if hasTrail s = true then emp (semiN semi) else []) = [deStat (refStmt semi sty s)] := by
        rw [hd]
        simp only [Bool.false_eq_true, if_false, deStats, refStmt_not_empty s hs']
        split <;> simp [deStats, deStats_emp]
      simp only [e3, if_neg hs, List.cons_append, List.nil_append]
      exact .cons (relStmt semi sty s h.1) ih

theorem relStmt (semi : Bool) (sty : Style) : (s : Stmt) → pStmt s = true → StmtRel (dsStmt s) (deStat (refStmt semi sty s))
  | .assign t ts es, h => by
    simp only [pStmt, Bool.and_eq_true] at h
    simp only [dsStmt, refStmt, deStat]
    exact .assign t (relArgs semi sty ts h.1.1.2) (relArgs semi sty es h.2)
  | .block b, h => by
    simp only [pStmt, Bool.and_eq_true] at h
    simp only [dsStmt, refStmt, deStat]
    exact .doo (relBlock semi sty b h.2)
  | .brk t, _ => by simp only [dsStmt, refStmt, deStat]; exact .brk t
  | .call t f args, h => by
    simp only [pStmt, Bool.and_eq_true] at h
    simp only [dsStmt, refStmt, deStat, deExp, deExp_wrapP]
    exact .call t (ExpRel_wrapP _ (relE semi sty f h.1)) (relArgs semi sty args h.2)
  | .funcDef t names none ps body, h => by
    simp only [pStmt, Bool.and_eq_true, Bool.and_true] at h
    simp only [dsStmt, refStmt, deStat]
    exact .func t (Forall₂_names names h.1.1.2) trivial (ParamsRel_of_paramsOK ps h.1.2) (relBlock semi sty body h.2)
  | .funcDef t names (some mn) ps body, h => by
    simp only [pStmt, Bool.and_eq_true] at h
    simp only [dsStmt, refStmt, deStat]
    exact .func t (Forall₂_names names h.1.1.1.2) (NameRel_of_nameNodeOK h.1.1.2) (ParamsRel_of_paramsOK ps h.1.2)
      (relBlock semi sty body h.2)
  | .goto t l, h => by
    simp only [pStmt] at h
    simp only [dsStmt, refStmt, deStat]
    exact .goto t (NameRel_of_nameNodeOK h)
  | .label t l, h => by
    simp only [pStmt] at h
    simp only [dsStmt, refStmt, deStat]
    exact .label t (NameRel_of_nameNodeOK h)
  | .iff t test tr fl, h => by
    simp only [pStmt, Bool.and_eq_true] at h
    simp only [dsStmt, refStmt, deStat]
    exact .iff t (relE semi sty test h.1.1.1) (relBlock semi sty tr h.1.2) (relFalse semi sty fl h.2)
  | .iterFor t ns es body, h => by
    simp only [pStmt, Bool.and_eq_true] at h
    simp only [dsStmt, refStmt, deStat]
    exact .forin t (Forall₂_names ns h.1.1.1.1.2) (relArgs semi sty es h.1.1.2) (relBlock semi sty body h.2)
  | .localAssign t names none, h => by
    simp only [pStmt, Bool.and_eq_true, Bool.and_true] at h
    simp only [dsStmt, refStmt, deStat, deExps]
    exact .locl0 t (Forall₂_atts names h.2)
  | .localAssign t names (some []), h => by simp [pStmt] at h
  | .localAssign t names (some (e :: r)), h => by
    simp only [pStmt, Bool.and_eq_true] at h
    simp only [dsStmt, refStmt, deStat]
    exact .locl1 t (Forall₂_atts names h.1.2) (relArgs semi sty (e :: r) h.2) (by simp [dsArgs])
  | .localFunc t n ps body, h => by
    simp only [pStmt, Bool.and_eq_true] at h
    simp only [dsStmt, refStmt, deStat]
    exact .localfunc t (NameRel_of_nameNodeOK h.1.1) (ParamsRel_of_paramsOK ps h.1.2) (relBlock semi sty body h.2)
  | .method t f m args, h => by
    simp only [pStmt, Bool.and_eq_true] at h
    simp only [dsStmt, refStmt, deStat, deExp, deExp_wrapP]
    exact .mcall t (ExpRel_wrapP _ (relE semi sty f h.1.1)) (NameRel_of_nameNodeOK h.1.2) (relArgs semi sty args h.2)
  | .numFor t v a b none body, h => by
    simp only [pStmt, Bool.and_eq_true, Bool.and_true] at h
    simp only [dsStmt, refStmt, deStat]
    exact .fornum0 t (NameRel_of_nameNodeOK h.1.1.1.1) (relE semi sty a h.1.1.1.2) (relE semi sty b h.1.1.2)
      (relBlock semi sty body h.2)
  | .numFor t v a b (some st) body, h => by
    simp only [pStmt, Bool.and_eq_true] at h
    simp only [dsStmt, refStmt, deStat]
    exact .fornum1 t (NameRel_of_nameNodeOK h.1.1.1.1.1) (relE semi sty a h.1.1.1.1.2) (relE semi sty b h.1.1.1.2)
      (relE semi sty st h.1.1.2) (relBlock semi sty body h.2)
  | .repeat t c body, h => by
    simp only [pStmt, Bool.and_eq_true] at h
    simp only [dsStmt, refStmt, deStat]
    exact .rep t (relE semi sty c h.2) (relBlock semi sty body h.1.2)
  | .semi t, _ => by simp only [dsStmt, refStmt, deStat]; exact .empty t
  | .whl t c body, h => by
    simp only [pStmt, Bool.and_eq_true] at h
    simp only [dsStmt, refStmt, deStat]
    exact .whl t (relE semi sty c h.1.1) (relBlock semi sty body h.2)

theorem relFalse (semi : Bool) (sty : Style) : (fl : IfFalse) → pFalse fl = true →
    IfFalseRel (dsFalse fl) (deElifs (refElifs semi sty fl)) (deOptBlock (refElse semi sty fl))
  | .none, _ => by simp only [dsFalse, refElifs, refElse, deElifs, deOptBlock]; exact .none
  | .block b, h => by
    simp only [pFalse, Bool.and_eq_true] at h
    simp only [dsFalse, refElifs, refElse, deElifs, deOptBlock]
    exact .els (relBlock semi sty b h.2)
  | .elif t test tr fl, h => by
    simp only [pFalse, Bool.and_eq_true] at h
    simp only [dsFalse, refElifs, refElse, deElifs]
    exact .elif t (relE semi sty test h.1.1.1) (relBlock semi sty tr h.1.2) (relFalse semi sty fl h.2)
end

theorem deBlock_refRoot (b : Model.Block) : deBlock (refRoot semi sty b) = deBlock (refBlock semi sty b) := by
  obtain ⟨t, ss, rets, c⟩ := b
  have e : ∀ (p : Prop) [Decidable p], deStats (if p then [] else emp (semiN semi)) = [] := by
    intro p _; split <;> simp [deStats, deStats_emp]
  cases rets <;> simp [refRoot, refBlock, deBlock, deStats_append, deStats_emp, e]

end Tumfl.Theory
