import Tumfl.Theory.EmitCommentsBase
/-!
# Every statement comment is printed exactly once, before its statement, in order

`emit_comments_on` / `emit_comments_off`: the comment pieces of `emit sty b` are exactly the
formatted statement comments of `b` in statement order (none when comments are switched off),
for well-formed trees (`TreeWF`, see `EmitCommentsBase`).  Placement: `visitStmts_cons`.
-/
namespace Tumfl.Theory
open Tumfl.Model Tumfl.Spec

local notation "fc" => List.filter isCommentPiece

mutual
theorem fc_visitExpr (sty : Style) : (e : Expr) → wfExpr e = true →
    fc (visitExpr sty e) = F sty (commentsExpr e)
  | .nil _, _ => by simp [visitExpr, commentsExpr, isPrefix]
  | .bool _ v, _ => by cases v <;> simp [visitExpr, commentsExpr, isPrefix]
  | .vararg _, _ => by simp [visitExpr, commentsExpr, isPrefix]
  | .number _ n, h => by
    simp only [wfExpr] at h
    simp [visitExpr, commentsExpr, isC_num h]
  | .string _ v, _ => by simp [visitExpr, commentsExpr, fc_visitString]
  | .name _ n, h => by
    simp only [wfExpr] at h
    simp [visitExpr, commentsExpr, isC_name h]
  | .func _ ps body, h => by
    simp only [wfExpr, Bool.and_eq_true] at h
    simp [visitExpr, commentsExpr, isPrefix, fc_visitArgs sty ps h.1, fc_block sty body h.2]
  | .table _ fs, h => by
    simp only [wfExpr] at h
    simp [visitExpr, commentsExpr, isPrefix, fc_visitFields sty fs h]
  | .binop _ o l r, h => by
    simp only [wfExpr, Bool.and_eq_true] at h
    simp [visitExpr, commentsExpr, apply_ite (List.filter isCommentPiece),
      fc_visitExpr sty l h.1, fc_visitExpr sty r h.2]
  | .unop _ u e, h => by
    simp only [wfExpr] at h
    simp [visitExpr, commentsExpr, apply_ite (List.filter isCommentPiece), fc_visitExpr sty e h]
  | .index _ l k, h => by
    simp only [wfExpr, Bool.and_eq_true] at h
    simp [visitExpr, commentsExpr, isPrefix, fc_visitExpr sty l h.1, fc_visitExpr sty k h.2]
  | .namedIndex _ l n, h => by
    simp only [wfExpr, Bool.and_eq_true] at h
    simp [visitExpr, commentsExpr, fc_visitExpr sty l h.1, fc_visitExpr sty n h.2]
  | .call _ f args, h => by
    simp only [wfExpr, Bool.and_eq_true] at h
    simp [visitExpr, commentsExpr, fc_visitExpr sty f h.1, fc_visitArgs sty args h.2]
  | .method _ f m args, h => by
    simp only [wfExpr, Bool.and_eq_true] at h
    simp [visitExpr, commentsExpr, isPrefix, fc_visitExpr sty f h.1.1, fc_visitExpr sty m h.1.2,
      fc_visitArgs sty args h.2]

theorem fc_visitArgs (sty : Style) : (es : List Expr) → wfArgs es = true →
    fc (visitArgs sty es) = F sty (commentsArgs es)
  | [], _ => by simp [visitArgs, commentsArgs]
  | [e], h => by
    simp only [wfArgs, Bool.and_eq_true] at h
    simp [visitArgs, commentsArgs, fc_visitExpr sty e h.1]
  | e :: e2 :: rest, h => by
    rw [wfArgs, Bool.and_eq_true] at h
    rw [visitArgs, commentsArgs]
    simp [fc_visitExpr sty e h.1, fc_visitArgs sty (e2 :: rest) h.2]

theorem fc_visitFields (sty : Style) : (fs : List Field) → wfFields fs = true →
    fc (visitFields sty fs) = F sty (commentsFields fs)
  | [], _ => by simp [visitFields, commentsFields]
  | [f], h => by
    simp only [wfFields, Bool.and_eq_true] at h
    simp [visitFields, commentsFields, fc_visitField sty f h.1]
  | f :: f2 :: rest, h => by
    rw [wfFields, Bool.and_eq_true] at h
    rw [visitFields, commentsFields]
    simp [fc_visitField sty f h.1, fc_visitFields sty (f2 :: rest) h.2]

theorem fc_visitField (sty : Style) : (f : Field) → wfField f = true →
    fc (visitField sty f) = F sty (commentsField f)
  | .explicit _ k v, h => by
    simp only [wfField, Bool.and_eq_true] at h
    simp [visitField, commentsField, isPrefix, fc_visitExpr sty k h.1, fc_visitExpr sty v h.2]
  | .named _ n v, h => by
    simp only [wfField, Bool.and_eq_true] at h
    simp [visitField, commentsField, isPrefix, fc_visitExpr sty n h.1, fc_visitExpr sty v h.2]
  | .numbered _ v, h => by
    simp only [wfField] at h
    simp [visitField, commentsField, fc_visitExpr sty v h]

theorem fc_block (sty : Style) : (b : Block) → wfBlock b = true →
    fc (visitBlockFull sty b) = F sty (commentsBlock b)
  | .mk t stmts none c, h => by
    simp only [wfBlock, Bool.and_true] at h
    simp [fc_visitBlockFull, bodyPieces, commentsBlock, fc_visitStmts sty true stmts h]
  | .mk t stmts (some es) c, h => by
    simp only [wfBlock, Bool.and_eq_true] at h
    simp [fc_visitBlockFull, bodyPieces, commentsBlock, isPrefix, apply_ite (List.filter isCommentPiece),
      fc_visitStmts sty true stmts h.1, fc_visitArgs sty es h.2]

theorem fc_visitStmts (sty : Style) : (first : Bool) → (ss : List Stmt) → wfStmts ss = true →
    fc (visitStmts sty first ss) = F sty (commentsStmts ss)
  | _, [], _ => by simp [visitStmts, commentsStmts]
  | first, s :: rest, h => by
    simp only [wfStmts, Bool.and_eq_true] at h
    rw [visitStmts_cons, commentsStmts]
    simp [fc_visitStmt sty s h.1, fc_visitStmts sty false rest h.2]

theorem fc_visitStmt (sty : Style) : (s : Stmt) → wfStmt s = true →
    fc (visitStmt sty s) = F sty (commentsStmt s)
  | .assign _ ts es, h => by
    simp only [wfStmt, Bool.and_eq_true] at h
    simp [visitStmt, commentsStmt, isPrefix, fc_visitTargets sty ts h.1, fc_visitArgs sty es h.2]
  | .block b, h => by
    simp only [wfStmt] at h
    simp [visitStmt, commentsStmt, fc_block sty b h]
  | .brk _, _ => by simp [visitStmt, commentsStmt, isPrefix]
  | .call _ f args, h => by
    simp only [wfStmt, Bool.and_eq_true] at h
    simp [visitStmt, commentsStmt, fc_visitExpr sty f h.1, fc_visitArgs sty args h.2]
  | .funcDef _ names none ps body, h => by
    simp only [wfStmt, Bool.and_eq_true, Bool.and_true] at h
    simp [visitStmt, commentsStmt, isPrefix, fc_visitDotted sty names h.1.1, fc_visitArgs sty ps h.1.2,
      fc_block sty body h.2]
  | .funcDef _ names (some mn) ps body, h => by
    simp only [wfStmt, Bool.and_eq_true] at h
    simp [visitStmt, commentsStmt, isPrefix, fc_visitDotted sty names h.1.1.1, fc_visitExpr sty mn h.1.1.2,
      fc_visitArgs sty ps h.1.2, fc_block sty body h.2]
  | .goto _ l, h => by
    simp only [wfStmt] at h
    simp [visitStmt, commentsStmt, isPrefix, fc_visitExpr sty l h]
  | .label _ n, h => by
    simp only [wfStmt] at h
    simp [visitStmt, commentsStmt, isPrefix, fc_visitExpr sty n h]
  | .iff _ test tr fl, h => by
    simp only [wfStmt, Bool.and_eq_true, Bool.not_eq_true'] at h
    simp [visitStmt, commentsStmt, isPrefix, fc_slice21 sty tr h.1.1.2, fc_visitExpr sty test h.1.1.1,
      fc_block sty tr h.1.2, fc_visitFalse sty fl h.2]
  | .iterFor _ ns es body, h => by
    simp only [wfStmt, Bool.and_eq_true] at h
    simp [visitStmt, commentsStmt, isPrefix, fc_visitArgs sty ns h.1.1, fc_visitArgs sty es h.1.2,
      fc_block sty body h.2]
  | .localAssign _ names none, h => by
    simp only [wfStmt, Bool.and_true] at h
    simp [visitStmt, commentsStmt, isPrefix, fc_visitAttNames names h]
  | .localAssign _ names (some []), h => by
    simp only [wfStmt, Bool.and_eq_true] at h
    simp [visitStmt, commentsStmt, commentsArgs, isPrefix, fc_visitAttNames names h.1]
  | .localAssign _ names (some (e :: rest)), h => by
    simp only [wfStmt, Bool.and_eq_true] at h
    simp [visitStmt, commentsStmt, isPrefix, fc_visitAttNames names h.1, fc_visitArgs sty (e :: rest) h.2]
  | .localFunc _ n ps body, h => by
    simp only [wfStmt, Bool.and_eq_true] at h
    simp [visitStmt, commentsStmt, isPrefix, fc_visitExpr sty n h.1.1, fc_visitArgs sty ps h.1.2,
      fc_block sty body h.2]
  | .method _ f m args, h => by
    simp only [wfStmt, Bool.and_eq_true] at h
    simp [visitStmt, commentsStmt, isPrefix, fc_visitExpr sty f h.1.1, fc_visitExpr sty m h.1.2,
      fc_visitArgs sty args h.2]
  | .numFor _ v a b none body, h => by
    simp only [wfStmt, Bool.and_eq_true, Bool.and_true] at h
    simp [visitStmt, commentsStmt, isPrefix, fc_visitExpr sty v h.1.1.1, fc_visitExpr sty a h.1.1.2,
      fc_visitExpr sty b h.1.2, fc_block sty body h.2]
  | .numFor _ v a b (some st) body, h => by
    simp only [wfStmt, Bool.and_eq_true] at h
    simp [visitStmt, commentsStmt, isPrefix, fc_visitExpr sty v h.1.1.1.1, fc_visitExpr sty a h.1.1.1.2,
      fc_visitExpr sty b h.1.1.2, fc_visitExpr sty st h.1.2, fc_block sty body h.2]
  | .repeat _ c body, h => by
    simp only [wfStmt, Bool.and_eq_true, Bool.not_eq_true'] at h
    simp [visitStmt, commentsStmt, isPrefix, fc_slice21 sty body h.1.1, fc_block sty body h.1.2,
      fc_visitExpr sty c h.2]
  | .semi _, _ => by
    simp [visitStmt, commentsStmt, isPrefix, apply_ite (List.filter isCommentPiece)]
  | .whl _ c body, h => by
    simp only [wfStmt, Bool.and_eq_true] at h
    simp [visitStmt, commentsStmt, isPrefix, fc_visitExpr sty c h.1, fc_block sty body h.2]

theorem fc_visitFalse (sty : Style) : (fl : IfFalse) → wfFalse fl = true →
    fc (visitFalse sty fl) = F sty (commentsFalse fl)
  | .none, _ => by simp [visitFalse, commentsFalse]
  | .block b, h => by
    simp only [wfFalse, Bool.and_eq_true, Bool.not_eq_true'] at h
    simp [visitFalse, commentsFalse, isPrefix, fc_slice21 sty b h.1, fc_block sty b h.2]
  | .elif _ test tr fl, h => by
    simp only [wfFalse, Bool.and_eq_true, Bool.not_eq_true'] at h
    simp [visitFalse, commentsFalse, isPrefix, fc_slice21 sty tr h.1.1.2, fc_visitExpr sty test h.1.1.1,
      fc_block sty tr h.1.2, fc_visitFalse sty fl h.2]

theorem fc_visitTargets (sty : Style) : (es : List Expr) → wfArgs es = true →
    fc (visitTargets sty es) = F sty (commentsArgs es)
  | [], _ => by simp [visitTargets, commentsArgs]
  | [e], h => by
    simp only [wfArgs, Bool.and_eq_true] at h
    simp [visitTargets, commentsArgs, fc_visitExpr sty e h.1]
  | e :: e2 :: rest, h => by
    rw [wfArgs, Bool.and_eq_true] at h
    rw [visitTargets, commentsArgs]
    simp [fc_visitExpr sty e h.1, fc_visitTargets sty (e2 :: rest) h.2]

theorem fc_visitDotted (sty : Style) : (es : List Expr) → wfArgs es = true →
    fc (visitDotted sty es) = F sty (commentsArgs es)
  | [], _ => by simp [visitDotted, commentsArgs]
  | [e], h => by
    simp only [wfArgs, Bool.and_eq_true] at h
    simp [visitDotted, commentsArgs, fc_visitExpr sty e h.1]
  | e :: e2 :: rest, h => by
    rw [wfArgs, Bool.and_eq_true] at h
    rw [visitDotted, commentsArgs]
    simp [fc_visitExpr sty e h.1, fc_visitDotted sty (e2 :: rest) h.2]
end

/-- Both settings at once: the comment pieces of the output are `F sty (commentsBlock b)`. -/
theorem emit_comments (sty : Style) (b : Block) (hwf : TreeWF b) :
    (emit sty b).filter isCommentPiece = F sty (commentsBlock b) := by
  unfold emit
  rw [fc_blk, fc_block sty b hwf]

/-- With comments on, the comment pieces of the output are the formatted statement comments of the
tree, each exactly once and in statement order. -/
theorem emit_comments_on (sty : Style) (h : sty.includeComments = true) (b : Block) (hwf : TreeWF b) :
    (emit sty b).filter isCommentPiece = (commentsBlock b).map (fun c => (formatComment sty c).head!) := by
  rw [emit_comments sty b hwf, F, if_pos h]; rfl

/-- With comments off no comment piece is printed. -/
theorem emit_comments_off (sty : Style) (h : sty.includeComments = false) (b : Block) (hwf : TreeWF b) :
    (emit sty b).filter isCommentPiece = [] := by
  rw [emit_comments sty b hwf, F, h]; rfl

/-- Placement: in the statement loop the comment pieces of a statement come immediately before the
statement's own pieces (only the `;` guard, which is not a comment, may stand between). -/
theorem visitStmts_placement (sty : Style) (first : Bool) (s : Stmt) (rest : List Stmt) :
    visitStmts sty first (s :: rest) =
      (if sty.includeComments then (stmtComments s).flatMap (formatComment sty) else []) ++
        stmtGuard first (visitStmt sty s) ++ visitStmt sty s ++ [S .statement] ++
        visitStmts sty false rest :=
  visitStmts_cons sty first s rest


end Tumfl.Theory
