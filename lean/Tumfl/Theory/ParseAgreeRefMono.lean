import Tumfl.Spec.Parse
import Tumfl.Theory.ClimbRel
import Tumfl.Theory.ParserFuelMonoLadder
/-!
# Fuel monotonicity of the reference parser, outcome by outcome

`ELe a b` : unless `a` is the fuel error, `b` is the very same outcome (result or error).  By one induction on the
fuel every reference parse function at fuel `f + 1` is above itself at fuel `f`; hence the outcome of `Spec.block`
does not depend on the fuel as soon as it is not the fuel error.
-/
namespace Tumfl.Theory
open Tumfl.Spec

set_option linter.unusedVariables false

variable {α β : Type}

def ELe (a b : Except PErr α) : Prop := a ≠ .error fuelErr → b = a

theorem ELe_refl (a : Except PErr α) : ELe a a := fun _ => rfl

theorem ELe_fuel (b : Except PErr α) : ELe (.error fuelErr) b := fun h => absurd rfl h

theorem ELe_trans {a b c : Except PErr α} (h1 : ELe a b) (h2 : ELe b c) : ELe a c := by
  intro h
  have e1 := h1 h
  rw [h2 (by rw [e1]; exact h), e1]

theorem ELe_bind {a a' : Except PErr α} {k k' : α → Except PErr β} (ha : ELe a a') (hk : ∀ x, ELe (k x) (k' x)) :
    ELe (a >>= k) (a' >>= k') := by
  intro h
  cases hx : a with
  | error e =>
    have : a' = .error e := by
      rw [ha (by rw [hx]; intro hh; cases hh; apply h; rw [hx]; rfl), hx]
    rw [this]; rfl
  | ok r =>
    have : a' = .ok r := by rw [ha (by rw [hx]; intro hh; cases hh), hx]
    rw [this]
    rw [hx] at h
    exact hk r h

theorem ELe_ite {c : Prop} [Decidable c] {a a' b b' : Except PErr α} (ha : ELe a a') (hb : ELe b b') :
    ELe (if c then a else b) (if c then a' else b') := by
  split
  · exact ha
  · exact hb

/-! ## the operator-precedence climber: more fuel and a more defined `simple` -/

section
variable {σ ε Err T : Type} {S S' : ExprSig σ ε Err T}

theorem climb_fle (hS : SameCursor S S') (hx : ∀ s, S.simple s ≠ .error S.fuelErr → S'.simple s = S.simple s) : ∀ f,
    (∀ limit s, climb S f limit s ≠ .error S.fuelErr → climb S' (f + 1) limit s = climb S f limit s) ∧
    (∀ limit acc s, climbLoop S f limit acc s ≠ .error S.fuelErr →
      climbLoop S' (f + 1) limit acc s = climbLoop S f limit acc s) := by
  intro f
  induction f with
  | zero =>
    constructor
    · intro limit s h; rw [climb_zero] at h; exact absurd rfl h
    · intro limit acc s h; rw [climbLoop_zero] at h; exact absurd rfl h
  | succ f ih =>
    obtain ⟨ihc, ihl⟩ := ih
    constructor
    · intro limit s
      rw [climb_succ S, climb_succ S']
      simp only [hS.peek, hS.unOf, hS.eat, hS.mkUn]
      cases S.unOf (S.peek s) with
      | some u =>
        simp only
        cases S.eat s with
        | error e => intro _; rfl
        | ok s1 =>
          simp only
          intro h
          have h1 := ihc UPRI s1
          cases hc : climb S f UPRI s1 with
          | error e =>
            rw [hc] at h h1
            rw [h1 (by intro hh; cases hh; exact h rfl)]
          | ok r =>
            obtain ⟨e, s2⟩ := r
            rw [hc] at h h1
            rw [h1 (by intro hh; cases hh)]
            exact ihl _ _ _ h
      | none =>
        simp only
        intro h
        have h1 := hx s
        cases hc : S.simple s with
        | error e =>
          rw [hc] at h h1
          rw [h1 (by intro hh; cases hh; exact h rfl)]
        | ok r =>
          obtain ⟨e, s2⟩ := r
          rw [hc] at h h1
          rw [h1 (by intro hh; cases hh)]
          exact ihl _ _ _ h
    · intro limit acc s
      rw [climbLoop_succ S, climbLoop_succ S']
      simp only [hS.peek, hS.binOf, hS.eat, hS.mkBin]
      cases S.binOf (S.peek s) with
      | none => intro _; rfl
      | some o =>
        simp only
        split
        · cases S.eat s with
          | error e => intro _; rfl
          | ok s1 =>
            simp only
            intro h
            have h1 := ihc (rp o) s1
            cases hc : climb S f (rp o) s1 with
            | error e =>
              rw [hc] at h h1
              rw [h1 (by intro hh; cases hh; exact h rfl)]
            | ok r =>
              obtain ⟨e, s2⟩ := r
              rw [hc] at h h1
              rw [h1 (by intro hh; cases hh)]
              exact ihl _ _ _ h
        · intro _; rfl

end

theorem climb_ele {x x' : List Tok → Except PErr (Exp × List Tok)} (hx : ∀ ts, ELe (x ts) (x' ts)) (f limit : Nat)
    (ts : List Tok) : ELe (climb (specSig x) f limit ts) (climb (specSig x') (f + 1) limit ts) :=
  (climb_fle (S := specSig x) (S' := specSig x') ⟨rfl, rfl, rfl, rfl, rfl, rfl, rfl⟩ hx f).1 limit ts

/-! ## all reference parse functions -/

/-- all reference parse functions at fuel `f + 1` are above themselves at fuel `f` -/
structure AllR (f : Nat) : Prop where
  statlist : ∀ (ts : List Tok), ELe (Spec.statlist f ts) (Spec.statlist (f + 1) ts)
  block : ∀ (ts : List Tok), ELe (Spec.block f ts) (Spec.block (f + 1) ts)
  statement : ∀ (ts : List Tok), ELe (Spec.statement f ts) (Spec.statement (f + 1) ts)
  ifrest : ∀ (ts : List Tok), ELe (Spec.ifrest f ts) (Spec.ifrest (f + 1) ts)
  namelistRest : ∀ (ts : List Tok), ELe (Spec.namelistRest f ts) (Spec.namelistRest (f + 1) ts)
  dottedRest : ∀ (ts : List Tok), ELe (Spec.dottedRest f ts) (Spec.dottedRest (f + 1) ts)
  attnamelist : ∀ (ts : List Tok), ELe (Spec.attnamelist f ts) (Spec.attnamelist (f + 1) ts)
  restassign : ∀ (ts : List Tok), ELe (Spec.restassign f ts) (Spec.restassign (f + 1) ts)
  explist : ∀ (ts : List Tok), ELe (Spec.explist f ts) (Spec.explist (f + 1) ts)
  expr : ∀ (ts : List Tok), ELe (Spec.expr f ts) (Spec.expr (f + 1) ts)
  simpleexp : ∀ (ts : List Tok), ELe (Spec.simpleexp f ts) (Spec.simpleexp (f + 1) ts)
  suffixedexp : ∀ (ts : List Tok), ELe (Spec.suffixedexp f ts) (Spec.suffixedexp (f + 1) ts)
  suffixes : ∀ (e : Exp) (ts : List Tok), ELe (Spec.suffixes f e ts) (Spec.suffixes (f + 1) e ts)
  funcargs : ∀ (ts : List Tok), ELe (Spec.funcargs f ts) (Spec.funcargs (f + 1) ts)
  fields : ∀ (ts : List Tok), ELe (Spec.fields f ts) (Spec.fields (f + 1) ts)
  body : ∀ (ts : List Tok), ELe (Spec.body f ts) (Spec.body (f + 1) ts)
  parlist : ∀ (ts : List Tok), ELe (Spec.parlist f ts) (Spec.parlist (f + 1) ts)
  parlist1 : ∀ (ts : List Tok), ELe (Spec.parlist1 f ts) (Spec.parlist1 (f + 1) ts)

macro "guard_ele" : tactic => `(tactic| with_reducible show ELe _ _)

syntax "ele_step " ident : tactic
macro_rules
  | `(tactic| ele_step $ih) => `(tactic| (guard_ele; first
    | with_reducible exact ELe_refl _
    | with_reducible apply ($ih).statlist
    | with_reducible apply ($ih).block
    | with_reducible apply ($ih).statement
    | with_reducible apply ($ih).ifrest
    | with_reducible apply ($ih).namelistRest
    | with_reducible apply ($ih).dottedRest
    | with_reducible apply ($ih).attnamelist
    | with_reducible apply ($ih).restassign
    | with_reducible apply ($ih).explist
    | with_reducible apply ($ih).expr
    | with_reducible apply ($ih).simpleexp
    | with_reducible apply ($ih).suffixedexp
    | with_reducible apply ($ih).suffixes
    | with_reducible apply ($ih).funcargs
    | with_reducible apply ($ih).fields
    | with_reducible apply ($ih).body
    | with_reducible apply ($ih).parlist
    | with_reducible apply ($ih).parlist1
    | (with_reducible refine ELe_bind ?_ (fun _ => ?_))
    | with_reducible apply ELe_ite
    | split))
macro "ele " ih:ident : tactic => `(tactic| repeat' ele_step $ih)

theorem statlist_mono_step {f : Nat} (ih : AllR f) (ts : List Tok) :
    ELe (Spec.statlist (f + 1) ts) (Spec.statlist (f + 1 + 1) ts) := by
  rw [Spec.statlist, Spec.statlist]
  ele ih

theorem block_mono_step {f : Nat} (ih : AllR f) (ts : List Tok) :
    ELe (Spec.block (f + 1) ts) (Spec.block (f + 1 + 1) ts) := by
  rw [Spec.block, Spec.block]
  ele ih

theorem statement_mono_step {f : Nat} (ih : AllR f) (ts : List Tok) :
    ELe (Spec.statement (f + 1) ts) (Spec.statement (f + 1 + 1) ts) := by
  rw [Spec.statement, Spec.statement]
  ele ih

theorem ifrest_mono_step {f : Nat} (ih : AllR f) (ts : List Tok) :
    ELe (Spec.ifrest (f + 1) ts) (Spec.ifrest (f + 1 + 1) ts) := by
  rw [Spec.ifrest, Spec.ifrest]
  ele ih

theorem namelistRest_mono_step {f : Nat} (ih : AllR f) (ts : List Tok) :
    ELe (Spec.namelistRest (f + 1) ts) (Spec.namelistRest (f + 1 + 1) ts) := by
  rw [Spec.namelistRest, Spec.namelistRest]
  ele ih

theorem dottedRest_mono_step {f : Nat} (ih : AllR f) (ts : List Tok) :
    ELe (Spec.dottedRest (f + 1) ts) (Spec.dottedRest (f + 1 + 1) ts) := by
  rw [Spec.dottedRest, Spec.dottedRest]
  ele ih

theorem attnamelist_mono_step {f : Nat} (ih : AllR f) (ts : List Tok) :
    ELe (Spec.attnamelist (f + 1) ts) (Spec.attnamelist (f + 1 + 1) ts) := by
  rw [Spec.attnamelist, Spec.attnamelist]
  ele ih

theorem restassign_mono_step {f : Nat} (ih : AllR f) (ts : List Tok) :
    ELe (Spec.restassign (f + 1) ts) (Spec.restassign (f + 1 + 1) ts) := by
  rw [Spec.restassign, Spec.restassign]
  ele ih

theorem explist_mono_step {f : Nat} (ih : AllR f) (ts : List Tok) :
    ELe (Spec.explist (f + 1) ts) (Spec.explist (f + 1 + 1) ts) := by
  rw [Spec.explist, Spec.explist]
  ele ih

theorem expr_mono_step {f : Nat} (ih : AllR f) (ts : List Tok) :
    ELe (Spec.expr (f + 1) ts) (Spec.expr (f + 1 + 1) ts) := by
  rw [Spec.expr, Spec.expr]
  exact climb_ele ih.simpleexp (f + 1) 0 ts

theorem simpleexp_mono_step {f : Nat} (ih : AllR f) (ts : List Tok) :
    ELe (Spec.simpleexp (f + 1) ts) (Spec.simpleexp (f + 1 + 1) ts) := by
  rw [Spec.simpleexp, Spec.simpleexp]
  ele ih

theorem suffixedexp_mono_step {f : Nat} (ih : AllR f) (ts : List Tok) :
    ELe (Spec.suffixedexp (f + 1) ts) (Spec.suffixedexp (f + 1 + 1) ts) := by
  rw [Spec.suffixedexp, Spec.suffixedexp]
  ele ih

theorem suffixes_mono_step {f : Nat} (ih : AllR f) (e : Exp) (ts : List Tok) :
    ELe (Spec.suffixes (f + 1) e ts) (Spec.suffixes (f + 1 + 1) e ts) := by
  rw [Spec.suffixes, Spec.suffixes]
  ele ih

theorem funcargs_mono_step {f : Nat} (ih : AllR f) (ts : List Tok) :
    ELe (Spec.funcargs (f + 1) ts) (Spec.funcargs (f + 1 + 1) ts) := by
  rw [Spec.funcargs, Spec.funcargs]
  ele ih

theorem fields_mono_step {f : Nat} (ih : AllR f) (ts : List Tok) :
    ELe (Spec.fields (f + 1) ts) (Spec.fields (f + 1 + 1) ts) := by
  rw [Spec.fields, Spec.fields]
  ele ih

theorem body_mono_step {f : Nat} (ih : AllR f) (ts : List Tok) :
    ELe (Spec.body (f + 1) ts) (Spec.body (f + 1 + 1) ts) := by
  rw [Spec.body, Spec.body]
  ele ih

theorem parlist_mono_step {f : Nat} (ih : AllR f) (ts : List Tok) :
    ELe (Spec.parlist (f + 1) ts) (Spec.parlist (f + 1 + 1) ts) := by
  rw [Spec.parlist, Spec.parlist]
  ele ih

theorem parlist1_mono_step {f : Nat} (ih : AllR f) (ts : List Tok) :
    ELe (Spec.parlist1 (f + 1) ts) (Spec.parlist1 (f + 1 + 1) ts) := by
  rw [Spec.parlist1, Spec.parlist1]
  ele ih

theorem allR_zero : AllR 0 where
  statlist := fun _ => by rw [Spec.statlist]; exact ELe_fuel _
  block := fun _ => by rw [Spec.block]; exact ELe_fuel _
  statement := fun _ => by rw [Spec.statement]; exact ELe_fuel _
  ifrest := fun _ => by rw [Spec.ifrest]; exact ELe_fuel _
  namelistRest := fun _ => by rw [Spec.namelistRest]; exact ELe_fuel _
  dottedRest := fun _ => by rw [Spec.dottedRest]; exact ELe_fuel _
  attnamelist := fun _ => by rw [Spec.attnamelist]; exact ELe_fuel _
  restassign := fun _ => by rw [Spec.restassign]; exact ELe_fuel _
  explist := fun _ => by rw [Spec.explist]; exact ELe_fuel _
  expr := fun _ => by rw [Spec.expr]; exact ELe_fuel _
  simpleexp := fun _ => by rw [Spec.simpleexp]; exact ELe_fuel _
  suffixedexp := fun _ => by rw [Spec.suffixedexp]; exact ELe_fuel _
  suffixes := fun _ _ => by rw [Spec.suffixes]; exact ELe_fuel _
  funcargs := fun _ => by rw [Spec.funcargs]; exact ELe_fuel _
  fields := fun _ => by rw [Spec.fields]; exact ELe_fuel _
  body := fun _ => by rw [Spec.body]; exact ELe_fuel _
  parlist := fun _ => by rw [Spec.parlist]; exact ELe_fuel _
  parlist1 := fun _ => by rw [Spec.parlist1]; exact ELe_fuel _

theorem allR_succ {f : Nat} (ih : AllR f) : AllR (f + 1) where
  statlist := statlist_mono_step ih
  block := block_mono_step ih
  statement := statement_mono_step ih
  ifrest := ifrest_mono_step ih
  namelistRest := namelistRest_mono_step ih
  dottedRest := dottedRest_mono_step ih
  attnamelist := attnamelist_mono_step ih
  restassign := restassign_mono_step ih
  explist := explist_mono_step ih
  expr := expr_mono_step ih
  simpleexp := simpleexp_mono_step ih
  suffixedexp := suffixedexp_mono_step ih
  suffixes := suffixes_mono_step ih
  funcargs := funcargs_mono_step ih
  fields := fields_mono_step ih
  body := body_mono_step ih
  parlist := parlist_mono_step ih
  parlist1 := parlist1_mono_step ih

theorem allR : ∀ f, AllR f
  | 0 => allR_zero
  | f + 1 => allR_succ (allR f)

/-- **fuel monotonicity of the reference `block`**: more fuel never changes an outcome other than the fuel error -/
theorem block_mono_le {f g : Nat} (hfg : f ≤ g) (ts : List Tok) : ELe (Spec.block f ts) (Spec.block g ts) := by
  induction hfg with
  | refl => exact ELe_refl _
  | step _ ih => exact ELe_trans ih ((allR _).block ts)

/-- two fuels under which `block` does not run dry give the same outcome -/
theorem block_stable {f g : Nat} (ts : List Tok) (hf : Spec.block f ts ≠ .error fuelErr)
    (hg : Spec.block g ts ≠ .error fuelErr) : Spec.block f ts = Spec.block g ts := by
  rcases Nat.le_total f g with h | h
  · exact (block_mono_le h ts hf).symm
  · exact block_mono_le h ts hg

end Tumfl.Theory
