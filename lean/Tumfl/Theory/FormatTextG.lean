import Tumfl.Theory.FormatText
import Tumfl.Theory.TCG
/-!
# `format_items` / `format_lex` with guarded trailing commas (`TCG`)

`indent_brackets` writes a trailing comma only into a `{...}` group that it spreads over several lines: at least two
components, so the group is not empty, and the scan from the `}` backwards did not meet the `{` at once (`Lay.comma`: the
piece in front of the `}` is not `{`).  The adjacency discipline of the emitted pieces says that the piece directly in
front of a `}` is a token (`okPiece`: `s = "}" → σ.last = .tok _`), so it is not an Argument separator either.  Together:
`TCgd` (FormatTextDL.lean), which is `TCG` word for word.
-/
namespace Tumfl.Theory
open Tumfl Tumfl.Model

theorem TCgd.toTCG : ∀ {p a L}, TCgd p a L → TCG p a L
  | _, _, _, .nil => .nil
  | _, _, _, .str s h => .str s h.toTCG
  | _, _, _, .arg h => .arg h.toTCG
  | _, _, _, .sep k hk h => .sep k hk h.toTCG
  | _, _, _, .comma hs h => .comma hs h.toTCG

/-- **MAIN THEOREM, guarded form** -/
theorem format_items_g (sty : Style) (hd : DocStyle sty) (b : Block) (hp : Printable b)
    (hn : NumsCanon (numsBlock b))
    (hcm : ∀ s, .str s ∈ emit sty b → isCom s = true → Tidy s)
    (text : List Char) (h : format sty b = .ok text) :
    ∃ is ks L, LWF is ∧ renderItems is = text ∧ itemTks is = ks ∧ TCG none (emit sty b) L ∧
      ReadTks (L ++ [.sep .statement]) ks ∧ ∃ t, text = '-' :: t := by
  obtain ⟨is, ks0, L, hl, hr, _, _, hrd, hks, ht, _, htg⟩ := format_items_core sty hd b hp hn hcm text h
  refine ⟨is, itemTks is, L, hl, hr, rfl, htg.toTCG, ?_, ht⟩
  rcases hks with e | ⟨_, e⟩
  · rw [e]; exact readTks_snoc_skip hrd
  · rw [e]; exact readTks_snoc_semi hrd

/-- **COROLLARY, guarded form** -/
theorem format_lex_g (sty : Style) (hd : DocStyle sty) (b : Block) (hp : Printable b)
    (hn : NumsCanon (numsBlock b))
    (hcm : ∀ s, .str s ∈ emit sty b → isCom s = true → Tidy s)
    (text : List Char) (h : format sty b = .ok text) :
    ∃ ts ks L, Spec.lex text = .ok ts ∧ ts.map (·.tk) = ks ++ [.eof] ∧ TCG none (emit sty b) L ∧
      ReadTks (L ++ [.sep .statement]) ks := by
  obtain ⟨is, ks, L, hl, hr, hk, htc, hrd, t, ht⟩ := format_items_g sty hd b hp hn hcm text h
  have hsh : ∀ r, renderItems is ≠ '#' :: r := by
    intro r e
    rw [hr, ht] at e
    cases e
  obtain ⟨ts, h1, h2⟩ := unlex is hl hsh
  exact ⟨ts, ks, L, by rw [← hr]; exact h1, by rw [h2, hk], htc, hrd⟩

end Tumfl.Theory
