import Tumfl.Theory.SameProgramNorm
/-!
# What `normS` identifies and what it does not

* `normS_dropEmpty : normS (dropEmpty c) = normS c`.
* `normS_normal : NormalS (normS c)` and `normS_of_normal : NormalS c → normS c = c`: `normS` is a retraction onto the
  normal reference trees (no `paren`, no `Stat.empty`, every numeral canonical).  Hence it is idempotent, and two *normal*
  trees are identified only if they are equal: apart from parentheses, empty statements and the spelling of numerals with
  the same canonical form, `normS` identifies nothing (names, strings, operators, the shape of every statement, the order
  and number of statements, attributes, parameters, ... are all kept).
-/
namespace Tumfl.Theory
open Tumfl.Model

set_option linter.unusedVariables false

theorem isEmptyStat_deStat (s : Spec.Stat) : isEmptyStat (deStat s) = isEmptyStat s := by
  cases s <;> simp only [deStat, isEmptyStat]

theorem isEmptyStat_nsStat (s : Spec.Stat) : isEmptyStat (nsStat s) = isEmptyStat s := by
  cases s <;> simp only [nsStat, isEmptyStat]

/-! ## `normS` after the erasure of empty statements -/

mutual
theorem ns_deE : (c : Spec.Exp) → nsExp (deExp c) = nsExp c
  | .nil => by simp only [deExp]
  | .tru => by simp only [deExp]
  | .fls => by simp only [deExp]
  | .vararg => by simp only [deExp]
  | .num n => by simp only [deExp]
  | .str v => by simp only [deExp]
  | .func ps va body => by simp only [deExp, nsExp, ns_deB body]
  | .table fs => by simp only [deExp, nsExp, ns_deFs fs]
  | .bin o l r => by simp only [deExp, nsExp, ns_deE l, ns_deE r]
  | .un o e => by simp only [deExp, nsExp, ns_deE e]
  | .paren e => by simp only [deExp, nsExp, ns_deE e]
  | .name s => by simp only [deExp]
  | .index p k => by simp only [deExp, nsExp, ns_deE p, ns_deE k]
  | .dot p n => by simp only [deExp, nsExp, ns_deE p]
  | .call f args => by simp only [deExp, nsExp, ns_deE f, ns_deEs args]
  | .mcall f m args => by simp only [deExp, nsExp, ns_deE f, ns_deEs args]

theorem ns_deEs : (cs : List Spec.Exp) → nsExps (deExps cs) = nsExps cs
  | [] => by simp only [deExps]
  | e :: r => by simp only [deExps, nsExps, ns_deE e, ns_deEs r]

theorem ns_deFs : (cs : List Spec.Field) → nsFields (deFields cs) = nsFields cs
  | [] => by simp only [deFields]
  | f :: r => by simp only [deFields, nsFields, ns_deF f, ns_deFs r]

theorem ns_deF : (c : Spec.Field) → nsField (deField c) = nsField c
  | .pos e => by simp only [deField, nsField, ns_deE e]
  | .named n e => by simp only [deField, nsField, ns_deE e]
  | .keyed k e => by simp only [deField, nsField, ns_deE k, ns_deE e]

theorem ns_deB : (c : Spec.Block) → nsBlock (deBlock c) = nsBlock c
  | .mk ss none => by simp only [deBlock, nsBlock, ns_deSs ss]
  | .mk ss (some es) => by simp only [deBlock, nsBlock, ns_deSs ss, ns_deEs es]

theorem ns_deSs : (cs : List Spec.Stat) → nsStats (deStats cs) = nsStats cs
  | [] => by simp only [deStats]
  | s :: r => by
    simp only [deStats, nsStats]
    split
    · exact ns_deSs r
    · rename_i h
      simp only [nsStats, isEmptyStat_deStat, h, Bool.false_eq_true, if_false, ns_deS s, ns_deSs r]

theorem ns_deS : (c : Spec.Stat) → nsStat (deStat c) = nsStat c
  | .empty => by simp only [deStat]
  | .assign ts es => by simp only [deStat, nsStat, ns_deEs ts, ns_deEs es]
  | .call e => by simp only [deStat, nsStat, ns_deE e]
  | .label n => by simp only [deStat]
  | .brk => by simp only [deStat]
  | .goto n => by simp only [deStat]
  | .doo b => by simp only [deStat, nsStat, ns_deB b]
  | .whl c b => by simp only [deStat, nsStat, ns_deE c, ns_deB b]
  | .rep b c => by simp only [deStat, nsStat, ns_deE c, ns_deB b]
  | .iff c t elifs els => by simp only [deStat, nsStat, ns_deE c, ns_deB t, ns_deElifs elifs, ns_deOpt els]
  | .fornum v a b none body => by simp only [deStat, nsStat, ns_deE a, ns_deE b, ns_deB body]
  | .fornum v a b (some s) body => by simp only [deStat, nsStat, ns_deE a, ns_deE b, ns_deE s, ns_deB body]
  | .forin ns es body => by simp only [deStat, nsStat, ns_deEs es, ns_deB body]
  | .func ns m ps va body => by simp only [deStat, nsStat, ns_deB body]
  | .localfunc n ps va body => by simp only [deStat, nsStat, ns_deB body]
  | .locl ns es => by simp only [deStat, nsStat, ns_deEs es]

theorem ns_deElifs : (cs : List Spec.ElseIf) → nsElifs (deElifs cs) = nsElifs cs
  | [] => by simp only [deElifs]
  | .mk c b :: r => by simp only [deElifs, nsElifs, ns_deE c, ns_deB b, ns_deElifs r]

theorem ns_deOpt : (c : Option Spec.Block) → nsOptBlock (deOptBlock c) = nsOptBlock c
  | none => by simp only [deOptBlock]
  | some b => by simp only [deOptBlock, nsOptBlock, ns_deB b]
end

/-- empty statements are erased by `normS` anyway -/
theorem normS_dropEmpty (c : Spec.Block) : normS (dropEmpty c) = normS c := ns_deB c

/-! ## the result of `normS` is normal -/

mutual
theorem nf_nsE : (c : Spec.Exp) → nfExp (nsExp c) = true
  | .nil => by simp only [nsExp, nfExp]
  | .tru => by simp only [nsExp, nfExp]
  | .fls => by simp only [nsExp, nfExp]
  | .vararg => by simp only [nsExp, nfExp]
  | .num n => by simp only [nsExp, nfExp, canon_idem, beq_self_eq_true]
  | .str v => by simp only [nsExp, nfExp]
  | .func ps va body => by simp only [nsExp, nfExp, nf_nsB body]
  | .table fs => by simp only [nsExp, nfExp, nf_nsFs fs]
  | .bin o l r => by simp only [nsExp, nfExp, nf_nsE l, nf_nsE r, Bool.and_self]
  | .un o e => by simp only [nsExp, nfExp, nf_nsE e]
  | .paren e => by simp only [nsExp, nf_nsE e]
  | .name s => by simp only [nsExp, nfExp]
  | .index p k => by simp only [nsExp, nfExp, nf_nsE p, nf_nsE k, Bool.and_self]
  | .dot p n => by simp only [nsExp, nfExp, nf_nsE p]
  | .call f args => by simp only [nsExp, nfExp, nf_nsE f, nf_nsEs args, Bool.and_self]
  | .mcall f m args => by simp only [nsExp, nfExp, nf_nsE f, nf_nsEs args, Bool.and_self]

theorem nf_nsEs : (cs : List Spec.Exp) → nfExps (nsExps cs) = true
  | [] => by simp only [nsExps, nfExps]
  | e :: r => by simp only [nsExps, nfExps, nf_nsE e, nf_nsEs r, Bool.and_self]

theorem nf_nsFs : (cs : List Spec.Field) → nfFields (nsFields cs) = true
  | [] => by simp only [nsFields, nfFields]
  | f :: r => by simp only [nsFields, nfFields, nf_nsF f, nf_nsFs r, Bool.and_self]

theorem nf_nsF : (c : Spec.Field) → nfField (nsField c) = true
  | .pos e => by simp only [nsField, nfField, nf_nsE e]
  | .named n e => by simp only [nsField, nfField, nf_nsE e]
  | .keyed k e => by simp only [nsField, nfField, nf_nsE k, nf_nsE e, Bool.and_self]

theorem nf_nsB : (c : Spec.Block) → nfBlock (nsBlock c) = true
  | .mk ss none => by simp only [nsBlock, nfBlock, nf_nsSs ss, Bool.and_self]
  | .mk ss (some es) => by simp only [nsBlock, nfBlock, nf_nsSs ss, nf_nsEs es, Bool.and_self]

theorem nf_nsSs : (cs : List Spec.Stat) → nfStats (nsStats cs) = true
  | [] => by simp only [nsStats, nfStats]
  | s :: r => by
    simp only [nsStats]
    split
    · exact nf_nsSs r
    · rename_i h
      simp only [nfStats, isEmptyStat_nsStat, h, nf_nsS s, nf_nsSs r, Bool.not_false, Bool.and_self]

theorem nf_nsS : (c : Spec.Stat) → nfStat (nsStat c) = true
  | .empty => by simp only [nsStat, nfStat]
  | .assign ts es => by simp only [nsStat, nfStat, nf_nsEs ts, nf_nsEs es, Bool.and_self]
  | .call e => by simp only [nsStat, nfStat, nf_nsE e]
  | .label n => by simp only [nsStat, nfStat]
  | .brk => by simp only [nsStat, nfStat]
  | .goto n => by simp only [nsStat, nfStat]
  | .doo b => by simp only [nsStat, nfStat, nf_nsB b]
  | .whl c b => by simp only [nsStat, nfStat, nf_nsE c, nf_nsB b, Bool.and_self]
  | .rep b c => by simp only [nsStat, nfStat, nf_nsE c, nf_nsB b, Bool.and_self]
  | .iff c t elifs els => by
    simp only [nsStat, nfStat, nf_nsE c, nf_nsB t, nf_nsElifs elifs, nf_nsOpt els, Bool.and_self]
  | .fornum v a b none body => by simp only [nsStat, nfStat, nf_nsE a, nf_nsE b, nf_nsB body, Bool.and_self]
  | .fornum v a b (some s) body => by
    simp only [nsStat, nfStat, nf_nsE a, nf_nsE b, nf_nsE s, nf_nsB body, Bool.and_self]
  | .forin ns es body => by simp only [nsStat, nfStat, nf_nsEs es, nf_nsB body, Bool.and_self]
  | .func ns m ps va body => by simp only [nsStat, nfStat, nf_nsB body]
  | .localfunc n ps va body => by simp only [nsStat, nfStat, nf_nsB body]
  | .locl ns es => by simp only [nsStat, nfStat, nf_nsEs es]

theorem nf_nsElifs : (cs : List Spec.ElseIf) → nfElifs (nsElifs cs) = true
  | [] => by simp only [nsElifs, nfElifs]
  | .mk c b :: r => by simp only [nsElifs, nfElifs, nf_nsE c, nf_nsB b, nf_nsElifs r, Bool.and_self]

theorem nf_nsOpt : (c : Option Spec.Block) → nfOptBlock (nsOptBlock c) = true
  | none => by simp only [nsOptBlock, nfOptBlock]
  | some b => by simp only [nsOptBlock, nfOptBlock, nf_nsB b]
end

/-- the result of `normS` has no parenthesis, no empty statement, and only canonical numerals -/
theorem normS_normal (c : Spec.Block) : NormalS (normS c) := nf_nsB c

/-! ## `normS` does not change a normal tree -/

mutual
theorem ns_nfE : (c : Spec.Exp) → nfExp c = true → nsExp c = c
  | .nil, _ => by simp only [nsExp]
  | .tru, _ => by simp only [nsExp]
  | .fls, _ => by simp only [nsExp]
  | .vararg, _ => by simp only [nsExp]
  | .num n, h => by
    simp only [nfExp, beq_iff_eq] at h
    simp only [nsExp, h]
  | .str v, _ => by simp only [nsExp]
  | .func ps va body, h => by
    simp only [nfExp] at h
    simp only [nsExp, ns_nfB body h]
  | .table fs, h => by
    simp only [nfExp] at h
    simp only [nsExp, ns_nfFs fs h]
  | .bin o l r, h => by
    simp only [nfExp, Bool.and_eq_true] at h
    simp only [nsExp, ns_nfE l h.1, ns_nfE r h.2]
  | .un o e, h => by
    simp only [nfExp] at h
    simp only [nsExp, ns_nfE e h]
  | .paren e, h => by simp [nfExp] at h
  | .name s, _ => by simp only [nsExp]
  | .index p k, h => by
    simp only [nfExp, Bool.and_eq_true] at h
    simp only [nsExp, ns_nfE p h.1, ns_nfE k h.2]
  | .dot p n, h => by
    simp only [nfExp] at h
    simp only [nsExp, ns_nfE p h]
  | .call f args, h => by
    simp only [nfExp, Bool.and_eq_true] at h
    simp only [nsExp, ns_nfE f h.1, ns_nfEs args h.2]
  | .mcall f m args, h => by
    simp only [nfExp, Bool.and_eq_true] at h
    simp only [nsExp, ns_nfE f h.1, ns_nfEs args h.2]

theorem ns_nfEs : (cs : List Spec.Exp) → nfExps cs = true → nsExps cs = cs
  | [], _ => by simp only [nsExps]
  | e :: r, h => by
    simp only [nfExps, Bool.and_eq_true] at h
    simp only [nsExps, ns_nfE e h.1, ns_nfEs r h.2]

theorem ns_nfFs : (cs : List Spec.Field) → nfFields cs = true → nsFields cs = cs
  | [], _ => by simp only [nsFields]
  | f :: r, h => by
    simp only [nfFields, Bool.and_eq_true] at h
    simp only [nsFields, ns_nfF f h.1, ns_nfFs r h.2]

theorem ns_nfF : (c : Spec.Field) → nfField c = true → nsField c = c
  | .pos e, h => by
    simp only [nfField] at h
    simp only [nsField, ns_nfE e h]
  | .named n e, h => by
    simp only [nfField] at h
    simp only [nsField, ns_nfE e h]
  | .keyed k e, h => by
    simp only [nfField, Bool.and_eq_true] at h
    simp only [nsField, ns_nfE k h.1, ns_nfE e h.2]

theorem ns_nfB : (c : Spec.Block) → nfBlock c = true → nsBlock c = c
  | .mk ss none, h => by
    simp only [nfBlock, Bool.and_true] at h
    simp only [nsBlock, ns_nfSs ss h]
  | .mk ss (some es), h => by
    simp only [nfBlock, Bool.and_eq_true] at h
    simp only [nsBlock, ns_nfSs ss h.1, ns_nfEs es h.2]

theorem ns_nfSs : (cs : List Spec.Stat) → nfStats cs = true → nsStats cs = cs
  | [], _ => by simp only [nsStats]
  | s :: r, h => by
    simp only [nfStats, Bool.and_eq_true, Bool.not_eq_true'] at h
    simp only [nsStats, h.1.1, Bool.false_eq_true, if_false, ns_nfS s h.1.2, ns_nfSs r h.2]

theorem ns_nfS : (c : Spec.Stat) → nfStat c = true → nsStat c = c
  | .empty, _ => by simp only [nsStat]
  | .assign ts es, h => by
    simp only [nfStat, Bool.and_eq_true] at h
    simp only [nsStat, ns_nfEs ts h.1, ns_nfEs es h.2]
  | .call e, h => by
    simp only [nfStat] at h
    simp only [nsStat, ns_nfE e h]
  | .label n, _ => by simp only [nsStat]
  | .brk, _ => by simp only [nsStat]
  | .goto n, _ => by simp only [nsStat]
  | .doo b, h => by
    simp only [nfStat] at h
    simp only [nsStat, ns_nfB b h]
  | .whl c b, h => by
    simp only [nfStat, Bool.and_eq_true] at h
    simp only [nsStat, ns_nfE c h.1, ns_nfB b h.2]
  | .rep b c, h => by
    simp only [nfStat, Bool.and_eq_true] at h
    simp only [nsStat, ns_nfB b h.1, ns_nfE c h.2]
  | .iff c t elifs els, h => by
    simp only [nfStat, Bool.and_eq_true] at h
    simp only [nsStat, ns_nfE c h.1.1.1, ns_nfB t h.1.1.2, ns_nfElifs elifs h.1.2, ns_nfOpt els h.2]
  | .fornum v a b none body, h => by
    simp only [nfStat, Bool.and_eq_true, Bool.and_true] at h
    simp only [nsStat, ns_nfE a h.1.1, ns_nfE b h.1.2, ns_nfB body h.2]
  | .fornum v a b (some s) body, h => by
    simp only [nfStat, Bool.and_eq_true] at h
    simp only [nsStat, ns_nfE a h.1.1.1, ns_nfE b h.1.1.2, ns_nfE s h.1.2, ns_nfB body h.2]
  | .forin ns es body, h => by
    simp only [nfStat, Bool.and_eq_true] at h
    simp only [nsStat, ns_nfEs es h.1, ns_nfB body h.2]
  | .func ns m ps va body, h => by
    simp only [nfStat] at h
    simp only [nsStat, ns_nfB body h]
  | .localfunc n ps va body, h => by
    simp only [nfStat] at h
    simp only [nsStat, ns_nfB body h]
  | .locl ns es, h => by
    simp only [nfStat] at h
    simp only [nsStat, ns_nfEs es h]

theorem ns_nfElifs : (cs : List Spec.ElseIf) → nfElifs cs = true → nsElifs cs = cs
  | [], _ => by simp only [nsElifs]
  | .mk c b :: r, h => by
    simp only [nfElifs, Bool.and_eq_true] at h
    simp only [nsElifs, ns_nfE c h.1.1, ns_nfB b h.1.2, ns_nfElifs r h.2]

theorem ns_nfOpt : (c : Option Spec.Block) → nfOptBlock c = true → nsOptBlock c = c
  | none, _ => by simp only [nsOptBlock]
  | some b, h => by
    simp only [nfOptBlock] at h
    simp only [nsOptBlock, ns_nfB b h]
end

/-- a normal tree is its own normal form -/
theorem normS_of_normal {c : Spec.Block} (h : NormalS c) : normS c = c := ns_nfB c h

theorem normS_idem (c : Spec.Block) : normS (normS c) = normS c := normS_of_normal (normS_normal c)

/-- **what `normS` does not identify**: two normal trees (no parenthesis, no empty statement, canonical numerals) have the
same `normS` only if they are equal -/
theorem normS_inj_on_normal {c c' : Spec.Block} (h : NormalS c) (h' : NormalS c') : normS c = normS c' ↔ c = c' := by
  rw [normS_of_normal h, normS_of_normal h']

/-- two trees have the same `normS` exactly when they have a common normal tree as normal form -/
theorem normS_eq_iff {c c' : Spec.Block} : normS c = normS c' ↔ ∃ n, NormalS n ∧ normS c = n ∧ normS c' = n :=
  ⟨fun h => ⟨normS c, normS_normal c, rfl, h.symm⟩, fun ⟨n, _, h1, h2⟩ => h1.trans h2.symm⟩

end Tumfl.Theory
