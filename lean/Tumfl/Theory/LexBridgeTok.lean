import Tumfl.Theory.LexBridgeWord
import Tumfl.Theory.LexBridgeSym
import Tumfl.Theory.LexBridgeStrA
import Tumfl.Theory.LexBridgeStrB
import Tumfl.Theory.LexBridgeNum
/-!
# LexBridge, part 4: one token - `scanToken` (model) against `lexOne` (reference)

`scanToken_sound` (A) and `scanToken_complete` (B), class by class.
-/
namespace Tumfl.Theory
open Tumfl.Model Tumfl

/-- A: what the model delivers, the reference delivers, related -/
def TokSound (X : Except PyErr (Token × LexSt)) (Y : Option (Spec.Tk × List Char)) : Prop :=
  ∀ tok s', X = .ok (tok, s') → ∃ tk, Y = some (tk, s'.rest) ∧ TkRel tok tk

/-- B: what the reference delivers (in scope), the model delivers, related -/
def TokComplete (X : Except PyErr (Token × LexSt)) (Y : Option (Spec.Tk × List Char)) : Prop :=
  ∀ tk r', Y = some (tk, r') → InScopeTk tk → ∃ tok s', X = .ok (tok, s') ∧ s'.rest = r' ∧ TkRel tok tk

theorem agree_ok {tok : Token} {s' : LexSt} {tk : Spec.Tk} {r : List Char} (h1 : TkRel tok tk) (h2 : s'.rest = r) :
    TokSound (.ok (tok, s')) (some (tk, r)) ∧ TokComplete (.ok (tok, s')) (some (tk, r)) := by
  constructor
  · intro tok' s'' h
    obtain ⟨rfl, rfl⟩ := ok_pair h
    exact ⟨tk, by rw [h2], h1⟩
  · intro tk' r' h _
    simp only [Option.some.injEq, Prod.mk.injEq] at h
    obtain ⟨rfl, rfl⟩ := h
    exact ⟨tok, s', rfl, h2, h1⟩

theorem agree_err {e : PyErr} : TokSound (.error e) none ∧ TokComplete (.error e) none := by
  constructor
  · intro tok s' h; cases h
  · intro tk r' h; cases h

/-! ## `scanToken` and `lexOne` cut into classes -/

def wordPart (cfg : LexCfg) (s0 : LexSt) (a : Nat × Int × List (List Char)) : Except PyErr (Token × LexSt) :=
  match getName s0 with
  | .error e => .error e
  | .ok (name, s1) =>
    match keywordOf cfg name with
    | some t => .ok (mkTok t (.str name) a, s1)
    | none => .ok (mkTok .NAME (.str name) a, s1)

def numPart (s0 : LexSt) (a : Nat × Int × List (List Char)) : Except PyErr (Token × LexSt) :=
  if numReject (getNumber s0) then lexErrorAt "Malformed number" (a.1 - 1) (a.2.1 - 1)
  else .ok (mkTok .NUMBER (.num (getNumber s0).1) a, (getNumber s0).2)

def strPart (cfg : LexCfg) (s0 : LexSt) (a : Nat × Int × List (List Char)) : Except PyErr (Token × LexSt) :=
  match getString cfg.ignoreUnicode s0 with
  | .error e => .error e
  | .ok (v, s1) => .ok (mkTok .STRING (.str v) a, s1)

def longPart (s0 : LexSt) (a : Nat × Int × List (List Char)) : Except PyErr (Token × LexSt) :=
  match getLongBrackets s0 with
  | .error e => .error e
  | .ok (v, s1) => .ok (mkTok .STRING (.str v) a, s1)

theorem scanToken_eq (cfg : LexCfg) (s : LexSt) (c : Char) :
    scanToken cfg s c =
      if Gen.letter.contains c then wordPart cfg (tokenArgs s).2 (tokenArgs s).1
      else if Gen.number.contains c || (c == '.' && inStr (tokenArgs s).2.peek Gen.number) then
        numPart (tokenArgs s).2 (tokenArgs s).1
      else if c == '\'' || c == '"' then strPart cfg (tokenArgs s).2 (tokenArgs s).1
      else if c == '[' && ((tokenArgs s).2.peek == some '[' || (tokenArgs s).2.peek == some '=') then
        longPart (tokenArgs s).2 (tokenArgs s).1
      else symPart (tokenArgs s).2 c (tokenArgs s).1 := rfl

/-- the long-string branch of `lexOne` -/
def longTk (t : List Char) : Option (Spec.Tk × List Char) :=
  match Spec.longOpener t with
  | some (lvl, body) =>
    (Spec.longBody lvl (Spec.dropFirstNewline body)).map fun p => (.str (p.1.map fun ch => .ch ch.toNat), p.2)
  | none => none

theorem lexOne_cons (c : Char) (cs : List Char) :
    lexOne (c :: cs) =
      if Spec.isAlpha c then some (wordTk (Spec.spanName (c :: cs)).1, (Spec.spanName (c :: cs)).2)
      else if Spec.isDigit c || (c == '.' && nextIsDigit cs) then
        (Spec.parseNumeral (numScan c cs).1).map fun nm => (.num nm, (numScan c cs).2)
      else if c == '"' || c == '\'' then
        (Spec.strBody c (cs.length + 1) cs).map fun p => (.str p.1, p.2)
      else
        match symAt (c :: cs) with
        | some (s, r) => some (.sym s, r)
        | none => if c == '[' then longTk (c :: cs) else none := by
  rw [lexOne]
  rfl

theorem inStr_peek (s0 : LexSt) (c : Char) (cs : List Char) (hs : s0.rest = c :: cs) :
    inStr s0.peek Gen.number = nextIsDigit cs := by
  rw [peek_eq hs]
  cases cs with
  | nil => rfl
  | cons d t => simp only [List.head?_cons, inStr, nextIsDigit, number_contains]

/-! ## words -/

theorem word_class (cfg : LexCfg) (hty : cfg.typed = false) (s0 : LexSt) (a : Nat × Int × List (List Char))
    (c : Char) (cs : List Char) (hs : s0.rest = c :: cs) (ha : Spec.isAlpha c = true) :
    TokSound (wordPart cfg s0 a) (some (wordTk (Spec.spanName (c :: cs)).1, (Spec.spanName (c :: cs)).2)) ∧
    TokComplete (wordPart cfg s0 a) (some (wordTk (Spec.spanName (c :: cs)).1, (Spec.spanName (c :: cs)).2)) := by
  obtain ⟨s1, e1, e2⟩ := getName_spanName s0 c cs hs (by rw [letter_contains]; exact ha)
  have hw : wordPart cfg s0 a = .ok (match keywordOf cfg (Spec.spanName (c :: cs)).1 with
      | some t => mkTok t (.str (Spec.spanName (c :: cs)).1) a
      | none => mkTok .NAME (.str (Spec.spanName (c :: cs)).1) a, s1) := by
    unfold wordPart
    rw [e1]
    simp only
    cases keywordOf cfg (Spec.spanName (c :: cs)).1 <;> rfl
  rw [hw]
  exact agree_ok (word_tkRel cfg hty _ a) e2

/-! ## numerals -/

theorem num_class (s0 : LexSt) (a : Nat × Int × List (List Char)) (c : Char) (cs : List Char) (hs : s0.rest = c :: cs)
    (hc : Spec.isDigit c = true ∨ (c = '.' ∧ nextIsDigit cs = true)) :
    TokSound (numPart s0 a) ((Spec.parseNumeral (numScan c cs).1).map fun nm => (.num nm, (numScan c cs).2)) ∧
    TokComplete (numPart s0 a) ((Spec.parseNumeral (numScan c cs).1).map fun nm => (.num nm, (numScan c cs).2)) := by
  constructor
  · intro tok s' h
    unfold numPart at h
    cases hr : numReject (getNumber s0) with
    | true => rw [hr] at h; simp only [if_true] at h; cases h
    | false =>
      rw [hr] at h
      simp only [Bool.false_eq_true, if_false] at h
      obtain ⟨rfl, rfl⟩ := ok_pair h
      obtain ⟨m, h1, h2, h3⟩ := number_sound s0 c cs hs hc hr
      refine ⟨.num m, by rw [h1, h2]; rfl, ?_⟩
      exact ⟨rfl, (getNumber s0).1, rfl, h3⟩
  · intro tk r' h _
    cases hp : Spec.parseNumeral (numScan c cs).1 with
    | none => rw [hp] at h; cases h
    | some m =>
      rw [hp] at h
      simp only [Option.map_some, Option.some.injEq, Prod.mk.injEq] at h
      obtain ⟨rfl, rfl⟩ := h
      obtain ⟨h1, h2, h3⟩ := number_complete s0 c cs hs hc m hp
      refine ⟨mkTok .NUMBER (.num (getNumber s0).1) a, (getNumber s0).2, ?_, h1, rfl, _, rfl, h2⟩
      unfold numPart
      simp only [h3, Bool.false_eq_true, if_false]

/-! ## quoted strings -/

theorem str_class (cfg : LexCfg) (hiu : cfg.ignoreUnicode = false) (s0 : LexSt) (a : Nat × Int × List (List Char))
    (q : Char) (cs : List Char) (hs : s0.rest = q :: cs) (hq : q = '"' ∨ q = '\'') :
    (NoCR cs → TokSound (strPart cfg s0 a) ((Spec.strBody q (cs.length + 1) cs).map fun p => (.str p.1, p.2))) ∧
    TokComplete (strPart cfg s0 a) ((Spec.strBody q (cs.length + 1) cs).map fun p => (.str p.1, p.2)) := by
  constructor
  · intro hcr tok s' h
    unfold strPart at h
    rw [hiu] at h
    cases hg : getString false s0 with
    | error e => rw [hg] at h; cases h
    | ok p =>
      obtain ⟨v, s1⟩ := p
      rw [hg] at h
      simp only at h
      obtain ⟨rfl, rfl⟩ := ok_pair h
      obtain ⟨items, hwf, hsc, hcs, hv⟩ := getString_items s0 q cs hq hs hcr v s1 hg
      have hb := spec_strBody_fuel q hq s1.rest items hwf (cs.length + 1) (by rw [hcs]; simp)
      rw [← hcs] at hb
      refine ⟨.str (unitsAll items), by rw [hb]; rfl, rfl, v, rfl, ?_⟩
      rw [hv, unitsAll_inScope items hsc]
  · intro tk r' h hin
    cases hb : Spec.strBody q (cs.length + 1) cs with
    | none => rw [hb] at h; cases h
    | some p =>
      obtain ⟨u, r⟩ := p
      rw [hb] at h
      simp only [Option.map_some, Option.some.injEq, Prod.mk.injEq] at h
      obtain ⟨rfl, rfl⟩ := h
      obtain ⟨items, hwf, hsc, hcs, hu⟩ := strBody_items q hq _ cs u r hb hin
      obtain ⟨s1, e1, e2⟩ := getString_spell q hq items hwf hsc s0 r (by rw [hs, hcs])
      refine ⟨mkTok .STRING (.str (valueAll items)) a, s1, ?_, e2, rfl, valueAll items, rfl, ?_⟩
      · unfold strPart
        rw [hiu, e1]
      · rw [hu, unitsAll_inScope items hsc]

/-! ## long strings -/

theorem longOpener_brack (r : List Char) : Spec.longOpener ('[' :: '[' :: r) = some (0, r) := by
  rw [longOpener_some_iff]
  rw [countEq_cons_ne (by decide)]

theorem symAt_long (cs : List Char) (hpk : cs.head? = some '[' ∨ cs.head? = some '=') : symAt ('[' :: cs) = none := by
  unfold symAt
  simp only [show (Spec.isSpace '[' || '[' == '"' || '[' == '\'' || Spec.isDigit '[' || Spec.isAlpha '[') = false by decide,
    show ('[' == '-') = false by decide, show ('[' == '[') = true by decide, Bool.false_eq_true, if_false, if_true]
  cases ho : Spec.longOpener ('[' :: cs) with
  | some p => rfl
  | none =>
    simp only
    cases cs with
    | nil => rcases hpk with h | h <;> cases h
    | cons d t =>
      simp only [List.head?_cons, Option.some.injEq] at hpk
      rcases hpk with rfl | rfl
      · rw [longOpener_brack] at ho; cases ho
      · rfl

theorem long_class (s0 : LexSt) (a : Nat × Int × List (List Char)) (cs : List Char) (hs : s0.rest = '[' :: cs)
    (hpk : cs.head? = some '[' ∨ cs.head? = some '=') :
    TokSound (longPart s0 a) (longTk ('[' :: cs)) ∧ TokComplete (longPart s0 a) (longTk ('[' :: cs)) := by
  have hpk' : s0.peek = some '=' ∨ s0.peek = some '[' := by
    rw [peek_eq hs]; exact hpk.symm
  constructor
  · intro tok s' h
    unfold longPart at h
    cases hg : getLongBrackets s0 with
    | error e => rw [hg] at h; cases h
    | ok p =>
      obtain ⟨v, s1⟩ := p
      rw [hg] at h
      simp only at h
      obtain ⟨rfl, rfl⟩ := ok_pair h
      obtain ⟨lvl, body, h1, h2⟩ := long_brackets_iff s0 cs hs hpk' v s1 hg
      rw [hs] at h1
      refine ⟨.str (v.map fun ch => .ch ch.toNat), ?_, rfl, v, rfl, rfl⟩
      unfold longTk
      rw [h1]
      simp only [h2, Option.map_some]
  · intro tk r' h _
    unfold longTk at h
    cases ho : Spec.longOpener ('[' :: cs) with
    | none => rw [ho] at h; cases h
    | some p =>
      obtain ⟨lvl, body⟩ := p
      rw [ho] at h
      simp only at h
      cases hb : Spec.longBody lvl (Spec.dropFirstNewline body) with
      | none => rw [hb] at h; cases h
      | some x =>
        obtain ⟨v, r⟩ := x
        rw [hb] at h
        simp only [Option.map_some, Option.some.injEq, Prod.mk.injEq] at h
        obtain ⟨rfl, rfl⟩ := h
        obtain ⟨s1, e1, e2⟩ := getLongBrackets_agree hs (by rw [hs]; exact ho) hb
        refine ⟨mkTok .STRING (.str v) a, s1, ?_, e2, rfl, v, rfl, rfl⟩
        unfold longPart
        rw [e1]

/-! ## symbols -/

theorem sym_class (s0 : LexSt) (a : Nat × Int × List (List Char)) (c : Char) (cs : List Char) (hs : s0.rest = c :: cs)
    (hg : symGuard c = false)
    (hcm : ¬ (c = '-' ∧ cs.head? = some '-'))
    (hlb : ¬ (c = '[' ∧ (cs.head? = some '[' ∨ cs.head? = some '=')))
    (hdd : ¬ (c = '.' ∧ nextIsDigit cs = true)) :
    TokSound (symPart s0 c a)
      (match symAt (c :: cs) with
        | some (s, r) => some (.sym s, r)
        | none => if c == '[' then longTk (c :: cs) else none) ∧
    TokComplete (symPart s0 c a)
      (match symAt (c :: cs) with
        | some (s, r) => some (.sym s, r)
        | none => if c == '[' then longTk (c :: cs) else none) := by
  have hag := symPart_agree s0 c cs a hs hg hcm hlb hdd
  cases hy : symAt (c :: cs) with
  | some p =>
    obtain ⟨str, r⟩ := p
    rw [hy] at hag
    cases hx : symPart s0 c a with
    | error e => rw [hx] at hag; exact hag.elim
    | ok q =>
      obtain ⟨tok, s'⟩ := q
      rw [hx] at hag
      obtain ⟨g1, g2, g3⟩ := hag
      exact agree_ok (tk := .sym str) ⟨g1, g2⟩ g3
  | none =>
    rw [hy] at hag
    have hnone : (if c == '[' then longTk (c :: cs) else none) = none := by
      by_cases hb : c = '['
      · subst hb
        have h1 : cs.head? ≠ some '[' := fun h => hlb ⟨rfl, Or.inl h⟩
        have h2 : cs.head? ≠ some '=' := fun h => hlb ⟨rfl, Or.inr h⟩
        simp only [beq_self_eq_true, if_true, longTk, longOpener_none' cs h1 h2]
      · have : (c == '[') = false := by simpa using hb
        simp only [this, Bool.false_eq_true, if_false]
    simp only [hnone]
    cases hx : symPart s0 c a with
    | error e => exact agree_err
    | ok q => rw [hx] at hag; exact hag.elim

/-! ## A and B -/

/-- both directions, for a state at a token start -/
theorem scanToken_agree (cfg : LexCfg) (hty : cfg.typed = false) (hiu : cfg.ignoreUnicode = false)
    (s : LexSt) (c : Char) (cs : List Char) (hs : s.rest = c :: cs) (hat : AtToken (c :: cs)) :
    (NoCR cs → TokSound (scanToken cfg s c) (lexOne (c :: cs))) ∧ TokComplete (scanToken cfg s c) (lexOne (c :: cs)) := by
  have hs0 : (tokenArgs s).2.rest = c :: cs := hs
  obtain ⟨hsp, hcm⟩ := hat
  rw [scanToken_eq, lexOne_cons, letter_contains, number_contains, inStr_peek _ c cs hs0, peek_eq hs0]
  by_cases ha : Spec.isAlpha c = true
  · simp only [ha, if_true]
    have := word_class cfg hty _ (tokenArgs s).1 c cs hs0 ha
    exact ⟨fun _ => this.1, this.2⟩
  simp only [ha, Bool.false_eq_true, if_false]
  by_cases hn : (Spec.isDigit c || (c == '.' && nextIsDigit cs)) = true
  · simp only [hn, if_true]
    have hc : Spec.isDigit c = true ∨ (c = '.' ∧ nextIsDigit cs = true) := by
      simpa using hn
    have := num_class _ (tokenArgs s).1 c cs hs0 hc
    exact ⟨fun _ => this.1, this.2⟩
  simp only [hn, Bool.false_eq_true, if_false]
  by_cases hq : (c == '"' || c == '\'') = true
  · have hq' : (c == '\'' || c == '"') = true := by rw [Bool.or_comm]; exact hq
    simp only [hq, hq', if_true]
    exact str_class cfg hiu _ (tokenArgs s).1 c cs hs0 (by simpa using hq)
  have hq' : (c == '\'' || c == '"') = false := by
    rw [Bool.or_comm]; simpa using hq
  simp only [hq, hq', Bool.false_eq_true, if_false]
  simp only [Bool.or_eq_true, Bool.and_eq_true, beq_iff_eq, not_or, not_and] at hn hq
  by_cases hl : (c == '[' && (cs.head? == some '[' || cs.head? == some '=')) = true
  · simp only [hl, if_true]
    simp only [Bool.and_eq_true, Bool.or_eq_true, beq_iff_eq] at hl
    obtain ⟨rfl, hpk⟩ := hl
    rw [symAt_long cs hpk]
    simp only [beq_self_eq_true, if_true]
    have := long_class _ (tokenArgs s).1 cs hs0 hpk
    exact ⟨fun _ => this.1, this.2⟩
  simp only [hl, Bool.false_eq_true, if_false]
  have hg : symGuard c = false := by
    have e1 : (c == '"') = false := by simpa using hq.1
    have e2 : (c == '\'') = false := by simpa using hq.2
    have e3 : Spec.isDigit c = false := by simpa using hn.1
    have e4 : Spec.isAlpha c = false := by simpa using ha
    simp only [symGuard, hsp, e1, e2, e3, e4, Bool.or_self]
  have := sym_class _ (tokenArgs s).1 c cs hs0 hg hcm
    (by intro ⟨h1, h2⟩; apply hl; simp only [Bool.and_eq_true, Bool.or_eq_true, beq_iff_eq]; exact ⟨h1, h2⟩)
    (by intro ⟨h1, h2⟩; exact hn.2 h1 h2)
  exact ⟨fun _ => this.1, this.2⟩

/-- **A. SOUNDNESS**: at a token start, what `scanToken` accepts, the reference lexer accepts as the related token,
ending at the same place (`NoCR`: no raw carriage return in the remaining text, needed for quoted strings only) -/
theorem scanToken_sound (cfg : LexCfg) (hty : cfg.typed = false) (hiu : cfg.ignoreUnicode = false)
    (s : LexSt) (c : Char) (cs : List Char) (hs : s.rest = c :: cs) (hat : AtToken s.rest) (hcr : NoCR s.rest)
    (tok : Token) (s' : LexSt) (h : scanToken cfg s c = .ok (tok, s')) :
    ∃ tk, lexOne s.rest = some (tk, s'.rest) ∧ TkRel tok tk := by
  rw [hs] at hat hcr ⊢
  have hcr' : NoCR cs := fun hm => hcr (List.mem_cons_of_mem _ hm)
  exact (scanToken_agree cfg hty hiu s c cs hs hat).1 hcr' tok s' h

/-- **B. COMPLETENESS**: at a token start, an in-scope token of the reference lexer is accepted by `scanToken`, as the
related token, ending at the same place -/
theorem scanToken_complete (cfg : LexCfg) (hty : cfg.typed = false) (hiu : cfg.ignoreUnicode = false)
    (s : LexSt) (c : Char) (cs : List Char) (hs : s.rest = c :: cs) (hat : AtToken s.rest)
    (tk : Spec.Tk) (r' : List Char) (h : lexOne s.rest = some (tk, r')) (hin : InScopeTk tk) :
    ∃ tok s', scanToken cfg s c = .ok (tok, s') ∧ s'.rest = r' ∧ TkRel tok tk := by
  rw [hs] at hat h
  exact (scanToken_agree cfg hty hiu s c cs hs hat).2 tk r' h hin

end Tumfl.Theory
