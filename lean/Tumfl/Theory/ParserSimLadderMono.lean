import Tumfl.Theory.LadderMono
import Tumfl.Theory.ClimbRel
/-!
# The ladder (and `climb`) are monotone in the simple-expression parser

`S.withSimple x` is `S` with its `simple` field replaced.  If `x` is (pointwise, on successes) below `x'`, then
every ladder function over `S.withSimple x` is below the one over `S.withSimple x'` at any larger fuel; likewise
for the big-step relation `CR` of `climb`.
-/
namespace Tumfl.Theory
open Tumfl.Spec Tumfl.Model

variable {σ ε Err T : Type}

def _root_.Tumfl.Spec.ExprSig.withSimple (S : ExprSig σ ε Err T) (x : σ → Except Err (ε × σ)) : ExprSig σ ε Err T :=
  { S with simple := x }

theorem leftLoop_withSimple (S : ExprSig σ ε Err T) (x : σ → PR σ ε Err) (ops : List BOp) (b : σ → PR σ ε Err) :
    ∀ f n s, leftLoop (S.withSimple x) ops b f n s = leftLoop S ops b f n s := by
  intro f
  induction f with
  | zero => intro n s; rw [leftLoop, leftLoop]; rfl
  | succ f ih =>
    intro n s
    rw [leftLoop_succ, leftLoop_succ]
    simp only [ih]
    rfl

theorem rightCollect_withSimple (S : ExprSig σ ε Err T) (x : σ → PR σ ε Err) (ops : List BOp) (b : σ → PR σ ε Err) :
    ∀ f s, rightCollect (S.withSimple x) ops b f s = rightCollect S ops b f s := by
  intro f
  induction f with
  | zero => intro s; rw [rightCollect, rightCollect]; rfl
  | succ f ih =>
    intro s
    rw [rightCollect_succ, rightCollect_succ]
    simp only [ih]
    rfl

theorem foldRight_withSimple (S : ExprSig σ ε Err T) (x : σ → PR σ ε Err) (n : ε) (items : List (T × BOp × ε)) :
    foldRight (S.withSimple x) n items = foldRight S n items := by
  induction items generalizing n with
  | nil => rfl
  | cons it rest ih =>
    obtain ⟨t, o, e⟩ := it
    simp only [foldRight, ih]
    rfl

theorem leftAssoc_withSimple (S : ExprSig σ ε Err T) (x : σ → PR σ ε Err) (ops : List BOp) (b : σ → PR σ ε Err)
    (f : Nat) (s : σ) : leftAssoc (S.withSimple x) ops b f s = leftAssoc S ops b f s := by
  unfold leftAssoc
  simp only [leftLoop_withSimple]

theorem rightAssoc_withSimple (S : ExprSig σ ε Err T) (x : σ → PR σ ε Err) (ops : List BOp) (b o : σ → PR σ ε Err)
    (f : Nat) (s : σ) : rightAssoc (S.withSimple x) ops b o f s = rightAssoc S ops b o f s := by
  unfold rightAssoc
  simp only [rightCollect_withSimple, foldRight_withSimple]

theorem unpow_mono_simple (S : ExprSig σ ε Err T) {x x' : σ → PR σ ε Err} (hx : PLe x x') (pw : List BOp) :
    ∀ f f', f ≤ f' →
      PLe (unLevel (S.withSimple x) pw f) (unLevel (S.withSimple x') pw f') ∧
      PLe (powLevel (S.withSimple x) pw f) (powLevel (S.withSimple x') pw f') := by
  intro f
  induction f with
  | zero =>
    intro f' _
    constructor
    · intro s r h; rw [unLevel] at h; cases h
    · intro s r h; rw [powLevel] at h; cases h
  | succ f ih =>
    intro f' hle
    obtain ⟨g, rfl⟩ : ∃ g, f' = g + 1 := ⟨f' - 1, by omega⟩
    obtain ⟨ihu, ihp⟩ := ih g (by omega)
    constructor
    · intro s r h
      rw [unLevel_succ] at h
      rw [unLevel_succ]
      split at h
      · rename_i u hu
        split at h
        · cases h
        · rename_i s1 he
          split at h
          · cases h
          · rename_i e s2 hr
            have hu' : (S.withSimple x').unOf ((S.withSimple x').peek s) = some u := hu
            have he' : (S.withSimple x').eat s = .ok s1 := he
            simp only [hu', he', ihu _ _ hr]
            exact h
      · rename_i hu
        have hu' : (S.withSimple x').unOf ((S.withSimple x').peek s) = none := hu
        simp only [hu']
        exact ihp _ _ h
    · intro s r h
      rw [powLevel_succ, rightAssoc_withSimple] at h
      rw [powLevel_succ, rightAssoc_withSimple]
      exact rightAssoc_mono (show PLe x x' from hx) ihu (by omega) _ _ h

theorem binLevels_mono_simple (S : ExprSig σ ε Err T) {x x' : σ → PR σ ε Err} (hx : PLe x x') (pw : List BOp) :
    ∀ f f' levels, f ≤ f' →
      PLe (binLevels (S.withSimple x) pw levels f) (binLevels (S.withSimple x') pw levels f') := by
  intro f
  induction f with
  | zero =>
    intro f' levels hle
    cases levels with
    | nil => intro s r h; rw [binLevels_nil] at h ⊢; exact (unpow_mono_simple S hx pw 0 f' hle).1 _ _ h
    | cons d rest => intro s r h; rw [binLevels] at h; cases h
  | succ f ih =>
    intro f' levels hle
    obtain ⟨g, rfl⟩ : ∃ g, f' = g + 1 := ⟨f' - 1, by omega⟩
    cases levels with
    | nil => intro s r h; rw [binLevels_nil] at h ⊢; exact (unpow_mono_simple S hx pw _ _ hle).1 _ _ h
    | cons d rest =>
      intro s r h
      rw [binLevels_cons_succ] at h ⊢
      cases hd : d.right
      · simp only [hd] at h ⊢
        rw [leftAssoc_withSimple] at h ⊢
        exact leftAssoc_mono (ih g rest (by omega)) (by omega) _ _ h
      · simp only [hd] at h ⊢
        rw [rightAssoc_withSimple] at h ⊢
        exact rightAssoc_mono (ih g rest (by omega)) (ih g (d :: rest) (by omega)) (by omega) _ _ h

/-- the ladder is monotone in the atom parser and in the fuel -/
theorem ladderExp_mono_simple (S : ExprSig σ ε Err T) {x x' : σ → PR σ ε Err} (hx : PLe x x')
    (levels : List LevelDesc) (pw : List BOp) {f f' : Nat} (hle : f ≤ f') :
    PLe (ladderExp (S.withSimple x) levels pw f) (ladderExp (S.withSimple x') levels pw f') :=
  binLevels_mono_simple S hx pw f f' levels hle

/-- the big-step relation of `climb` is monotone in the atom parser -/
theorem CR.mono_simple {S : ExprSig σ ε Err T} {x x' : σ → PR σ ε Err} (hx : PLe x x')
    {limit : Nat} {m : Option ε} {s : σ} {r : ε × σ} (h : CR (S.withSimple x) limit m s r) :
    CR (S.withSimple x') limit m s r := by
  induction h with
  | un hu he _ _ ih1 ih2 => exact CR.un (S := S.withSimple x') hu he ih1 ih2
  | simple hu hs _ ih => exact CR.simple (S := S.withSimple x') hu (hx _ _ hs) ih
  | step ho hlt he _ _ ih1 ih2 => exact CR.step (S := S.withSimple x') ho hlt he ih1 ih2
  | stop hq => exact CR.stop (S := S.withSimple x') hq

end Tumfl.Theory
