import Tumfl.Theory.PrintSimStmt4
/-!
# Statement lists and blocks: `Spec.statlist` / `Spec.block` on the tokens of a printed block

Continuation form (`SLCont`): whatever `statlist` returns on the rest, it returns with the statements of the printed prefix
in front.  The `;` guard of `visitStmts` is what makes the rest after a call / assignment a safe follower (`headSafe`).
-/
namespace Tumfl.Theory
open Tumfl.Model Tumfl.Spec

variable {semi : Bool} {sty : Style}

/-! ## `statlist` in continuation form -/

def SLCont (k : Nat) (ts : List Spec.Tok) (ss : List Stat) (r : Option (List Exp)) (ts' : List Spec.Tok) : Prop :=
  ∀ F, k ≤ F → statlist F ts = .ok (ss, r, ts')

theorem SLCont.mono {k k' : Nat} {ts ts' : List Spec.Tok} {ss : List Stat} {r : Option (List Exp)}
    (h : SLCont k ts ss r ts') (hk : k ≤ k') : SLCont k' ts ss r ts' :=
  fun F hF => h F (Nat.le_trans hk hF)

theorem startTk_facts {ts : List Spec.Tok} (h : startTk (pk ts) = true) :
    blockFollow true (pk ts) = false ∧ isKw "return" ts = false := by
  simp only [startTk, Bool.and_eq_true, Bool.not_eq_true', bne_iff_ne, ne_eq] at h
  refine ⟨h.1, ?_⟩
  unfold isKw
  split
  · rename_i x hx
    cases hb : x == "return" with
    | false => rfl
    | true =>
      have : x = "return" := by simpa using hb
      subst this
      exact absurd hx h.2
  · rfl

theorem statlist_stmt (F : Nat) (ts ts1 ts2 : List Spec.Tok) (s : Stat) (ss : List Stat) (r : Option (List Exp))
    (hstart : startTk (pk ts) = true) (h1 : statement F ts = .ok (s, ts1)) (h2 : statlist F ts1 = .ok (ss, r, ts2)) :
    statlist (F + 1) ts = .ok (s :: ss, r, ts2) := by
  obtain ⟨hb, hr⟩ := startTk_facts hstart
  rw [statlist]
  simp [hb, hr, h1, h2, bind, Except.bind]

theorem SL_stmt {n k : Nat} {ts ts1 ts' : List Spec.Tok} {c : Stat} {ss : List Stat} {r : Option (List Exp)}
    (hstart : startTk (pk ts) = true) (hst : ∀ F, n ≤ F → statement F ts = .ok (c, ts1))
    (hc : SLCont k ts1 ss r ts') : SLCont (max n k + 1) ts (c :: ss) r ts' := by
  intro F hF
  obtain ⟨F, rfl⟩ : ∃ f, F = f + 1 := ⟨F - 1, by omega⟩
  exact statlist_stmt F ts ts1 ts' c ss r hstart (hst F (by omega)) (hc F (by omega))

theorem SL_semis {k : Nat} {ts ts' : List Spec.Tok} {ss : List Stat} {r : Option (List Exp)} (hc : SLCont k ts ss r ts') :
    (n : Nat) → SLCont (k + n) (List.replicate n (mkTok (.sym ";")) ++ ts) (emp n ++ ss) r ts'
  | 0 => by simpa [emp] using hc
  | n + 1 => by
    have ih := SL_semis hc n
    have := SL_stmt (n := 1) (c := .empty) (ts := mkTok (.sym ";") :: (List.replicate n (mkTok (.sym ";")) ++ ts))
      (by rfl) (by
        intro F hF
        obtain ⟨F, rfl⟩ : ∃ f, F = f + 1 := ⟨F - 1, by omega⟩
        rw [statement]; simp) ih
    have hk : 1 ≤ k := by
      cases k with
      | zero => have := hc 0 (Nat.le_refl _); rw [statlist] at this; cases this
      | succ k => omega
    have h2 := SLCont.mono this (show max 1 (k + n) + 1 ≤ k + (n + 1) by omega)
    simpa [emp, List.replicate_succ] using h2

theorem semiT_eq (semi : Bool) : semiT semi = List.replicate (semiN semi) (mkTok (.sym ";")) := by
  cases semi <;> rfl

theorem SL_semiT {k : Nat} {ts ts' : List Spec.Tok} {ss : List Stat} {r : Option (List Exp)} (hc : SLCont k ts ss r ts')
    (semi : Bool) : SLCont (k + semiN semi) (semiT semi ++ ts) (emp (semiN semi) ++ ss) r ts' := by
  rw [semiT_eq]; exact SL_semis hc _

/-! ## the end of a block -/

theorem blockFollow_facts {k : Tk} (h : blockFollow true k = true) :
    safeTk k = true ∧ stopTk k = true ∧ k ≠ .sym ";" ∧ startTk k = false := by
  unfold blockFollow at h
  split at h <;> first | (refine ⟨by rfl, by rfl, by simp, by rfl⟩) | cases h

theorem SL_none {rest : List Spec.Tok} (h : blockFollow true (pk rest) = true) : SLCont 1 rest [] none rest := by
  intro F hF
  obtain ⟨F, rfl⟩ : ∃ f, F = f + 1 := ⟨F - 1, by omega⟩
  rw [statlist]; simp [h]

theorem isSym_of_blockFollow {rest : List Spec.Tok} (h : blockFollow true (pk rest) = true) : isSym ";" rest = false := by
  obtain ⟨_, _, h3, _⟩ := blockFollow_facts h
  unfold isSym
  split
  · rename_i x hx
    cases hb : x == ";" with
    | false => rfl
    | true =>
      have : x = ";" := by simpa using hb
      subst this
      exact absurd hx h3
  · rfl

theorem statlist_ret_nil (F : Nat) (ts1 : List Spec.Tok) (h : (blockFollow true (pk ts1) || isSym ";" ts1) = true) :
    statlist (F + 1) (mkTok (.kw "return") :: ts1) = .ok ([], some [], if isSym ";" ts1 then ts1.tail else ts1) := by
  have hb : blockFollow true (.kw "return") = false := rfl
  rw [statlist]
  simp only [pk_mkTok, tail_mkTok, isKw_mkTok, hb, h, beq_self_eq_true, Bool.false_eq_true, if_false, if_true]
  split <;> simp_all

theorem statlist_ret_list (F : Nat) (ts1 ts2 : List Spec.Tok) (es : List Exp)
    (h : (blockFollow true (pk ts1) || isSym ";" ts1) = false) (hex : explist F ts1 = .ok (es, ts2)) :
    statlist (F + 1) (mkTok (.kw "return") :: ts1) = .ok ([], some es, if isSym ";" ts2 then ts2.tail else ts2) := by
  have hb : blockFollow true (.kw "return") = false := rfl
  rw [statlist]
  simp only [pk_mkTok, tail_mkTok, isKw_mkTok, hb, h, beq_self_eq_true, Bool.false_eq_true, if_false, if_true, hex, bind,
    Except.bind]

theorem SL_ret (es : List Expr) (hp : pArgs es = true) (hall : ∀ e ∈ es, XProp semi sty e) (sep : Bool)
    {rest : List Spec.Tok} (h : blockFollow true (pk rest) = true) :
    SLCont (nA semi sty es + 1) (mkTok (.kw "return") :: (TK semi (visitArgs sty es) ++ (semiT sep ++ rest))) []
      (some (refArgs semi sty es)) rest := by
  intro F hF
  obtain ⟨F, rfl⟩ : ∃ f, F = f + 1 := ⟨F - 1, by omega⟩
  have hrest := isSym_of_blockFollow h
  have hfin : (if isSym ";" (semiT sep ++ rest) = true then (semiT sep ++ rest).tail else semiT sep ++ rest) = rest := by
    cases sep <;> simp [semiT, hrest, isSym_mkTok]
  cases es with
  | nil =>
    have : (blockFollow true (pk (semiT sep ++ rest)) || isSym ";" (semiT sep ++ rest)) = true := by
      cases sep <;> simp [semiT, h, isSym_mkTok]
    simp only [visitArgs, TK_nil, List.nil_append, refArgs]
    rw [statlist_ret_nil F _ this, hfin]
  | cons e r =>
    simp only [pArgs, Bool.and_eq_true] at hp
    obtain ⟨k, tks, hk, hs⟩ := visitArgs_head (semi := semi) (sty := sty) e r hp.1
    have hstop : stopTk (pk (semiT sep ++ rest)) = true := by
      cases sep
      · simpa [semiT] using (blockFollow_facts h).2.1
      · rfl
    have hex := args_of_all (e :: r) hall F (semiT sep ++ rest) (by omega) hstop (by simp)
    have hnb : (blockFollow true (pk (TK semi (visitArgs sty (e :: r)) ++ (semiT sep ++ rest))) ||
        isSym ";" (TK semi (visitArgs sty (e :: r)) ++ (semiT sep ++ rest))) = false := by
      rw [hk, List.cons_append, pk_mkTok, isSym_mkTok]
      revert hs
      unfold exprStartTk
      split <;> simp [blockFollow]
    rw [statlist_ret_list F _ _ _ hnb hex, hfin]

/-! ## the statement loop without its last separator -/

def initStmts (sty : Style) : Bool → List Stmt → Pieces
  | _, [] => []
  | first, s :: rest =>
    stmtCommentPieces sty s ++ stmtGuard first (visitStmt sty s) ++ visitStmt sty s ++
      (if rest.isEmpty then [] else S .statement :: initStmts sty false rest)

theorem visitStmts_init (sty : Style) : (first : Bool) → (ss : List Stmt) → ss ≠ [] →
    visitStmts sty first ss = initStmts sty first ss ++ [S .statement]
  | _, [], h => absurd rfl h
  | first, [s], _ => by
    rw [visitStmts_cons, initStmts]
    simp [visitStmts]
  | first, s :: s2 :: rest, _ => by
    have ih := visitStmts_init sty false (s2 :: rest) (by simp)
    rw [visitStmts_cons, ih]
    conv => rhs; rw [initStmts]
    simp

theorem TK_stmtGuard (first : Bool) (toks : Pieces) :
    TK semi (stmtGuard first toks) = if guardNeeded first toks then [mkTok (.sym ";")] else [] := by
  unfold stmtGuard guardNeeded
  split
  · cases first <;> simp
  · simp

end Tumfl.Theory
