import Tumfl.Theory.FormatText
import Tumfl.Theory.UnlexExample
/-!
# `format_items`: non-vacuity

A small tree (`local x = f("hi", 42)`, an `if` with a comparison against a negated name and a call with a table argument,
`return x`) and two styles - the default one and a minifying one - for which all hypotheses of the main theorem hold and
its conclusion is instantiated; and the two situations in which the statement needs its amendments (`;` appended to the
text, trailing comma in a reflowed table).
-/
namespace Tumfl.Theory
open Tumfl Tumfl.Model

def ft_exTok : Token := default

/-- `local x = f("hi", 42)  if x < -y then g({x}) end  return x` -/
def exTree : Block :=
  .mk ft_exTok
    [ .localAssign ft_exTok [.mk (.name ft_exTok "x".toList) none]
        (some [ .call ft_exTok (.name ft_exTok "f".toList)
          [.string ft_exTok "hi".toList, .number ft_exTok ⟨false, some "42".toList, none, none, none⟩] ]),
      .iff ft_exTok (.binop ft_exTok .lt (.name ft_exTok "x".toList) (.unop ft_exTok .neg (.name ft_exTok "y".toList)))
        (.mk ft_exTok [.call ft_exTok (.name ft_exTok "g".toList) [.table ft_exTok [.numbered ft_exTok (.name ft_exTok "x".toList)]]] none false)
        .none ]
    (some [.name ft_exTok "x".toList]) true

/-- the default style -/
def exStyleDefault : Style :=
  ⟨['\n'], ['\t'], [',', ' '], true, [' '], false, false, false, false, true, true, 4, 120, 5, false⟩
/-- a minifying style -/
def exStyleMin : Style := ⟨[';'], [], [','], false, [], false, true, true, false, false, false, 4, 0, 0, false⟩

theorem exStyleDefault_doc : DocStyle exStyleDefault := ⟨.inl rfl, by decide, .inr rfl, by decide⟩
theorem exStyleMin_doc : DocStyle exStyleMin := ⟨.inr rfl, by decide, .inl rfl, by decide⟩

theorem exTree_printable : Printable exTree := by decide

theorem exTree_nums : NumsCanon (numsBlock exTree) := by
  intro t ht
  have : numsBlock exTree = [⟨false, some "42".toList, none, none, none⟩] := by decide
  rw [this] at ht
  simp only [List.mem_singleton] at ht
  subst ht
  exact ⟨num42, [], canon42, by decide⟩

theorem exTree_comments (sty : Style) : ∀ s, .str s ∈ emit sty exTree → isCom s = true → Tidy s :=
  comments_tidy_of_tree sty exTree (by show wfBlock exTree = true; decide) (.inr (by
    have : commentsBlock exTree = [] := by decide
    rw [this]
    intro c hc; cases hc))

theorem ok_of_toOption {α : Type} {x : R α} {a : α} (h : x.toOption = some a) : x = .ok a := by
  cases x with
  | error e => cases h
  | ok b => simp [Except.toOption] at h; rw [h]

theorem exFormat_default : format exStyleDefault exTree =
    .ok "-- tumfl\nlocal x = f(\"hi\", 42)\nif x < -y then\n\tg({x})\nend\nreturn x\n".toList :=
  ok_of_toOption (by decide +kernel)

theorem exFormat_min : format exStyleMin exTree =
    .ok "--tumfl\nlocal x=f(\"hi\",42)if x<-y then;g{x}end;return x".toList :=
  ok_of_toOption (by decide +kernel)

/-! ## the conclusion of the main theorem, instantiated -/

/-- default style: the text is a well-formed layout whose tokens are a reading of the emitted pieces -/
theorem example_default :
    ∃ is ks0 L, LWF is ∧
      renderItems is = "-- tumfl\nlocal x = f(\"hi\", 42)\nif x < -y then\n\tg({x})\nend\nreturn x\n".toList ∧
      TC (emit exStyleDefault exTree) L ∧ ReadTks L ks0 ∧ itemTks is = ks0 := by
  obtain ⟨is, ks0, L, h1, h2, h3, _, h5, h6, _, _, _⟩ := format_items_core exStyleDefault exStyleDefault_doc exTree
    exTree_printable exTree_nums (exTree_comments _) _ exFormat_default
  refine ⟨is, ks0, L, h1, h2, h3, h5, ?_⟩
  rcases h6 with e | ⟨e, _⟩
  · exact e
  · exact absurd e (by decide)

theorem example_default_lex :
    ∃ ts ks L, Spec.lex "-- tumfl\nlocal x = f(\"hi\", 42)\nif x < -y then\n\tg({x})\nend\nreturn x\n".toList = .ok ts ∧
      ts.map (·.tk) = ks ++ [.eof] ∧ TC (emit exStyleDefault exTree) L ∧ ReadTks (L ++ [.sep .statement]) ks :=
  format_lex exStyleDefault exStyleDefault_doc exTree exTree_printable exTree_nums (exTree_comments _) _ exFormat_default

/-- minifying style: the statement exactly as asked -/
theorem example_min_lex :
    ∃ ts ks, Spec.lex "--tumfl\nlocal x=f(\"hi\",42)if x<-y then;g{x}end;return x".toList = .ok ts ∧
      ts.map (·.tk) = ks ++ [.eof] ∧ ReadTks (emit exStyleMin exTree) ks :=
  format_lex_exact exStyleMin exStyleMin_doc exTree exTree_printable exTree_nums (exTree_comments _) rfl (.inl rfl) _
    exFormat_min

/-! ## a tree with a statement comment -/

def exTokC : Token := { ft_exTok with comment := ["  say hello ".toList] }

/-- `-- say hello` / `print("x")` -/
def exTreeC : Block :=
  .mk ft_exTok [.call exTokC (.name ft_exTok "print".toList) [.string ft_exTok "x".toList]] none true

theorem tidy_last {t i : List Char} {l : Char} (ht : t = i ++ [l]) (hnl : '\n' ∉ t) (hl : pyIsSpace l = false) : Tidy t := by
  refine tidy_no_nl hnl ?_
  intro i' l' e
  rw [ht] at e
  have := List.append_inj_right' e rfl
  simp only [List.cons.injEq, and_true] at this
  rw [← this]; exact hl

theorem exTreeC_comments : ∀ s, .str s ∈ emit exStyleDefault exTreeC → isCom s = true → Tidy s :=
  comments_tidy_of_tree _ exTreeC (by show wfBlock exTreeC = true; decide) (.inr (by
    have : commentsBlock exTreeC = ["  say hello ".toList] := by decide
    rw [this]
    intro c hc t ht
    simp only [List.mem_singleton] at hc
    subst hc
    have e : commentPiece exStyleDefault "  say hello ".toList = .str "-- say hello".toList := by decide +kernel
    rw [e] at ht
    cases ht
    exact tidy_last (i := "-- say hell".toList) (l := 'o') (by decide) (by decide) (by decide)))

theorem exFormatC : format exStyleDefault exTreeC = .ok "-- tumfl\n-- say hello\nprint(\"x\")\n".toList :=
  ok_of_toOption (by decide +kernel)

/-- the reference lexer delivers the header comment and the statement comment -/
theorem exampleC_comments :
    ∃ ts, Spec.lex "-- tumfl\n-- say hello\nprint(\"x\")\n".toList = .ok ts ∧
      ts.flatMap (·.comments) = [comText "-- tumfl".toList, comText "-- say hello".toList] := by
  obtain ⟨ts, h1, h2⟩ := format_lex_comments exStyleDefault exStyleDefault_doc exTreeC (by decide)
    (by intro t ht; have : numsBlock exTreeC = [] := by decide
        rw [this] at ht; cases ht) exTreeC_comments _ exFormatC
  refine ⟨ts, h1, ?_⟩
  rcases h2 with e | ⟨e, _⟩
  · rw [e]
    have : comStrs (emit exStyleDefault exTreeC) = ["-- say hello".toList] := by decide +kernel
    rw [this]
    rfl
  · exact absurd e (by decide)

/-! ## why the statement needs its two amendments -/

/-- a piece list without Statement / Block separators has one reading only -/
theorem readTks_unique : ∀ {ps : Pieces} {ks : List Spec.Tk}, (∀ p ∈ ps, p ≠ .sep .statement ∧ p ≠ .sep .block) →
    ReadTks ps ks → ks = piecesTks false ps
  | [], ks, _, h => by cases h; rfl
  | p :: ps, ks, hp, h => by
    have h0 := hp p (by simp)
    cases h with
    | semi hq _ => rcases hq with rfl | rfl <;> simp at h0
    | skip hq _ => rcases hq with rfl | rfl <;> simp at h0
    | other _ _ hr =>
      rw [readTks_unique (fun q hq => hp q (by simp [hq])) hr]
      simp [piecesTks]

/-- statement separator `;`, not minifying -/
def cexSemiStyle : Style := ⟨[';'], ['\t'], [',', ' '], true, [' '], false, false, false, false, true, true, 4, 0, 0, false⟩
/-- `return x` -/
def cexSemiTree : Block := .mk ft_exTok [] (some [.name ft_exTok "x".toList]) true

/-- **a `;` is appended to the text**: the text is `return x;` - three tokens - while the only reading of the emitted pieces
is `return x` -/
theorem cex_appended_semicolon :
    format cexSemiStyle cexSemiTree = .ok "-- tumfl\nreturn x;".toList ∧
    tksOf (Spec.lex "-- tumfl\nreturn x;".toList) = some [.kw "return", .name "x", .sym ";", .eof] ∧
    ∀ ks, ReadTks (emit cexSemiStyle cexSemiTree) ks → ks = [.kw "return", .name "x"] := by
  refine ⟨ok_of_toOption (by decide +kernel), by decide +kernel, fun ks h => ?_⟩
  rw [readTks_unique (by decide) h]
  decide +kernel

/-- narrow lines -/
def cexCommaStyle : Style := ⟨['\n'], ['\t'], [',', ' '], true, [' '], false, false, false, false, true, true, 4, 12, 0, false⟩
/-- `t = {aaaaaa, bbbbbb}` -/
def cexCommaTree : Block :=
  .mk ft_exTok [.assign ft_exTok [.name ft_exTok "t".toList]
    [.table ft_exTok [.numbered ft_exTok (.name ft_exTok "aaaaaa".toList), .numbered ft_exTok (.name ft_exTok "bbbbbb".toList)]]] none true

/-- **a trailing comma is written** in a table constructor that is spread over several lines: the text has two `,` tokens, the
only reading of the emitted pieces has one -/
theorem cex_trailing_comma :
    format cexCommaStyle cexCommaTree = .ok "-- tumfl\nt = {\n\taaaaaa,\n\tbbbbbb,\n}\n".toList ∧
    tksOf (Spec.lex "-- tumfl\nt = {\n\taaaaaa,\n\tbbbbbb,\n}\n".toList) =
      some [.name "t", .sym "=", .sym "{", .name "aaaaaa", .sym ",", .name "bbbbbb", .sym ",", .sym "}", .eof] ∧
    ∀ ks, ReadTks (emit cexCommaStyle cexCommaTree) ks →
      ks = [.name "t", .sym "=", .sym "{", .name "aaaaaa", .sym ",", .name "bbbbbb", .sym "}"] := by
  refine ⟨ok_of_toOption (by decide +kernel), by decide +kernel, fun ks h => ?_⟩
  rw [readTks_unique (by decide) h]
  decide +kernel

end Tumfl.Theory
