import Tumfl.Theory.IdemEmitBase
/-!
# C15: what the reference tree fixes of the printed pieces (leaves, bracket decisions), and inversion of `toE` .. `toS`
-/
namespace Tumfl.Theory
namespace IdemE
open Tumfl Tumfl.Model

/-! ## bracket decisions read off the reference tree -/

def varE : Spec.Exp → Bool
  | .name _ | .index _ _ | .dot _ _ | .call _ _ | .mcall _ _ _ => true
  | _ => false

def kindE : Spec.Exp → K
  | .bin o _ _ => .bin o
  | .un o _ => .un o
  | _ => .atom

def shortE1 : Spec.Exp → Bool
  | .str _ | .table _ => true
  | _ => false

def shortE : List Spec.Exp → Bool
  | [e] => shortE1 e
  | _ => false

theorem isVarLike_toE (x : Expr) : isVarLike x = varE (toE x) := by
  cases x with
  | bool t v => cases v <;> simp only [toE, isVarLike, varE, Bool.false_eq_true, if_false, if_true]
  | _ => simp only [toE, isVarLike, varE]

theorem kind_toE (x : Expr) : x.kind = kindE (toE x) := by
  cases x with
  | bool t v => cases v <;> simp only [toE, Expr.kind, kindE, Bool.false_eq_true, if_false, if_true]
  | _ => simp only [toE, Expr.kind, kindE]

theorem isVarLike_congr {x y : Expr} (h : toE x = toE y) : isVarLike x = isVarLike y := by
  rw [isVarLike_toE, isVarLike_toE, h]

theorem kind_congr {x y : Expr} (h : toE x = toE y) : x.kind = y.kind := by
  rw [kind_toE, kind_toE, h]

theorem fmtFunctionArgs_eq (sty : Style) (args : List Expr) (ps : Pieces) :
    fmtFunctionArgs sty args ps = if shortE (toEs args) && sty.useCallShorthand then ps else wrapParens ps := by
  cases args with
  | nil => simp only [fmtFunctionArgs, toEs, shortE, Bool.false_and, Bool.false_eq_true, if_false]
  | cons e r =>
    cases r with
    | nil =>
      cases e with
      | bool t v =>
        cases v <;> simp only [fmtFunctionArgs, toEs, toE, shortE, shortE1, Bool.false_and,
          Bool.false_eq_true, if_false, if_true]
      | _ =>
        simp only [fmtFunctionArgs, toEs, toE, shortE, shortE1, Bool.false_and, Bool.true_and, Bool.false_eq_true,
          if_false]
    | cons e2 r =>
      simp only [fmtFunctionArgs, toEs, shortE, Bool.false_and, Bool.false_eq_true, if_false]

theorem CE.fmtVar {x y : Expr} (h : toE x = toE y) {a b : Pieces} (hc : CE a b) : CE (fmtVar x a) (fmtVar y b) := by
  unfold Model.fmtVar
  rw [isVarLike_congr h]
  cases isVarLike y
  · exact hc.wrap
  · exact hc

theorem CE.fmtFunctionArgs (sty : Style) {xs ys : List Expr} (h : toEs xs = toEs ys) {a b : Pieces} (hc : CE a b) :
    CE (fmtFunctionArgs sty xs a) (fmtFunctionArgs sty ys b) := by
  rw [fmtFunctionArgs_eq, fmtFunctionArgs_eq, h]
  exact CE.ite _ hc hc.wrap

/-! ## strings -/

theorem strUnits_inj {v v' : List Char}
    (h : v.map (fun c => Spec.SUnit.ch c.toNat) = v'.map (fun c => Spec.SUnit.ch c.toNat)) : v = v' := by
  refine (List.map_inj_right (f := fun c : Char => Spec.SUnit.ch c.toNat) ?_).1 h
  intro a b hab
  exact Char.toNat_inj.1 (Spec.SUnit.ch.inj hab)

/-! ## names -/

theorem nameS_toList (e : Expr) : (nameS e).toList = nameStr e := String.toList_ofList

theorem nameStr_congr {e e' : Expr} (h : nameS e = nameS e') : nameStr e = nameStr e' := by
  rw [← nameS_toList, ← nameS_toList, h]

theorem nameNode_inv {e : Expr} (h : nameNodeOK e = true) : ∃ t n, e = .name t n := by
  cases e <;> simp only [nameNodeOK, Bool.false_eq_true] at h
  exact ⟨_, _, rfl⟩

theorem visitExpr_nameNode (sty : Style) {e : Expr} (h : nameNodeOK e = true) :
    visitExpr sty e = [.str (nameS e).toList] := by
  obtain ⟨t, n, rfl⟩ := nameNode_inv h
  simp only [visitExpr, nameS_toList, nameStr]

theorem numsExpr_nameNode {e : Expr} (h : nameNodeOK e = true) : numsExpr e = [] := by
  obtain ⟨t, n, rfl⟩ := nameNode_inv h
  simp only [numsExpr]

theorem visitExpr_name_congr (sty : Style) {e e' : Expr} (h : nameNodeOK e = true) (h' : nameNodeOK e' = true)
    (hn : nameS e = nameS e') : visitExpr sty e = visitExpr sty e' := by
  rw [visitExpr_nameNode sty h, visitExpr_nameNode sty h', hn]

/-- the pieces of a separated list of names -/
def joinStrs (sep : Sep) : List String → Pieces
  | [] => []
  | [s] => [.str s.toList]
  | s :: s2 :: r => .str s.toList :: S sep :: joinStrs sep (s2 :: r)

theorem joinStrs_cons (sep : Sep) (s : String) {l : List String} (h : l ≠ []) :
    joinStrs sep (s :: l) = .str s.toList :: S sep :: joinStrs sep l := by
  cases l with
  | nil => exact absurd rfl h
  | cons s2 r => rfl

theorem visitDotted_names (sty : Style) : ∀ {es : List Expr}, es.all nameNodeOK = true →
    visitDotted sty es = joinStrs .dot (es.map nameS)
  | [], _ => by simp only [visitDotted, List.map_nil, joinStrs]
  | [e], h => by
    simp only [List.all_cons, List.all_nil, Bool.and_true] at h
    simp only [visitDotted, List.map_cons, List.map_nil, joinStrs, visitExpr_nameNode sty h]
  | e :: e2 :: r, h => by
    simp only [List.all_cons, Bool.and_eq_true] at h
    have ih := visitDotted_names sty (es := e2 :: r) (by simp only [List.all_cons, Bool.and_eq_true]; exact h.2)
    simp only [visitDotted, ih, visitExpr_nameNode sty h.1, List.map_cons, joinStrs, List.cons_append, List.nil_append]

theorem visitArgs_names (sty : Style) : ∀ {es : List Expr}, es.all nameNodeOK = true →
    visitArgs sty es = joinStrs .argument (es.map nameS)
  | [], _ => by simp only [visitArgs, List.map_nil, joinStrs]
  | [e], h => by
    simp only [List.all_cons, List.all_nil, Bool.and_true] at h
    simp only [visitArgs, List.map_cons, List.map_nil, joinStrs, visitExpr_nameNode sty h]
  | e :: e2 :: r, h => by
    simp only [List.all_cons, Bool.and_eq_true] at h
    have ih := visitArgs_names sty (es := e2 :: r) (by simp only [List.all_cons, Bool.and_eq_true]; exact h.2)
    simp only [visitArgs, ih, visitExpr_nameNode sty h.1, List.map_cons, joinStrs, List.cons_append, List.nil_append]

theorem numsArgs_names : ∀ {es : List Expr}, es.all nameNodeOK = true → numsArgs es = []
  | [], _ => by simp only [numsArgs]
  | e :: r, h => by
    simp only [List.all_cons, Bool.and_eq_true] at h
    simp only [numsArgs, numsExpr_nameNode h.1, numsArgs_names h.2, List.append_nil]

/-! ## parameters -/

/-- the pieces of a parameter list, from its reference reading -/
def paramP (r : List String × Bool) : Pieces := joinStrs .argument (r.1 ++ if r.2 then ["..."] else [])

theorem refParams_ne (e : Expr) (r : List Expr) :
    ((refParams (e :: r)).1 ++ if (refParams (e :: r)).2 then ["..."] else []) ≠ [] := by
  cases e <;> simp [refParams]

theorem visitArgs_params (sty : Style) : ∀ {ps : List Expr}, paramsOK ps = true →
    visitArgs sty ps = paramP (refParams ps) ∧ numsArgs ps = []
  | [], _ => ⟨rfl, rfl⟩
  | [.vararg _], _ => ⟨rfl, rfl⟩
  | .vararg _ :: _ :: _, h => by simp [paramsOK, nameNodeOK] at h
  | .nil _ :: rest, h | .bool _ _ :: rest, h | .number _ _ :: rest, h | .string _ _ :: rest, h
  | .func _ _ _ :: rest, h | .table _ _ :: rest, h | .binop _ _ _ _ :: rest, h | .unop _ _ _ :: rest, h
  | .index _ _ _ :: rest, h | .namedIndex _ _ _ :: rest, h | .call _ _ _ :: rest, h | .method _ _ _ _ :: rest, h => by
    simp [paramsOK, nameNodeOK] at h
  | .name t n :: rest, h => by
    simp only [paramsOK, nameNodeOK, Bool.and_eq_true] at h
    obtain ⟨h1, h2⟩ := visitArgs_params sty h.2
    refine ⟨?_, by simp only [numsArgs, numsExpr, h2, List.append_nil]⟩
    cases rest with
    | nil => simp [visitArgs, visitExpr, refParams, paramP, joinStrs, nameS, nameStr]
    | cons e2 r =>
      have hne := refParams_ne e2 r
      rw [visitArgs, h1]
      simp only [visitExpr, paramP, refParams, List.cons_append, List.nil_append]
      have := joinStrs_cons .argument (nameS (.name t n)) hne
      rw [nameS_toList] at this
      exact this.symm

theorem visitArgs_params_congr (sty : Style) {ps ps' : List Expr} (h : paramsOK ps = true) (h' : paramsOK ps' = true)
    (e1 : (refParams ps).1 = (refParams ps').1) (e2 : (refParams ps).2 = (refParams ps').2) :
    visitArgs sty ps = visitArgs sty ps' := by
  rw [(visitArgs_params sty h).1, (visitArgs_params sty h').1, paramP, paramP, e1, e2]

/-! ## attributed names -/

def attP1 (r : String × Option String) : Pieces :=
  match r.2 with
  | some a => [.str r.1.toList, S .space, P "<", .str a.toList, P ">"]
  | none => [.str r.1.toList]

def attPs : List (String × Option String) → Pieces
  | [] => []
  | [r] => attP1 r
  | r :: r2 :: rest => attP1 r ++ S .argument :: attPs (r2 :: rest)

theorem attName_eq (n : Expr) (a : Option Expr) : attName n a = attP1 (refAtt (.mk n a)) := by
  cases a <;> simp only [attName, attP1, refAtt, nameS_toList]

theorem visitAttNames_eq : ∀ (names : List AttName), visitAttNames names = attPs (names.map refAtt)
  | [] => rfl
  | [.mk n a] => by simp only [visitAttNames, List.map_cons, List.map_nil, attPs, attName_eq]
  | .mk n a :: x2 :: rest => by
    have e : visitAttNames (.mk n a :: x2 :: rest) = attName n a ++ S .argument :: visitAttNames (x2 :: rest) := by
      rw [visitAttNames]; intro h; cases h
    rw [e, visitAttNames_eq (x2 :: rest)]
    simp only [List.map_cons, attPs, attName_eq]

/-! ## inversion of `toE` -/

theorem toE_inv_nil {y : Expr} (h : toE y = .nil) : ∃ t, y = .nil t := by
  cases y <;> simp only [toE] at h <;> (try split at h) <;> cases h <;> exact ⟨_, rfl⟩

theorem toE_inv_bool {y : Expr} {v : Bool} (h : toE y = if v then .tru else .fls) : ∃ t, y = .bool t v := by
  cases v <;> simp only [Bool.false_eq_true, if_false, if_true] at h <;>
    cases y <;> simp only [toE] at h <;> (try split at h) <;> cases h
  · rename_i t v' hv
    cases v'
    · exact ⟨_, rfl⟩
    · exact absurd rfl hv
  · rename_i t v' hv
    cases v'
    · exact absurd hv (by decide)
    · exact ⟨_, rfl⟩

theorem toE_inv_vararg {y : Expr} (h : toE y = .vararg) : ∃ t, y = .vararg t := by
  cases y <;> simp only [toE] at h <;> (try split at h) <;> cases h <;> exact ⟨_, rfl⟩

theorem toE_inv_num {y : Expr} {n} (h : toE y = .num n) : ∃ t m, y = .number t m := by
  cases y <;> simp only [toE] at h <;> (try split at h) <;> cases h <;> exact ⟨_, _, rfl⟩

theorem toE_inv_str {y : Expr} {a} (h : toE y = .str a) :
    ∃ t v, y = .string t v ∧ v.map (fun c => Spec.SUnit.ch c.toNat) = a := by
  cases y <;> simp only [toE] at h <;> (try split at h) <;> cases h <;> exact ⟨_, _, rfl, rfl⟩

theorem toE_inv_func {y : Expr} {ps va body} (h : toE y = .func ps va body) :
    ∃ t ps' b', y = .func t ps' b' ∧ (refParams ps').1 = ps ∧ (refParams ps').2 = va ∧ toB b' = body := by
  cases y <;> simp only [toE] at h <;> (try split at h) <;> cases h <;> exact ⟨_, _, _, rfl, rfl, rfl, rfl⟩

theorem toE_inv_table {y : Expr} {fs} (h : toE y = .table fs) : ∃ t fs', y = .table t fs' ∧ toFs fs' = fs := by
  cases y <;> simp only [toE] at h <;> (try split at h) <;> cases h <;> exact ⟨_, _, rfl, rfl⟩

theorem toE_inv_bin {y : Expr} {o a b} (h : toE y = .bin o a b) :
    ∃ t l r, y = .binop t o l r ∧ toE l = a ∧ toE r = b := by
  cases y <;> simp only [toE] at h <;> (try split at h) <;> cases h <;> exact ⟨_, _, _, rfl, rfl, rfl⟩

theorem toE_inv_un {y : Expr} {o a} (h : toE y = .un o a) : ∃ t e, y = .unop t o e ∧ toE e = a := by
  cases y <;> simp only [toE] at h <;> (try split at h) <;> cases h <;> exact ⟨_, _, rfl, rfl⟩

theorem toE_inv_name {y : Expr} {s} (h : toE y = .name s) : ∃ t n, y = .name t n ∧ String.ofList n = s := by
  cases y <;> simp only [toE] at h <;> (try split at h) <;> cases h <;> exact ⟨_, _, rfl, rfl⟩

theorem toE_inv_index {y : Expr} {a b} (h : toE y = .index a b) :
    ∃ t l k, y = .index t l k ∧ toE l = a ∧ toE k = b := by
  cases y <;> simp only [toE] at h <;> (try split at h) <;> cases h <;> exact ⟨_, _, _, rfl, rfl, rfl⟩

theorem toE_inv_dot {y : Expr} {a s} (h : toE y = .dot a s) :
    ∃ t l nm, y = .namedIndex t l nm ∧ toE l = a ∧ nameS nm = s := by
  cases y <;> simp only [toE] at h <;> (try split at h) <;> cases h <;> exact ⟨_, _, _, rfl, rfl, rfl⟩

theorem toE_inv_call {y : Expr} {a as} (h : toE y = .call a as) :
    ∃ t f args, y = .call t f args ∧ toE f = a ∧ toEs args = as := by
  cases y <;> simp only [toE] at h <;> (try split at h) <;> cases h <;> exact ⟨_, _, _, rfl, rfl, rfl⟩

theorem toE_inv_mcall {y : Expr} {a s as} (h : toE y = .mcall a s as) :
    ∃ t f m args, y = .method t f m args ∧ toE f = a ∧ nameS m = s ∧ toEs args = as := by
  cases y <;> simp only [toE] at h <;> (try split at h) <;> cases h <;> exact ⟨_, _, _, _, rfl, rfl, rfl, rfl⟩

/-! ## inversion of `toEs`, `toFs`, `toF`, `toB` -/

theorem toEs_inv_nil {ys : List Expr} (h : toEs ys = []) : ys = [] := by
  cases ys with
  | nil => rfl
  | cons y r => simp only [toEs] at h; cases h

theorem toEs_inv_cons {ys : List Expr} {a as} (h : toEs ys = a :: as) :
    ∃ y r, ys = y :: r ∧ toE y = a ∧ toEs r = as := by
  cases ys with
  | nil => simp only [toEs] at h; cases h
  | cons y r => simp only [toEs] at h; cases h; exact ⟨_, _, rfl, rfl, rfl⟩

theorem toEs_isEmpty {xs ys : List Expr} (h : toEs xs = toEs ys) : xs.isEmpty = ys.isEmpty := by
  cases xs with
  | nil => simp only [toEs] at h; rw [toEs_inv_nil h.symm]
  | cons x r =>
    simp only [toEs] at h
    obtain ⟨y, r', rfl, _, _⟩ := toEs_inv_cons h.symm
    rfl

theorem toFs_inv_nil {ys : List Field} (h : toFs ys = []) : ys = [] := by
  cases ys with
  | nil => rfl
  | cons y r => simp only [toFs] at h; cases h

theorem toFs_inv_cons {ys : List Field} {a as} (h : toFs ys = a :: as) :
    ∃ y r, ys = y :: r ∧ toF y = a ∧ toFs r = as := by
  cases ys with
  | nil => simp only [toFs] at h; cases h
  | cons y r => simp only [toFs] at h; cases h; exact ⟨_, _, rfl, rfl, rfl⟩

theorem toFs_isEmpty {xs ys : List Field} (h : toFs xs = toFs ys) : xs.isEmpty = ys.isEmpty := by
  cases xs with
  | nil => simp only [toFs] at h; rw [toFs_inv_nil h.symm]
  | cons x r =>
    simp only [toFs] at h
    obtain ⟨y, r', rfl, _, _⟩ := toFs_inv_cons h.symm
    rfl

theorem toF_inv_keyed {y : Field} {a b} (h : toF y = .keyed a b) :
    ∃ t k v, y = .explicit t k v ∧ toE k = a ∧ toE v = b := by
  cases y <;> simp only [toF] at h <;> cases h <;> exact ⟨_, _, _, rfl, rfl, rfl⟩

theorem toF_inv_named {y : Field} {s b} (h : toF y = .named s b) :
    ∃ t n v, y = .named t n v ∧ nameS n = s ∧ toE v = b := by
  cases y <;> simp only [toF] at h <;> cases h <;> exact ⟨_, _, _, rfl, rfl, rfl⟩

theorem toF_inv_pos {y : Field} {b} (h : toF y = .pos b) : ∃ t v, y = .numbered t v ∧ toE v = b := by
  cases y <;> simp only [toF] at h <;> cases h <;> exact ⟨_, _, rfl, rfl⟩

theorem toB_none (t : Token) (ss : List Stmt) (c : Bool) : toB (.mk t ss none c) = .mk (toSs ss) none := by
  simp only [toB]

theorem toB_some (t : Token) (ss : List Stmt) (es : List Expr) (c : Bool) :
    toB (.mk t ss (some es) c) = .mk (toSs ss) (some (toEs es)) := by
  simp only [toB]

theorem toB_inv_none {y : Block} {ss} (h : toB y = .mk ss none) : ∃ t ss' c, y = .mk t ss' none c ∧ toSs ss' = ss := by
  obtain ⟨t, ss', r, c⟩ := y
  cases r with
  | none => rw [toB_none] at h; cases h; exact ⟨_, _, _, rfl, rfl⟩
  | some es => rw [toB_some] at h; cases h

theorem toB_inv_some {y : Block} {ss as} (h : toB y = .mk ss (some as)) :
    ∃ t ss' es c, y = .mk t ss' (some es) c ∧ toSs ss' = ss ∧ toEs es = as := by
  obtain ⟨t, ss', r, c⟩ := y
  cases r with
  | none => rw [toB_none] at h; cases h
  | some es => rw [toB_some] at h; cases h; exact ⟨_, _, _, _, rfl, rfl, rfl⟩

end IdemE
end Tumfl.Theory
