import Tumfl.Theory.IdemDefs
import Tumfl.Theory.ClimbRel
/-!
# C15: the block-start scanner agrees with the reference parse tree

`scan_block`: for every successful run of the reference parser `Spec.block f ts = .ok (c, r)`, the list of kinds that the
four-state scanner `sc .Pd ts` reports is `kB c` (the same list read off the tree) followed by the scan of the rest.

One induction on the fuel over all 18 parse functions (`AllS`), through `climb` (`climb_sc`).
-/
namespace Tumfl.Theory
namespace IdemScan
open Tumfl.Spec

set_option linter.unusedVariables false

/-! ## `Except` inversion -/

theorem bind_ok {ε α β : Type} {a : Except ε α} {k : α → Except ε β} {y : β} (h : (a >>= k) = .ok y) :
    ∃ x, a = .ok x ∧ k x = .ok y := by
  cases a with
  | error e => cases h
  | ok x => exact ⟨x, rfl, h⟩

/-! ## basic facts on `sc` -/

theorem sc_cons (st : ScSt) (t : Tok) (ts : List Tok) :
    sc st (t :: ts) = (if st = .Pd then [kindOf t.tk] else []) ++ sc (scStep st t.tk) ts := by
  cases st <;> rfl

/-- directly after a block opener: the kind of the next token, then as in the normal state -/
theorem sc_Pd (ts : List Tok) : sc .Pd ts = kindOf (pk ts) :: sc .N ts := by
  cases ts with
  | nil => rfl
  | cons t ts => rfl

theorem pk_cons {ts : List Tok} {k : Tk} (h : pk ts = k) (hk : k ≠ .eof) : ∃ t, ts = t :: ts.tail ∧ t.tk = k := by
  cases ts with
  | nil => exact absurd h.symm hk
  | cons t ts => exact ⟨t, rfl, h⟩

/-- one step of the scanner on a non-`eof` head token -/
theorem sc_step {st : ScSt} {ts : List Tok} {k : Tk} (h : pk ts = k) (hk : k ≠ .eof) :
    sc st ts = (if st = .Pd then [kindOf k] else []) ++ sc (scStep st k) ts.tail := by
  obtain ⟨t, h1, h2⟩ := pk_cons h hk
  rw [h1, sc_cons, h2]
  rfl

theorem scN_step {ts : List Tok} {k : Tk} (h : pk ts = k) (hk : k ≠ .eof) : sc .N ts = sc (nxtN k) ts.tail := by
  rw [sc_step h hk]; rfl

theorem scFn_step {ts : List Tok} {k : Tk} (h : pk ts = k) (hk : k ≠ .eof) :
    sc .Fn ts = sc (if k = .sym "(" then .Pa else .Fn) ts.tail := by
  rw [sc_step h hk]; rfl

theorem scPa_step {ts : List Tok} {k : Tk} (h : pk ts = k) (hk : k ≠ .eof) :
    sc .Pa ts = sc (if k = .sym ")" then .Pd else .Pa) ts.tail := by
  rw [sc_step h hk]; rfl

theorem nxtN_sym (s : String) : nxtN (.sym s) = .N := by simp [nxtN]
theorem nxtN_name (s : String) : nxtN (.name s) = .N := by simp [nxtN]
theorem nxtN_num (n : Numeral) : nxtN (.num n) = .N := by simp [nxtN]
theorem nxtN_str (v : List SUnit) : nxtN (.str v) = .N := by simp [nxtN]

theorem scN_sym {ts : List Tok} {s : String} (h : pk ts = .sym s) : sc .N ts = sc .N ts.tail := by
  rw [scN_step h (by simp), nxtN_sym]
theorem scN_name {ts : List Tok} {s : String} (h : pk ts = .name s) : sc .N ts = sc .N ts.tail := by
  rw [scN_step h (by simp), nxtN_name]
theorem scN_num {ts : List Tok} {n : Numeral} (h : pk ts = .num n) : sc .N ts = sc .N ts.tail := by
  rw [scN_step h (by simp), nxtN_num]
theorem scN_str {ts : List Tok} {v : List SUnit} (h : pk ts = .str v) : sc .N ts = sc .N ts.tail := by
  rw [scN_step h (by simp), nxtN_str]
/-- a keyword that opens nothing -/
theorem scN_kw {ts : List Tok} {s : String} (h : pk ts = .kw s) (hs : nxtN (.kw s) = .N) : sc .N ts = sc .N ts.tail := by
  rw [scN_step h (by simp), hs]
/-- a block opener -/
theorem scN_open {ts : List Tok} {s : String} (h : pk ts = .kw s) (hs : nxtN (.kw s) = .Pd) :
    sc .N ts = sc .Pd ts.tail := by
  rw [scN_step h (by simp), hs]
theorem scN_function {ts : List Tok} (h : pk ts = .kw "function") : sc .N ts = sc .Fn ts.tail := by
  rw [scN_step h (by simp)]; rfl

theorem scFn_name {ts : List Tok} {s : String} (h : pk ts = .name s) : sc .Fn ts = sc .Fn ts.tail := by
  rw [scFn_step h (by simp)]; simp
theorem scFn_sym {ts : List Tok} {s : String} (h : pk ts = .sym s) (hs : s ≠ "(") : sc .Fn ts = sc .Fn ts.tail := by
  rw [scFn_step h (by simp)]; simp [hs]
theorem scFn_paren {ts : List Tok} (h : pk ts = .sym "(") : sc .Fn ts = sc .Pa ts.tail := by
  rw [scFn_step h (by simp)]; simp
theorem scPa_name {ts : List Tok} {s : String} (h : pk ts = .name s) : sc .Pa ts = sc .Pa ts.tail := by
  rw [scPa_step h (by simp)]; simp
theorem scPa_sym {ts : List Tok} {s : String} (h : pk ts = .sym s) (hs : s ≠ ")") : sc .Pa ts = sc .Pa ts.tail := by
  rw [scPa_step h (by simp)]; simp [hs]
theorem scPa_paren {ts : List Tok} (h : pk ts = .sym ")") : sc .Pa ts = sc .Pd ts.tail := by
  rw [scPa_step h (by simp)]; simp

/-! ## the token tests of the parser -/

theorem isSym_pk {s : String} {ts : List Tok} (h : isSym s ts = true) : pk ts = .sym s := by
  unfold isSym at h
  split at h
  · next x hx => rw [hx]; simp only [beq_iff_eq] at h; rw [h]
  · cases h

theorem isKw_pk {s : String} {ts : List Tok} (h : isKw s ts = true) : pk ts = .kw s := by
  unfold isKw at h
  split at h
  · next x hx => rw [hx]; simp only [beq_iff_eq] at h; rw [h]
  · cases h

theorem expectSym_ok {s : String} {ts r : List Tok} (h : expectSym s ts = .ok r) : pk ts = .sym s ∧ r = ts.tail := by
  unfold expectSym at h
  split at h
  · next hc => cases h; exact ⟨isSym_pk hc, rfl⟩
  · cases h

theorem expectKw_ok {s : String} {ts r : List Tok} (h : expectKw s ts = .ok r) : pk ts = .kw s ∧ r = ts.tail := by
  unfold expectKw at h
  split at h
  · next hc => cases h; exact ⟨isKw_pk hc, rfl⟩
  · cases h

theorem expectName_ok {n : String} {ts r : List Tok} (h : expectName ts = .ok (n, r)) :
    pk ts = .name n ∧ r = ts.tail := by
  unfold expectName at h
  split at h
  · next m hm => cases h; exact ⟨hm, rfl⟩
  · cases h

theorem isSym_N {s : String} {ts : List Tok} (h : isSym s ts = true) : sc .N ts = sc .N ts.tail := scN_sym (isSym_pk h)

theorem expectSym_N {s : String} {ts r : List Tok} (h : expectSym s ts = .ok r) : sc .N ts = sc .N r := by
  obtain ⟨h1, rfl⟩ := expectSym_ok h; exact scN_sym h1
theorem expectName_N {n : String} {ts r : List Tok} (h : expectName ts = .ok (n, r)) : sc .N ts = sc .N r := by
  obtain ⟨h1, rfl⟩ := expectName_ok h; exact scN_name h1
theorem expectName_Fn {n : String} {ts r : List Tok} (h : expectName ts = .ok (n, r)) : sc .Fn ts = sc .Fn r := by
  obtain ⟨h1, rfl⟩ := expectName_ok h; exact scFn_name h1
theorem expectKw_N {s : String} {ts r : List Tok} (h : expectKw s ts = .ok r) (hs : nxtN (.kw s) = .N) :
    sc .N ts = sc .N r := by
  obtain ⟨h1, rfl⟩ := expectKw_ok h; exact scN_kw h1 hs
theorem expectKw_Pd {s : String} {ts r : List Tok} (h : expectKw s ts = .ok r) (hs : nxtN (.kw s) = .Pd) :
    sc .N ts = sc .Pd r := by
  obtain ⟨h1, rfl⟩ := expectKw_ok h; exact scN_open h1 hs

/-- an optional `;` -/
theorem sc_optSemi (s : String) (ts : List Tok) : sc .N (if isSym s ts = true then ts.tail else ts) = sc .N ts := by
  split
  · next h => exact (isSym_N h).symm
  · rfl

theorem nxtN_end : nxtN (.kw "end") = .N := by decide
theorem nxtN_do : nxtN (.kw "do") = .Pd := by decide

/-! ## operator tokens open nothing -/

theorem unOfTk_N {k : Tk} {u : UOp} (h : unOfTk k = some u) : nxtN k = .N ∧ k ≠ .eof := by
  unfold unOfTk at h
  split at h <;> first | (cases h; done) | (constructor <;> decide)

theorem binOfTk_N {k : Tk} {o : BOp} (h : binOfTk k = some o) : nxtN k = .N ∧ k ≠ .eof := by
  unfold binOfTk at h
  split at h <;> first | (cases h; done) | (constructor <;> decide)

/-! ## through the operator-precedence climber -/

theorem climb_sc {simple : List Tok → Except PErr (Exp × List Tok)}
    (hs : ∀ ts e r, simple ts = .ok (e, r) → sc .N ts = kE e ++ sc .N r) : ∀ f,
    (∀ limit ts e r, climb (specSig simple) f limit ts = .ok (e, r) → sc .N ts = kE e ++ sc .N r) ∧
    (∀ limit acc ts e r, climbLoop (specSig simple) f limit acc ts = .ok (e, r) →
      ∃ x, kE e = kE acc ++ x ∧ sc .N ts = x ++ sc .N r) := by
  intro f
  induction f with
  | zero =>
    constructor
    · intro limit ts e r h; rw [climb_zero] at h; cases h
    · intro limit acc ts e r h; rw [climbLoop_zero] at h; cases h
  | succ f ih =>
    obtain ⟨ihc, ihl⟩ := ih
    constructor
    · intro limit ts e r h
      rw [climb_succ] at h
      simp only [specSig] at h
      cases hu : unOfTk (pk ts) with
      | some u =>
        rw [hu] at h
        simp only at h
        obtain ⟨hN, hne⟩ := unOfTk_N hu
        cases hc : climb (specSig simple) f UPRI ts.tail with
        | error er => simp only [specSig] at hc; rw [hc] at h; cases h
        | ok p =>
          obtain ⟨e1, s2⟩ := p
          have hc' := hc
          simp only [specSig] at hc'; rw [hc'] at h
          simp only at h
          obtain ⟨x, hx1, hx2⟩ := ihl _ _ _ _ _ h
          rw [scN_step rfl hne, hN, ihc _ _ _ _ hc, hx2, hx1]
          simp only [kE, List.append_assoc]
      | none =>
        rw [hu] at h
        simp only at h
        cases hc : simple ts with
        | error er => rw [hc] at h; cases h
        | ok p =>
          obtain ⟨e1, s2⟩ := p
          rw [hc] at h
          simp only at h
          obtain ⟨x, hx1, hx2⟩ := ihl _ _ _ _ _ h
          rw [hs _ _ _ hc, hx2, hx1]
          simp only [List.append_assoc]
    · intro limit acc ts e r h
      rw [climbLoop_succ] at h
      simp only [specSig] at h
      cases hb : binOfTk (pk ts) with
      | none =>
        rw [hb] at h
        simp only [Except.ok.injEq, Prod.mk.injEq] at h
        obtain ⟨rfl, rfl⟩ := h
        exact ⟨[], by simp, by simp⟩
      | some o =>
        rw [hb] at h
        simp only at h
        obtain ⟨hN, hne⟩ := binOfTk_N hb
        split at h
        · cases hc : climb (specSig simple) f (rp o) ts.tail with
          | error er => simp only [specSig] at hc; rw [hc] at h; cases h
          | ok p =>
            obtain ⟨e2, s2⟩ := p
            have hc' := hc
            simp only [specSig] at hc'; rw [hc'] at h
            simp only at h
            obtain ⟨x, hx1, hx2⟩ := ihl _ _ _ _ _ h
            refine ⟨kE e2 ++ x, ?_, ?_⟩
            · rw [hx1]; simp only [kE, List.append_assoc]
            · rw [scN_step rfl hne, hN, ihc _ _ _ _ hc, hx2]; simp only [List.append_assoc]
        · simp only [Except.ok.injEq, Prod.mk.injEq] at h
          obtain ⟨rfl, rfl⟩ := h
          exact ⟨[], by simp, by simp⟩

/-! ## the statement of the induction -/

/-- the blocks inside a `return` -/
def kRet : Option (List Exp) → List Kd
  | some es => kEs es
  | none => []

theorem kB_mk (ss : List Stat) (ret : Option (List Exp)) : kB (.mk ss ret) = firstKd ss :: (kSs ss ++ kRet ret) := by
  cases ret <;> simp only [kB, kRet]

theorem blockFollow_O {b : Bool} {k : Tk} (h : blockFollow b k = true) : kindOf k = .O := by
  unfold blockFollow at h
  split at h <;> first | decide | cases h

/-- what the scanner reports on the tokens consumed by each reference parse function at fuel `f` -/
structure AllS (f : Nat) : Prop where
  statlist : ∀ {ts ss ret r}, Spec.statlist f ts = .ok (ss, ret, r) →
    sc .N ts = kSs ss ++ kRet ret ++ sc .N r ∧ kindOf (pk ts) = firstKd ss
  block : ∀ {ts b r}, Spec.block f ts = .ok (b, r) → sc .Pd ts = kB b ++ sc .N r
  statement : ∀ {ts s r}, Spec.statement f ts = .ok (s, r) → sc .N ts = kS s ++ sc .N r ∧ headKd s = kindOf (pk ts)
  ifrest : ∀ {ts elifs els r}, Spec.ifrest f ts = .ok (elifs, els, r) →
    sc .N ts = kElifs elifs ++ kOptB els ++ sc .N r
  namelistRest : ∀ {ts ns r}, Spec.namelistRest f ts = .ok (ns, r) → sc .N ts = sc .N r
  dottedRest : ∀ {ts ns r}, Spec.dottedRest f ts = .ok (ns, r) → sc .Fn ts = sc .Fn r
  attnamelist : ∀ {ts ns r}, Spec.attnamelist f ts = .ok (ns, r) → sc .N ts = sc .N r
  restassign : ∀ {ts es r}, Spec.restassign f ts = .ok (es, r) → sc .N ts = kEs es ++ sc .N r
  explist : ∀ {ts es r}, Spec.explist f ts = .ok (es, r) → sc .N ts = kEs es ++ sc .N r
  expr : ∀ {ts e r}, Spec.expr f ts = .ok (e, r) → sc .N ts = kE e ++ sc .N r
  simpleexp : ∀ {ts e r}, Spec.simpleexp f ts = .ok (e, r) → sc .N ts = kE e ++ sc .N r
  suffixedexp : ∀ {ts e r}, Spec.suffixedexp f ts = .ok (e, r) →
    sc .N ts = kE e ++ sc .N r ∧ kindOf (pk ts) = (if leftParen e then .P else .O) ∧
      leftParen e = (pk ts == .sym "(")
  suffixes : ∀ {e0 ts e r}, Spec.suffixes f e0 ts = .ok (e, r) →
    ∃ x, kE e = kE e0 ++ x ∧ sc .N ts = x ++ sc .N r ∧ leftParen e = leftParen e0
  funcargs : ∀ {ts es r}, Spec.funcargs f ts = .ok (es, r) → sc .N ts = kEs es ++ sc .N r
  fields : ∀ {ts fs r}, Spec.fields f ts = .ok (fs, r) → sc .N ts = kFs fs ++ sc .N r
  body : ∀ {ts ps va b r}, Spec.body f ts = .ok (ps, va, b, r) → sc .Fn ts = kB b ++ sc .N r
  parlist : ∀ {ts ps va r}, Spec.parlist f ts = .ok (ps, va, r) → sc .Pa ts = sc .Pa r
  parlist1 : ∀ {ts ps va r}, Spec.parlist1 f ts = .ok (ps, va, r) → sc .Pa ts = sc .Pa r

/-- inversion of one `←` of a `do` block: `binv h with pat, h1` -/
syntax "binv " ident " with " rcasesPat ", " ident : tactic
macro_rules
  | `(tactic| binv $h:ident with $p:rcasesPat, $h1:ident) =>
    `(tactic| (obtain ⟨x, $h1:ident, $h:ident⟩ := bind_ok $h; obtain $p:rcasesPat := x; try dsimp only at $h:ident))

/-! ## the name lists -/

theorem namelistRest_step {f : Nat} (ih : AllS f) {ts : List Tok} {ns : List String} {r : List Tok}
    (h : Spec.namelistRest (f + 1) ts = .ok (ns, r)) : sc .N ts = sc .N r := by
  rw [Spec.namelistRest] at h
  split at h
  · next hc =>
    binv h with ⟨n, ts1⟩, h1
    binv h with ⟨ns', ts2⟩, h2
    cases h
    rw [isSym_N hc, expectName_N h1, ih.namelistRest h2]
  · cases h; rfl

theorem dottedRest_step {f : Nat} (ih : AllS f) {ts : List Tok} {ns : List String} {r : List Tok}
    (h : Spec.dottedRest (f + 1) ts = .ok (ns, r)) : sc .Fn ts = sc .Fn r := by
  rw [Spec.dottedRest] at h
  split at h
  · next hc =>
    binv h with ⟨n, ts1⟩, h1
    binv h with ⟨ns', ts2⟩, h2
    cases h
    rw [scFn_sym (isSym_pk hc) (by decide), expectName_Fn h1, ih.dottedRest h2]
  · cases h; rfl

theorem attnamelist_step {f : Nat} (ih : AllS f) {ts : List Tok} {ns : List (String × Option String)} {r : List Tok}
    (h : Spec.attnamelist (f + 1) ts = .ok (ns, r)) : sc .N ts = sc .N r := by
  rw [Spec.attnamelist] at h
  binv h with ⟨n, ts1⟩, h1
  binv h with ⟨a, ts2⟩, h2
  have e2 : sc .N ts1 = sc .N ts2 := by
    split at h2
    · next hc =>
      binv h2 with ⟨a', t2⟩, h3
      binv h2 with t3, h4
      cases h2
      rw [isSym_N hc, expectName_N h3, expectSym_N h4]
    · cases h2; rfl
  split at h
  · next hc =>
    binv h with ⟨ns', ts3⟩, h3
    cases h
    rw [expectName_N h1, e2, isSym_N hc, ih.attnamelist h3]
  · cases h; rw [expectName_N h1, e2]

theorem parlist1_step {f : Nat} (ih : AllS f) {ts : List Tok} {ps : List String} {va : Bool} {r : List Tok}
    (h : Spec.parlist1 (f + 1) ts = .ok (ps, va, r)) : sc .Pa ts = sc .Pa r := by
  rw [Spec.parlist1] at h
  split at h
  · next hpk => cases h; exact scPa_sym hpk (by decide)
  · next n hpk =>
    split at h
    · next hc =>
      binv h with ⟨ps', va', ts1⟩, h1
      cases h
      rw [scPa_name hpk, scPa_sym (isSym_pk hc) (by decide), ih.parlist1 h1]
    · cases h; exact scPa_name hpk
  · cases h

theorem parlist_step {f : Nat} (ih : AllS f) {ts : List Tok} {ps : List String} {va : Bool} {r : List Tok}
    (h : Spec.parlist (f + 1) ts = .ok (ps, va, r)) : sc .Pa ts = sc .Pa r := by
  rw [Spec.parlist] at h
  split at h
  · cases h; rfl
  · split at h
    · next hpk => cases h; exact scPa_sym hpk (by decide)
    · next n hpk =>
      split at h
      · next hc =>
        binv h with ⟨ps', va', ts1⟩, h1
        cases h
        rw [scPa_name hpk, scPa_sym (isSym_pk hc) (by decide), ih.parlist1 h1]
      · cases h; exact scPa_name hpk
    · cases h

/-! ## expression lists, bodies, blocks -/

theorem restassign_step {f : Nat} (ih : AllS f) {ts : List Tok} {es : List Exp} {r : List Tok}
    (h : Spec.restassign (f + 1) ts = .ok (es, r)) : sc .N ts = kEs es ++ sc .N r := by
  rw [Spec.restassign] at h
  split at h
  · next hc =>
    binv h with ⟨e, ts1⟩, h1
    binv h with ⟨es', ts2⟩, h2
    cases h
    rw [isSym_N hc, (ih.suffixedexp h1).1, ih.restassign h2]; simp only [kEs, List.append_assoc]
  · cases h; simp only [kEs, List.nil_append]

theorem explist_step {f : Nat} (ih : AllS f) {ts : List Tok} {es : List Exp} {r : List Tok}
    (h : Spec.explist (f + 1) ts = .ok (es, r)) : sc .N ts = kEs es ++ sc .N r := by
  rw [Spec.explist] at h
  binv h with ⟨e, ts1⟩, h1
  split at h
  · next hc =>
    binv h with ⟨es', ts2⟩, h2
    cases h
    rw [ih.expr h1, isSym_N hc, ih.explist h2]; simp only [kEs, List.append_assoc]
  · cases h; rw [ih.expr h1]; simp only [kEs, List.append_nil]

theorem expr_step {f : Nat} (ih : AllS f) {ts : List Tok} {e : Exp} {r : List Tok}
    (h : Spec.expr (f + 1) ts = .ok (e, r)) : sc .N ts = kE e ++ sc .N r := by
  rw [Spec.expr] at h
  exact (climb_sc (fun ts e r => ih.simpleexp) (f + 1)).1 0 ts e r h

theorem body_step {f : Nat} (ih : AllS f) {ts : List Tok} {ps : List String} {va : Bool} {b : Block} {r : List Tok}
    (h : Spec.body (f + 1) ts = .ok (ps, va, b, r)) : sc .Fn ts = kB b ++ sc .N r := by
  rw [Spec.body] at h
  binv h with ts1, h1
  binv h with ⟨ps', va', ts2⟩, h2
  binv h with ts3, h3
  binv h with ⟨b', ts4⟩, h4
  binv h with ts5, h5
  cases h
  obtain ⟨p1, rfl⟩ := expectSym_ok h1
  obtain ⟨p3, rfl⟩ := expectSym_ok h3
  rw [scFn_paren p1, ih.parlist h2, scPa_paren p3, ih.block h4, expectKw_N h5 nxtN_end]

theorem block_step {f : Nat} (ih : AllS f) {ts : List Tok} {b : Block} {r : List Tok}
    (h : Spec.block (f + 1) ts = .ok (b, r)) : sc .Pd ts = kB b ++ sc .N r := by
  rw [Spec.block] at h
  binv h with ⟨ss, ret, ts1⟩, h1
  cases h
  obtain ⟨e1, e2⟩ := ih.statlist h1
  rw [sc_Pd, e1, e2, kB_mk]
  simp only [List.cons_append, List.append_assoc]

theorem statlist_step {f : Nat} (ih : AllS f) {ts : List Tok} {ss : List Stat} {ret : Option (List Exp)} {r : List Tok}
    (h : Spec.statlist (f + 1) ts = .ok (ss, ret, r)) :
    sc .N ts = kSs ss ++ kRet ret ++ sc .N r ∧ kindOf (pk ts) = firstKd ss := by
  rw [Spec.statlist] at h
  split at h
  · next hbf =>
    cases h
    exact ⟨by simp only [kSs, kRet, List.nil_append], by rw [blockFollow_O hbf]; rfl⟩
  · split at h
    · next hret =>
      have hpk := isKw_pk hret
      have e0 : sc .N ts = sc .N ts.tail := scN_kw hpk (by decide)
      have k0 : kindOf (pk ts) = firstKd [] := by rw [hpk]; decide
      dsimp only at h
      split at h
      · cases h
        refine ⟨?_, k0⟩
        rw [sc_optSemi, e0]; simp only [kSs, kRet, kEs, List.nil_append]
      · binv h with ⟨es, ts2⟩, h1
        cases h
        refine ⟨?_, k0⟩
        rw [sc_optSemi, e0, ih.explist h1]; simp only [kSs, kRet, List.nil_append]
    · binv h with ⟨s, ts1⟩, h1
      binv h with ⟨ss', ret', ts2⟩, h2
      cases h
      obtain ⟨e1, k1⟩ := ih.statement h1
      obtain ⟨e2, _⟩ := ih.statlist h2
      refine ⟨?_, ?_⟩
      · rw [e1, e2]; simp only [kSs, List.append_assoc]
      · rw [← k1]; rfl

theorem ifrest_step {f : Nat} (ih : AllS f) {ts : List Tok} {elifs : List ElseIf} {els : Option Block} {r : List Tok}
    (h : Spec.ifrest (f + 1) ts = .ok (elifs, els, r)) : sc .N ts = kElifs elifs ++ kOptB els ++ sc .N r := by
  rw [Spec.ifrest] at h
  split at h
  · next hc =>
    binv h with ⟨c, ts1⟩, h1
    binv h with ts2, h2
    binv h with ⟨b, ts3⟩, h3
    binv h with ⟨elifs', els', ts4⟩, h4
    cases h
    rw [scN_kw (isKw_pk hc) (by decide), ih.expr h1, expectKw_Pd h2 (by decide), ih.block h3, ih.ifrest h4]
    simp only [kElifs, List.append_assoc]
  · split at h
    · next hc =>
      binv h with ⟨b, ts1⟩, h1
      binv h with ts2, h2
      cases h
      rw [scN_open (isKw_pk hc) (by decide), ih.block h1, expectKw_N h2 nxtN_end]
      simp only [kElifs, kOptB, List.nil_append]
    · binv h with ts1, h1
      cases h
      rw [expectKw_N h1 nxtN_end]
      simp only [kElifs, kOptB, List.nil_append]

/-! ## expressions -/

theorem simpleexp_step {f : Nat} (ih : AllS f) {ts : List Tok} {e : Exp} {r : List Tok}
    (h : Spec.simpleexp (f + 1) ts = .ok (e, r)) : sc .N ts = kE e ++ sc .N r := by
  rw [Spec.simpleexp] at h
  split at h
  · next n hpk => cases h; rw [scN_num hpk]; simp only [kE, List.nil_append]
  · next v hpk => cases h; rw [scN_str hpk]; simp only [kE, List.nil_append]
  · next hpk => cases h; rw [scN_kw hpk (by decide)]; simp only [kE, List.nil_append]
  · next hpk => cases h; rw [scN_kw hpk (by decide)]; simp only [kE, List.nil_append]
  · next hpk => cases h; rw [scN_kw hpk (by decide)]; simp only [kE, List.nil_append]
  · next hpk => cases h; rw [scN_sym hpk]; simp only [kE, List.nil_append]
  · next hpk =>
    binv h with ⟨fs, ts1⟩, h1
    cases h
    rw [scN_sym hpk, ih.fields h1]; simp only [kE]
  · next hpk =>
    binv h with ⟨ps, va, b, ts1⟩, h1
    cases h
    rw [scN_function hpk, ih.body h1]; simp only [kE]
  · exact (ih.suffixedexp h).1

theorem suffixedexp_step {f : Nat} (ih : AllS f) {ts : List Tok} {e : Exp} {r : List Tok}
    (h : Spec.suffixedexp (f + 1) ts = .ok (e, r)) :
    sc .N ts = kE e ++ sc .N r ∧ kindOf (pk ts) = (if leftParen e then .P else .O) ∧
      leftParen e = (pk ts == .sym "(") := by
  rw [Spec.suffixedexp] at h
  split at h
  · next n hpk =>
    obtain ⟨x, hx1, hx2, hx3⟩ := ih.suffixes h
    refine ⟨?_, ?_, ?_⟩
    · rw [scN_name hpk, hx2, hx1]; simp only [kE, List.nil_append]
    · rw [hx3, hpk]; simp [leftParen, kindOf]
    · rw [hx3, hpk]; simp [leftParen]
  · next hpk =>
    binv h with ⟨e1, ts1⟩, h1
    binv h with ts2, h2
    obtain ⟨x, hx1, hx2, hx3⟩ := ih.suffixes h
    refine ⟨?_, ?_, ?_⟩
    · rw [scN_sym hpk, ih.expr h1, expectSym_N h2, hx2, hx1]; simp only [kE, List.append_assoc]
    · rw [hx3, hpk]; simp [leftParen, kindOf]
    · rw [hx3, hpk]; simp [leftParen]
  · cases h

theorem suffixes_step {f : Nat} (ih : AllS f) {e0 : Exp} {ts : List Tok} {e : Exp} {r : List Tok}
    (h : Spec.suffixes (f + 1) e0 ts = .ok (e, r)) :
    ∃ x, kE e = kE e0 ++ x ∧ sc .N ts = x ++ sc .N r ∧ leftParen e = leftParen e0 := by
  have hcall : ∀ {args ts1}, Spec.funcargs f ts = .ok (args, ts1) → Spec.suffixes f (.call e0 args) ts1 = .ok (e, r) →
      ∃ x, kE e = kE e0 ++ x ∧ sc .N ts = x ++ sc .N r ∧ leftParen e = leftParen e0 := by
    intro args ts1 h1 h
    obtain ⟨x, hx1, hx2, hx3⟩ := ih.suffixes h
    refine ⟨kEs args ++ x, ?_, ?_, ?_⟩
    · rw [hx1]; simp only [kE, List.append_assoc]
    · rw [ih.funcargs h1, hx2]; simp only [List.append_assoc]
    · rw [hx3]; simp only [leftParen]
  rw [Spec.suffixes] at h
  split at h
  · next hpk =>
    binv h with ⟨n, ts1⟩, h1
    obtain ⟨x, hx1, hx2, hx3⟩ := ih.suffixes h
    refine ⟨x, ?_, ?_, ?_⟩
    · rw [hx1]; simp only [kE]
    · rw [scN_sym hpk, expectName_N h1, hx2]
    · rw [hx3]; simp only [leftParen]
  · next hpk =>
    binv h with ⟨k, ts1⟩, h1
    binv h with ts2, h2
    obtain ⟨x, hx1, hx2, hx3⟩ := ih.suffixes h
    refine ⟨kE k ++ x, ?_, ?_, ?_⟩
    · rw [hx1]; simp only [kE, List.append_assoc]
    · rw [scN_sym hpk, ih.expr h1, expectSym_N h2, hx2]; simp only [List.append_assoc]
    · rw [hx3]; simp only [leftParen]
  · next hpk =>
    binv h with ⟨m, ts1⟩, h1
    binv h with ⟨args, ts2⟩, h2
    obtain ⟨x, hx1, hx2, hx3⟩ := ih.suffixes h
    refine ⟨kEs args ++ x, ?_, ?_, ?_⟩
    · rw [hx1]; simp only [kE, List.append_assoc]
    · rw [scN_sym hpk, expectName_N h1, ih.funcargs h2, hx2]; simp only [List.append_assoc]
    · rw [hx3]; simp only [leftParen]
  · binv h with ⟨args, ts1⟩, h1
    exact hcall h1 h
  · binv h with ⟨args, ts1⟩, h1
    exact hcall h1 h
  · binv h with ⟨args, ts1⟩, h1
    exact hcall h1 h
  · cases h
    exact ⟨[], by simp only [List.append_nil], by simp only [List.nil_append], rfl⟩

theorem funcargs_step {f : Nat} (ih : AllS f) {ts : List Tok} {es : List Exp} {r : List Tok}
    (h : Spec.funcargs (f + 1) ts = .ok (es, r)) : sc .N ts = kEs es ++ sc .N r := by
  rw [Spec.funcargs] at h
  split at h
  · next hpk =>
    split at h
    · next hc =>
      cases h
      rw [scN_sym hpk, isSym_N hc]; simp only [kEs, List.nil_append]
    · binv h with ⟨es', ts1⟩, h1
      binv h with ts2, h2
      cases h
      rw [scN_sym hpk, ih.explist h1, expectSym_N h2]
  · next hpk =>
    binv h with ⟨fs, ts1⟩, h1
    cases h
    rw [scN_sym hpk, ih.fields h1]; simp only [kEs, kE, List.append_nil]
  · next v hpk =>
    cases h
    rw [scN_str hpk]; simp only [kEs, kE, List.append_nil, List.nil_append]
  · cases h

theorem fields_step {f : Nat} (ih : AllS f) {ts : List Tok} {fs : List Field} {r : List Tok}
    (h : Spec.fields (f + 1) ts = .ok (fs, r)) : sc .N ts = kFs fs ++ sc .N r := by
  rw [Spec.fields] at h
  split at h
  · next hc => cases h; rw [isSym_N hc]; simp only [kFs, List.nil_append]
  · binv h with ⟨fd, ts1⟩, h1
    have e1 : sc .N ts = kF fd ++ sc .N ts1 := by
      split at h1
      · next n hpk =>
        split at h1
        · next hc =>
          binv h1 with ⟨e, t2⟩, h2
          cases h1
          rw [scN_name hpk, isSym_N hc, ih.expr h2]; simp only [kF]
        · binv h1 with ⟨e, t2⟩, h2
          cases h1
          rw [ih.expr h2]; simp only [kF]
      · next hpk =>
        binv h1 with ⟨k, t1⟩, h2
        binv h1 with t2, h3
        binv h1 with t3, h4
        binv h1 with ⟨e, t4⟩, h5
        cases h1
        rw [scN_sym hpk, ih.expr h2, expectSym_N h3, expectSym_N h4, ih.expr h5]; simp only [kF, List.append_assoc]
      · binv h1 with ⟨e, t2⟩, h2
        cases h1
        rw [ih.expr h2]; simp only [kF]
    split at h
    · next hc =>
      binv h with ⟨fs', ts2⟩, h2
      cases h
      have e2 : sc .N ts1 = sc .N ts1.tail := by
        cases hc1 : isSym "," ts1 with
        | true => exact isSym_N hc1
        | false => rw [hc1] at hc; exact isSym_N (by simpa using hc)
      rw [e1, e2, ih.fields h2]; simp only [kFs, List.append_assoc]
    · binv h with ts2, h2
      cases h
      rw [e1, expectSym_N h2]; simp only [kFs, List.append_nil]

/-! ## statements -/

theorem statement_step {f : Nat} (ih : AllS f) {ts : List Tok} {s : Stat} {r : List Tok}
    (h : Spec.statement (f + 1) ts = .ok (s, r)) : sc .N ts = kS s ++ sc .N r ∧ headKd s = kindOf (pk ts) := by
  rw [Spec.statement] at h
  split at h
  · next hpk =>
    cases h
    refine ⟨?_, by rw [hpk]; first | decide | (show Kd.O = _; decide)⟩
    rw [scN_sym hpk]; simp only [kS, List.nil_append]
  · next hpk =>
    -- if
    binv h with ⟨c, ts1⟩, h1
    binv h with ts2, h2
    binv h with ⟨b, ts3⟩, h3
    binv h with ⟨elifs, els, ts4⟩, h4
    cases h
    refine ⟨?_, by rw [hpk]; first | decide | (show Kd.O = _; decide)⟩
    rw [scN_kw hpk (by decide), ih.expr h1, expectKw_Pd h2 (by decide), ih.block h3, ih.ifrest h4]
    simp only [kS, List.append_assoc]
  · next hpk =>
    -- while
    binv h with ⟨c, ts1⟩, h1
    binv h with ts2, h2
    binv h with ⟨b, ts3⟩, h3
    binv h with ts4, h4
    cases h
    refine ⟨?_, by rw [hpk]; first | decide | (show Kd.O = _; decide)⟩
    rw [scN_kw hpk (by decide), ih.expr h1, expectKw_Pd h2 nxtN_do, ih.block h3, expectKw_N h4 nxtN_end]
    simp only [kS, List.append_assoc]
  · next hpk =>
    -- do
    binv h with ⟨b, ts1⟩, h1
    binv h with ts2, h2
    cases h
    refine ⟨?_, by rw [hpk]; first | decide | (show Kd.O = _; decide)⟩
    rw [scN_open hpk nxtN_do, ih.block h1, expectKw_N h2 nxtN_end]
    simp only [kS]
  · next hpk =>
    -- for
    binv h with ⟨n, ts1⟩, h1
    have e0 : sc .N ts = sc .N ts1 := by rw [scN_kw hpk (by decide), expectName_N h1]
    split at h
    · next hc =>
      binv h with ⟨a, ts2⟩, h2
      binv h with ts3, h3
      binv h with ⟨b, ts4⟩, h4
      split at h
      · next hc2 =>
        binv h with ⟨st, ts5⟩, h5
        binv h with ts6, h6
        binv h with ⟨body, ts7⟩, h7
        binv h with ts8, h8
        cases h
        refine ⟨?_, by rw [hpk]; first | decide | (show Kd.O = _; decide)⟩
        rw [e0, isSym_N hc, ih.expr h2, expectSym_N h3, ih.expr h4, isSym_N hc2, ih.expr h5, expectKw_Pd h6 nxtN_do,
          ih.block h7, expectKw_N h8 nxtN_end]
        simp only [kS, List.append_assoc]
      · binv h with ts6, h6
        binv h with ⟨body, ts7⟩, h7
        binv h with ts8, h8
        cases h
        refine ⟨?_, by rw [hpk]; first | decide | (show Kd.O = _; decide)⟩
        rw [e0, isSym_N hc, ih.expr h2, expectSym_N h3, ih.expr h4, expectKw_Pd h6 nxtN_do,
          ih.block h7, expectKw_N h8 nxtN_end]
        simp only [kS, List.append_assoc, List.nil_append]
    · split at h
      · binv h with ⟨ns, ts2⟩, h2
        binv h with ts3, h3
        binv h with ⟨es, ts4⟩, h4
        binv h with ts5, h5
        binv h with ⟨body, ts6⟩, h6
        binv h with ts7, h7
        cases h
        refine ⟨?_, by rw [hpk]; first | decide | (show Kd.O = _; decide)⟩
        rw [e0, ih.namelistRest h2, expectKw_N h3 (by decide), ih.explist h4, expectKw_Pd h5 nxtN_do,
          ih.block h6, expectKw_N h7 nxtN_end]
        simp only [kS, List.append_assoc]
      · cases h
  · next hpk =>
    -- repeat
    binv h with ⟨b, ts1⟩, h1
    binv h with ts2, h2
    binv h with ⟨c, ts3⟩, h3
    cases h
    refine ⟨?_, by rw [hpk]; first | decide | (show Kd.O = _; decide)⟩
    rw [scN_open hpk (by decide), ih.block h1, expectKw_N h2 (by decide), ih.expr h3]
    simp only [kS, List.append_assoc]
  · next hpk =>
    -- function
    binv h with ⟨n, ts1⟩, h1
    binv h with ⟨ns, ts2⟩, h2
    have e0 : sc .N ts = sc .Fn ts2 := by rw [scN_function hpk, expectName_Fn h1, ih.dottedRest h2]
    split at h
    · next hc =>
      binv h with ⟨m, ts3⟩, h3
      binv h with ⟨ps, va, b, ts4⟩, h4
      cases h
      refine ⟨?_, by rw [hpk]; first | decide | (show Kd.O = _; decide)⟩
      rw [e0, scFn_sym (isSym_pk hc) (by decide), expectName_Fn h3, ih.body h4]
      simp only [kS]
    · binv h with ⟨ps, va, b, ts4⟩, h4
      cases h
      refine ⟨?_, by rw [hpk]; first | decide | (show Kd.O = _; decide)⟩
      rw [e0, ih.body h4]
      simp only [kS]
  · next hpk =>
    -- local
    have e0 : sc .N ts = sc .N ts.tail := scN_kw hpk (by decide)
    split at h
    · next hc =>
      binv h with ⟨n, ts1⟩, h1
      binv h with ⟨ps, va, b, ts2⟩, h2
      cases h
      refine ⟨?_, by rw [hpk]; first | decide | (show Kd.O = _; decide)⟩
      rw [e0, scN_function (isKw_pk hc), expectName_Fn h1, ih.body h2]
      simp only [kS]
    · binv h with ⟨ns, ts1⟩, h1
      split at h
      · next hc2 =>
        binv h with ⟨es, ts2⟩, h2
        cases h
        refine ⟨?_, by rw [hpk]; first | decide | (show Kd.O = _; decide)⟩
        rw [e0, ih.attnamelist h1, isSym_N hc2, ih.explist h2]
        simp only [kS]
      · cases h
        refine ⟨?_, by rw [hpk]; first | decide | (show Kd.O = _; decide)⟩
        rw [e0, ih.attnamelist h1]
        simp only [kS, kEs, List.nil_append]
  · next hpk =>
    -- label
    binv h with ⟨n, ts1⟩, h1
    binv h with ts2, h2
    cases h
    refine ⟨?_, by rw [hpk]; first | decide | (show Kd.O = _; decide)⟩
    rw [scN_sym hpk, expectName_N h1, expectSym_N h2]
    simp only [kS, List.nil_append]
  · next hpk =>
    -- break
    cases h
    refine ⟨?_, by rw [hpk]; first | decide | (show Kd.O = _; decide)⟩
    rw [scN_kw hpk (by decide)]; simp only [kS, List.nil_append]
  · next hpk =>
    -- goto
    binv h with ⟨n, ts1⟩, h1
    cases h
    refine ⟨?_, by rw [hpk]; first | decide | (show Kd.O = _; decide)⟩
    rw [scN_kw hpk (by decide), expectName_N h1]; simp only [kS, List.nil_append]
  · -- expression statement
    binv h with ⟨e, ts1⟩, h1
    obtain ⟨e1, k1, _⟩ := ih.suffixedexp h1
    split at h
    · binv h with ⟨vs, ts2⟩, h2
      binv h with ts3, h3
      binv h with ⟨es, ts4⟩, h4
      split at h
      · cases h
        refine ⟨?_, by rw [k1]; rfl⟩
        rw [e1, ih.restassign h2, expectSym_N h3, ih.explist h4]
        simp only [kS, kEs, List.append_assoc]
      · cases h
    · split at h
      · cases h
        refine ⟨?_, by rw [k1]; rfl⟩
        rw [e1]; simp only [kS]
      · cases h

/-! ## the induction -/

theorem allS_zero : AllS 0 where
  statlist := fun h => by rw [Spec.statlist] at h; cases h
  block := fun h => by rw [Spec.block] at h; cases h
  statement := fun h => by rw [Spec.statement] at h; cases h
  ifrest := fun h => by rw [Spec.ifrest] at h; cases h
  namelistRest := fun h => by rw [Spec.namelistRest] at h; cases h
  dottedRest := fun h => by rw [Spec.dottedRest] at h; cases h
  attnamelist := fun h => by rw [Spec.attnamelist] at h; cases h
  restassign := fun h => by rw [Spec.restassign] at h; cases h
  explist := fun h => by rw [Spec.explist] at h; cases h
  expr := fun h => by rw [Spec.expr] at h; cases h
  simpleexp := fun h => by rw [Spec.simpleexp] at h; cases h
  suffixedexp := fun h => by rw [Spec.suffixedexp] at h; cases h
  suffixes := fun h => by rw [Spec.suffixes] at h; cases h
  funcargs := fun h => by rw [Spec.funcargs] at h; cases h
  fields := fun h => by rw [Spec.fields] at h; cases h
  body := fun h => by rw [Spec.body] at h; cases h
  parlist := fun h => by rw [Spec.parlist] at h; cases h
  parlist1 := fun h => by rw [Spec.parlist1] at h; cases h

theorem allS_succ {f : Nat} (ih : AllS f) : AllS (f + 1) where
  statlist := statlist_step ih
  block := block_step ih
  statement := statement_step ih
  ifrest := ifrest_step ih
  namelistRest := namelistRest_step ih
  dottedRest := dottedRest_step ih
  attnamelist := attnamelist_step ih
  restassign := restassign_step ih
  explist := explist_step ih
  expr := expr_step ih
  simpleexp := simpleexp_step ih
  suffixedexp := suffixedexp_step ih
  suffixes := suffixes_step ih
  funcargs := funcargs_step ih
  fields := fields_step ih
  body := body_step ih
  parlist := parlist_step ih
  parlist1 := parlist1_step ih

/-- the scanner facts for all 18 reference parse functions at every fuel -/
theorem allS : ∀ f, AllS f
  | 0 => allS_zero
  | f + 1 => allS_succ (allS f)

/-- **the block-start scanner reads the tree**: on the tokens of a successfully parsed block, started directly after a
block opener, the scanner reports `kB` of the tree, then continues on the rest in the normal state -/
theorem scan_block (f : Nat) (ts r : List Spec.Tok) (c : Spec.Block)
    (h : Spec.block f ts = .ok (c, r)) : sc .Pd ts = kB c ++ sc .N r :=
  (allS f).block h

end IdemScan

/-- **the block-start scanner agrees with the parse tree** -/
theorem scan_block (f : Nat) (ts r : List Spec.Tok) (c : Spec.Block)
    (h : Spec.block f ts = .ok (c, r)) : sc .Pd ts = kB c ++ sc .N r := IdemScan.scan_block f ts r c h

end Tumfl.Theory

