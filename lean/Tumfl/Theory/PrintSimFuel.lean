import Tumfl.Theory.PrintSimDefs
/-!
# A sufficient fuel for the reference parser on the tokens of a printed tree

`nE`, `nA`, ... bound the recursion depth of `Spec.expr` / `explist` / ... on the tokens of the printed construct.
For sequential consumers of one fuel counter (`climb` over the operands of an operator chain, `suffixes` over a chain of
suffixes, `statlist` over statements) the costs add up; for independent sub-parses the maximum is taken.
-/
namespace Tumfl.Theory
open Tumfl.Model

/-- extra cost of a parenthesised operand -/
def nWrap (b : Bool) : Nat := if b then 3 else 0

/-- a single string literal argument (printed without parentheses under `useCallShorthand`) -/
def isStrArg : List Expr → Bool
  | [.string _ _] => true
  | _ => false

mutual
def nE (semi : Bool) (sty : Style) : Expr → Nat
  | .nil _ | .bool _ _ | .vararg _ | .number _ _ | .string _ _ => 1
  | .func _ ps body => max (ps.length + 1) (nB semi sty body) + 2
  | .table _ fs => nFs semi sty fs + 1
  | .binop _ o l r =>
    (nE semi sty l + nWrap (needBin sty.brOpts o true l.kind)) + (nE semi sty r + nWrap (needBin sty.brOpts o false r.kind)) + 2
  | .unop _ u e => nE semi sty e + nWrap (needUn sty.brOpts u e.kind) + 2
  | .name _ _ => 3
  | .index _ l k => (if isVarLike l then nE semi sty l - 2 else nE semi sty l + 2) + nE semi sty k + 4
  | .namedIndex _ l _ => (if isVarLike l then nE semi sty l - 2 else nE semi sty l + 2) + 3
  | .call _ f args => (if isVarLike f then nE semi sty f - 2 else nE semi sty f + 2) + (if sty.useCallShorthand && isStrArg args then 1 else nA semi sty args + 2) + 3
  | .method _ f _ args => (if isVarLike f then nE semi sty f - 2 else nE semi sty f + 2) + (if sty.useCallShorthand && isStrArg args then 1 else nA semi sty args + 2) + 3

def nA (semi : Bool) (sty : Style) : List Expr → Nat
  | [] => 0
  | e :: rest => max (nE semi sty e + 2) (nA semi sty rest + 1)

def nFs (semi : Bool) (sty : Style) : List Field → Nat
  | [] => 1
  | f :: rest => max (nF semi sty f) (nFs semi sty rest) + 1

def nF (semi : Bool) (sty : Style) : Field → Nat
  | .explicit _ k v => max (nE semi sty k) (nE semi sty v) + 1
  | .named _ _ v => nE semi sty v + 1
  | .numbered _ v => nE semi sty v + 1

/-- `block` on the tokens of a nested block (with its leading separator) -/
def nB (semi : Bool) (sty : Style) : Block → Nat
  | .mk _ stmts rets _ =>
    nSs semi sty true stmts ((match rets with | some es => nA semi sty es + 1 | none => 1) + semiN semi) + semiN semi + 1

/-- `statlist` on the tokens of a statement list followed by something that needs `k` -/
def nSs (semi : Bool) (sty : Style) : Bool → List Stmt → Nat → Nat
  | _, [], k => k
  | first, s :: rest, k =>
    cmtN semi sty s + (if guardNeeded first (visitStmt sty s) then 1 else 0) +
      (if droppedSemi sty s then nSs semi sty false rest k + semiN semi
       else max (nS semi sty s) (nSs semi sty false rest k + 2 * semiN semi) + 1)

def nS (semi : Bool) (sty : Style) : Stmt → Nat
  | .assign _ ts es => max (nA semi sty ts) (nA semi sty es) + 1
  | .block b => nB semi sty b + 1
  | .brk _ => 1
  | .call _ f args => (if isVarLike f then nE semi sty f - 2 else nE semi sty f + 2) + (if sty.useCallShorthand && isStrArg args then 1 else nA semi sty args + 2) + 3
  | .funcDef _ names _ ps body => max names.length (max (ps.length + 1) (nB semi sty body) + 1) + 1
  | .goto _ _ => 1
  | .label _ _ => 1
  | .iff _ test tr fl => max (nE semi sty test + 1) (max (nB semi sty tr) (nFl semi sty fl)) + 1
  | .iterFor _ ns es body => max ns.length (max (nA semi sty es) (nB semi sty body)) + 1
  | .localAssign _ names es => max names.length (match es with | some es => nA semi sty es | none => 0) + 1
  | .localFunc _ _ ps body => max (ps.length + 1) (nB semi sty body) + 2
  | .method _ f _ args => (if isVarLike f then nE semi sty f - 2 else nE semi sty f + 2) + (if sty.useCallShorthand && isStrArg args then 1 else nA semi sty args + 2) + 3
  | .numFor _ _ a b step body =>
    max (max (nE semi sty a + 1) (nE semi sty b + 1))
      (max (match step with | some s => nE semi sty s + 1 | none => 0) (nB semi sty body)) + 1
  | .repeat _ c body => max (nB semi sty body) (nE semi sty c + 1) + 1
  | .semi _ => 1
  | .whl _ c body => max (nE semi sty c + 1) (nB semi sty body) + 1

def nFl (semi : Bool) (sty : Style) : IfFalse → Nat
  | .none => 1
  | .block b => nB semi sty b + 1
  | .elif _ test tr fl => max (nE semi sty test + 1) (max (nB semi sty tr) (nFl semi sty fl)) + 1
end

/-- `funcargs` on the tokens of printed call arguments -/
def nFA (semi : Bool) (sty : Style) (args : List Expr) : Nat :=
  if sty.useCallShorthand && isStrArg args then 1 else nA semi sty args + 2

/-- `block` on the tokens of the root -/
def nRoot (semi : Bool) (sty : Style) : Block → Nat
  | .mk _ stmts rets _ => nSs semi sty true stmts ((match rets with | some es => nA semi sty es + 1 | none => 1) + semiN semi) + 1

end Tumfl.Theory
