import Tumfl.Spec.Ops
/-!
# Declarative precedence specification and Lua's `subexpr`, over abstract atoms

`E` is the expression language with opaque atoms and an explicit parenthesis node, `yld` its
token yield, `PrecOK` the *declarative* statement of Lua's precedence and associativity rules
(local conditions on `low` and `cap`), `subexpr`/`loop` Lua's algorithm (`lparser.c`) on this token
language.  `climb_complete`: the algorithm finds every precedence-correct tree - so the
declarative specification is unambiguous and the algorithm is complete for it.
-/
namespace Tumfl.Theory
open Tumfl.Spec

/-- spec AST with explicit parens -/
inductive E
  | atom (n : Nat)
  | paren (e : E)
  | un (u : UOp) (e : E)
  | bin (o : BOp) (l r : E)
  deriving DecidableEq, Repr

inductive Tok
  | atom (n : Nat) | lpar | rpar | u (u : UOp) | b (o : BOp)
  deriving DecidableEq, Repr

def yld : E → List Tok
  | .atom n => [.atom n]
  | .paren e => .lpar :: (yld e ++ [.rpar])
  | .un u e => .u u :: yld e
  | .bin o l r => yld l ++ .b o :: yld r

/-- level: smallest left priority met on the top-left spine (∞ = 100) -/
def low : E → Nat
  | .bin o _ _ => lp o
  | _ => 100

/-- cap: what the right spine can absorb -/
def cap : E → Nat
  | .atom _ => 100
  | .paren _ => 100
  | .un _ e => min UPRI (cap e)
  | .bin o _ r => min (rp o) (cap r)

/-- declarative precedence-correctness, local conditions -/
def PrecOK : E → Prop
  | .atom _ => True
  | .paren e => PrecOK e
  | .un _ e => UPRI < low e ∧ PrecOK e
  | .bin o l r => lp o ≤ low l ∧ lp o ≤ cap l ∧ rp o < low r ∧ PrecOK l ∧ PrecOK r

/-- Lua's subexpr with fuel. Tokens: unary/binary distinguished already (simplification of the prototype). -/
def headLp : List Tok → Nat
  | .b o :: _ => lp o
  | _ => 0

mutual
def subexpr : Nat → Nat → List Tok → Option (E × List Tok)
  | 0, _, _ => none
  | f+1, limit, ts =>
    match ts with
    | .u u :: rest =>
      match subexpr f UPRI rest with
      | some (e, rest') => loop f limit (.un u e) rest'
      | none => none
    | .atom n :: rest => loop f limit (.atom n) rest
    | .lpar :: rest =>
      match subexpr f 0 rest with
      | some (e, .rpar :: rest') => loop f limit (.paren e) rest'
      | _ => none
    | _ => none
def loop : Nat → Nat → E → List Tok → Option (E × List Tok)
  | 0, _, _, _ => none
  | f+1, limit, acc, ts =>
    match ts with
    | .b o :: rest =>
      if limit < lp o then
        match subexpr f (rp o) rest with
        | some (e2, rest') => loop f limit (.bin o acc e2) rest'
        | none => none
      else some (acc, ts)
    | _ => some (acc, ts)
end


theorem subexpr_u (f limit u rest) : subexpr (f+1) limit (.u u :: rest) =
    match subexpr f UPRI rest with
    | some (e, rest') => loop f limit (.un u e) rest'
    | none => none := by rw [subexpr]
theorem subexpr_atom (f limit n rest) : subexpr (f+1) limit (.atom n :: rest) = loop f limit (.atom n) rest := by rw [subexpr]
theorem subexpr_lpar (f limit rest) : subexpr (f+1) limit (.lpar :: rest) =
    match subexpr f 0 rest with
    | some (e, .rpar :: rest') => loop f limit (.paren e) rest'
    | _ => none := by rw [subexpr]
theorem loop_b (f limit acc o rest) : loop (f+1) limit acc (.b o :: rest) =
    if limit < lp o then
      match subexpr f (rp o) rest with
      | some (e2, rest') => loop f limit (.bin o acc e2) rest'
      | none => none
    else some (acc, .b o :: rest) := by rw [loop]
theorem loop_stop (f limit acc ts) (h : headLp ts ≤ limit) : loop (f+1) limit acc ts = some (acc, ts) := by
  match ts with
  | [] => simp [loop]
  | .atom n :: rest => simp [loop]
  | .u u :: rest => simp [loop]
  | .lpar :: rest => simp [loop]
  | .rpar :: rest => simp [loop]
  | .b o :: rest =>
    rw [loop_b]; simp only [headLp] at h
    have : ¬ limit < lp o := by omega
    simp [this]

theorem mono_both : ∀ f, (∀ limit ts r, subexpr f limit ts = some r → subexpr (f+1) limit ts = some r)
    ∧ (∀ limit acc ts r, loop f limit acc ts = some r → loop (f+1) limit acc ts = some r) := by
  intro f
  induction f with
  | zero => constructor <;> intros <;> simp_all [subexpr, loop]
  | succ f ih =>
    obtain ⟨ihs, ihl⟩ := ih
    constructor
    · intro limit ts r h
      match ts with
      | [] => simp [subexpr] at h
      | .atom n :: rest => rw [subexpr_atom] at h ⊢; exact ihl _ _ _ _ h
      | .u u :: rest =>
        rw [subexpr_u] at h ⊢
        split at h
        · rename_i e rest' heq
          rw [ihs _ _ _ heq]; exact ihl _ _ _ _ h
        · contradiction
      | .lpar :: rest =>
        rw [subexpr_lpar] at h ⊢
        split at h
        · rename_i e rest' heq
          rw [ihs _ _ _ heq]; exact ihl _ _ _ _ h
        · contradiction
      | .rpar :: rest => simp [subexpr] at h
      | .b o :: rest => simp [subexpr] at h
    · intro limit acc ts r h
      match ts with
      | [] => simp [loop] at h ⊢; exact h
      | .atom n :: rest => simp [loop] at h ⊢; exact h
      | .u u :: rest => simp [loop] at h ⊢; exact h
      | .lpar :: rest => simp [loop] at h ⊢; exact h
      | .rpar :: rest => simp [loop] at h ⊢; exact h
      | .b o :: rest =>
        rw [loop_b] at h ⊢
        split at h
        · split at h
          · rename_i e2 rest' heq
            rw [ihs _ _ _ heq]; simp only [*, if_true]; exact ihl _ _ _ _ h
          · contradiction
        · simp only [*, if_false]

theorem subexpr_mono {f limit ts r} (g : Nat) (h : subexpr f limit ts = some r) : subexpr (f+g) limit ts = some r := by
  induction g with
  | zero => exact h
  | succ g ih => exact (mono_both _).1 _ _ _ ih
theorem loop_mono {f limit acc ts r} (g : Nat) (h : loop f limit acc ts = some r) : loop (f+g) limit acc ts = some r := by
  induction g with
  | zero => exact h
  | succ g ih => exact (mono_both _).2 _ _ _ _ ih
theorem subexpr_mono' {f f' limit ts r} (hle : f ≤ f') (h : subexpr f limit ts = some r) : subexpr f' limit ts = some r := by
  have := subexpr_mono (f' - f) h; rwa [Nat.add_sub_cancel' hle] at this
theorem loop_mono' {f f' limit acc ts r} (hle : f ≤ f') (h : loop f limit acc ts = some r) : loop f' limit acc ts = some r := by
  have := loop_mono (f' - f) h; rwa [Nat.add_sub_cancel' hle] at this

theorem low_pos : ∀ e, 0 < low e := by
  intro e; cases e <;> simp [low]; rename_i o _ _; cases o <;> simp [lp]

/-- Lua's algorithm finds every precedence-correct tree (continuation form). -/
theorem climb_complete : ∀ (e : E), PrecOK e → ∀ limit rest res f1, limit < low e → headLp rest ≤ cap e →
    loop f1 limit e rest = some res → ∃ f, subexpr f limit (yld e ++ rest) = some res := by
  intro e
  induction e with
  | atom n =>
    intro _ limit rest res f1 _ _ h
    exact ⟨f1+1, by rw [yld]; simpa [subexpr_atom] using h⟩
  | paren e ih =>
    intro hok limit rest res f1 _ _ h
    simp only [PrecOK] at hok
    -- inner: parse e at limit 0 followed by rpar
    have hin : loop 1 0 e (.rpar :: rest) = some (e, .rpar :: rest) := loop_stop 0 0 e _ (by simp [headLp])
    obtain ⟨f2, h2⟩ := ih hok 0 (.rpar :: rest) _ 1 (low_pos e) (by simp [headLp]) hin
    refine ⟨max f1 f2 + 1, ?_⟩
    simp only [yld, List.cons_append, List.append_assoc, List.nil_append]
    rw [subexpr_lpar, subexpr_mono' (Nat.le_max_right f1 f2) h2]
    exact loop_mono' (Nat.le_max_left f1 f2) h
  | un u e ih =>
    intro hok limit rest res f1 _ hcap h
    simp only [PrecOK] at hok
    simp only [cap] at hcap
    have hin : loop 1 UPRI e rest = some (e, rest) := loop_stop 0 _ e _ (by omega)
    obtain ⟨f2, h2⟩ := ih hok.2 UPRI rest _ 1 hok.1 (by omega) hin
    refine ⟨max f1 f2 + 1, ?_⟩
    simp only [yld, List.cons_append]
    rw [subexpr_u, subexpr_mono' (Nat.le_max_right f1 f2) h2]
    exact loop_mono' (Nat.le_max_left f1 f2) h
  | bin o l r ihl ihr =>
    intro hok limit rest res f1 hlow hcap h
    simp only [PrecOK] at hok
    obtain ⟨hl1, hl2, hr1, hokl, hokr⟩ := hok
    simp only [cap] at hcap
    simp only [low] at hlow
    -- right operand
    have hinr : loop 1 (rp o) r rest = some (r, rest) := loop_stop 0 _ r _ (by omega)
    obtain ⟨f2, h2⟩ := ihr hokr (rp o) rest _ 1 hr1 (by omega) hinr
    -- the loop step at o
    have hstep : loop (max f1 f2 + 1) limit l (.b o :: (yld r ++ rest)) = some res := by
      rw [loop_b]; simp only [hlow, if_true]
      rw [subexpr_mono' (Nat.le_max_right f1 f2) h2]
      exact loop_mono' (Nat.le_max_left f1 f2) h
    obtain ⟨f3, h3⟩ := ihl hokl limit (.b o :: (yld r ++ rest)) _ _ (by omega) (by simpa [headLp] using hl2) hstep
    exact ⟨f3, by simpa [yld, List.append_assoc] using h3⟩

theorem climb_complete_top (e : E) (h : PrecOK e) : ∃ f, subexpr f 0 (yld e) = some (e, []) := by
  have := climb_complete e h 0 [] (e, []) 1 (low_pos e) (by simp [headLp]) (loop_stop 0 0 e [] (by simp [headLp]))
  simpa using this

end Tumfl.Theory
