import Tumfl.Theory.Resolve
import Tumfl.Theory.ParsePrintable
import Tumfl.Theory.PrintInlinedPre
/-!
# The output of the dependency resolver is pre-printable

`resolveRecursive_q`: whatever `resolve_recursive` returns is a chunk that satisfies `qBlock false` - it is `Printable` except
that statement-level chunks (inlined files, possibly with a return list: finding K4) and chunk-flagged function bodies occur;
every parsed file is `Printable` (`parseText_printable`) and the walker keeps names, parameters, targets in place.
Under `NoTopReturn fs` (no file of the file system has a top-level `return`; sufficient, not necessary: only the files that
are required at statement level matter) it satisfies `qBlock true`, hence `Printable (flattenChunks b)`.
-/
namespace Tumfl.Theory
open Tumfl.Model

/-- name and vararg nodes: the resolver returns them as they are -/
def leafE : Expr → Bool
  | .name _ _ | .vararg _ => true
  | _ => false

theorem leafE_of_name {e : Expr} (h : nameNodeOK e = true) : leafE e = true := by
  cases e <;> simp_all [nameNodeOK, leafE]

theorem all_leaf_of_names : ∀ {es : List Expr}, es.all nameNodeOK = true → es.all leafE = true
  | [], _ => rfl
  | e :: rest, h => by
    simp only [List.all_cons, Bool.and_eq_true] at h ⊢
    exact ⟨leafE_of_name h.1, all_leaf_of_names h.2⟩

theorem all_leaf_of_params : ∀ (es : List Expr), paramsOK es = true → es.all leafE = true
  | [], _ => rfl
  | e :: rest, h => by
    have : leafE e = true ∧ paramsOK rest = true := by
      cases e <;> cases rest <;> simp_all [paramsOK, nameNodeOK, leafE]
    simp only [List.all_cons, Bool.and_eq_true]
    exact ⟨this.1, all_leaf_of_params rest this.2⟩

def TrivE : PyErr → Prop := fun _ => True

theorem Spec.any {α : Type} (x : RM α) : Spec x (fun _ => True) TrivE :=
  fun _ => ⟨fun _ _ _ => trivial, fun _ _ => trivial⟩

theorem parseFile_spec_p (fs : FS) (p : Path) :
    Spec (parseFile fs p) (fun b => ∃ text hs, fs.read p = some text ∧ parseText text = .ok (b, hs)) TrivE :=
  fun _ => ⟨fun _ _ h => (parseFile_ok h).2, fun _ _ => trivial⟩

def QE (r : Bool) (e e' : Expr) : Prop :=
  (leafE e = true → e' = e) ∧ isTargetShape e' = isTargetShape e ∧ (pExpr e = true → qExpr r e' = true)

def QEs (r : Bool) (es es' : List Expr) : Prop :=
  (es.all leafE = true → es' = es) ∧ es'.isEmpty = es.isEmpty ∧ es'.all isTargetShape = es.all isTargetShape ∧
    (pArgs es = true → qArgs r es' = true)

def QB (r : Bool) (b b' : Block) : Prop :=
  b'.isChunk = b.isChunk ∧ (b.rets = none → b'.rets = none) ∧ (pBlock b = true → qBlock r b' = true)

def QO (r : Bool) (o o' : Option Expr) : Prop :=
  (o = none → o' = none) ∧ ∀ e, o = some e → ∃ e', o' = some e' ∧ QE r e e'

/-- no file has a top-level `return` -/
def NoTopReturn (fs : FS) : Prop :=
  ∀ p text b hs, fs.read p = some text → parseText text = .ok (b, hs) → b.rets = none

theorem qSB_of_qBlock {r : Bool} {b : Block} (hq : qBlock r b = true) (hr : r = true → b.isChunk = true → b.rets = none) :
    qSB r b = true := by
  obtain ⟨t, ss, rs, c⟩ := b
  cases rs with
  | none => simpa [qSB, qBlock] using hq
  | some es =>
    cases r with
    | false => simpa [qSB, qBlock] using hq
    | true =>
      cases c with
      | false => simpa [qSB, qBlock] using hq
      | true => cases hr rfl rfl

theorem QE.name {r : Bool} {e e' : Expr} (h : QE r e e') (hn : nameNodeOK e = true) : e' = e := h.1 (leafE_of_name hn)

theorem pBlock_flag (t : Token) (ss : List Stmt) (rs : Option (List Expr)) (c c' : Bool) :
    pBlock (.mk t ss rs c) = pBlock (.mk t ss rs c') := by
  cases rs <;> simp [pBlock]

set_option hygiene false in
macro "q_ih" : tactic => `(tactic|
  first | exact ihE _ _ | exact ihEs _ _ | exact ihFs _ _ | exact ihB _ _ | exact ihSs _ _ | exact ihO _ _
        | exact ihS _ _ | exact ihF _ _)

theorem resolve_q (fs : FS) (sp : List Path) (r : Bool) (hr : r = true → NoTopReturn fs) : ∀ f : Nat,
    (∀ dir e, Spec (resolveExpr fs sp f dir e) (QE r e) TrivE) ∧
    (∀ dir es, Spec (resolveExprs fs sp f dir es) (QEs r es) TrivE) ∧
    (∀ dir fds, Spec (resolveFields fs sp f dir fds) (fun fds' => pFields fds = true → qFields r fds' = true) TrivE) ∧
    (∀ dir b, Spec (resolveBlock fs sp f dir b) (QB r b) TrivE) ∧
    (∀ dir ss, Spec (resolveStmts fs sp f dir ss) (fun ss' => pStmts ss = true → qStmts r ss' = true) TrivE) ∧
    (∀ dir o, Spec (resolveOptExpr fs sp f dir o) (QO r o) TrivE) ∧
    (∀ dir s, Spec (resolveStmt fs sp f dir s) (fun s' => pStmt s = true → qStmt r s' = true) TrivE) ∧
    (∀ dir fl, Spec (resolveFalse fs sp f dir fl) (fun fl' => pFalse fl = true → qFalse r fl' = true) TrivE) := by
  intro f
  induction f with
  | zero =>
    refine ⟨?_, ?_, ?_, ?_, ?_, ?_, ?_, ?_⟩ <;> intro dir x
    · rw [resolveExpr]; exact Spec.rfuel trivial
    · rw [resolveExprs]; exact Spec.rfuel trivial
    · rw [resolveFields]; exact Spec.rfuel trivial
    · rw [resolveBlock]; exact Spec.rfuel trivial
    · rw [resolveStmts]; exact Spec.rfuel trivial
    · rw [resolveOptExpr]; exact Spec.rfuel trivial
    · rw [resolveStmt]; exact Spec.rfuel trivial
    · rw [resolveFalse]; exact Spec.rfuel trivial
  | succ f ih =>
    obtain ⟨ihE, ihEs, ihFs, ihB, ihSs, ihO, ihS, ihF⟩ := ih
    refine ⟨?_, ?_, ?_, ?_, ?_, ?_, ?_, ?_⟩
    · intro dir e
      cases e <;> simp only [resolveExpr]
      all_goals try (apply Spec.pure; simp [QE, pExpr, qExpr]; done)
      case func t ps body =>
        refine Spec.bind (ihEs _ _) ?_; intro ps' hps
        refine Spec.bind (ihB _ _) ?_; intro body' hb
        apply Spec.pure
        refine ⟨by simp [leafE], rfl, ?_⟩
        intro hp
        simp only [pExpr, Bool.and_eq_true] at hp
        rw [hps.1 (all_leaf_of_params ps hp.1)]
        simp only [qExpr, Bool.and_eq_true]
        exact ⟨hp.1, hb.2.2 hp.2⟩
      case table t fds =>
        refine Spec.bind (ihFs _ _) ?_; intro fds' hf
        apply Spec.pure
        refine ⟨by simp [leafE], rfl, ?_⟩
        intro hp
        simp only [pExpr] at hp
        simp only [qExpr]
        exact hf hp
      case binop t o l rr =>
        refine Spec.bind (ihE _ _) ?_; intro r' hr'
        refine Spec.bind (ihE _ _) ?_; intro l' hl'
        apply Spec.pure
        refine ⟨by simp [leafE], rfl, ?_⟩
        intro hp
        simp only [pExpr, Bool.and_eq_true] at hp
        simp only [qExpr, Bool.and_eq_true]
        exact ⟨hl'.2.2 hp.1, hr'.2.2 hp.2⟩
      case unop t o x =>
        refine Spec.bind (ihE _ _) ?_; intro x' hx
        apply Spec.pure
        refine ⟨by simp [leafE], rfl, ?_⟩
        intro hp
        simp only [pExpr] at hp
        simp only [qExpr]
        exact hx.2.2 hp
      case index t l k =>
        refine Spec.bind (ihE _ _) ?_; intro l' hl'
        refine Spec.bind (ihE _ _) ?_; intro k' hk'
        apply Spec.pure
        refine ⟨by simp [leafE], rfl, ?_⟩
        intro hp
        simp only [pExpr, Bool.and_eq_true] at hp
        simp only [qExpr, Bool.and_eq_true]
        exact ⟨hl'.2.2 hp.1, hk'.2.2 hp.2⟩
      case namedIndex t l n =>
        refine Spec.bind (ihE _ _) ?_; intro l' hl'
        refine Spec.bind (ihE _ _) ?_; intro n' hn'
        apply Spec.pure
        refine ⟨by simp [leafE], rfl, ?_⟩
        intro hp
        simp only [pExpr, Bool.and_eq_true] at hp
        rw [hn'.name hp.2]
        simp only [qExpr, Bool.and_eq_true]
        exact ⟨hl'.2.2 hp.1, hp.2⟩
      case call t fn args =>
        cases hreq : isRequireName fn
        · simp only [Bool.false_eq_true, if_false]
          refine Spec.bind (ihE _ _) ?_; intro fn' hfn
          refine Spec.bind (ihEs _ _) ?_; intro args' hargs
          apply Spec.pure
          refine ⟨by simp [leafE], rfl, ?_⟩
          intro hp
          simp only [pExpr, Bool.and_eq_true] at hp
          simp only [qExpr, Bool.and_eq_true]
          exact ⟨hfn.2.2 hp.1, hargs.2.2.2 hp.2⟩
        · simp only [if_true]
          split
          · rename_i ts name
            refine Spec.bind (Spec.any _) ?_; intro p _
            cases p with
            | none => exact Spec.rthrow trivial
            | some path =>
              simp only
              refine Spec.bind (parseFile_spec_p fs path) ?_; intro ast hast
              obtain ⟨tk, ss, rs, c⟩ := ast
              simp only
              refine Spec.bind (ihB _ _) ?_; intro body' hb
              apply Spec.pure
              refine ⟨by simp [leafE], rfl, ?_⟩
              intro _
              obtain ⟨text, hs, hread, hparse⟩ := hast
              have hpb := (parseText_printable text _ hs hparse).2
              rw [pBlock_flag tk ss rs c true] at hpb
              simp only [qExpr, qArgs, paramsOK, Bool.and_true, Bool.true_and]
              exact hb.2.2 hpb
          · exact Spec.rthrow trivial
      case method t fn m args =>
        refine Spec.bind (ihE _ _) ?_; intro fn' hfn
        refine Spec.bind (ihE _ _) ?_; intro m' hm
        refine Spec.bind (ihEs _ _) ?_; intro args' hargs
        apply Spec.pure
        refine ⟨by simp [leafE], rfl, ?_⟩
        intro hp
        simp only [pExpr, Bool.and_eq_true] at hp
        rw [hm.name hp.1.2]
        simp only [qExpr, Bool.and_eq_true]
        exact ⟨⟨hfn.2.2 hp.1.1, hp.1.2⟩, hargs.2.2.2 hp.2⟩
    · intro dir es
      cases es with
      | nil => simp only [resolveExprs]; apply Spec.pure; simp [QEs, pArgs, qArgs]
      | cons e rest =>
        simp only [resolveExprs]
        refine Spec.bind (ihE _ _) ?_; intro e' he
        refine Spec.bind (ihEs _ _) ?_; intro rest' hrest
        apply Spec.pure
        refine ⟨?_, by simp, ?_, ?_⟩
        · intro h
          simp only [List.all_cons, Bool.and_eq_true] at h
          rw [he.1 h.1, hrest.1 h.2]
        · simp only [List.all_cons, he.2.1, hrest.2.2.1]
        · intro hp
          simp only [pArgs, Bool.and_eq_true] at hp
          simp only [qArgs, Bool.and_eq_true]
          exact ⟨he.2.2 hp.1, hrest.2.2.2 hp.2⟩
    · intro dir fds
      cases fds with
      | nil => simp only [resolveFields]; apply Spec.pure; simp [pFields, qFields]
      | cons fd rest =>
        simp only [resolveFields]
        refine Spec.bind (P := fun fd' => pField fd = true → qField r fd' = true) ?_ ?_
        · cases fd with
          | explicit t k v =>
            simp only
            refine Spec.bind (ihE _ _) ?_; intro k' hk
            refine Spec.bind (ihE _ _) ?_; intro v' hv
            apply Spec.pure
            intro hp
            simp only [pField, Bool.and_eq_true] at hp
            simp only [qField, Bool.and_eq_true]
            exact ⟨hk.2.2 hp.1, hv.2.2 hp.2⟩
          | named t n v =>
            simp only
            refine Spec.bind (ihE _ _) ?_; intro n' hn
            refine Spec.bind (ihE _ _) ?_; intro v' hv
            apply Spec.pure
            intro hp
            simp only [pField, Bool.and_eq_true] at hp
            rw [hn.name hp.1]
            simp only [qField, Bool.and_eq_true]
            exact ⟨hp.1, hv.2.2 hp.2⟩
          | numbered t v =>
            simp only
            refine Spec.bind (ihE _ _) ?_; intro v' hv
            apply Spec.pure
            intro hp
            simp only [pField] at hp
            simp only [qField]
            exact hv.2.2 hp
        · intro fd' hfd
          refine Spec.bind (ihFs _ _) ?_; intro rest' hrest
          apply Spec.pure
          intro hp
          simp only [pFields, Bool.and_eq_true] at hp
          simp only [qFields, Bool.and_eq_true]
          exact ⟨hfd hp.1, hrest hp.2⟩
    · intro dir b
      obtain ⟨t, ss, rs, c⟩ := b
      simp only [resolveBlock]
      refine Spec.bind (ihSs _ _) ?_; intro ss' hss
      refine Spec.bind (P := fun rs' => (rs = none → rs' = none) ∧
          ∀ es, rs = some es → ∃ es', rs' = some es' ∧ QEs r es es') ?_ ?_
      · cases rs with
        | none => simp only; apply Spec.pure; simp
        | some es =>
          simp only
          refine Spec.bind (ihEs _ _) ?_; intro es' hes
          apply Spec.pure
          exact ⟨by simp, fun es0 h => by cases h; exact ⟨es', rfl, hes⟩⟩
      · intro rs' hrs
        apply Spec.pure
        refine ⟨rfl, ?_, ?_⟩
        · intro h; exact hrs.1 h
        · intro hp
          cases rs with
          | none =>
            rw [hrs.1 rfl]
            simp only [pBlock, Bool.and_true] at hp
            simp only [qBlock]
            exact hss hp
          | some es =>
            obtain ⟨es', h1, h2⟩ := hrs.2 es rfl
            subst h1
            simp only [pBlock, Bool.and_eq_true] at hp
            simp only [qBlock, Bool.and_eq_true]
            exact ⟨hss hp.1, h2.2.2.2 hp.2⟩
    · intro dir ss
      cases ss with
      | nil => simp only [resolveStmts]; apply Spec.pure; simp [pStmts, qStmts]
      | cons s rest =>
        simp only [resolveStmts]
        refine Spec.bind (ihS _ _) ?_; intro s' hs
        refine Spec.bind (ihSs _ _) ?_; intro rest' hrest
        apply Spec.pure
        intro hp
        simp only [pStmts, Bool.and_eq_true] at hp
        simp only [qStmts, Bool.and_eq_true]
        exact ⟨hs hp.1, hrest hp.2⟩
    · intro dir o
      cases o with
      | none => simp only [resolveOptExpr]; apply Spec.pure; exact ⟨fun _ => rfl, fun e h => by cases h⟩
      | some e =>
        simp only [resolveOptExpr]
        refine Spec.bind (ihE _ _) ?_; intro e' he
        apply Spec.pure
        exact ⟨fun h => (by cases h), fun e0 h => by cases h; exact ⟨e', rfl, he⟩⟩
    · intro dir s
      cases s <;> simp only [resolveStmt]
      all_goals try (apply Spec.pure; simp [pStmt, qStmt]; done)
      case assign t ts es =>
        refine Spec.bind (ihEs _ _) ?_; intro ts' hts
        refine Spec.bind (ihEs _ _) ?_; intro es' hes
        apply Spec.pure
        intro hp
        simp only [pStmt, Bool.and_eq_true] at hp
        simp only [qStmt, Bool.and_eq_true]
        rw [hts.2.1, hts.2.2.1, hes.2.1]
        exact ⟨⟨⟨⟨hp.1.1.1.1, hp.1.1.1.2⟩, hts.2.2.2 hp.1.1.2⟩, hp.1.2⟩, hes.2.2.2 hp.2⟩
      case block b =>
        refine Spec.bind (ihB _ _) ?_; intro b' hb
        apply Spec.pure
        intro hp
        simp only [pStmt, Bool.and_eq_true, Bool.not_eq_true'] at hp
        simp only [qStmt]
        refine qSB_of_qBlock (hb.2.2 hp.2) ?_
        intro _ hc
        rw [hb.1, hp.1] at hc
        cases hc
      case call t fn args =>
        cases hreq : isRequireName fn
        · simp only [Bool.false_eq_true, if_false]
          refine Spec.bind (ihE _ _) ?_; intro fn' hfn
          refine Spec.bind (ihEs _ _) ?_; intro args' hargs
          apply Spec.pure
          intro hp
          simp only [pStmt, Bool.and_eq_true] at hp
          simp only [qStmt, Bool.and_eq_true]
          exact ⟨hfn.2.2 hp.1, hargs.2.2.2 hp.2⟩
        · simp only [if_true]
          split
          · rename_i ts name
            refine Spec.bind (Spec.any _) ?_; intro p _
            cases p with
            | none => simp only; apply Spec.pure; simp [qStmt]
            | some path =>
              simp only
              refine Spec.bind (parseFile_spec_p fs path) ?_; intro ast hast
              obtain ⟨tk, ss, rs, c⟩ := ast
              simp only
              refine Spec.bind (ihB _ _) ?_; intro chunk' hb
              apply Spec.pure
              intro _
              obtain ⟨text, hs, hread, hparse⟩ := hast
              have hpb := (parseText_printable text _ hs hparse).2
              rw [pBlock_flag tk ss rs c true] at hpb
              simp only [qStmt]
              refine qSB_of_qBlock (hb.2.2 hpb) ?_
              intro hr' _
              apply hb.2.1
              have := hr hr' path text _ hs hread hparse
              simpa [Block.rets] using this
          · exact Spec.rthrow trivial
      case funcDef t ns m ps body =>
        refine Spec.bind (ihEs _ _) ?_; intro ns' hns
        refine Spec.bind (ihO _ _) ?_; intro m' hm
        refine Spec.bind (ihEs _ _) ?_; intro ps' hps
        refine Spec.bind (ihB _ _) ?_; intro body' hb
        apply Spec.pure
        intro hp
        cases m with
        | none =>
          rw [hm.1 rfl]
          simp only [pStmt, Bool.and_eq_true, Bool.and_true] at hp
          rw [hns.1 (all_leaf_of_names hp.1.1.2), hps.1 (all_leaf_of_params ps hp.1.2)]
          simp only [qStmt, Bool.and_eq_true]
          exact ⟨⟨hp.1.1, hp.1.2⟩, hb.2.2 hp.2⟩
        | some mn =>
          obtain ⟨mn', h1, h2⟩ := hm.2 mn rfl
          subst h1
          simp only [pStmt, Bool.and_eq_true] at hp
          rw [hns.1 (all_leaf_of_names hp.1.1.1.2), hps.1 (all_leaf_of_params ps hp.1.2), h2.name hp.1.1.2]
          simp only [qStmt, Bool.and_eq_true]
          exact ⟨⟨⟨hp.1.1.1, hp.1.1.2⟩, hp.1.2⟩, hb.2.2 hp.2⟩
      case goto t l =>
        refine Spec.bind (ihE _ _) ?_; intro l' hl
        apply Spec.pure
        intro hp
        simp only [pStmt] at hp
        rw [hl.name hp]
        simpa only [qStmt] using hp
      case label t l =>
        refine Spec.bind (ihE _ _) ?_; intro l' hl
        apply Spec.pure
        intro hp
        simp only [pStmt] at hp
        rw [hl.name hp]
        simpa only [qStmt] using hp
      case iff t c tr fl =>
        refine Spec.bind (ihE _ _) ?_; intro c' hc
        refine Spec.bind (ihB _ _) ?_; intro tr' htr
        refine Spec.bind (ihF _ _) ?_; intro fl' hfl
        apply Spec.pure
        intro hp
        simp only [pStmt, Bool.and_eq_true] at hp
        simp only [qStmt, Bool.and_eq_true, htr.1]
        exact ⟨⟨⟨hc.2.2 hp.1.1.1, hp.1.1.2⟩, htr.2.2 hp.1.2⟩, hfl hp.2⟩
      case iterFor t ns es body =>
        refine Spec.bind (ihEs _ _) ?_; intro ns' hns
        refine Spec.bind (ihEs _ _) ?_; intro es' hes
        refine Spec.bind (ihB _ _) ?_; intro body' hb
        apply Spec.pure
        intro hp
        simp only [pStmt, Bool.and_eq_true] at hp
        rw [hns.1 (all_leaf_of_names hp.1.1.1.1.2)]
        simp only [qStmt, Bool.and_eq_true, hb.1, hes.2.1]
        exact ⟨⟨⟨⟨hp.1.1.1.1, hp.1.1.1.2⟩, hes.2.2.2 hp.1.1.2⟩, hp.1.2⟩, hb.2.2 hp.2⟩
      case localAssign t names es =>
        refine Spec.bind (P := fun es' => (es = none → es' = none) ∧
            ∀ l, es = some l → ∃ l', es' = some l' ∧ QEs r l l') ?_ ?_
        · cases es with
          | none => simp only; apply Spec.pure; simp
          | some l =>
            simp only
            refine Spec.bind (ihEs _ _) ?_; intro l' hl
            apply Spec.pure
            exact ⟨by simp, fun l0 h => by cases h; exact ⟨l', rfl, hl⟩⟩
        · intro es' hes
          apply Spec.pure
          intro hp
          cases es with
          | none =>
            rw [hes.1 rfl]
            simpa [pStmt, qStmt] using hp
          | some l =>
            obtain ⟨l', h1, h2⟩ := hes.2 l rfl
            subst h1
            cases l with
            | nil => simp [pStmt] at hp
            | cons e rest =>
              cases l' with
              | nil => have := h2.2.1; simp at this
              | cons e' rest' =>
                simp only [pStmt, Bool.and_eq_true] at hp
                simp only [qStmt, Bool.and_eq_true]
                exact ⟨hp.1, h2.2.2.2 hp.2⟩
      case localFunc t n ps body =>
        refine Spec.bind (ihE _ _) ?_; intro n' hn
        refine Spec.bind (ihEs _ _) ?_; intro ps' hps
        refine Spec.bind (ihB _ _) ?_; intro body' hb
        apply Spec.pure
        intro hp
        simp only [pStmt, Bool.and_eq_true] at hp
        rw [hn.name hp.1.1, hps.1 (all_leaf_of_params ps hp.1.2)]
        simp only [qStmt, Bool.and_eq_true]
        exact ⟨hp.1, hb.2.2 hp.2⟩
      case method t fn m args =>
        refine Spec.bind (ihE _ _) ?_; intro fn' hfn
        refine Spec.bind (ihE _ _) ?_; intro m' hm
        refine Spec.bind (ihEs _ _) ?_; intro args' hargs
        apply Spec.pure
        intro hp
        simp only [pStmt, Bool.and_eq_true] at hp
        rw [hm.name hp.1.2]
        simp only [qStmt, Bool.and_eq_true]
        exact ⟨⟨hfn.2.2 hp.1.1, hp.1.2⟩, hargs.2.2.2 hp.2⟩
      case numFor t v a b st body =>
        refine Spec.bind (ihE _ _) ?_; intro v' hv
        refine Spec.bind (ihE _ _) ?_; intro a' ha
        refine Spec.bind (ihE _ _) ?_; intro b' hb'
        refine Spec.bind (ihO _ _) ?_; intro st' hst
        refine Spec.bind (ihB _ _) ?_; intro body' hb
        apply Spec.pure
        intro hp
        cases st with
        | none =>
          rw [hst.1 rfl]
          simp only [pStmt, Bool.and_eq_true, Bool.and_true] at hp
          rw [hv.name hp.1.1.1.1]
          simp only [qStmt, Bool.and_eq_true, hb.1]
          exact ⟨⟨⟨⟨hp.1.1.1.1, ha.2.2 hp.1.1.1.2⟩, hb'.2.2 hp.1.1.2⟩, hp.1.2⟩, hb.2.2 hp.2⟩
        | some s0 =>
          obtain ⟨s', h1, h2⟩ := hst.2 s0 rfl
          subst h1
          simp only [pStmt, Bool.and_eq_true] at hp
          rw [hv.name hp.1.1.1.1.1]
          simp only [qStmt, Bool.and_eq_true, hb.1]
          exact ⟨⟨⟨⟨⟨hp.1.1.1.1.1, ha.2.2 hp.1.1.1.1.2⟩, hb'.2.2 hp.1.1.1.2⟩, h2.2.2 hp.1.1.2⟩, hp.1.2⟩, hb.2.2 hp.2⟩
      case «repeat» t c body =>
        refine Spec.bind (ihE _ _) ?_; intro c' hc
        refine Spec.bind (ihB _ _) ?_; intro body' hb
        apply Spec.pure
        intro hp
        simp only [pStmt, Bool.and_eq_true] at hp
        simp only [qStmt, Bool.and_eq_true, hb.1]
        exact ⟨⟨hp.1.1, hb.2.2 hp.1.2⟩, hc.2.2 hp.2⟩
      case whl t c body =>
        refine Spec.bind (ihE _ _) ?_; intro c' hc
        refine Spec.bind (ihB _ _) ?_; intro body' hb
        apply Spec.pure
        intro hp
        simp only [pStmt, Bool.and_eq_true] at hp
        simp only [qStmt, Bool.and_eq_true, hb.1]
        exact ⟨⟨hc.2.2 hp.1.1, hp.1.2⟩, hb.2.2 hp.2⟩
    · intro dir fl
      cases fl with
      | none => simp only [resolveFalse]; apply Spec.pure; simp [pFalse, qFalse]
      | block b =>
        simp only [resolveFalse]
        refine Spec.bind (ihB _ _) ?_; intro b' hb
        apply Spec.pure
        intro hp
        simp only [pFalse, Bool.and_eq_true] at hp
        simp only [qFalse, Bool.and_eq_true, hb.1]
        exact ⟨hp.1, hb.2.2 hp.2⟩
      | elif t c tr fl =>
        simp only [resolveFalse]
        refine Spec.bind (ihE _ _) ?_; intro c' hc
        refine Spec.bind (ihB _ _) ?_; intro tr' htr
        refine Spec.bind (ihF _ _) ?_; intro fl' hfl
        apply Spec.pure
        intro hp
        simp only [pFalse, Bool.and_eq_true] at hp
        simp only [qFalse, Bool.and_eq_true, htr.1]
        exact ⟨⟨⟨hc.2.2 hp.1.1.1, hp.1.1.2⟩, htr.2.2 hp.1.2⟩, hfl hp.2⟩

/-- the result of `resolve_recursive` is a chunk and pre-printable -/
theorem resolveRecursive_q (fs : FS) (main : Path) (sp : List Path) (fuel : Nat) (b : Block) (r : Bool)
    (hr : r = true → NoTopReturn fs) (h : resolveRecursive fs main sp fuel = .ok b) :
    b.isChunk = true ∧ qBlock r b = true := by
  unfold resolveRecursive at h
  split at h
  · cases h
  · rename_i b' st' heq
    cases h
    obtain ⟨b0, s0, h1, h2⟩ := rbind_ok heq
    obtain ⟨_, text, hs, _, hp⟩ := parseFile_ok h1
    have hb0 := parseText_printable text b0 hs hp
    have hq := ((resolve_q fs sp r hr fuel).2.2.2.1 (dirOf main) b0 s0).1 _ _ h2
    exact ⟨hq.1.trans hb0.1, hq.2.2 hb0.2⟩

/-- unconditionally: pre-printable, statement-level chunks may have a return list -/
theorem resolveRecursive_pre (fs : FS) (main : Path) (sp : List Path) (fuel : Nat) (b : Block)
    (h : resolveRecursive fs main sp fuel = .ok b) : b.isChunk = true ∧ qBlock false b = true :=
  resolveRecursive_q fs main sp fuel b false (fun h => by cases h) h

/-- if no file has a top-level `return`, the flattened result is `Printable` -/
theorem resolveRecursive_printable_flatten (fs : FS) (main : Path) (sp : List Path) (fuel : Nat) (b : Block)
    (hnr : NoTopReturn fs) (h : resolveRecursive fs main sp fuel = .ok b) : Printable (flattenChunks b) := by
  obtain ⟨hc, hq⟩ := resolveRecursive_q fs main sp fuel b true (fun _ => hnr) h
  exact printable_flatten hc hq

end Tumfl.Theory
