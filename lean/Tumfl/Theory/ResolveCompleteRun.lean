import Tumfl.Theory.ResolveCompleteDefs
/-!
# Dependency resolver, completeness of the error (property C12): the eight-way induction

`RSpec fs sp x C`: every successful run of `x`, from a state with table `F` to a state with table `F'`, extends the
table (`Ext fs sp F F'`: it grows, and every new path is a parsed file whose chunk is clean with respect to `F'`) and
establishes `C F'`.  `resolve_complete_spec`: for each of the eight `resolve*` functions, `C F'` is "the INPUT tree is
clean with respect to `F'`": it contains no offending `require` call, and every file that a literal `require` in it
finds is in the table.
-/
namespace Tumfl.Theory
open Tumfl.Model

def RSpec (fs : FS) (sp : List Path) {α : Type} (x : RM α) (C : List Path → Prop) : Prop :=
  ∀ st a st', x st = .ok (a, st') → Ext fs sp st.found st'.found ∧ C st'.found

/-- `C` survives a growing table -/
def TMono (C : List Path → Prop) : Prop := ∀ F F', (∀ p ∈ F, p ∈ F') → C F → C F'

theorem RSpec.pure {fs : FS} {sp : List Path} {α : Type} {a : α} : RSpec fs sp (Pure.pure a : RM α) (fun _ => True) := by
  intro st a' st' h
  cases h
  exact ⟨Ext.refl _, trivial⟩

theorem RSpec.rfuel {fs : FS} {sp : List Path} {α : Type} {C : List Path → Prop} : RSpec fs sp (rfuel : RM α) C := by
  intro st a' st' h; cases h

theorem RSpec.rthrow {fs : FS} {sp : List Path} {α : Type} {C : List Path → Prop} {e : PyErr} :
    RSpec fs sp (rthrow e : RM α) C := by
  intro st a' st' h; cases h

/-- sequencing: what the first run established is, thanks to `TMono`, still available after the second -/
theorem RSpec.bind {fs : FS} {sp : List Path} {α β : Type} {x : RM α} {g : α → RM β} {C1 C : List Path → Prop}
    (hx : RSpec fs sp x C1) (hm : TMono C1) (hg : ∀ a, RSpec fs sp (g a) (fun F => C1 F → C F)) :
    RSpec fs sp (x >>= g) C := by
  intro st b st' h
  obtain ⟨a, s, h1, h2⟩ := rbind_ok h
  obtain ⟨e1, c1⟩ := hx st a s h1
  obtain ⟨e2, c2⟩ := hg a s b st' h2
  exact ⟨e1.trans e2, c2 (hm _ _ e2.1 c1)⟩

theorem RSpec.pure' {fs : FS} {sp : List Path} {α : Type} {a : α} {C : List Path → Prop} (h : ∀ F, C F) :
    RSpec fs sp (Pure.pure a : RM α) C := by
  intro st a' st' h'
  cases h'
  exact ⟨Ext.refl _, h _⟩

section tmono
variable (fs : FS) (sp : List Path) (dir : Path)
theorem tmono_expr (e : Expr) : TMono (fun F => ¬ callInExpr (Bad fs sp dir F) e) :=
  fun _ _ h hc hb => hc (callInExpr_mono (Bad.anti h) _ hb)
theorem tmono_exprs (e : List Expr) : TMono (fun F => ¬ callInExprs (Bad fs sp dir F) e) :=
  fun _ _ h hc hb => hc (callInExprs_mono (Bad.anti h) _ hb)
theorem tmono_optExpr (e : Option Expr) : TMono (fun F => ¬ callInOptExpr (Bad fs sp dir F) e) :=
  fun _ _ h hc hb => hc (callInOptExpr_mono (Bad.anti h) _ hb)
theorem tmono_optExprs (e : Option (List Expr)) : TMono (fun F => ¬ callInOptExprs (Bad fs sp dir F) e) :=
  fun _ _ h hc hb => hc (callInOptExprs_mono (Bad.anti h) _ hb)
theorem tmono_field (e : Field) : TMono (fun F => ¬ callInField (Bad fs sp dir F) e) :=
  fun _ _ h hc hb => hc (callInField_mono (Bad.anti h) _ hb)
theorem tmono_fields (e : List Field) : TMono (fun F => ¬ callInFields (Bad fs sp dir F) e) :=
  fun _ _ h hc hb => hc (callInFields_mono (Bad.anti h) _ hb)
theorem tmono_stmt (e : Stmt) : TMono (fun F => ¬ callInStmt (Bad fs sp dir F) e) :=
  fun _ _ h hc hb => hc (callInStmt_mono (Bad.anti h) _ hb)
theorem tmono_stmts (e : List Stmt) : TMono (fun F => ¬ callInStmts (Bad fs sp dir F) e) :=
  fun _ _ h hc hb => hc (callInStmts_mono (Bad.anti h) _ hb)
theorem tmono_false (e : IfFalse) : TMono (fun F => ¬ callInFalse (Bad fs sp dir F) e) :=
  fun _ _ h hc hb => hc (callInFalse_mono (Bad.anti h) _ hb)
theorem tmono_block (e : Block) : TMono (fun F => ¬ callInBlock (Bad fs sp dir F) e) :=
  fun _ _ h hc hb => hc (callInBlock_mono (Bad.anti h) _ hb)
end tmono

set_option hygiene false in
macro "rc_ih" : tactic => `(tactic|
  first | exact ihE _ _ | exact ihEs _ _ | exact ihFs _ _ | exact ihB _ _ | exact ihSs _ _ | exact ihO _ _
        | exact ihS _ _ | exact ihF _ _)

macro "rc_mono" : tactic => `(tactic|
  first | exact tmono_expr _ _ _ _ | exact tmono_exprs _ _ _ _ | exact tmono_optExpr _ _ _ _ | exact tmono_optExprs _ _ _ _
        | exact tmono_field _ _ _ _ | exact tmono_fields _ _ _ _ | exact tmono_stmt _ _ _ _ | exact tmono_stmts _ _ _ _
        | exact tmono_false _ _ _ _ | exact tmono_block _ _ _ _)

macro "rc_close" : tactic => `(tactic|
  (intro F
   intros
   (simp only [callInExpr, callInExprs, callInOptExpr, callInOptExprs, callInField, callInFields, callInStmt, callInStmts,
     callInFalse, callInBlock, not_or, not_false_eq_true, and_true, true_and] at *) <;> grind))

set_option hygiene false in
macro "rc_steps" : tactic => `(tactic|
  repeat (first
    | (refine RSpec.bind (by rc_ih) (by rc_mono) ?_; intro _)
    | (refine RSpec.pure' ?_; rc_close)))

/-- entering a file: the lookup found `p`, `p` is in the table `F1` from which the chunk of `p` is resolved, and `F1` is
the old table `F` or `F ++ [p]` -/
theorem enter_file {fs : FS} {sp : List Path} {F F1 F2 : List Path} {p : Path} {text : List Char} {ast : Block}
    {hs : List Hint} (hF1 : (F.contains p = true ∧ F1 = F) ∨ (F.contains p = false ∧ F1 = F ++ [p]))
    (hr : fs.read p = some text) (hp : parseText text = .ok (ast, hs))
    (hrun : Ext fs sp F1 F2 ∧ ¬ callInBlock (Bad fs sp (dirOf p) F2) (asChunk ast)) :
    Ext fs sp F F2 ∧ p ∈ F2 := by
  obtain ⟨hext, hclean⟩ := hrun
  rcases hF1 with ⟨hc, rfl⟩ | ⟨hc, rfl⟩
  · refine ⟨hext, hext.1 p ?_⟩
    simpa using hc
  · exact ⟨hext.enter ⟨text, ast, hs, hr, hp, hclean⟩, hext.1 p (by simp)⟩

/-- the eight per-function lemmas: every successful run of a `resolve*` function on `x` in directory `dir` (any fuel,
any initial state) extends the table, and `x` is clean with respect to the final table -/
theorem resolve_complete_spec (fs : FS) (sp : List Path) : ∀ f : Nat,
    (∀ dir e, RSpec fs sp (resolveExpr fs sp f dir e) (fun F => ¬ callInExpr (Bad fs sp dir F) e)) ∧
    (∀ dir es, RSpec fs sp (resolveExprs fs sp f dir es) (fun F => ¬ callInExprs (Bad fs sp dir F) es)) ∧
    (∀ dir fds, RSpec fs sp (resolveFields fs sp f dir fds) (fun F => ¬ callInFields (Bad fs sp dir F) fds)) ∧
    (∀ dir b, RSpec fs sp (resolveBlock fs sp f dir b) (fun F => ¬ callInBlock (Bad fs sp dir F) b)) ∧
    (∀ dir ss, RSpec fs sp (resolveStmts fs sp f dir ss) (fun F => ¬ callInStmts (Bad fs sp dir F) ss)) ∧
    (∀ dir o, RSpec fs sp (resolveOptExpr fs sp f dir o) (fun F => ¬ callInOptExpr (Bad fs sp dir F) o)) ∧
    (∀ dir s, RSpec fs sp (resolveStmt fs sp f dir s) (fun F => ¬ callInStmt (Bad fs sp dir F) s)) ∧
    (∀ dir fl, RSpec fs sp (resolveFalse fs sp f dir fl) (fun F => ¬ callInFalse (Bad fs sp dir F) fl)) := by
  intro f
  induction f with
  | zero =>
    refine ⟨?_, ?_, ?_, ?_, ?_, ?_, ?_, ?_⟩ <;> intro dir x
    · rw [resolveExpr]; exact RSpec.rfuel
    · rw [resolveExprs]; exact RSpec.rfuel
    · rw [resolveFields]; exact RSpec.rfuel
    · rw [resolveBlock]; exact RSpec.rfuel
    · rw [resolveStmts]; exact RSpec.rfuel
    · rw [resolveOptExpr]; exact RSpec.rfuel
    · rw [resolveStmt]; exact RSpec.rfuel
    · rw [resolveFalse]; exact RSpec.rfuel
  | succ f ih =>
    obtain ⟨ihE, ihEs, ihFs, ihB, ihSs, ihO, ihS, ihF⟩ := ih
    refine ⟨?_, ?_, ?_, ?_, ?_, ?_, ?_, ?_⟩
    · intro dir e
      cases e <;> simp only [resolveExpr]
      all_goals try (rc_steps; done)
      rename_i t fn args
      cases hreq : isRequireName fn
      · simp only [Bool.false_eq_true, if_false]
        have hnb : ∀ F, ¬ Bad fs sp dir F t fn args := fun F hb => by rw [hb.isRequire] at hreq; cases hreq
        rc_steps
      · simp only [if_true]
        split
        · rename_i tk name
          intro st a st' h
          obtain ⟨o, s1, h1, h2⟩ := rbind_ok h
          obtain ⟨p, hlook, hcase⟩ := getDependencyPath_ok h1
          have hF1 : o = some p ∧ ((st.found.contains p = true ∧ s1.found = st.found) ∨
              (st.found.contains p = false ∧ s1.found = st.found ++ [p])) := by
            rcases hcase with ⟨hd, _⟩ | ⟨_, hc, rfl, rfl⟩ | ⟨hc, rfl, rfl⟩
            · cases hd
            · exact ⟨rfl, Or.inl ⟨hc, rfl⟩⟩
            · exact ⟨rfl, Or.inr ⟨hc, rfl⟩⟩
          obtain ⟨rfl, hF1⟩ := hF1
          simp only at h2
          obtain ⟨ast, s2, h3, h4⟩ := rbind_ok h2
          obtain ⟨rfl, text, hs, hr, hpt⟩ := parseFile_ok h3
          obtain ⟨b', s3, h5, h6⟩ := rbind_ok h4
          cases h6
          have hrun : Ext fs sp s2.found st'.found ∧ ¬ callInBlock (Bad fs sp (dirOf p) st'.found) (asChunk ast) := by
            have := ihB _ _ _ _ _ h5
            cases ast; exact this
          obtain ⟨hext, hmem⟩ := enter_file hF1 hr hpt hrun
          exact ⟨hext, clean_lit_expr hreq hlook hmem⟩
        · exact RSpec.rthrow
    · intro dir es
      cases es <;> simp only [resolveExprs] <;> rc_steps
    · intro dir fds
      cases fds with
      | nil => simp only [resolveFields]; rc_steps
      | cons fd rest =>
        simp only [resolveFields]
        refine RSpec.bind (C1 := fun F => ¬ callInField (Bad fs sp dir F) fd) ?_ (tmono_field _ _ _ _) ?_
        · cases fd <;> simp only <;> rc_steps
        · intro _; rc_steps
    · intro dir b
      obtain ⟨t, ss, rs, c⟩ := b
      simp only [resolveBlock]
      refine RSpec.bind (by rc_ih) (by rc_mono) ?_
      intro _
      refine RSpec.bind (C1 := fun F => ¬ callInOptExprs (Bad fs sp dir F) rs) ?_ (tmono_optExprs _ _ _ _) ?_
      · cases rs <;> simp only <;> rc_steps
      · intro _; rc_steps
    · intro dir ss
      cases ss <;> simp only [resolveStmts] <;> rc_steps
    · intro dir o
      cases o <;> simp only [resolveOptExpr] <;> rc_steps
    · intro dir s
      cases s <;> simp only [resolveStmt]
      all_goals try (rc_steps; done)
      · rename_i t fn args
        cases hreq : isRequireName fn
        · simp only [Bool.false_eq_true, if_false]
          have hnb : ∀ F, ¬ Bad fs sp dir F t fn args := fun F hb => by rw [hb.isRequire] at hreq; cases hreq
          rc_steps
        · simp only [if_true]
          split
          · rename_i tk name
            intro st a st' h
            obtain ⟨o, s1, h1, h2⟩ := rbind_ok h
            obtain ⟨p, hlook, hcase⟩ := getDependencyPath_ok h1
            rcases hcase with ⟨_, hc, rfl, rfl⟩ | ⟨hd, _⟩ | ⟨hc, rfl, rfl⟩
            · cases h2
              exact ⟨Ext.refl _, clean_lit_stmt hreq hlook (by simpa using hc)⟩
            · cases hd
            · simp only at h2
              obtain ⟨ast, s2, h3, h4⟩ := rbind_ok h2
              obtain ⟨rfl, text, hs, hr, hpt⟩ := parseFile_ok h3
              obtain ⟨b', s3, h5, h6⟩ := rbind_ok h4
              cases h6
              have hrun : Ext fs sp (st.found ++ [p]) st'.found ∧ ¬ callInBlock (Bad fs sp (dirOf p) st'.found) (asChunk ast) := by
                have := ihB _ _ _ _ _ h5
                cases ast; exact this
              obtain ⟨hext, hmem⟩ := enter_file (Or.inr ⟨hc, rfl⟩) hr hpt hrun
              exact ⟨hext, clean_lit_stmt hreq hlook hmem⟩
          · exact RSpec.rthrow
      · rename_i t ns es
        refine RSpec.bind (C1 := fun F => ¬ callInOptExprs (Bad fs sp dir F) es) ?_ (tmono_optExprs _ _ _ _) ?_
        · cases es <;> simp only <;> rc_steps
        · intro _; rc_steps
    · intro dir fl
      cases fl <;> simp only [resolveFalse] <;> rc_steps

end Tumfl.Theory
