import Tumfl.Model.EmitI
import Tumfl.Theory.PrintInlinedBase
/-!
# The repaired `;` guard (`Model/EmitI.lean`): list-level lemmas

`guardI` (the guard of `visitStmtsI`), `leadTok` on appended lists, and the key fact: for a well-formed statement that is not a
chunk block the repaired guard is the old one (`guardI_eq_stmtGuard`).
-/
namespace Tumfl.Theory
open Tumfl.Model

/-- the `;` guard of `visitStmtsI` -/
def guardI (first : Bool) (toks : Pieces) : Pieces :=
  if leadTok toks == some ['('] then (if first then [] else [P ";"]) else []

theorem visitStmtsI_cons (sty : Style) (first : Bool) (s : Stmt) (rest : List Stmt) :
    visitStmtsI sty first (s :: rest) =
      stmtCommentPieces sty s ++ guardI first (visitStmtI sty s) ++ visitStmtI sty s ++ [S .statement] ++
        visitStmtsI sty false rest := by
  rw [visitStmtsI]; rfl

/-! ## `leadTok` -/

theorem leadTok_append (a b : Pieces) : leadTok (a ++ b) = (leadTok a).orElse (fun _ => leadTok b) := by
  induction a with
  | nil => simp [leadTok]
  | cons p ps ih =>
    cases p with
    | sep x => simp only [List.cons_append, leadTok, ih]
    | str s =>
      simp only [List.cons_append, leadTok]
      split
      · exact ih
      · rfl

theorem leadTok_str {s : List Char} (h : startsWith s ['-', '-'] = false) (r : Pieces) : leadTok (.str s :: r) = some s := by
  simp [leadTok, h]

theorem leadTok_comment {s : List Char} (h : startsWith s ['-', '-'] = true) (r : Pieces) : leadTok (.str s :: r) = leadTok r := by
  simp [leadTok, h]

theorem leadTok_sep (x : Sep) (r : Pieces) : leadTok (.sep x :: r) = leadTok r := rfl

/-! ## The guard -/

theorem guardI_true (toks : Pieces) : guardI true toks = [] := by
  unfold guardI; split <;> rfl

theorem guardI_congr {first : Bool} {a b : Pieces} (h : leadTok a = leadTok b) : guardI first a = guardI first b := by
  unfold guardI; rw [h]

theorem guardI_of_lead {first : Bool} {toks : Pieces} (h : leadTok toks ≠ some ['(']) : guardI first toks = [] := by
  unfold guardI
  rw [if_neg]
  simpa using h

theorem guardI_nil (first : Bool) : guardI first [] = [] := rfl

/-- a text piece that is not a comment in front: both guards look at it -/
theorem guardI_str {s : List Char} (h : startsWith s ['-', '-'] = false) (first : Bool) (r : Pieces) :
    guardI first (.str s :: r) = stmtGuard first (.str s :: r) := by
  unfold guardI
  rw [leadTok_str h, stmtGuard_cons]
  by_cases hs : s = ['(']
  · subst hs; simp
  · have : (Piece.str s = Piece.str ['(']) = False := by simp [hs]
    simp [hs]

/-- a separator, then a text piece that is neither a comment nor `(`: no guard, old or new -/
theorem guardI_sep_str {s : List Char} (h : startsWith s ['-', '-'] = false) (hs : s ≠ ['(']) (first : Bool) (x : Sep)
    (r : Pieces) : guardI first (.sep x :: .str s :: r) = stmtGuard first (.sep x :: .str s :: r) := by
  rw [stmtGuard_of_head (by simp), guardI_of_lead]
  rw [leadTok_sep, leadTok_str h]
  simpa using hs

/-! ## The first piece of a printed variable -/

/-- `fmtVar e (visitExpr sty e)` starts with a text piece that is not a comment -/
theorem fmtVar_head_wf (sty : Style) : (e : Expr) → wfExpr e = true →
    ∃ p ps, fmtVar e (visitExpr sty e) = .str p :: ps ∧ startsWith p ['-', '-'] = false
  | .name _ n, h => by
    simp only [wfExpr, nameOK, Bool.not_eq_true'] at h
    exact ⟨n, [], by simp [fmtVar, isVarLike, visitExpr], h⟩
  | .index t l k, h => by
    simp only [wfExpr, Bool.and_eq_true] at h
    obtain ⟨p, ps, he, hp⟩ := fmtVar_head_wf sty l h.1
    exact ⟨p, _, by rw [fmtVar_of_varLike (e := .index t l k) rfl, visitExpr, he]; rfl, hp⟩
  | .namedIndex t l nm, h => by
    simp only [wfExpr, Bool.and_eq_true] at h
    obtain ⟨p, ps, he, hp⟩ := fmtVar_head_wf sty l h.1
    exact ⟨p, _, by rw [fmtVar_of_varLike (e := .namedIndex t l nm) rfl, visitExpr, he]; rfl, hp⟩
  | .call t l args, h => by
    simp only [wfExpr, Bool.and_eq_true] at h
    obtain ⟨p, ps, he, hp⟩ := fmtVar_head_wf sty l h.1
    exact ⟨p, _, by rw [fmtVar_of_varLike (e := .call t l args) rfl, visitExpr, he]; rfl, hp⟩
  | .method t l m args, h => by
    simp only [wfExpr, Bool.and_eq_true] at h
    obtain ⟨p, ps, he, hp⟩ := fmtVar_head_wf sty l h.1.1
    exact ⟨p, _, by rw [fmtVar_of_varLike (e := .method t l m args) rfl, visitExpr, he]; rfl, hp⟩
  | .nil _, _ | .bool _ _, _ | .vararg _, _ | .number _ _, _ | .string _ _, _ | .func _ _ _, _ | .table _ _, _
  | .binop _ _ _ _, _ | .unop _ _ _, _ => ⟨['('], _, rfl, rfl⟩

/-- **Key fact**: in front of a well-formed statement that is not a chunk block the repaired guard is the old guard -/
theorem guardI_eq_stmtGuard (sty : Style) (first : Bool) (s : Stmt) (hwf : wfStmt s = true)
    (hnc : ∀ b, s = .block b → b.isChunk = false) :
    guardI first (visitStmt sty s) = stmtGuard first (visitStmt sty s) := by
  cases s with
  | assign t ts es =>
    cases ts with
    | nil => simp only [visitStmt, visitTargets, List.nil_append]; exact guardI_sep_str rfl (by decide) first _ _
    | cons e rest =>
      simp only [wfStmt, wfArgs, Bool.and_eq_true] at hwf
      obtain ⟨p, ps, he, hp⟩ := fmtVar_head_wf sty e hwf.1.1
      cases rest with
      | nil => simp only [visitStmt, visitTargets]; rw [he]; exact guardI_str hp first _
      | cons e2 rest => simp only [visitStmt, visitTargets]; rw [he]; exact guardI_str hp first _
  | block b =>
    obtain ⟨t, ss, rs, c⟩ := b
    have := hnc _ rfl
    simp only [Block.isChunk] at this
    subst this
    simp only [visitStmt, blk, Block.isChunk, Bool.false_eq_true, if_false, visitBlockFull_eq]
    exact guardI_str rfl first _
  | call t f args =>
    simp only [wfStmt, Bool.and_eq_true] at hwf
    obtain ⟨p, ps, he, hp⟩ := fmtVar_head_wf sty f hwf.1
    simp only [visitStmt]; rw [he]; exact guardI_str hp first _
  | method t f m args =>
    simp only [wfStmt, Bool.and_eq_true] at hwf
    obtain ⟨p, ps, he, hp⟩ := fmtVar_head_wf sty f hwf.1.1
    simp only [visitStmt]; rw [he]; exact guardI_str hp first _
  | semi t =>
    simp only [visitStmt]
    split
    · exact guardI_str rfl first _
    · rfl
  | funcDef t names m ps body =>
    cases m <;> (simp only [visitStmt]; exact guardI_sep_str rfl (by decide) first _ _)
  | localFunc t n ps body => simp only [visitStmt]; exact guardI_sep_str rfl (by decide) first _ _
  | brk t => exact guardI_str rfl first _
  | goto t l => simp only [visitStmt]; exact guardI_str rfl first _
  | label t n => simp only [visitStmt]; exact guardI_str rfl first _
  | iff t test tr fl => simp only [visitStmt]; exact guardI_str rfl first _
  | iterFor t ns es body => simp only [visitStmt]; exact guardI_str rfl first _
  | localAssign t names es => simp only [visitStmt]; exact guardI_str rfl first _
  | numFor t v a b step body => cases step <;> (simp only [visitStmt]; exact guardI_str rfl first _)
  | «repeat» t c body => simp only [visitStmt]; exact guardI_str rfl first _
  | whl t c body => simp only [visitStmt]; exact guardI_str rfl first _

end Tumfl.Theory
