import Tumfl.Theory.IdemKL
import Tumfl.Theory.IdemPipe2
/-!
# C15: side conditions of the pipeline lemmas for the printed chunk
-/
namespace Tumfl.Theory
open Tumfl Tumfl.Model

/-- no text piece of the printed chunk is empty -/
theorem emit_strs_ne (sty : Style) (hd : DocStyle sty) (hic : sty.includeComments = false) (b : Block)
    (hp : Printable b) (hn : NumsCanon (numsBlock b)) : ∀ s, Piece.str s ∈ emit sty b → s ≠ [] := by
  intro s hs
  have hdisc : Disc DS.init (emit sty b) := ((disc_append _ _ _).mp (disc_emit sty hd b hp hn)).1
  have hoff := emit_comments_off sty hic b (TreeWF_of_Printable hp)
  have hcom : isCom s = false := by
    have := List.filter_eq_nil_iff.mp hoff _ hs
    simpa [isCommentPiece, isCom] using this
  obtain ⟨⟨tk, hra, _⟩, _⟩ := disc_goodTok _ _ hdisc s hs hcom
  exact hra.1

theorem cn_true_str (x : List Char) (r : Pieces) : cn true (.str x :: r) = .str x :: cn false r := by
  rw [cn]; simp

theorem cn_true_newline (r : Pieces) : cn true (.sep .newline :: r) = .sep .newline :: cn false r := by
  rw [cn]; simp

theorem cn_true_stmt (r : Pieces) : cn true (.sep .statement :: r) = cn true r := by
  rw [cn]; simp

/-- the first piece of the canonical form of a printed statement list is a text piece or a Newline separator -/
theorem cn_head_stmts (sty : Style) (hic : sty.includeComments = false) (hks : sty.keepSemicolon = false) :
    ∀ (ss : List Stmt) (first : Bool) (T : Pieces), pStmts ss = true →
      (∀ p r, cn true T = p :: r → p ≠ .sep .block ∧ p ≠ .sep .space) →
      ∀ p r, cn true (visitStmts sty first ss ++ T) = p :: r → p ≠ .sep .block ∧ p ≠ .sep .space
  | [], _, T, _, hT, p, r, h => by
    simp only [visitStmts, List.nil_append] at h
    exact hT p r h
  | s :: rest, first, T, hp, hT, p, r, h => by
    simp only [pStmts, Bool.and_eq_true] at hp
    rw [visitStmts_cons] at h
    have hc : stmtCommentPieces sty s = [] := by simp [stmtCommentPieces, hic]
    rw [hc, List.nil_append] at h
    by_cases hs : isSemi s = true
    · cases s <;> simp only [isSemi, Bool.false_eq_true] at hs
      simp only [visitStmt, hks, Bool.false_eq_true, if_false, stmtGuard, List.nil_append, List.cons_append, S,
        cn_true_stmt] at h
      exact cn_head_stmts sty hic hks rest false T hp.2 hT p r h
    · obtain ⟨q, r', hq, hq'⟩ := visitStmt_head sty s hp.1 (by simpa using hs)
      have hg : stmtGuard first (visitStmt sty s) = [] ∨ stmtGuard first (visitStmt sty s) = [P ";"] := by
        unfold stmtGuard
        split
        · split
          · exact .inl rfl
          · exact .inr rfl
        · exact .inl rfl
      rcases hg with hg | hg
      · rw [hg, hq] at h
        rcases hq' with ⟨x, rfl⟩ | rfl
        · simp only [List.nil_append, List.cons_append, cn_true_str, List.cons.injEq] at h
          obtain ⟨rfl, _⟩ := h
          exact ⟨by simp, by simp⟩
        · simp only [List.nil_append, List.cons_append, cn_true_newline, List.cons.injEq] at h
          obtain ⟨rfl, _⟩ := h
          exact ⟨by simp, by simp⟩
      · rw [hg] at h
        simp only [P, List.cons_append, List.nil_append, cn_true_str, List.cons.injEq] at h
        obtain ⟨rfl, _⟩ := h
        exact ⟨by simp, by simp⟩

/-- the side condition of `formatPieces_cn` for the printed chunk with its final separator restored -/
theorem cn_head_emit (sty : Style) (hic : sty.includeComments = false) (hks : sty.keepSemicolon = false)
    (b : Block) (hp : Printable b) :
    ∀ p r, cn true (emit sty b ++ [.sep .statement]) = p :: r → p ≠ .sep .block ∧ p ≠ .sep .space := by
  intro p r h
  rcases ft_emit_chunk sty b hp.1 with ⟨_, h0⟩ | h1
  · rw [h0] at h
    simp [cn] at h
  · have : emit sty b ++ [Piece.sep .statement] = emit sty b ++ [S .statement] := rfl
    rw [this, h1] at h
    obtain ⟨t, ss, rets, c⟩ := b
    have hpb := hp.2
    simp only [Block.stmts, Block.rets] at h
    unfold bodyPieces at h
    have hps : pStmts ss = true := by
      cases rets <;> simp only [pBlock, Bool.and_eq_true, Bool.and_true] at hpb
      · exact hpb
      · exact hpb.1
    refine cn_head_stmts sty hic hks ss true _ hps ?_ p r h
    intro p r hT
    cases rets with
    | none => simp [cn] at hT
    | some es =>
      simp only [P, List.cons_append, List.append_assoc, cn_true_str, List.cons.injEq] at hT
      obtain ⟨rfl, _⟩ := hT
      exact ⟨by simp, by simp⟩

end Tumfl.Theory
