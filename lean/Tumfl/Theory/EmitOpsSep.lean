import Tumfl.Theory.EmitOps
/-!
# Separators of emitted operator trees under minification (`remove_separators`)

* `sepRequired_*`: the instances of `sep_required` that matter for operators (`- -`, word operators next to names);
* `removeSeparators_spaced`: on a piece list in which every separator is a blank between two non-empty strings
  (`Spaced`), `remove_separators` succeeds and is `squeeze`: it drops exactly the blanks whose neighbours do
  not need one (`reqB`);
* `spaced_render`: emitted operator trees are `Spaced`;
* `adjOK_render`: in an emitted operator tree over identifiers no two directly adjacent strings need a
  separator (table facts `unSpace_table`, `needL_pow_table`), hence `minified_ops`: the minified pieces
  exist, have no adjacent pair needing a separator, and still have the same token sequence.
-/
namespace Tumfl.Theory
open Tumfl.Spec Tumfl.Model

/-! ## 3. Blanks that minification must keep -/

/-- a text that starts with a word character (letter, digit, `_`) -/
def IsWordStart (n : List Char) : Prop := ∃ c, n.head? = some c ∧ wordChars.contains c = true
/-- a text that ends with a word character -/
def IsWordEnd (n : List Char) : Prop := ∃ c, n.getLast? = some c ∧ wordChars.contains c = true

theorem word_facts : wordChars.contains '(' = false ∧ wordChars.contains '-' = false ∧ wordChars.contains '#' = false
    ∧ wordChars.contains '~' = false := by decide

theorem IsWordStart.ne_nil {n} (h : IsWordStart n) : n ≠ [] := by
  obtain ⟨c, hc, _⟩ := h; intro h'; simp [h'] at hc

/-- identifiers other than `not` are never mistaken for `(` or a unary operator -/
theorem LeafOK_of_word {n : List Char} (h : IsWordStart n) (hnot : n ≠ "not".toList) : LeafOK n := by
  obtain ⟨c, hc, hw⟩ := h
  cases n with
  | nil => simp at hc
  | cons c' cs =>
    simp only [List.head?_cons, Option.some.injEq] at hc
    subst hc
    obtain ⟨w1, w2, w3, w4⟩ := word_facts
    refine ⟨?_, ?_⟩
    · intro h
      have : c' = '(' := by simp at h; exact h.1
      rw [this, w1] at hw; contradiction
    · cases hu : uopOfSym (c' :: cs) with
      | none => rfl
      | some u =>
        have := List.find?_some hu
        simp only [beq_iff_eq] at this
        cases u
        · have : c' = '-' := by simp [UOp.sym] at this; exact this.1.symm
          rw [this, w2] at hw; contradiction
        · have : c' = '#' := by simp [UOp.sym] at this; exact this.1.symm
          rw [this, w3] at hw; contradiction
        · have : c' = '~' := by simp [UOp.sym] at this; exact this.1.symm
          rw [this, w4] at hw; contradiction
        · exact absurd this.symm hnot

/-! ### instances of `sep_required` -/

/-- `a - -b`, `- -a`: the blank between two minus signs is required -/
theorem sepRequired_minus_minus : sepRequired "-".toList "-".toList = .ok true := by rfl

/-- between a text ending in a word character and one starting with a word character a separator is required -/
theorem sepRequired_words {a b : List Char} (ha : IsWordEnd a) (hb : IsWordStart b) : sepRequired a b = .ok true := by
  obtain ⟨x, ha, hx⟩ := ha
  obtain ⟨y, hb, hy⟩ := hb
  cases hf : a.head? with
  | none => simp_all
  | some f0 => simp [sepRequired, ha, hb, hf, hx, hy, -List.contains_eq_mem]

theorem wordEnd_not : IsWordEnd "not".toList := ⟨'t', by decide, by decide⟩
theorem wordEnd_and : IsWordEnd "and".toList := ⟨'d', by decide, by decide⟩
theorem wordEnd_or : IsWordEnd "or".toList := ⟨'r', by decide, by decide⟩
theorem wordStart_not : IsWordStart "not".toList := ⟨'n', by decide, by decide⟩
theorem wordStart_and : IsWordStart "and".toList := ⟨'a', by decide, by decide⟩
theorem wordStart_or : IsWordStart "or".toList := ⟨'o', by decide, by decide⟩

/-- `not x` -/
theorem sepRequired_not_name {n} (h : IsWordStart n) : sepRequired "not".toList n = .ok true :=
  sepRequired_words wordEnd_not h
/-- `and x`, `or x` -/
theorem sepRequired_and_name {n} (h : IsWordStart n) : sepRequired "and".toList n = .ok true :=
  sepRequired_words wordEnd_and h
theorem sepRequired_or_name {n} (h : IsWordStart n) : sepRequired "or".toList n = .ok true :=
  sepRequired_words wordEnd_or h
/-- `x and`, `x or` -/
theorem sepRequired_name_and {n} (h : IsWordEnd n) : sepRequired n "and".toList = .ok true :=
  sepRequired_words h wordStart_and
theorem sepRequired_name_or {n} (h : IsWordEnd n) : sepRequired n "or".toList = .ok true :=
  sepRequired_words h wordStart_or
/-- `and not`, `or not`, `not not` -/
theorem sepRequired_and_not : sepRequired "and".toList "not".toList = .ok true := sepRequired_words wordEnd_and wordStart_not
theorem sepRequired_or_not : sepRequired "or".toList "not".toList = .ok true := sepRequired_words wordEnd_or wordStart_not
theorem sepRequired_not_not : sepRequired "not".toList "not".toList = .ok true := sepRequired_words wordEnd_not wordStart_not

/-! ### `remove_separators` on blank-separated strings -/

def reqB (a b : List Char) : Bool := match sepRequired a b with | .ok r => r | .error _ => false

def squeeze : Pieces → Pieces
  | .str a :: .sep .space :: rest@(.str b :: _) => .str a :: ((if reqB a b then [S .space] else []) ++ squeeze rest)
  | x :: r => x :: squeeze r
  | [] => []

inductive Spaced : Pieces → Prop
  | one (a) : a ≠ [] → Spaced [.str a]
  | cons (a b r) : a ≠ [] → Spaced (.str b :: r) → Spaced (.str a :: .str b :: r)
  | gap (a b r) : a ≠ [] → Spaced (.str b :: r) → Spaced (.str a :: S .space :: .str b :: r)

theorem squeeze_one (a) : squeeze [.str a] = [.str a] := by simp [squeeze]
theorem squeeze_cons (a b r) : squeeze (.str a :: .str b :: r) = .str a :: squeeze (.str b :: r) := by rw [squeeze]; simp
theorem squeeze_gap (a b r) : squeeze (.str a :: S .space :: .str b :: r)
    = .str a :: ((if reqB a b then [S .space] else []) ++ squeeze (.str b :: r)) := by rw [S, squeeze]; rfl
theorem squeeze_head (b r) : ∃ r', squeeze (.str b :: r) = .str b :: r' := by
  unfold squeeze; split <;> simp_all

theorem Spaced.head_ne {a r} (h : Spaced (.str a :: r)) : a ≠ [] := by cases h <;> assumption

theorem sepRequired_ok {a b : List Char} (ha : a ≠ []) (hb : b ≠ []) : sepRequired a b = .ok (reqB a b) := by
  cases a with
  | nil => contradiction
  | cons x xs =>
    cases b with
    | nil => contradiction
    | cons y ys =>
      have : ∃ l, (x :: xs).getLast? = some l := ⟨_, List.getLast?_eq_some_getLast (by simp)⟩
      obtain ⟨l, hl⟩ := this
      simp [reqB, sepRequired, hl]


theorem removeSepsFrom_nil (rp) : removeSepsFrom rp [] = .ok [P "/"] := by rw [removeSepsFrom]
theorem removeSepsFrom_str (rp a xs) : removeSepsFrom rp (.str a :: xs)
    = (removeSepsFrom (.str a :: rp) xs).bind fun suf => .ok (.str a :: suf) := by
  rw [removeSepsFrom]; rfl

/-- the decision on a blank between two strings depends only on `sepRequired` of the two -/
theorem removeSepsFrom_space {rp a b xs suf} (ha : a ≠ []) (hb : b ≠ [])
    (h : removeSepsFrom (S .space :: .str a :: rp) (.str b :: xs) = .ok (.str b :: suf)) :
    removeSepsFrom (.str a :: rp) (S .space :: .str b :: xs)
      = .ok ((if reqB a b then [S .space] else []) ++ .str b :: suf) := by
  rw [S] at h ⊢
  rw [removeSepsFrom, h]
  simp only [bind, Except.bind, searchBwd, isIndentTok, searchFwd]
  cases hq : reqB a b <;> simp [sepRequired_ok ha hb, hq]

theorem removeSepsFrom_spaced {ps} (h : Spaced ps) : ∀ rp, removeSepsFrom rp ps = .ok (squeeze ps ++ [P "/"]) := by
  induction h with
  | one a ha => intro rp; rw [removeSepsFrom_str, removeSepsFrom_nil, squeeze_one]; rfl
  | cons a b r ha hr ih => intro rp; rw [removeSepsFrom_str, ih, squeeze_cons]; rfl
  | gap a b r ha hr ih =>
    intro rp
    obtain ⟨r', hr'⟩ := squeeze_head b r
    have := ih (S .space :: .str a :: rp)
    rw [hr'] at this
    rw [removeSepsFrom_str, removeSepsFrom_space ha hr.head_ne this, squeeze_gap, hr']
    simp [Except.bind]

theorem removeSeparators_spaced {ps} (h : Spaced ps) : removeSeparators ps = .ok (squeeze ps) := by
  cases h with
  | one a ha => simp [removeSeparators, removeSepsFrom_nil, squeeze_one, bind, Except.bind]
  | cons a b r ha hr =>
    simp [removeSeparators, removeSepsFrom_spaced hr, squeeze_cons, bind, Except.bind]
  | gap a b r ha hr =>
    obtain ⟨r', hr'⟩ := squeeze_head b r
    have := removeSepsFrom_spaced hr [S .space, .str a]
    rw [hr'] at this
    have hd : (Piece.str b :: (r' ++ [P "/"])).dropLast = .str b :: r' := by
      rw [← List.cons_append, List.dropLast_concat]
    cases hq : reqB a b <;>
      simp [removeSeparators, removeSepsFrom_space ha hr.head_ne this, squeeze_gap, hr', bind, Except.bind, hd, hq]

/-! ### emitted operator trees are blank-separated strings -/

theorem Spaced.exists_head {q} (h : Spaced q) : ∃ b r, q = .str b :: r := by
  cases h <;> exact ⟨_, _, rfl⟩

theorem Spaced.append {p b q} (hp : Spaced p) (hq : Spaced (.str b :: q)) : Spaced (p ++ .str b :: q) := by
  induction hp with
  | one a ha => exact .cons _ _ _ ha hq
  | cons a b' r ha _ ih => exact .cons _ _ _ ha ih
  | gap a b' r ha _ ih => exact .gap _ _ _ ha ih

theorem Spaced.append_gap {p b q} (hp : Spaced p) (hq : Spaced (.str b :: q)) : Spaced (p ++ S .space :: .str b :: q) := by
  induction hp with
  | one a ha => exact .gap _ _ _ ha hq
  | cons a b' r ha _ ih => exact .cons _ _ _ ha ih
  | gap a b' r ha _ ih => exact .gap _ _ _ ha ih

theorem usym_ne_nil (u : UOp) : u.sym.toList ≠ [] := by cases u <;> decide
theorem bsym_ne_nil (o : BOp) : o.sym.toList ≠ [] := by cases o <;> decide

/-- emitted operator trees with non-empty leaves are blank-separated strings -/
theorem spaced_render (sp leaf) : ∀ (x : E), AllAtoms (fun n => leaf n ≠ []) x → Spaced (render sp leaf x) := by
  intro x
  induction x with
  | atom n => intro h; exact .one _ h
  | paren e ih =>
    intro h
    obtain ⟨b, r, hbr⟩ := (ih h).exists_head
    have h1 : Spaced (render sp leaf e ++ [P ")"]) := (ih h).append (.one _ (by decide))
    simp only [render]
    rw [hbr] at h1 ⊢
    exact .cons _ _ _ (by decide) h1
  | un u e ih =>
    intro h
    obtain ⟨b, r, hbr⟩ := (ih h).exists_head
    have h1 := ih h
    simp only [render]
    rw [hbr] at h1 ⊢
    have : unGap sp u e = [] ∨ unGap sp u e = [S .space] := by
      cases e <;> simp only [unGap] <;> first | (split <;> simp) | simp
    rcases this with hg | hg <;> rw [hg]
    · exact .cons _ _ _ (usym_ne_nil u) h1
    · exact .gap _ _ _ (usym_ne_nil u) h1
  | bin o l r ihl ihr =>
    intro h
    obtain ⟨b, r', hbr⟩ := (ihr h.2).exists_head
    have h1 := ihr h.2
    simp only [render, List.append_assoc, List.cons_append, List.nil_append]
    rw [hbr] at h1 ⊢
    exact (ihl h.1).append_gap (.gap _ _ _ (bsym_ne_nil o) h1)

theorem toksAux_squeeze {ps} (h : Spaced ps) : ∀ b, toksAux b (squeeze ps) = toksAux b ps := by
  induction h with
  | one a ha => intro b; rw [squeeze_one]
  | cons a b' r ha _ ih =>
    intro b; rw [squeeze_cons]
    cases b <;> simp only [toksAux, ih]
  | gap a b' r ha _ ih =>
    intro b; rw [squeeze_gap]
    have : ∀ c, toksAux c ((if reqB a b' then [S .space] else []) ++ squeeze (.str b' :: r)) = toksAux c (S .space :: .str b' :: r) := by
      intro c; rw [S, toksAux_sep, ← ih c]; split <;> simp [toksAux_sep]
    cases b <;> simp only [toksAux, this]

/-! ### no two adjacent strings of an emitted operator tree need a separator -/

/-- no two strings that need a separator are directly adjacent; `prev` is the string directly in front
(`none`: start, or a separator is in front) -/
def adjOK : Option (List Char) → Pieces → Prop
  | _, [] => True
  | _, .sep _ :: r => adjOK none r
  | none, .str b :: r => adjOK (some b) r
  | some a, .str b :: r => reqB a b = false ∧ adjOK (some b) r

theorem adjOK_sep (prev x r) : adjOK prev (.sep x :: r) ↔ adjOK none r := by cases prev <;> simp [adjOK]
theorem adjOK_str (prev b r) : adjOK prev (.str b :: r) ↔ (∀ a, prev = some a → reqB a b = false) ∧ adjOK (some b) r := by
  cases prev <;> simp [adjOK]

theorem paren_not_word : '(' ∉ wordChars ∧ ')' ∉ wordChars ∧ '(' ∉ Gen.digits := by decide

theorem reqB_lpar_left (b) : reqB "(".toList b = false := by
  obtain ⟨w1, w2, w3⟩ := paren_not_word
  cases hb : b.head? <;> simp [reqB, sepRequired, hb, w1, w3]
theorem reqB_lpar_right (a) : reqB a "(".toList = false := by
  obtain ⟨w1, w2, w3⟩ := paren_not_word
  cases ha : a.getLast? <;> cases hf : a.head? <;> simp [reqB, sepRequired, ha, hf, w1]
theorem reqB_rpar_right (a) : reqB a ")".toList = false := by
  obtain ⟨w1, w2, w3⟩ := paren_not_word
  cases ha : a.getLast? <;> cases hf : a.head? <;> simp [reqB, sepRequired, ha, hf, w2]


/-- first / last string of a rendered tree -/
def fstE (leaf : Nat → List Char) : E → List Char
  | .atom n => leaf n | .paren _ => "(".toList | .un u _ => u.sym.toList | .bin _ l _ => fstE leaf l
def lstE (leaf : Nat → List Char) : E → List Char
  | .atom n => leaf n | .paren _ => ")".toList | .un _ e => lstE leaf e | .bin _ _ r => lstE leaf r

/-- the only places where `render` puts two strings next to each other, apart from brackets:
a unary operator directly in front of its operand -/
def GoodE (sp : UOp → K → Bool) (leaf : Nat → List Char) : E → Prop
  | .atom _ => True
  | .paren e => GoodE sp leaf e
  | .un u e => GoodE sp leaf e ∧ (unGap sp u e = [] → reqB u.sym.toList (fstE leaf e) = false)
  | .bin _ l r => GoodE sp leaf l ∧ GoodE sp leaf r

theorem unGap_cases (sp u) (e : E) : unGap sp u e = [] ∨ unGap sp u e = [S .space] := by
  cases e <;> simp only [unGap] <;> first | (split <;> simp) | simp

theorem adjOK_render (sp leaf) : ∀ (x : E), GoodE sp leaf x → ∀ prev rest,
    (∀ a, prev = some a → reqB a (fstE leaf x) = false) → adjOK (some (lstE leaf x)) rest →
    adjOK prev (render sp leaf x ++ rest) := by
  intro x
  induction x with
  | atom n =>
    intro _ prev rest hp hr
    simp only [render, List.cons_append, List.nil_append, adjOK_str]
    exact ⟨hp, hr⟩
  | paren e ih =>
    intro hg prev rest hp hr
    simp only [GoodE] at hg
    simp only [render, P, List.cons_append, List.append_assoc, List.nil_append, adjOK_str]
    refine ⟨hp, ih hg _ _ (fun a ha => ?_) ?_⟩
    · cases ha; exact reqB_lpar_left _
    · rw [adjOK_str]
      exact ⟨fun a ha => by cases ha; exact reqB_rpar_right _, hr⟩
  | un u e ih =>
    intro hg prev rest hp hr
    simp only [GoodE] at hg
    simp only [render, List.cons_append, List.append_assoc, adjOK_str]
    refine ⟨hp, ?_⟩
    rcases unGap_cases sp u e with h0 | h1
    · rw [h0, List.nil_append]
      exact ih hg.1 _ _ (fun a ha => by cases ha; exact hg.2 h0) hr
    · rw [h1, S, List.cons_append, List.nil_append, adjOK_sep]
      exact ih hg.1 _ _ (fun a ha => by cases ha) hr
  | bin o l r ihl ihr =>
    intro hg prev rest hp hr
    simp only [GoodE] at hg
    simp only [render, List.cons_append, List.append_assoc, List.nil_append]
    refine ihl hg.1 _ _ hp ?_
    rw [S, adjOK_sep, adjOK_str, adjOK_sep]
    exact ⟨fun a ha => (by cases ha), ihr hg.2 _ _ (fun a ha => by cases ha) hr⟩


/-! ### table facts -/

def allK : List K := .atom :: (UOp.all.map .un ++ BOp.all.map .bin)
theorem allK_complete (k : K) : k ∈ allK := by
  cases k with
  | atom => simp [allK]
  | un u => simp only [allK, List.mem_cons, List.mem_append, List.mem_map]; exact .inr (.inl ⟨u, allUOps_complete u, rfl⟩)
  | bin o => simp only [allK, List.mem_cons, List.mem_append, List.mem_map]; exact .inr (.inr ⟨o, allOps_complete o, rfl⟩)

/-- an unbracketed operand that gets no blank after the unary operator: the operator is not `not`, and the
operand is an atom or a power -/
theorem unSpace_table_all : (BrOpts.all.all fun s => UOp.all.all fun u => allK.all fun k =>
    needUn s u k || unSpace s u k || (u != .not && (k == .atom || k == .bin .pow))) = true := by decide +kernel

theorem unSpace_table {s u k} (h1 : needUn s u k = false) (h2 : unSpace s u k = false) :
    u ≠ .not ∧ (k = .atom ∨ k = .bin .pow) := by
  have := List.all_eq_true.mp (List.all_eq_true.mp (List.all_eq_true.mp unSpace_table_all s (Inst.BrOpts.all_complete s))
    u (allUOps_complete u)) k (allK_complete k)
  simpa [h1, h2] using this

/-- the left operand of `^` is bracketed unless it is an atom -/
theorem needL_pow_table_all : (BrOpts.all.all fun s => allK.all fun k => needBin s .pow true k || k == .atom) = true := by
  decide +kernel

theorem needL_pow_table {s k} (h : needBin s .pow true k = false) : k = .atom := by
  have := List.all_eq_true.mp (List.all_eq_true.mp needL_pow_table_all s (Inst.BrOpts.all_complete s)) k (allK_complete k)
  simpa [h] using this


theorem not_word_chars : '-' ∉ wordChars ∧ '.' ∉ wordChars ∧ '=' ∉ wordChars ∧ '#' ∉ wordChars ∧ '~' ∉ wordChars := by decide

/-- `-x`, `#x`, `~x`: no separator needed in front of an identifier -/
theorem reqB_usym_word {u : UOp} {b : List Char} (hu : u ≠ .not) (hb : IsWordStart b) : reqB u.sym.toList b = false := by
  obtain ⟨c, hc, hw⟩ := hb
  obtain ⟨w1, w2, w3, w4, w5⟩ := not_word_chars
  have hw' : c ∈ wordChars := by simpa using hw
  have n1 : c ≠ '-' := fun h => w1 (h ▸ hw')
  have n2 : c ≠ '.' := fun h => w2 (h ▸ hw')
  have n3 : c ≠ '=' := fun h => w3 (h ▸ hw')
  cases u <;> first | exact absurd rfl hu | simp [reqB, sepRequired, UOp.sym, hc, n1, n2, n3, w1, w4, w5]


theorem GoodE_wrap (sp leaf) (b : Bool) (x : E) (h : GoodE sp leaf x) : GoodE sp leaf (wrap b x) := by
  cases b <;> simpa [GoodE] using h

theorem AllAtoms_wrap_iff (q) (b : Bool) (x : E) : AllAtoms q (wrap b x) ↔ AllAtoms q x := by
  cases b <;> simp [AllAtoms]

theorem fstE_wrap_true (leaf x) : fstE leaf (wrap true x) = "(".toList := rfl

/-- in the printed tree of the real decision tables, over leaves that start with a word character, a unary
operator that is directly followed by its operand never needs a separator there -/
theorem goodE_par (s : BrOpts) (leaf : Nat → List Char) : ∀ (t : T),
    AllAtoms (fun n => IsWordStart (leaf n)) (par (Inst.tumflDec s) t) →
    GoodE (unSpace s) leaf (par (Inst.tumflDec s) t) := by
  intro t
  induction t with
  | atom n => intro _; simp [par, GoodE]
  | un u t ih =>
    intro h
    simp only [par, AllAtoms, AllAtoms_wrap_iff, tumflDec_needU] at h
    simp only [par, GoodE, tumflDec_needU]
    refine ⟨GoodE_wrap _ _ _ _ (ih h), ?_⟩
    rw [unGap_wrap_par]
    cases hn : needUn s u t.kind with
    | true => intro _; exact reqB_lpar_right _
    | false =>
      cases hs : unSpace s u t.kind with
      | true => simp
      | false =>
        intro _
        obtain ⟨hu, hk⟩ := unSpace_table hn hs
        simp only [wrap_false]
        cases t with
        | atom n => exact reqB_usym_word hu (by simpa [par, AllAtoms, fstE] using h)
        | un u' t' => simp at hk
        | bin o l r =>
          have ho : o = .pow := by simpa using hk
          subst ho
          simp only [par, fstE, tumflDec_needL, AllAtoms, AllAtoms_wrap_iff] at h ⊢
          cases hl : needBin s .pow true l.kind with
          | true => exact reqB_lpar_right _
          | false =>
            have := needL_pow_table hl
            cases l with
            | atom n => exact reqB_usym_word hu (by simpa [par, AllAtoms, fstE] using h.1)
            | un _ _ => simp at this
            | bin _ _ _ => simp at this
  | bin o l r ihl ihr =>
    intro h
    simp only [par, AllAtoms, AllAtoms_wrap_iff] at h
    simp only [par, GoodE]
    exact ⟨GoodE_wrap _ _ _ _ (ihl h.1), GoodE_wrap _ _ _ _ (ihr h.2)⟩

theorem adjOK_squeeze {ps} (h : Spaced ps) : ∀ prev, adjOK prev ps → adjOK prev (squeeze ps) := by
  induction h with
  | one a ha => intro prev hp; rwa [squeeze_one]
  | cons a b r ha _ ih =>
    intro prev hp
    rw [squeeze_cons]; rw [adjOK_str] at hp ⊢
    exact ⟨hp.1, ih _ hp.2⟩
  | gap a b r ha _ ih =>
    intro prev hp
    obtain ⟨r', hr'⟩ := squeeze_head b r
    rw [squeeze_gap]; rw [adjOK_str, S, adjOK_sep] at hp; rw [adjOK_str]
    refine ⟨hp.1, ?_⟩
    have h2 := ih none hp.2
    cases hq : reqB a b with
    | true => simpa [S, adjOK_sep] using h2
    | false =>
      rw [hr'] at h2 ⊢
      rw [adjOK_str] at h2
      simp only [Bool.false_eq_true, if_false, List.nil_append, adjOK_str]
      exact ⟨fun a' ha' => by cases ha'; exact hq, h2.2⟩

/-! ### the theorems on the emitter model -/

theorem AllNames.and {p q : List Char → Prop} {e : Expr} (h : IsOpTree e) (hp : AllNames p e) (hq : AllNames q e) :
    AllNames (fun n => p n ∧ q n) e := by
  induction h with
  | name t n => exact ⟨hp, hq⟩
  | un t u e _ ih => exact ih hp hq
  | bin t o l r _ _ ihl ihr => exact ⟨ihl hp.1 hq.1, ihr hp.2 hq.2⟩

theorem AllNames.imp {p q : List Char → Prop} (hpq : ∀ n, p n → q n) {e : Expr} (h : IsOpTree e) (hp : AllNames p e) :
    AllNames q e := by
  induction h with
  | name t n => exact hpq _ hp
  | un t u e _ ih => exact ih hp
  | bin t o l r _ _ ihl ihr => exact ⟨ihl hp.1, ihr hp.2⟩

/-- the blank after a unary operator is present in the emitted pieces whenever the operator is `not` or the
operand is itself a unary operation (`not x`, `- -x`, `- ~x`, ...) and the operand is not bracketed -/
theorem unGap_present {s : BrOpts} {u : UOp} {t : T} (hn : needUn s u t.kind = false)
    (h : u = .not ∨ ∃ u', t.kind = .un u') :
    unGap (unSpace s) u (wrap (needUn s u t.kind) (par (Inst.tumflDec s) t)) = [S .space] := by
  rw [unGap_wrap_par, hn]
  cases hs : unSpace s u t.kind with
  | true => simp
  | false =>
    obtain ⟨h1, h2⟩ := unSpace_table hn hs
    rcases h with h | ⟨u', h⟩
    · exact absurd h h1
    · rw [h] at h2; simp at h2

/-- a blank whose neighbours need a separator survives `squeeze` -/
theorem squeeze_keeps {a b r} (h : sepRequired a b = .ok true) :
    squeeze (.str a :: S .space :: .str b :: r) = .str a :: S .space :: squeeze (.str b :: r) := by
  have : reqB a b = true := by simp [reqB, h]
  rw [squeeze_gap, this]; rfl

/-- **3a.** `remove_separators` on an emitted operator tree (non-empty names) succeeds and is `squeeze`. -/
theorem removeSeparators_visitExpr (sty : Style) {e : Expr} (h : IsOpTree e) (hne : AllNames (· ≠ []) e) :
    removeSeparators (visitExpr sty e) = .ok (squeeze (visitExpr sty e)) := by
  rw [visitExpr_eq_render sty h]
  exact removeSeparators_spaced (spaced_render _ _ _
    ((allAtoms_par_skel (· ≠ []) _ h hne).imp fun _ hn => hn.1))

/-- **3b.** Minified operator trees over identifiers: the pieces exist, no two directly adjacent strings need a
separator (so every blank that `sep_required` asks for is still there), and the token sequence is unchanged. -/
theorem minified_ops (sty : Style) {e : Expr} (h : IsOpTree e) (hw : AllNames IsWordStart e) :
    ∃ ps, removeSeparators (visitExpr sty e) = .ok ps ∧ adjOK none ps ∧ toks ps = toks (visitExpr sty e) := by
  have hne : AllNames (· ≠ []) e := AllNames.imp (fun _ hn => hn.ne_nil) h hw
  refine ⟨_, removeSeparators_visitExpr sty h hne, ?_, ?_⟩
  · rw [visitExpr_eq_render sty h]
    have hat := (allAtoms_par_skel IsWordStart (Inst.tumflDec sty.brOpts) h hw).imp fun _ hn => hn.1
    have hsp := spaced_render (unSpace sty.brOpts) decodeName _ (hat.imp fun _ hn => hn.ne_nil)
    apply adjOK_squeeze hsp
    have := adjOK_render _ _ _ (goodE_par sty.brOpts decodeName _ hat) none [] (fun a ha => by cases ha) trivial
    simpa using this
  · rw [visitExpr_eq_render sty h]
    have hat := (allAtoms_par_skel (· ≠ []) (Inst.tumflDec sty.brOpts) h hne).imp fun _ hn => hn.1
    exact toksAux_squeeze (spaced_render _ _ _ hat) true

/-- **3c.** ... and still re-parse to the original skeleton (identifiers other than `not`). -/
theorem minified_roundtrip (sty : Style) {e : Expr} (h : IsOpTree e) (hw : AllNames IsWordStart e)
    (hnot : AllNames (· ≠ "not".toList) e) :
    ∃ ps, removeSeparators (visitExpr sty e) = .ok ps ∧ adjOK none ps ∧
      ∃ f x, subexpr f 0 (toks ps) = some (x, []) ∧ strip x = skel e := by
  obtain ⟨ps, h1, h2, h3⟩ := minified_ops sty h hw
  have hok : NamesOK e := AllNames.imp (fun _ hn => LeafOK_of_word hn.1 hn.2) h (AllNames.and h hw hnot)
  exact ⟨ps, h1, h2, by rw [h3]; exact emit_roundtrip_pieces sty e h hok⟩

/-! ### non-vacuity: the minifying option set `remove_unnecessary_chars` -/

/-- `a - -b` is minified to `a- -b` -/
example (sty : Style) (hs : sty.brOpts = ⟨false, false, true⟩) (t1 t2 t3 t4 : Token) :
    removeSeparators (visitExpr sty (.binop t1 .sub (.name t2 "a".toList) (.unop t3 .neg (.name t4 "b".toList))))
      = .ok [P "a", P "-", S .space, P "-", P "b"] := by
  have e1 : needBin ⟨false, false, true⟩ .sub true .atom = false := by decide +kernel
  have e2 : needBin ⟨false, false, true⟩ .sub false (.un .neg) = false := by decide +kernel
  have e3 : needUn ⟨false, false, true⟩ .neg .atom = false := by decide +kernel
  have e4 : unSpace ⟨false, false, true⟩ .neg .atom = false := by decide +kernel
  rw [removeSeparators_visitExpr sty (.bin _ _ _ _ (.name _ _) (.un _ _ _ (.name _ _))) (by simp [AllNames])]
  simp [visitExpr, hs, Expr.kind, e1, e2, e3, e4, UOp.sym, BOp.sym, S, P, squeeze, reqB, sepRequired]
  all_goals decide

/-- `- -a` stays `- -a` -/
example (sty : Style) (hs : sty.brOpts = ⟨false, false, true⟩) (t1 t2 t3 : Token) :
    removeSeparators (visitExpr sty (.unop t1 .neg (.unop t2 .neg (.name t3 "a".toList))))
      = .ok [P "-", S .space, P "-", P "a"] := by
  have e1 : needUn ⟨false, false, true⟩ .neg (.un .neg) = false := by decide +kernel
  have e2 : unSpace ⟨false, false, true⟩ .neg (.un .neg) = true := by decide +kernel
  have e3 : needUn ⟨false, false, true⟩ .neg .atom = false := by decide +kernel
  have e4 : unSpace ⟨false, false, true⟩ .neg .atom = false := by decide +kernel
  rw [removeSeparators_visitExpr sty (.un _ _ _ (.un _ _ _ (.name _ _))) (by simp [AllNames])]
  simp [visitExpr, hs, Expr.kind, e1, e2, e3, e4, UOp.sym, S, P, squeeze, reqB, sepRequired]
  all_goals decide

/-- `not a and b` stays `not a and b`, while `a + b` becomes `a+b` -/
example (sty : Style) (hs : sty.brOpts = ⟨false, false, true⟩) (t1 t2 t3 t4 : Token) :
    removeSeparators (visitExpr sty (.binop t1 .and (.unop t2 .not (.name t3 "a".toList)) (.name t4 "b".toList)))
      = .ok [P "not", S .space, P "a", S .space, P "and", S .space, P "b"] := by
  have e1 : needBin ⟨false, false, true⟩ .and true (.un .not) = false := by decide +kernel
  have e2 : needBin ⟨false, false, true⟩ .and false .atom = false := by decide +kernel
  have e3 : needUn ⟨false, false, true⟩ .not .atom = false := by decide +kernel
  have e4 : unSpace ⟨false, false, true⟩ .not .atom = true := by decide +kernel
  rw [removeSeparators_visitExpr sty (.bin _ _ _ _ (.un _ _ _ (.name _ _)) (.name _ _)) (by simp [AllNames])]
  simp [visitExpr, hs, Expr.kind, e1, e2, e3, e4, UOp.sym, BOp.sym, S, P, squeeze, reqB, sepRequired]
  all_goals decide

example (sty : Style) (hs : sty.brOpts = ⟨false, false, true⟩) (t1 t2 t3 : Token) :
    removeSeparators (visitExpr sty (.binop t1 .add (.name t2 "a".toList) (.name t3 "b".toList)))
      = .ok [P "a", P "+", P "b"] := by
  have e1 : needBin ⟨false, false, true⟩ .add true .atom = false := by decide +kernel
  have e2 : needBin ⟨false, false, true⟩ .add false .atom = false := by decide +kernel
  rw [removeSeparators_visitExpr sty (.bin _ _ _ _ (.name _ _) (.name _ _)) (by simp [AllNames])]
  simp [visitExpr, hs, Expr.kind, e1, e2, BOp.sym, S, P, squeeze, reqB, sepRequired]
  all_goals decide
end Tumfl.Theory
