import Tumfl.Theory.UnlexEndBase
/-!
# Unlex, part 0c: a symbol at the very end of the text

`symAt (x ++ " ") = some (s, " ")` implies `symAt x = some (s, [])`.
-/
namespace Tumfl.Theory
open Tumfl Tumfl.Spec Tumfl.Model

theorem symAt_guard (c : Char) (t : List Char) (h : symGuard c = true) : symAt (c :: t) = none := by
  unfold symGuard at h
  unfold symAt
  simp only [h, if_true]

theorem symAt_minus_minus (t : List Char) : symAt ('-' :: '-' :: t) = none := by
  unfold symAt
  simp only [show (isSpace '-' || '-' == '"' || '-' == '\'' || isDigit '-' || isAlpha '-') = false by decide,
    show ('-' == '-') = true by decide, Bool.false_eq_true, if_false, if_true]

theorem append_blank_eq_blank {cs : List Char} (h : cs ++ [' '] = [' ']) : cs = [] := by
  have := congrArg List.length h
  simp at this
  exact this

theorem symAt_end_blank (x : List Char) (s : String) (h : symAt (x ++ [' ']) = some (s, [' '])) :
    symAt x = some (s, []) := by
  cases x with
  | nil => rw [List.nil_append, symAt_guard ' ' [] (by decide)] at h; cases h
  | cons c cs =>
    rw [List.cons_append] at h
    by_cases hg : symGuard c = true
    · rw [symAt_guard c _ hg] at h; cases h
    have hg' : symGuard c = false := by simpa using hg
    by_cases h1 : c = '-'
    · subst h1
      by_cases hh : (cs ++ [' ']).head? = some '-'
      · cases hcs : cs ++ [' '] with
        | nil => rw [hcs] at hh; cases hh
        | cons d t =>
          rw [hcs] at hh h
          simp only [List.head?_cons, Option.some.injEq] at hh
          subst hh
          rw [symAt_minus_minus] at h; cases h
      · rw [symAt_minus _ hh] at h
        simp only [Option.some.injEq, Prod.mk.injEq] at h
        obtain ⟨rfl, h2⟩ := h
        rw [append_blank_eq_blank h2]
        exact symAt_minus [] (by simp)
    by_cases h2 : c = '['
    · subst h2
      by_cases hh : (cs ++ [' ']).head? = some '[' ∨ (cs ++ [' ']).head? = some '='
      · rw [symAt_long _ hh] at h; cases h
      · simp only [not_or] at hh
        rw [symAt_brack _ hh.1 hh.2] at h
        simp only [Option.some.injEq, Prod.mk.injEq] at h
        obtain ⟨rfl, h2⟩ := h
        rw [append_blank_eq_blank h2]
        exact symAt_brack [] (by simp) (by simp)
    by_cases h3 : c = '.'
    · subst h3
      rw [symAt_dot] at h
      split at h
      · rename_i r heq
        simp only [Option.some.injEq, Prod.mk.injEq] at h
        obtain ⟨rfl, rfl⟩ := h
        have : cs = ['.', '.'] := List.append_cancel_right (bs := [' ']) (by simpa using heq)
        subst this
        rw [symAt_dot]; rfl
      · rename_i r _ heq
        simp only [Option.some.injEq, Prod.mk.injEq] at h
        obtain ⟨rfl, rfl⟩ := h
        have : cs = ['.'] := List.append_cancel_right (bs := [' ']) (by simpa using heq)
        subst this
        rw [symAt_dot]; rfl
      · rename_i d t _ _ heq
        split at h
        · cases h
        · simp only [Option.some.injEq, Prod.mk.injEq] at h
          obtain ⟨rfl, h2⟩ := h
          rw [append_blank_eq_blank h2]
          rw [symAt_dot]
      · simp only [Option.some.injEq, Prod.mk.injEq] at h
        obtain ⟨rfl, h2⟩ := h
        rw [append_blank_eq_blank h2]
        rw [symAt_dot]
    rw [symAt_other c _ hg' h1 h2 h3] at h
    split at h
    · rename_i d r heq
      by_cases h5 : isSym2 c d = true
      · simp only [h5, if_true, Option.some.injEq, Prod.mk.injEq] at h
        obtain ⟨rfl, rfl⟩ := h
        have : cs = [d] := List.append_cancel_right (bs := [' ']) (by simpa using heq)
        subst this
        rw [symAt_other c _ hg' h1 h2 h3]
        simp only [h5, if_true]
      · simp only [h5, Bool.false_eq_true, if_false] at h
        by_cases h6 : symbols1.contains c = true
        · simp only [h6, if_true, Option.some.injEq, Prod.mk.injEq] at h
          obtain ⟨rfl, hr⟩ := h
          rw [append_blank_eq_blank hr]
          rw [symAt_other c _ hg' h1 h2 h3]
          simp only [h6, if_true]
        · simp only [h6, Bool.false_eq_true, if_false] at h; cases h
    · rename_i heq
      have := congrArg List.length heq
      simp at this

end Tumfl.Theory
