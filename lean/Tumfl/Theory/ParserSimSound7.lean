import Tumfl.Theory.ParserSimSound6
/-!
# Soundness, step lemma for `_parse_statement`
-/
namespace Tumfl.Theory
open Tumfl.Model Tumfl.Spec

variable {B : Bridge}

theorem parseStatement_sound_step {f : Nat} (ih : AllSound B f) (ts : List Tok) :
    SPF B (Model.parseStatement (f + 1)) ts (fun r ts' => ∃ s', Ev (statement · ts) (s', ts') ∧ StmtRel r s') := by
  rw [Model.parseStatement]
  sp ih
  sp_split <;> sp ih
  · exact ⟨_, ev_stat_empty asm, .empty _⟩
  · exact ⟨_, ev_stat_break asm, .brk _⟩
  · exact ⟨_, ev_stat_goto asm asm, .goto _ asm⟩
  · exact ⟨_, ev_stat_label asm asm asm, .label _ asm⟩
  · obtain ⟨c, tsm, hb, hbr, hend, rfl⟩ := BlockPost.true asm
    exact ⟨_, ev_stat_do asm hb hend, .doo hbr⟩
  · obtain ⟨c, tsm, hb, hbr, hend, rfl⟩ := BlockPost.true asm
    exact ⟨_, ev_stat_while asm asm asm hb hend, .whl _ asm (hbr.extendComment _)⟩
  · obtain ⟨c, hb, hbr⟩ := BlockPost.false asm (by simp [*])
    exact ⟨_, ev_stat_repeat asm hb asm asm, .rep _ asm hbr⟩
  · exact ⟨_, asm, asm⟩
  · obtain ⟨c, tsm, hb, hbr, hend, rfl⟩ := BlockPost.true asm
    exact ⟨_, ev_stat_fornum1 asm asm asm asm asm asm asm asm asm hb hend,
      .fornum1 _ asm asm asm asm (hbr.extendComment _)⟩
  · obtain ⟨c, tsm, hb, hbr, hend, rfl⟩ := BlockPost.true asm
    exact ⟨_, ev_stat_fornum0 asm asm asm asm asm asm asm hb hend,
      .fornum0 _ asm asm asm (hbr.extendComment _)⟩
  · obtain ⟨c, tsm, hb, hbr, hend, rfl⟩ := BlockPost.true asm
    rename_i t1 hk1 _ h1 _ _ _ _ heq _ _ _ _ _ _ _ _ _ _ _ _ _ _
    subst heq
    have h1' := Cond.elim h1
    simp only [Bool.or_eq_true, hk1.beq_iff] at h1'
    exact ⟨_, ev_stat_forin asm asm h1' asm asm asm asm hb hend,
      .forin _ (.cons asm asm) asm (hbr.extendComment _)⟩
  · exact ⟨_, ev_stat_func_method asm asm asm asm asm asm,
      .func _ (.cons asm asm) (show NameRel _ _ from asm) asm asm⟩
  · exact ⟨_, ev_stat_func asm asm asm asm asm, .func _ (.cons asm asm) trivial asm asm⟩
  · exact ⟨_, ev_stat_localfunc asm asm asm asm, .localfunc _ asm asm asm⟩
  · exact ⟨_, ev_stat_local1 asm asm asm asm asm, .locl1 _ asm asm asm⟩
  · exact ⟨_, ev_stat_local0 asm asm asm asm, .locl0 _ asm⟩
  · exact ⟨_, asm, asm⟩
  · exact ⟨_, asm, asm⟩

end Tumfl.Theory
