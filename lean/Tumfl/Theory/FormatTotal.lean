import Tumfl.Theory.FormatTotalPasses
import Tumfl.Theory.FormatTotalEmit
import Tumfl.Theory.FormatTotalIB
import Tumfl.Theory.EmitI
import Tumfl.Theory.ParsePrintable
/-!
# C08: `format` returns

`format_total`: for every printable tree and EVERY style (no hypothesis on the style is needed: any separators, any line
width, newline limit, block spacer, indentation, any of the Boolean switches) `format` returns a text: no pass raises
(`IndexError` of `sep_required` / `search_token` / `__inner_indent` / `_string_ident` / `resolve_tokens`, `AssertionError` of
`_string_ident` / `indent`) and no fuel of the model runs out (`__inner_indent`, `indent_brackets`, `__inner_add_spacing`).
Neither `NumsCanon` nor a comment hypothesis is needed.

The invariants (`FormatTotalDefs`): no empty text piece and quoted pieces end with their quote (`StrsOK`), brackets well nested
(`Bal`), Indent / DeIndent balanced (`indBal = 0`), a non-empty text piece behind every Argument separator (`argOK`).  They hold
of `emit sty b` (`emit_wf`) and are kept by the passes as far as later passes need them: `removeSeparators` only drops separators
(`SoftDrop`), `indentBrackets` succeeds on well-nested lists and keeps the balance (`indentBrackets_total`) and the Argument
property (`indentBrackets_lay`, `lay_argOK`), `addSpacing` only inserts Newlines (`addSpacing_insNl`), `removeOrphaned` only
drops Statement separators and empty text pieces (`ro_inv`); `resolve_indent_total` finishes.
-/
namespace Tumfl.Theory
open Tumfl Tumfl.Model TotP

/-- the pipeline behind `emit` returns on every piece list that satisfies the four invariants -/
theorem formatPieces_total (sty : Style) (E : Pieces) (hs : StrsOK E) (hb : Bal E) (hi : indBal E = 0)
    (ha : argOK E = true) : ∃ text, formatPieces sty E = .ok text := by
  -- removeSeparators
  have h1 : ∃ ts1, (if sty.removeUnnecessaryChars then removeSeparators E else .ok E) = .ok ts1 ∧
      StrsOK ts1 ∧ Bal ts1 ∧ indBal ts1 = 0 ∧ argOK ts1 = true := by
    split
    · obtain ⟨ts1, h⟩ := removeSeparators_total E (fun s hm => (hs s hm).1)
      have hsd := removeSeparators_softDrop h
      exact ⟨ts1, h, softDrop_strsOK hsd hs, bal_softDrop hsd hb, by rw [softDrop_indBal hsd, hi],
        by rw [softDrop_argOK hsd, ha]⟩
    · exact ⟨E, rfl, hs, hb, hi, ha⟩
  obtain ⟨ts1, e1, hs1, hb1, hi1, ha1⟩ := h1
  -- indentBrackets
  have h2 : ∃ ts2, (if sty.lineWidth > 0 then indentBrackets ts1 sty else .ok ts1) = .ok ts2 ∧
      indBal ts2 = 0 ∧ argOK ts2 = true := by
    split
    · obtain ⟨ts2, h, hbal⟩ := indentBrackets_total sty ts1 hs1 hb1
      exact ⟨ts2, h, by rw [hbal, hi1], (lay_argOK (indentBrackets_lay h none)).2 ha1⟩
    · exact ⟨ts1, rfl, hi1, ha1⟩
  obtain ⟨ts2, e2, hi2, ha2⟩ := h2
  -- addSpacing
  have h3 : ∃ ts3, (if sty.blockSpacer > 0 then addSpacing ts2 sty else .ok ts2) = .ok ts3 ∧
      indBal ts3 = 0 ∧ argOK ts3 = true := by
    split
    · obtain ⟨ts3, h⟩ := addSpacing_total ts2 sty
      have hn := addSpacing_insNl h
      exact ⟨ts3, h, by rw [insNl_indBal hn, hi2], by rw [insNl_argOK hn, ha2]⟩
    · exact ⟨ts2, rfl, hi2, ha2⟩
  obtain ⟨ts3, e3, hi3, ha3⟩ := h3
  -- header, removeOrphaned, resolveTokens, indent
  obtain ⟨h5a, _, h5i⟩ := ro_inv (.str ("--".toList ++ sty.commentSep ++ "tumfl".toList) :: S .newline :: ts3) []
  have ha5 : argOK (removeOrphaned (.str ("--".toList ++ sty.commentSep ++ "tumfl".toList) :: S .newline :: ts3)) = true := by
    unfold removeOrphaned
    rw [h5a]
    simpa [argOK, S] using ha3
  have hi5 : (0 : Int) + indBal (removeOrphaned (.str ("--".toList ++ sty.commentSep ++ "tumfl".toList) :: S .newline :: ts3)) = 0 := by
    unfold removeOrphaned
    rw [h5i]
    simpa [indBal, S] using hi3
  obtain ⟨ts6, ts7, e6, e7⟩ := resolve_indent_total sty _ false 0 false ha5 hi5
  unfold formatPieces
  rw [e1]
  simp only [bind, Except.bind]
  rw [e2]
  simp only
  rw [e3]
  simp only [resolveTokens]
  rw [e6]
  simp only
  rw [e7]
  exact ⟨_, rfl⟩

/-- **`format` returns**, for every printable tree and every style -/
theorem format_total_any (sty : Style) (b : Block) (hp : Printable b) : ∃ text, format sty b = .ok text := by
  obtain ⟨hs, hb, hi, ha⟩ := emit_wf sty b hp
  rw [format_eq_formatPieces]
  exact formatPieces_total sty _ hs hb hi ha

/-- the statement as asked (the documented kinds of the style's separators are not needed) -/
theorem format_total (sty : Style) (_hd : DocStyle sty) (b : Block) (hp : Printable b) : ∃ text, format sty b = .ok text :=
  format_total_any sty b hp

theorem formatI_total (sty : Style) (b : Block) (hp : Printable b) : ∃ text, formatI sty b = .ok text := by
  rw [formatI_eq_format_of_printable sty b hp]
  exact format_total_any sty b hp

/-- what `parse` returns can always be formatted -/
theorem format_total_parsed (sty : Style) (src : List Char) (b : Block) (hs : List Hint) (h : parseText src = .ok (b, hs)) :
    ∃ text, format sty b = .ok text :=
  format_total_any sty b (parseText_printable src b hs h)

theorem formatI_total_parsed (sty : Style) (src : List Char) (b : Block) (hs : List Hint) (h : parseText src = .ok (b, hs)) :
    ∃ text, formatI sty b = .ok text :=
  formatI_total sty b (parseText_printable src b hs h)

end Tumfl.Theory

