import Tumfl.Theory.IdemTree
import Tumfl.Theory.IdemScan
import Tumfl.Theory.SameProgramRel
/-!
# C15: the block-start lists of model trees versus reference trees

* `lB_of_rel : BlockRel x c → lB x = (kB c).map isS`: the list "does the block start with a `Semicolon` statement" of a
  model tree is read off any related reference tree (recursion on the model tree, `paren` through `ExpRel.paren_ind`);
* `kB_refBlock` / `kB_refRoot`: for a style that prints neither comments nor `Semicolon` statements, the block-start kinds
  of the exact reference tree of the printed tokens (statement / block separators spelled as white space, `semi = false`)
  are `gB sty y`.  Key lemma `headKd_refStmt`: a printed statement that is not a `Semicolon` starts with the token `(`
  iff its first piece is `(` (`fmtVar_spine`, along the left spine of the printed variable).
-/
namespace Tumfl.Theory
open Tumfl.Model
open IdemScan (kRet kB_mk)

set_option linter.unusedVariables false

/-! # A. `lB` read off a related reference tree -/
def isS (k : Kd) : Bool := decide (k = .S)

theorem isS_ite (b : Bool) : isS (if b = true then Kd.P else Kd.O) = false := by
  cases b <;> rfl

/-- the model statement is a `Semicolon` iff the first token of the reference statement is `;` -/
theorem StmtRel.isSemi_eq {s : Stmt} {c : Spec.Stat} (h : StmtRel s c) : isSemi s = isS (headKd c) := by
  cases h with
  | assign t h1 h2 =>
    cases h1 with
    | nil => rfl
    | cons _ _ => simp only [isSemi, headKd, isS_ite]
  | call t hf ha => simp only [isSemi, headKd, isS_ite]
  | mcall t hf hm ha => simp only [isSemi, headKd, isS_ite]
  | _ => rfl

theorem lE_lift {e : Expr} (core : ∀ c, NoParen c → ExpRel e c → lE e = (kE c).map isS) :
    ∀ c, ExpRel e c → lE e = (kE c).map isS :=
  ExpRel.paren_ind (P := fun c => lE e = (kE c).map isS) core (fun c ih => by simp only [kE]; exact ih)

mutual
theorem lE_core : (e : Expr) → (c : Spec.Exp) → NoParen c → ExpRel e c → lE e = (kE c).map isS
  | .nil t, c, hn, h => by
    cases h with
    | nil _ => simp only [lE, kE, List.map_nil]
    | paren _ => exact False.elim hn
  | .bool t v, c, hn, h => by
    cases h with
    | tru _ => simp only [lE, kE, List.map_nil]
    | fls _ => simp only [lE, kE, List.map_nil]
    | paren _ => exact False.elim hn
  | .vararg t, c, hn, h => by
    cases h with
    | vararg _ => simp only [lE, kE, List.map_nil]
    | paren _ => exact False.elim hn
  | .number t n, c, hn, h => by
    cases h with
    | num _ hr => simp only [lE, kE, List.map_nil]
    | paren _ => exact False.elim hn
  | .string t v, c, hn, h => by
    cases h with
    | str _ _ => simp only [lE, kE, List.map_nil]
    | paren _ => exact False.elim hn
  | .func t ps body, c, hn, h => by
    cases h with
    | func _ hp hb => simp only [lE, kE, lB_core body _ hb]
    | paren _ => exact False.elim hn
  | .table t fs, c, hn, h => by
    cases h with
    | table _ hf => simp only [lE, kE, lFs_core fs _ hf]
    | paren _ => exact False.elim hn
  | .binop t o l r, c, hn, h => by
    cases h with
    | bin _ _ hl hr => simp only [lE, kE, lE_lift (lE_core l) _ hl, lE_lift (lE_core r) _ hr, List.map_append]
    | paren _ => exact False.elim hn
  | .unop t o x, c, hn, h => by
    cases h with
    | un _ _ hx => simp only [lE, kE, lE_lift (lE_core x) _ hx]
    | paren _ => exact False.elim hn
  | .name t n, c, hn, h => by
    cases h with
    | name _ _ => simp only [lE, kE, List.map_nil]
    | paren _ => exact False.elim hn
  | .index t l k, c, hn, h => by
    cases h with
    | index _ hl hk => simp only [lE, kE, lE_lift (lE_core l) _ hl, lE_lift (lE_core k) _ hk, List.map_append]
    | paren _ => exact False.elim hn
  | .namedIndex t l nm, c, hn, h => by
    cases h with
    | dot _ hl hm => simp only [lE, kE, lE_lift (lE_core l) _ hl]
    | paren _ => exact False.elim hn
  | .call t f args, c, hn, h => by
    cases h with
    | call _ hf ha => simp only [lE, kE, lE_lift (lE_core f) _ hf, lEs_core args _ ha, List.map_append]
    | paren _ => exact False.elim hn
  | .method t f m args, c, hn, h => by
    cases h with
    | mcall _ hf hm ha => simp only [lE, kE, lE_lift (lE_core f) _ hf, lEs_core args _ ha, List.map_append]
    | paren _ => exact False.elim hn

theorem lEs_core : (es : List Expr) → (cs : List Spec.Exp) → Forall₂ ExpRel es cs → lEs es = (kEs cs).map isS
  | [], _, h => by cases h; simp only [lEs, kEs, List.map_nil]
  | e :: r, _, h => by
    cases h with
    | cons h1 h2 => simp only [lEs, kEs, lE_lift (lE_core e) _ h1, lEs_core r _ h2, List.map_append]

theorem lFs_core : (fs : List Model.Field) → (cs : List Spec.Field) → Forall₂ FieldRel fs cs → lFs fs = (kFs cs).map isS
  | [], _, h => by cases h; simp only [lFs, kFs, List.map_nil]
  | f :: r, _, h => by
    cases h with
    | cons h1 h2 => simp only [lFs, kFs, lF_core f _ h1, lFs_core r _ h2, List.map_append]

theorem lF_core : (f : Model.Field) → (c : Spec.Field) → FieldRel f c → lF f = (kF c).map isS
  | .explicit t k v, _, h => by
    cases h with
    | keyed _ hk hv => simp only [lF, kF, lE_lift (lE_core k) _ hk, lE_lift (lE_core v) _ hv, List.map_append]
  | .named t n v, _, h => by
    cases h with
    | named _ hn hv => simp only [lF, kF, lE_lift (lE_core v) _ hv]
  | .numbered t v, _, h => by
    cases h with
    | pos _ hv => simp only [lF, kF, lE_lift (lE_core v) _ hv]

theorem lB_core : (b : Model.Block) → (c : Spec.Block) → BlockRel b c → lB b = (kB c).map isS
  | .mk t ss none ch, _, h => by
    cases h with
    | blk0 _ _ hs =>
      simp only [lB, kB_mk, kRet, (lSs_core ss _ hs).1, (lSs_core ss _ hs).2, List.map_cons, List.append_nil]
  | .mk t ss (some es) ch, _, h => by
    cases h with
    | blk1 _ _ hs he =>
      simp only [lB, kB_mk, kRet, (lSs_core ss _ hs).1, (lSs_core ss _ hs).2, lEs_core es _ he, List.map_cons,
        List.map_append]

theorem lSs_core : (ss : List Stmt) → (cs : List Spec.Stat) → Forall₂ StmtRel ss cs →
    lSs ss = (kSs cs).map isS ∧ leadSemi ss = isS (firstKd cs)
  | [], _, h => by cases h; exact ⟨by simp only [lSs, kSs, List.map_nil], rfl⟩
  | s :: r, _, h => by
    cases h with
    | cons h1 h2 =>
      exact ⟨by simp only [lSs, kSs, lS_core s _ h1, (lSs_core r _ h2).1, List.map_append],
        by simp only [leadSemi, firstKd, h1.isSemi_eq]⟩

theorem lS_core : (s : Stmt) → (c : Spec.Stat) → StmtRel s c → lS s = (kS c).map isS
  | .assign t ts es, _, h => by
    cases h with
    | assign _ h1 h2 => simp only [lS, kS, lEs_core ts _ h1, lEs_core es _ h2, List.map_append]
  | .block b, _, h => by
    cases h with
    | doo hb => simp only [lS, kS, lB_core b _ hb]
  | .brk t, _, h => by
    cases h with
    | brk _ => simp only [lS, kS, List.map_nil]
  | .call t f args, _, h => by
    cases h with
    | call _ hf ha => simp only [lS, kS, kE, lE_lift (lE_core f) _ hf, lEs_core args _ ha, List.map_append]
  | .funcDef t names none ps body, _, h => by
    cases h with
    | func _ hns hm hp hb => simp only [lS, kS, lB_core body _ hb]
  | .funcDef t names (some mn) ps body, _, h => by
    cases h with
    | func _ hns hm hp hb => simp only [lS, kS, lB_core body _ hb]
  | .goto t l, _, h => by
    cases h with
    | goto _ hl => simp only [lS, kS, List.map_nil]
  | .label t l, _, h => by
    cases h with
    | label _ hl => simp only [lS, kS, List.map_nil]
  | .iff t test tr fl, _, h => by
    cases h with
    | iff _ hc ht hf =>
      simp only [lS, kS, lE_lift (lE_core test) _ hc, lB_core tr _ ht, lFl_core fl _ _ hf, List.map_append,
        List.append_assoc]
  | .iterFor t ns es body, _, h => by
    cases h with
    | forin _ hns hes hb => simp only [lS, kS, lEs_core es _ hes, lB_core body _ hb, List.map_append]
  | .localAssign t names none, _, h => by
    cases h with
    | locl0 _ hns => simp only [lS, kS, kEs, List.map_nil]
  | .localAssign t names (some es), _, h => by
    cases h with
    | locl1 _ hns hes hne => simp only [lS, kS, lEs_core es _ hes]
  | .localFunc t n ps body, _, h => by
    cases h with
    | localfunc _ hn hp hb => simp only [lS, kS, lB_core body _ hb]
  | .method t f m args, _, h => by
    cases h with
    | mcall _ hf hm ha => simp only [lS, kS, kE, lE_lift (lE_core f) _ hf, lEs_core args _ ha, List.map_append]
  | .numFor t v a b none body, _, h => by
    cases h with
    | fornum0 _ hv ha hb hbody =>
      simp only [lS, kS, lE_lift (lE_core a) _ ha, lE_lift (lE_core b) _ hb, lB_core body _ hbody, List.map_append,
        List.append_nil, List.append_assoc]
  | .numFor t v a b (some st) body, _, h => by
    cases h with
    | fornum1 _ hv ha hb hst hbody =>
      simp only [lS, kS, lE_lift (lE_core a) _ ha, lE_lift (lE_core b) _ hb, lE_lift (lE_core st) _ hst,
        lB_core body _ hbody, List.map_append, List.append_assoc]
  | .repeat t c body, _, h => by
    cases h with
    | rep _ hc hb => simp only [lS, kS, lE_lift (lE_core c) _ hc, lB_core body _ hb, List.map_append]
  | .semi t, _, h => by
    cases h with
    | empty _ => simp only [lS, kS, List.map_nil]
  | .whl t c body, _, h => by
    cases h with
    | whl _ hc hb => simp only [lS, kS, lE_lift (lE_core c) _ hc, lB_core body _ hb, List.map_append]

theorem lFl_core : (fl : IfFalse) → (elifs : List Spec.ElseIf) → (els : Option Spec.Block) → IfFalseRel fl elifs els →
    lFalse fl = (kElifs elifs ++ kOptB els).map isS
  | .none, _, _, h => by
    cases h with
    | none => simp only [lFalse, kElifs, kOptB, List.append_nil, List.map_nil]
  | .block b, _, _, h => by
    cases h with
    | els hb => simp only [lFalse, kElifs, kOptB, List.nil_append, lB_core b _ hb]
  | .elif t test tr fl, _, _, h => by
    cases h with
    | elif _ hc ht hf =>
      simp only [lFalse, kElifs, lE_lift (lE_core test) _ hc, lB_core tr _ ht, lFl_core fl _ _ hf, List.map_append,
        List.append_assoc]
end

/-- the list "does the block start with a `Semicolon` statement" of a model tree, read off a related reference tree -/
theorem lB_of_rel {x : Block} {c : Spec.Block} (h : BlockRel x c) : lB x = (kB c).map isS := lB_core x c h

/-! # B. the printed tokens -/

/-! ## the first piece is `(` -/

def startsP : Pieces → Bool
  | p :: _ => p == .str ['(']
  | [] => false

theorem startsP_cons (p : Piece) (r : Pieces) : startsP (p :: r) = (p == .str ['(']) := rfl

theorem startsP_append {a : Pieces} (h : a ≠ []) (b : Pieces) : startsP (a ++ b) = startsP a := by
  cases a with
  | nil => exact absurd rfl h
  | cons p r => rfl

theorem guardable_eq (sty : Style) (s : Stmt) : guardable sty s = startsP (visitStmt sty s) := by
  unfold guardable
  split
  · next r h => rw [h]; simp [startsP]
  · next h =>
    cases hv : visitStmt sty s with
    | nil => rfl
    | cons p r =>
      simp only [startsP]
      cases hp : (p == Piece.str ['(']) with
      | false => rfl
      | true => exact absurd (by rw [hv, eq_of_beq hp]) (h r)

theorem guardNeeded_eq (first : Bool) (toks : Pieces) : guardNeeded first toks = (startsP toks && !first) := by
  unfold guardNeeded
  split
  · simp [startsP]
  · next h =>
    cases toks with
    | nil => rfl
    | cons p r =>
      simp only [startsP]
      cases hp : (p == Piece.str ['(']) with
      | false => rfl
      | true => exact absurd (by rw [eq_of_beq hp]) (h r)

theorem wrapP_false (e : Spec.Exp) : wrapP false e = e := rfl
theorem wrapP_true (e : Spec.Exp) : wrapP true e = .paren e := rfl

theorem kE_wrapP (b : Bool) (e : Spec.Exp) : kE (wrapP b e) = kE e := by
  cases b
  · rfl
  · rw [wrapP_true, kE]

theorem fmtVar_varLike {e : Expr} (h : isVarLike e = true) (ps : Pieces) : fmtVar e ps = ps := by
  unfold fmtVar; rw [if_pos h]

theorem identOK_ne {n : List Char} (h : identOK n = true) : n ≠ ['('] := by
  intro hn; subst hn; revert h; decide

/-- the first piece of a printed variable is `(` iff the leftmost token of its reference tree is `(` -/
theorem fmtVar_spine (sty : Style) : (e : Expr) → pExpr e = true →
    fmtVar e (visitExpr sty e) ≠ [] ∧
      startsP (fmtVar e (visitExpr sty e)) = leftParen (wrapP (!isVarLike e) (refExpr false sty e))
  | .name t n, h => by
    simp only [pExpr] at h
    have hn := identOK_ne h
    rw [fmtVar_varLike (e := .name t n) rfl, visitExpr]
    refine ⟨List.cons_ne_nil _ _, ?_⟩
    simp only [startsP, isVarLike, Bool.not_true, wrapP_false, refExpr, leftParen]
    cases hp : (Piece.str n == Piece.str ['(']) with
    | false => rfl
    | true => exact absurd (Piece.str.inj (eq_of_beq hp)) hn
  | .index t l k, h => by
    simp only [pExpr, Bool.and_eq_true] at h
    obtain ⟨hne, hs⟩ := fmtVar_spine sty l h.1
    rw [fmtVar_varLike (e := .index t l k) rfl, visitExpr]
    simp only [List.append_assoc]
    refine ⟨fun hh => hne (List.append_eq_nil_iff.mp hh).1, ?_⟩
    rw [startsP_append hne, hs]
    simp only [isVarLike, Bool.not_true, wrapP_false, refExpr, leftParen]
  | .namedIndex t l nm, h => by
    simp only [pExpr, Bool.and_eq_true] at h
    obtain ⟨hne, hs⟩ := fmtVar_spine sty l h.1
    rw [fmtVar_varLike (e := .namedIndex t l nm) rfl, visitExpr]
    simp only [List.append_assoc]
    refine ⟨fun hh => hne (List.append_eq_nil_iff.mp hh).1, ?_⟩
    rw [startsP_append hne, hs]
    simp only [isVarLike, Bool.not_true, wrapP_false, refExpr, leftParen]
  | .call t l args, h => by
    simp only [pExpr, Bool.and_eq_true] at h
    obtain ⟨hne, hs⟩ := fmtVar_spine sty l h.1
    rw [fmtVar_varLike (e := .call t l args) rfl, visitExpr]
    refine ⟨fun hh => hne (List.append_eq_nil_iff.mp hh).1, ?_⟩
    rw [startsP_append hne, hs]
    simp only [isVarLike, Bool.not_true, wrapP_false, refExpr, leftParen]
  | .method t l m args, h => by
    simp only [pExpr, Bool.and_eq_true] at h
    obtain ⟨hne, hs⟩ := fmtVar_spine sty l h.1.1
    rw [fmtVar_varLike (e := .method t l m args) rfl, visitExpr]
    simp only [List.append_assoc]
    refine ⟨fun hh => hne (List.append_eq_nil_iff.mp hh).1, ?_⟩
    rw [startsP_append hne, hs]
    simp only [isVarLike, Bool.not_true, wrapP_false, refExpr, leftParen]
  | .nil _, _ | .bool _ _, _ | .vararg _, _ | .number _ _, _ | .string _ _, _ | .func _ _ _, _ | .table _ _, _
  | .binop _ _ _ _, _ | .unop _ _ _, _ => ⟨List.cons_ne_nil _ _, rfl⟩

theorem varLike_of_targetShape {e : Expr} (h : isTargetShape e = true) : isVarLike e = true := by
  cases e <;> first | rfl | cases h

/-! ## the first token of a printed statement -/

theorem kd_ite (b : Bool) (h : b = false) : Kd.O = if b = true then Kd.P else Kd.O := by
  subst h; rfl

/-- **key lemma**: the kind of the first token of a printed statement that is not a `Semicolon` -/
theorem headKd_refStmt (sty : Style) (s : Stmt) (hs : isSemi s = false) (hp : pStmt s = true) :
    headKd (refStmt false sty s) = if guardable sty s then .P else .O := by
  rw [guardable_eq]
  cases s with
  | assign t ts es =>
    simp only [pStmt, Bool.and_eq_true] at hp
    cases ts with
    | nil => exact absurd hp.1.1.1.1 (by decide)
    | cons e r =>
      have hsh := hp.1.1.1.2
      have hpe := hp.1.1.2
      simp only [List.all_cons, Bool.and_eq_true] at hsh
      simp only [pArgs, Bool.and_eq_true] at hpe
      have hv := varLike_of_targetShape hsh.1
      obtain ⟨hne, hst⟩ := fmtVar_spine sty e hpe.1
      rw [hv, Bool.not_true, wrapP_false] at hst
      have : startsP (visitStmt sty (.assign t (e :: r) es)) = leftParen (refExpr false sty e) := by
        rw [← hst]
        cases r with
        | nil => simp only [visitStmt, visitTargets, List.append_assoc]; exact startsP_append hne _
        | cons e2 r2 => simp only [visitStmt, visitTargets, List.append_assoc]; exact startsP_append hne _
      rw [this]
      simp only [refStmt, refArgs, headKd]
  | call t f args =>
    simp only [pStmt, Bool.and_eq_true] at hp
    obtain ⟨hne, hst⟩ := fmtVar_spine sty f hp.1
    have e1 : startsP (visitStmt sty (.call t f args)) =
        leftParen (.call (wrapP (!isVarLike f) (refExpr false sty f)) (refArgs false sty args)) := by
      simp only [visitStmt, leftParen]
      rw [startsP_append hne, hst]
    rw [e1]
    simp only [refStmt, headKd]
  | method t f m args =>
    simp only [pStmt, Bool.and_eq_true] at hp
    obtain ⟨hne, hst⟩ := fmtVar_spine sty f hp.1.1
    have e1 : startsP (visitStmt sty (.method t f m args)) =
        leftParen (.mcall (wrapP (!isVarLike f) (refExpr false sty f)) (nameS m) (refArgs false sty args)) := by
      simp only [visitStmt, leftParen, List.append_assoc]
      rw [startsP_append hne, hst]
    rw [e1]
    simp only [refStmt, headKd]
  | semi t => cases hs
  | block b =>
    obtain ⟨t, ss, rs, c⟩ := b
    simp only [pStmt, Block.isChunk, Bool.and_eq_true, Bool.not_eq_true'] at hp
    have hc := hp.1
    subst hc
    exact kd_ite _ (by simp [visitStmt, blk, Block.isChunk, visitBlockFull_eq, startsP, P])
  | localAssign t names es => exact kd_ite _ (by simp [visitStmt, startsP, P])
  | brk t => exact kd_ite _ (by simp [visitStmt, startsP, P])
  | funcDef t names m ps body => exact kd_ite _ (by simp [visitStmt, startsP, P, S])
  | goto t l => exact kd_ite _ (by simp [visitStmt, startsP, P, S])
  | label t l => exact kd_ite _ (by simp [visitStmt, startsP, P])
  | iff t c tr fl => exact kd_ite _ (by simp [visitStmt, startsP, P, S])
  | iterFor t ns es body => exact kd_ite _ (by simp [visitStmt, startsP, P, S])
  | localFunc t n ps body => exact kd_ite _ (by simp [visitStmt, startsP, P, S])
  | numFor t v a b st body => exact kd_ite _ (by simp [visitStmt, startsP, P, S])
  | «repeat» t c body => exact kd_ite _ (by simp [visitStmt, startsP, P, S])
  | whl t c body => exact kd_ite _ (by simp [visitStmt, startsP, P, S])

/-! ## the reference statement list without separators, comments and `Semicolon` statements -/

theorem cmtN_false (sty : Style) (hic : sty.includeComments = false) (s : Stmt) : cmtN false sty s = 0 := by
  unfold cmtN stmtCommentPieces
  rw [hic]
  rfl

theorem droppedSemi_eq (sty : Style) (hks : sty.keepSemicolon = false) (s : Stmt) : droppedSemi sty s = isSemi s := by
  unfold droppedSemi
  rw [hks]
  cases isSemi s <;> rfl

theorem emp_zero : emp 0 = [] := rfl
theorem semiN_false : semiN false = 0 := rfl

theorem refStmts_cons_semi (sty : Style) (hic : sty.includeComments = false) (hks : sty.keepSemicolon = false)
    (first : Bool) (t : Token) (rest : List Stmt) :
    refStmts false sty first (.semi t :: rest) = refStmts false sty false rest := by
  have hv : visitStmt sty (.semi t) = [] := by rw [visitStmt, hks]; rfl
  rw [refStmts, cmtN_false sty hic, droppedSemi_eq sty hks, hv, guardNeeded_eq]
  simp only [semiN_false, emp_zero, startsP, Bool.false_and, isSemi, if_true, ite_self, List.append_nil,
    List.nil_append, Bool.false_eq_true, if_false]

theorem refStmts_cons_other (sty : Style) (hic : sty.includeComments = false) (hks : sty.keepSemicolon = false)
    (first : Bool) (s : Stmt) (hs : isSemi s = false) (rest : List Stmt) :
    refStmts false sty first (s :: rest) =
      (if (guardable sty s && !first) = true then [Spec.Stat.empty] else []) ++
        refStmt false sty s :: refStmts false sty false rest := by
  rw [refStmts, cmtN_false sty hic, droppedSemi_eq sty hks, guardNeeded_eq, ← guardable_eq, hs]
  simp only [semiN_false, emp_zero, ite_self, List.append_nil, List.nil_append, Bool.false_eq_true, if_false,
    List.append_assoc, List.singleton_append]

theorem refBlock_false_none (sty : Style) (t : Token) (ss : List Stmt) (c : Bool) :
    refBlock false sty (.mk t ss none c) = .mk (refStmts false sty true ss) none := by
  simp only [refBlock, semiN_false, emp_zero, ite_self, List.append_nil, List.nil_append]

theorem refBlock_false_some (sty : Style) (t : Token) (ss : List Stmt) (es : List Expr) (c : Bool) :
    refBlock false sty (.mk t ss (some es) c) = .mk (refStmts false sty true ss) (some (refArgs false sty es)) := by
  simp only [refBlock, semiN_false, emp_zero, ite_self, List.append_nil, List.nil_append]

theorem refRoot_false (sty : Style) (y : Block) : refRoot false sty y = refBlock false sty y := by
  obtain ⟨t, ss, rs, c⟩ := y
  cases rs with
  | none => rw [refBlock_false_none]; simp only [refRoot, semiN_false, emp_zero, ite_self, List.append_nil]
  | some es => rw [refBlock_false_some]; simp only [refRoot, semiN_false, emp_zero, ite_self, List.append_nil]

theorem firstKd_guard (g first : Bool) (hd : Spec.Stat) (rest : List Spec.Stat) (hh : headKd hd = if g = true then Kd.P else Kd.O) :
    firstKd ((if (g && !first) = true then [Spec.Stat.empty] else []) ++ hd :: rest) =
      if g = true then (if first = true then Kd.P else Kd.S) else Kd.O := by
  cases g <;> cases first <;> simp only [Bool.and_true, Bool.and_false, Bool.not_true,
    Bool.not_false, if_true, Bool.false_eq_true, if_false, List.nil_append, List.singleton_append, firstKd, headKd] <;>
    first | exact hh | rfl

theorem kSs_guard (b : Bool) (hd : Spec.Stat) (rest : List Spec.Stat) :
    kSs ((if b = true then [Spec.Stat.empty] else []) ++ hd :: rest) = kS hd ++ kSs rest := by
  cases b
  · simp only [Bool.false_eq_true, if_false, List.nil_append, kSs]
  · simp only [if_true, List.singleton_append, kSs, kS, List.nil_append]

theorem isSemi_true {s : Stmt} (h : isSemi s = true) : ∃ t, s = .semi t := by
  cases s <;> first | exact ⟨_, rfl⟩ | cases h

/-! ## the main recursion -/

section
set_option linter.unusedSectionVars false
variable (sty : Style) (hic : sty.includeComments = false) (hks : sty.keepSemicolon = false)
include hic hks

mutual
theorem kE_ref : (e : Expr) → pExpr e = true → kE (refExpr false sty e) = gE sty e
  | .nil t, h => by simp only [refExpr, kE, gE]
  | .bool t v, h => by cases v <;> simp only [refExpr, kE, gE, if_true, Bool.false_eq_true, if_false]
  | .vararg t, h => by simp only [refExpr, kE, gE]
  | .number t n, h => by simp only [refExpr, kE, gE]
  | .string t v, h => by simp only [refExpr, kE, gE]
  | .func t ps body, h => by
    simp only [pExpr, Bool.and_eq_true] at h
    simp only [refExpr, kE, gE, kB_ref body h.2]
  | .table t fs, h => by
    simp only [pExpr] at h
    simp only [refExpr, kE, gE, kFs_ref fs h]
  | .binop t o l r, h => by
    simp only [pExpr, Bool.and_eq_true] at h
    simp only [refExpr, kE, gE, kE_wrapP, kE_ref l h.1, kE_ref r h.2]
  | .unop t o x, h => by
    simp only [pExpr] at h
    simp only [refExpr, kE, gE, kE_wrapP, kE_ref x h]
  | .name t n, h => by simp only [refExpr, kE, gE]
  | .index t l k, h => by
    simp only [pExpr, Bool.and_eq_true] at h
    simp only [refExpr, kE, gE, kE_wrapP, kE_ref l h.1, kE_ref k h.2]
  | .namedIndex t l nm, h => by
    simp only [pExpr, Bool.and_eq_true] at h
    simp only [refExpr, kE, gE, kE_wrapP, kE_ref l h.1]
  | .call t f args, h => by
    simp only [pExpr, Bool.and_eq_true] at h
    simp only [refExpr, kE, gE, kE_wrapP, kE_ref f h.1, kEs_ref args h.2]
  | .method t f m args, h => by
    simp only [pExpr, Bool.and_eq_true] at h
    simp only [refExpr, kE, gE, kE_wrapP, kE_ref f h.1.1, kEs_ref args h.2]

theorem kEs_ref : (es : List Expr) → pArgs es = true → kEs (refArgs false sty es) = gEs sty es
  | [], h => by simp only [refArgs, kEs, gEs]
  | e :: r, h => by
    simp only [pArgs, Bool.and_eq_true] at h
    simp only [refArgs, kEs, gEs, kE_ref e h.1, kEs_ref r h.2]

theorem kFs_ref : (fs : List Model.Field) → pFields fs = true → kFs (refFields false sty fs) = gFs sty fs
  | [], h => by simp only [refFields, kFs, gFs]
  | f :: r, h => by
    simp only [pFields, Bool.and_eq_true] at h
    simp only [refFields, kFs, gFs, kF_ref f h.1, kFs_ref r h.2]

theorem kF_ref : (f : Model.Field) → pField f = true → kF (refField false sty f) = gF sty f
  | .explicit t k v, h => by
    simp only [pField, Bool.and_eq_true] at h
    simp only [refField, kF, gF, kE_ref k h.1, kE_ref v h.2]
  | .named t n v, h => by
    simp only [pField, Bool.and_eq_true] at h
    simp only [refField, kF, gF, kE_ref v h.2]
  | .numbered t v, h => by
    simp only [pField] at h
    simp only [refField, kF, gF, kE_ref v h]

theorem kB_ref : (b : Model.Block) → pBlock b = true → kB (refBlock false sty b) = gB sty b
  | .mk t ss none ch, h => by
    simp only [pBlock, Bool.and_true] at h
    rw [refBlock_false_none, kB_mk, (kSs_ref true ss h).1, (kSs_ref true ss h).2]
    simp only [kRet, gB, List.append_nil]
  | .mk t ss (some es) ch, h => by
    simp only [pBlock, Bool.and_eq_true] at h
    rw [refBlock_false_some, kB_mk, (kSs_ref true ss h.1).1, (kSs_ref true ss h.1).2]
    simp only [kRet, gB, kEs_ref es h.2]

theorem kSs_ref : (first : Bool) → (ss : List Stmt) → pStmts ss = true →
    kSs (refStmts false sty first ss) = gSs sty ss ∧ firstKd (refStmts false sty first ss) = gFirst sty first ss
  | first, [], h => ⟨by simp only [refStmts, kSs, gSs], by simp only [refStmts, firstKd, gFirst]⟩
  | first, s :: r, h => by
    simp only [pStmts, Bool.and_eq_true] at h
    cases hs : isSemi s with
    | true =>
      obtain ⟨t, rfl⟩ := isSemi_true hs
      rw [refStmts_cons_semi sty hic hks]
      exact ⟨by rw [(kSs_ref false r h.2).1]; simp only [gSs, gS, List.nil_append],
          by rw [(kSs_ref false r h.2).2]; simp only [gFirst, isSemi, if_true]⟩
    | false =>
      rw [refStmts_cons_other sty hic hks first s hs]
      refine ⟨?_, ?_⟩
      · rw [kSs_guard, kS_ref s h.1, (kSs_ref false r h.2).1]
        simp only [gSs]
      · rw [firstKd_guard _ _ _ _ (headKd_refStmt sty s hs h.1)]
        simp only [gFirst, hs, Bool.false_eq_true, if_false]

theorem kS_ref : (s : Stmt) → pStmt s = true → kS (refStmt false sty s) = gS sty s
  | .assign t ts es, h => by
    simp only [pStmt, Bool.and_eq_true] at h
    simp only [refStmt, kS, gS, kEs_ref ts h.1.1.2, kEs_ref es h.2]
  | .block b, h => by
    simp only [pStmt, Bool.and_eq_true] at h
    simp only [refStmt, kS, gS, kB_ref b h.2]
  | .brk t, h => by simp only [refStmt, kS, gS]
  | .call t f args, h => by
    simp only [pStmt, Bool.and_eq_true] at h
    simp only [refStmt, kS, kE, gS, kE_wrapP, kE_ref f h.1, kEs_ref args h.2]
  | .funcDef t names none ps body, h => by
    simp only [pStmt, Bool.and_eq_true] at h
    simp only [refStmt, kS, gS, kB_ref body h.2]
  | .funcDef t names (some mn) ps body, h => by
    simp only [pStmt, Bool.and_eq_true] at h
    simp only [refStmt, kS, gS, kB_ref body h.2]
  | .goto t l, h => by simp only [refStmt, kS, gS]
  | .label t l, h => by simp only [refStmt, kS, gS]
  | .iff t test tr fl, h => by
    simp only [pStmt, Bool.and_eq_true] at h
    simp only [refStmt, kS, gS, kE_ref test h.1.1.1, kB_ref tr h.1.2, ← kFl_ref fl h.2, List.append_assoc]
  | .iterFor t ns es body, h => by
    simp only [pStmt, Bool.and_eq_true] at h
    simp only [refStmt, kS, gS, kEs_ref es h.1.1.2, kB_ref body h.2]
  | .localAssign t names none, h => by simp only [refStmt, kS, kEs, gS]
  | .localAssign t names (some []), h => by simp only [refStmt, refArgs, kS, kEs, gS, gEs]
  | .localAssign t names (some (e :: r)), h => by
    simp only [pStmt, Bool.and_eq_true] at h
    simp only [refStmt, kS, gS, kEs_ref (e :: r) h.2]
  | .localFunc t n ps body, h => by
    simp only [pStmt, Bool.and_eq_true] at h
    simp only [refStmt, kS, gS, kB_ref body h.2]
  | .method t f m args, h => by
    simp only [pStmt, Bool.and_eq_true] at h
    simp only [refStmt, kS, kE, gS, kE_wrapP, kE_ref f h.1.1, kEs_ref args h.2]
  | .numFor t v a b none body, h => by
    simp only [pStmt, Bool.and_eq_true, Bool.and_true] at h
    simp only [refStmt, kS, gS, kE_ref a h.1.1.1.2, kE_ref b h.1.1.2, kB_ref body h.2, List.append_nil,
      List.append_assoc]
  | .numFor t v a b (some st) body, h => by
    simp only [pStmt, Bool.and_eq_true] at h
    simp only [refStmt, kS, gS, kE_ref a h.1.1.1.1.2, kE_ref b h.1.1.1.2, kE_ref st h.1.1.2, kB_ref body h.2,
      List.append_assoc]
  | .repeat t c body, h => by
    simp only [pStmt, Bool.and_eq_true] at h
    simp only [refStmt, kS, gS, kE_ref c h.2, kB_ref body h.1.2]
  | .semi t, h => by simp only [refStmt, kS, gS]
  | .whl t c body, h => by
    simp only [pStmt, Bool.and_eq_true] at h
    simp only [refStmt, kS, gS, kE_ref c h.1.1, kB_ref body h.2]

theorem kFl_ref : (fl : IfFalse) → pFalse fl = true →
    kElifs (refElifs false sty fl) ++ kOptB (refElse false sty fl) = gFalse sty fl
  | .none, h => by simp only [refElifs, refElse, kElifs, kOptB, gFalse, List.append_nil]
  | .block b, h => by
    simp only [pFalse, Bool.and_eq_true] at h
    simp only [refElifs, refElse, kElifs, kOptB, gFalse, List.nil_append, kB_ref b h.2]
  | .elif t test tr fl, h => by
    simp only [pFalse, Bool.and_eq_true] at h
    simp only [refElifs, refElse, kElifs, gFalse, kE_ref test h.1.1.1, kB_ref tr h.1.2, ← kFl_ref fl h.2,
      List.append_assoc]
end

end

/-- the block-start kinds of the exact reference tree of the printed tokens of a nested block -/
theorem kB_refBlock (sty : Style) (hic : sty.includeComments = false) (hks : sty.keepSemicolon = false)
    (y : Block) (hy : pBlock y = true) : kB (refBlock false sty y) = gB sty y :=
  kB_ref sty hic hks y hy

/-- the block-start kinds of the exact reference tree of the printed tokens of the root -/
theorem kB_refRoot (sty : Style) (hic : sty.includeComments = false) (hks : sty.keepSemicolon = false)
    (y : Block) (hy : pBlock y = true) : kB (refRoot false sty y) = gB sty y := by
  rw [refRoot_false]
  exact kB_ref sty hic hks y hy

end Tumfl.Theory

