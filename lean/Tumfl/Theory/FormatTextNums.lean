import Tumfl.Theory.FormatTextTok
/-!
# The numerals of a tree
-/
namespace Tumfl.Theory
open Tumfl Tumfl.Model

mutual
def numsExpr : Expr → List NumTuple
  | .nil _ | .bool _ _ | .vararg _ | .string _ _ | .name _ _ => []
  | .number _ n => [n]
  | .func _ ps body => numsArgs ps ++ numsBlock body
  | .table _ fs => numsFields fs
  | .binop _ _ l r => numsExpr l ++ numsExpr r
  | .unop _ _ e => numsExpr e
  | .index _ l k => numsExpr l ++ numsExpr k
  | .namedIndex _ l n => numsExpr l ++ numsExpr n
  | .call _ f args => numsExpr f ++ numsArgs args
  | .method _ f m args => numsExpr f ++ numsExpr m ++ numsArgs args

def numsArgs : List Expr → List NumTuple
  | [] => []
  | e :: rest => numsExpr e ++ numsArgs rest

def numsFields : List Field → List NumTuple
  | [] => []
  | f :: rest => numsField f ++ numsFields rest

def numsField : Field → List NumTuple
  | .explicit _ k v => numsExpr k ++ numsExpr v
  | .named _ n v => numsExpr n ++ numsExpr v
  | .numbered _ v => numsExpr v

def numsBlock : Block → List NumTuple
  | .mk _ stmts (some es) _ => numsStmts stmts ++ numsArgs es
  | .mk _ stmts none _ => numsStmts stmts

def numsStmts : List Stmt → List NumTuple
  | [] => []
  | s :: rest => numsStmt s ++ numsStmts rest

def numsStmt : Stmt → List NumTuple
  | .assign _ ts es => numsArgs ts ++ numsArgs es
  | .block b => numsBlock b
  | .brk _ => []
  | .call _ f args => numsExpr f ++ numsArgs args
  | .funcDef _ names (some mn) ps body => numsArgs names ++ numsExpr mn ++ numsArgs ps ++ numsBlock body
  | .funcDef _ names none ps body => numsArgs names ++ numsArgs ps ++ numsBlock body
  | .goto _ l => numsExpr l
  | .label _ n => numsExpr n
  | .iff _ test tr fl => numsExpr test ++ numsBlock tr ++ numsFalse fl
  | .iterFor _ ns es body => numsArgs ns ++ numsArgs es ++ numsBlock body
  | .localAssign _ _ (some es) => numsArgs es
  | .localAssign _ _ none => []
  | .localFunc _ n ps body => numsExpr n ++ numsArgs ps ++ numsBlock body
  | .method _ f m args => numsExpr f ++ numsExpr m ++ numsArgs args
  | .numFor _ v a b (some s) body => numsExpr v ++ numsExpr a ++ numsExpr b ++ numsExpr s ++ numsBlock body
  | .numFor _ v a b none body => numsExpr v ++ numsExpr a ++ numsExpr b ++ numsBlock body
  | .repeat _ c body => numsBlock body ++ numsExpr c
  | .semi _ => []
  | .whl _ c body => numsExpr c ++ numsBlock body

def numsFalse : IfFalse → List NumTuple
  | .none => []
  | .block b => numsBlock b
  | .elif _ test tr fl => numsExpr test ++ numsBlock tr ++ numsFalse fl
end

/-- every numeral of the tree prints in the canonical shape (what the scanner delivers does: `canonNumeral_numberStr`) -/
def NumsCanon (ns : List NumTuple) : Prop := ∀ t ∈ ns, CanonNumeral (numberStr t)

theorem NumsCanon.left {a b : List NumTuple} (h : NumsCanon (a ++ b)) : NumsCanon a :=
  fun t ht => h t (List.mem_append_left _ ht)
theorem NumsCanon.right {a b : List NumTuple} (h : NumsCanon (a ++ b)) : NumsCanon b :=
  fun t ht => h t (List.mem_append_right _ ht)
theorem numsCanon_nil : NumsCanon [] := fun _ h => by cases h

end Tumfl.Theory
