import Tumfl.Theory.Unlex
/-!
# Unlex: non-vacuity

A concrete well-formed layout with a short comment + newline, adjacent tokens without blank (`f` `(` `)`), a long comment, a
keyword, a numeral, a quoted string, a long string and a trailing short comment; its text; what `unlex_comments` says
about it; and the same by evaluation of the reference lexer.
-/
namespace Tumfl.Theory
open Tumfl Tumfl.Spec Tumfl.Model

/-- a long literal whose content does not contain its closer and does not start with a newline -/
theorem isLongLit_plain (lvl : Nat) (content : List Char)
    (h : containsSub (closer lvl) (content ++ (closer lvl).dropLast) = false) (hn : content.head? ≠ some '\n') :
    IsLongLit ('[' :: repeatChar '=' lvl ++ '[' :: content ++ closer lvl) content := by
  refine ⟨lvl, content, rfl, ?_⟩
  intro rest
  have hd : dropFirstNewline (content ++ closer lvl ++ rest) = content ++ closer lvl ++ rest := by
    cases content with
    | nil => exact dropFirstNewline_ne (by decide) _
    | cons c t => exact dropFirstNewline_ne (fun e => hn (by simp [e])) _
  rw [hd]
  exact longBody_closer lvl content rest h

def num42 : Numeral := { hex := false, ip := ['4', '2'], fp := none, ex := none }

theorem canon42 : CanonNum num42 [] := by
  refine ⟨⟨?_, ?_, by decide, ?_, by decide⟩, by decide, ?_⟩
  · decide
  · intro f h; cases h
  · intro neg ds h; cases h
  · intro f h; cases h

def unlexExample : List LItem :=
  [ .com "-- header".toList, .ws "\n".toList,
    .tok "f".toList (.name "f"), .tok "(".toList (.sym "("), .tok "\"hi\"".toList (.str [.ch 104, .ch 105]),
    .tok ")".toList (.sym ")"), .ws " ".toList,
    .com "--[[ long\ncomment ]]".toList,
    .tok "return".toList (.kw "return"), .ws " ".toList,
    .tok "42".toList (.num num42), .ws " ".toList, .tok "..".toList (.sym ".."), .tok "[=[x]]]=]".toList (.str [.ch 120, .ch 93, .ch 93]),
    .ws "\n\t".toList, .com "--end".toList ]

theorem unlexExample_render :
    String.ofList (renderItems unlexExample) = "-- header\nf(\"hi\") --[[ long\ncomment ]]return 42 ..[=[x]]]=]\n\t--end" := by
  decide +kernel

theorem layout_ws (w : String) (h : w.toList.all isLayoutSpace = true) : ∀ c ∈ w.toList, isLayoutSpace c = true := by
  simpa using h

theorem unlexExample_lwf : LWF unlexExample := by
  have rName : ReadsAs "f".toList (.name "f") := readsAs_of_isPiece (.word 'f' [] (by decide) (by simp))
  have rOpen : ReadsAs "(".toList (.sym "(") := readsAs_of_isPiece (.sym ['('] (by decide))
  have rStr : ReadsAs "\"hi\"".toList (.str [.ch 104, .ch 105]) :=
    readsAs_of_isPiece (.quoted _ _ (visitString_quoted '"' (Or.inl rfl) ['h', 'i']))
  have rClose : ReadsAs ")".toList (.sym ")") := readsAs_of_isPiece (.sym [')'] (by decide))
  have rRet : ReadsAs "return".toList (.kw "return") :=
    readsAs_of_isPiece (.word 'r' "eturn".toList (by decide) (by decide))
  have rNum : ReadsAs "42".toList (.num num42) := readsAs_of_isPiece (.num num42 [] canon42)
  have rCat : ReadsAs "..".toList (.sym "..") := readsAs_of_isPiece (.sym ['.', '.'] (by decide))
  have rLong : ReadsAs "[=[x]]]=]".toList (.str [.ch 120, .ch 93, .ch 93]) :=
    readsAs_of_isPiece (.long _ ['x', ']', ']'] (isLongLit_plain 1 ['x', ']', ']'] (by decide) (by decide)))
  have cHead : IsShortComment "-- header".toList := ⟨" header".toList, rfl, by decide, by decide⟩
  have cLong : IsLongComment "--[[ long\ncomment ]]".toList :=
    ⟨"[[ long\ncomment ]]".toList, " long\ncomment ".toList, rfl,
      isLongLit_plain 0 " long\ncomment ".toList (by decide) (by decide)⟩
  have cEnd : IsShortComment "--end".toList := ⟨"end".toList, rfl, by decide, by decide⟩
  unfold unlexExample
  refine .short cHead (.ws (layout_ws "\n" (by decide)) (.tok rName (.tok rOpen (.tok rStr (.tok rClose
    (.ws (layout_ws " " (by decide)) (.long cLong (.tok rRet (.ws (layout_ws " " (by decide)) (.tok rNum (.ws (layout_ws " " (by decide)) (.tok rCat
    (.tok rLong (.ws (layout_ws "\n\t" (by decide)) (.short cEnd .nil (Or.inl rfl)))
    ?_ ?_) ?_ ?_)) ?_ ?_)) ?_ ?_))) ?_ ?_) ?_ ?_) ?_ ?_) ?_ ?_)) (Or.inr ⟨_, rfl⟩)
  all_goals first
    | exact Or.inl rfl
    | (intro d t e; cases e; decide)

/-- the tokens and comments of the example -/
def unlexExampleToks : List (Tk × List (List Char)) :=
  [ (.name "f", [" header".toList]), (.sym "(", []), (.str [.ch 104, .ch 105], []), (.sym ")", []),
    (.kw "return", [" long\ncomment ".toList]), (.num num42, []), (.sym "..", []),
    (.str [.ch 120, .ch 93, .ch 93], []), (.eof, ["end".toList]) ]

theorem unlexExample_itemToks : itemToks unlexExample [] = unlexExampleToks := by decide +kernel

/-- what `unlex_comments` says about the example -/
theorem unlexExample_read :
    ∃ ts, Spec.lex (renderItems unlexExample) = .ok ts ∧ ts.map tkc = unlexExampleToks := by
  obtain ⟨ts, h1, h2⟩ := unlex_comments unlexExample unlexExample_lwf (by intro r e; cases e)
  exact ⟨ts, h1, by rw [h2, unlexExample_itemToks]⟩

/-- ... and with the statement separator appended (the layout ends in a short comment, the separator is a newline) -/
theorem unlexExample_read_sep :
    ∃ ts, Spec.lex (renderItems unlexExample ++ ['\n']) = .ok ts ∧ ts.map tkc = unlexExampleToks := by
  obtain ⟨ts, h1, h2, _⟩ := unlex_ws unlexExample unlexExample_lwf ['\n'] (by decide) (Or.inl (Or.inr ⟨[], rfl⟩))
    (by intro r e; cases e)
  exact ⟨ts, h1, by rw [h2, unlexExample_itemToks]⟩

/-- token kinds and comments of a lexing result (for closed examples) -/
def tkcOf (r : Except LexErr (List Tok)) : Option (List (Tk × List (List Char))) :=
  match r with
  | .ok ts => some (ts.map tkc)
  | .error _ => none

/-- the same by running the reference lexer -/
example : tkcOf (Spec.lex (renderItems unlexExample)) = some unlexExampleToks := by decide +kernel

/-- a blank appended after the trailing short comment becomes part of that comment (hence the side condition of
`lwf_append_ws`); the tokens stay the same -/
example : tkcOf (Spec.lex (renderItems unlexExample ++ [' '])) =
    some (unlexExampleToks.dropLast ++ [(.eof, ["end ".toList])]) := by decide +kernel

end Tumfl.Theory
