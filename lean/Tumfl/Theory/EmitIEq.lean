import Tumfl.Theory.EmitIBase
/-!
# On trees without a chunk in statement position the repaired emitter is the old emitter

`ncBlock b`: no statement `Stmt.block c` of `b` (at any depth, function bodies included) has `c.isChunk = true`.
`emitI_eq_emit_wf`: `TreeWF b → ncBlock b = true → emitI sty b = emit sty b`.
-/
namespace Tumfl.Theory
open Tumfl.Model

mutual
def ncExpr : Expr → Bool
  | .func _ ps body => ncArgs ps && ncBlock body
  | .table _ fs => ncFields fs
  | .binop _ _ l r => ncExpr l && ncExpr r
  | .unop _ _ e => ncExpr e
  | .index _ l k => ncExpr l && ncExpr k
  | .namedIndex _ l n => ncExpr l && ncExpr n
  | .call _ f args => ncExpr f && ncArgs args
  | .method _ f m args => ncExpr f && ncExpr m && ncArgs args
  | _ => true

def ncArgs : List Expr → Bool
  | [] => true
  | e :: rest => ncExpr e && ncArgs rest

def ncFields : List Field → Bool
  | [] => true
  | f :: rest => ncField f && ncFields rest

def ncField : Field → Bool
  | .explicit _ k v => ncExpr k && ncExpr v
  | .named _ n v => ncExpr n && ncExpr v
  | .numbered _ v => ncExpr v

def ncBlock : Block → Bool
  | .mk _ stmts (some es) _ => ncStmts stmts && ncArgs es
  | .mk _ stmts none _ => ncStmts stmts

def ncStmts : List Stmt → Bool
  | [] => true
  | s :: rest => ncStmt s && ncStmts rest

/-- a statement that is not a chunk block, and the same inside -/
def ncStmt : Stmt → Bool
  | .assign _ ts es => ncArgs ts && ncArgs es
  | .block b => !b.isChunk && ncBlock b
  | .call _ f args => ncExpr f && ncArgs args
  | .funcDef _ names (some mn) ps body => ncArgs names && ncExpr mn && ncArgs ps && ncBlock body
  | .funcDef _ names none ps body => ncArgs names && ncArgs ps && ncBlock body
  | .goto _ l => ncExpr l
  | .label _ n => ncExpr n
  | .iff _ test tr fl => ncExpr test && ncBlock tr && ncFalse fl
  | .iterFor _ ns es body => ncArgs ns && ncArgs es && ncBlock body
  | .localAssign _ _ (some es) => ncArgs es
  | .localFunc _ n ps body => ncExpr n && ncArgs ps && ncBlock body
  | .method _ f m args => ncExpr f && ncExpr m && ncArgs args
  | .numFor _ v a b (some s) body => ncExpr v && ncExpr a && ncExpr b && ncExpr s && ncBlock body
  | .numFor _ v a b none body => ncExpr v && ncExpr a && ncExpr b && ncBlock body
  | .repeat _ c body => ncExpr c && ncBlock body
  | .whl _ c body => ncExpr c && ncBlock body
  | _ => true

def ncFalse : IfFalse → Bool
  | .none => true
  | .block b => ncBlock b
  | .elif _ test tr fl => ncExpr test && ncBlock tr && ncFalse fl
end

theorem blkI_congr {sty : Style} {b : Block} (h : visitBlockFullI sty b = visitBlockFull sty b) :
    blk b (visitBlockFullI sty b) = blk b (visitBlockFull sty b) := by rw [h]

mutual
theorem eqI_expr (sty : Style) : (e : Expr) → wfExpr e = true → ncExpr e = true → visitExprI sty e = visitExpr sty e
  | .nil _, _, _ | .bool _ _, _, _ | .vararg _, _, _ | .number _ _, _, _ | .string _ _, _, _ | .name _ _, _, _ => by
    simp only [visitExprI, visitExpr]
  | .func _ ps body, h, k => by
    simp only [wfExpr, ncExpr, Bool.and_eq_true] at h k
    simp only [visitExprI, visitExpr, eqI_block sty body h.2 k.2, eqI_args sty ps h.1 k.1]
  | .table _ fs, h, k => by
    simp only [wfExpr, ncExpr] at h k
    simp only [visitExprI, visitExpr, eqI_fields sty fs h k]
  | .binop _ o l r, h, k => by
    simp only [wfExpr, ncExpr, Bool.and_eq_true] at h k
    simp only [visitExprI, visitExpr, eqI_expr sty l h.1 k.1, eqI_expr sty r h.2 k.2]
  | .unop _ u e, h, k => by
    simp only [wfExpr, ncExpr] at h k
    simp only [visitExprI, visitExpr, eqI_expr sty e h k]
  | .index _ l key, h, k => by
    simp only [wfExpr, ncExpr, Bool.and_eq_true] at h k
    simp only [visitExprI, visitExpr, eqI_expr sty l h.1 k.1, eqI_expr sty key h.2 k.2]
  | .namedIndex _ l n, h, k => by
    simp only [wfExpr, ncExpr, Bool.and_eq_true] at h k
    simp only [visitExprI, visitExpr, eqI_expr sty l h.1 k.1, eqI_expr sty n h.2 k.2]
  | .call _ f args, h, k => by
    simp only [wfExpr, ncExpr, Bool.and_eq_true] at h k
    simp only [visitExprI, visitExpr, eqI_expr sty f h.1 k.1, eqI_args sty args h.2 k.2]
  | .method _ f m args, h, k => by
    simp only [wfExpr, ncExpr, Bool.and_eq_true] at h k
    simp only [visitExprI, visitExpr, eqI_expr sty f h.1.1 k.1.1, eqI_expr sty m h.1.2 k.1.2,
      eqI_args sty args h.2 k.2]

theorem eqI_args (sty : Style) : (es : List Expr) → wfArgs es = true → ncArgs es = true → visitArgsI sty es = visitArgs sty es
  | [], _, _ => by simp only [visitArgsI, visitArgs]
  | [e], h, k => by
    simp only [wfArgs, ncArgs, Bool.and_eq_true] at h k
    simp only [visitArgsI, visitArgs, eqI_expr sty e h.1 k.1]
  | e :: e2 :: rest, h, k => by
    rw [wfArgs, Bool.and_eq_true] at h
    rw [ncArgs, Bool.and_eq_true] at k
    rw [visitArgsI, visitArgs, eqI_expr sty e h.1 k.1, eqI_args sty (e2 :: rest) h.2 k.2]

theorem eqI_targets (sty : Style) : (es : List Expr) → wfArgs es = true → ncArgs es = true →
    visitTargetsI sty es = visitTargets sty es
  | [], _, _ => by simp only [visitTargetsI, visitTargets]
  | [e], h, k => by
    simp only [wfArgs, ncArgs, Bool.and_eq_true] at h k
    simp only [visitTargetsI, visitTargets, eqI_expr sty e h.1 k.1]
  | e :: e2 :: rest, h, k => by
    rw [wfArgs, Bool.and_eq_true] at h
    rw [ncArgs, Bool.and_eq_true] at k
    rw [visitTargetsI, visitTargets, eqI_expr sty e h.1 k.1, eqI_targets sty (e2 :: rest) h.2 k.2]

theorem eqI_dotted (sty : Style) : (es : List Expr) → wfArgs es = true → ncArgs es = true →
    visitDottedI sty es = visitDotted sty es
  | [], _, _ => by simp only [visitDottedI, visitDotted]
  | [e], h, k => by
    simp only [wfArgs, ncArgs, Bool.and_eq_true] at h k
    simp only [visitDottedI, visitDotted, eqI_expr sty e h.1 k.1]
  | e :: e2 :: rest, h, k => by
    rw [wfArgs, Bool.and_eq_true] at h
    rw [ncArgs, Bool.and_eq_true] at k
    rw [visitDottedI, visitDotted, eqI_expr sty e h.1 k.1, eqI_dotted sty (e2 :: rest) h.2 k.2]

theorem eqI_fields (sty : Style) : (fs : List Field) → wfFields fs = true → ncFields fs = true →
    visitFieldsI sty fs = visitFields sty fs
  | [], _, _ => by simp only [visitFieldsI, visitFields]
  | [f], h, k => by
    simp only [wfFields, ncFields, Bool.and_eq_true] at h k
    simp only [visitFieldsI, visitFields, eqI_field sty f h.1 k.1]
  | f :: f2 :: rest, h, k => by
    rw [wfFields, Bool.and_eq_true] at h
    rw [ncFields, Bool.and_eq_true] at k
    rw [visitFieldsI, visitFields, eqI_field sty f h.1 k.1, eqI_fields sty (f2 :: rest) h.2 k.2]

theorem eqI_field (sty : Style) : (f : Field) → wfField f = true → ncField f = true → visitFieldI sty f = visitField sty f
  | .explicit _ key v, h, k => by
    simp only [wfField, ncField, Bool.and_eq_true] at h k
    simp only [visitFieldI, visitField, eqI_expr sty key h.1 k.1, eqI_expr sty v h.2 k.2]
  | .named _ n v, h, k => by
    simp only [wfField, ncField, Bool.and_eq_true] at h k
    simp only [visitFieldI, visitField, eqI_expr sty n h.1 k.1, eqI_expr sty v h.2 k.2]
  | .numbered _ v, h, k => by
    simp only [wfField, ncField] at h k
    simp only [visitFieldI, visitField, eqI_expr sty v h k]

theorem eqI_block (sty : Style) : (b : Block) → wfBlock b = true → ncBlock b = true →
    visitBlockFullI sty b = visitBlockFull sty b
  | .mk _ stmts none _, h, k => by
    simp only [wfBlock, ncBlock, Bool.and_true] at h k
    simp only [visitBlockFullI, visitBlockFull, eqI_stmts sty true stmts h k]
  | .mk _ stmts (some es) _, h, k => by
    simp only [wfBlock, ncBlock, Bool.and_eq_true] at h k
    simp only [visitBlockFullI, visitBlockFull, eqI_stmts sty true stmts h.1 k.1, eqI_args sty es h.2 k.2]

theorem eqI_stmts (sty : Style) : (first : Bool) → (ss : List Stmt) → wfStmts ss = true → ncStmts ss = true →
    visitStmtsI sty first ss = visitStmts sty first ss
  | _, [], _, _ => by simp only [visitStmtsI, visitStmts]
  | first, s :: rest, h, k => by
    simp only [wfStmts, ncStmts, Bool.and_eq_true] at h k
    rw [visitStmtsI_cons, visitStmts_cons, eqI_stmt sty s h.1 k.1, eqI_stmts sty false rest h.2 k.2]
    rw [guardI_eq_stmtGuard sty first s h.1]
    intro b hb
    subst hb
    have := k.1
    simp only [ncStmt, Bool.and_eq_true, Bool.not_eq_true'] at this
    exact this.1

theorem eqI_stmt (sty : Style) : (s : Stmt) → wfStmt s = true → ncStmt s = true → visitStmtI sty s = visitStmt sty s
  | .assign _ ts es, h, k => by
    simp only [wfStmt, ncStmt, Bool.and_eq_true] at h k
    simp only [visitStmtI, visitStmt, eqI_targets sty ts h.1 k.1, eqI_args sty es h.2 k.2]
  | .block b, h, k => by
    simp only [wfStmt, ncStmt, Bool.and_eq_true] at h k
    simp only [visitStmtI, visitStmt, eqI_block sty b h k.2]
  | .brk _, _, _ => by simp only [visitStmtI, visitStmt]
  | .semi _, _, _ => by simp only [visitStmtI, visitStmt]
  | .call _ f args, h, k => by
    simp only [wfStmt, ncStmt, Bool.and_eq_true] at h k
    simp only [visitStmtI, visitStmt, eqI_expr sty f h.1 k.1, eqI_args sty args h.2 k.2]
  | .funcDef _ names none ps body, h, k => by
    simp only [wfStmt, ncStmt, Bool.and_eq_true, Bool.and_true] at h k
    simp only [visitStmtI, visitStmt, eqI_dotted sty names h.1.1 k.1.1, eqI_args sty ps h.1.2 k.1.2,
      eqI_block sty body h.2 k.2]
  | .funcDef _ names (some mn) ps body, h, k => by
    simp only [wfStmt, ncStmt, Bool.and_eq_true] at h k
    simp only [visitStmtI, visitStmt, eqI_dotted sty names h.1.1.1 k.1.1.1, eqI_expr sty mn h.1.1.2 k.1.1.2,
      eqI_args sty ps h.1.2 k.1.2, eqI_block sty body h.2 k.2]
  | .goto _ l, h, k => by
    simp only [wfStmt, ncStmt] at h k
    simp only [visitStmtI, visitStmt, eqI_expr sty l h k]
  | .label _ n, h, k => by
    simp only [wfStmt, ncStmt] at h k
    simp only [visitStmtI, visitStmt, eqI_expr sty n h k]
  | .iff _ test tr fl, h, k => by
    simp only [wfStmt, ncStmt, Bool.and_eq_true] at h k
    simp only [visitStmtI, visitStmt, eqI_expr sty test h.1.1.1 k.1.1, eqI_block sty tr h.1.2 k.1.2,
      eqI_false sty fl h.2 k.2]
  | .iterFor _ ns es body, h, k => by
    simp only [wfStmt, ncStmt, Bool.and_eq_true] at h k
    simp only [visitStmtI, visitStmt, eqI_args sty ns h.1.1 k.1.1, eqI_args sty es h.1.2 k.1.2,
      eqI_block sty body h.2 k.2]
  | .localAssign _ names none, _, _ => by simp only [visitStmtI, visitStmt]
  | .localAssign _ names (some []), _, _ => by simp only [visitStmtI, visitStmt]
  | .localAssign _ names (some (e :: rest)), h, k => by
    simp only [wfStmt, ncStmt, Bool.and_eq_true] at h k
    simp only [visitStmtI, visitStmt, eqI_args sty (e :: rest) h.2 k]
  | .localFunc _ n ps body, h, k => by
    simp only [wfStmt, ncStmt, Bool.and_eq_true] at h k
    simp only [visitStmtI, visitStmt, eqI_expr sty n h.1.1 k.1.1, eqI_args sty ps h.1.2 k.1.2,
      eqI_block sty body h.2 k.2]
  | .method _ f m args, h, k => by
    simp only [wfStmt, ncStmt, Bool.and_eq_true] at h k
    simp only [visitStmtI, visitStmt, eqI_expr sty f h.1.1 k.1.1, eqI_expr sty m h.1.2 k.1.2,
      eqI_args sty args h.2 k.2]
  | .numFor _ v a b none body, h, k => by
    simp only [wfStmt, ncStmt, Bool.and_eq_true, Bool.and_true] at h k
    simp only [visitStmtI, visitStmt, eqI_expr sty v h.1.1.1 k.1.1.1, eqI_expr sty a h.1.1.2 k.1.1.2,
      eqI_expr sty b h.1.2 k.1.2, eqI_block sty body h.2 k.2]
  | .numFor _ v a b (some st) body, h, k => by
    simp only [wfStmt, ncStmt, Bool.and_eq_true] at h k
    simp only [visitStmtI, visitStmt, eqI_expr sty v h.1.1.1.1 k.1.1.1.1, eqI_expr sty a h.1.1.1.2 k.1.1.1.2,
      eqI_expr sty b h.1.1.2 k.1.1.2, eqI_expr sty st h.1.2 k.1.2, eqI_block sty body h.2 k.2]
  | .repeat _ c body, h, k => by
    simp only [wfStmt, ncStmt, Bool.and_eq_true] at h k
    simp only [visitStmtI, visitStmt, eqI_block sty body h.1.2 k.2, eqI_expr sty c h.2 k.1]
  | .whl _ c body, h, k => by
    simp only [wfStmt, ncStmt, Bool.and_eq_true] at h k
    simp only [visitStmtI, visitStmt, eqI_expr sty c h.1 k.1, eqI_block sty body h.2 k.2]

theorem eqI_false (sty : Style) : (fl : IfFalse) → wfFalse fl = true → ncFalse fl = true →
    visitFalseI sty fl = visitFalse sty fl
  | .none, _, _ => by simp only [visitFalseI, visitFalse]
  | .block b, h, k => by
    simp only [wfFalse, ncFalse, Bool.and_eq_true] at h k
    simp only [visitFalseI, visitFalse, eqI_block sty b h.2 k]
  | .elif _ test tr fl, h, k => by
    simp only [wfFalse, ncFalse, Bool.and_eq_true] at h k
    simp only [visitFalseI, visitFalse, eqI_expr sty test h.1.1.1 k.1.1, eqI_block sty tr h.1.2 k.1.2,
      eqI_false sty fl h.2 k.2]
end

end Tumfl.Theory
