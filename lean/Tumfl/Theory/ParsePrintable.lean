import Tumfl.Theory.ParsePrintableCore
/-!
# The tree the parser builds is `Printable`

The same mutual induction over the 21 parse functions as `ParserWF.lean`, in the same weakest-precondition calculus
(`WP`, error predicate `NoAssert`), with the state invariant `StP` (untyped lexer; both buffered tokens satisfy `TokP`)
and the clauses of `Printable` (`pExpr`, `pStmt`, `pBlock`, .. of `PrintSimDefs.lean`) as postconditions.

Main result: `parseText_printable`.
-/
namespace Tumfl.Theory
open Tumfl.Model Tumfl.Spec

set_option linter.unusedVariables false

/-! ## the contracts of all parse functions at fuel `f` -/

structure AllP (f : Nat) : Prop where
  parseBlock : ∀ (tok : Token) (b : Bool), PSpecP (Model.parseBlock f tok b) (fun r => pBlock r = true ∧ r.isChunk = false)
  parseStatements : PSpecP (Model.parseStatements f) (fun r => pStmts r = true)
  parseStatement : PSpecP (Model.parseStatement f) (fun r => pStmt r = true)
  parseDotted : PSpecP (Model.parseDotted f) (fun r => r.all nameNodeOK = true)
  parseAttNames : PSpecP (Model.parseAttNames f) (fun r => r.all attOK = true ∧ r.isEmpty = false)
  parseIf : PSpecP (Model.parseIf f) (fun r => pStmt r = true)
  parseElseIfs : PSpecP (Model.parseElseIfs f) (fun r => pElifs r = true)
  parseFuncBody : ∀ (tok : Token), PSpecP (Model.parseFuncBody f tok) (fun r => paramsOK r.1 = true ∧ pBlock r.2 = true)
  parseNameList : ∀ (first : Option Expr) (lv : Bool), (∀ n, first = some n → nameNodeOK n = true) →
    PSpecP (Model.parseNameList f first lv) (fun r => r.all nameNodeOK = true ∧ (first.isSome = true → r.isEmpty = false))
  parseNames : ∀ (lv : Bool), PSpecP (Model.parseNames f lv) (fun r => r.all nameNodeOK = true)
  parseExpList : PSpecP (Model.parseExpList f) (fun r => pArgs r = true ∧ r.isEmpty = false)
  parseVarStmt : PSpecP (Model.parseVarStmt f) (fun r => pStmt r = true)
  parseMoreVars : PSpecP (Model.parseMoreVars f) (fun r => pArgs r = true)
  parseExp : PSpecP (Model.parseExp f) (fun r => pExpr r = true)
  parseAtom : PSpecP (Model.parseAtom f) (fun r => pExpr r = true)
  parseVar : ∀ (b : Bool), PSpecP (Model.parseVar f b) (fun r => pExpr r = true)
  /-- `_parse_var_terminal` must be entered on a token that starts a suffix -/
  parseVarTerminal : ∀ (base : Expr) (s : PSt), StP s → pExpr base = true → suffixStarts.contains s.cur.type = true →
    WP (Model.parseVarTerminal f base) (fun r s' => StP s' ∧ pExpr r = true) s
  parseTable : PSpecP (Model.parseTable f) (fun r => pExpr r = true)
  parseFields : PSpecP (Model.parseFields f) (fun r => pFields r = true)
  parseField : PSpecP (Model.parseField f) (fun r => pField r = true)
  parseArgs : PSpecP (Model.parseArgs f) (fun r => pArgs r = true)

/-- a call of a function with a `PSpecP` -/
syntax "pp_spec " term : tactic
macro_rules
  | `(tactic| pp_spec $t) => `(tactic| (apply PSpecP.call $t; assumption; intro _ _ _ _))

/-- one syntax-directed step -/
syntax "pp_step " ident : tactic
macro_rules
  | `(tactic| pp_step $ih) => `(tactic| (guard_wp; with_reducible first
    | apply WP_pure
    | apply WP_curTok
    | apply WP_nxtTok
    | apply WP_curIs
    | apply WP_perror
    | pp_spec (PSpecP_eat _)
    | pp_spec PSpecP_eatName
    | pp_spec (PSpecP_assertTok _)
    | pp_spec (PSpecP_addHint _ _)
    | pp_spec PSpecP_removeHint
    | pp_spec (PSpecP_switchHint _)
    | pp_spec (($ih).parseBlock _ _)
    | pp_spec ($ih).parseStatements
    | pp_spec ($ih).parseStatement
    | pp_spec ($ih).parseDotted
    | pp_spec ($ih).parseAttNames
    | pp_spec ($ih).parseIf
    | pp_spec ($ih).parseElseIfs
    | pp_spec (($ih).parseFuncBody _)
    | (show WP (Model.parseNameList _ _ _) _ _; refine PSpecP.call (($ih).parseNameList _ _ (by simp [*])) (by assumption) ?_; intro _ _ _ _)
    | pp_spec (($ih).parseNames _)
    | pp_spec ($ih).parseExpList
    | pp_spec ($ih).parseVarStmt
    | pp_spec ($ih).parseMoreVars
    | pp_spec ($ih).parseExp
    | pp_spec ($ih).parseAtom
    | pp_spec (($ih).parseVar _)
    | (show WP (Model.parseVarTerminal _ _) _ _; refine WP_call (($ih).parseVarTerminal _ _ (by assumption) (by simp [pExpr, *]) (Cond.elim (by assumption))) ?_; rintro _ _ ⟨_, _⟩)
    | pp_spec ($ih).parseTable
    | pp_spec ($ih).parseFields
    | pp_spec ($ih).parseField
    | pp_spec ($ih).parseArgs
    | apply WP_bind
    | apply WP_map
    | (apply WP_ite' <;> intro _)
    | split))
macro "pp " ih:ident : tactic => `(tactic| repeat' pp_step $ih)

theorem tokP_num {t : Token} {n : NumTuple} (h : TokP t) (hty : t.type = .NUMBER) (hv : t.value = .num n) :
    numOKp n = true := by
  obtain ⟨m, hm, hok⟩ := h.2 hty
  rw [hv] at hm
  cases hm
  exact hok

theorem tokP_num_str {t : Token} {x : List Char} (h : TokP t) (hty : t.type = .NUMBER) (hv : t.value = .str x) : False := by
  obtain ⟨m, hm, _⟩ := h.2 hty
  rw [hv] at hm
  cases hm

/-- the `local` statement, with its three-way `match` folded -/
def esOK : Option (List Expr) → Bool
  | some es => !es.isEmpty && pArgs es
  | none => true

theorem pStmt_localAssign (t : Token) (names : List AttName) (es : Option (List Expr)) :
    pStmt (.localAssign t names es) = (!names.isEmpty && names.all attOK && esOK es) := by
  rcases es with _ | (_ | ⟨e, r⟩) <;> simp [pStmt, esOK, pArgs]

theorem paramsOK_nil : paramsOK [] = true := rfl
theorem paramsOK_vararg (t : Token) : paramsOK [.vararg t] = true := rfl

/-- close the final goals `StP s ∧ p.. = true` -/
macro "p_fin" : tactic => `(tactic| first
  | (simp [pBlock, pStmts, pStmt, pExpr, pArgs, pFields, pField, pFalse, attOK, pElifs, paramsOK_nil, paramsOK_vararg, paramsOK_names,
      paramsOK_names_vararg, pArgs_of_names, *]; done)
  | (simp [pStmt_localAssign, esOK, pBlock, pStmts, pExpr, pArgs, pFields, pField, pFalse, attOK, pElifs, paramsOK_nil, paramsOK_vararg, paramsOK_names,
      paramsOK_names_vararg, pArgs_of_names, *]; done)
  | (simp_all [pBlock, pStmts, pStmt, pExpr, pArgs, pFields, pField, pFalse, attOK, pElifs, paramsOK_nil, paramsOK_vararg, paramsOK_names,
      paramsOK_names_vararg, pArgs_of_names]; done)
  | (simp_all [pStmt_localAssign, esOK, pBlock, pStmts, pExpr, pArgs, pFields, pField, pFalse, attOK, pElifs,
      paramsOK_nil, paramsOK_vararg, paramsOK_names, paramsOK_names_vararg, pArgs_of_names]; done))

theorem parseBlock_p_step {f : Nat} (ih : AllP f) (tok : Token) (b : Bool) :
    PSpecP (Model.parseBlock (f + 1) tok b) (fun r => pBlock r = true ∧ r.isChunk = false) := by
  intro s hs
  rw [Model.parseBlock]
  pp ih
  all_goals p_fin

theorem parseStatements_p_step {f : Nat} (ih : AllP f)  :
    PSpecP (Model.parseStatements (f + 1) ) (fun r => pStmts r = true) := by
  intro s hs
  rw [Model.parseStatements]
  pp ih
  all_goals p_fin

theorem parseStatement_p_step {f : Nat} (ih : AllP f)  :
    PSpecP (Model.parseStatement (f + 1) ) (fun r => pStmt r = true) := by
  intro s hs
  rw [Model.parseStatement]
  pp ih
  all_goals p_fin

theorem parseDotted_p_step {f : Nat} (ih : AllP f)  :
    PSpecP (Model.parseDotted (f + 1) ) (fun r => r.all nameNodeOK = true) := by
  intro s hs
  rw [Model.parseDotted]
  pp ih
  all_goals p_fin

theorem parseAttNames_p_step {f : Nat} (ih : AllP f)  :
    PSpecP (Model.parseAttNames (f + 1) ) (fun r => r.all attOK = true ∧ r.isEmpty = false) := by
  intro s hs
  rw [Model.parseAttNames]
  pp ih
  all_goals p_fin

theorem parseIf_p_step {f : Nat} (ih : AllP f)  :
    PSpecP (Model.parseIf (f + 1) ) (fun r => pStmt r = true) := by
  intro s hs
  rw [Model.parseIf]
  pp ih
  all_goals p_fin

theorem parseElseIfs_p_step {f : Nat} (ih : AllP f)  :
    PSpecP (Model.parseElseIfs (f + 1) ) (fun r => pElifs r = true) := by
  intro s hs
  rw [Model.parseElseIfs]
  pp ih
  all_goals p_fin

theorem parseFuncBody_p_step {f : Nat} (ih : AllP f) (tok : Token) :
    PSpecP (Model.parseFuncBody (f + 1) tok) (fun r => paramsOK r.1 = true ∧ pBlock r.2 = true) := by
  intro s hs
  rw [Model.parseFuncBody]
  pp ih
  all_goals p_fin

theorem parseNames_p_step {f : Nat} (ih : AllP f) (lv : Bool) :
    PSpecP (Model.parseNames (f + 1) lv) (fun r => r.all nameNodeOK = true) := by
  intro s hs
  rw [Model.parseNames]
  pp ih
  all_goals p_fin

theorem parseExpList_p_step {f : Nat} (ih : AllP f)  :
    PSpecP (Model.parseExpList (f + 1) ) (fun r => pArgs r = true ∧ r.isEmpty = false) := by
  intro s hs
  rw [Model.parseExpList]
  pp ih
  all_goals p_fin

theorem parseMoreVars_p_step {f : Nat} (ih : AllP f)  :
    PSpecP (Model.parseMoreVars (f + 1) ) (fun r => pArgs r = true) := by
  intro s hs
  rw [Model.parseMoreVars]
  pp ih
  all_goals p_fin

theorem parseVar_p_step {f : Nat} (ih : AllP f) (b : Bool) :
    PSpecP (Model.parseVar (f + 1) b) (fun r => pExpr r = true) := by
  intro s hs
  rw [Model.parseVar]
  pp ih
  all_goals p_fin

theorem parseTable_p_step {f : Nat} (ih : AllP f)  :
    PSpecP (Model.parseTable (f + 1) ) (fun r => pExpr r = true) := by
  intro s hs
  rw [Model.parseTable]
  pp ih
  all_goals p_fin

theorem parseFields_p_step {f : Nat} (ih : AllP f)  :
    PSpecP (Model.parseFields (f + 1) ) (fun r => pFields r = true) := by
  intro s hs
  rw [Model.parseFields]
  pp ih
  all_goals p_fin

theorem parseField_p_step {f : Nat} (ih : AllP f)  :
    PSpecP (Model.parseField (f + 1) ) (fun r => pField r = true) := by
  intro s hs
  rw [Model.parseField]
  pp ih
  all_goals p_fin

theorem parseArgs_p_step {f : Nat} (ih : AllP f)  :
    PSpecP (Model.parseArgs (f + 1) ) (fun r => pArgs r = true) := by
  intro s hs
  rw [Model.parseArgs]
  pp ih
  all_goals p_fin

theorem assign_ok {t : Token} {v : Expr} {more es : List Expr}
    (hc : Cond (¬ ((!(v :: more).all isVarNode) = true)))
    (hv : pExpr v = true) (hm : pArgs more = true) (he : pArgs es = true ∧ es.isEmpty = false) :
    pStmt (.assign t (v :: more) es) = true := by
  have hc := hc.elim
  rw [all_isVarNode] at hc
  simp only [Bool.not_eq_true', Bool.not_eq_false] at hc
  simp only [pStmt, List.isEmpty_cons, Bool.not_false, hc, pArgs, hv, hm, he.1, he.2, Bool.and_self]

theorem parseVarStmt_p_step {f : Nat} (ih : AllP f) :
    PSpecP (Model.parseVarStmt (f + 1)) (fun r => pStmt r = true) := by
  intro s hs
  rw [Model.parseVarStmt]
  pp ih
  all_goals first
    | p_fin
    | exact ⟨by assumption, assign_ok (by assumption) (by assumption) (by assumption) (by assumption)⟩

theorem parseAtom_p_step {f : Nat} (ih : AllP f) :
    PSpecP (Model.parseAtom (f + 1)) (fun r => pExpr r = true) := by
  intro s hs
  rw [Model.parseAtom]
  pp ih
  all_goals first
    | p_fin
    | exact ⟨by assumption, by simpa [pExpr] using tokP_num hs.1 ‹_› ‹_›⟩
    | exact (tokP_num_str hs.1 ‹_› ‹_›).elim

theorem parseNameList_p_step {f : Nat} (ih : AllP f) (first : Option Expr) (lv : Bool)
    (hfirst : ∀ n, first = some n → nameNodeOK n = true) :
    PSpecP (Model.parseNameList (f + 1) first lv)
      (fun r => r.all nameNodeOK = true ∧ (first.isSome = true → r.isEmpty = false)) := by
  intro s hs
  cases first with
  | none =>
    rw [Model.parseNameList]
    pp ih
    all_goals p_fin
  | some n =>
    have hn := hfirst n rfl
    rw [Model.parseNameList]
    pp ih
    all_goals p_fin

theorem parseVarTerminal_p_step {f : Nat} (ih : AllP f) (base : Expr) (s : PSt) (hs : StP s)
    (hb : pExpr base = true) (hsuf : suffixStarts.contains s.cur.type = true) :
    WP (Model.parseVarTerminal (f + 1) base) (fun r s' => StP s' ∧ pExpr r = true) s := by
  rw [Model.parseVarTerminal]
  pp ih
  all_goals first
    | p_fin
    | (exfalso; simp_all [suffixStarts])

/-! ### the expression ladder -/

theorem keepsEat_modelSig_P (atom : PM Expr) : KeepsEat StP NoAssert (modelSig atom).eat := by
  intro s hs
  have h := (PSpecP_eatRaw s hs).run
  simp only [modelSig]
  cases he : eatRaw s with
  | error e => rw [he] at h; exact h
  | ok r => obtain ⟨a, s1⟩ := r; rw [he] at h; exact h.1

theorem keepsW_of_PSpecP {α : Type} {m : PM α} {W : α → Prop} (h : PSpecP m W) : KeepsW StP W NoAssert m := by
  intro s hs
  have h1 := (h s hs).run
  unfold ResW
  cases hm : m s with
  | error e => rw [hm] at h1; exact h1
  | ok r => obtain ⟨a, s1⟩ := r; rw [hm] at h1; exact h1

theorem PSpecP_of_keepsW {α : Type} {m : PM α} {W : α → Prop} (h : KeepsW StP W NoAssert m) : PSpecP m W := by
  intro s hs
  have h1 := h s hs
  unfold ResW at h1
  constructor
  cases hm : m s with
  | error e => rw [hm] at h1; exact h1
  | ok r => obtain ⟨a, s1⟩ := r; rw [hm] at h1; exact h1

theorem parseExp_p_step {f : Nat} (ih : AllP f) : PSpecP (Model.parseExp (f + 1)) (fun r => pExpr r = true) := by
  rw [Model.parseExp]
  apply PSpecP_of_keepsW
  apply ladderExp_keepsW
  · exact NoAssert_fuel
  · exact keepsEat_modelSig_P _
  · intro t o l r hl hr
    simp only [modelSig, pExpr, hl, hr, Bool.and_self]
  · intro t u e he
    simp only [modelSig, pExpr, he]
  · exact keepsW_of_PSpecP ih.parseAtom

/-! ### the induction -/

theorem allP_zero : AllP 0 := by
  constructor
  · intros; rw [Model.parseBlock]; exact PSpecP_fuelErrP
  · intros; rw [Model.parseStatements]; exact PSpecP_fuelErrP
  · intros; rw [Model.parseStatement]; exact PSpecP_fuelErrP
  · intros; rw [Model.parseDotted]; exact PSpecP_fuelErrP
  · intros; rw [Model.parseAttNames]; exact PSpecP_fuelErrP
  · intros; rw [Model.parseIf]; exact PSpecP_fuelErrP
  · intros; rw [Model.parseElseIfs]; exact PSpecP_fuelErrP
  · intros; rw [Model.parseFuncBody]; exact PSpecP_fuelErrP
  · intros; rw [Model.parseNameList]; exact PSpecP_fuelErrP
  · intros; rw [Model.parseNames]; exact PSpecP_fuelErrP
  · intros; rw [Model.parseExpList]; exact PSpecP_fuelErrP
  · intros; rw [Model.parseVarStmt]; exact PSpecP_fuelErrP
  · intros; rw [Model.parseMoreVars]; exact PSpecP_fuelErrP
  · intros; rw [Model.parseExp]; exact PSpecP_fuelErrP
  · intros; rw [Model.parseAtom]; exact PSpecP_fuelErrP
  · intros; rw [Model.parseVar]; exact PSpecP_fuelErrP
  · intros; rw [Model.parseVarTerminal]; exact WP_fuelErrP
  · intros; rw [Model.parseTable]; exact PSpecP_fuelErrP
  · intros; rw [Model.parseFields]; exact PSpecP_fuelErrP
  · intros; rw [Model.parseField]; exact PSpecP_fuelErrP
  · intros; rw [Model.parseArgs]; exact PSpecP_fuelErrP

theorem allP_succ {f : Nat} (ih : AllP f) : AllP (f + 1) where
  parseBlock := parseBlock_p_step ih
  parseStatements := parseStatements_p_step ih
  parseStatement := parseStatement_p_step ih
  parseDotted := parseDotted_p_step ih
  parseAttNames := parseAttNames_p_step ih
  parseIf := parseIf_p_step ih
  parseElseIfs := parseElseIfs_p_step ih
  parseFuncBody := parseFuncBody_p_step ih
  parseNameList := parseNameList_p_step ih
  parseNames := parseNames_p_step ih
  parseExpList := parseExpList_p_step ih
  parseVarStmt := parseVarStmt_p_step ih
  parseMoreVars := parseMoreVars_p_step ih
  parseExp := parseExp_p_step ih
  parseAtom := parseAtom_p_step ih
  parseVar := parseVar_p_step ih
  parseVarTerminal := parseVarTerminal_p_step ih
  parseTable := parseTable_p_step ih
  parseFields := parseFields_p_step ih
  parseField := parseField_p_step ih
  parseArgs := parseArgs_p_step ih

/-- every parse function, at every fuel, keeps the token invariant `StP` and builds a tree satisfying the clauses of
`Printable` -/
theorem allP (f : Nat) : AllP f := by
  induction f with
  | zero => exact allP_zero
  | succ f ih => exact allP_succ ih

/-! ## The chunk and the whole text -/

theorem parseChunk_PSpecP (fuel : Nat) : PSpecP (parseChunk fuel) (fun r => pBlock r = true ∧ r.isChunk = true) := by
  have ih := allP fuel
  intro s hs
  unfold parseChunk
  pp ih
  rename_i h
  exact ⟨by assumption, by rw [pBlock_chunk _ _ _ true]; exact h.1, rfl⟩

/-- the computation run by `parseText` after `initParser` -/
theorem parseText_body_PSpecP (n : Nat) :
    PSpecP (do let b ← parseChunk n; assertTok .EOF; pure b : PM Model.Block)
      (fun r => pBlock r = true ∧ r.isChunk = true) := by
  intro s hs
  refine WP_bind (PSpecP.call (parseChunk_PSpecP n) hs ?_)
  intro b s1 hs1 hb
  refine WP_bind (PSpecP.call (PSpecP_assertTok _) hs1 ?_)
  intro _ s2 hs2 _
  exact WP_pure ⟨hs2, hb⟩

/-- **the tree the parser builds is `Printable`**: the hypothesis of the printer theorems (`print_sim`, `read_sim`) holds
for every tree that comes out of `parse` -/
theorem parseText_printable (src : List Char) (b : Model.Block) (hs : List Hint) (h : parseText src = .ok (b, hs)) :
    Printable b := by
  unfold parseText at h
  split at h
  · cases h
  · next s0 h0 =>
    have hs0 := initParser_StP h0
    split at h
    · cases h
    · next b1 s1 h1 =>
      cases h
      have := (WP_ok (parseText_body_PSpecP _ s0 hs0) h1).2
      exact ⟨this.2, this.1⟩

end Tumfl.Theory
