import Tumfl.Theory.ParseNumsTok
import Tumfl.Theory.ParsePrintable
/-!
# Every numeral of the tree the parser builds prints in the canonical shape

`parseText_numsCanon : parseText src = .ok (b, hs) → NumsCanon (numsBlock b)`.

The same mutual induction over the 21 parse functions as `ParserWF.lean` / `ParsePrintable.lean`, in the same
weakest-precondition calculus (`WP`, error predicate `NoAssert`), with the state invariant `StN` (both buffered tokens
satisfy `TokN`: a `NUMBER` token carries a tuple that prints canonically) and `NumsCanon (nums.. r)` as postconditions.
-/
namespace Tumfl.Theory
open Tumfl.Model Tumfl.Spec

set_option linter.unusedVariables false

/-- the parser-state invariant -/
def StN (s : PSt) : Prop := TokN s.cur ∧ TokN s.nxt

variable {α β : Type}

/-- `m` keeps `StN` and delivers a result satisfying `W` -/
def PSpecN (m : PM α) (W : α → Prop) : Prop := ∀ s, StN s → WP m (fun a s' => StN s' ∧ W a) s

theorem PSpecN.call {m : PM α} {W : α → Prop} {Q : α → PSt → Prop} {s : PSt}
    (h : PSpecN m W) (hs : StN s) (hq : ∀ a s', StN s' → W a → Q a s') : WP m Q s :=
  WP_call (h s hs) (fun a s' hh => hq a s' hh.1 hh.2)

theorem PSpecN_fuelErrP {W : α → Prop} : PSpecN (fuelErrP : PM α) W := fun _ _ => WP_fuelErrP

theorem PSpecN_addHint (wher what : String) : PSpecN (addHint wher what) (fun _ => True) :=
  fun _ hs => ⟨⟨hs, trivial⟩⟩

theorem PSpecN_removeHint : PSpecN removeHint (fun _ => True) := by
  intro s hs
  by_cases h : s.hints.isEmpty = true
  · constructor; simp only [removeHint, h, if_true]; exact NoAssert_index _
  · constructor; simp only [removeHint, h]; exact ⟨hs, trivial⟩

theorem PSpecN_switchHint (what : String) : PSpecN (switchHint what) (fun _ => True) := by
  intro s hs
  cases h : s.hints.getLast? with
  | none => constructor; simp only [switchHint, h]; exact NoAssert_index _
  | some x => constructor; simp only [switchHint, h]; exact ⟨hs, trivial⟩

theorem PSpecN_assertTok (t : TT) : PSpecN (assertTok t) (fun _ => True) := by
  intro s hs
  refine WP_call (WP_assertTok t s) ?_
  rintro _ _ ⟨rfl, _⟩
  exact ⟨hs, trivial⟩

theorem PSpecN_eatRaw : PSpecN eatRaw (fun _ => True) := by
  intro s hs
  constructor
  unfold eatRaw
  cases h : getNextToken s.cfg s.lex with
  | error e => exact NoAssert_lex h
  | ok r =>
    obtain ⟨t, lx⟩ := r
    exact ⟨⟨hs.2, getNextToken_tokN h⟩, trivial⟩

theorem PSpecN_eat (t : Option TT) : PSpecN (eat t) (fun _ => True) := by
  intro s hs
  unfold eat
  cases t with
  | none => exact PSpecN_eatRaw s hs
  | some ty =>
    refine WP_bind (WP_call (PSpecN_assertTok ty s hs) ?_)
    intro _ s' h
    exact PSpecN_eatRaw s' h.1

/-! ## `NumsCanon` and the numeral lists -/

@[simp] theorem numsCanon_append (a b : List NumTuple) : NumsCanon (a ++ b) ↔ NumsCanon a ∧ NumsCanon b :=
  ⟨fun h => ⟨h.left, h.right⟩, fun h t ht => by
    rcases List.mem_append.1 ht with h1 | h1
    · exact h.1 t h1
    · exact h.2 t h1⟩

@[simp] theorem numsCanon_nil' : NumsCanon [] ↔ True := ⟨fun _ => trivial, fun _ => numsCanon_nil⟩

theorem numsCanon_single (n : NumTuple) : NumsCanon [n] ↔ CanonNumeral (numberStr n) :=
  ⟨fun h => h n (List.mem_singleton.2 rfl), fun h t ht => by rw [List.mem_singleton.1 ht]; exact h⟩

@[simp] theorem numsBlock_extendComment (b : Model.Block) (c : List (List Char)) :
    numsBlock (b.extendComment c) = numsBlock b := by
  cases b with
  | mk t ss rs ch => cases rs <;> simp only [Block.extendComment, numsBlock]

theorem numsBlock_chunk (t : Token) (ss : List Stmt) (rs : Option (List Expr)) (c c' : Bool) :
    numsBlock (.mk t ss rs c) = numsBlock (.mk t ss rs c') := by
  cases rs <;> simp only [numsBlock]

theorem numsArgs_append (a b : List Expr) : numsArgs (a ++ b) = numsArgs a ++ numsArgs b := by
  induction a with
  | nil => simp [numsArgs]
  | cons x xs ih => simp [numsArgs, ih]

/-- the `elseif` branches collected by `parseElseIfs` -/
def numsElifs : List (Token × Expr × Model.Block) → List NumTuple
  | [] => []
  | x :: rest => numsExpr x.2.1 ++ numsBlock x.2.2 ++ numsElifs rest

@[simp] theorem numsCanon_foldr (c : List (List Char)) (tail : IfFalse) :
    ∀ (elifs : List (Token × Expr × Model.Block)),
      NumsCanon (numsFalse (elifs.foldr (fun (x : Token × Expr × Model.Block) acc =>
          .elif x.1 x.2.1 (x.2.2.extendComment c) acc) tail))
        ↔ (NumsCanon (numsElifs elifs) ∧ NumsCanon (numsFalse tail))
  | [] => by simp [numsElifs]
  | x :: rest => by
    simp only [List.foldr_cons, numsFalse, numsElifs, numsBlock_extendComment, numsCanon_append,
      numsCanon_foldr c tail rest, and_assoc]

/-- `__eat_name` yields a `Name` node: no numeral -/
theorem PSpecN_eatName : PSpecN eatName (fun r => NumsCanon (numsExpr r)) := by
  intro s hs
  unfold eatName
  refine WP_bind (WP_curTok ?_)
  unfold eat
  refine WP_bind (WP_bind (WP_call (WP_assertTok .NAME s) ?_))
  rintro _ s1 ⟨rfl, hty⟩
  refine WP_call (PSpecN_eatRaw _ hs) ?_
  intro _ s' h
  exact WP_pure ⟨h.1, by simp [numsExpr]⟩

theorem initParser_StN {cfg : LexCfg} {text : List Char} {s0 : PSt} (h : initParser cfg text = .ok s0) : StN s0 := by
  unfold initParser at h
  split at h
  · cases h
  · next t1 l1 h1 =>
    split at h
    · cases h
    · next t2 l2 h2 =>
      cases h
      exact ⟨getNextToken_tokN h1, getNextToken_tokN h2⟩

/-! ## the contracts of all parse functions at fuel `f` -/

structure AllNum (f : Nat) : Prop where
  parseBlock : ∀ (tok : Token) (b : Bool), PSpecN (Model.parseBlock f tok b) (fun r => NumsCanon (numsBlock r))
  parseStatements : PSpecN (Model.parseStatements f) (fun r => NumsCanon (numsStmts r))
  parseStatement : PSpecN (Model.parseStatement f) (fun r => NumsCanon (numsStmt r))
  parseDotted : PSpecN (Model.parseDotted f) (fun r => NumsCanon (numsArgs r))
  parseAttNames : PSpecN (Model.parseAttNames f) (fun _ => True)
  parseIf : PSpecN (Model.parseIf f) (fun r => NumsCanon (numsStmt r))
  parseElseIfs : PSpecN (Model.parseElseIfs f) (fun r => NumsCanon (numsElifs r))
  parseFuncBody : ∀ (tok : Token), PSpecN (Model.parseFuncBody f tok)
    (fun r => NumsCanon (numsArgs r.1) ∧ NumsCanon (numsBlock r.2))
  parseNameList : ∀ (first : Option Expr) (lv : Bool), (∀ n, first = some n → NumsCanon (numsExpr n)) →
    PSpecN (Model.parseNameList f first lv) (fun r => NumsCanon (numsArgs r))
  parseNames : ∀ (lv : Bool), PSpecN (Model.parseNames f lv) (fun r => NumsCanon (numsArgs r))
  parseExpList : PSpecN (Model.parseExpList f) (fun r => NumsCanon (numsArgs r))
  parseVarStmt : PSpecN (Model.parseVarStmt f) (fun r => NumsCanon (numsStmt r))
  parseMoreVars : PSpecN (Model.parseMoreVars f) (fun r => NumsCanon (numsArgs r))
  parseExp : PSpecN (Model.parseExp f) (fun r => NumsCanon (numsExpr r))
  parseAtom : PSpecN (Model.parseAtom f) (fun r => NumsCanon (numsExpr r))
  parseVar : ∀ (b : Bool), PSpecN (Model.parseVar f b) (fun r => NumsCanon (numsExpr r))
  /-- `_parse_var_terminal` must be entered on a token that starts a suffix -/
  parseVarTerminal : ∀ (base : Expr) (s : PSt), StN s → NumsCanon (numsExpr base) →
    suffixStarts.contains s.cur.type = true →
    WP (Model.parseVarTerminal f base) (fun r s' => StN s' ∧ NumsCanon (numsExpr r)) s
  parseTable : PSpecN (Model.parseTable f) (fun r => NumsCanon (numsExpr r))
  parseFields : PSpecN (Model.parseFields f) (fun r => NumsCanon (numsFields r))
  parseField : PSpecN (Model.parseField f) (fun r => NumsCanon (numsField r))
  parseArgs : PSpecN (Model.parseArgs f) (fun r => NumsCanon (numsArgs r))

/-- a call of a function with a `PSpecN` -/
syntax "nn_spec " term : tactic
macro_rules
  | `(tactic| nn_spec $t) => `(tactic| (apply PSpecN.call $t; assumption; intro _ _ _ _))

/-- one syntax-directed step -/
syntax "nn_step " ident : tactic
macro_rules
  | `(tactic| nn_step $ih) => `(tactic| (guard_wp; with_reducible first
    | apply WP_pure
    | apply WP_curTok
    | apply WP_nxtTok
    | apply WP_curIs
    | apply WP_perror
    | nn_spec (PSpecN_eat _)
    | nn_spec PSpecN_eatName
    | nn_spec (PSpecN_assertTok _)
    | nn_spec (PSpecN_addHint _ _)
    | nn_spec PSpecN_removeHint
    | nn_spec (PSpecN_switchHint _)
    | nn_spec (($ih).parseBlock _ _)
    | nn_spec ($ih).parseStatements
    | nn_spec ($ih).parseStatement
    | nn_spec ($ih).parseDotted
    | nn_spec ($ih).parseAttNames
    | nn_spec ($ih).parseIf
    | nn_spec ($ih).parseElseIfs
    | nn_spec (($ih).parseFuncBody _)
    | (show WP (Model.parseNameList _ _ _) _ _; refine PSpecN.call (($ih).parseNameList _ _ (by simp [*])) (by assumption) ?_; intro _ _ _ _)
    | nn_spec (($ih).parseNames _)
    | nn_spec ($ih).parseExpList
    | nn_spec ($ih).parseVarStmt
    | nn_spec ($ih).parseMoreVars
    | nn_spec ($ih).parseExp
    | nn_spec ($ih).parseAtom
    | nn_spec (($ih).parseVar _)
    | (show WP (Model.parseVarTerminal _ _) _ _; refine WP_call (($ih).parseVarTerminal _ _ (by assumption) (by simp [numsExpr, numsArgs, *]) (Cond.elim (by assumption))) ?_; rintro _ _ ⟨_, _⟩)
    | nn_spec ($ih).parseTable
    | nn_spec ($ih).parseFields
    | nn_spec ($ih).parseField
    | nn_spec ($ih).parseArgs
    | apply WP_bind
    | apply WP_map
    | (apply WP_ite' <;> intro _)
    | split))
macro "nn " ih:ident : tactic => `(tactic| repeat' nn_step $ih)

theorem tokN_num {t : Token} {n : NumTuple} (h : TokN t) (hty : t.type = .NUMBER) (hv : t.value = .num n) :
    CanonNumeral (numberStr n) := by
  obtain ⟨m, hm, hok⟩ := h hty
  rw [hv] at hm
  cases hm
  exact hok

theorem tokN_num_str {t : Token} {x : List Char} (h : TokN t) (hty : t.type = .NUMBER) (hv : t.value = .str x) : False := by
  obtain ⟨m, hm, _⟩ := h hty
  rw [hv] at hm
  cases hm

/-- close the final goals `StN s ∧ NumsCanon (nums.. ) ` -/
macro "n_fin" : tactic => `(tactic| first
  | (simp [numsBlock, numsStmts, numsStmt, numsExpr, numsArgs, numsFields, numsField, numsFalse, numsElifs, numsArgs_append, *]; done)
  | (simp_all [numsBlock, numsStmts, numsStmt, numsExpr, numsArgs, numsFields, numsField, numsFalse, numsElifs, numsArgs_append]; done))

theorem parseBlock_n_step {f : Nat} (ih : AllNum f) (tok : Token) (b : Bool) :
    PSpecN (Model.parseBlock (f + 1) tok b) (fun r => NumsCanon (numsBlock r)) := by
  intro s hs
  rw [Model.parseBlock]
  nn ih
  all_goals n_fin

theorem parseStatements_n_step {f : Nat} (ih : AllNum f)  :
    PSpecN (Model.parseStatements (f + 1) ) (fun r => NumsCanon (numsStmts r)) := by
  intro s hs
  rw [Model.parseStatements]
  nn ih
  all_goals n_fin

theorem parseStatement_n_step {f : Nat} (ih : AllNum f)  :
    PSpecN (Model.parseStatement (f + 1) ) (fun r => NumsCanon (numsStmt r)) := by
  intro s hs
  rw [Model.parseStatement]
  nn ih
  all_goals n_fin

theorem parseDotted_n_step {f : Nat} (ih : AllNum f)  :
    PSpecN (Model.parseDotted (f + 1) ) (fun r => NumsCanon (numsArgs r)) := by
  intro s hs
  rw [Model.parseDotted]
  nn ih
  all_goals n_fin

theorem parseAttNames_n_step {f : Nat} (ih : AllNum f)  :
    PSpecN (Model.parseAttNames (f + 1) ) (fun _ => True) := by
  intro s hs
  rw [Model.parseAttNames]
  nn ih
  all_goals n_fin

theorem parseIf_n_step {f : Nat} (ih : AllNum f)  :
    PSpecN (Model.parseIf (f + 1) ) (fun r => NumsCanon (numsStmt r)) := by
  intro s hs
  rw [Model.parseIf]
  nn ih
  all_goals n_fin

theorem parseElseIfs_n_step {f : Nat} (ih : AllNum f)  :
    PSpecN (Model.parseElseIfs (f + 1) ) (fun r => NumsCanon (numsElifs r)) := by
  intro s hs
  rw [Model.parseElseIfs]
  nn ih
  all_goals n_fin

theorem parseFuncBody_n_step {f : Nat} (ih : AllNum f) (tok : Token) :
    PSpecN (Model.parseFuncBody (f + 1) tok) (fun r => NumsCanon (numsArgs r.1) ∧ NumsCanon (numsBlock r.2)) := by
  intro s hs
  rw [Model.parseFuncBody]
  nn ih
  all_goals n_fin

theorem parseNames_n_step {f : Nat} (ih : AllNum f) (lv : Bool) :
    PSpecN (Model.parseNames (f + 1) lv) (fun r => NumsCanon (numsArgs r)) := by
  intro s hs
  rw [Model.parseNames]
  nn ih
  all_goals n_fin

theorem parseExpList_n_step {f : Nat} (ih : AllNum f)  :
    PSpecN (Model.parseExpList (f + 1) ) (fun r => NumsCanon (numsArgs r)) := by
  intro s hs
  rw [Model.parseExpList]
  nn ih
  all_goals n_fin

theorem parseVarStmt_n_step {f : Nat} (ih : AllNum f)  :
    PSpecN (Model.parseVarStmt (f + 1) ) (fun r => NumsCanon (numsStmt r)) := by
  intro s hs
  rw [Model.parseVarStmt]
  nn ih
  all_goals n_fin

theorem parseMoreVars_n_step {f : Nat} (ih : AllNum f)  :
    PSpecN (Model.parseMoreVars (f + 1) ) (fun r => NumsCanon (numsArgs r)) := by
  intro s hs
  rw [Model.parseMoreVars]
  nn ih
  all_goals n_fin

theorem parseVar_n_step {f : Nat} (ih : AllNum f) (b : Bool) :
    PSpecN (Model.parseVar (f + 1) b) (fun r => NumsCanon (numsExpr r)) := by
  intro s hs
  rw [Model.parseVar]
  nn ih
  all_goals n_fin

theorem parseTable_n_step {f : Nat} (ih : AllNum f)  :
    PSpecN (Model.parseTable (f + 1) ) (fun r => NumsCanon (numsExpr r)) := by
  intro s hs
  rw [Model.parseTable]
  nn ih
  all_goals n_fin

theorem parseFields_n_step {f : Nat} (ih : AllNum f)  :
    PSpecN (Model.parseFields (f + 1) ) (fun r => NumsCanon (numsFields r)) := by
  intro s hs
  rw [Model.parseFields]
  nn ih
  all_goals n_fin

theorem parseField_n_step {f : Nat} (ih : AllNum f)  :
    PSpecN (Model.parseField (f + 1) ) (fun r => NumsCanon (numsField r)) := by
  intro s hs
  rw [Model.parseField]
  nn ih
  all_goals n_fin

theorem parseArgs_n_step {f : Nat} (ih : AllNum f)  :
    PSpecN (Model.parseArgs (f + 1) ) (fun r => NumsCanon (numsArgs r)) := by
  intro s hs
  rw [Model.parseArgs]
  nn ih
  all_goals n_fin

theorem parseAtom_n_step {f : Nat} (ih : AllNum f) :
    PSpecN (Model.parseAtom (f + 1)) (fun r => NumsCanon (numsExpr r)) := by
  intro s hs
  rw [Model.parseAtom]
  nn ih
  all_goals first
    | n_fin
    | exact ⟨by assumption, by simp only [numsExpr]; exact (numsCanon_single _).2 (tokN_num hs.1 ‹_› ‹_›)⟩
    | exact (tokN_num_str hs.1 ‹_› ‹_›).elim

theorem parseNameList_n_step {f : Nat} (ih : AllNum f) (first : Option Expr) (lv : Bool)
    (hfirst : ∀ n, first = some n → NumsCanon (numsExpr n)) :
    PSpecN (Model.parseNameList (f + 1) first lv) (fun r => NumsCanon (numsArgs r)) := by
  intro s hs
  cases first with
  | none =>
    rw [Model.parseNameList]
    nn ih
    all_goals n_fin
  | some n =>
    have hn := hfirst n rfl
    rw [Model.parseNameList]
    nn ih
    all_goals n_fin

theorem parseVarTerminal_n_step {f : Nat} (ih : AllNum f) (base : Expr) (s : PSt) (hs : StN s)
    (hb : NumsCanon (numsExpr base)) (hsuf : suffixStarts.contains s.cur.type = true) :
    WP (Model.parseVarTerminal (f + 1) base) (fun r s' => StN s' ∧ NumsCanon (numsExpr r)) s := by
  rw [Model.parseVarTerminal]
  nn ih
  all_goals first
    | n_fin
    | (exfalso; simp_all [suffixStarts])

/-! ### the expression ladder -/

theorem keepsEat_modelSig_N (atom : PM Expr) : KeepsEat StN NoAssert (modelSig atom).eat := by
  intro s hs
  have h := (PSpecN_eatRaw s hs).run
  simp only [modelSig]
  cases he : eatRaw s with
  | error e => rw [he] at h; exact h
  | ok r => obtain ⟨a, s1⟩ := r; rw [he] at h; exact h.1

theorem keepsW_of_PSpecN {α : Type} {m : PM α} {W : α → Prop} (h : PSpecN m W) : KeepsW StN W NoAssert m := by
  intro s hs
  have h1 := (h s hs).run
  unfold ResW
  cases hm : m s with
  | error e => rw [hm] at h1; exact h1
  | ok r => obtain ⟨a, s1⟩ := r; rw [hm] at h1; exact h1

theorem PSpecN_of_keepsW {α : Type} {m : PM α} {W : α → Prop} (h : KeepsW StN W NoAssert m) : PSpecN m W := by
  intro s hs
  have h1 := h s hs
  unfold ResW at h1
  constructor
  cases hm : m s with
  | error e => rw [hm] at h1; exact h1
  | ok r => obtain ⟨a, s1⟩ := r; rw [hm] at h1; exact h1

theorem parseExp_n_step {f : Nat} (ih : AllNum f) : PSpecN (Model.parseExp (f + 1)) (fun r => NumsCanon (numsExpr r)) := by
  rw [Model.parseExp]
  apply PSpecN_of_keepsW
  apply ladderExp_keepsW
  · exact NoAssert_fuel
  · exact keepsEat_modelSig_N _
  · intro t o l r hl hr
    simp only [modelSig, numsExpr, numsCanon_append]
    exact ⟨hl, hr⟩
  · intro t u e he
    simp only [modelSig, numsExpr]
    exact he
  · exact keepsW_of_PSpecN ih.parseAtom

/-! ### the induction -/

theorem allNum_zero : AllNum 0 := by
  constructor
  · intros; rw [Model.parseBlock]; exact PSpecN_fuelErrP
  · intros; rw [Model.parseStatements]; exact PSpecN_fuelErrP
  · intros; rw [Model.parseStatement]; exact PSpecN_fuelErrP
  · intros; rw [Model.parseDotted]; exact PSpecN_fuelErrP
  · intros; rw [Model.parseAttNames]; exact PSpecN_fuelErrP
  · intros; rw [Model.parseIf]; exact PSpecN_fuelErrP
  · intros; rw [Model.parseElseIfs]; exact PSpecN_fuelErrP
  · intros; rw [Model.parseFuncBody]; exact PSpecN_fuelErrP
  · intros; rw [Model.parseNameList]; exact PSpecN_fuelErrP
  · intros; rw [Model.parseNames]; exact PSpecN_fuelErrP
  · intros; rw [Model.parseExpList]; exact PSpecN_fuelErrP
  · intros; rw [Model.parseVarStmt]; exact PSpecN_fuelErrP
  · intros; rw [Model.parseMoreVars]; exact PSpecN_fuelErrP
  · intros; rw [Model.parseExp]; exact PSpecN_fuelErrP
  · intros; rw [Model.parseAtom]; exact PSpecN_fuelErrP
  · intros; rw [Model.parseVar]; exact PSpecN_fuelErrP
  · intros; rw [Model.parseVarTerminal]; exact WP_fuelErrP
  · intros; rw [Model.parseTable]; exact PSpecN_fuelErrP
  · intros; rw [Model.parseFields]; exact PSpecN_fuelErrP
  · intros; rw [Model.parseField]; exact PSpecN_fuelErrP
  · intros; rw [Model.parseArgs]; exact PSpecN_fuelErrP

theorem allNum_succ {f : Nat} (ih : AllNum f) : AllNum (f + 1) where
  parseBlock := parseBlock_n_step ih
  parseStatements := parseStatements_n_step ih
  parseStatement := parseStatement_n_step ih
  parseDotted := parseDotted_n_step ih
  parseAttNames := parseAttNames_n_step ih
  parseIf := parseIf_n_step ih
  parseElseIfs := parseElseIfs_n_step ih
  parseFuncBody := parseFuncBody_n_step ih
  parseNameList := parseNameList_n_step ih
  parseNames := parseNames_n_step ih
  parseExpList := parseExpList_n_step ih
  parseVarStmt := parseVarStmt_n_step ih
  parseMoreVars := parseMoreVars_n_step ih
  parseExp := parseExp_n_step ih
  parseAtom := parseAtom_n_step ih
  parseVar := parseVar_n_step ih
  parseVarTerminal := parseVarTerminal_n_step ih
  parseTable := parseTable_n_step ih
  parseFields := parseFields_n_step ih
  parseField := parseField_n_step ih
  parseArgs := parseArgs_n_step ih

/-- every parse function, at every fuel, keeps the token invariant `StN` and builds a tree whose numerals print in the
canonical shape -/
theorem allNum (f : Nat) : AllNum f := by
  induction f with
  | zero => exact allNum_zero
  | succ f ih => exact allNum_succ ih

/-! ## The chunk and the whole text -/

theorem parseChunk_PSpecN (fuel : Nat) : PSpecN (parseChunk fuel) (fun r => NumsCanon (numsBlock r)) := by
  have ih := allNum fuel
  intro s hs
  unfold parseChunk
  nn ih
  rename_i h
  exact ⟨by assumption, by show NumsCanon (numsBlock _); rw [numsBlock_chunk _ _ _ true]; exact h⟩

/-- the computation run by `parseText` after `initParser` -/
theorem parseText_body_PSpecN (n : Nat) :
    PSpecN (do let b ← parseChunk n; assertTok .EOF; pure b : PM Model.Block) (fun r => NumsCanon (numsBlock r)) := by
  intro s hs
  refine WP_bind (PSpecN.call (parseChunk_PSpecN n) hs ?_)
  intro b s1 hs1 hb
  refine WP_bind (PSpecN.call (PSpecN_assertTok _) hs1 ?_)
  intro _ s2 hs2 _
  exact WP_pure ⟨hs2, hb⟩

/-- **every numeral of the tree the parser builds prints in the canonical shape** -/
theorem parseText_numsCanon (src : List Char) (b : Model.Block) (hs : List Hint) (h : parseText src = .ok (b, hs)) :
    NumsCanon (numsBlock b) := by
  unfold parseText at h
  split at h
  · cases h
  · next s0 h0 =>
    have hs0 := initParser_StN h0
    split at h
    · cases h
    · next b1 s1 h1 =>
      cases h
      exact (WP_ok (parseText_body_PSpecN _ s0 hs0) h1).2

end Tumfl.Theory

