import Tumfl.Theory.ReadSimTok
/-!
# Expressions, for every reading: properties, operands, operators, atoms, variable-like expressions

Fuel is measured in tokens: `4 * (number of tokens of the construct)` (+ a small constant) always suffices.
-/
namespace Tumfl.Theory
open Tumfl.Model Tumfl.Spec

variable {sty : Style}

def HeadE (ks : List Spec.Tok) : Prop := ∃ k tks, ks = mkTok k :: tks ∧ exprStartTk k = true
def HeadV (ks : List Spec.Tok) : Prop := ∃ k tks, ks = mkTok k :: tks ∧ (k = .sym "(" ∨ ∃ n, k = .name n)

theorem HeadV.headE {ks : List Spec.Tok} (h : HeadV ks) : HeadE ks := by
  obtain ⟨k, tks, rfl, hk⟩ := h
  exact ⟨k, tks, rfl, exprStart_of_var hk⟩

theorem HeadE.pos {ks : List Spec.Tok} (h : HeadE ks) : 1 ≤ ks.length := by
  obtain ⟨k, tks, rfl, _⟩ := h; simp

theorem HeadE.append {ks : List Spec.Tok} (h : HeadE ks) (r : List Spec.Tok) : HeadE (ks ++ r) := by
  obtain ⟨k, tks, rfl, hk⟩ := h; exact ⟨k, tks ++ r, rfl, hk⟩

theorem HeadV.append {ks : List Spec.Tok} (h : HeadV ks) (r : List Spec.Tok) : HeadV (ks ++ r) := by
  obtain ⟨k, tks, rfl, hk⟩ := h; exact ⟨k, tks ++ r, rfl, hk⟩

def isCallE : Expr → Bool
  | .call _ _ _ | .method _ _ _ _ => true
  | _ => false

/-- `climb` on the tokens `ks` parses the tree `c` and goes on with the operator loop -/
def EBody (sty : Style) (e : Expr) (ks : List Spec.Tok) (c : Exp) : Prop :=
  ∀ g F limit rest, 4 * ks.length ≤ g → 4 * ks.length ≤ F → limit < lowM e → sfx (pk rest) = false →
    hdLp rest ≤ capM sty e →
    ∃ F', F ≤ F' + 4 * ks.length ∧ climb (SS g) F limit (ks ++ rest) = climbLoop (SS g) F' limit c rest

def EPropR (sty : Style) (e : Expr) : Prop :=
  AllRd (visitExpr sty e) fun ks => HeadE ks ∧ ∃ c, ExpRel (dsExpr e) (deExp c) ∧ EBody sty e ks c

/-- `suffixedexp` on the tokens `ks` parses `c` and goes on with the suffix loop -/
def PBody (ks : List Spec.Tok) (c : Exp) : Prop :=
  ∀ F rest, 4 * ks.length ≤ F + 2 →
    ∃ F', F + 2 ≤ F' + 4 * ks.length ∧ suffixedexp F (ks ++ rest) = suffixes F' c rest

def PPropR (sty : Style) (e : Expr) : Prop :=
  AllRd (visitExpr sty e) fun ks => HeadV ks ∧ ∃ c, ExpRel (dsExpr e) (deExp c) ∧
    (isTargetShape e = true → isVar c = true) ∧ (isCallE e = true → isCall c = true) ∧ PBody ks c

def FieldsPropR (sty : Style) (fs : List Model.Field) : Prop :=
  AllRd (visitFields sty fs) fun ks => ∃ cs, Forall₂ FieldRel (dsFields fs) (deFields cs) ∧
    ∀ F rest, 4 * ks.length + 2 ≤ F → fields F (ks ++ mkTok (.sym "}") :: rest) = .ok (cs, rest)

/-- a nested block with the separator `s` in front of it, up to a block end -/
def BlockPropR (sty : Style) (b : Model.Block) : Prop :=
  AllRd (bodyPieces sty b.stmts b.rets) fun ks => ∃ mk : List Spec.Tok → Spec.Block,
    (∀ s, SemiOpt s → BlockRel (dsBlock b) (deBlock (mk s))) ∧
    ∀ s, SemiOpt s → ∀ F rest, 4 * (s.length + ks.length) + 2 ≤ F → blockFollow true (pk rest) = true →
      block F (s ++ (ks ++ rest)) = .ok (mk s, rest)

structure XPropR (sty : Style) (e : Expr) : Prop where
  E : EPropR sty e
  P : isVarLike e = true → PPropR sty e
  Tb : ∀ t fs, e = .table t fs → FieldsPropR sty fs

/-! ## glue -/

theorem expr_of_EBody {e : Expr} {ks : List Spec.Tok} {c : Exp} (h : EBody sty e ks c) (F : Nat) (rest : List Spec.Tok)
    (hF : 4 * ks.length + 1 ≤ F) (hs : sfx (pk rest) = false) (hl : hdLp rest = 0) :
    expr F (ks ++ rest) = .ok (c, rest) := by
  obtain ⟨f, rfl⟩ : ∃ f, F = f + 1 := ⟨F - 1, by omega⟩
  rw [ps_expr_succ]
  obtain ⟨F', hF', hh⟩ := h f (f + 1) 0 rest (by omega) (by omega) (lowM_pos e) hs (by omega)
  rw [hh]
  obtain ⟨F'', rfl⟩ : ∃ f, F' = f + 1 := ⟨F' - 1, by omega⟩
  exact climbLoop_stop _ _ _ _ _ (by omega)

/-- the tokens of an operand, parenthesised or not -/
def wrapToks (b : Bool) (ks : List Spec.Tok) : List Spec.Tok :=
  if b then mkTok (.sym "(") :: (ks ++ [mkTok (.sym ")")]) else ks

theorem wrapToks_length (b : Bool) (ks : List Spec.Tok) : (wrapToks b ks).length = ks.length + (if b then 2 else 0) := by
  cases b <;> simp [wrapToks]

theorem AllRd_wrapIf {b : Bool} {ps : Pieces} {K : List Spec.Tok → Prop} :
    AllRd (if b = true then wrapParens ps else ps) K ↔ AllRd ps fun t => K (wrapToks b t) := by
  cases b <;> simp [wrapToks]

theorem HeadE_wrap {b : Bool} {ks : List Spec.Tok} (h : HeadE ks) : HeadE (wrapToks b ks) := by
  cases b
  · exact h
  · exact ⟨_, _, rfl, rfl⟩

theorem wrap_stepR {e : Expr} {ks : List Spec.Tok} {c : Exp} (he : EBody sty e ks c) (b : Bool) (g F limit : Nat)
    (rest : List Spec.Tok) (hg : 4 * (wrapToks b ks).length ≤ g) (hF : 4 * (wrapToks b ks).length ≤ F)
    (hb : b = false → limit < lowM e ∧ hdLp rest ≤ capM sty e) (hs : sfx (pk rest) = false) :
    ∃ F', F ≤ F' + 4 * (wrapToks b ks).length ∧
      climb (SS g) F limit (wrapToks b ks ++ rest) = climbLoop (SS g) F' limit (wrapP b c) rest := by
  cases b with
  | false =>
    obtain ⟨h1, h2⟩ := hb rfl
    simp only [wrapToks, Bool.false_eq_true, if_false, wrapP] at hg hF ⊢
    exact he g F limit rest hg hF h1 hs h2
  | true =>
    simp only [wrapToks, if_true, wrapP, List.length_cons, List.length_append, List.length_nil] at hg hF ⊢
    obtain ⟨g, rfl⟩ : ∃ g', g = g' + 3 := ⟨g - 3, by omega⟩
    obtain ⟨F, rfl⟩ : ∃ F', F = F' + 1 := ⟨F - 1, by omega⟩
    refine ⟨F, by omega, ?_⟩
    have hin := expr_of_EBody he (g + 1) (mkTok (.sym ")") :: rest) (by omega) (by simp [sfx]) (by simp [hdLp, binOfTk])
    simp only [List.cons_append, List.append_assoc, List.nil_append]
    exact climb_simple _ _ _ _ _ _ (by simp [unOfTk]) (simpleexp_paren g _ rest _ hin hs)

/-! ## operators -/

theorem binop_stepR {t : Token} {o : BOp} {l r : Expr} (hl : EPropR sty l) (hr : EPropR sty r) :
    EPropR sty (.binop t o l r) := by
  unfold EPropR
  simp only [visitExpr, AllRd_append, AllRd_wrapIf, AllRd_space, AllRd_bop, AllRd_nil]
  intro kl hkl kr hkr
  obtain ⟨hdl, cl, rl, bl⟩ := hl kl hkl
  obtain ⟨hdr, cr, rr, br⟩ := hr kr hkr
  refine ⟨((HeadE_wrap hdl).append _).append _, .bin o (wrapP (needBin sty.brOpts o true l.kind) cl)
    (wrapP (needBin sty.brOpts o false r.kind) cr), ?_, ?_⟩
  · simp only [dsExpr, deExp, deExp_wrapP]
    exact .bin t o (ExpRel_wrapP _ rl) (ExpRel_wrapP _ rr)
  · intro g F limit rest hg hF hlim hs hcap
    simp only [List.length_append, List.length_cons, List.length_nil] at hg hF ⊢
    simp only [lowM] at hlim
    simp only [capM] at hcap
    have tf := table_facts o
    have p1 := hdl.pos
    have p2 := hdr.pos
    have w1 := wrapToks_length (needBin sty.brOpts o true l.kind) kl
    have w2 := wrapToks_length (needBin sty.brOpts o false r.kind) kr
    obtain ⟨F1, hF1, h1⟩ := wrap_stepR bl (needBin sty.brOpts o true l.kind) g F limit
      (mkTok (bopTk o) :: (wrapToks (needBin sty.brOpts o false r.kind) kr ++ rest)) (by omega) (by omega)
      (by intro hn; rw [hdLp_bop]; have := left_ok (sty := sty) hn; omega) (by simp [sfx_bop])
    obtain ⟨F1, rfl⟩ : ∃ f, F1 = f + 1 := ⟨F1 - 1, by omega⟩
    obtain ⟨F2, hF2, h2⟩ := wrap_stepR br (needBin sty.brOpts o false r.kind) g F1 (rp o) rest (by omega) (by omega)
      (by
        intro hn
        rw [hn] at hcap
        simp only [Bool.false_eq_true, if_false] at hcap
        exact ⟨right_ok hn, by omega⟩) hs
    obtain ⟨F2, rfl⟩ : ∃ f, F2 = f + 1 := ⟨F2 - 1, by omega⟩
    rw [climbLoop_stop _ _ _ _ _ (by omega)] at h2
    refine ⟨F1, by omega, ?_⟩
    simp only [List.append_assoc, List.cons_append, List.nil_append]
    rw [h1]
    exact climbLoop_step g F1 limit _ o _ _ _ hlim h2

theorem AllRd_unGap {u : UOp} {x : Expr} {ps : Pieces} {K : List Spec.Tok → Prop} :
    AllRd (if needUn sty.brOpts u x.kind = true then wrapParens ps
      else if unSpace sty.brOpts u x.kind = true then S .space :: ps else ps) K ↔
    AllRd ps fun t => K (wrapToks (needUn sty.brOpts u x.kind) t) := by
  by_cases h1 : needUn sty.brOpts u x.kind = true
  · simp [h1, wrapToks]
  · by_cases h3 : unSpace sty.brOpts u x.kind = true <;> simp [h1, h3, wrapToks]

theorem unop_stepR {t : Token} {u : UOp} {x : Expr} (hx : EPropR sty x) : EPropR sty (.unop t u x) := by
  unfold EPropR
  simp only [visitExpr, AllRd_uop, AllRd_unGap]
  intro kx hkx
  obtain ⟨hdx, cx, rx, bx⟩ := hx kx hkx
  refine ⟨⟨_, _, rfl, exprStart_uop u⟩, .un u (wrapP (needUn sty.brOpts u x.kind) cx), ?_, ?_⟩
  · simp only [dsExpr, deExp, deExp_wrapP]
    exact .un t u (ExpRel_wrapP _ rx)
  · intro g F limit rest hg hF _ hs hcap
    simp only [List.length_cons] at hg hF ⊢
    simp only [capM] at hcap
    have p1 := hdx.pos
    have w1 := wrapToks_length (needUn sty.brOpts u x.kind) kx
    obtain ⟨F, rfl⟩ : ∃ f, F = f + 1 := ⟨F - 1, by omega⟩
    obtain ⟨F2, hF2, h2⟩ := wrap_stepR bx (needUn sty.brOpts u x.kind) g F UPRI rest (by omega) (by omega)
      (by
        intro hn
        rw [hn] at hcap
        simp only [Bool.false_eq_true, if_false] at hcap
        exact ⟨un_ok hn, by omega⟩) hs
    obtain ⟨F2, rfl⟩ : ∃ f, F2 = f + 1 := ⟨F2 - 1, by omega⟩
    rw [climbLoop_stop _ _ _ _ _ (by omega)] at h2
    refine ⟨F, by omega, ?_⟩
    rw [List.cons_append]
    exact climb_un g F limit u _ _ _ h2

/-! ## atoms -/

theorem atom_ER {e : Expr} {k : Tk} {c : Exp} (htk : ∀ K, AllRd (visitExpr sty e) K ↔ K [mkTok k])
    (hst : exprStartTk k = true) (hrel : ExpRel (dsExpr e) (deExp c)) (hu : unOfTk k = none)
    (hsimple : ∀ g rest, simpleexp (g + 1) (mkTok k :: rest) = .ok (c, rest)) : EPropR sty e := by
  unfold EPropR
  rw [htk]
  refine ⟨⟨_, _, rfl, hst⟩, c, hrel, ?_⟩
  intro g F limit rest hg hF _ _ _
  simp only [List.length_cons, List.length_nil] at hg hF ⊢
  obtain ⟨g, rfl⟩ : ∃ f, g = f + 1 := ⟨g - 1, by omega⟩
  obtain ⟨F, rfl⟩ : ∃ f, F = f + 1 := ⟨F - 1, by omega⟩
  exact ⟨F, by omega, climb_simple _ _ _ _ _ _ (by simpa using hu) (hsimple g rest)⟩

theorem nil_ER (t : Token) : EPropR sty (.nil t) :=
  atom_ER (k := .kw "nil") (c := .nil) (by intro K; simp [visitExpr, AllRd_nil]) rfl (by simp only [dsExpr, deExp]; exact .nil t)
    rfl (by intro g rest; rw [simpleexp]; simp)

theorem bool_ER (t : Token) (v : Bool) : EPropR sty (.bool t v) := by
  cases v
  · exact atom_ER (k := .kw "false") (c := .fls) (by intro K; simp [visitExpr, AllRd_nil]) rfl
      (by simp only [dsExpr, deExp]; exact .fls t) rfl (by intro g rest; rw [simpleexp]; simp)
  · exact atom_ER (k := .kw "true") (c := .tru) (by intro K; simp [visitExpr, AllRd_nil]) rfl
      (by simp only [dsExpr, deExp]; exact .tru t) rfl (by intro g rest; rw [simpleexp]; simp)

theorem vararg_ER (t : Token) : EPropR sty (.vararg t) :=
  atom_ER (k := .sym "...") (c := .vararg) (by intro K; simp [visitExpr, AllRd_nil]) rfl
    (by simp only [dsExpr, deExp]; exact .vararg t) rfl (by intro g rest; rw [simpleexp]; simp)

theorem number_ER (t : Token) (n : NumTuple) (h : numOKp n = true) : EPropR sty (.number t n) := by
  obtain ⟨m, hm, hr⟩ := NumRel_of_numOKp h
  exact atom_ER (k := .num m) (c := .num m)
    (by intro K; simp only [visitExpr, AllRd_number h, AllRd_nil, hm, Option.getD_some]) rfl
    (by simp only [dsExpr, deExp]; exact .num t hr) rfl (by intro g rest; rw [simpleexp]; simp)

theorem string_ER (t : Token) (v : List Char) : EPropR sty (.string t v) :=
  atom_ER (k := .str (v.map fun c => SUnit.ch c.toNat)) (c := .str (v.map fun c => SUnit.ch c.toNat))
    (by
      intro K
      have := AllRd_visitString (K := K) (r := []) sty v
      simpa [visitExpr, AllRd_nil] using this) rfl
    (by simp only [dsExpr, deExp]; exact .str t v) rfl (by intro g rest; rw [simpleexp]; simp)

/-! ## from `PBody` to `EBody` -/

theorem E_of_PR {e : Expr} (hv : isVarLike e = true) (h : PPropR sty e) : EPropR sty e := by
  intro ks hks
  obtain ⟨hd, c, hrel, _, _, hb⟩ := h ks hks
  refine ⟨hd.headE, c, hrel, ?_⟩
  intro g F limit rest hg hF _ hs _
  have p := hd.headE.pos
  obtain ⟨g, rfl⟩ : ∃ f, g = f + 1 := ⟨g - 1, by omega⟩
  obtain ⟨F, rfl⟩ : ∃ f, F = f + 1 := ⟨F - 1, by omega⟩
  refine ⟨F, by omega, ?_⟩
  obtain ⟨k, tks, rfl, hkv⟩ := hd
  obtain ⟨F', hF', hsx⟩ := hb g rest (by omega)
  obtain ⟨F', rfl⟩ : ∃ f, F' = f + 1 := ⟨F' - 1, by omega⟩
  rw [suffixes_stop _ _ _ hs] at hsx
  refine climb_simple _ _ _ _ _ _ ?_ ?_
  · simpa using unOf_var hkv
  · rw [List.cons_append, simpleexp_var hkv]; exact hsx

theorem name_PR (t : Token) (n : List Char) (h : identOK n = true) : PPropR sty (.name t n) := by
  unfold PPropR
  simp only [visitExpr, AllRd_ident h, AllRd_nil]
  refine ⟨⟨_, _, rfl, .inr ⟨_, rfl⟩⟩, .name (String.ofList n), ?_, ?_, ?_, ?_⟩
  · simp only [dsExpr, deExp]; exact .name t n
  · intro _; rfl
  · intro h; cases h
  · intro F rest hF
    simp only [List.length_cons, List.length_nil] at hF ⊢
    obtain ⟨F, rfl⟩ : ∃ f, F = f + 1 := ⟨F - 1, by omega⟩
    refine ⟨F, by omega, ?_⟩
    rw [List.cons_append, suffixedexp]
    simp

end Tumfl.Theory
