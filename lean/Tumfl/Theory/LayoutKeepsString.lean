import Tumfl.Theory.LayoutKeepsBase
/-!
# `_string_ident` only cuts a quoted string into non-empty parts

`stringIdent q ind sty = .ok ps`: `ps` is `stringIdent.build parts` for a list `parts` of non-empty
pieces whose concatenation is `q`; `build` appends `\z` to every part but the last and puts Newline
separators in between.  Hence removing the last two characters of every non-final string piece of
`ps` and concatenating gives `q` back (`stringIdent_flatten`).  Progress of the `while input_string:`
loop (`stepPos_pos`, `stringIdentLoop_parts_ne_nil`, `stringIdentLoop_flatten`) is also the
termination argument of the Python loop: every round consumes at least one character.
-/
namespace Tumfl.Theory
open Tumfl.Model

/-! ## `__get_newline_pos` returns a positive position on non-empty input -/

theorem newlinePosFwd_ge (s : Array Char) (forb : List Nat) :
    ∀ (f p : Nat), min p s.size ≤ newlinePosFwd s forb f p
  | 0, p => by rw [newlinePosFwd]; exact Nat.min_le_left _ _
  | f + 1, p => by
    rw [newlinePosFwd]
    split
    · split
      · exact Nat.min_le_left _ _
      · have := newlinePosFwd_ge s forb f (p + 1)
        omega
    · exact Nat.min_le_right _ _

theorem newlinePosBack_ge (s : Array Char) (forb : List Nat) :
    ∀ (n p : Nat), newlinePosBack s forb n = some p → 2 ≤ p
  | 0, p, h => by rw [newlinePosBack] at h; cases h
  | n + 1, p, h => by
    rw [newlinePosBack] at h
    split at h
    · cases h
    · simp only at h
      split at h
      · cases h; omega
      · exact newlinePosBack_ge s forb n p h

theorem getNewlinePos_pos (input : List Char) (limit : Int) (hne : input ≠ []) :
    1 ≤ getNewlinePos input limit := by
  have hlen : 1 ≤ input.length := by
    cases input with
    | nil => exact absurd rfl hne
    | cons _ _ => simp
  unfold getNewlinePos
  simp only
  split
  · exact hlen
  · rename_i hlt
    split
    · rename_i p hp
      have := newlinePosBack_ge _ _ _ _ hp
      omega
    · have h1 : 1 ≤ (max limit 1).toNat := by omega
      have := newlinePosFwd_ge input.toArray (escapePositions (input.length + 1) 0 input)
        (input.length + 1) (max limit 1).toNat
      simp only [List.size_toArray] at this
      omega

/-! ## the `while input_string:` loop -/

/-- the cut position of one round of the loop -/
def stepPos (limit : Int) (input : List Char) : Nat :=
  if (getNewlinePos input limit : Int) ≥ (input.length : Int) - 2 then input.length else getNewlinePos input limit

/-- progress: every round of the loop cuts off at least one character -/
theorem stepPos_pos (limit : Int) (input : List Char) (hne : input ≠ []) : 1 ≤ stepPos limit input := by
  unfold stepPos
  split
  · cases input with
    | nil => exact absurd rfl hne
    | cons _ _ => simp
  · exact getNewlinePos_pos input limit hne

theorem stringIdentLoop_succ (limit : Int) (f : Nat) (input : List Char) (hne : input ≠ []) :
    stringIdentLoop limit (f + 1) input =
      input.take (stepPos limit input) :: stringIdentLoop limit f (input.drop (stepPos limit input)) := by
  rw [stringIdentLoop]
  · rfl
  · exact hne

/-- every part cut off by the loop is non-empty (any fuel) -/
theorem stringIdentLoop_parts_ne_nil (limit : Int) :
    ∀ (f : Nat) (input : List Char) (p : List Char), p ∈ stringIdentLoop limit f input → p ≠ []
  | 0, input, p, h => by rw [stringIdentLoop] at h; cases h
  | f + 1, input, p, h => by
    by_cases hne : input = []
    · subst hne; rw [stringIdentLoop] at h; cases h
    · rw [stringIdentLoop_succ limit f input hne] at h
      rcases List.mem_cons.mp h with rfl | h
      · have := stepPos_pos limit input hne
        cases input with
        | nil => exact absurd rfl hne
        | cons c cs =>
          intro h0
          have hl := congrArg List.length h0
          simp at hl
          omega
      · exact stringIdentLoop_parts_ne_nil limit f _ p h

/-- with fuel above the length (the model uses `length + 1`) the loop consumes the whole input: the
parts concatenate to the input, so the fuel never runs out -/
theorem stringIdentLoop_flatten (limit : Int) :
    ∀ (f : Nat) (input : List Char), input.length < f → (stringIdentLoop limit f input).flatten = input
  | 0, input, h => by omega
  | f + 1, input, h => by
    by_cases hne : input = []
    · subst hne; rw [stringIdentLoop]; rfl
    · rw [stringIdentLoop_succ limit f input hne]
      have hp := stepPos_pos limit input hne
      have hl : (input.drop (stepPos limit input)).length < f := by
        rw [List.length_drop]
        cases input with
        | nil => exact absurd rfl hne
        | cons c cs => simp at h ⊢; omega
      rw [List.flatten_cons, stringIdentLoop_flatten limit f _ hl, List.take_append_drop]

/-! ## `build`: `\z` and Newline between the parts -/

/-- the string pieces of `build parts`: every part but the last gets `\z` appended -/
def markZ : List (List Char) → List (List Char)
  | [] => []
  | [p] => [p]
  | p :: rest => (p ++ ['\\', 'z']) :: markZ rest

/-- the inverse of `markZ`: drop the last two characters of every piece but the last -/
def dez : List (List Char) → List (List Char)
  | [] => []
  | [p] => [p]
  | p :: rest => p.take (p.length - 2) :: dez rest

theorem build_cons_cons (p q : List Char) (rest : List (List Char)) :
    stringIdent.build (p :: q :: rest) =
      .str (p ++ ['\\', 'z']) :: S .newline :: stringIdent.build (q :: rest) := by
  rw [stringIdent.build]; simp

theorem strs_build : ∀ parts : List (List Char), strs (stringIdent.build parts) = markZ parts
  | [] => by simp [stringIdent.build, markZ]
  | [p] => by simp [stringIdent.build, markZ]
  | p :: q :: rest => by
    rw [build_cons_cons, markZ, strs_cons_str, strs_cons_S, strs_build (q :: rest)]
    simp

theorem dez_markZ : ∀ parts : List (List Char), dez (markZ parts) = parts
  | [] => rfl
  | [p] => rfl
  | p :: q :: rest => by
    have ih := dez_markZ (q :: rest)
    cases hm : markZ (q :: rest) with
    | nil => cases rest <;> simp [markZ] at hm
    | cons a as =>
      rw [hm] at ih
      rw [markZ, hm, dez, ih]
      · simp
      · simp
      · simp

/-- the only separators `build` produces are Newlines -/
theorem build_sep : ∀ (parts : List (List Char)) (p : Piece), p ∈ stringIdent.build parts →
    p = .sep .newline ∨ ∃ s, p = .str s
  | [], p, h => by simp [stringIdent.build] at h
  | [a], p, h => by simp [stringIdent.build] at h; exact .inr ⟨_, h⟩
  | a :: b :: rest, p, h => by
    rw [build_cons_cons] at h
    rcases List.mem_cons.mp h with rfl | h
    · exact .inr ⟨_, rfl⟩
    · rcases List.mem_cons.mp h with rfl | h
      · exact .inl rfl
      · exact build_sep (b :: rest) p h

/-! ## `_string_ident` -/

theorem ite_ok {c : Prop} [Decidable c] {a b ps : Pieces}
    (h : (if c then (.ok a : R Pieces) else .ok b) = .ok ps) : ps = a ∨ ps = b := by
  split at h <;> cases h
  · exact .inl rfl
  · exact .inr rfl

/-- structure of the result of `_string_ident`: the input is cut into non-empty parts -/
theorem stringIdent_parts {q : List Char} {ind : Int} {sty : Style} {ps : Pieces}
    (h : stringIdent q ind sty = .ok ps) :
    ∃ parts : List (List Char), ps = stringIdent.build parts ∧ parts.flatten = q ∧ ∀ p ∈ parts, p ≠ [] := by
  unfold stringIdent at h
  split at h
  · rename_i qc l hq hl
    have hne : q ≠ [] := by intro h0; subst h0; simp at hq
    split at h
    · cases h
    · simp only at h
      rcases ite_ok h with rfl | rfl
      · refine ⟨[q], by simp [stringIdent.build], by simp, ?_⟩
        intro p hp; simp at hp; subst hp; exact hne
      · exact ⟨_, rfl, stringIdentLoop_flatten _ _ _ (Nat.lt_succ_self _),
          fun p hp => stringIdentLoop_parts_ne_nil _ _ _ p hp⟩
  · cases h

/-- `_string_ident` only accepts quoted strings -/
theorem stringIdent_isQuoted {q : List Char} {ind : Int} {sty : Style} {ps : Pieces}
    (h : stringIdent q ind sty = .ok ps) : isQuoted q = true := by
  unfold stringIdent at h
  split at h
  · rename_i qc l hq hl
    split at h
    · cases h
    · rename_i hc
      simp only [isQuoted, hq]
      simp at hc
      by_cases hq' : qc = '\''
      · simp [hq']
      · simp [hc.1 hq']
  · cases h

/-- the string pieces of the result, with the `\z` of every piece but the last removed, concatenate to
the original string -/
theorem stringIdent_flatten {q : List Char} {ind : Int} {sty : Style} {ps : Pieces}
    (h : stringIdent q ind sty = .ok ps) : (dez (strs ps)).flatten = q := by
  obtain ⟨parts, rfl, hq, _⟩ := stringIdent_parts h
  rw [strs_build, dez_markZ, hq]

/-- and every piece but the last does end in `\z`; the separators in between are Newlines -/
theorem stringIdent_shape {q : List Char} {ind : Int} {sty : Style} {ps : Pieces}
    (h : stringIdent q ind sty = .ok ps) :
    ∃ parts : List (List Char), strs ps = markZ parts ∧ parts.flatten = q ∧ (∀ p ∈ parts, p ≠ []) ∧
      ∀ p ∈ ps, p = .sep .newline ∨ ∃ s, p = .str s := by
  obtain ⟨parts, rfl, hq, hne⟩ := stringIdent_parts h
  exact ⟨parts, strs_build parts, hq, hne, build_sep parts⟩

end Tumfl.Theory
