import Tumfl.Theory.CommentWF
/-!
# Non-vacuity of `formatComment_wf` and the counterexamples that show why its hypothesis is needed
-/
namespace Tumfl.Theory
open Tumfl Tumfl.Spec Tumfl.Model

def cwfStyle (sep : List Char) : Style where
  statementSeparator := ['\n']
  indentation := ['\t']
  argumentSeparator := [',', ' ']
  includeComments := true
  commentSep := sep
  useSingleQuote := false
  useCallShorthand := false
  removeUnnecessaryChars := false
  addAllBrackets := false
  addCloseBrackets := true
  spaceInTable := true
  newlineLimit := 4
  lineWidth := 120
  blockSpacer := 5
  keepSemicolon := false

theorem cwfStyle_blank : ∀ ch ∈ (cwfStyle [' ']).commentSep, ch = ' ' ∨ ch = '\t' := by
  intro ch h; simp [cwfStyle] at h; exact Or.inl h
theorem cwfStyle_empty : ∀ ch ∈ (cwfStyle []).commentSep, ch = ' ' ∨ ch = '\t' := by
  intro ch h; simp [cwfStyle] at h

/-- a short comment (surrounding blanks, including a trailing newline, are stripped) -/
example : formatComment (cwfStyle [' ']) "  hello world \n".toList = [.str "-- hello world".toList, .sep .newline] := by
  decide +kernel
/-- a multi-line comment is written as a long comment -/
example : formatComment (cwfStyle [' ']) "\nline 1\nline 2\n".toList =
    [.str "--[[line 1\nline 2]]".toList, .sep .statement] := by decide +kernel
/-- with a blank separator `[[x` stays a short comment: `-- [[x` is not a long comment -/
example : formatComment (cwfStyle [' ']) "[[x".toList = [.str "-- [[x".toList, .sep .newline] := by decide +kernel
/-- with an EMPTY separator `[[x` must not be written `--[[x` (that would open a long comment and swallow the code that follows) -/
example : formatComment (cwfStyle []) "[[x".toList = [.str "--[=[[[x]=]".toList, .sep .statement] := by decide +kernel
example : formatComment (cwfStyle []) "[==[x".toList = [.str "--[[[==[x]]".toList, .sep .statement] := by decide +kernel
/-- `[=x` does not open a bracket: short form even with the empty separator -/
example : formatComment (cwfStyle []) "[=x".toList = [.str "--[=x".toList, .sep .newline] := by decide +kernel
/-- a multi-line comment ending in `]`: the level is raised so that the closer is not found one character early -/
example : formatComment (cwfStyle [' ']) "a\nb]".toList = [.str "--[=[a\nb]]=]".toList, .sep .statement] := by decide +kernel
/-- ... and ending in `]=` -/
example : formatComment (cwfStyle [' ']) "a\nb]=".toList = [.str "--[[a\nb]=]]".toList, .sep .statement] := by decide +kernel
/-- a single-line comment ending in `]` is a short comment -/
example : formatComment (cwfStyle []) "x]".toList = [.str "--x]".toList, .sep .newline] := by decide +kernel
/-- the empty comment -/
example : formatComment (cwfStyle []) " \n ".toList = [.str "--".toList, .sep .newline] := by decide +kernel

/-- the theorem applied: both disjuncts occur -/
example : ∃ t, formatComment (cwfStyle []) "x]".toList = [.str t, .sep .newline] ∧ IsShortComment t := by
  rcases formatComment_wf (cwfStyle []) cwfStyle_empty "x]".toList with h | ⟨t, h, _⟩
  · exact h
  · have e : formatComment (cwfStyle []) "x]".toList = [.str "--x]".toList, .sep .newline] := by decide +kernel
    rw [e] at h; simp at h
example : ∃ t, formatComment (cwfStyle []) "[[x".toList = [.str t, .sep .statement] ∧ IsLongComment t := by
  rcases formatComment_wf (cwfStyle []) cwfStyle_empty "[[x".toList with ⟨t, h, _⟩ | h
  · have e : formatComment (cwfStyle []) "[[x".toList = [.str "--[=[[[x]=]".toList, .sep .statement] := by decide +kernel
    rw [e] at h; simp at h
  · exact h

/-- REMARK (outside the statement: `IsShortComment` and the reference lexer only know LF as a line end, "CR is out of scope"):
a carriage return in the middle of a text is neither stripped nor a reason for the long form, so it is written into a short comment.
A real Lua reader ends the comment at the CR. -/
example : formatComment (cwfStyle [' ']) "a\rb".toList = [.str "-- a\rb".toList, .sep .newline] := by decide +kernel

/-! ## the hypothesis on the separator is needed -/

/-- separator `[`: the text `[x` is written `--[[x`, which the reference reads as the opener of a long comment -/
example : formatComment (cwfStyle ['[']) "[x".toList = [.str "--[[x".toList, .sep .newline] ∧
    longOpener ("--[[x".toList.drop 2) = some (0, ['x']) := by decide +kernel
theorem not_wf_bracket_sep : ¬ ((∃ t, formatComment (cwfStyle ['[']) "[x".toList = [.str t, .sep .newline] ∧ IsShortComment t) ∨
    (∃ t, formatComment (cwfStyle ['[']) "[x".toList = [.str t, .sep .statement] ∧ IsLongComment t)) := by
  have e : formatComment (cwfStyle ['[']) "[x".toList = [.str "--[[x".toList, .sep .newline] := by decide +kernel
  rw [e]
  rintro (⟨t, h, body, hb, _, hlo⟩ | ⟨t, h, _⟩)
  · simp only [List.cons.injEq, Piece.str.injEq, and_true] at h
    subst h
    have : body = "[[x".toList := by
      have : "--[[x".toList = '-' :: '-' :: "[[x".toList := by decide
      rw [this] at hb; simp only [List.cons.injEq, true_and] at hb; exact hb.symm
    subst this
    revert hlo; decide +kernel
  · simp at h

/-- separator containing a newline: the "short" comment ends at that newline and the text becomes code -/
theorem not_wf_newline_sep : ¬ ((∃ t, formatComment (cwfStyle ['\n']) "x".toList = [.str t, .sep .newline] ∧ IsShortComment t) ∨
    (∃ t, formatComment (cwfStyle ['\n']) "x".toList = [.str t, .sep .statement] ∧ IsLongComment t)) := by
  have e : formatComment (cwfStyle ['\n']) "x".toList = [.str "--\nx".toList, .sep .newline] := by decide +kernel
  rw [e]
  rintro (⟨t, h, body, hb, hnl, _⟩ | ⟨t, h, _⟩)
  · simp only [List.cons.injEq, Piece.str.injEq, and_true] at h
    subst h
    have : body = "\nx".toList := by
      have : "--\nx".toList = '-' :: '-' :: "\nx".toList := by decide
      rw [this] at hb; simp only [List.cons.injEq, true_and] at hb; exact hb.symm
    subst this
    exact hnl (by decide)
  · simp at h

end Tumfl.Theory

