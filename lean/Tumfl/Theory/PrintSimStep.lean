import Tumfl.Theory.PrintSimTok
import Tumfl.Theory.PrintSimFuel
import Tumfl.Theory.ClimbRel
/-!
# One-step lemmas of the reference parser on `mkTok` tokens
-/
namespace Tumfl.Theory
open Tumfl.Model Tumfl.Spec

/-- tokens that continue a suffixed expression -/
def sfx : Tk → Bool
  | .sym "." | .sym "[" | .sym ":" | .sym "(" | .sym "{" | .str _ => true
  | _ => false

/-- left priority of the head token if it is a binary operator -/
def hdLp (ts : List Spec.Tok) : Nat := match binOfTk (pk ts) with | some o => lp o | none => 0

/-- a token that ends an expression statement / expression list: no suffix, no binary operator, no `,`, no `=` -/
def safeTk (k : Tk) : Bool := !sfx k && (binOfTk k).isNone && k != .sym "," && k != .sym "="

/-- a token at which `statlist` starts a statement (not a block end, not `return`) -/
def startTk (k : Tk) : Bool := !blockFollow true k && k != .kw "return"

@[simp] theorem pk_mkTok (k : Tk) (ts : List Spec.Tok) : pk (mkTok k :: ts) = k := rfl
@[simp] theorem tail_mkTok (k : Tk) (ts : List Spec.Tok) : (mkTok k :: ts).tail = ts := rfl

theorem isSym_mkTok (s : String) (k : Tk) (ts : List Spec.Tok) : isSym s (mkTok k :: ts) = (k == .sym s) := by
  cases k <;> simp [isSym]
  rename_i x
  by_cases h : x = s
  · subst h; simp
  · rw [beq_eq_false_iff_ne.mpr h, beq_eq_false_iff_ne.mpr (by intro e; cases e; exact h rfl)]

theorem isKw_mkTok (s : String) (k : Tk) (ts : List Spec.Tok) : isKw s (mkTok k :: ts) = (k == .kw s) := by
  cases k <;> simp [isKw]
  rename_i x
  by_cases h : x = s
  · subst h; simp
  · rw [beq_eq_false_iff_ne.mpr h, beq_eq_false_iff_ne.mpr (by intro e; cases e; exact h rfl)]

abbrev SS (g : Nat) := specSig (simpleexp g)

theorem suffixes_stop (f : Nat) (e : Exp) (ts : List Spec.Tok) (h : sfx (pk ts) = false) :
    suffixes (f + 1) e ts = .ok (e, ts) := by
  rw [suffixes]
  split <;> simp_all [sfx]

theorem climbLoop_stop (g f limit : Nat) (acc : Exp) (ts : List Spec.Tok) (h : hdLp ts ≤ limit) :
    climbLoop (SS g) (f + 1) limit acc ts = .ok (acc, ts) := by
  rw [climbLoop_succ]
  simp only [SS, specSig]
  unfold hdLp at h
  split
  · rename_i o ho
    simp only [ho] at h
    have : ¬ limit < lp o := by omega
    simp [this]
  · rfl

theorem hdLp_of_safe {ts : List Tok} (h : safeTk (pk ts) = true) : hdLp ts = 0 := by
  simp only [safeTk, Bool.and_eq_true, Bool.not_eq_true', Option.isNone_iff_eq_none] at h
  simp [hdLp, h.1.1.2]

theorem sfx_of_safe {k : Tk} (h : safeTk k = true) : sfx k = false := by
  simp only [safeTk, Bool.and_eq_true, Bool.not_eq_true'] at h
  exact h.1.1.1

end Tumfl.Theory
