import Tumfl.Theory.PrintSimRel
/-!
# Formatting preserves the program, at token level

`print_parse`: for every style and every printable tree `b`, the reference parser (`Spec.block`) reads the tokens of
`emit sty b` - classified piece by piece (`piecesTks`, no lexer), for both spellings of the statement separator (`semi`) -
as the tree `refRoot semi sty b`, with any fuel from `nRoot semi sty b` on;
`refRoot_rel`: that tree is the model tree modulo parentheses and empty statements.
`print_sim` puts the two together.
-/
namespace Tumfl.Theory
open Tumfl.Model Tumfl.Spec

theorem print_parse (semi : Bool) (sty : Style) (b : Model.Block) (hb : Printable b) (f : Nat) (hf : nRoot semi sty b ≤ f) :
    Spec.block f (toToks (piecesTks semi (emit sty b))) = .ok (refRoot semi sty b, [eofTok]) := by
  obtain ⟨t, ss, rets, c⟩ := b
  obtain ⟨hc, hp⟩ := hb
  simp only [Block.isChunk] at hc
  subst hc
  have hss : ∀ s ∈ ss, pStmt s = true ∧ StmtProp semi sty s := by
    cases rets <;> simp only [pBlock, Bool.and_eq_true, Bool.and_true] at hp
    · exact xstmts semi sty ss hp
    · exact xstmts semi sty ss hp.1
  have hr : ∀ es, rets = some es → pArgs es = true ∧ ∀ e ∈ es, XProp semi sty e := by
    intro es he
    subst he
    simp only [pBlock, Bool.and_eq_true] at hp
    exact ⟨hp.2, xargs semi sty es hp.2⟩
  exact root_step hss hr f hf

theorem refRoot_rel (semi : Bool) (sty : Style) (b : Model.Block) (hb : Printable b) :
    BlockRel (dropSemis b) (dropEmpty (refRoot semi sty b)) := by
  unfold dropSemis dropEmpty
  rw [deBlock_refRoot]
  exact relBlock semi sty b hb.2

/-- MAIN THEOREM.  For every style `sty`, both spellings of the statement separator (`semi`) and every printable tree `b`:
the reference parser reads the token reading of `emit sty b` completely (up to the final `eof`) as a tree that is `b` modulo
parentheses (`BlockRel`) and empty statements (`dropSemis` on the model side, `dropEmpty` on the reference side). -/
theorem print_sim (semi : Bool) (sty : Style) (b : Model.Block) (hb : Printable b) :
    ∃ f c, Spec.block f (toToks (piecesTks semi (emit sty b))) = .ok (c, [eofTok]) ∧ BlockRel (dropSemis b) (dropEmpty c) :=
  ⟨nRoot semi sty b, refRoot semi sty b, print_parse semi sty b hb _ (Nat.le_refl _), refRoot_rel semi sty b hb⟩

end Tumfl.Theory
