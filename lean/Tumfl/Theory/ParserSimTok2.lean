import Tumfl.Theory.ParserSimTok
import Tumfl.Theory.ParserSimRef2
/-!
# Token facts for the parser simulation, part 2: operators, block ends, suffix starts
-/
namespace Tumfl.Theory
open Tumfl.Model Tumfl.Spec

def binOfTT (ty : TT) : Option BOp :=
  match Gen.binaryTokens.lookup ty.name with
  | some n => BOp.all.find? fun o => o.sym == n
  | none => none

def unOfTT (ty : TT) : Option UOp :=
  match Gen.unaryTokens.lookup ty.name with
  | some n => UOp.all.find? fun o => o.sym == n
  | none => none

theorem binOfTok_eq (t : Token) : binOfTok t = binOfTT t.type := rfl
theorem unOfTok_eq (t : Token) : unOfTok t = unOfTT t.type := rfl

theorem binOfTT_kw : ∀ ty : TT, keywordTTs.contains ty = true → binOfTT ty = binOfTk (.kw ty.value) := by
  intro ty; cases ty <;> decide
theorem binOfTT_sym : ∀ ty : TT, symbolTTs.contains ty = true → binOfTT ty = binOfTk (.sym ty.value) := by
  intro ty; cases ty <;> decide
theorem unOfTT_kw : ∀ ty : TT, keywordTTs.contains ty = true → unOfTT ty = unOfTk (.kw ty.value) := by
  intro ty; cases ty <;> decide
theorem unOfTT_sym : ∀ ty : TT, symbolTTs.contains ty = true → unOfTT ty = unOfTk (.sym ty.value) := by
  intro ty; cases ty <;> decide

theorem binOf_rel {t : Token} {k : Tk} (hk : TkRel t k) : binOfTok t = binOfTk k := by
  rw [binOfTok_eq]
  cases k with
  | kw s => obtain ⟨h1, h2⟩ := hk; subst h2; exact binOfTT_kw _ h1
  | sym s => obtain ⟨h1, h2⟩ := hk; subst h2; exact binOfTT_sym _ h1
  | eof => have : t.type = .EOF := hk; rw [this]; decide
  | name n => have : t.type = .NAME := hk.1; rw [this]; simp [binOfTk]; decide
  | str n => have : t.type = .STRING := hk.1; rw [this]; simp [binOfTk]; decide
  | num n => have : t.type = .NUMBER := hk.1; rw [this]; simp [binOfTk]; decide

theorem unOf_rel {t : Token} {k : Tk} (hk : TkRel t k) : unOfTok t = unOfTk k := by
  rw [unOfTok_eq]
  cases k with
  | kw s => obtain ⟨h1, h2⟩ := hk; subst h2; exact unOfTT_kw _ h1
  | sym s => obtain ⟨h1, h2⟩ := hk; subst h2; exact unOfTT_sym _ h1
  | eof => have : t.type = .EOF := hk; rw [this]; decide
  | name n => have : t.type = .NAME := hk.1; rw [this]; simp [unOfTk]; decide
  | str n => have : t.type = .STRING := hk.1; rw [this]; simp [unOfTk]; decide
  | num n => have : t.type = .NUMBER := hk.1; rw [this]; simp [unOfTk]; decide

/-! ## block ends -/


theorem blockEnd_kw : ∀ ty : TT, keywordTTs.contains ty = true → blockEndTypes.contains ty = blockEndTk (.kw ty.value) := by
  intro ty; cases ty <;> decide
theorem blockEnd_sym : ∀ ty : TT, symbolTTs.contains ty = true → blockEndTypes.contains ty = blockEndTk (.sym ty.value) := by
  intro ty; cases ty <;> decide

theorem blockEnd_rel {t : Token} {k : Tk} (hk : TkRel t k) : blockEndTypes.contains t.type = blockEndTk k := by
  cases k with
  | kw s => obtain ⟨h1, h2⟩ := hk; subst h2; exact blockEnd_kw _ h1
  | sym s => obtain ⟨h1, h2⟩ := hk; subst h2; exact blockEnd_sym _ h1
  | eof => have : t.type = .EOF := hk; rw [this]; decide
  | name n => have : t.type = .NAME := hk.1; rw [this]; simp [blockEndTk, blockFollow]; decide
  | str n => have : t.type = .STRING := hk.1; rw [this]; simp [blockEndTk, blockFollow]; decide
  | num n => have : t.type = .NUMBER := hk.1; rw [this]; simp [blockEndTk, blockFollow]; decide

/-! ## suffix starts -/


theorem suffix_kw : ∀ ty : TT, keywordTTs.contains ty = true → suffixStarts.contains ty = suffixTk (.kw ty.value) := by
  intro ty; cases ty <;> decide
theorem suffix_sym : ∀ ty : TT, symbolTTs.contains ty = true → suffixStarts.contains ty = suffixTk (.sym ty.value) := by
  intro ty; cases ty <;> decide

theorem suffix_rel {t : Token} {k : Tk} (hk : TkRel t k) : suffixStarts.contains t.type = suffixTk k := by
  cases k with
  | kw s => obtain ⟨h1, h2⟩ := hk; subst h2; exact suffix_kw _ h1
  | sym s => obtain ⟨h1, h2⟩ := hk; subst h2; exact suffix_sym _ h1
  | eof => have : t.type = .EOF := hk; rw [this]; decide
  | name n => have : t.type = .NAME := hk.1; rw [this]; simp [suffixTk]; decide
  | str n => have : t.type = .STRING := hk.1; rw [this]; simp [suffixTk]; decide
  | num n => have : t.type = .NUMBER := hk.1; rw [this]; simp [suffixTk]; decide

end Tumfl.Theory
