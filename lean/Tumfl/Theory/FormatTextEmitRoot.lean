import Tumfl.Theory.FormatTextEmitMain
/-!
# Stage A: the emitted pieces (with the final statement separator restored) obey the adjacency discipline
-/
namespace Tumfl.Theory
open Tumfl Tumfl.Model

theorem calm_init : Calm DS.init := ⟨by simp [DS.init], by simp [DS.init], by simp [DS.init], by simp [DS.init]⟩

/-- `emit` of a chunk is the body without its last statement separator -/
theorem ft_emit_chunk (sty : Style) (b : Block) (hc : b.isChunk = true) :
    (bodyPieces sty b.stmts b.rets = [] ∧ emit sty b = []) ∨
    emit sty b ++ [S .statement] = bodyPieces sty b.stmts b.rets := by
  unfold emit
  rw [blk, hc, full_eq]
  simp only [if_true]
  rcases bodyPieces_last sty b.stmts b.rets with h | ⟨init, h⟩
  · left
    rw [h]
    exact ⟨rfl, rfl⟩
  · right
    rw [h]
    have : P "do" :: S .block :: S .indent :: (init ++ [S .statement] ++ [S .deindent, P "end"]) =
        [P "do", S .block, S .indent] ++ init ++ [S .statement, S .deindent, P "end"] := by simp
    rw [this, sliceInner_mid _ _ _ 3 3 rfl rfl]

/-- **STAGE A** -/
theorem disc_emit (sty : Style) (hd : DocStyle sty) (b : Block) (hp : Printable b) (hn : NumsCanon (numsBlock b)) :
    Disc DS.init (emit sty b ++ [S .statement]) := by
  have hb := sb_block sty hd b hp.2 hn
  rcases ft_emit_chunk sty b hp.1 with ⟨_, h⟩ | h
  · rw [h]
    exact ⟨⟨by simp [DS.init], by simp [DS.init], by simp [DS.init]⟩, trivial⟩
  · rw [h]
    exact (hb _ calm_init).1

end Tumfl.Theory
