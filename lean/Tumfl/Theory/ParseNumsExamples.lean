import Tumfl.Theory.ParseNums
import Tumfl.Theory.ParsePrintableExamples
/-!
# `parseText_numsCanon` is not vacuous

It applies to `printableExample` (which contains `5.`, `0x.8`, `0XA.8P1`, `3e-2`, `.5e+1`).
-/
namespace Tumfl.Theory
open Tumfl.Model

theorem printableExample_numsCanon :
    ∃ b hs, parseText printableExample = .ok (b, hs) ∧ Printable b ∧ NumsCanon (numsBlock b) := by
  obtain ⟨b, hs, h⟩ := ok_of_isOkP printableExample_parses
  exact ⟨b, hs, h, parseText_printable _ _ _ h, parseText_numsCanon _ _ _ h⟩

end Tumfl.Theory

