import Tumfl.Theory.ParserSimClimbC
import Tumfl.Theory.ParserSimSound
import Tumfl.Theory.ParserSimRefFacts
/-!
# Completeness of the model parser w.r.t. the reference parser: contracts and the symbolic-execution tactic
-/
namespace Tumfl.Theory
open Tumfl.Model Tumfl.Spec

/-! ## named pieces of model code (so that contracts can talk about them) -/

/-- the `return` part of `_parse_block` -/
def retCode (g : Nat) : PM (Option (List Expr)) := do
  if ← curIs .RETURN then
    eat (some .RETURN)
    let t ← curTok
    let es ← (if t.type == .SEMICOLON || blockEndTypes.contains t.type then pure [] else Model.parseExpList g)
    if ← curIs .SEMICOLON then eat
    pure (some es)
  else pure none

theorem parseBlock_succ (g : Nat) (tok : Token) (e : Bool) : Model.parseBlock (g + 1) tok e = (do
    let stmts ← Model.parseStatements g
    let rets ← retCode g
    if e then eat (some .END)
    pure (.mk tok stmts rets false)) := by
  rw [Model.parseBlock]; rfl

/-- the `else` part of `_parse_if` -/
def elseCode (g : Nat) : PM (Option Model.Block) := do
  if ← curIs .ELSE then
    switchHint "else block"
    let bt ← curTok
    eat
    let b ← Model.parseBlock g bt false
    pure (some b)
  else pure none

theorem parseIf_succ (g : Nat) : Model.parseIf (g + 1) = (do
    let ifTok ← curTok
    addHint "if" "if condition"
    eat (some .IF)
    let cond ← Model.parseExp g
    switchHint "if block"
    let bt ← curTok
    eat (some .THEN)
    let ifBlock ← Model.parseBlock g bt false
    let elifs ← Model.parseElseIfs g
    let els ← elseCode g
    eat (some .END)
    removeHint
    let tail : IfFalse := match els with | some b => .block b | none => .none
    let fl := elifs.foldr (fun (x : Token × Expr × Model.Block) acc => .elif x.1 x.2.1 (x.2.2.extendComment ifTok.comment) acc) tail
    pure (.iff ifTok cond (ifBlock.extendComment ifTok.comment) fl)) := by
  rw [Model.parseIf]; rfl

/-- the parameter part of `_parse_funcbody` -/
def paramsCode (c : Token) (g : Nat) : PM (List Expr) := do
  if c.type == .NAME then
    let names ← Model.parseNameList g none true
    let c2 ← curTok
    if c2.type == .ELLIPSIS then
      switchHint "varargs"
      eat
      pure (names ++ [.vararg c2])
    else pure names
  else if c.type == .ELLIPSIS then
    switchHint "varargs"
    eat
    pure [.vararg c]
  else pure []

theorem parseFuncBody_succ (g : Nat) (functionToken : Token) : Model.parseFuncBody (g + 1) functionToken = (do
    switchHint "parameters"
    eat (some .L_PAREN)
    let c ← curTok
    let params ← paramsCode c g
    let bt ← curTok
    switchHint "body"
    eat (some .R_PAREN)
    let body ← Model.parseBlock g bt true
    removeHint
    pure (params, body.extendComment functionToken.comment)) := by
  rw [Model.parseFuncBody]; rfl

def OptBlockRel : Option Model.Block → Option Spec.Block → Prop
  | none, none => True
  | some b, some b' => BlockRel b b'
  | _, _ => False

/-! ## the contracts at reference fuel `f'` -/

structure AllComplete (B : Bridge) (f' : Nat) : Prop where
  block : ∀ ts c ts', Spec.block f' ts = .ok (c, ts') → ∀ (tok : Token) (e : Bool) n, (e = true → pk ts' = .kw "end") →
    TPF B (fun g => Model.parseBlock g tok e) ts n n (fun b tsx => tsx = (if e then ts'.tail else ts') ∧ BlockRel b c)
  statlist : ∀ ts ss rt ts', Spec.statlist f' ts = .ok (ss, rt, ts') → ∃ ts1,
    (∀ n, TPF B (fun g => Model.parseStatements g) ts n n (fun r tsx => tsx = ts1 ∧ Forall₂ StmtRel r ss)) ∧
    (∀ n, TPF B retCode ts1 n n (fun r tsx => tsx = ts' ∧ RetsRel r rt))
  statement : ∀ ts s' ts', Spec.statement f' ts = .ok (s', ts') →
    ∀ n, TPF B (fun g => Model.parseStatement g) ts n n (fun r tsx => tsx = ts' ∧ StmtRel r s')
  ifrest : ∀ ts elifs els ts', Spec.ifrest f' ts = .ok (elifs, els, ts') → ∃ ts1 ts2,
    (∀ n, TPF B (fun g => Model.parseElseIfs g) ts (n + 1) (n + 1) (fun r tsx => tsx = ts1 ∧ Forall₂ ElifRel r elifs)) ∧
    (∀ n, TPF B elseCode ts1 (n + 1) (n + 1) (fun r tsx => tsx = ts2 ∧ OptBlockRel r els)) ∧
    pk ts2 = .kw "end" ∧ ts' = ts2.tail
  namelistRest : ∀ ts ns ts', Spec.namelistRest f' ts = .ok (ns, ts') → ∀ (first : Expr) n,
    TPF B (fun g => Model.parseNameList g (some first) false) ts n n
      (fun r tsx => tsx = ts' ∧ ∃ rest, r = first :: rest ∧ Forall₂ NameRel rest ns)
  namelistRest' : ∀ ts0 nm ns ts', pk ts0 = .name nm → Spec.namelistRest f' ts0.tail = .ok (ns, ts') → ∀ n,
    TPF B (fun g => Model.parseNames g false) ts0 n n (fun r tsx => tsx = ts' ∧ Forall₂ NameRel r (nm :: ns))
  dottedRest : ∀ ts ns ts', Spec.dottedRest f' ts = .ok (ns, ts') → ∀ n,
    TPF B (fun g => Model.parseDotted g) ts n n (fun r tsx => tsx = ts' ∧ Forall₂ NameRel r ns)
  attnamelist : ∀ ts ns ts', Spec.attnamelist f' ts = .ok (ns, ts') → ∀ n,
    TPF B (fun g => Model.parseAttNames g) ts (n + 1) (n + 1) (fun r tsx => tsx = ts' ∧ Forall₂ AttRel r ns)
  restassign : ∀ ts vs ts', Spec.restassign f' ts = .ok (vs, ts') → vs.all Spec.isVar = true → ∀ n,
    TPF B (fun g => Model.parseMoreVars g) ts n n (fun r tsx => tsx = ts' ∧ Forall₂ ExpRel r vs)
  explist : ∀ ts es ts', Spec.explist f' ts = .ok (es, ts') → ∀ n,
    TPF B (fun g => Model.parseExpList g) ts n n (fun r tsx => tsx = ts' ∧ Forall₂ ExpRel r es ∧ r ≠ [])
  expr : ∀ ts e' ts', Spec.expr f' ts = .ok (e', ts') → ∀ n,
    TPF B (fun g => Model.parseExp g) ts n n (fun e tsx => tsx = ts' ∧ ExpRel e e')
  simpleexp : AtomComplete B f'
  suffixedexp : ∀ ts r' ts', Spec.suffixedexp f' ts = .ok (r', ts') → ∀ (b : Bool) n, (b = true → NoParen r') →
    TPF B (fun g => Model.parseVar g b) ts n n (fun e tsx => tsx = ts' ∧ ExpRel e r')
  suffixes : ∀ e0 ts r' ts', Spec.suffixes f' e0 ts = .ok (r', ts') →
    (suffixTk (pk ts) = false → r' = e0 ∧ ts' = ts) ∧
    (suffixTk (pk ts) = true → NoParen r' ∧ ∀ (e : Expr) n, ExpRel e e0 →
      TPF B (fun g => Model.parseVarTerminal g e) ts n n (fun r tsx => tsx = ts' ∧ ExpRel r r'))
  funcargs : ∀ ts args ts', Spec.funcargs f' ts = .ok (args, ts') → ∀ n,
    TPF B (fun g => Model.parseArgs g) ts n n (fun r tsx => tsx = ts' ∧ Forall₂ ExpRel r args)
  fields : ∀ ts fs ts', Spec.fields f' ts = .ok (fs, ts') → ∃ ts1,
    (∀ n, TPF B (fun g => Model.parseFields g) ts n n (fun r tsx => tsx = ts1 ∧ Forall₂ FieldRel r fs)) ∧
    pk ts1 = .sym "}" ∧ ts' = ts1.tail
  body : ∀ ts ps va b ts', Spec.body f' ts = .ok (ps, va, b, ts') → ∀ (tok : Token) n,
    TPF B (fun g => Model.parseFuncBody g tok) ts (n + 1) n (fun r tsx => tsx = ts' ∧ ParamsRel r.1 ps va ∧ BlockRel r.2 b)
  parlist : ∀ ts ps va ts', Spec.parlist f' ts = .ok (ps, va, ts') → pk ts' = .sym ")" → ∀ (c : Token) n, TkRel c (pk ts) →
    TPF B (paramsCode c) ts (n + 1) (n + 1) (fun r tsx => tsx = ts' ∧ ParamsRel r ps va)
  parlist1 : ∀ ts ps va ts', Spec.parlist1 f' ts = .ok (ps, va, ts') → (va = false → pk ts' ≠ .sym "...") → ∀ n,
    TPF B (fun g => Model.parseNames g true) ts n n (fun r tsx => Forall₂ NameRel r ps ∧
      (if va then pk tsx = .sym "..." ∧ ts' = tsx.tail else ts' = tsx))

/-! ## tactics -/

macro "guard_tp" : tactic => `(tactic| with_reducible show TPF _ _ _ _ _ _)

theorem find_pk {t : Token} {k k0 : Tk} (_ : TkRel t k) (hp : k = k0) : k = k0 := hp

/-- after `curTok`: if the reference token is known, learn the model token type and reduce a `match` on it -/
macro "tp_tok" : tactic => `(tactic| (intro t hk; try (have hp := find_pk hk (by assumption); first
    | (have ht := type_of_pk' hk hp; simp only [ht])
    | (have ht := type_of_name hk hp; simp only [ht])
    | (have ht := type_of_str hk hp; simp only [ht])
    | (have ht := type_of_num hk hp; simp only [ht]))))

/-- a call of a function with a `TPF` contract whose postcondition is `tsx = ts' ∧ ..` -/
syntax "tp_call " term : tactic
macro_rules
  | `(tactic| tp_call $t) => `(tactic| (refine TPF_call $t ?_; intro _ _; refine and_imp.2 ?_; intro h; (try simp only [if_true, Bool.false_eq_true, if_false] at h); subst h; with_reducible destr))

/-- one syntax-directed step -/
syntax "tp_step " ident ident : tactic
macro_rules
  | `(tactic| tp_step $hC $ih) => `(tactic| (guard_tp; first
    | with_reducible apply TPF_pure
    | (with_reducible refine TPF_curTok ?_; tp_tok)
    | (with_reducible refine TPF_nxtTok fun _ _ => ?_)
    | with_reducible refine TPF_curIs ?_
    | (with_reducible apply TPF_eatSome $hC; focus (first | assumption | (simp [*]; done)))
    | (with_reducible apply TPF_eatNone $hC; focus (simp [*]; done))
    | (with_reducible apply TPF_eatName $hC; (focus assumption); intro _ _)
    | (with_reducible apply TPF_assertName; (focus assumption))
    | with_reducible apply TPF_addHint
    | with_reducible apply TPF_removeHint
    | with_reducible apply TPF_switchHint
    | tp_call (($ih).block _ _ _ (by assumption) _ _ _ (by first | (intro _; assumption) | (intro h; cases h) | (simp [*]; done)))
    | tp_call (($ih).statement _ _ _ (by assumption) _)
    | tp_call (($ih).namelistRest _ _ _ (by assumption) _ _)
    | tp_call (($ih).namelistRest' _ _ _ _ (by assumption) (by assumption) _)
    | tp_call (($ih).dottedRest _ _ _ (by assumption) _)
    | tp_call (($ih).attnamelist _ _ _ (by assumption) _)
    | tp_call (($ih).explist _ _ _ (by assumption) _)
    | tp_call (($ih).expr _ _ _ (by assumption) _)
    | tp_call (($ih).simpleexp _ _ _ (by assumption) _)
    | tp_call (($ih).funcargs _ _ _ (by assumption) _)
    | tp_call (($ih).body _ _ _ _ _ (by assumption) _ _)
    | with_reducible apply TPF_bind
    | (with_reducible apply TPF_ite_pos; focus (simp [*]; done))
    | (with_reducible apply TPF_ite_neg; focus (simp [*]; done))))
macro "tp " hC:ident ih:ident : tactic => `(tactic| repeat' tp_step $hC $ih)

/-! ## inversion of successful runs of the reference functions -/

theorem bind_ok_iff {α β : Type} {x : Except PErr α} {f : α → Except PErr β} {r : β} :
    (x >>= f) = .ok r ↔ ∃ a, x = .ok a ∧ f a = .ok r := by
  cases x with
  | error e => simp [bind, Except.bind]
  | ok a => simp [bind, Except.bind]

theorem expectSym_iff {s : String} {ts v : List Tok} : expectSym s ts = .ok v ↔ pk ts = .sym s ∧ ts.tail = v := by
  unfold expectSym
  by_cases h : isSym s ts = true
  · rw [if_pos h]; simp [isSym_iff.1 h]
  · rw [if_neg h]
    have : pk ts ≠ .sym s := fun h' => h (isSym_iff.2 h')
    simp [perr, this]

theorem expectKw_iff {s : String} {ts v : List Tok} : expectKw s ts = .ok v ↔ pk ts = .kw s ∧ ts.tail = v := by
  unfold expectKw
  by_cases h : isKw s ts = true
  · rw [if_pos h]; simp [isKw_iff.1 h]
  · rw [if_neg h]
    have : pk ts ≠ .kw s := fun h' => h (isKw_iff.2 h')
    simp [perr, this]

theorem expectName_iff {ts : List Tok} {v : String × List Tok} :
    expectName ts = .ok v ↔ pk ts = .name v.1 ∧ ts.tail = v.2 := by
  unfold expectName
  split
  · next n hn =>
    obtain ⟨a, b⟩ := v
    simp [hn]
  · next hn =>
    simp only [perr]
    constructor
    · intro h; cases h
    · intro h; exact absurd h.1 (hn _)

/-- process the antecedent of the goal: destructure, substitute, rewrite with the inversion lemmas, split -/
syntax "invl" : tactic
syntax "invl_h" : tactic
macro_rules
  | `(tactic| invl) => `(tactic| first
    | (refine exists_imp.2 ?_; intro _; invl)
    | (refine and_imp.2 ?_; invl <;> invl)
    | (intro h; invl_h))
macro_rules
  | `(tactic| invl_h) => `(tactic| (rename_i h; first
    | (subst h)
    | (cases h; done)
    | (simp only [bind_ok_iff, expectSym_iff, expectKw_iff, expectName_iff, isSym_iff, isKw_iff, Bool.or_eq_true, Except.ok.injEq, Prod.mk.injEq, Prod.exists, exists_and_left, exists_eq_left, and_assoc, pure, Except.pure, Bool.not_eq_true, Bool.or_eq_false_iff] at h; revert h; invl)
    | (split at h <;> (revert h; invl))
    | skip))

/-- decompose a successful run of a reference function (an equation `.. = .ok ..` in the `Except` monad) -/
macro "inv " h:ident : tactic => `(tactic| (revert $h:ident; invl))

end Tumfl.Theory
