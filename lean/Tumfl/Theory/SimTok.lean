import Tumfl.Model.Parser
import Tumfl.Spec.Parse
import Tumfl.Theory.Numeral
/-!
# Token correspondence between the model lexer and the reference lexer (shared vocabulary of the simulation proofs)
-/
namespace Tumfl.Theory
open Tumfl.Model

/-- the 22 keyword token types of an untyped lexer (`as` / `is` are names there) -/
def keywordTTs : List TT :=
  [.AND, .BREAK, .DO, .ELSE, .ELSEIF, .END, .FALSE, .FOR, .FUNCTION, .GOTO, .IF, .IN, .LOCAL, .NIL, .NOT, .OR, .REPEAT, .RETURN,
   .THEN, .TRUE, .UNTIL, .WHILE]

def symbolTTs : List TT :=
  [.PLUS, .MINUS, .MULT, .DIVIDE, .MODULO, .EXPONENT, .HASH, .EQUALS, .NOT_EQUALS, .LESS_EQUALS, .GREATER_EQUALS, .LESS_THAN,
   .GREATER_THAN, .ASSIGN, .L_PAREN, .R_PAREN, .L_CURL, .R_CURL, .L_BRACKET, .R_BRACKET, .SEMICOLON, .COLON, .LABEL_BORDER, .COMMA,
   .DOT, .CONCAT, .ELLIPSIS, .BIT_AND, .BIT_OR, .BIT_XOR, .BIT_SHIFT_LEFT, .BIT_SHIFT_RIGHT, .INTEGER_DIVISION]

/-- the scanned tuple prints to the canonical respelling of the reference numeral (holds for every numeral, K2/K3 included: `C07_roundtrip_canon`) -/
def NumRel (n : NumTuple) (m : Spec.Numeral) : Prop := Spec.parseNumeral (numberStr n) = some (canon m)

/-- a model token and a reference token kind denote the same lexical item -/
def TkRel (t : Token) (k : Spec.Tk) : Prop :=
  match k with
  | .eof => t.type = .EOF
  | .name n => t.type = .NAME ∧ ∃ s, t.value = .str s ∧ n = String.ofList s
  | .str u => t.type = .STRING ∧ ∃ s, t.value = .str s ∧ u = s.map (fun c => Spec.SUnit.ch c.toNat)
  | .num m => t.type = .NUMBER ∧ ∃ n, t.value = .num n ∧ NumRel n m
  | .kw s => keywordTTs.contains t.type = true ∧ t.type.value = s
  | .sym s => symbolTTs.contains t.type = true ∧ t.type.value = s

end Tumfl.Theory
