import Tumfl.Theory.ResolveSpec
import Tumfl.Theory.ResolveInline
import Tumfl.Theory.ResolveUnch
/-!
# Theorems about the dependency resolver model (`Tumfl/Model/Resolve.lean`)

1. lookup: `findFileInPath` returns the first candidate (start directory, then the search paths in order; suffixes
   `""`, `".tl"`, `".lua"`) that is a file;
2. after resolution no `require(<string literal>)` call remains;
3. trees without a call of the bare name `require` are returned unchanged (and `found` is not touched);
4. malformed / unresolvable `require` calls raise `InvalidDependencyError` with the call's token; classification of all
   errors of `resolveRecursive`; the `AssertionError` site of `visit_ExpFunctionCall` is unreachable.
-/
namespace Tumfl.Theory
open Tumfl.Model

/-! ## 1. Lookup -/

/-- a result of the lookup is a candidate and a file of `fs` -/
theorem findFileInPath_some_isFile {fs : FS} {sp : List Path} {name : List Char} {dir p : Path}
    (h : findFileInPath fs sp name dir = some p) : p ∈ candidates sp name dir ∧ fs.isFile p = true := by
  rw [findFileInPath_eq] at h
  split at h
  · cases h
  · exact ⟨List.mem_of_find?_eq_some h, List.find?_some h⟩

/-- it is the FIRST candidate that is a file: every earlier candidate is not a file -/
theorem findFileInPath_some_first {fs : FS} {sp : List Path} {name : List Char} {dir p : Path}
    (h : findFileInPath fs sp name dir = some p) :
    ∃ pre post, candidates sp name dir = pre ++ p :: post ∧ fs.isFile p = true ∧ ∀ q ∈ pre, fs.isFile q = false := by
  rw [findFileInPath_eq] at h
  split at h
  · cases h
  · obtain ⟨hp, pre, post, hc, hpre⟩ := List.find?_eq_some_iff_append.mp h
    exact ⟨pre, post, hc, hp, fun q hq => by simpa using hpre q hq⟩

theorem findFileInPath_none_iff (fs : FS) (sp : List Path) (name : List Char) (dir : Path) :
    findFileInPath fs sp name dir = none ↔
      (firstComp name).isEmpty = true ∨ ∀ q ∈ candidates sp name dir, fs.isFile q = false := by
  rw [findFileInPath_eq]
  split
  · simp [*]
  · rename_i hne
    simp [hne]

/-- conversely: the first candidate that is a file is the result -/
theorem findFileInPath_of_first {fs : FS} {sp : List Path} {name : List Char} {dir p : Path} {pre post : List Path}
    (hne : (firstComp name).isEmpty = false) (hc : candidates sp name dir = pre ++ p :: post)
    (hp : fs.isFile p = true) (hpre : ∀ q ∈ pre, fs.isFile q = false) :
    findFileInPath fs sp name dir = some p := by
  rw [findFileInPath_eq, hne]
  simp only [Bool.false_eq_true, if_false]
  exact List.find?_eq_some_iff_append.mpr ⟨hp, pre, post, hc, fun q hq => by simp [hpre q hq]⟩

/-! ### Non-vacuity: shadowing -/

/-- `m` exists in the start directory `proj` (as `.lua`) and in the search path `lib` (as `.tl` and `.lua`) -/
def exFS : FS :=
  { files := [(["proj", "m.lua"], []), (["lib", "m.tl"], []), (["lib", "m.lua"], []), (["lib", "n"], []),
              (["lib2", "m"], []), (["proj", "sub", "x.tl"], [])],
    dirs := [["proj"], ["lib"], ["lib2"], ["proj", "sub"]] }

example : candidates [["lib"]] "sub.x".toList ["proj"] =
    [["proj", "sub", "x"], ["proj", "sub", "x.tl"], ["proj", "sub", "x.lua"],
     ["lib", "sub", "x"], ["lib", "sub", "x.tl"], ["lib", "sub", "x.lua"]] := by decide
/-- the start directory shadows the search path, although `lib` has the earlier suffix `.tl` -/
example : findFileInPath exFS [["lib"], ["lib2"]] "m".toList ["proj"] = some ["proj", "m.lua"] := by decide
/-- `.tl` before `.lua`; `lib` before `lib2` (although `lib2` has the bare name) -/
example : findFileInPath exFS [["lib"], ["lib2"]] "m".toList ["elsewhere"] = some ["lib", "m.tl"] := by decide
example : findFileInPath exFS [["lib2"], ["lib"]] "m".toList ["elsewhere"] = some ["lib2", "m"] := by decide
example : findFileInPath exFS [["lib"]] "sub.x".toList ["proj"] = some ["proj", "sub", "x.tl"] := by decide
example : findFileInPath exFS [["lib"]] "sub..x".toList ["proj"] = some ["proj", "sub", "x.tl"] := by decide
example : findFileInPath exFS [["lib"]] "zz".toList ["proj"] = none := by decide
/-- empty first component (`require(".m")`, `require("")`) -/
example : findFileInPath exFS [["lib"]] ".m".toList ["proj"] = none := by decide
example : findFileInPath exFS [["lib"]] "".toList ["proj"] = none := by decide

/-! ## 2. No `require(<string literal>)` remains -/

theorem resolveExpr_no_require {fs : FS} {sp : List Path} {f : Nat} {dir : Path} {e e' : Expr} {st st' : RSt}
    (h : resolveExpr fs sp f dir e st = .ok (e', st')) : hasRequireExpr e' = false :=
  (((resolve_spec fs sp f).1 dir e st).1 e' st' h).1
theorem resolveExprs_no_require {fs : FS} {sp : List Path} {f : Nat} {dir : Path} {es es' : List Expr} {st st' : RSt}
    (h : resolveExprs fs sp f dir es st = .ok (es', st')) : hasRequireExprs es' = false :=
  ((resolve_spec fs sp f).2.1 dir es st).1 es' st' h
theorem resolveFields_no_require {fs : FS} {sp : List Path} {f : Nat} {dir : Path} {fds fds' : List Field} {st st' : RSt}
    (h : resolveFields fs sp f dir fds st = .ok (fds', st')) : hasRequireFields fds' = false :=
  ((resolve_spec fs sp f).2.2.1 dir fds st).1 fds' st' h
theorem resolveBlock_no_require {fs : FS} {sp : List Path} {f : Nat} {dir : Path} {b b' : Block} {st st' : RSt}
    (h : resolveBlock fs sp f dir b st = .ok (b', st')) : hasRequireBlock b' = false :=
  ((resolve_spec fs sp f).2.2.2.1 dir b st).1 b' st' h
theorem resolveStmts_no_require {fs : FS} {sp : List Path} {f : Nat} {dir : Path} {ss ss' : List Stmt} {st st' : RSt}
    (h : resolveStmts fs sp f dir ss st = .ok (ss', st')) : hasRequireStmts ss' = false :=
  ((resolve_spec fs sp f).2.2.2.2.1 dir ss st).1 ss' st' h
theorem resolveOptExpr_no_require {fs : FS} {sp : List Path} {f : Nat} {dir : Path} {o o' : Option Expr} {st st' : RSt}
    (h : resolveOptExpr fs sp f dir o st = .ok (o', st')) : hasRequireOptExpr o' = false :=
  ((resolve_spec fs sp f).2.2.2.2.2.1 dir o st).1 o' st' h
theorem resolveStmt_no_require {fs : FS} {sp : List Path} {f : Nat} {dir : Path} {s s' : Stmt} {st st' : RSt}
    (h : resolveStmt fs sp f dir s st = .ok (s', st')) : hasRequireStmt s' = false :=
  ((resolve_spec fs sp f).2.2.2.2.2.2.1 dir s st).1 s' st' h
theorem resolveFalse_no_require {fs : FS} {sp : List Path} {f : Nat} {dir : Path} {fl fl' : IfFalse} {st st' : RSt}
    (h : resolveFalse fs sp f dir fl st = .ok (fl', st')) : hasRequireFalse fl' = false :=
  ((resolve_spec fs sp f).2.2.2.2.2.2.2 dir fl st).1 fl' st' h

/-- `_parse_file` on an arbitrary path: the only additional error is `FileNotFoundError` for a missing file -/
theorem parseFile_spec_any (fs : FS) (p : Path) :
    Spec (parseFile fs p) (fun _ => True)
      (fun e => RGoodErr fs e ∨ (e = .py "FileNotFoundError" "dependency_resolver._parse_file" ∧ fs.read p = none)) := by
  cases h : fs.read p with
  | none =>
    intro st
    refine ⟨fun _ _ _ => trivial, ?_⟩
    intro e h'
    unfold parseFile at h'
    rw [h] at h'
    cases h'
    exact Or.inr ⟨rfl, rfl⟩
  | some text =>
    have hf : fs.isFile p = true := by unfold FS.isFile; unfold FS.read at h; rw [h]; rfl
    exact (parseFile_spec fs p hf).mono (fun _ h => h) (fun _ h => Or.inl h)

theorem resolveRecursive_spec (fs : FS) (main : Path) (sp : List Path) (fuel : Nat) :
    Spec (do let ast ← parseFile fs main; resolveBlock fs sp fuel (dirOf main) ast : RM Block)
      (fun b => hasRequireBlock b = false)
      (fun e => RGoodErr fs e ∨ (e = .py "FileNotFoundError" "dependency_resolver._parse_file" ∧ fs.read main = none)) :=
  Spec.bind (parseFile_spec_any fs main) fun ast _ =>
    ((resolve_spec fs sp fuel).2.2.2.1 (dirOf main) ast).mono (fun _ h => h) (fun _ h => Or.inl h)

/-- resolving yields a program in which no `require(<string literal>)` call remains -/
theorem resolve_no_require (fs : FS) (main : Path) (sp : List Path) (fuel : Nat) (b : Block)
    (h : resolveRecursive fs main sp fuel = .ok b) : hasRequireBlock b = false := by
  unfold resolveRecursive at h
  split at h
  · cases h
  · rename_i b' st' heq
    cases h
    exact ((resolveRecursive_spec fs main sp fuel) _).1 _ _ heq

/-! ## 3. Look-alikes are untouched -/

theorem resolveExpr_unchanged {fs : FS} {sp : List Path} {f : Nat} {dir : Path} {e e' : Expr} {st st' : RSt}
    (h : resolveExpr fs sp f dir e st = .ok (e', st')) (hm : mentionsRequireExpr e = false) : e' = e ∧ st' = st :=
  Prod.mk.inj ((resolve_unch fs sp f).1 dir e hm st _ h)
theorem resolveExprs_unchanged {fs : FS} {sp : List Path} {f : Nat} {dir : Path} {es es' : List Expr} {st st' : RSt}
    (h : resolveExprs fs sp f dir es st = .ok (es', st')) (hm : mentionsRequireExprs es = false) : es' = es ∧ st' = st :=
  Prod.mk.inj ((resolve_unch fs sp f).2.1 dir es hm st _ h)
theorem resolveFields_unchanged {fs : FS} {sp : List Path} {f : Nat} {dir : Path} {fds fds' : List Field} {st st' : RSt}
    (h : resolveFields fs sp f dir fds st = .ok (fds', st')) (hm : mentionsRequireFields fds = false) :
    fds' = fds ∧ st' = st :=
  Prod.mk.inj ((resolve_unch fs sp f).2.2.1 dir fds hm st _ h)
theorem resolveBlock_unchanged {fs : FS} {sp : List Path} {f : Nat} {dir : Path} {b b' : Block} {st st' : RSt}
    (h : resolveBlock fs sp f dir b st = .ok (b', st')) (hm : mentionsRequireBlock b = false) : b' = b ∧ st' = st :=
  Prod.mk.inj ((resolve_unch fs sp f).2.2.2.1 dir b hm st _ h)
theorem resolveStmts_unchanged {fs : FS} {sp : List Path} {f : Nat} {dir : Path} {ss ss' : List Stmt} {st st' : RSt}
    (h : resolveStmts fs sp f dir ss st = .ok (ss', st')) (hm : mentionsRequireStmts ss = false) : ss' = ss ∧ st' = st :=
  Prod.mk.inj ((resolve_unch fs sp f).2.2.2.2.1 dir ss hm st _ h)
theorem resolveOptExpr_unchanged {fs : FS} {sp : List Path} {f : Nat} {dir : Path} {o o' : Option Expr} {st st' : RSt}
    (h : resolveOptExpr fs sp f dir o st = .ok (o', st')) (hm : mentionsRequireOptExpr o = false) : o' = o ∧ st' = st :=
  Prod.mk.inj ((resolve_unch fs sp f).2.2.2.2.2.1 dir o hm st _ h)
theorem resolveStmt_unchanged {fs : FS} {sp : List Path} {f : Nat} {dir : Path} {s s' : Stmt} {st st' : RSt}
    (h : resolveStmt fs sp f dir s st = .ok (s', st')) (hm : mentionsRequireStmt s = false) : s' = s ∧ st' = st :=
  Prod.mk.inj ((resolve_unch fs sp f).2.2.2.2.2.2.1 dir s hm st _ h)
theorem resolveFalse_unchanged {fs : FS} {sp : List Path} {f : Nat} {dir : Path} {fl fl' : IfFalse} {st st' : RSt}
    (h : resolveFalse fs sp f dir fl st = .ok (fl', st')) (hm : mentionsRequireFalse fl = false) : fl' = fl ∧ st' = st :=
  Prod.mk.inj ((resolve_unch fs sp f).2.2.2.2.2.2.2 dir fl hm st _ h)

theorem rbind_ok {α β : Type} {x : RM α} {g : α → RM β} {st : RSt} {r : β × RSt} (h : (x >>= g) st = .ok r) :
    ∃ a s, x st = .ok (a, s) ∧ g a s = .ok r := by
  change StateT.bind x g st = _ at h
  unfold StateT.bind at h
  cases hx : x st with
  | error e => rw [hx] at h; cases h
  | ok r' => rw [hx] at h; exact ⟨r'.1, r'.2, rfl, h⟩

theorem parseFile_ok {fs : FS} {p : Path} {st st' : RSt} {b : Block} (h : parseFile fs p st = .ok (b, st')) :
    st' = st ∧ ∃ text hs, fs.read p = some text ∧ parseText text = .ok (b, hs) := by
  unfold parseFile at h
  split at h
  · cases h
  · rename_i text hr
    split at h
    · cases h
    · rename_i b' hs hp
      cases h
      exact ⟨rfl, text, hs, hr, hp⟩

/-- whole program: a main file that never calls the bare name `require` is returned as parsed -/
theorem resolveRecursive_unchanged (fs : FS) (main : Path) (sp : List Path) (fuel : Nat) (b : Block)
    (h : resolveRecursive fs main sp fuel = .ok b) :
    ∃ text b0 hs, fs.read main = some text ∧ parseText text = .ok (b0, hs) ∧
      (mentionsRequireBlock b0 = false → b = b0) := by
  unfold resolveRecursive at h
  split at h
  · cases h
  · rename_i b' st' heq
    cases h
    obtain ⟨b0, s0, h1, h2⟩ := rbind_ok heq
    obtain ⟨rfl, text, hs, hr, hp⟩ := parseFile_ok h1
    exact ⟨text, b0, hs, hr, hp, fun hm => (resolveBlock_unchanged h2 hm).1⟩

/-- method calls and calls through a field named `require` are not `require` calls -/
example (t t1 t2 t3 : Token) (x : Expr) (args : List Expr) (hx : mentionsRequireExpr x = false)
    (ha : mentionsRequireExprs args = false) :
    mentionsRequireExpr (.method t x (.name t1 "require".toList) args) = false ∧
    mentionsRequireExpr (.call t (.namedIndex t2 x (.name t3 "require".toList)) args) = false := by
  simp [mentionsRequireExpr, isRequireName, hx, ha]

/-! ## 4. Errors -/

theorem isRequireName_iff (e : Expr) : isRequireName e = true ↔ ∃ t, e = .name t "require".toList := by
  cases e <;> simp [isRequireName]

theorem isReqLit_iff (fn : Expr) (args : List Expr) :
    isReqLit fn args = true ↔ ∃ t ts v, fn = .name t "require".toList ∧ args = [.string ts v] := by
  unfold isReqLit
  rw [Bool.and_eq_true, isRequireName_iff]
  constructor
  · rintro ⟨⟨t, rfl⟩, h⟩
    unfold isStrLit1 at h
    split at h
    · rename_i ts v; exact ⟨t, ts, v, rfl, rfl⟩
    · cases h
  · rintro ⟨t, ts, v, rfl, rfl⟩
    exact ⟨⟨t, rfl⟩, rfl⟩

/-- the `AssertionError` site of `visit_ExpFunctionCall` is unreachable: without deduplication the lookup never
answers `None` -/
theorem getDependencyPath_false_ne_none (fs : FS) (sp : List Path) (name : List Char) (dir : Path) (t : Token)
    (st st' : RSt) : getDependencyPath fs sp name dir t false st ≠ .ok (none, st') := fun h =>
  ((getDependencyPath_spec fs sp name dir t false st).1 _ _ h).1 rfl rfl

theorem bind_error {α β : Type} {x : RM α} {g : α → RM β} {st : RSt} {e : PyErr} (h : x st = .error e) :
    (x >>= g) st = .error e := by
  show StateT.bind x g st = _
  unfold StateT.bind
  rw [h]; rfl

theorem getDependencyPath_missing {fs : FS} {sp : List Path} {name : List Char} {dir : Path} (t : Token) (dedup : Bool)
    (st : RSt) (h : findFileInPath fs sp name dir = none) :
    getDependencyPath fs sp name dir t dedup st = .error (.dependency "Could not find dependency" t) := by
  unfold getDependencyPath; rw [h]

/-- statement level: arguments other than exactly one string literal -/
theorem resolveStmt_require_wrong_args (fs : FS) (sp : List Path) (f : Nat) (dir : Path) (t : Token) (fn : Expr)
    (args : List Expr) (st : RSt) (hfn : isRequireName fn = true) (ha : isStrLit1 args = false) :
    resolveStmt fs sp (f + 1) dir (.call t fn args) st = .error (.dependency "Wrong require() arguments" t) := by
  simp only [resolveStmt, hfn, if_true]
  split
  · simp [isStrLit1] at ha
  · rfl

/-- statement level: the module is not found -/
theorem resolveStmt_require_missing (fs : FS) (sp : List Path) (f : Nat) (dir : Path) (t ts : Token) (fn : Expr)
    (name : List Char) (st : RSt) (hfn : isRequireName fn = true) (h : findFileInPath fs sp name dir = none) :
    resolveStmt fs sp (f + 1) dir (.call t fn [.string ts name]) st =
      .error (.dependency "Could not find dependency" t) := by
  simp only [resolveStmt, hfn, if_true]
  exact bind_error (getDependencyPath_missing t true st h)

/-- statement level: a module that is already in `found` is replaced by `;` (deduplication) -/
theorem resolveStmt_require_dedup (fs : FS) (sp : List Path) (f : Nat) (dir : Path) (t ts : Token) (fn : Expr)
    (name : List Char) (st : RSt) (p : Path) (hfn : isRequireName fn = true)
    (h : findFileInPath fs sp name dir = some p) (hf : st.found.contains p = true) :
    resolveStmt fs sp (f + 1) dir (.call t fn [.string ts name]) st = .ok (.semi t, st) := by
  simp only [resolveStmt, hfn, if_true]
  have : getDependencyPath fs sp name dir t true st = .ok (none, st) := by
    unfold getDependencyPath; rw [h]; simp only [Bool.true_and, hf, if_true]
  show StateT.bind _ _ _ = _
  unfold StateT.bind
  rw [this]; rfl

/-! ### Non-vacuity: an end-to-end run (statement-level inlining, expression-level inlining, deduplication) -/

def e2eFS : FS :=
  { files := [(["proj", "main.lua"], "require('m')\nlocal x = require('m')\nrequire('m')\nt.require('m')".toList),
              (["proj", "m.lua"], "y = 1".toList)],
    dirs := [["proj"]] }

def e2eCheck : Except PyErr Block → Bool
  | .ok (.mk _ [.block (.mk _ [.assign ..] none true),
               .localAssign _ _ (some [.call _ (.func _ [] (.mk _ [.assign ..] none true)) [.string ..]]),
               .semi _,
               .call _ (.namedIndex ..) [.string ..]] none true) => true
  | _ => false

example : e2eCheck (resolveRecursive e2eFS ["proj", "main.lua"] [] 20) = true := by decide +kernel
example : (match resolveRecursive e2eFS ["proj", "main.lua"] [] 20 with
    | .ok b => hasRequireBlock b | .error _ => true) = false := by decide +kernel
/-- a missing module and a malformed call, end to end -/
example : (match resolveRecursive { e2eFS with files := [(["proj", "main.lua"], "require('zz')".toList)] }
      ["proj", "main.lua"] [] 20 with
    | .error (.dependency "Could not find dependency" _) => true | _ => false) = true := by decide +kernel
example : (match resolveRecursive { e2eFS with files := [(["proj", "main.lua"], "require(m)".toList)] }
      ["proj", "main.lua"] [] 20 with
    | .error (.dependency "Wrong require() arguments" _) => true | _ => false) = true := by decide +kernel

theorem resolveExpr_require_wrong_args (fs : FS) (sp : List Path) (f : Nat) (dir : Path) (t : Token) (fn : Expr)
    (args : List Expr) (st : RSt) (hfn : isRequireName fn = true) (ha : isStrLit1 args = false) :
    resolveExpr fs sp (f + 1) dir (.call t fn args) st = .error (.dependency "Wrong require() arguments" t) := by
  simp only [resolveExpr, hfn, if_true]
  split
  · simp [isStrLit1] at ha
  · rfl

theorem resolveExpr_require_missing (fs : FS) (sp : List Path) (f : Nat) (dir : Path) (t ts : Token) (fn : Expr)
    (name : List Char) (st : RSt) (hfn : isRequireName fn = true) (h : findFileInPath fs sp name dir = none) :
    resolveExpr fs sp (f + 1) dir (.call t fn [.string ts name]) st =
      .error (.dependency "Could not find dependency" t) := by
  simp only [resolveExpr, hfn, if_true]
  exact bind_error (getDependencyPath_missing t false st h)

/-- every error of `resolve_recursive`: `InvalidDependencyError`, an error of the parser on some file of `fs`,
`FileNotFoundError` because the main file is missing, or fuel exhaustion (model artefact) -/
theorem resolveRecursive_error (fs : FS) (main : Path) (sp : List Path) (fuel : Nat) (e : PyErr)
    (h : resolveRecursive fs main sp fuel = .error e) :
    (∃ m t, e = .dependency m t) ∨ (∃ p text, fs.read p = some text ∧ parseText text = .error e) ∨
    (e = .py "FileNotFoundError" "dependency_resolver._parse_file" ∧ fs.read main = none) ∨ e = .fuel := by
  unfold resolveRecursive at h
  split at h
  · rename_i e' heq
    cases h
    rcases ((resolveRecursive_spec fs main sp fuel) _).2 _ heq with (h | h | h) | h
    · exact Or.inl h
    · exact Or.inr (Or.inl h)
    · exact Or.inr (Or.inr (Or.inr h))
    · exact Or.inr (Or.inr (Or.inl h))
  · cases h


end Tumfl.Theory
